(* Proofs about the extension pipeline model (Ext/ExtensionsModel.v). *)
From Coq Require Import List NArith Bool Lia.
From GQL Require Import Ext.ExtensionsModel Ext.ExtensionsSpec.
Import ListNotations.
Open Scope N_scope.

(* ------------------------------------------------------------------ *)
(* 1. No panic escapes: every hook call sits under a catch.            *)
(* ------------------------------------------------------------------ *)

Definition noraise {A} (m : M A) : Prop := exists a, snd m = Ret a.

Lemma noraise_ret : forall A (a : A), noraise (ret a).
Proof. intros A a. exists a. reflexivity. Qed.

Lemma noraise_bind : forall A B (m : M A) (f : A -> M B),
  noraise m -> (forall a, noraise (f a)) -> noraise (bind m f).
Proof.
  intros A B [l r] f [a Ha] Hf. cbn in Ha. subst r. unfold bind.
  destruct (Hf a) as [b Hb]. destruct (f a) as [l' r']. cbn in Hb. subst r'.
  exists b. reflexivity.
Qed.

Lemma noraise_catch : forall A (m : M A) (h : pval -> M A),
  (forall v, noraise (h v)) -> noraise (catch m h).
Proof.
  intros A [l [a|v]] h Hh; unfold catch.
  - exists a. reflexivity.
  - destruct (Hh v) as [b Hb]. destruct (h v) as [l' r']. cbn in Hb. subst r'. exists b. reflexivity.
Qed.

Lemma noraise_if : forall A (b : bool) (m1 m2 : M A), noraise m1 -> noraise m2 -> noraise (if b then m1 else m2).
Proof. intros A [|] m1 m2 H1 H2; assumption. Qed.

Ltac nr :=
  repeat first
    [ apply noraise_ret
    | apply noraise_catch; intros ?
    | apply noraise_if
    | apply noraise_bind; [| intros ?] ].

Lemma handle_inits_noraise : forall xs, noraise (handle_inits xs).
Proof. induction xs as [|[i x] r IH]; cbn [handle_inits]; nr. exact IH. Qed.

Lemma handle_start_noraise : forall ph xs, noraise (handle_start ph xs).
Proof. intros ph. induction xs as [|[i x] r IH]; cbn [handle_start]; nr. exact IH. Qed.

Lemma run_finish_noraise : forall ph n fs, noraise (run_finish ph n fs).
Proof. intros ph n. induction fs as [|[i f] r IH]; cbn [run_finish]; nr. exact IH. Qed.

Lemma add_results_noraise : forall xs, noraise (add_results xs).
Proof. induction xs as [|[i x] r IH]; cbn [add_results]; nr. exact IH. Qed.

Lemma resolve_field_noraise : forall k fb xs, noraise (resolve_field k fb xs).
Proof.
  intros k fb xs. unfold resolve_field. apply noraise_bind; [apply handle_start_noraise|].
  intros sf. destruct (snd fb); (apply noraise_bind; [apply run_finish_noraise | intros ?; apply noraise_ret]).
Qed.

Lemma exec_fields_noraise : forall fields k xs, noraise (exec_fields k fields xs).
Proof.
  induction fields as [|fb r IH]; intros k xs; cbn [exec_fields]; [apply noraise_ret|].
  apply noraise_bind; [apply resolve_field_noraise|]. intros a.
  apply noraise_bind; [apply IH|]. intros b. apply noraise_ret.
Qed.

Lemma run_body_noraise : forall c xs, noraise (run_body c xs).
Proof.
  intros [| | | |mut roots] xs; cbn [run_body]; try apply noraise_ret.
  apply noraise_bind; [apply exec_fields_noraise | intros a; apply noraise_ret].
Qed.

Lemma execute_plan_noraise : forall c xs, noraise (execute_plan c xs).
Proof.
  intros c xs. unfold execute_plan.
  apply noraise_bind; [apply handle_start_noraise|]. intros sf. apply noraise_if.
  - apply noraise_bind; [apply run_finish_noraise | intros ?; apply noraise_ret].
  - apply noraise_bind; [apply run_body_noraise|]. intros eb.
    apply noraise_bind; [apply run_finish_noraise|]. intros e6.
    apply noraise_bind; [apply add_results_noraise|]. intros a. apply noraise_ret.
Qed.

Lemma do_m_noraise : forall c xs, noraise (do_m c xs).
Proof.
  intros c xs. unfold do_m.
  apply noraise_bind; [apply handle_inits_noraise|]. intros e0. apply noraise_if; [apply noraise_ret|].
  apply noraise_bind; [apply handle_start_noraise|]. intros sf. apply noraise_if.
  { apply noraise_bind; [apply run_finish_noraise | intros ?; apply noraise_ret]. }
  assert (Hrest : noraise (bind (run_finish PParse 0 (snd sf)) (fun e2 =>
     if nz e2 then ret (e2, []) else
     bind (handle_start PValid xs) (fun sv =>
     if nz (fst sv) then bind (run_finish PValid (fst sv) (snd sv)) (fun e' => ret (fst sv + e', [])) else
     match c with
     | CInvalid m => bind (run_finish PValid (m + 1) (snd sv)) (fun e => ret (e + (m + 1), []))
     | _ => bind (run_finish PValid 0 (snd sv)) (fun e4 =>
            if nz e4 then ret (e4, []) else
            match c with COpErr => ret (1, []) | _ => execute_plan c xs end)
     end)))).
  { apply noraise_bind; [apply run_finish_noraise|]. intros e2. apply noraise_if; [apply noraise_ret|].
    apply noraise_bind; [apply handle_start_noraise|]. intros sv. apply noraise_if.
    { apply noraise_bind; [apply run_finish_noraise | intros ?; apply noraise_ret]. }
    assert (Hv : noraise (bind (run_finish PValid 0 (snd sv)) (fun e4 =>
            if nz e4 then ret (e4, []) else
            match c with COpErr => ret (1, []) | _ => execute_plan c xs end))).
    { apply noraise_bind; [apply run_finish_noraise|]. intros e4. apply noraise_if; [apply noraise_ret|].
      destruct c; try apply execute_plan_noraise. apply noraise_ret. }
    destruct c; try exact Hv.
    apply noraise_bind; [apply run_finish_noraise | intros ?; apply noraise_ret]. }
  destruct c; try exact Hrest.
  apply noraise_bind; [apply run_finish_noraise | intros ?; apply noraise_ret].
Qed.

Theorem do_model_never_crashes : forall c exts log, do_model c exts <> Crash log.
Proof.
  intros c exts log. unfold do_model.
  destruct (do_m_noraise c (index_from 0 exts)) as [a Ha].
  destruct (do_m c (index_from 0 exts)) as [l r]. cbn in Ha. subst r.
  destruct a as [n keys]. discriminate.
Qed.

(* ------------------------------------------------------------------ *)
(* 2. The log in closed form.                                          *)
(* ------------------------------------------------------------------ *)

Definition prepend {A} (l : list event) (m : M A) : M A := (l ++ fst m, snd m).

Lemma bind_ret_eq : forall A B (l : list event) (a : A) (f : A -> M B),
  bind (l, Ret a) f = prepend l (f a).
Proof. intros A B l a f. unfold bind, prepend. destruct (f a); reflexivity. Qed.

Lemma prepend_nil : forall A (m : M A), prepend [] m = m.
Proof. intros A [l r]; reflexivity. Qed.

Lemma prepend_prepend : forall A l1 l2 (m : M A), prepend l1 (prepend l2 m) = prepend (l1 ++ l2) m.
Proof. intros A l1 l2 [l r]. unfold prepend. cbn. rewrite app_assoc. reflexivity. Qed.

Lemma prepend_ret : forall A l (a : A), prepend l (ret a) = (l, Ret a).
Proof. intros. unfold prepend, ret. cbn. rewrite app_nil_r. reflexivity. Qed.

(* per-extension pieces *)
Definition init_ev (ix : N * ext) : list event := [EInit (fst ix) (is_ok (x_init (snd ix)))].
Definition inits (xs : list (N * ext)) := flat_map init_ev xs.
Fixpoint init_errs (xs : list (N * ext)) : N :=
  match xs with [] => 0 | ix :: r => (if is_ok (x_init (snd ix)) then 0 else 1) + init_errs r end.

Definition sres_of (s : sbeh) : sres := match s with SFn _ => SROk | SNil => SRNil | SPanic _ => SRFail end.
Definition start_ev (ph : phase) (ix : N * ext) : list event :=
  [EStart (fst ix) ph (sres_of (start_beh ph (snd ix)))].
Definition starts ph xs := flat_map (start_ev ph) xs.
Fixpoint start_errs (ph : phase) (xs : list (N * ext)) : N :=
  match xs with [] => 0 | ix :: r => (match start_beh ph (snd ix) with SPanic _ => 1 | _ => 0 end) + start_errs ph r end.
Fixpoint started (ph : phase) (xs : list (N * ext)) : list (N * option beh) :=
  match xs with
  | [] => []
  | ix :: r => (match start_beh ph (snd ix) with SFn f => [(fst ix, Some f)] | SNil => [(fst ix, None)] | SPanic _ => [] end) ++ started ph r
  end.

Definition fin_ev (ph : phase) (n : N) (ix : N * ext) : list event :=
  match start_beh ph (snd ix) with SFn b => [EFinish (fst ix) ph n (is_ok b)] | _ => [] end.
Definition fins ph n xs := flat_map (fin_ev ph n) xs.
Fixpoint fin_errs (ph : phase) (xs : list (N * ext)) : N :=
  match xs with
  | [] => 0
  | ix :: r => (match start_beh ph (snd ix) with SFn BOk => 0 | SFn (BPanic _) => 1 | SNil => 1 | SPanic _ => 0 end) + fin_errs ph r
  end.

Definition res_ev (ix : N * ext) : list event :=
  match x_has (snd ix) with
  | HTrue => [EHas (fst ix) HRTrue; EGet (fst ix) (is_ok (x_get (snd ix)))]
  | HFalse => [EHas (fst ix) HRFalse]
  | HPanic _ => [EHas (fst ix) HRFail]
  end.
Definition results xs := flat_map res_ev xs.
Fixpoint res_errs (xs : list (N * ext)) : N :=
  match xs with
  | [] => 0
  | ix :: r => (match x_has (snd ix) with HTrue => if is_ok (x_get (snd ix)) then 0 else 1 | HFalse => 0 | HPanic _ => 1 end) + res_errs r
  end.
Fixpoint res_keys (xs : list (N * ext)) : list N :=
  match xs with
  | [] => []
  | ix :: r => (match x_has (snd ix) with HTrue => if is_ok (x_get (snd ix)) then [x_name (snd ix)] else [] | _ => [] end) ++ res_keys r
  end.

Definition rn (st : step) : N := if rerrs (snd st) then 1 else 0.
Definition block (ph : phase) (n : N) (mid : list event) (xs : list (N * ext)) : list event :=
  starts ph xs ++ mid ++ fins ph n xs.
Fixpoint fields_log (k : N) (fields : list step) (xs : list (N * ext)) : list event :=
  match fields with
  | [] => []
  | fb :: r => block (PResolve k) (rout fb) [] xs ++ fields_log (k + 1) r xs
  end.
Fixpoint fields_errs (k : N) (fields : list step) (xs : list (N * ext)) : N :=
  match fields with
  | [] => 0
  | fb :: r => (start_errs (PResolve k) xs + fin_errs (PResolve k) xs + rn fb) + fields_errs (k + 1) r xs
  end.

Lemma handle_inits_eq : forall xs, handle_inits xs = (inits xs, Ret (init_errs xs)).
Proof.
  induction xs as [|[i x] r IH]; [reflexivity|].
  cbn [handle_inits inits flat_map init_errs]. rewrite IH.
  unfold call_init, init_ev. cbn [fst snd]. destruct (x_init x); cbn; rewrite ?app_nil_r; reflexivity.
Qed.

Lemma handle_start_eq : forall ph xs,
  handle_start ph xs = (starts ph xs, Ret (start_errs ph xs, started ph xs)).
Proof.
  intros ph. induction xs as [|[i x] r IH]; [reflexivity|].
  cbn [handle_start starts flat_map start_errs started]. rewrite IH.
  unfold call_start, start_ev. cbn [fst snd]. destruct (start_beh ph x); cbn; rewrite ?app_nil_r; reflexivity.
Qed.

Lemma run_finish_eq : forall ph n xs,
  run_finish ph n (started ph xs) = (fins ph n xs, Ret (fin_errs ph xs)).
Proof.
  intros ph n. induction xs as [|[i x] r IH]; [reflexivity|].
  cbn [started fins flat_map fin_errs]. unfold fin_ev. cbn [fst snd].
  destruct (start_beh ph x) as [[|v]| |v]; cbn [app run_finish]; rewrite IH; cbn; rewrite ?app_nil_r; reflexivity.
Qed.

Lemma add_results_eq : forall xs, add_results xs = (results xs, Ret (res_errs xs, res_keys xs)).
Proof.
  induction xs as [|[i x] r IH]; [reflexivity|].
  cbn [add_results results flat_map res_errs res_keys]. rewrite IH.
  unfold call_has, call_get, res_ev. cbn [fst snd]. destruct (x_has x); [destruct (x_get x)| |]; cbn; rewrite ?app_nil_r; reflexivity.
Qed.

Lemma resolve_field_eq : forall k fb xs,
  resolve_field k fb xs =
  (block (PResolve k) (rout fb) [] xs, Ret (start_errs (PResolve k) xs + fin_errs (PResolve k) xs + rn fb)).
Proof.
  intros k fb xs. unfold resolve_field. rewrite handle_start_eq, bind_ret_eq. cbn [fst snd].
  unfold block. cbn [app].
  unfold rn. destruct fb as [id rb]. cbn [snd].
  destruct rb; rewrite run_finish_eq, bind_ret_eq, prepend_ret; unfold prepend;
    cbn [rerrs fst snd]; rewrite ?N.add_0_r; reflexivity.
Qed.

Lemma exec_fields_eq : forall fields k xs,
  exec_fields k fields xs = (fields_log k fields xs, Ret (fields_errs k fields xs)).
Proof.
  induction fields as [|fb r IH]; intros k xs; [reflexivity|].
  cbn [exec_fields fields_log fields_errs]. rewrite resolve_field_eq, bind_ret_eq.
  rewrite IH, bind_ret_eq, prepend_ret. unfold prepend; cbn [fst snd]. reflexivity.
Qed.

Definition body_log (c : cls) xs : list event := match c with CExec _ _ => fields_log 0 (sched c) xs | _ => [] end.
Definition body_errs (c : cls) xs : N :=
  match c with CVarErr => 1 | CExec _ _ => fields_errs 0 (sched c) xs + thunk_fails c | _ => 0 end.

Lemma run_body_eq : forall c xs, run_body c xs = (body_log c xs, Ret (body_errs c xs)).
Proof.
  intros [| | | |mut roots] xs; cbn [run_body body_log body_errs]; try reflexivity.
  rewrite exec_fields_eq, bind_ret_eq, prepend_ret. reflexivity.
Qed.

(* which early return is taken: decided by all extensions together *)
Record flags := mkFlags {
  f_init : bool; f_ps : bool; f_pf : bool; f_vs : bool; f_vsn : N; f_vf : bool;
  f_es : bool; f_esn : N; f_eb : N }.

Definition flags_of (c : cls) (xs : list (N * ext)) : flags :=
  {| f_init := nz (init_errs xs);
     f_ps := nz (start_errs PParse xs); f_pf := nz (fin_errs PParse xs);
     f_vs := nz (start_errs PValid xs); f_vsn := start_errs PValid xs; f_vf := nz (fin_errs PValid xs);
     f_es := nz (start_errs PExec xs); f_esn := start_errs PExec xs; f_eb := body_errs c xs |}.

Definition exec_part (F : flags) (c : cls) xs : list event :=
  if f_es F then block PExec (f_esn F) [] xs
  else block PExec (f_eb F) (body_log c xs) xs ++ results xs.

Definition valid_part (F : flags) (c : cls) xs : list event :=
  if f_vs F then block PValid (f_vsn F) [] xs else
  match c with
  | CInvalid m => block PValid (m + 1) [] xs
  | _ => block PValid 0 [] xs ++
         if f_vf F then [] else match c with COpErr => [] | _ => exec_part F c xs end
  end.

Definition parse_part (F : flags) (c : cls) xs : list event :=
  if f_ps F then block PParse 1 [] xs else
  match c with
  | CSyntax => block PParse 1 [] xs
  | _ => block PParse 0 [] xs ++ if f_pf F then [] else valid_part F c xs
  end.

Definition shape (F : flags) (c : cls) xs : list event :=
  inits xs ++ if f_init F then [] else parse_part F c xs.

(* len(Result.Errors) in closed form *)
Definition exec_errs (c : cls) xs : N :=
  if nz (start_errs PExec xs) then start_errs PExec xs + fin_errs PExec xs
  else body_errs c xs + fin_errs PExec xs + res_errs xs.
Definition valid_errs (c : cls) xs : N :=
  if nz (start_errs PValid xs) then start_errs PValid xs + fin_errs PValid xs else
  match c with
  | CInvalid m => fin_errs PValid xs + (m + 1)
  | _ => if nz (fin_errs PValid xs) then fin_errs PValid xs else
         match c with COpErr => 1 | _ => exec_errs c xs end
  end.
Definition parse_errs (c : cls) xs : N :=
  if nz (start_errs PParse xs) then start_errs PParse xs + fin_errs PParse xs else
  match c with
  | CSyntax => fin_errs PParse xs + 1
  | _ => if nz (fin_errs PParse xs) then fin_errs PParse xs else valid_errs c xs
  end.
Definition total_errs (c : cls) xs : N :=
  if nz (init_errs xs) then init_errs xs else parse_errs c xs.

Lemma execute_plan_log : forall c xs,
  fst (execute_plan c xs) = exec_part (flags_of c xs) c xs /\
  exists keys, snd (execute_plan c xs) = Ret (exec_errs c xs, keys).
Proof.
  intros c xs. unfold execute_plan, exec_part, exec_errs. rewrite handle_start_eq, bind_ret_eq. cbn [fst snd flags_of f_es f_esn f_eb].
  destruct (nz (start_errs PExec xs)).
  - rewrite run_finish_eq, bind_ret_eq, prepend_ret. unfold prepend, block. cbn. split; [reflexivity | eexists; reflexivity].
  - rewrite run_body_eq, bind_ret_eq, run_finish_eq, bind_ret_eq, add_results_eq, bind_ret_eq, prepend_ret.
    unfold prepend, block. cbn. split; [| eexists; reflexivity].
    rewrite <- !app_assoc. reflexivity.
Qed.

Ltac leaf :=
  rewrite ?prepend_ret; unfold prepend, block; cbn [fst snd app];
  rewrite ?app_nil_r, <- ?app_assoc; cbn [app];
  split; [reflexivity | eexists; reflexivity].

Lemma do_m_log : forall c xs,
  fst (do_m c xs) = shape (flags_of c xs) c xs /\
  exists keys, snd (do_m c xs) = Ret (total_errs c xs, keys).
Proof.
  intros c xs. destruct (execute_plan_log c xs) as [HL [ek HE]].
  unfold do_m, shape, total_errs, parse_part, parse_errs, valid_part, valid_errs.
  rewrite handle_inits_eq, bind_ret_eq. cbn [fst snd flags_of f_init f_ps f_pf f_vs f_vsn f_vf].
  destruct (nz (init_errs xs)); [leaf|].
  rewrite handle_start_eq, bind_ret_eq. cbn [fst snd].
  destruct (nz (start_errs PParse xs)).
  { rewrite run_finish_eq, bind_ret_eq. leaf. }
  assert (Hcont :
    fst (prepend (inits xs) (prepend (starts PParse xs)
      (bind (run_finish PParse 0 (started PParse xs)) (fun e2 =>
       if nz e2 then ret (e2, []) else
       bind (handle_start PValid xs) (fun sv =>
       if nz (fst sv) then bind (run_finish PValid (fst sv) (snd sv)) (fun e' => ret (fst sv + e', [])) else
       match c with
       | CInvalid m => bind (run_finish PValid (m + 1) (snd sv)) (fun e => ret (e + (m + 1), []))
       | _ => bind (run_finish PValid 0 (snd sv)) (fun e4 =>
              if nz e4 then ret (e4, []) else
              match c with COpErr => ret (1, []) | _ => execute_plan c xs end)
       end))))) =
    inits xs ++ block PParse 0 [] xs ++
      (if nz (fin_errs PParse xs) then [] else
       if nz (start_errs PValid xs) then block PValid (start_errs PValid xs) [] xs else
       match c with
       | CInvalid m => block PValid (m + 1) [] xs
       | _ => block PValid 0 [] xs ++
              if nz (fin_errs PValid xs) then [] else match c with COpErr => [] | _ => exec_part (flags_of c xs) c xs end
       end) /\
    exists keys,
    snd (prepend (inits xs) (prepend (starts PParse xs)
      (bind (run_finish PParse 0 (started PParse xs)) (fun e2 =>
       if nz e2 then ret (e2, []) else
       bind (handle_start PValid xs) (fun sv =>
       if nz (fst sv) then bind (run_finish PValid (fst sv) (snd sv)) (fun e' => ret (fst sv + e', [])) else
       match c with
       | CInvalid m => bind (run_finish PValid (m + 1) (snd sv)) (fun e => ret (e + (m + 1), []))
       | _ => bind (run_finish PValid 0 (snd sv)) (fun e4 =>
              if nz e4 then ret (e4, []) else
              match c with COpErr => ret (1, []) | _ => execute_plan c xs end)
       end))))) =
    Ret (if nz (fin_errs PParse xs) then fin_errs PParse xs else
         if nz (start_errs PValid xs) then start_errs PValid xs + fin_errs PValid xs else
         match c with
         | CInvalid m => fin_errs PValid xs + (m + 1)
         | _ => if nz (fin_errs PValid xs) then fin_errs PValid xs else
                match c with COpErr => 1 | _ => exec_errs c xs end
         end, keys)).
  { rewrite run_finish_eq, bind_ret_eq.
    destruct (nz (fin_errs PParse xs)).
    { leaf. }
    rewrite handle_start_eq, bind_ret_eq. cbn [fst snd].
    destruct (nz (start_errs PValid xs)).
    { rewrite run_finish_eq, bind_ret_eq. leaf. }
    assert (Hv :
      fst (prepend (inits xs) (prepend (starts PParse xs) (prepend (fins PParse 0 xs) (prepend (starts PValid xs)
        (bind (run_finish PValid 0 (started PValid xs)) (fun e4 =>
              if nz e4 then ret (e4, []) else
              match c with COpErr => ret (1, []) | _ => execute_plan c xs end)))))) =
      inits xs ++ block PParse 0 [] xs ++ block PValid 0 [] xs ++
        (if nz (fin_errs PValid xs) then [] else match c with COpErr => [] | _ => exec_part (flags_of c xs) c xs end) /\
      exists keys,
      snd (prepend (inits xs) (prepend (starts PParse xs) (prepend (fins PParse 0 xs) (prepend (starts PValid xs)
        (bind (run_finish PValid 0 (started PValid xs)) (fun e4 =>
              if nz e4 then ret (e4, []) else
              match c with COpErr => ret (1, []) | _ => execute_plan c xs end)))))) =
      Ret (if nz (fin_errs PValid xs) then fin_errs PValid xs else
                match c with COpErr => 1 | _ => exec_errs c xs end, keys)).
    { rewrite run_finish_eq, bind_ret_eq.
      destruct (nz (fin_errs PValid xs)).
      { leaf. }
      assert (He : fst (prepend (inits xs) (prepend (starts PParse xs) (prepend (fins PParse 0 xs) (prepend (starts PValid xs)
                 (prepend (fins PValid 0 xs) (execute_plan c xs)))))) =
              inits xs ++ block PParse 0 [] xs ++ block PValid 0 [] xs ++ exec_part (flags_of c xs) c xs /\
              exists keys, snd (prepend (inits xs) (prepend (starts PParse xs) (prepend (fins PParse 0 xs) (prepend (starts PValid xs)
                 (prepend (fins PValid 0 xs) (execute_plan c xs)))))) = Ret (exec_errs c xs, keys)).
      { unfold prepend, block. cbn [fst snd app]. rewrite HL, HE. rewrite ?app_nil_r, <- ?app_assoc. cbn [app]. split; [reflexivity | eexists; reflexivity]. }
      destruct c; try exact He.
      leaf. }
    destruct c; try exact Hv.
    rewrite run_finish_eq, bind_ret_eq. leaf. }
  destruct c; try exact Hcont.
  rewrite run_finish_eq, bind_ret_eq. leaf.
Qed.

(* ------------------------------------------------------------------ *)
(* 3. What one extension sees: projection commutes with the shape.     *)
(* ------------------------------------------------------------------ *)

Definition pick (e : N) (xs : list (N * ext)) := filter (fun ix : N * ext => fst ix =? e) xs.

Lemma proj_app : forall e l1 l2, proj e (l1 ++ l2) = proj e l1 ++ proj e l2.
Proof. intros. unfold proj. apply filter_app. Qed.

Definition owned (g : N * ext -> list event) : Prop :=
  forall ix ev, In ev (g ix) -> ev_ext ev = fst ix.

Lemma proj_owned : forall e g ix, owned g -> proj e (g ix) = if fst ix =? e then g ix else [].
Proof.
  intros e g ix Hg. unfold proj. specialize (Hg ix).
  induction (g ix) as [|ev r IH]; [destruct (fst ix =? e); reflexivity|].
  cbn [filter]. rewrite (Hg ev (or_introl eq_refl)).
  rewrite IH by (intros ev' H; apply Hg; right; exact H).
  destruct (fst ix =? e); reflexivity.
Qed.

Lemma proj_flat_map : forall e g xs, owned g -> proj e (flat_map g xs) = flat_map g (pick e xs).
Proof.
  intros e g xs Hg. induction xs as [|ix r IH]; [reflexivity|].
  cbn [flat_map pick filter]. rewrite proj_app, IH, (proj_owned e g ix Hg). fold (pick e r).
  destruct (fst ix =? e); reflexivity.
Qed.

Lemma owned_init : owned init_ev.
Proof. intros ix ev [H|[]]. subst ev. reflexivity. Qed.
Lemma owned_start : forall ph, owned (start_ev ph).
Proof. intros ph ix ev [H|[]]. subst ev. reflexivity. Qed.
Lemma owned_fin : forall ph n, owned (fin_ev ph n).
Proof. intros ph n ix ev H. unfold fin_ev in H. destruct (start_beh ph (snd ix)); try contradiction. destruct H as [H|[]]. subst ev. reflexivity. Qed.
Lemma owned_res : owned res_ev.
Proof.
  intros ix ev H. unfold res_ev in H.
  destruct (x_has (snd ix)); cbn in H; repeat (destruct H as [H|H]; [subst ev; reflexivity|]); contradiction.
Qed.

Lemma proj_block : forall e ph n mid xs,
  proj e (block ph n mid xs) = block ph n (proj e mid) (pick e xs).
Proof.
  intros. unfold block, starts, fins. rewrite !proj_app, !proj_flat_map by (apply owned_start || apply owned_fin). reflexivity.
Qed.

Lemma proj_fields_log : forall e fields k xs, proj e (fields_log k fields xs) = fields_log k fields (pick e xs).
Proof.
  intros e. induction fields as [|fb r IH]; intros k xs; [reflexivity|].
  cbn [fields_log]. rewrite proj_app, proj_block. rewrite IH. reflexivity.
Qed.

Lemma proj_body_log : forall e c xs, proj e (body_log c xs) = body_log c (pick e xs).
Proof. intros e [| | | |mut roots] xs; try reflexivity. apply proj_fields_log. Qed.

Lemma proj_shape : forall e F c xs, proj e (shape F c xs) = shape F c (pick e xs).
Proof.
  intros e F c xs. unfold shape, parse_part, valid_part, exec_part.
  rewrite proj_app. unfold inits at 1. rewrite proj_flat_map by apply owned_init. fold (inits (pick e xs)).
  f_equal.
  destruct (f_init F); [reflexivity|].
  destruct (f_ps F); [apply proj_block|].
  assert (He : proj e (if f_es F then block PExec (f_esn F) [] xs
                       else block PExec (f_eb F) (body_log c xs) xs ++ results xs) =
               (if f_es F then block PExec (f_esn F) [] (pick e xs)
                else block PExec (f_eb F) (body_log c (pick e xs)) (pick e xs) ++ results (pick e xs))).
  { destruct (f_es F); [apply proj_block|].
    rewrite proj_app, proj_block, proj_body_log. unfold results. rewrite proj_flat_map by apply owned_res. reflexivity. }
  assert (Hv : proj e (block PValid 0 [] xs ++
                  (if f_vf F then [] else match c with COpErr => [] | _ =>
                     if f_es F then block PExec (f_esn F) [] xs
                     else block PExec (f_eb F) (body_log c xs) xs ++ results xs end)) =
               block PValid 0 [] (pick e xs) ++
                  (if f_vf F then [] else match c with COpErr => [] | _ =>
                     if f_es F then block PExec (f_esn F) [] (pick e xs)
                     else block PExec (f_eb F) (body_log c (pick e xs)) (pick e xs) ++ results (pick e xs) end)).
  { rewrite proj_app, proj_block. f_equal. destruct (f_vf F); [reflexivity|]. destruct c; try exact He. reflexivity. }
  assert (Hp : proj e (block PParse 0 [] xs ++
                  (if f_pf F then [] else
                   if f_vs F then block PValid (f_vsn F) [] xs else
                   match c with
                   | CInvalid m => block PValid (m + 1) [] xs
                   | _ => block PValid 0 [] xs ++
                      (if f_vf F then [] else match c with COpErr => [] | _ =>
                         if f_es F then block PExec (f_esn F) [] xs
                         else block PExec (f_eb F) (body_log c xs) xs ++ results xs end)
                   end)) =
               block PParse 0 [] (pick e xs) ++
                  (if f_pf F then [] else
                   if f_vs F then block PValid (f_vsn F) [] (pick e xs) else
                   match c with
                   | CInvalid m => block PValid (m + 1) [] (pick e xs)
                   | _ => block PValid 0 [] (pick e xs) ++
                      (if f_vf F then [] else match c with COpErr => [] | _ =>
                         if f_es F then block PExec (f_esn F) [] (pick e xs)
                         else block PExec (f_eb F) (body_log c (pick e xs)) (pick e xs) ++ results (pick e xs) end)
                   end)).
  { rewrite proj_app, proj_block. f_equal. destruct (f_pf F); [reflexivity|].
    destruct (f_vs F); [apply proj_block|]. destruct c; try exact Hv. apply proj_block. }
  destruct c; try exact Hp. apply proj_block.
Qed.

(* registration indices are distinct: one extension, or none, is picked *)
Lemma pick_above : forall (l : list ext) i e, e < i -> pick e (index_from i l) = [].
Proof.
  induction l as [|a r IH]; intros i e H; [reflexivity|].
  cbn [index_from pick filter fst]. destruct (N.eqb_spec i e) as [E|E]; [lia|].
  apply IH. lia.
Qed.

Lemma pick_index : forall (l : list ext) i e,
  pick e (index_from i l) = [] \/ exists x, pick e (index_from i l) = [(e, x)].
Proof.
  induction l as [|a r IH]; intros i e; [left; reflexivity|].
  cbn [index_from pick filter fst]. destruct (N.eqb_spec i e) as [E|E].
  - right. exists a. subst i. fold (pick e (index_from (e + 1) r)). rewrite pick_above by lia. reflexivity.
  - apply IH.
Qed.

(* ------------------------------------------------------------------ *)
(* 4. One extension's view is ordered, well bracketed and balanced.    *)
(* ------------------------------------------------------------------ *)

Definition le2 (a b : N * N) : Prop := fst a < fst b \/ (fst a = fst b /\ snd a <= snd b).
Definition nxt (a : N * N) : N * N := (fst a, snd a + 1).

Lemma le2_refl : forall a, le2 a a.
Proof. intros a. right. split; [reflexivity | lia]. Qed.
Lemma le2_trans : forall a b c, le2 a b -> le2 b c -> le2 a c.
Proof. unfold le2. intros a b c [H|[H H']] [K|[K K']]; [left; lia | left; lia | left; lia | right; split; lia]. Qed.

(* strictly increasing between two bounds *)
Fixpoint Inc (lo hi : N * N) (l : list (N * N)) : Prop :=
  match l with
  | [] => le2 lo hi
  | a :: r => le2 lo a /\ Inc (nxt a) hi r
  end.

Lemma Inc_lo : forall l lo lo' hi, le2 lo' lo -> Inc lo hi l -> Inc lo' hi l.
Proof.
  destruct l as [|a r]; cbn [Inc]; intros lo lo' hi H K.
  - eapply le2_trans; eassumption.
  - destruct K as [K1 K2]. split; [eapply le2_trans; eassumption | exact K2].
Qed.
Lemma Inc_hi : forall l lo hi hi', le2 hi hi' -> Inc lo hi l -> Inc lo hi' l.
Proof.
  induction l as [|a r IH]; cbn [Inc]; intros lo hi hi' H K.
  - eapply le2_trans; eassumption.
  - destruct K as [K1 K2]. split; [exact K1 | eapply IH; eassumption].
Qed.
Lemma Inc_app : forall l1 l2 lo mid hi, Inc lo mid l1 -> Inc mid hi l2 -> Inc lo hi (l1 ++ l2).
Proof.
  induction l1 as [|a r IH]; cbn [Inc app]; intros l2 lo mid hi H K.
  - eapply Inc_lo; eassumption.
  - destruct H as [H1 H2]. split; [exact H1 | eapply IH; eassumption].
Qed.
Lemma Inc_increasing : forall l lo hi, Inc lo hi l -> increasing l = true.
Proof.
  induction l as [|a r IH]; intros lo hi H; [reflexivity|].
  destruct r as [|b r']; [reflexivity|].
  cbn [Inc] in H. destruct H as [_ [H2 H3]].
  change (lt2 a b && increasing (b :: r') = true). apply andb_true_iff. split.
  - unfold lt2. unfold le2, nxt in H2. cbn [fst snd] in H2. apply orb_true_iff.
    destruct H2 as [H2|[H2 H2']]; [left; apply N.ltb_lt; exact H2|].
    right. apply andb_true_iff. split; [apply N.eqb_eq; exact H2 | apply N.ltb_lt; lia].
  - apply (IH (nxt a) hi). cbn [Inc]. split; assumption.
Qed.

Lemma count_app : forall p l1 l2, count p (l1 ++ l2) = count p l1 + count p l2.
Proof. intros. unfold count. rewrite filter_app, app_length. lia. Qed.

Lemma wb_app : forall l1 l2 s, wb (l1 ++ l2) s = match wb l1 s with Some s' => wb l2 s' | None => None end.
Proof.
  induction l1 as [|ev r IH]; intros l2 s; [reflexivity|].
  cbn [app wb]. destruct ev as [e o|e ph [| |]|e ph n o|e h|e o]; try apply IH.
  destruct s as [|top s']; [reflexivity|]. destruct (phase_eqb top ph); [apply IH | reflexivity].
Qed.

(* good: the list is one extension's events between two pipeline positions *)
Definition G (lo hi : N * N) (l : list event) : Prop :=
  Inc lo hi (map rank l) /\
  (forall s, wb l s = Some s) /\
  (forall e ph, count (is_start e ph) l = count (is_finish e ph) l).

Lemma G_nil : forall lo hi, le2 lo hi -> G lo hi [].
Proof. intros lo hi H. split; [exact H|]. split; [reflexivity|]. reflexivity. Qed.

Lemma G_app : forall mid lo hi l1 l2, G lo mid l1 -> G mid hi l2 -> G lo hi (l1 ++ l2).
Proof.
  intros mid lo hi l1 l2 [A1 [A2 A3]] [B1 [B2 B3]]. split; [|split].
  - rewrite map_app. eapply Inc_app; eassumption.
  - intros s. rewrite wb_app, A2. apply B2.
  - intros e ph. rewrite !count_app, A3, B3. reflexivity.
Qed.

Lemma G_weaken : forall lo hi lo' hi' l, le2 lo' lo -> le2 hi hi' -> G lo hi l -> G lo' hi' l.
Proof.
  intros lo hi lo' hi' l H K [A1 A2]. split; [|exact A2].
  eapply Inc_lo; [exact H|]. eapply Inc_hi; eassumption.
Qed.

Definition rs (ph : phase) : N * N := rank (EStart 0 ph SROk).
Definition rf (ph : phase) : N * N := rank (EFinish 0 ph 0 true).

Lemma rank_start : forall e ph r, rank (EStart e ph r) = rs ph.
Proof. intros e [| | |k] r; reflexivity. Qed.
Lemma rank_finish : forall e ph n o, rank (EFinish e ph n o) = rf ph.
Proof. intros e [| | |k] n o; reflexivity. Qed.
Lemma rs_lt_rf : forall ph, le2 (nxt (rs ph)) (rf ph).
Proof. intros [| | |k]; unfold le2, nxt, rs, rf; cbn; lia. Qed.
Lemma phase_eqb_refl : forall ph, phase_eqb ph ph = true.
Proof. intros [| | |k]; cbn; try reflexivity. apply N.eqb_refl. Qed.

Lemma G_block : forall ph n mid e x,
  G (nxt (rs ph)) (rf ph) mid -> G (rs ph) (nxt (rf ph)) (block ph n mid [(e, x)]).
Proof.
  intros ph n mid e x [M1 [M2 M3]].
  unfold block, starts, fins, start_ev, fin_ev. cbn [flat_map fst snd app]. rewrite app_nil_r.
  destruct (start_beh ph x) as [b| |v]; cbn [sres_of app]; rewrite ?app_nil_r.
  - split; [|split].
    + cbn [map Inc]. rewrite rank_start. split; [apply le2_refl|].
      rewrite map_app. eapply Inc_app; [exact M1|]. cbn [map Inc]. rewrite rank_finish.
      split; apply le2_refl.
    + intros s. cbn [wb]. rewrite wb_app, M2. cbn [wb]. rewrite phase_eqb_refl. reflexivity.
    + intros e' ph'. change (EStart e ph SROk :: mid ++ [EFinish e ph n (is_ok b)])
        with ([EStart e ph SROk] ++ mid ++ [EFinish e ph n (is_ok b)]).
      rewrite !count_app, M3. unfold count. cbn [filter is_start is_finish].
      destruct ((e =? e') && phase_eqb ph ph'); cbn [length]; change (N.of_nat 1) with 1; change (N.of_nat 0) with 0; lia.
  - split; [|split].
    + cbn [map Inc]. rewrite rank_start. split; [apply le2_refl|].
      eapply Inc_hi; [|exact M1]. unfold le2, nxt. cbn [fst snd]. right. split; [reflexivity|lia].
    + intros s. cbn [wb]. apply M2.
    + intros e' ph'. change (EStart e ph SRNil :: mid) with ([EStart e ph SRNil] ++ mid).
      rewrite !count_app, M3. reflexivity.
  - split; [|split].
    + cbn [map Inc]. rewrite rank_start. split; [apply le2_refl|].
      eapply Inc_hi; [|exact M1]. unfold le2, nxt. cbn [fst snd]. right. split; [reflexivity|lia].
    + intros s. cbn [wb]. apply M2.
    + intros e' ph'. change (EStart e ph SRFail :: mid) with ([EStart e ph SRFail] ++ mid).
      rewrite !count_app, M3. reflexivity.
Qed.

Lemma G_block0 : forall ph n e x, G (rs ph) (nxt (rf ph)) (block ph n [] [(e, x)]).
Proof. intros. apply G_block. apply G_nil. apply rs_lt_rf. Qed.

Ltac le2_solve := unfold le2, nxt, rs, rf, rank; cbn [fst snd]; lia.

Lemma G_fields : forall fields k e x, G (6, 2 * k) (7, 0) (fields_log k fields [(e, x)]).
Proof.
  induction fields as [|fb r IH]; intros k e x; cbn [fields_log].
  - apply G_nil. le2_solve.
  - apply (G_app (6, 2 * (k + 1))).
    + eapply G_weaken; [| |apply G_block0]; le2_solve.
    + apply IH.
Qed.

Lemma G_inits : forall e x, G (0, 0) (1, 0) (inits [(e, x)]).
Proof.
  intros e x. unfold inits, init_ev. cbn [flat_map fst snd app]. split; [|split].
  - cbn. unfold le2, nxt. cbn. lia.
  - reflexivity.
  - reflexivity.
Qed.

Lemma G_results : forall e x, G (8, 0) (10, 0) (results [(e, x)]).
Proof.
  intros e x. unfold results, res_ev. cbn [flat_map fst snd]. rewrite app_nil_r.
  destruct (x_has x); (split; [|split]; [cbn; unfold le2, nxt; cbn; lia | reflexivity | reflexivity]).
Qed.

Lemma G_body : forall c e x, G (nxt (rs PExec)) (rf PExec) (body_log c [(e, x)]).
Proof.
  intros c e x. destruct c as [| | | |mut roots]; cbn [body_log]; try (apply G_nil; le2_solve).
  eapply G_weaken; [| |apply (G_fields (sched (CExec mut roots)) 0)]; le2_solve.
Qed.

Lemma G_exec_part : forall F c e x, G (5, 0) (10, 0) (exec_part F c [(e, x)]).
Proof.
  intros F c e x. unfold exec_part. destruct (f_es F).
  - eapply G_weaken; [| |apply G_block0]; le2_solve.
  - apply (G_app (8, 0)).
    + eapply G_weaken; [| |apply G_block; apply G_body]; le2_solve.
    + apply G_results.
Qed.

Lemma G_valid_part : forall F c e x, G (3, 0) (10, 0) (valid_part F c [(e, x)]).
Proof.
  intros F c e x. unfold valid_part.
  assert (B : forall n, G (3, 0) (10, 0) (block PValid n [] [(e, x)])).
  { intros n. eapply G_weaken; [| |apply G_block0]; le2_solve. }
  assert (R : G (3, 0) (10, 0) (block PValid 0 [] [(e, x)] ++
               (if f_vf F then [] else match c with COpErr => [] | _ => exec_part F c [(e, x)] end))).
  { apply (G_app (5, 0)).
    - eapply G_weaken; [| |apply G_block0]; le2_solve.
    - destruct (f_vf F); [apply G_nil; le2_solve|].
      destruct c; try apply G_exec_part. apply G_nil; le2_solve. }
  destruct (f_vs F); [apply B|]. destruct c; try exact R. apply B.
Qed.

Lemma G_parse_part : forall F c e x, G (1, 0) (10, 0) (parse_part F c [(e, x)]).
Proof.
  intros F c e x. unfold parse_part.
  assert (B : forall n, G (1, 0) (10, 0) (block PParse n [] [(e, x)])).
  { intros n. eapply G_weaken; [| |apply G_block0]; le2_solve. }
  assert (R : G (1, 0) (10, 0) (block PParse 0 [] [(e, x)] ++ (if f_pf F then [] else valid_part F c [(e, x)]))).
  { apply (G_app (3, 0)).
    - eapply G_weaken; [| |apply G_block0]; le2_solve.
    - destruct (f_pf F); [apply G_nil; le2_solve | apply G_valid_part]. }
  destruct (f_ps F); [apply B|]. destruct c; try exact R. apply B.
Qed.

Lemma G_shape : forall F c e x, G (0, 0) (10, 0) (shape F c [(e, x)]).
Proof.
  intros F c e x. unfold shape. apply (G_app (1, 0)); [apply G_inits|].
  destruct (f_init F); [apply G_nil; le2_solve | apply G_parse_part].
Qed.

Lemma fields_log_nil : forall fields k, fields_log k fields [] = [].
Proof. induction fields as [|fb r IH]; intros k; [reflexivity|]. cbn [fields_log]. rewrite IH. reflexivity. Qed.

Lemma shape_nil : forall F c, shape F c [] = [].
Proof.
  intros F c. unfold shape, parse_part, valid_part, exec_part, block. cbn.
  assert (B : body_log c [] = []) by (destruct c; try reflexivity; apply fields_log_nil).
  rewrite B. destruct (f_init F), (f_ps F), (f_pf F), (f_vs F), (f_vf F), (f_es F), c; reflexivity.
Qed.

(* the view of any extension of the request *)
Lemma G_proj_model : forall c exts e,
  G (0, 0) (10, 0) (proj e (fst (do_m c (index_from 0 exts)))).
Proof.
  intros c exts e. destruct (do_m_log c (index_from 0 exts)) as [HL _]. rewrite HL, proj_shape.
  destruct (pick_index exts 0 e) as [H|[x H]]; rewrite H.
  - rewrite shape_nil. apply G_nil. le2_solve.
  - apply G_shape.
Qed.

(* ------------------------------------------------------------------ *)
(* 5. The per-extension clauses of C17 on the model's log.             *)
(* ------------------------------------------------------------------ *)

Lemma result_log_eq : forall c exts, result_log (do_model c exts) = fst (do_m c (index_from 0 exts)).
Proof.
  intros c exts. unfold do_model. destruct (do_m c (index_from 0 exts)) as [l [[n keys]|v]]; reflexivity.
Qed.

Theorem model_nested : forall c exts e, nested_ext e (result_log (do_model c exts)) = true.
Proof.
  intros c exts e. unfold nested_ext. rewrite result_log_eq.
  destruct (G_proj_model c exts e) as [_ [H _]]. rewrite H. reflexivity.
Qed.

Theorem model_ordered : forall c exts e, ordered_ext e (result_log (do_model c exts)) = true.
Proof.
  intros c exts e. unfold ordered_ext. rewrite result_log_eq.
  destruct (G_proj_model c exts e) as [H _]. eapply Inc_increasing. exact H.
Qed.

Lemma count_proj : forall p e l,
  (forall ev, p ev = true -> ev_ext ev = e) -> count p (proj e l) = count p l.
Proof.
  intros p e l Hp. unfold count, proj. f_equal. f_equal.
  induction l as [|ev r IH]; [reflexivity|]. cbn [filter].
  destruct (N.eqb_spec (ev_ext ev) e) as [E|E].
  - cbn [filter]. destruct (p ev); [f_equal|]; exact IH.
  - destruct (p ev) eqn:P; [exfalso; apply E; apply Hp; exact P | exact IH].
Qed.

Lemma le2_nxt_irrefl : forall r, ~ le2 (nxt r) r.
Proof. intros r H. unfold le2, nxt in H. cbn [fst snd] in H. lia. Qed.

Lemma Inc_count_zero : forall p r l lo hi,
  (forall ev, p ev = true -> rank ev = r) ->
  Inc lo hi (map rank l) -> le2 (nxt r) lo -> count p l = 0.
Proof.
  intros p r. induction l as [|a rest IH]; intros lo hi Hp H K; [reflexivity|].
  cbn [map Inc] in H. destruct H as [H1 H2].
  assert (P : p a = false).
  { destruct (p a) eqn:P; [|reflexivity]. exfalso. apply (le2_nxt_irrefl r).
    rewrite <- (Hp a P) at 2. eapply le2_trans; eassumption. }
  unfold count. cbn [filter]. rewrite P. apply (IH (nxt (rank a)) hi Hp H2).
  eapply le2_trans; [exact K|]. eapply le2_trans; [exact H1|].
  unfold le2, nxt. cbn [fst snd]. right. split; [reflexivity | lia].
Qed.

Lemma Inc_count_le1 : forall p r l lo hi,
  (forall ev, p ev = true -> rank ev = r) ->
  Inc lo hi (map rank l) -> count p l <= 1.
Proof.
  intros p r. induction l as [|a rest IH]; intros lo hi Hp H; [cbn; lia|].
  cbn [map Inc] in H. destruct H as [H1 H2].
  unfold count. cbn [filter]. destruct (p a) eqn:P.
  - cbn [length]. pose proof (Inc_count_zero p r rest (nxt (rank a)) hi Hp H2) as Z.
    rewrite (Hp a P) in Z. specialize (Z (le2_refl _)). unfold count in Z. lia.
  - apply (IH (nxt (rank a)) hi Hp H2).
Qed.

Lemma is_start_ext : forall e ph ev, is_start e ph ev = true -> ev_ext ev = e.
Proof.
  intros e ph [e' o|e' ph' [| |]|e' ph' n o|e' h|e' o] H; cbn in H; try discriminate.
  apply andb_true_iff in H. destruct H as [H _]. apply N.eqb_eq in H. exact H.
Qed.
Lemma is_finish_ext : forall e ph ev, is_finish e ph ev = true -> ev_ext ev = e.
Proof.
  intros e ph [e' o|e' ph' r|e' ph' n o|e' h|e' o] H; cbn in H; try discriminate.
  apply andb_true_iff in H. destruct H as [H _]. apply N.eqb_eq in H. exact H.
Qed.
Lemma phase_eqb_eq : forall a b, phase_eqb a b = true -> a = b.
Proof.
  intros [| | |j] [| | |k] H; cbn in H; try discriminate; try reflexivity.
  apply N.eqb_eq in H. subst. reflexivity.
Qed.
Lemma is_start_rank : forall e ph ev, is_start e ph ev = true -> rank ev = rs ph.
Proof.
  intros e ph [e' o|e' ph' [| |]|e' ph' n o|e' h|e' o] H; cbn in H; try discriminate.
  apply andb_true_iff in H. destruct H as [_ H]. apply phase_eqb_eq in H. subst. apply rank_start.
Qed.

Theorem model_balanced : forall c exts, balanced (result_log (do_model c exts)).
Proof.
  intros c exts e ph. unfold starts_of, finishes_of. rewrite result_log_eq.
  destruct (G_proj_model c exts e) as [H1 [_ H3]].
  rewrite <- (count_proj (is_start e ph) e) by apply is_start_ext.
  rewrite <- (count_proj (is_finish e ph) e) by apply is_finish_ext.
  split; [apply H3|].
  eapply Inc_count_le1; [apply is_start_rank | exact H1].
Qed.

(* the executable forms the runner applies to the implementation's log *)
Lemma count_pos : forall p l ev, In ev l -> p ev = true -> 1 <= count p l.
Proof.
  intros p l ev H P. unfold count.
  assert (I : In ev (filter p l)) by (apply filter_In; split; assumption).
  destruct (filter p l); [contradiction | cbn [length]; lia].
Qed.

Lemma balanced_balancedb : forall l, balanced l -> balancedb l = true.
Proof.
  intros l B. unfold balancedb. apply forallb_forall. intros ev I.
  destruct ev as [e o|e ph [| |]|e ph n o|e h|e o]; try reflexivity; cbn [balanced_at];
    destruct (B e ph) as [B1 B2]; apply andb_true_iff.
  - assert (1 <= starts_of e ph l).
    { eapply count_pos; [exact I|]. cbn. rewrite N.eqb_refl, phase_eqb_refl. reflexivity. }
    split; apply N.eqb_eq; lia.
  - assert (1 <= finishes_of e ph l).
    { eapply count_pos; [exact I|]. cbn. rewrite N.eqb_refl, phase_eqb_refl. reflexivity. }
    split; apply N.eqb_eq; lia.
Qed.

Theorem model_checks_per_ext : forall c exts,
  let l := result_log (do_model c exts) in
  balancedb l = true /\ nestedb l = true /\ orderedb l = true.
Proof.
  intros c exts l. split; [|split].
  - apply balanced_balancedb. apply model_balanced.
  - unfold nestedb. apply forallb_forall. intros e _. apply model_nested.
  - unfold orderedb. apply forallb_forall. intros e _. apply model_ordered.
Qed.

(* ------------------------------------------------------------------ *)
(* 6. Every failed hook is reported as an error of the result.         *)
(* ------------------------------------------------------------------ *)

Lemma count_cons : forall p ev l, count p (ev :: l) = (if p ev then 1 else 0) + count p l.
Proof. intros. unfold count. cbn [filter]. destruct (p ev); cbn [length]; lia. Qed.
Lemma count_nil : forall p, count p [] = 0.
Proof. reflexivity. Qed.

Lemma fail_inits : forall xs, count is_failure (inits xs) = init_errs xs.
Proof.
  induction xs as [|[i x] r IH]; [reflexivity|].
  unfold inits in *. cbn [flat_map init_errs]. unfold init_ev at 1. cbn [fst snd app].
  rewrite count_cons, IH. cbn [is_failure]. destruct (is_ok (x_init x)); reflexivity.
Qed.

Lemma fail_block : forall ph n mid xs,
  count is_failure (block ph n mid xs) = start_errs ph xs + fin_errs ph xs + count is_failure mid.
Proof.
  intros ph n mid xs. unfold block. rewrite !count_app.
  assert (H : count is_failure (starts ph xs) + count is_failure (fins ph n xs) = start_errs ph xs + fin_errs ph xs).
  { induction xs as [|[i x] r IH]; [reflexivity|].
    unfold starts, fins in *. cbn [flat_map start_errs fin_errs]. unfold start_ev at 1, fin_ev at 1. cbn [fst snd].
    rewrite !count_app. destruct (start_beh ph x) as [[|v]| |v]; cbn [sres_of]; rewrite ?count_cons, ?count_nil; cbn [is_failure is_ok negb]; lia. }
  lia.
Qed.

Lemma fail_results : forall xs, count is_failure (results xs) = res_errs xs.
Proof.
  induction xs as [|[i x] r IH]; [reflexivity|].
  unfold results in *. cbn [flat_map res_errs]. unfold res_ev at 1. cbn [fst snd]. rewrite count_app, IH.
  destruct (x_has x); rewrite ?count_cons, ?count_nil; cbn [is_failure]; [destruct (is_ok (x_get x))| |]; cbn [negb]; lia.
Qed.

Lemma fail_fields : forall fields k xs, count is_failure (fields_log k fields xs) <= fields_errs k fields xs.
Proof.
  induction fields as [|fb r IH]; intros k xs; [cbn; lia|].
  cbn [fields_log fields_errs]. rewrite count_app, fail_block, count_nil. specialize (IH (k + 1) xs). lia.
Qed.

Lemma fail_body : forall c xs, count is_failure (body_log c xs) <= body_errs c xs.
Proof.
  intros [| | | |mut roots] xs; cbn [body_log body_errs]; try (rewrite count_nil; lia).
  pose proof (fail_fields (sched (CExec mut roots)) 0 xs). lia.
Qed.

Lemma nz_false : forall n, nz n = false -> n = 0.
Proof. intros n H. unfold nz in H. apply negb_false_iff in H. apply N.eqb_eq in H. exact H. Qed.

Lemma fail_shape : forall c xs, count is_failure (shape (flags_of c xs) c xs) <= total_errs c xs.
Proof.
  intros c xs. unfold shape, total_errs, parse_part, parse_errs, valid_part, valid_errs, exec_part, exec_errs.
  cbn [flags_of f_init f_ps f_pf f_vs f_vsn f_vf f_es f_esn f_eb].
  rewrite count_app, fail_inits.
  destruct (nz (init_errs xs)) eqn:E0; [rewrite count_nil; lia|]. apply nz_false in E0. rewrite E0.
  pose proof (fail_body c xs) as HB.
  destruct (nz (start_errs PParse xs)) eqn:E1; [rewrite fail_block, count_nil; lia|]. apply nz_false in E1.
  assert (HE : count is_failure
                 (if nz (start_errs PExec xs) then block PExec (start_errs PExec xs) [] xs
                  else block PExec (body_errs c xs) (body_log c xs) xs ++ results xs) <=
               (if nz (start_errs PExec xs) then start_errs PExec xs + fin_errs PExec xs
                else body_errs c xs + fin_errs PExec xs + res_errs xs)).
  { destruct (nz (start_errs PExec xs)) eqn:E5; [rewrite fail_block, count_nil; lia|]. apply nz_false in E5.
    rewrite count_app, fail_block, fail_results. lia. }
  assert (HV : count is_failure (block PValid 0 [] xs ++
                 (if nz (fin_errs PValid xs) then [] else match c with COpErr => [] | _ =>
                    if nz (start_errs PExec xs) then block PExec (start_errs PExec xs) [] xs
                    else block PExec (body_errs c xs) (body_log c xs) xs ++ results xs end)) <=
               start_errs PValid xs +
               (if nz (fin_errs PValid xs) then fin_errs PValid xs else match c with COpErr => 1 | _ =>
                    if nz (start_errs PExec xs) then start_errs PExec xs + fin_errs PExec xs
                    else body_errs c xs + fin_errs PExec xs + res_errs xs end)).
  { rewrite count_app, fail_block, count_nil.
    destruct (nz (fin_errs PValid xs)) eqn:E4; [rewrite count_nil; lia|]. apply nz_false in E4.
    destruct c; try lia. rewrite count_nil. lia. }
  assert (HP : count is_failure (block PParse 0 [] xs ++
                 (if nz (fin_errs PParse xs) then [] else
                  if nz (start_errs PValid xs) then block PValid (start_errs PValid xs) [] xs else
                  match c with
                  | CInvalid m => block PValid (m + 1) [] xs
                  | _ => block PValid 0 [] xs ++
                     (if nz (fin_errs PValid xs) then [] else match c with COpErr => [] | _ =>
                        if nz (start_errs PExec xs) then block PExec (start_errs PExec xs) [] xs
                        else block PExec (body_errs c xs) (body_log c xs) xs ++ results xs end)
                  end)) <=
               (if nz (fin_errs PParse xs) then fin_errs PParse xs else
                if nz (start_errs PValid xs) then start_errs PValid xs + fin_errs PValid xs else
                match c with
                | CInvalid m => fin_errs PValid xs + (m + 1)
                | _ => if nz (fin_errs PValid xs) then fin_errs PValid xs else
                       match c with COpErr => 1 | _ =>
                         if nz (start_errs PExec xs) then start_errs PExec xs + fin_errs PExec xs
                         else body_errs c xs + fin_errs PExec xs + res_errs xs end
                end)).
  { rewrite count_app, fail_block, count_nil.
    destruct (nz (fin_errs PParse xs)) eqn:E2; [rewrite count_nil; lia|]. apply nz_false in E2.
    destruct (nz (start_errs PValid xs)) eqn:E3; [rewrite fail_block, count_nil; lia|]. apply nz_false in E3.
    rewrite E3 in HV.
    destruct c; try (destruct (nz (fin_errs PValid xs)); lia).
    rewrite fail_block, count_nil. lia. }
  rewrite N.add_0_l.
  destruct c; try exact HP.
  rewrite fail_block, count_nil. lia.
Qed.

Theorem model_reported : forall c exts log n keys,
  do_model c exts = Done log n keys -> reportedb log n = true.
Proof.
  intros c exts log n keys H. unfold do_model in H.
  destruct (do_m_log c (index_from 0 exts)) as [HL [ks HS]].
  destruct (do_m c (index_from 0 exts)) as [l r]. cbn [fst snd] in HL, HS. subst r l.
  injection H as H1 H2 H3. subst log n. unfold reportedb. apply N.leb_le. apply fail_shape.
Qed.

(* ------------------------------------------------------------------ *)
(* 7. Later phases do not start once the request has failed.           *)
(* ------------------------------------------------------------------ *)

Definition quiet (l : list event) : Prop := forall ev, In ev l -> fails_request ev = None.

Lemma stops_app : forall l1 l2,
  stopsb l1 = true -> stopsb l2 = true ->
  (forall ev b, In ev l1 -> fails_request ev = Some b -> forallb (allowed_after b) l2 = true) ->
  stopsb (l1 ++ l2) = true.
Proof.
  induction l1 as [|ev r IH]; intros l2 H1 H2 H3; [exact H2|].
  cbn [app stopsb] in *. apply andb_true_iff in H1. destruct H1 as [H1 H1'].
  apply andb_true_iff. split.
  - destruct (fails_request ev) as [b|] eqn:E; [|reflexivity].
    rewrite forallb_app, H1. apply (H3 ev b (or_introl eq_refl) E).
  - apply IH; [exact H1' | exact H2 |]. intros ev' b I. apply H3. right. exact I.
Qed.

Lemma stops_quiet : forall l, quiet l -> stopsb l = true.
Proof.
  induction l as [|ev r IH]; intros Q; [reflexivity|].
  cbn [stopsb]. rewrite (Q ev (or_introl eq_refl)). cbn. apply IH. intros ev' I. apply Q. right. exact I.
Qed.

Lemma stops_app_quiet : forall l1 l2, quiet l1 -> stopsb l2 = true -> stopsb (l1 ++ l2) = true.
Proof.
  intros l1 l2 Q H. apply stops_app; [apply stops_quiet; exact Q | exact H |].
  intros ev b I E. rewrite (Q ev I) in E. discriminate.
Qed.

Lemma stops_within : forall b l,
  (forall ev, In ev l -> allowed_after b ev = true) ->
  (forall ev b', In ev l -> fails_request ev = Some b' -> b' = b) ->
  stopsb l = true.
Proof.
  intros b. induction l as [|ev r IH]; intros A F; [reflexivity|].
  cbn [stopsb]. apply andb_true_iff. split.
  - destruct (fails_request ev) as [b'|] eqn:E; [|reflexivity].
    rewrite (F ev b' (or_introl eq_refl) E). apply forallb_forall. intros ev' I. apply A. right. exact I.
  - apply IH; [intros ev' I; apply A; right; exact I | intros ev' b' I; apply F; right; exact I].
Qed.

Lemma in_inits : forall ev xs, In ev (inits xs) -> exists ix, In ix xs /\ ev = EInit (fst ix) (is_ok (x_init (snd ix))).
Proof.
  intros ev xs H. unfold inits in H. apply in_flat_map in H. destruct H as [ix [I [H|[]]]]. exists ix. split; [exact I | symmetry; exact H].
Qed.
Lemma in_starts : forall ev ph xs, In ev (starts ph xs) ->
  exists ix, In ix xs /\ ev = EStart (fst ix) ph (sres_of (start_beh ph (snd ix))).
Proof.
  intros ev ph xs H. unfold starts in H. apply in_flat_map in H. destruct H as [ix [I [H|[]]]]. exists ix. split; [exact I | symmetry; exact H].
Qed.
Lemma in_fins : forall ev ph n xs, In ev (fins ph n xs) ->
  exists ix b, In ix xs /\ start_beh ph (snd ix) = SFn b /\ ev = EFinish (fst ix) ph n (is_ok b).
Proof.
  intros ev ph n xs H. unfold fins in H. apply in_flat_map in H. destruct H as [ix [I H]].
  unfold fin_ev in H. destruct (start_beh ph (snd ix)) as [b| |v] eqn:E; try contradiction.
  destruct H as [H|[]]. exists ix, b. split; [exact I|]. split; [exact E | symmetry; exact H].
Qed.

Lemma init_errs_zero : forall xs ix, init_errs xs = 0 -> In ix xs -> is_ok (x_init (snd ix)) = true.
Proof.
  induction xs as [|a r IH]; intros ix Z I; [contradiction|]. cbn [init_errs] in Z.
  destruct I as [I|I].
  - subst a. destruct (is_ok (x_init (snd ix))); [reflexivity | lia].
  - apply IH; [lia | exact I].
Qed.
Lemma start_errs_zero : forall ph xs ix, start_errs ph xs = 0 -> In ix xs -> sres_of (start_beh ph (snd ix)) <> SRFail.
Proof.
  intros ph. induction xs as [|a r IH]; intros ix Z I; [contradiction|]. cbn [start_errs] in Z.
  destruct I as [I|I].
  - subst a. destruct (start_beh ph (snd ix)); cbn; try discriminate. lia.
  - apply IH; [lia | exact I].
Qed.
Lemma fin_errs_zero : forall ph xs ix, fin_errs ph xs = 0 -> In ix xs ->
  start_beh ph (snd ix) = SFn BOk \/ exists v, start_beh ph (snd ix) = SPanic v.
Proof.
  intros ph. induction xs as [|a r IH]; intros ix Z I; [contradiction|]. cbn [fin_errs] in Z.
  destruct I as [I|I].
  - subst a. destruct (start_beh ph (snd ix)) as [[|v]| |v]; try lia; [left; reflexivity | right; exists v; reflexivity].
  - apply IH; [lia | exact I].
Qed.

Lemma in_block0 : forall ev ph n xs, In ev (block ph n [] xs) -> In ev (starts ph xs) \/ In ev (fins ph n xs).
Proof. intros ev ph n xs H. unfold block in H. cbn [app] in H. apply in_app_or in H. exact H. Qed.

(* a block of parse / validation / execution (with nothing inside) stays within its phase *)
Lemma stops_block : forall ph b n xs,
  (ph = PParse /\ b = 2) \/ (ph = PValid /\ b = 4) \/ (ph = PExec /\ b = 7) ->
  stopsb (block ph n [] xs) = true.
Proof.
  intros ph b n xs Hph. apply (stops_within b).
  - intros ev I. apply in_block0 in I. destruct I as [I|I].
    + apply in_starts in I. destruct I as [ix [_ E]]. subst ev.
      destruct Hph as [[P B]|[[P B]|[P B]]]; subst ph b; reflexivity.
    + apply in_fins in I. destruct I as [ix [b0 [_ [_ E]]]]. subst ev.
      destruct Hph as [[P B]|[[P B]|[P B]]]; subst ph b; reflexivity.
  - intros ev b' I E. apply in_block0 in I. destruct I as [I|I].
    + apply in_starts in I. destruct I as [ix [_ E']]. subst ev.
      destruct Hph as [[P B]|[[P B]|[P B]]]; subst ph b; cbn in E;
        match type of E with context [sres_of ?t] => destruct (sres_of t) end; congruence.
    + apply in_fins in I. destruct I as [ix [b0 [_ [_ E']]]]. subst ev.
      destruct Hph as [[P B]|[[P B]|[P B]]]; subst ph b; cbn in E;
        try destruct ((0 <? n) || negb (is_ok b0)); congruence.
Qed.

(* a parse / validation block that succeeded contains no failing event *)
Lemma quiet_block : forall ph xs,
  ph = PParse \/ ph = PValid ->
  start_errs ph xs = 0 -> fin_errs ph xs = 0 -> quiet (block ph 0 [] xs).
Proof.
  intros ph xs Hph ZS ZF ev I. apply in_block0 in I. destruct I as [I|I].
  - apply in_starts in I. destruct I as [ix [I E]]. subst ev.
    destruct (fin_errs_zero ph xs ix ZF I) as [H|[v H]].
    + rewrite H. destruct Hph; subst ph; reflexivity.
    + exfalso. apply (start_errs_zero ph xs ix ZS I). rewrite H. reflexivity.
  - apply in_fins in I. destruct I as [ix [b [I [S E]]]]. subst ev.
    destruct (fin_errs_zero ph xs ix ZF I) as [H|[v H]]; rewrite H in S; [|discriminate].
    injection S as S. subst b. destruct Hph; subst ph; reflexivity.
Qed.

Lemma quiet_inits : forall xs, init_errs xs = 0 -> quiet (inits xs).
Proof.
  intros xs Z ev I. apply in_inits in I. destruct I as [ix [I E]]. subst ev.
  rewrite (init_errs_zero xs ix Z I). reflexivity.
Qed.

Lemma quiet_fields : forall fields k xs, quiet (fields_log k fields xs).
Proof.
  induction fields as [|fb r IH]; intros k xs ev I; [contradiction|].
  cbn [fields_log] in I. apply in_app_or in I.
  destruct I as [I|I]; [|eapply IH; exact I].
  apply in_block0 in I. destruct I as [I|I].
  - apply in_starts in I. destruct I as [ix [_ E]]. subst ev. reflexivity.
  - apply in_fins in I. destruct I as [ix [b [_ [_ E]]]]. subst ev. reflexivity.
Qed.

Lemma quiet_exec : forall c n xs, start_errs PExec xs = 0 ->
  quiet (block PExec n (body_log c xs) xs ++ results xs).
Proof.
  intros c n xs Z ev I. apply in_app_or in I. destruct I as [I|I].
  - unfold block in I. apply in_app_or in I. destruct I as [I|I].
    + apply in_starts in I. destruct I as [ix [I E]]. subst ev.
      pose proof (start_errs_zero PExec xs ix Z I) as NF.
      cbn [fails_request]. destruct (sres_of (start_beh PExec (snd ix))); try reflexivity. congruence.
    + apply in_app_or in I. destruct I as [I|I].
      * destruct c as [| | | |mut roots]; cbn [body_log] in I; try contradiction. eapply quiet_fields; exact I.
      * apply in_fins in I. destruct I as [ix [b [_ [_ E]]]]. subst ev. reflexivity.
  - unfold results in I. apply in_flat_map in I. destruct I as [ix [_ I]]. unfold res_ev in I.
    destruct (x_has (snd ix)); cbn in I; repeat (destruct I as [I|I]; [subst ev; reflexivity|]); contradiction.
Qed.

Lemma stops_inits : forall xs, stopsb (inits xs) = true.
Proof.
  intros xs. apply (stops_within 0).
  - intros ev I. apply in_inits in I. destruct I as [ix [_ E]]. subst ev. reflexivity.
  - intros ev b' I E. apply in_inits in I. destruct I as [ix [_ E']]. subst ev. cbn in E.
    destruct (is_ok (x_init (snd ix))); congruence.
Qed.

Lemma stops_shape : forall c xs, stopsb (shape (flags_of c xs) c xs) = true.
Proof.
  intros c xs. unfold shape, parse_part, valid_part, exec_part.
  cbn [flags_of f_init f_ps f_pf f_vs f_vsn f_vf f_es f_esn f_eb].
  destruct (nz (init_errs xs)) eqn:E0; [rewrite app_nil_r; apply stops_inits|]. apply nz_false in E0.
  apply stops_app_quiet; [apply quiet_inits; exact E0|].
  destruct (nz (start_errs PParse xs)) eqn:E1; [apply (stops_block PParse 2); auto|]. apply nz_false in E1.
  assert (HE : stopsb (if nz (start_errs PExec xs) then block PExec (start_errs PExec xs) [] xs
                       else block PExec (body_errs c xs) (body_log c xs) xs ++ results xs) = true).
  { destruct (nz (start_errs PExec xs)) eqn:E5; [apply (stops_block PExec 7); auto|]. apply nz_false in E5.
    apply stops_quiet. apply quiet_exec. exact E5. }
  assert (HV : start_errs PValid xs = 0 ->
               stopsb (block PValid 0 [] xs ++
                 (if nz (fin_errs PValid xs) then [] else match c with COpErr => [] | _ =>
                    if nz (start_errs PExec xs) then block PExec (start_errs PExec xs) [] xs
                    else block PExec (body_errs c xs) (body_log c xs) xs ++ results xs end)) = true).
  { intros E3. destruct (nz (fin_errs PValid xs)) eqn:E4; [rewrite app_nil_r; apply (stops_block PValid 4); auto|].
    apply nz_false in E4. apply stops_app_quiet; [apply quiet_block; auto|].
    destruct c; try exact HE. reflexivity. }
  assert (HP : stopsb (block PParse 0 [] xs ++
                 (if nz (fin_errs PParse xs) then [] else
                  if nz (start_errs PValid xs) then block PValid (start_errs PValid xs) [] xs else
                  match c with
                  | CInvalid m => block PValid (m + 1) [] xs
                  | _ => block PValid 0 [] xs ++
                     (if nz (fin_errs PValid xs) then [] else match c with COpErr => [] | _ =>
                        if nz (start_errs PExec xs) then block PExec (start_errs PExec xs) [] xs
                        else block PExec (body_errs c xs) (body_log c xs) xs ++ results xs end)
                  end)) = true).
  { destruct (nz (fin_errs PParse xs)) eqn:E2; [rewrite app_nil_r; apply (stops_block PParse 2); auto|].
    apply nz_false in E2. apply stops_app_quiet; [apply quiet_block; auto|].
    destruct (nz (start_errs PValid xs)) eqn:E3; [apply (stops_block PValid 4); auto|]. apply nz_false in E3.
    destruct c; try (apply HV; exact E3). apply (stops_block PValid 4); auto. }
  destruct c; try exact HP. apply (stops_block PParse 2); auto.
Qed.

Theorem model_stops : forall c exts, stopsb (result_log (do_model c exts)) = true.
Proof.
  intros c exts. rewrite result_log_eq. destruct (do_m_log c (index_from 0 exts)) as [HL _]. rewrite HL.
  apply stops_shape.
Qed.
