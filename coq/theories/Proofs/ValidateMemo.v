(* The executable overlap algorithm (with or without the memo tables, any fuel) reports no
   conflict on a document on which every check of the A-J decomposition passes (L2).
   Together with the decomposition theorem: the model never rejects an L1-valid document. *)
From Coq Require Import List Arith Lia Bool String NArith.
From GQL Require Import Exec.Syntax Validate.Overlap Validate.OverlapSpec Proofs.ValidateOverlap.
Import ListNotations.
Open Scope string_scope.
Open Scope list_scope.

Lemma seq_nil : forall {A} (step : A -> mst -> list N * mst) (l : list A) st,
  (forall x st', In x l -> fst (step x st') = []) -> fst (seq step l st) = [].
Proof.
  intros A step l st H. unfold seq.
  assert (G : forall acc, fst acc = [] ->
    fst (fold_left (fun acc x => let '(cs, st') := step x (snd acc) in (fst acc ++ cs, st')) l acc) = []).
  { induction l as [|x r IH]; intros acc Hacc; simpl; [exact Hacc|].
    apply IH.
    - intros y st' Hy. apply H. right. exact Hy.
    - specialize (H x (snd acc) (or_introl eq_refl)).
      destruct (step x (snd acc)) as [cs st']. simpl in *. rewrite Hacc, H. reflexivity. }
  apply G. reflexivity.
Qed.

Lemma dedup_incl : forall l seen x, In x (dedup l seen) -> In x l.
Proof.
  induction l as [|y r IH]; intros seen x H; simpl in *; [exact H|].
  destruct (nmem y seen).
  - right. apply (IH seen). exact H.
  - destruct H as [H|H]; [left; exact H | right; apply (IH (y :: seen)); exact H].
Qed.

Lemma dspreads_raw_in : forall ss g, In g (dspreads ss) -> In g (dspreads_raw ss).
Proof. intros ss g H. unfold dspreads in H. apply dedup_incl in H. exact H. Qed.

Lemma with_key_in : forall k l e, In e (with_key k l) -> In e l /\ fe_key e = k.
Proof.
  intros k l e H. unfold with_key in H. apply filter_In in H. destruct H as [H1 H2].
  apply String.eqb_eq in H2. auto.
Qed.

(* L2 is monotone in the test on two fields *)
Section BaseMono.
Variable S : schema.
Variable D : document.
Variable base base' : bool -> fentry -> fentry -> bool.
Hypothesis le : forall ex a b, base ex a b = true -> base' ex a b = true.

Scheme fc_ind2 := Induction for OverlapSpec.fc Sort Prop
with subsets_ind2 := Induction for OverlapSpec.subsets Sort Prop
with FF_ind2 := Induction for OverlapSpec.FF Sort Prop
with FrFr_ind2 := Induction for OverlapSpec.FrFr Sort Prop.
Combined Scheme L2_mutind2 from fc_ind2, subsets_ind2, FF_ind2, FrFr_ind2.

Lemma L2_base_mono :
  (forall fl a b, fc S D base fl a b -> fc S D base' fl a b) /\
  (forall fl s1 s2, subsets S D base fl s1 s2 -> subsets S D base' fl s1 s2) /\
  (forall fl s g, FF S D base fl s g -> FF S D base' fl s g) /\
  (forall fl g1 g2, FrFr S D base fl g1 g2 -> FrFr S D base' fl g1 g2).
Proof.
  apply L2_mutind2.
  - intros fl a b Hb Hs IH. constructor; [apply le; exact Hb | exact IH].
  - intros fl s1 s2 H1 IH1 H2 IH2 H3 IH3 H4 IH4. constructor; assumption.
  - intros fl s g E. apply ff_none. exact E.
  - intros fl s g E. apply ff_same. exact E.
  - intros fl s g b E H1 IH1 H2 IH2. eapply ff_i; eauto.
  - intros fl g1 g2 E. apply frfr_none. exact E.
  - intros fl g. apply frfr_same.
  - intros fl g1 g2 b1 b2 E1 E2 H1 IH1 H2 IH2 H3 IH3. eapply frfr_i; eauto.
Qed.

Lemma within_base_mono : forall s, within S D base s -> within S D base' s.
Proof.
  intros s (H1 & H2 & H3). destruct L2_base_mono as (M1 & _ & M3 & M4).
  split; [|split].
  - intros a b Ha Hb Hk. apply M1. apply H1; assumption.
  - intros g Hg. apply M3. apply H2. exact Hg.
  - intros g1 g2 Hg1 Hg2. apply M4. apply H3; assumption.
Qed.
End BaseMono.

Section Exec.
Variable S : schema.
Variable D : document.
Variable memo : bool.

Notation base := (base_ok S).
Notation Pfc := (OverlapSpec.fc S D base).
Notation Psubsets := (OverlapSpec.subsets S D base).
Notation PFF := (OverlapSpec.FF S D base).
Notation PFrFr := (OverlapSpec.FrFr S D base).

Lemma same_set_refl : forall s, same_set s s = true.
Proof.
  intros [p ss]. unfold same_set. simpl. rewrite N.eqb_refl.
  destruct p; simpl; [rewrite String.eqb_refl|]; reflexivity.
Qed.

Lemma fbody_frag : forall g fr, frag D g = Some fr -> fbody S D g = Some (resolve S (fr_cond fr), fr_sel fr).
Proof. intros g fr H. unfold fbody. rewrite H. reflexivity. Qed.

Lemma exec_accepts : forall fuel,
  (forall fl a b st, Pfc fl a b -> fst (Overlap.fc S D memo fuel fl a b st) = []) /\
  (forall fl l1 l2 st, (forall a b, In a l1 -> In b l2 -> fe_key a = fe_key b -> Pfc fl a b) ->
                       fst (between S D memo fuel fl l1 l2 st) = []) /\
  (forall fl s1 s2 st, Psubsets fl s1 s2 -> fst (Overlap.subsets S D memo fuel fl s1 s2 st) = []) /\
  (forall fl s g st, PFF fl s g -> fst (ffrag S D memo fuel fl s g st) = []) /\
  (forall fl g1 g2 st, PFrFr fl g1 g2 -> fst (frfr S D memo fuel fl g1 g2 st) = []).
Proof.
  induction fuel as [|f IH]; [split; [|split; [|split; [|split]]]; intros; reflexivity|].
  destruct IH as (Ifc & Ibt & Isub & Iff & Ifr).
  split; [|split; [|split; [|split]]].
  - (* fc *) intros fl a b st H. inversion H as [fl' a' b' Hb Hs]; subst. simpl.
    unfold OverlapSpec.exf in Hb. rewrite Hb. simpl.
    destruct (has_sub a && has_sub b) eqn:E; [|reflexivity].
    apply andb_true_iff in E.
    specialize (Isub (fl || excl S a b) (sub_pt a, fe_sub a) (sub_pt b, fe_sub b) (inc_fc st) (Hs E)).
    destruct (Overlap.subsets S D memo f (fl || excl S a b) (sub_pt a, fe_sub a) (sub_pt b, fe_sub b) (inc_fc st)) as [cs st'].
    simpl in Isub. subst cs. reflexivity.
  - (* between *) intros fl l1 l2 st H. simpl.
    apply seq_nil. intros k st1 _. apply seq_nil. intros a st2 Ha. apply seq_nil. intros b st3 Hb.
    apply with_key_in in Ha. apply with_key_in in Hb. destruct Ha as [Ha Ka]. destruct Hb as [Hb Kb].
    apply Ifc. apply H; [exact Ha | exact Hb | congruence].
  - (* subsets *) intros fl s1 s2 st H. inversion H as [fl' s1' s2' H1 H2 H3 H4]; subst. simpl.
    pose proof (Ibt fl (dfields S (fst s1) (snd s1)) (dfields S (fst s2) (snd s2)) st H1) as E1.
    destruct (between S D memo f fl (dfields S (fst s1) (snd s1)) (dfields S (fst s2) (snd s2)) st) as [c1 st1].
    simpl in E1. subst c1.
    pose proof (seq_nil (fun g => ffrag S D memo f fl s1 g) (dspreads (snd s2)) st1
                 (fun g st' Hg => Iff fl s1 g st' (H2 g (dspreads_raw_in _ _ Hg)))) as E2.
    destruct (seq (fun g => ffrag S D memo f fl s1 g) (dspreads (snd s2)) st1) as [c2 st2].
    simpl in E2. subst c2.
    pose proof (seq_nil (fun g => ffrag S D memo f fl s2 g) (dspreads (snd s1)) st2
                 (fun g st' Hg => Iff fl s2 g st' (H3 g (dspreads_raw_in _ _ Hg)))) as E3.
    destruct (seq (fun g => ffrag S D memo f fl s2 g) (dspreads (snd s1)) st2) as [c3 st3].
    simpl in E3. subst c3.
    pose proof (seq_nil (fun a => seq (fun b => frfr S D memo f fl a b) (dspreads (snd s2))) (dspreads (snd s1)) st3
                 (fun a st' Ha => seq_nil (fun b => frfr S D memo f fl a b) (dspreads (snd s2)) st'
                    (fun b st'' Hb => Ifr fl a b st'' (H4 a b (dspreads_raw_in _ _ Ha) (dspreads_raw_in _ _ Hb))))) as E4.
    destruct (seq (fun a => seq (fun b => frfr S D memo f fl a b) (dspreads (snd s2))) (dspreads (snd s1)) st3) as [c4 st4].
    simpl in E4. subst c4. reflexivity.
  - (* ffrag *) intros fl s g st H. simpl.
    destruct (memo && ff_has st (fst s) (first_id (snd s)) g fl); [reflexivity|].
    destruct (frag D g) as [fr|] eqn:Ef; [|reflexivity].
    destruct (same_set s (resolve S (fr_cond fr), fr_sel fr)) eqn:Es; [reflexivity|].
    pose proof (fbody_frag g fr Ef) as Eb.
    inversion H as [fl' s' g' En | fl' s' g' Esame | fl' s' g' b Ebb Hd He]; subst.
    + rewrite Eb in En. discriminate.
    + rewrite Eb in Esame. inversion Esame; subst. rewrite same_set_refl in Es. discriminate.
    + rewrite Eb in Ebb. inversion Ebb; subst b. clear Ebb.
      match goal with |- context [between S D memo f fl ?x ?y ?z] =>
        pose proof (Ibt fl x y z Hd) as E1; destruct (between S D memo f fl x y z) as [c1 st1] end.
      simpl in E1. subst c1.
      match goal with |- context [seq ?stp ?l st1] =>
        pose proof (seq_nil stp l st1 (fun h st' Hh => Iff fl s h st' (He h (dspreads_raw_in _ _ Hh)))) as E2;
        destruct (seq stp l st1) as [c2 st2] end.
      simpl in E2. subst c2. reflexivity.
  - (* frfr *) intros fl g1 g2 st H. simpl.
    destruct (frag D g1) as [f1|] eqn:Ef1; [|reflexivity].
    destruct (frag D g2) as [f2|] eqn:Ef2; [|reflexivity].
    destruct (String.eqb g1 g2) eqn:Eg; [reflexivity|].
    destruct (memo && pair_has st g1 g2 fl); [reflexivity|].
    pose proof (fbody_frag g1 f1 Ef1) as Eb1. pose proof (fbody_frag g2 f2 Ef2) as Eb2.
    inversion H as [fl' a' b' En | fl' g' | fl' a' b' b1 b2 E1 E2 Hd H2 H1]; subst.
    + destruct En as [En|En]; [rewrite Eb1 in En | rewrite Eb2 in En]; discriminate.
    + rewrite String.eqb_refl in Eg. discriminate.
    + rewrite Eb1 in E1. inversion E1; subst b1. rewrite Eb2 in E2. inversion E2; subst b2. clear E1 E2.
      match goal with |- context [between S D memo f fl ?x ?y ?z] =>
        pose proof (Ibt fl x y z Hd) as R1; destruct (between S D memo f fl x y z) as [c1 st1] end.
      simpl in R1. subst c1.
      match goal with |- context [seq ?stp ?l st1] =>
        pose proof (seq_nil stp l st1 (fun h st' Hh => Ifr fl g1 h st' (H2 h (dspreads_raw_in _ _ Hh)))) as R2;
        destruct (seq stp l st1) as [c2 st2] end.
      simpl in R2. subst c2.
      match goal with |- context [seq ?stp ?l st2] =>
        pose proof (seq_nil stp l st2 (fun h st' Hh => Ifr fl h g2 st' (H1 h (dspreads_raw_in _ _ Hh)))) as R3;
        destruct (seq stp l st2) as [c3 st3] end.
      simpl in R3. subst c3. reflexivity.
Qed.

Lemma pairs_within_nil : forall fuel l st,
  (forall a b, In a l -> In b l -> Pfc false a b) -> fst (pairs_within S D memo fuel l st) = [].
Proof.
  intros fuel l. induction l as [|a r IH]; intros st H; simpl; [reflexivity|].
  pose proof (seq_nil (fun b => Overlap.fc S D memo fuel false a b) r st
               (fun b st' Hb => proj1 (exec_accepts fuel) false a b st' (H a b (or_introl eq_refl) (or_intror Hb)))) as E1.
  destruct (seq (fun b => Overlap.fc S D memo fuel false a b) r st) as [c1 st1]. simpl in E1. subst c1.
  specialize (IH st1 (fun x y Hx Hy => H x y (or_intror Hx) (or_intror Hy))).
  destruct (pairs_within S D memo fuel r st1) as [c2 st2]. simpl in IH. subst c2. reflexivity.
Qed.

Lemma frags_within_nil : forall fuel s gs st,
  (forall g, In g gs -> PFF false s g) ->
  (forall g h, In g gs -> In h gs -> PFrFr false g h) ->
  fst (frags_within S D memo fuel s gs st) = [].
Proof.
  intros fuel s gs. induction gs as [|g r IH]; intros st H1 H2; simpl; [reflexivity|].
  destruct (exec_accepts fuel) as (_ & _ & _ & Iff & Ifr).
  pose proof (Iff false s g st (H1 g (or_introl eq_refl))) as E1.
  destruct (ffrag S D memo fuel false s g st) as [c1 st1]. simpl in E1. subst c1.
  pose proof (seq_nil (fun h => frfr S D memo fuel false g h) r st1
               (fun h st' Hh => Ifr false g h st' (H2 g h (or_introl eq_refl) (or_intror Hh)))) as E2.
  destruct (seq (fun h => frfr S D memo fuel false g h) r st1) as [c2 st2]. simpl in E2. subst c2.
  specialize (IH st2 (fun x Hx => H1 x (or_intror Hx)) (fun x y Hx Hy => H2 x y (or_intror Hx) (or_intror Hy))).
  destruct (frags_within S D memo fuel s r st2) as [c3 st3]. simpl in IH. subst c3. reflexivity.
Qed.

Lemma within_set_nil : forall fuel s st,
  within S D base s -> fst (within_set S D memo fuel s st) = [].
Proof.
  intros fuel s st (H1 & H2 & H3). unfold within_set.
  pose proof (seq_nil (fun k => pairs_within S D memo fuel (with_key k (dfields S (fst s) (snd s))))
               (keys_of (dfields S (fst s) (snd s))) st
               (fun k st' _ => pairs_within_nil fuel _ st'
                  (fun a b Ha Hb => H1 a b (proj1 (with_key_in _ _ _ Ha)) (proj1 (with_key_in _ _ _ Hb))
                                       (eq_trans (proj2 (with_key_in _ _ _ Ha)) (eq_sym (proj2 (with_key_in _ _ _ Hb))))))) as E1.
  destruct (seq (fun k => pairs_within S D memo fuel (with_key k (dfields S (fst s) (snd s))))
                (keys_of (dfields S (fst s) (snd s))) st) as [c1 st1]. simpl in E1. subst c1.
  pose proof (frags_within_nil fuel s (dspreads (snd s)) st1
               (fun g Hg => H2 g (dspreads_raw_in _ _ Hg))
               (fun g h Hg Hh => H3 g h (dspreads_raw_in _ _ Hg) (dspreads_raw_in _ _ Hh))) as E2.
  destruct (frags_within S D memo fuel s (dspreads (snd s)) st1) as [c2 st2]. simpl in E2. subst c2.
  reflexivity.
Qed.

End Exec.

Lemma base2_le : forall S ex a b, base2 S ex a b = true -> base_ok S ex a b = true.
Proof. intros S ex a b H. unfold base2 in H. apply andb_true_iff in H. exact (proj1 H). Qed.

(* every check of the decomposition passes => neither the memoised (L3) nor the unmemoised
   (L2) executable algorithm reports a conflict, whatever the fuel *)
Theorem L2_accepts_exec : forall S D memo fuel,
  L2_accepts S D -> run_overlap S D memo fuel = [].
Proof.
  intros S D memo fuel H. unfold run_overlap. apply seq_nil. intros s st Hs.
  apply within_set_nil.
  apply (within_base_mono S D (base2 S) (base_ok S) (base2_le S)).
  apply H. left. exact Hs.
Qed.

Theorem L1_accepts_exec : forall S D memo fuel,
  acyclic S D -> L1_accepts S D -> run_overlap S D memo fuel = [].
Proof.
  intros S D memo fuel A H. apply L2_accepts_exec. apply (overlap_decomposition S D A). exact H.
Qed.
