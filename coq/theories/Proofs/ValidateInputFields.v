(* UniqueInputFieldNames: the model reports an error exactly when some object literal of the
   document (at any nesting depth inside an argument value or a default value) names a
   field twice. *)
From Coq Require Import List Arith Lia Bool String NArith.
From GQL Require Import Exec.Syntax Validate.VSyntax Validate.Overlap Validate.Rules Proofs.ValidateRules.
Import ListNotations.
Open Scope string_scope.
Open Scope list_scope.

Definition ofields := list (N * (name * wvalue)).
Definition onames (l : ofields) : list name := map (fun p => fst (snd p)) l.

(* the object literal [o] occurs in the value [v] *)
Inductive sub_obj : wvalue -> ofields -> Prop :=
| sub_here : forall id l, sub_obj (WObj id l) l
| sub_list : forall id l e o, In e l -> sub_obj e o -> sub_obj (WList id l) o
| sub_field : forall id l p o, In p l -> sub_obj (snd (snd p)) o -> sub_obj (WObj id l) o.

Section VInd.
Variable P : wvalue -> Prop.
Hypothesis Hvar : forall id n, P (WVar id n).
Hypothesis Hint : forall id z, P (WInt id z).
Hypothesis Hfloat : forall id n d, P (WFloat id n d).
Hypothesis Hstr : forall id s, P (WStr id s).
Hypothesis Hbool : forall id b, P (WBool id b).
Hypothesis Henum : forall id n, P (WEnum id n).
Hypothesis Hlist : forall id l, Forall P l -> P (WList id l).
Hypothesis Hobj : forall id l, Forall (fun p => P (snd (snd p))) l -> P (WObj id l).
Fixpoint wvalue_ind' (v : wvalue) : P v :=
  match v with
  | WVar id n => Hvar id n
  | WInt id z => Hint id z
  | WFloat id n d => Hfloat id n d
  | WStr id s => Hstr id s
  | WBool id b => Hbool id b
  | WEnum id n => Henum id n
  | WList id l =>
    Hlist id l ((fix go (l : list wvalue) : Forall P l :=
                   match l with [] => Forall_nil P | x :: r => Forall_cons x (wvalue_ind' x) (go r) end) l)
  | WObj id l =>
    Hobj id l ((fix go (l : ofields) : Forall (fun p => P (snd (snd p))) l :=
                  match l with
                  | [] => Forall_nil _
                  | x :: r => Forall_cons x (wvalue_ind' (snd (snd x))) (go r)
                  end) l)
  end.
End VInd.

Definition has_dup (v : wvalue) : Prop := exists o, sub_obj v o /\ ~ NoDup (onames o).

(* the inner loop of obj_dups over the fields of one literal *)
Fixpoint go_fields (l : ofields) (seen : list (name * N)) : list N :=
  match l with
  | [] => []
  | p :: r =>
    match alookup (fst (snd p)) seen with
    | Some first => first :: obj_dups (snd (snd p)) ++ go_fields r seen
    | None => obj_dups (snd (snd p)) ++ go_fields r (seen ++ [(fst (snd p), fst p)])
    end
  end.

Lemma obj_dups_obj : forall id l, obj_dups (WObj id l) = go_fields l [].
Proof. intros id l. reflexivity. Qed.

Lemma go_fields_spec : forall l seen,
  Forall (fun p => obj_dups (snd (snd p)) <> [] <-> has_dup (snd (snd p))) l ->
  NoDup (map fst seen) ->
  (go_fields l seen <> [] <->
   (~ NoDup (map fst seen ++ onames l) \/ exists p, In p l /\ has_dup (snd (snd p)))).
Proof.
  induction l as [|p r IH]; intros seen HF ND; simpl.
  - rewrite app_nil_r. split; [intro H; contradiction|].
    intros [H|[p [[] _]]]. exfalso. apply H. exact ND.
  - inversion HF as [|? ? Hp HF']; subst.
    destruct (alookup (fst (snd p)) seen) as [first|] eqn:E.
    + split; [intros _ | intros _; discriminate].
      left. intro ND'. apply alookup_in in E. apply NoDup_remove_2 in ND'. apply ND'.
      apply in_or_app. left. apply in_map_iff. exists (fst (snd p), first). split; [reflexivity | exact E].
    + apply alookup_none in E.
      assert (ND2 : NoDup (map fst (seen ++ [(fst (snd p), fst p)]))).
      { rewrite map_app. simpl. apply NoDup_app_one; assumption. }
      rewrite app_nonempty, Hp, (IH _ HF' ND2). rewrite map_app. simpl. rewrite <- app_assoc. simpl.
      split.
      * intros [H|[H|[q [Hq H]]]].
        -- right. exists p. split; [left; reflexivity | exact H].
        -- left. exact H.
        -- right. exists q. split; [right; exact Hq | exact H].
      * intros [H|[q [[Hq|Hq] H]]].
        -- right. left. exact H.
        -- subst q. left. exact H.
        -- right. right. exists q. split; assumption.
Qed.

Lemma obj_dups_iff : forall v, obj_dups v <> [] <-> has_dup v.
Proof.
  induction v as [id n|id z|id n d|id s|id b|id n|id l IH|id l IH] using wvalue_ind';
    try (simpl; split; [intro H; contradiction | intros [o [H _]]; inversion H]).
  - (* list *) simpl. rewrite flat_map_nonempty. rewrite Forall_forall in IH. split.
    + intros [e [He H]]. apply (IH e He) in H. destruct H as [o [Ho Hd]].
      exists o. split; [eapply sub_list; eauto | exact Hd].
    + intros [o [Ho Hd]]. inversion Ho as [|id' l' e o' He Hs|]; subst.
      exists e. split; [exact He|]. apply (IH e He). exists o. split; assumption.
  - (* object *) rewrite obj_dups_obj. rewrite (go_fields_spec l [] IH (NoDup_nil _)). simpl. split.
    + intros [H|[p [Hp [o [Ho Hd]]]]].
      * exists l. split; [apply sub_here | exact H].
      * exists o. split; [eapply sub_field; eauto | exact Hd].
    + intros [o [Ho Hd]]. inversion Ho as [id' l'| |id' l' p o' Hp Hs]; subst.
      * left. exact Hd.
      * right. exists p. split; [exact Hp|]. exists o. split; assumption.
Qed.

Definition Violates_unique_input_field_names (S : schema) (W : wdoc) : Prop :=
  (exists o v d, In o (w_ops W) /\ In v (wo_vars o) /\ wv_default v = Some d /\ has_dup d) \/
  (exists ow ad a, In (IArg ow ad a) (doc_items S W) /\ has_dup (wa_val a)).

Lemma unique_input_field_names_iff : forall S W,
  rule_unique_input_field_names S W <> [] <-> Violates_unique_input_field_names S W.
Proof.
  intros S W. unfold rule_unique_input_field_names, Violates_unique_input_field_names.
  rewrite app_nonempty, !flat_map_nonempty. split.
  - intros [[o [Ho H]]|[i [Hi H]]].
    + left. apply flat_map_nonempty in H. destruct H as [v [Hv H]].
      destruct (wv_default v) as [d|] eqn:E; [|contradiction].
      exists o, v, d. split; [exact Ho|]. split; [exact Hv|]. split; [exact E|]. apply obj_dups_iff. exact H.
    + right. destruct i as [| | | |ow ad a|]; try contradiction.
      exists ow, ad, a. split; [exact Hi | apply obj_dups_iff; exact H].
  - intros [[o [v [d [Ho [Hv [E H]]]]]]|[ow [ad [a [Hi H]]]]].
    + left. exists o. split; [exact Ho|]. apply flat_map_nonempty. exists v. split; [exact Hv|].
      rewrite E. apply obj_dups_iff. exact H.
    + right. exists (IArg ow ad a). split; [exact Hi | apply obj_dups_iff; exact H].
Qed.
