(* C09 (totality of the result shape): the dethunk pass leaves nothing deferred,
   a request without data carries an error, graphql.Do's result is well formed. *)
From Coq Require Import List ZArith NArith String Bool Lia.
From GQL Require Import Exec.Syntax Exec.Coerce Exec.Exec Exec.Request Total.Result.
Import ListNotations.
Open Scope list_scope.

(* ---- the two list traversals of the dethunk pass, named ---- *)
Definition dethunk_list (fuel : nat) (E : env) := Exec.dethunk_list (dethunk fuel E).
Definition dethunk_fields (fuel : nat) (E : env) := Exec.dethunk_fields (dethunk fuel E).

Lemma dethunk_S : forall fuel E q s,
  dethunk (S fuel) E q s =
  match q with
  | QNull => XOk QNull s
  | QLeaf v => XOk (QLeaf v) s
  | QList l =>
    match dethunk_list fuel E l s with
    | XOk ys s' => XOk (QList ys) s'
    | XRaise e s' => XRaise e s'
    | XFuel => XFuel
    end
  | QObj l =>
    match dethunk_fields fuel E l s with
    | XOk ys s' => XOk (QObj ys) s'
    | XRaise e s' => XRaise e s'
    | XFuel => XFuel
    end
  | QThunk t nodes occs p o =>
    match catch_at t (match o with
                      | OVal v => complete fuel E t nodes occs p p v s
                      | _ => XRaise {| e_path := p; e_nodes := nodes |} s
                      end) with
    | XOk y s' => dethunk fuel E y s'
    | r' => r'
    end
  end.
Proof. intros fuel E q s. destruct q; reflexivity. Qed.

Lemma dethunk_no_thunk : forall fuel E q s q' s',
  dethunk fuel E q s = XOk q' s' -> no_thunk q' = true.
Proof.
  induction fuel as [|fuel IH]; intros E q s q' s' H; [discriminate H|].
  rewrite dethunk_S in H.
  destruct q as [|v|l|l|t nodes occs p o].
  - inversion H; reflexivity.
  - inversion H; reflexivity.
  - assert (Hl : forall l s ys s1, dethunk_list fuel E l s = XOk ys s1 -> forallb no_thunk ys = true).
    { clear H l. intro l. induction l as [|x r IHr]; intros s0 ys s1 Hg; cbn in Hg.
      - inversion Hg; reflexivity.
      - destruct (dethunk fuel E x s0) as [y sy|e sy|] eqn:Hx; try discriminate Hg.
        fold (dethunk_list fuel E) in Hg.
        destruct (dethunk_list fuel E r sy) as [ys' sr|e sr|] eqn:Hr; try discriminate Hg.
        inversion Hg; subst. cbn. rewrite (IH _ _ _ _ _ Hx). cbn. exact (IHr _ _ _ Hr). }
    destruct (dethunk_list fuel E l s) as [ys s1|e s1|] eqn:Hg; try discriminate H.
    inversion H; subst. cbn. exact (Hl _ _ _ _ Hg).
  - assert (Hl : forall l s ys s1, dethunk_fields fuel E l s = XOk ys s1 ->
                                   forallb (fun kv => no_thunk (snd kv)) ys = true).
    { clear H l. intro l. induction l as [|[k x] r IHr]; intros s0 ys s1 Hg; cbn in Hg.
      - inversion Hg; reflexivity.
      - destruct (dethunk fuel E x s0) as [y sy|e sy|] eqn:Hx; try discriminate Hg.
        fold (dethunk_fields fuel E) in Hg.
        destruct (dethunk_fields fuel E r sy) as [ys' sr|e sr|] eqn:Hr; try discriminate Hg.
        inversion Hg; subst. cbn. rewrite (IH _ _ _ _ _ Hx). cbn. exact (IHr _ _ _ Hr). }
    destruct (dethunk_fields fuel E l s) as [ys s1|e s1|] eqn:Hg; try discriminate H.
    inversion H; subst. cbn. exact (Hl _ _ _ _ Hg).
  - destruct (catch_at t _) as [y sy|e sy|] eqn:Hc; try discriminate H.
    exact (IH _ _ _ _ _ H).
Qed.

(* ---- the request level ---- *)
Lemma request_no_deferred : forall fuel S D op inputs root or tor d s,
  request fuel S D op inputs root or tor = RDone (Some d) s ->
  exists q, no_thunk q = true /\ d = to_resp q.
Proof.
  intros fuel S D op inputs root or tor d s H. unfold request in H.
  destruct (get_operation D op) as [o|]; [|discriminate H].
  destruct (root_type S o) as [rt|]; [|discriminate H].
  destruct (get_variable_values fuel S (o_vars o) inputs) as [[vars|b]|]; try discriminate H.
  destruct (collect fuel S D vars rt (o_sel o) [] []) as [[g vis]|]; [|discriminate H].
  destruct (exec_groups _ _ _ _ _ _ _) as [fs s1|e s1|]; try discriminate H.
  destruct (dethunk _ _ _ _) as [q s2|e s2|] eqn:Hd; try discriminate H.
  inversion H; subst. exists q. split; [|reflexivity].
  exact (dethunk_no_thunk _ _ _ _ _ _ Hd).
Qed.

Lemma st_errs_add_err : forall e s, st_errs (add_err e s) = st_errs s ++ [e].
Proof. reflexivity. Qed.

Lemma request_absent_data_has_error : forall fuel S D op inputs root or tor s,
  request fuel S D op inputs root or tor = RDone None s -> st_errs s <> [].
Proof.
  intros fuel S D op inputs root or tor s H. unfold request in H.
  destruct (get_operation D op) as [o|]; [|discriminate H].
  destruct (root_type S o) as [rt|]; [|discriminate H].
  destruct (get_variable_values fuel S (o_vars o) inputs) as [[vars|b]|]; try discriminate H.
  destruct (collect fuel S D vars rt (o_sel o) [] []) as [[g vis]|]; [|discriminate H].
  destruct (exec_groups _ _ _ _ _ _ _) as [fs s1|e s1|]; try discriminate H.
  - destruct (dethunk _ _ _ _) as [q s2|e s2|]; try discriminate H.
    inversion H; subst. rewrite st_errs_add_err. intro Hn.
    apply app_eq_nil in Hn. destruct Hn as [_ Hn]. discriminate Hn.
  - inversion H; subst. rewrite st_errs_add_err. intro Hn.
    apply app_eq_nil in Hn. destruct Hn as [_ Hn]. discriminate Hn.
Qed.

(* ---- graphql.Do ---- *)
Lemma do_model_well_formed : forall parsed verrs fuel S op inputs root or tor d n c,
  do_model parsed verrs fuel S op inputs root or tor = DoRes d n c ->
  result_well_formed (do_shape parsed verrs d n) = true
  /\ ((parsed = None \/ (exists D, parsed = Some D /\ verrs D <> 0)) -> d = None /\ c = 0).
Proof.
  intros parsed verrs fuel S op inputs root or tor d n c H.
  unfold do_model in H. unfold result_well_formed, do_shape; cbn.
  destruct parsed as [D|].
  - destruct (verrs D) as [|k] eqn:Hv.
    + destruct (request fuel S D op inputs root or tor) as [| |d' s] eqn:Hr; try discriminate H.
      * inversion H; subst. split; [reflexivity|].
        intros [Hp|[D' [Hp Hn]]]; [discriminate Hp|]. inversion Hp; subst. congruence.
      * inversion H; subst. split.
        { destruct d as [r|]; [reflexivity|]. cbn.
          apply N.ltb_lt. pose proof (request_absent_data_has_error _ _ _ _ _ _ _ _ _ Hr) as Hne.
          destruct (st_errs s) as [|e l]; [congruence|]. cbn [List.length]. lia. }
        intros [Hp|[D' [Hp Hn]]]; [discriminate Hp|]. inversion Hp; subst. congruence.
    + inversion H; subst. split; [cbn; reflexivity|]. intros _. split; reflexivity.
  - inversion H; subst. split; [reflexivity|]. intros _. split; reflexivity.
Qed.

(* ---- unfolding equations of the executor, with the inner traversals named ---- *)
Definition complete_items (fuel : nat) (E : env) (t' : tyref) (nodes : list N) (occs : list occ)
           (fpath p : path) : list rv -> N -> st -> xres (list presp) :=
  items_loop (fun i x s0 => catch_at t' (complete fuel E t' nodes occs fpath (p ++ [PIdx i]) x s0)).

Definition complete_named (fuel : nat) (E : env) (n : name) (nodes : list N) (occs : list occ)
           (fpath p : path) (v : rv) (s : st) : xres presp :=
  match lookup_type (en_S E) n with
  | Some (TScalar k) =>
    let j := serialize_scalar k v in XOk (if nullish j then QNull else QLeaf j) s
  | Some (TEnum vals) =>
    let j := serialize_enum vals v in XOk (if nullish j then QNull else QLeaf j) s
  | Some (TObject _ _) => exec_object fuel E n occs p v s
  | Some (TInterface _) | Some (TUnion _) =>
    let s1 := add_tcall (fpath, v) s in
    match en_tor E v with
    | Some rt =>
      if possible_type (en_S E) n rt then exec_object fuel E rt occs p v s1
      else XRaise {| e_path := p; e_nodes := nodes |} s1
    | None => XRaise {| e_path := p; e_nodes := nodes |} s1
    end
  | _ => XRaise {| e_path := p; e_nodes := nodes |} s
  end.

Lemma complete_S : forall fuel E t nodes occs fpath p v s,
  complete (S fuel) E t nodes occs fpath p v s =
  match t with
  | TNonNull t' =>
    match complete fuel E t' nodes occs fpath p v s with
    | XOk QNull s' => XRaise {| e_path := p; e_nodes := nodes |} s'
    | r => r
    end
  | TList t' =>
    if rv_nullish v then XOk QNull s
    else match v with
         | RList l =>
           match complete_items fuel E t' nodes occs fpath p l 0%N s with
           | XOk ys s' => XOk (QList ys) s'
           | XRaise e s' => XRaise e s'
           | XFuel => XFuel
           end
         | _ => XRaise {| e_path := p; e_nodes := nodes |} s
         end
  | TNamed n =>
    if rv_nullish v then XOk QNull s
    else complete_named fuel E n nodes occs fpath p v s
  end.
Proof. intros fuel E t nodes occs fpath p v s. destruct t; reflexivity. Qed.

Lemma exec_object_S : forall fuel E obj occs p src s,
  exec_object (S fuel) E obj occs p src s =
  match collect_all fuel (en_S E) (en_D E) (en_vars E) obj (map oc_sub occs) [] [] with
  | None => XFuel
  | Some g =>
    match exec_groups fuel E obj src g p s with
    | XOk fs s' => XOk (QObj fs) s'
    | XRaise e s' => XRaise e s'
    | XFuel => XFuel
    end
  end.
Proof. reflexivity. Qed.

(* the resolver outcome of a field, forced, and the state after the call *)
Definition field_outcome (E : env) (fp : path) : outcome * bool :=
  match en_or E fp with
  | Some o => force o
  | None => (OVal RNull, false)
  end.

Definition field_value (fuel : nat) (E : env) (fd : fielddef) (nodes : list N) (occs : list occ)
           (fp : path) (o : outcome) (thunked : bool) (s2 : st) : xres presp :=
  if thunked && negb (is_nonnull (f_type fd)) then
    XOk (QThunk (f_type fd) nodes occs fp o) s2
  else
    let r := match o with
             | OVal v => complete fuel E (f_type fd) nodes occs fp fp v s2
             | _ => XRaise {| e_path := fp; e_nodes := nodes |} s2
             end in
    match r with
    | XRaise e s' => if thunked then XRaise e (set_escape s') else r
    | _ => r
    end.

Definition field_serial (fuel : nat) (E : env) (p : path) (r : xres presp) : xres presp :=
  match r with
  | XOk y s' =>
    if en_serial E && match p with [] => true | _ => false end
    then dethunk fuel E y s' else XOk y s'
  | XRaise e s' => XRaise e s'
  | XFuel => XFuel
  end.

Definition exec_field (fuel : nat) (E : env) (obj : name) (src : rv) (k : name) (occs : list occ)
           (p : path) (s : st) : xres (option presp) :=
  let fname := match occs with o :: _ => oc_name o | [] => ""%string end in
  let fargs := match occs with o :: _ => oc_args o | [] => [] end in
  let nodes := map oc_id occs in
  let fp := p ++ [PKey k] in
  if String.eqb fname "__typename" then XOk (Some (QLeaf (JStr obj))) s
  else match find_field fname (object_fields (en_S E) obj) with
  | None => XOk None s
  | Some fd =>
    match get_argument_values fuel (en_S E) (f_args fd) fargs (Some (en_vars E)) with
    | None => XFuel
    | Some args =>
      let s1 := add_call {| c_path := fp; c_parent := obj; c_field := fname; c_source := src;
                            c_args := args; c_nodes := nodes |} s in
      let s2 := match en_or E fp with Some _ => s1 | None => add_missing fp s1 end in
      match field_serial fuel E p
              (catch_at (f_type fd)
                 (field_value fuel E fd nodes occs fp (fst (field_outcome E fp)) (snd (field_outcome E fp)) s2))
      with
      | XOk y s' => XOk (Some y) s'
      | XRaise e s' => XRaise e s'
      | XFuel => XFuel
      end
    end
  end.

(* the top-level Exec.exec_field, instantiated with the recursive calls, in the shape used below *)
Lemma exec_field_eq : forall fuel E obj src k occs p s,
  Exec.exec_field fuel (complete fuel E) (dethunk fuel E) E obj src k occs p s
  = exec_field fuel E obj src k occs p s.
Proof.
  intros fuel E obj src k occs p s.
  unfold Exec.exec_field, exec_field, field_serial, field_value, field_outcome.
  destruct (String.eqb _ "__typename"); [reflexivity|].
  destruct (find_field _ _) as [fd|]; [|reflexivity].
  destruct (get_argument_values _ _ _ _ _) as [args|]; [|reflexivity].
  destruct (en_or E (p ++ [PKey k])) as [o|]; [destruct (force o) as [o' th]|]; cbn [fst snd].
  - destruct (th && negb (is_nonnull (f_type fd))).
    + destruct (catch_at _ _) as [y sy|e sy|]; [|reflexivity|reflexivity].
      destruct (en_serial E && _); [|reflexivity].
      destruct (dethunk fuel E y sy); reflexivity.
    + destruct (catch_at _ _) as [y sy|e sy|]; [|reflexivity|reflexivity].
      destruct (en_serial E && _); [|reflexivity].
      destruct (dethunk fuel E y sy); reflexivity.
  - cbn [andb].
    destruct (catch_at _ _) as [y sy|e sy|]; [|reflexivity|reflexivity].
    destruct (en_serial E && _); [|reflexivity].
    destruct (dethunk fuel E y sy); reflexivity.
Qed.

Lemma exec_groups_S : forall fuel E obj src g p s,
  exec_groups (S fuel) E obj src g p s =
  match g with
  | [] => XOk [] s
  | (k, occs) :: rest =>
    match exec_field fuel E obj src k occs p s with
    | XOk y s' =>
      match exec_groups fuel E obj src rest p s' with
      | XOk ys s'' => XOk (match y with Some y => (k, y) :: ys | None => ys end) s''
      | XRaise e s'' => XRaise e s''
      | XFuel => XFuel
      end
    | XRaise e s' => XRaise e s'
    | XFuel => XFuel
    end
  end.
Proof.
  intros fuel E obj src g p s. destruct g as [|[k occs] rest]; [reflexivity|].
  cbn [exec_groups]. rewrite exec_field_eq. reflexivity.
Qed.

(* ---- every deferred value the executor builds sits at a nullable position ---- *)
Fixpoint no_thunk_nullable (q : presp) : no_thunk q = true -> thunks_nullable q = true.
Proof.
  destruct q as [|v|l|l|t nodes occs p o]; cbn; intro H; try reflexivity; try discriminate H.
  - induction l as [|x r IHr]; [reflexivity|].
    cbn in H |- *. apply andb_true_iff in H. destruct H as [Hx Hr].
    rewrite (no_thunk_nullable x Hx). exact (IHr Hr).
  - induction l as [|[k x] r IHr]; [reflexivity|].
    cbn in H |- *. apply andb_true_iff in H. destruct H as [Hx Hr].
    rewrite (no_thunk_nullable x Hx). exact (IHr Hr).
Qed.

Definition ok_tn (r : xres presp) : Prop :=
  match r with XOk q _ => thunks_nullable q = true | _ => True end.
Definition ok_tno (r : xres (option presp)) : Prop :=
  match r with XOk (Some q) _ => thunks_nullable q = true | _ => True end.
Definition ok_tnl (r : xres (list presp)) : Prop :=
  match r with XOk l _ => forallb thunks_nullable l = true | _ => True end.
Definition ok_tnf (r : xres (list (name * presp))) : Prop :=
  match r with XOk l _ => forallb (fun kv => thunks_nullable (snd kv)) l = true | _ => True end.

Lemma ok_catch : forall t r, ok_tn r -> ok_tn (catch_at t r).
Proof.
  intros t r H. destruct r as [q s|e s|]; cbn; auto.
  destruct (is_nonnull t); cbn; auto.
Qed.

Lemma ok_dethunk : forall fuel E q s, ok_tn (dethunk fuel E q s).
Proof.
  intros fuel E q s. destruct (dethunk fuel E q s) as [q' s'|e s'|] eqn:H; cbn; auto.
  apply no_thunk_nullable. exact (dethunk_no_thunk _ _ _ _ _ _ H).
Qed.

Lemma ok_serial : forall fuel E p r, ok_tn r -> ok_tn (field_serial fuel E p r).
Proof.
  intros fuel E p r H. destruct r as [q s|e s|]; cbn; auto.
  destruct (en_serial E && _); [apply ok_dethunk|exact H].
Qed.

Lemma ok_field_value : forall fuel E fd nodes occs fp o thunked s2,
  (forall v, ok_tn (complete fuel E (f_type fd) nodes occs fp fp v s2)) ->
  ok_tn (field_value fuel E fd nodes occs fp o thunked s2).
Proof.
  intros fuel E fd nodes occs fp o thunked s2 H. unfold field_value.
  destruct (thunked && negb (is_nonnull (f_type fd))) eqn:Hb.
  - cbn. apply andb_true_iff in Hb. exact (proj2 Hb).
  - destruct o as [v|  |v| | | |o']; try (destruct thunked; exact I).
    specialize (H v). destruct (complete _ _ _ _ _ _ _ _ _) as [q s|e s|]; cbn; auto.
    destruct thunked; exact I.
Qed.

Lemma exec_thunks_nullable : forall fuel,
  (forall E t nodes occs fpath p v s, ok_tn (complete fuel E t nodes occs fpath p v s)) /\
  (forall E obj occs p src s, ok_tn (exec_object fuel E obj occs p src s)) /\
  (forall E obj src g p s, ok_tnf (exec_groups fuel E obj src g p s)).
Proof.
  induction fuel as [|fuel [IHc [IHo IHg]]]; [repeat split; intros; exact I|].
  split; [|split].
  - intros E t nodes occs fpath p v s. rewrite complete_S. destruct t as [n|t'|t'].
    + destruct (rv_nullish v); [reflexivity|]. unfold complete_named.
      destruct (lookup_type (en_S E) n) as [[k|vals|fs ifs|fs|ms|fs]|]; cbn; try exact I.
      * destruct (nullish _); reflexivity.
      * destruct (nullish _); reflexivity.
      * apply IHo.
      * destruct (en_tor E v) as [rt|]; [|exact I].
        destruct (possible_type _ _ _); [apply IHo|exact I].
      * destruct (en_tor E v) as [rt|]; [|exact I].
        destruct (possible_type _ _ _); [apply IHo|exact I].
    + destruct (rv_nullish v); [reflexivity|]. destruct v as [| | | | |l| | | |]; try exact I.
      assert (Hl : forall l i s0, ok_tnl (complete_items fuel E t' nodes occs fpath p l i s0)).
      { clear l. intro l. induction l as [|x r IHr]; intros i s0; cbn; [reflexivity|].
        pose proof (ok_catch t' _ (IHc E t' nodes occs fpath (p ++ [PIdx i]) x s0)) as Hc.
        destruct (catch_at t' _) as [y sy|e sy|]; try exact I.
        fold (complete_items fuel E t' nodes occs fpath p).
        specialize (IHr (i + 1)%N sy).
        destruct (complete_items fuel E t' nodes occs fpath p r (i + 1)%N sy) as [ys sr|e sr|]; try exact I.
        cbn in Hc, IHr |- *. rewrite Hc, IHr. reflexivity. }
      specialize (Hl l 0%N s).
      destruct (complete_items fuel E t' nodes occs fpath p l 0%N s) as [ys sr|e sr|]; cbn; auto.
    + specialize (IHc E t' nodes occs fpath p v s).
      destruct (complete fuel E t' nodes occs fpath p v s) as [q sq|e sq|]; try exact I.
      destruct q; cbn in IHc |- *; auto.
  - intros E obj occs p src s. rewrite exec_object_S.
    destruct (collect_all _ _ _ _ _ _ _ _) as [g|]; [|exact I].
    specialize (IHg E obj src g p s).
    destruct (exec_groups fuel E obj src g p s) as [fs sf|e sf|]; cbn; auto.
  - intros E obj src g p s. rewrite exec_groups_S. destruct g as [|[k occs] rest]; [reflexivity|].
    assert (Hf : ok_tno (exec_field fuel E obj src k occs p s)).
    { unfold exec_field. destruct (String.eqb _ "__typename"); [reflexivity|].
      destruct (find_field _ _) as [fd|]; [|exact I].
      destruct (get_argument_values _ _ _ _ _) as [args|]; [|exact I].
      match goal with
      | |- ok_tno (match field_serial ?f ?e ?pp (catch_at ?t ?fv) with _ => _ end) =>
        assert (Hs : ok_tn (field_serial f e pp (catch_at t fv)));
          [|destruct (field_serial f e pp (catch_at t fv)); cbn; auto]
      end.
      apply ok_serial. apply ok_catch. apply ok_field_value. intro v. apply IHc. }
    destruct (exec_field fuel E obj src k occs p s) as [y sy|e sy|]; try exact I.
    specialize (IHg E obj src rest p sy).
    destruct (exec_groups fuel E obj src rest p sy) as [ys sr|e sr|]; try exact I.
    cbn in Hf, IHg |- *. destruct y as [y|]; cbn; [rewrite Hf|]; exact IHg.
Qed.

Lemma complete_thunks_nullable : forall fuel E t nodes occs fpath p v s q s',
  complete fuel E t nodes occs fpath p v s = XOk q s' -> thunks_nullable q = true.
Proof.
  intros fuel E t nodes occs fpath p v s q s' H.
  pose proof (proj1 (exec_thunks_nullable fuel) E t nodes occs fpath p v s) as Hk.
  rewrite H in Hk. exact Hk.
Qed.

Lemma exec_object_thunks_nullable : forall fuel E obj occs p src s q s',
  exec_object fuel E obj occs p src s = XOk q s' -> thunks_nullable q = true.
Proof.
  intros fuel E obj occs p src s q s' H.
  pose proof (proj1 (proj2 (exec_thunks_nullable fuel)) E obj occs p src s) as Hk.
  rewrite H in Hk. exact Hk.
Qed.

Lemma exec_groups_thunks_nullable : forall fuel E obj src g p s fs s',
  exec_groups fuel E obj src g p s = XOk fs s' ->
  forallb (fun kv => thunks_nullable (snd kv)) fs = true.
Proof.
  intros fuel E obj src g p s fs s' H.
  pose proof (proj2 (proj2 (exec_thunks_nullable fuel)) E obj src g p s) as Hk.
  rewrite H in Hk. exact Hk.
Qed.

Lemma dethunk_thunks_nullable : forall fuel E q s q' s',
  dethunk fuel E q s = XOk q' s' -> thunks_nullable q' = true.
Proof.
  intros fuel E q s q' s' H. pose proof (ok_dethunk fuel E q s) as Hk.
  rewrite H in Hk. exact Hk.
Qed.

(* ---- the dethunk pass never raises on what the executor builds ---- *)
Lemma catch_at_nullable_no_raise : forall t r e s,
  is_nonnull t = false -> catch_at t r <> XRaise e s.
Proof.
  intros t r e s Hn. unfold catch_at. destruct r as [a s'|e' s'|]; try discriminate.
  rewrite Hn. discriminate.
Qed.

Lemma dethunk_never_raises : forall fuel E q s e s',
  thunks_nullable q = true -> dethunk fuel E q s <> XRaise e s'.
Proof.
  induction fuel as [|fuel IH]; intros E q s e s' Hq; [discriminate|].
  rewrite dethunk_S. destruct q as [|v|l|l|t nodes occs p o].
  - discriminate.
  - discriminate.
  - cbn in Hq.
    assert (Hl : forall l s0 e0 s1, forallb thunks_nullable l = true ->
                                    dethunk_list fuel E l s0 <> XRaise e0 s1).
    { clear l Hq. intro l. induction l as [|x r IHr]; intros s0 e0 s1 Hq; cbn; [discriminate|].
      cbn in Hq. apply andb_true_iff in Hq. destruct Hq as [Hx Hr].
      destruct (dethunk fuel E x s0) as [y sy|ex sy|] eqn:Hd.
      - fold (dethunk_list fuel E).
        destruct (dethunk_list fuel E r sy) as [ys sr|er sr|] eqn:Hdr; try discriminate.
        exfalso. exact (IHr _ _ _ Hr Hdr).
      - exfalso. exact (IH _ _ _ _ _ Hx Hd).
      - discriminate. }
    destruct (dethunk_list fuel E l s) as [ys sr|er sr|] eqn:Hd; try discriminate.
    exfalso. exact (Hl _ _ _ _ Hq Hd).
  - cbn in Hq.
    assert (Hl : forall l s0 e0 s1, forallb (fun kv => thunks_nullable (snd kv)) l = true ->
                                    dethunk_fields fuel E l s0 <> XRaise e0 s1).
    { clear l Hq. intro l. induction l as [|[k x] r IHr]; intros s0 e0 s1 Hq; cbn; [discriminate|].
      cbn in Hq. apply andb_true_iff in Hq. destruct Hq as [Hx Hr].
      destruct (dethunk fuel E x s0) as [y sy|ex sy|] eqn:Hd.
      - fold (dethunk_fields fuel E).
        destruct (dethunk_fields fuel E r sy) as [ys sr|er sr|] eqn:Hdr; try discriminate.
        exfalso. exact (IHr _ _ _ Hr Hdr).
      - exfalso. exact (IH _ _ _ _ _ Hx Hd).
      - discriminate. }
    destruct (dethunk_fields fuel E l s) as [ys sr|er sr|] eqn:Hd; try discriminate.
    exfalso. exact (Hl _ _ _ _ Hq Hd).
  - cbn in Hq. apply negb_true_iff in Hq.
    match goal with |- context [catch_at t ?r] => set (r0 := r) end.
    assert (Hr : ok_tn r0).
    { subst r0. destruct o; try exact I. apply (proj1 (exec_thunks_nullable fuel)). }
    pose proof (ok_catch t r0 Hr) as Hc.
    destruct (catch_at t r0) as [y sy|ec sy|] eqn:Hcat.
    + apply IH. exact Hc.
    + exfalso. exact (catch_at_nullable_no_raise _ _ _ _ Hq Hcat).
    + discriminate.
Qed.

(* the only way a request loses its data is a non-null failure during execution proper:
   the final dethunk pass cannot be the cause *)
Lemma request_dethunk_never_raises : forall fuel E obj src g p s fs s1 e s2,
  exec_groups fuel E obj src g p s = XOk fs s1 ->
  dethunk fuel E (QObj fs) s1 <> XRaise e s2.
Proof.
  intros fuel E obj src g p s fs s1 e s2 H. apply dethunk_never_raises.
  cbn. exact (exec_groups_thunks_nullable _ _ _ _ _ _ _ _ _ H).
Qed.

Lemma request_data_none_only_from_exec : forall fuel S D op inputs root or tor s,
  request fuel S D op inputs root or tor = RDone None s ->
  exists o rt vars g vis e s1,
    get_operation D op = Some o /\ root_type S o = Some rt /\
    get_variable_values fuel S (o_vars o) inputs = Some (inl vars) /\
    collect fuel S D vars rt (o_sel o) [] [] = Some (g, vis) /\
    exec_groups fuel
      {| en_S := S; en_D := D; en_vars := vars; en_or := or; en_tor := tor;
         en_serial := match o_kind o with OpMutation => true | _ => false end |}
      rt root g [] st0 = XRaise e s1 /\
    s = add_err e s1.
Proof.
  intros fuel S D op inputs root or tor s H. unfold request in H.
  destruct (get_operation D op) as [o|] eqn:Ho; [|discriminate H].
  destruct (root_type S o) as [rt|] eqn:Hrt; [|discriminate H].
  destruct (get_variable_values fuel S (o_vars o) inputs) as [[vars|b]|] eqn:Hv; try discriminate H.
  destruct (collect fuel S D vars rt (o_sel o) [] []) as [[g vis]|] eqn:Hc; [|discriminate H].
  destruct (exec_groups _ _ _ _ _ _ _) as [fs s1|e s1|] eqn:Hg; try discriminate H.
  - destruct (dethunk _ _ _ _) as [q s2|e s2|] eqn:Hd; try discriminate H.
    exfalso. exact (request_dethunk_never_raises _ _ _ _ _ _ _ _ _ _ _ Hg Hd).
  - inversion H; subst. exists o, rt, vars, g, vis, e, s1. repeat split; assumption.
Qed.


(* ---- fuel monotonicity ---- *)
Lemma omap_mono : forall (A B : Type) (f g : A -> option B) l ys,
  (forall x y, f x = Some y -> g x = Some y) ->
  omap f l = Some ys -> omap g l = Some ys.
Proof.
  intros A B f g l. induction l as [|a r IHr]; intros ys Hfg H; cbn in H |- *; [exact H|].
  destruct (f a) as [y|] eqn:Hy; [|discriminate H].
  destruct (omap f r) as [ys'|] eqn:Hr; [|discriminate H].
  rewrite (Hfg _ _ Hy), (IHr _ Hfg eq_refl). exact H.
Qed.

Lemma value_from_ast_fuel_mono : forall fuel fuel' S t lit vars v,
  value_from_ast fuel S t lit vars = Some v -> fuel <= fuel' ->
  value_from_ast fuel' S t lit vars = Some v.
Proof.
  induction fuel as [|n IH]; intros fuel' S t lit vars v H Hle; [discriminate H|].
  destruct fuel' as [|n']; [lia|]. assert (Hle' : n <= n') by lia.
  cbn [value_from_ast] in H |- *.
  destruct lit as [l|]; [|exact H].
  assert (Hfield : forall lfs (f : argdef) (y : name * jv),
    match value_from_ast n S (a_type f) (alookup (a_name f) lfs) vars with
    | Some fv => Some (a_name f, if nullish fv then match a_default f with Some d => d | None => JNull end else fv)
    | None => None
    end = Some y ->
    match value_from_ast n' S (a_type f) (alookup (a_name f) lfs) vars with
    | Some fv => Some (a_name f, if nullish fv then match a_default f with Some d => d | None => JNull end else fv)
    | None => None
    end = Some y).
  { intros lfs f y Hy.
    destruct (value_from_ast n S (a_type f) (alookup (a_name f) lfs) vars) as [fv|] eqn:Hf; [|discriminate Hy].
    rewrite (IH _ _ _ _ _ _ Hf Hle'). exact Hy. }
  destruct l as [x|z|z d|x|b|x|ls|lfs]; try exact H;
    (destruct t as [nm|t'|t'];
     [ destruct (lookup_type S nm) as [[k|vals|fs ifs|fs|ms|fs]|]; try exact H
     | | exact (IH _ _ _ _ _ _ H Hle') ]);
    try (destruct (value_from_ast n S t' _ vars) as [x0|] eqn:Hx; [|discriminate H];
         rewrite (IH _ _ _ _ _ _ Hx Hle'); exact H).
  - destruct (omap _ ls) as [l'|] eqn:Ho; [|discriminate H].
    rewrite (omap_mono _ _ _ (fun x => value_from_ast n' S t' (Some x) vars) _ _
               (fun x y Hy => IH _ _ _ _ _ _ Hy Hle') Ho). exact H.
  - destruct (omap _ fs) as [kvs|] eqn:Ho; [|discriminate H].
    rewrite (omap_mono _ _ _ _ _ _ (Hfield lfs) Ho). exact H.
Qed.

Lemma get_argument_values_fuel_mono : forall fuel fuel' S defs args vars r,
  get_argument_values fuel S defs args vars = Some r -> fuel <= fuel' ->
  get_argument_values fuel' S defs args vars = Some r.
Proof.
  intros fuel fuel' S defs args vars r H Hle. unfold get_argument_values in H |- *.
  destruct (omap _ defs) as [kvs|] eqn:Ho; [|discriminate H].
  erewrite omap_mono; [exact H| |exact Ho].
  intros a y Hy. cbn beta in Hy |- *.
  destruct (value_from_ast fuel S (a_type a) (alookup (a_name a) args) vars) as [v|] eqn:Hv; [|discriminate Hy].
  rewrite (value_from_ast_fuel_mono _ _ _ _ _ _ _ Hv Hle). exact Hy.
Qed.

Lemma collect_fuel_mono_l : forall S D vars obj fuel fuel' sels visited g r,
  collect fuel S D vars obj sels visited g = Some r -> fuel <= fuel' ->
  collect fuel' S D vars obj sels visited g = Some r.
Proof.
  intros S D vars obj.
  induction fuel as [|n IH]; intros fuel' sels visited g r Hc Hle; [discriminate Hc|].
  destruct fuel' as [|n']; [lia|]. assert (Hle' : n <= n') by lia.
  destruct sels as [|sl rest]; [exact Hc|].
  destruct sl as [id al nm args ds sub|id nm ds|id tc ds sub]; cbn [collect] in Hc |- *.
  - destruct (included S ds vars); exact (IH _ _ _ _ _ Hc Hle').
  - destruct (included S ds vars && negb (nmem nm visited)); [|exact (IH _ _ _ _ _ Hc Hle')].
    destruct (find_fragment nm (d_frags D)) as [f|]; [|exact (IH _ _ _ _ _ Hc Hle')].
    destruct (fragment_matches S (Some (fr_cond f)) obj); [|exact (IH _ _ _ _ _ Hc Hle')].
    destruct (collect n S D vars obj (fr_sel f) (nm :: visited) g) as [[g1 v1]|] eqn:E1; [|discriminate Hc].
    rewrite (IH n' _ _ _ _ E1 Hle'). exact (IH _ _ _ _ _ Hc Hle').
  - destruct (included S ds vars && fragment_matches S tc obj); [|exact (IH _ _ _ _ _ Hc Hle')].
    destruct (collect n S D vars obj sub visited g) as [[g1 v1]|] eqn:E1; [|discriminate Hc].
    rewrite (IH n' _ _ _ _ E1 Hle'). exact (IH _ _ _ _ _ Hc Hle').
Qed.

Lemma collect_all_fuel_mono_l : forall S D vars obj fuel fuel' sets visited g r,
  collect_all fuel S D vars obj sets visited g = Some r -> fuel <= fuel' ->
  collect_all fuel' S D vars obj sets visited g = Some r.
Proof.
  intros S D vars obj fuel fuel'.
  induction sets as [|st rest IHr]; intros visited g r Hc Hle; cbn [collect_all] in Hc |- *; [exact Hc|].
  destruct (collect fuel S D vars obj st visited g) as [[g1 v1]|] eqn:E1; [|discriminate Hc].
  rewrite (collect_fuel_mono_l _ _ _ _ _ _ _ _ _ _ E1 Hle). exact (IHr _ _ _ Hc Hle).
Qed.

(* list traversals, one step *)
Lemma complete_items_cons : forall fuel E t' nodes occs fpath p x r i s,
  complete_items fuel E t' nodes occs fpath p (x :: r) i s =
  match catch_at t' (complete fuel E t' nodes occs fpath (p ++ [PIdx i]) x s) with
  | XOk y s' =>
    match complete_items fuel E t' nodes occs fpath p r (i + 1)%N s' with
    | XOk ys s'' => XOk (y :: ys) s''
    | XRaise e s'' => XRaise e s''
    | XFuel => XFuel
    end
  | XRaise e s' => XRaise e s'
  | XFuel => XFuel
  end.
Proof. reflexivity. Qed.

Lemma dethunk_list_cons : forall fuel E x r s,
  dethunk_list fuel E (x :: r) s =
  match dethunk fuel E x s with
  | XOk y s' => match dethunk_list fuel E r s' with
                | XOk ys s'' => XOk (y :: ys) s''
                | XRaise e s'' => XRaise e s''
                | XFuel => XFuel
                end
  | XRaise e s' => XRaise e s'
  | XFuel => XFuel
  end.
Proof. reflexivity. Qed.

Lemma dethunk_fields_cons : forall fuel E k x r s,
  dethunk_fields fuel E ((k, x) :: r) s =
  match dethunk fuel E x s with
  | XOk y s' => match dethunk_fields fuel E r s' with
                | XOk ys s'' => XOk ((k, y) :: ys) s''
                | XRaise e s'' => XRaise e s''
                | XFuel => XFuel
                end
  | XRaise e s' => XRaise e s'
  | XFuel => XFuel
  end.
Proof. reflexivity. Qed.

(* [sub <> XFuel] from [F sub <> XFuel] when F is strict in XFuel *)
Ltac nofuel H := let Hx := fresh "Hx" in intro Hx; apply H; rewrite Hx; reflexivity.

Section Mono.
  Variables fuel fuel' : nat.
  Hypothesis Hle : fuel <= fuel'.
  Hypothesis IHc : forall E t nodes occs fpath p v s,
    complete fuel E t nodes occs fpath p v s <> XFuel ->
    complete fuel' E t nodes occs fpath p v s = complete fuel E t nodes occs fpath p v s.
  Hypothesis IHo : forall E obj occs p src s,
    exec_object fuel E obj occs p src s <> XFuel ->
    exec_object fuel' E obj occs p src s = exec_object fuel E obj occs p src s.
  Hypothesis IHg : forall E obj src g p s,
    exec_groups fuel E obj src g p s <> XFuel ->
    exec_groups fuel' E obj src g p s = exec_groups fuel E obj src g p s.
  Hypothesis IHd : forall E q s,
    dethunk fuel E q s <> XFuel -> dethunk fuel' E q s = dethunk fuel E q s.

  Lemma complete_items_mono : forall E t' nodes occs fpath p l i s,
    complete_items fuel E t' nodes occs fpath p l i s <> XFuel ->
    complete_items fuel' E t' nodes occs fpath p l i s = complete_items fuel E t' nodes occs fpath p l i s.
  Proof.
    intros E t' nodes occs fpath p l. induction l as [|x r IHr]; intros i s H; [reflexivity|].
    rewrite complete_items_cons in H. rewrite (complete_items_cons fuel'), (complete_items_cons fuel).
    assert (Hc : complete fuel E t' nodes occs fpath (p ++ [PIdx i]) x s <> XFuel) by nofuel H.
    rewrite (IHc _ _ _ _ _ _ _ _ Hc). revert H.
    destruct (catch_at t' _) as [y sy|e sy|]; intro H; try reflexivity.
    assert (Hi : complete_items fuel E t' nodes occs fpath p r (i + 1)%N sy <> XFuel) by nofuel H.
    rewrite (IHr _ _ Hi). reflexivity.
  Qed.

  Lemma dethunk_list_mono : forall E l s,
    dethunk_list fuel E l s <> XFuel -> dethunk_list fuel' E l s = dethunk_list fuel E l s.
  Proof.
    intros E l. induction l as [|x r IHr]; intros s H; [reflexivity|].
    rewrite dethunk_list_cons in H. rewrite (dethunk_list_cons fuel'), (dethunk_list_cons fuel).
    assert (Hc : dethunk fuel E x s <> XFuel) by nofuel H.
    rewrite (IHd _ _ _ Hc). revert H.
    destruct (dethunk fuel E x s) as [y sy|e sy|]; intro H; try reflexivity.
    assert (Hi : dethunk_list fuel E r sy <> XFuel) by nofuel H.
    rewrite (IHr _ Hi). reflexivity.
  Qed.

  Lemma dethunk_fields_mono : forall E l s,
    dethunk_fields fuel E l s <> XFuel -> dethunk_fields fuel' E l s = dethunk_fields fuel E l s.
  Proof.
    intros E l. induction l as [|[k x] r IHr]; intros s H; [reflexivity|].
    rewrite dethunk_fields_cons in H. rewrite (dethunk_fields_cons fuel'), (dethunk_fields_cons fuel).
    assert (Hc : dethunk fuel E x s <> XFuel) by nofuel H.
    rewrite (IHd _ _ _ Hc). revert H.
    destruct (dethunk fuel E x s) as [y sy|e sy|]; intro H; try reflexivity.
    assert (Hi : dethunk_fields fuel E r sy <> XFuel) by nofuel H.
    rewrite (IHr _ Hi). reflexivity.
  Qed.

  Lemma field_value_mono : forall E fd nodes occs fp o thunked s2,
    field_value fuel E fd nodes occs fp o thunked s2 <> XFuel ->
    field_value fuel' E fd nodes occs fp o thunked s2 = field_value fuel E fd nodes occs fp o thunked s2.
  Proof.
    intros E fd nodes occs fp o thunked s2. unfold field_value.
    destruct (thunked && negb (is_nonnull (f_type fd))); [reflexivity|].
    destruct o as [v| |v| | | |o']; try reflexivity.
    intro H. assert (Hc : complete fuel E (f_type fd) nodes occs fp fp v s2 <> XFuel) by nofuel H.
    rewrite (IHc _ _ _ _ _ _ _ _ Hc). reflexivity.
  Qed.

  Lemma field_serial_mono : forall E p r,
    field_serial fuel E p r <> XFuel -> field_serial fuel' E p r = field_serial fuel E p r.
  Proof.
    intros E p r. unfold field_serial. destruct r as [y sy|e sy|]; try reflexivity.
    destruct (en_serial E && _); [|reflexivity]. apply IHd.
  Qed.

  Lemma exec_field_mono : forall E obj src k occs p s,
    exec_field fuel E obj src k occs p s <> XFuel ->
    exec_field fuel' E obj src k occs p s = exec_field fuel E obj src k occs p s.
  Proof.
    intros E obj src k occs p s. unfold exec_field.
    destruct (String.eqb _ "__typename"); [reflexivity|].
    destruct (find_field _ _) as [fd|]; [|reflexivity].
    destruct (get_argument_values fuel _ _ _ _) as [args|] eqn:Hga; [|intro H; exfalso; apply H; reflexivity].
    rewrite (get_argument_values_fuel_mono _ _ _ _ _ _ _ Hga Hle).
    intro H.
    match type of H with
    | match field_serial _ _ _ (catch_at ?t ?fv) with _ => _ end <> _ =>
      assert (Hfs : field_serial fuel E p (catch_at t fv) <> XFuel) by nofuel H;
      assert (Hfv : fv <> XFuel) by nofuel Hfs
    end.
    rewrite (field_value_mono _ _ _ _ _ _ _ _ Hfv).
    rewrite (field_serial_mono _ _ _ Hfs). reflexivity.
  Qed.
End Mono.

Definition mono_at (fuel : nat) : Prop :=
  forall fuel', fuel <= fuel' ->
  (forall E t nodes occs fpath p v s,
     complete fuel E t nodes occs fpath p v s <> XFuel ->
     complete fuel' E t nodes occs fpath p v s = complete fuel E t nodes occs fpath p v s) /\
  (forall E obj occs p src s,
     exec_object fuel E obj occs p src s <> XFuel ->
     exec_object fuel' E obj occs p src s = exec_object fuel E obj occs p src s) /\
  (forall E obj src g p s,
     exec_groups fuel E obj src g p s <> XFuel ->
     exec_groups fuel' E obj src g p s = exec_groups fuel E obj src g p s) /\
  (forall E q s,
     dethunk fuel E q s <> XFuel -> dethunk fuel' E q s = dethunk fuel E q s).

Lemma exec_fuel_mono_all : forall fuel, mono_at fuel.
Proof.
  induction fuel as [|n IH]; intros fuel' Hle.
  { repeat split; intros; exfalso; apply H; reflexivity. }
  destruct fuel' as [|n']; [lia|]. assert (Hle' : n <= n') by lia.
  destruct (IH n' Hle') as [IHc [IHo [IHg IHd]]].
  split; [|split; [|split]].
  - intros E t nodes occs fpath p v s. rewrite !complete_S. destruct t as [nm|t'|t'].
    + destruct (rv_nullish v); [reflexivity|]. unfold complete_named.
      destruct (lookup_type (en_S E) nm) as [[k|vals|fs ifs|fs|ms|fs]|]; try reflexivity.
      * apply IHo.
      * destruct (en_tor E v) as [rt|]; [|reflexivity].
        destruct (possible_type _ _ _); [apply IHo|reflexivity].
      * destruct (en_tor E v) as [rt|]; [|reflexivity].
        destruct (possible_type _ _ _); [apply IHo|reflexivity].
    + destruct (rv_nullish v); [reflexivity|]. destruct v as [| | | | |l| | | |]; try reflexivity.
      intro H.
      assert (Hi : complete_items n E t' nodes occs fpath p l 0%N s <> XFuel) by nofuel H.
      rewrite (complete_items_mono n n' IHc _ _ _ _ _ _ _ _ _ Hi). reflexivity.
    + intro H.
      assert (Hc : complete n E t' nodes occs fpath p v s <> XFuel) by nofuel H.
      rewrite (IHc _ _ _ _ _ _ _ _ Hc). reflexivity.
  - intros E obj occs p src s. rewrite !exec_object_S.
    destruct (collect_all n _ _ _ _ _ _ _) as [g|] eqn:Hca; [|intro H; exfalso; apply H; reflexivity].
    rewrite (collect_all_fuel_mono_l _ _ _ _ _ _ _ _ _ _ Hca Hle').
    intro H. assert (Hg : exec_groups n E obj src g p s <> XFuel) by nofuel H.
    rewrite (IHg _ _ _ _ _ _ Hg). reflexivity.
  - intros E obj src g p s. rewrite !exec_groups_S. destruct g as [|[k occs] rest]; [reflexivity|].
    intro H.
    assert (Hf : exec_field n E obj src k occs p s <> XFuel) by nofuel H.
    rewrite (exec_field_mono n n' Hle' IHc IHd _ _ _ _ _ _ _ Hf). revert H.
    destruct (exec_field n E obj src k occs p s) as [y sy|e sy|]; intro H; try reflexivity.
    assert (Hg : exec_groups n E obj src rest p sy <> XFuel) by nofuel H.
    rewrite (IHg _ _ _ _ _ _ Hg). reflexivity.
  - intros E q s. rewrite !dethunk_S. destruct q as [|v|l|l|t nodes occs p o]; try reflexivity.
    + intro H. assert (Hi : dethunk_list n E l s <> XFuel) by nofuel H.
      rewrite (dethunk_list_mono n n' IHd _ _ _ Hi). reflexivity.
    + intro H. assert (Hi : dethunk_fields n E l s <> XFuel) by nofuel H.
      rewrite (dethunk_fields_mono n n' IHd _ _ _ Hi). reflexivity.
    + destruct o as [v| |v| | | |o'];
        try (destruct (catch_at t _) as [y sy|e sy|]; [apply IHd|reflexivity|reflexivity]).
      intro H. assert (Hc : complete n E t nodes occs p p v s <> XFuel) by nofuel H.
      rewrite (IHc _ _ _ _ _ _ _ _ Hc). revert H.
      destruct (catch_at t _) as [y sy|e sy|]; [apply IHd|reflexivity|reflexivity].
Qed.

(* user-facing forms: a non-XFuel result is stable under more fuel *)
Lemma complete_fuel_mono : forall fuel fuel' E t nodes occs fpath p v s r,
  complete fuel E t nodes occs fpath p v s = r -> r <> XFuel -> fuel <= fuel' ->
  complete fuel' E t nodes occs fpath p v s = r.
Proof.
  intros fuel fuel' E t nodes occs fpath p v s r H Hr Hle. subst r.
  exact (proj1 (exec_fuel_mono_all fuel fuel' Hle) _ _ _ _ _ _ _ _ Hr).
Qed.

Lemma exec_object_fuel_mono : forall fuel fuel' E obj occs p src s r,
  exec_object fuel E obj occs p src s = r -> r <> XFuel -> fuel <= fuel' ->
  exec_object fuel' E obj occs p src s = r.
Proof.
  intros fuel fuel' E obj occs p src s r H Hr Hle. subst r.
  exact (proj1 (proj2 (exec_fuel_mono_all fuel fuel' Hle)) _ _ _ _ _ _ Hr).
Qed.

Lemma exec_groups_fuel_mono : forall fuel fuel' E obj src g p s r,
  exec_groups fuel E obj src g p s = r -> r <> XFuel -> fuel <= fuel' ->
  exec_groups fuel' E obj src g p s = r.
Proof.
  intros fuel fuel' E obj src g p s r H Hr Hle. subst r.
  exact (proj1 (proj2 (proj2 (exec_fuel_mono_all fuel fuel' Hle))) _ _ _ _ _ _ Hr).
Qed.

Lemma dethunk_fuel_mono : forall fuel fuel' E q s r,
  dethunk fuel E q s = r -> r <> XFuel -> fuel <= fuel' ->
  dethunk fuel' E q s = r.
Proof.
  intros fuel fuel' E q s r H Hr Hle. subst r.
  exact (proj2 (proj2 (proj2 (exec_fuel_mono_all fuel fuel' Hle))) _ _ _ Hr).
Qed.


(* ---- fuel monotonicity of variable coercion and of the whole request ---- *)
Lemma oall_mono : forall (A : Type) (f g : A -> option bool) l b,
  (forall x y, f x = Some y -> g x = Some y) ->
  oall f l = Some b -> oall g l = Some b.
Proof.
  intros A f g l. induction l as [|a r IHr]; intros b Hfg H; cbn in H |- *; [exact H|].
  destruct (f a) as [y|] eqn:Hy; [|discriminate H].
  destruct (oall f r) as [bs|] eqn:Hr; [|discriminate H].
  rewrite (Hfg _ _ Hy), (IHr _ Hfg eq_refl). exact H.
Qed.

Lemma valid_input_fuel_mono : forall fuel fuel' S t v b,
  valid_input fuel S t v = Some b -> fuel <= fuel' -> valid_input fuel' S t v = Some b.
Proof.
  induction fuel as [|n IH]; intros fuel' S t v b H Hle; [discriminate H|].
  destruct fuel' as [|n']; [lia|]. assert (Hle' : n <= n') by lia.
  cbn [valid_input] in H |- *.
  destruct (nullish v); [exact H|].
  destruct t as [nm|t'|t'].
  - destruct (lookup_type S nm) as [[k|vals|fs ifs|fs|ms|fs]|]; try exact H.
    destruct v as [| | | | | |m]; try exact H.
    destruct (oall _ fs) as [b0|] eqn:Ho; [|discriminate H].
    rewrite (oall_mono _ _ (fun f => valid_input n' S (a_type f) (jlookup (a_name f) m)) _ _
               (fun x y Hy => IH _ _ _ _ _ Hy Hle') Ho). exact H.
  - destruct v as [| | | | |l|]; try exact (IH _ _ _ _ _ H Hle').
    exact (oall_mono _ _ _ _ _ (fun x y Hy => IH _ _ _ _ _ Hy Hle') H).
  - exact (IH _ _ _ _ _ H Hle').
Qed.

Lemma coerce_value_fuel_mono : forall fuel fuel' S t v r,
  coerce_value fuel S t v = Some r -> fuel <= fuel' -> coerce_value fuel' S t v = Some r.
Proof.
  induction fuel as [|n IH]; intros fuel' S t v r H Hle; [discriminate H|].
  destruct fuel' as [|n']; [lia|]. assert (Hle' : n <= n') by lia.
  cbn [coerce_value] in H |- *.
  destruct (nullish v); [exact H|].
  destruct t as [nm|t'|t'].
  - destruct (lookup_type S nm) as [[k|vals|fs ifs|fs|ms|fs]|]; try exact H.
    cbv zeta in H |- *.
    destruct (omap _ fs) as [kvs|] eqn:Ho; [|discriminate H].
    erewrite omap_mono; [exact H| |exact Ho].
    intros f y Hy. cbn beta in Hy |- *.
    destruct (coerce_value n S (a_type f) _) as [fv|] eqn:Hf; [|discriminate Hy].
    rewrite (IH _ _ _ _ _ Hf Hle'). exact Hy.
  - assert (Hone : match coerce_value n S t' v with Some x => Some (JList [x]) | None => None end = Some r ->
                   match coerce_value n' S t' v with Some x => Some (JList [x]) | None => None end = Some r).
    { intro Hy. destruct (coerce_value n S t' v) as [x|] eqn:Hx; [|discriminate Hy].
      rewrite (IH _ _ _ _ _ Hx Hle'). exact Hy. }
    destruct v as [| | | | |l|]; try exact (Hone H).
    destruct (omap _ l) as [l'|] eqn:Ho; [|discriminate H].
    rewrite (omap_mono _ _ _ (coerce_value n' S t') _ _ (fun x y Hy => IH _ _ _ _ _ Hy Hle') Ho).
    exact H.
  - exact (IH _ _ _ _ _ H Hle').
Qed.

Lemma get_variable_value_fuel_mono : forall fuel fuel' S d input r,
  get_variable_value fuel S d input = Some r -> fuel <= fuel' ->
  get_variable_value fuel' S d input = Some r.
Proof.
  intros fuel fuel' S d input r H Hle. unfold get_variable_value in H |- *.
  destruct (negb (is_input_type S (v_type d))); [exact H|].
  destruct (valid_input fuel S (v_type d) input) as [b|] eqn:Hv; [|discriminate H].
  rewrite (valid_input_fuel_mono _ _ _ _ _ _ Hv Hle).
  destruct b; [|exact H].
  destruct (nullish input).
  - destruct (v_default d) as [dv|]; [|exact H].
    destruct (value_from_ast fuel S (v_type d) (Some dv) None) as [x|] eqn:Hx; [|discriminate H].
    rewrite (value_from_ast_fuel_mono _ _ _ _ _ _ _ Hx Hle). exact H.
  - destruct (coerce_value fuel S (v_type d) input) as [x|] eqn:Hx; [|discriminate H].
    rewrite (coerce_value_fuel_mono _ _ _ _ _ _ Hx Hle). exact H.
Qed.

Lemma get_variable_values_fuel_mono : forall fuel fuel' S ds inputs r,
  get_variable_values fuel S ds inputs = Some r -> fuel <= fuel' ->
  get_variable_values fuel' S ds inputs = Some r.
Proof.
  intros fuel fuel' S ds inputs. induction ds as [|d rest IHr]; intros r H Hle; cbn in H |- *; [exact H|].
  destruct (get_variable_value fuel S d _) as [x|] eqn:Hx; [|discriminate H].
  rewrite (get_variable_value_fuel_mono _ _ _ _ _ _ Hx Hle).
  destruct x as [x|u]; [|exact H].
  destruct (get_variable_values fuel S rest inputs) as [m|] eqn:Hm; [|discriminate H].
  rewrite (IHr _ eq_refl Hle). exact H.
Qed.

Theorem request_fuel_mono : forall fuel fuel' S D op inputs root or tor r,
  request fuel S D op inputs root or tor = r -> r <> RFuel -> fuel <= fuel' ->
  request fuel' S D op inputs root or tor = r.
Proof.
  intros fuel fuel' S D op inputs root or tor r H Hr Hle. subst r. revert Hr. unfold request.
  destruct (get_operation D op) as [o|]; [|reflexivity].
  destruct (root_type S o) as [rt|]; [|reflexivity].
  destruct (get_variable_values fuel S (o_vars o) inputs) as [vv|] eqn:Hv;
    [|intro Hr; exfalso; apply Hr; reflexivity].
  rewrite (get_variable_values_fuel_mono _ _ _ _ _ _ Hv Hle).
  destruct vv as [vars|b]; [|reflexivity].
  destruct (collect fuel S D vars rt (o_sel o) [] []) as [[g vis]|] eqn:Hc;
    [|intro Hr; exfalso; apply Hr; reflexivity].
  rewrite (collect_fuel_mono_l _ _ _ _ _ _ _ _ _ _ Hc Hle).
  match goal with |- context [exec_groups fuel ?E _ _ _ _ _] => set (E0 := E) end.
  intro Hr.
  assert (Hg : exec_groups fuel E0 rt root g [] st0 <> XFuel) by nofuel Hr.
  rewrite (exec_groups_fuel_mono _ _ _ _ _ _ _ _ _ eq_refl Hg Hle). revert Hr.
  destruct (exec_groups fuel E0 rt root g [] st0) as [fs s|e s|]; intro Hr; try reflexivity.
  assert (Hd : dethunk fuel E0 (QObj fs) s <> XFuel) by nofuel Hr.
  rewrite (dethunk_fuel_mono _ _ _ _ _ _ eq_refl Hd Hle). reflexivity.
Qed.

Corollary do_model_fuel_mono : forall parsed verrs fuel fuel' S op inputs root or tor d n c,
  do_model parsed verrs fuel S op inputs root or tor = DoRes d n c -> fuel <= fuel' ->
  do_model parsed verrs fuel' S op inputs root or tor = DoRes d n c.
Proof.
  intros parsed verrs fuel fuel' S op inputs root or tor d n c H Hle. unfold do_model in H |- *.
  destruct parsed as [D|]; [|exact H].
  destruct (verrs D) as [|k]; [|exact H].
  destruct (request fuel S D op inputs root or tor) as [| |d' s] eqn:Hr; try discriminate H.
  - rewrite (request_fuel_mono _ _ _ _ _ _ _ _ _ _ Hr ltac:(discriminate) Hle). exact H.
  - rewrite (request_fuel_mono _ _ _ _ _ _ _ _ _ _ Hr ltac:(discriminate) Hle). exact H.
Qed.
