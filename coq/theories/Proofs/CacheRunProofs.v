(* The instance of the cache model that the runner executes satisfies the
   hypotheses of the C06 theorems. *)
From Coq Require Import List NArith ZArith Bool Lia.
From GQL Require Import Base.Bytes Cache.LRU Cache.CacheSpec Proofs.CacheProofs Run.C06run.
Import ListNotations.
Open Scope N_scope.

Lemma run_hash_inj : forall a b, run_hash a = run_hash b -> a = b.
Proof. intros a b H. unfold run_hash in H. injection H as H. exact H. Qed.

Lemma run_hash_not_raw : forall a, firstn 4 (run_hash a) <> raw_tag.
Proof. intros a H. unfold run_hash, raw_tag in H. simpl in H. discriminate H. Qed.
