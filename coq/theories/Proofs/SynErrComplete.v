(* The full "first token at which the text stops being the beginning of anything valid"
   statement for the value and type sub-grammars: when the recogniser for Value[Const] / Type
   fails at a token t having consumed the tokens u,
     - u extends to a derivable value / type (a completion is constructed), and
     - nothing derivable begins with u ++ [t].
   Derivability is that of Syntax/Grammar.v (DValue, DType). *)
From Coq Require Import String List NArith Bool Lia PeanoNat.
From GQL Require Import Base.Bytes Syntax.Lexer Syntax.Ast Syntax.Parser Syntax.Grammar SynErr.LexErr SynErr.ParseErr.
From GQL Require Import Proofs.SyntaxSound Proofs.SyntaxComplete Proofs.SynErrWB Proofs.SynErrErase.
Import ListNotations.
Open Scope N_scope.

(* on failure, what was consumed extends to something derivable *)
Definition Completable {A} (g : R) (I : list token -> A -> Prop) : Prop :=
  forall ts r, g ts = ErrE r -> exists u, ts = u ++ r /\ exists cont a, I (u ++ cont) a.
(* on success, what was consumed is derivable *)
Definition SoundE {A} (g : R) (I : list token -> A -> Prop) : Prop :=
  forall ts r, g ts = OkE r -> exists u a, ts = u ++ r /\ I u a.

Lemma SoundE_of : forall A (f : pst -> res (A * pst)) g I, Er f g -> Sound f I -> SoundE g I.
Proof.
  intros A f g I E S ts r H.
  destruct (Er_cases _ _ _ E 0 ts) as [(a & p1 & ts1 & E1 & E2) | [(E1 & r' & E2) | (E1 & E2)]];
    rewrite H in E2; try discriminate E2. inversion E2; subst ts1.
  destruct (S _ _ _ E1) as (p & [C _] & D). cbn [snd] in C. exists p, a. split; assumption.
Qed.

Lemma DStar_snoc : forall A (I : list token -> A -> Prop) ps l p a, DStar I ps l -> I p a -> DStar I (ps ++ p) (l ++ [a]).
Proof.
  intros A I ps l p a D Hp. induction D as [|p0 a0 ps l H0 _ IH].
  - cbn [app]. rewrite <- (app_nil_r p). constructor; [exact Hp|constructor].
  - rewrite <- app_assoc. cbn [app]. constructor; assumption.
Qed.

(* the loop of reverse(): complete items, then an item that can be completed *)
Lemma manyE_completable : forall A (item : R) (I : list token -> A -> Prop) close,
  SoundE item I -> Completable item I ->
  forall fuel ts r, manyE fuel item close ts = ErrE r ->
    exists ps l u, ts = ps ++ u ++ r /\ DStar I ps l /\ exists cont a, I (u ++ cont) a.
Proof.
  intros A item I close S C. induction fuel as [|f IH]; intros ts r H; cbn [manyE] in H; [discriminate H|].
  unfold ifE, caseE in H.
  assert (X : (item ;;; manyE f item close) ts = ErrE r).
  { destruct ts as [|t ts']; cbn [hd_error] in H; [exact H|].
    destruct (is_k close t); [|exact H]. cbn in H. discriminate H. }
  clear H. unfold seqE in X. destruct (item ts) as [m|a0|] eqn:Ei; try discriminate X.
  - destruct (S _ _ Ei) as (u1 & a1 & -> & D1).
    destruct (IH _ _ X) as (ps & l & u & -> & Ds & Cc).
    exists (u1 ++ ps), (a1 :: l), u. split; [rewrite <- app_assoc; reflexivity|]. split; [constructor; assumption|exact Cc].
  - inversion X; subst a0. destruct (C _ _ Ei) as (u & -> & Cc).
    exists [], [], u. split; [reflexivity|]. split; [constructor|exact Cc].
Qed.

(* tokens used to complete *)
Definition cINT : token := mktok INT 0 0 [49].
Definition cNAME : token := mktok NAME 0 0 [120].
Definition cCOLON : token := mktok COLON 0 0 [].
Definition cBRACKET_R : token := mktok BRACKET_R 0 0 [].
Definition cBRACE_R : token := mktok BRACE_R 0 0 [].

Lemma some_value : forall c, exists v, DValue c [cINT] v.
Proof. intro c. eexists. apply DV_int. reflexivity. Qed.

Lemma objfieldE_completable : forall c pv, SoundE pv (DValue c) -> Completable pv (DValue c) ->
  Completable (parse_objfieldE pv) (DObjFieldOf (DValue c)).
Proof.
  intros c pv S C ts r H. unfold parse_objfieldE, parse_nameE, expectE, seqE, tokE in H.
  destruct ts as [|n ts]; [inversion H; subst|].
  { exists []. split; [reflexivity|]. exists [cNAME; cCOLON; cINT]. eexists. cbn [app].
    apply DOF_intro; [reflexivity|reflexivity|apply DV_int; reflexivity]. }
  destruct (is_k NAME n) eqn:Kn; [|inversion H; subst].
  2:{ exists []. split; [reflexivity|]. exists [cNAME; cCOLON; cINT]. eexists. cbn [app].
      apply DOF_intro; [reflexivity|reflexivity|apply DV_int; reflexivity]. }
  apply tkind_beq_eq in Kn.
  destruct ts as [|co ts]; [inversion H; subst|].
  { exists [n]. split; [reflexivity|]. exists [cCOLON; cINT]. eexists. cbn [app].
    apply DOF_intro; [exact Kn|reflexivity|apply DV_int; reflexivity]. }
  destruct (is_k COLON co) eqn:Kc; [|inversion H; subst].
  2:{ exists [n]. split; [reflexivity|]. exists [cCOLON; cINT]. eexists. cbn [app].
      apply DOF_intro; [exact Kn|reflexivity|apply DV_int; reflexivity]. }
  apply tkind_beq_eq in Kc.
  destruct (pv ts) as [m|a|] eqn:Ep; try discriminate H. inversion H; subst a.
  destruct (C _ _ Ep) as (u & -> & cont & v & D).
  exists (n :: co :: u). split; [reflexivity|]. exists cont. eexists. cbn [app].
  apply DOF_intro; [exact Kn|exact Kc|exact D].
Qed.

Lemma parse_valueE_completable : forall fuel c, Completable (parse_valueE fuel c) (DValue c).
Proof.
  induction fuel as [|f IH]; intros c ts r H; cbn [parse_valueE] in H; [discriminate H|].
  unfold caseE in H. destruct ts as [|t ts]; cbn [hd_error] in H.
  { inversion H; subst. exists []. split; [reflexivity|]. exists [cINT]. destruct (some_value c) as [v D]. eauto. }
  assert (Dflt : failE (t :: ts) = ErrE r -> exists u, t :: ts = u ++ r /\ exists cont a, DValue c (u ++ cont) a).
  { intro X. inversion X; subst. exists []. split; [reflexivity|]. exists [cINT]. destruct (some_value c) as [v D]. eauto. }
  assert (Leaf : anyE (t :: ts) = ErrE r -> exists u, t :: ts = u ++ r /\ exists cont a, DValue c (u ++ cont) a).
  { intro X. cbn in X. discriminate X. }
  pose proof (SoundE_of _ _ _ _ (Er_parse_value f c) (parse_value_sound f c)) as Sv.
  destruct (tk t) eqn:K; try (exact (Dflt H)); try (exact (Leaf H)).
  - (* $ *)
    destruct c; [exact (Dflt H)|].
    unfold parse_variableE, parse_nameE, expectE, seqE, tokE, is_k in H. rewrite K in H. cbn in H.
    destruct ts as [|n ts]; [inversion H; subst|].
    { exists [t]. split; [reflexivity|]. exists [cNAME]. eexists. cbn [app]. apply DV_var; [reflexivity|exact K|reflexivity]. }
    destruct (tkind_beq (tk n) NAME); [discriminate H|]. inversion H; subst.
    exists [t]. split; [reflexivity|]. exists [cNAME]. eexists. cbn [app]. apply DV_var; [reflexivity|exact K|reflexivity].
  - (* [ *)
    unfold reverseE, expectE, seqE, tokE, is_k in H. rewrite K in H. cbn [tkind_beq] in H.
    destruct (manyE f (parse_valueE f c) BRACKET_R ts) as [m|a|] eqn:M; try discriminate H. inversion H; subst a.
    destruct (manyE_completable _ _ _ _ Sv (IH c) _ _ _ M) as (ps & l & u & -> & Ds & cont & a & D).
    exists (t :: ps ++ u). split; [cbn [app]; rewrite <- app_assoc; reflexivity|].
    exists (cont ++ [cBRACKET_R]). eexists.
    replace ((t :: ps ++ u) ++ cont ++ [cBRACKET_R]) with (t :: (ps ++ (u ++ cont)) ++ [cBRACKET_R])
      by (cbn [app]; rewrite <- !app_assoc; reflexivity).
    apply DV_list. constructor; [exact K|reflexivity|exact (DStar_snoc _ _ _ _ _ _ Ds D)|discriminate].
  - (* { *)
    unfold reverseE, expectE, seqE, tokE, is_k in H. rewrite K in H. cbn [tkind_beq] in H.
    destruct (manyE f (parse_objfieldE (parse_valueE f c)) BRACE_R ts) as [m|a|] eqn:M; try discriminate H. inversion H; subst a.
    pose proof (SoundE_of _ _ _ _ (Er_parse_objfield _ _ (Er_parse_value f c)) (objfield_sound _ _ (parse_value_sound f c))) as So.
    destruct (manyE_completable _ _ _ _ So (objfieldE_completable c _ Sv (IH c)) _ _ _ M) as (ps & l & u & -> & Ds & cont & a & D).
    exists (t :: ps ++ u). split; [cbn [app]; rewrite <- app_assoc; reflexivity|].
    exists (cont ++ [cBRACE_R]). eexists.
    replace ((t :: ps ++ u) ++ cont ++ [cBRACE_R]) with (t :: (ps ++ (u ++ cont)) ++ [cBRACE_R])
      by (cbn [app]; rewrite <- !app_assoc; reflexivity).
    apply DV_object. constructor; [exact K|reflexivity|exact (DStar_snoc _ _ _ _ _ _ Ds D)|discriminate].
  - (* name *)
    destruct (bytes_eqb (tval t) (kw "true")); [exact (Leaf H)|].
    destruct (bytes_eqb (tval t) (kw "false")); [exact (Leaf H)|].
    destruct (bytes_eqb (tval t) (kw "null")); [exact (Dflt H)|exact (Leaf H)].
Qed.

Lemma optE_no_fail : forall k ts r, optE k ts <> ErrE r.
Proof.
  intros k ts r H. unfold optE, ifE, caseE in H. destruct ts as [|t ts]; cbn [hd_error] in H; [discriminate H|].
  destruct (is_k k t) eqn:K; [|discriminate H]. cbn in H. discriminate H.
Qed.

Lemma parse_typeE_completable : forall fuel, Completable (parse_typeE fuel) DType.
Proof.
  induction fuel as [|f IH]; intros ts r H; cbn [parse_typeE] in H; [discriminate H|].
  unfold caseE in H. destruct ts as [|t ts]; cbn [hd_error] in H.
  { inversion H; subst. exists []. split; [reflexivity|]. exists [cNAME]. eexists. apply DT_named. reflexivity. }
  pose proof (SoundE_of _ _ _ _ (Er_parse_type f) (parse_type_sound f)) as St.
  unfold seqE at 1 in H.
  assert (Dflt : forall x, failE (t :: ts) = ErrE x -> x = r -> exists u, t :: ts = u ++ r /\ exists cont a, DType (u ++ cont) a).
  { intros x X ->. inversion X; subst. exists []. split; [reflexivity|]. exists [cNAME]. eexists. apply DT_named. reflexivity. }
  destruct (tk t) eqn:K;
    try (cbn in H; inversion H; subst; exact (Dflt _ eq_refl eq_refl)).
  - (* [ *)
    unfold seqE, anyE, expectE, tokE in H. cbn in H.
    destruct (parse_typeE f ts) as [m|a|] eqn:Ei; try discriminate H.
    + destruct (St _ _ Ei) as (u & a & -> & D).
      destruct m as [|cl m].
      * inversion H; subst. exists (t :: u). split; [cbn [app]; rewrite app_nil_r; reflexivity|].
        exists [cBRACKET_R]. eexists. cbn [app]. apply DT_list; [exact K|exact D|reflexivity].
      * destruct (is_k BRACKET_R cl) eqn:Kc.
        { exfalso. exact (optE_no_fail _ _ _ H). }
        inversion H; subst. exists (t :: u). split; [reflexivity|].
        exists [cBRACKET_R]. eexists. cbn [app]. apply DT_list; [exact K|exact D|reflexivity].
    + inversion H; subst a. destruct (IH _ _ Ei) as (u & -> & cont & a & D).
      exists (t :: u). split; [reflexivity|]. exists (cont ++ [cBRACKET_R]). eexists.
      replace ((t :: u) ++ cont ++ [cBRACKET_R]) with (t :: (u ++ cont) ++ [cBRACKET_R])
        by (cbn [app]; rewrite <- !app_assoc; reflexivity).
      apply DT_list; [exact K|exact D|reflexivity].
  - (* name *)
    unfold parse_nameE, expectE, tokE, is_k in H. rewrite K in H. cbn [tkind_beq] in H.
    exfalso. exact (optE_no_fail _ _ _ H).
Qed.

(* ---- nothing derivable begins with the consumed tokens followed by the reported one ---- *)
Lemma Er_ok : forall A (f : pst -> res (A * pst)) g, Er f g -> forall p ts a p1 ts1,
  f (p, ts) = Ok (a, (p1, ts1)) -> g ts = OkE ts1.
Proof.
  intros A f g E p ts a p1 ts1 H. specialize (E p ts). rewrite H in E. cbn in E.
  destruct (g ts); cbn in E; try discriminate E. inversion E; reflexivity.
Qed.

Theorem value_viable_prefix : forall fuel c u t rest, parse_valueE fuel c (u ++ t :: rest) = ErrE (t :: rest) ->
  (exists cont v, DValue c (u ++ cont) v) /\ (forall q v, ~ DValue c (u ++ t :: q) v).
Proof.
  intros fuel c u t rest H. split.
  - destruct (parse_valueE_completable fuel c _ _ H) as (u' & E & X).
    apply app_inv_tail in E. subst u'. exact X.
  - intros q v D.
    set (F := (fuel + S (length (u ++ t :: q)))%nat).
    assert (H1 : parse_valueE F c (u ++ t :: rest) = ErrE (t :: rest)).
    { rewrite (ref_parse_valueE fuel F c ltac:(unfold F; lia) _ ltac:(rewrite H; discriminate)). exact H. }
    pose proof (wb_lerr _ (WB_parse_valueE F c) u (t :: rest) (t :: q) H1 eq_refl) as H2.
    pose proof (parse_value_complete F c _ _ D ltac:(unfold F; lia) 0 []) as Cp. rewrite app_nil_r in Cp.
    rewrite (Er_ok _ _ _ (Er_parse_value F c) _ _ _ _ _ Cp) in H2. discriminate H2.
Qed.

Theorem type_viable_prefix : forall fuel u t rest, parse_typeE fuel (u ++ t :: rest) = ErrE (t :: rest) ->
  (exists cont ty, DType (u ++ cont) ty) /\ (forall q ty, ~ DType (u ++ t :: q) ty).
Proof.
  intros fuel u t rest H. split.
  - destruct (parse_typeE_completable fuel _ _ H) as (u' & E & X).
    apply app_inv_tail in E. subst u'. exact X.
  - intros q ty D.
    set (F := (fuel + S (length (u ++ t :: q)))%nat).
    assert (H1 : parse_typeE F (u ++ t :: rest) = ErrE (t :: rest)).
    { rewrite (ref_parse_typeE fuel F ltac:(unfold F; lia) _ ltac:(rewrite H; discriminate)). exact H. }
    pose proof (wb_lerr _ (WB_parse_typeE F) u (t :: rest) (t :: q) H1 eq_refl) as H2.
    pose proof (parse_type_complete F _ _ D ltac:(unfold F; lia) 0 [] ltac:(discriminate)) as Cp. rewrite app_nil_r in Cp.
    rewrite (Er_ok _ _ _ (Er_parse_type F) _ _ _ _ _ Cp) in H2. discriminate H2.
Qed.
