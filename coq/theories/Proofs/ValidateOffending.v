(* The offending-node oracle of the runner is the Spec, and the model's reports lie in it. *)
From Coq Require Import List Arith Lia Bool String NArith.
From GQL Require Import Exec.Syntax Validate.Overlap Validate.OverlapSpec Validate.OverlapWf
     Proofs.ValidateOverlap Proofs.ValidateMemo Proofs.ValidateL1 Proofs.ValidateWitness.
Import ListNotations.
Open Scope string_scope.
Open Scope list_scope.

Section Off.
Variable S : schema.
Variable D : document.
Notation EF := (EF S D).
Notation compat := (compat S D (base2 S)).

(* the Spec's offending nodes of a selection set *)
Definition Offending (s : fset) (x : N) : Prop :=
  exists a b, EF s a /\ EF s b /\ fe_key a = fe_key b /\ fe_id a = x /\ ~ compat false a b.

Lemma offending_set_o_spec : forall fuel s ids, offending_set_o S D fuel s = Some ids ->
  forall x, In x ids <-> Offending s x.
Proof.
  intros fuel s ids H x. unfold offending_set_o in H.
  destruct (expanded_o S D s) as [l|] eqn:E; [|discriminate].
  pose proof (expanded_o_spec S D s l E) as Sl.
  match type of H with (if ?c then _ else _) = _ => destruct c eqn:Ec end; [|discriminate].
  inversion H; subst ids. clear H. rewrite forallb_forall in Ec. split.
  - intro Hx. apply in_flat_map in Hx. destruct Hx as [a [Ha Hx]].
    match type of Hx with In _ (if ?c then _ else _) => destruct c eqn:Ex end; [|destruct Hx].
    destruct Hx as [Hx|[]]. apply existsb_exists in Ex. destruct Ex as [b [Hb Ex]].
    apply andb_true_iff in Ex. destruct Ex as [Ek Ex]. apply String.eqb_eq in Ek.
    destruct (compat_o S D fuel false a b) as [[|]|] eqn:Eo; try discriminate.
    exists a, b. repeat split; [apply Sl; exact Ha | apply Sl; exact Hb | exact Ek | exact Hx|].
    apply (proj2 (compat_o_reflect S D fuel false a b) Eo).
  - intros [a [b [Ha [Hb [Hk [Hx HN]]]]]]. apply Sl in Ha. apply Sl in Hb.
    apply in_flat_map. exists a. split; [exact Ha|].
    assert (Ex : existsb (fun b0 => String.eqb (fe_key a) (fe_key b0) &&
                            match compat_o S D fuel false a b0 with Some false => true | _ => false end) l = true).
    { apply existsb_exists. exists b. split; [exact Hb|]. rewrite Hk, String.eqb_refl. simpl.
      specialize (Ec a Ha). rewrite forallb_forall in Ec. specialize (Ec b Hb). rewrite Hk, String.eqb_refl in Ec.
      destruct (compat_o S D fuel false a b) as [[|]|] eqn:Eo; [|reflexivity|discriminate].
      exfalso. apply HN. apply (proj1 (compat_o_reflect S D fuel false a b) Eo). }
    rewrite Ex. left. exact Hx.
Qed.

Lemma collect_o_spec : forall {A B} (f : A -> option (list B)) l ids, collect_o f l = Some ids ->
  forall x, In x ids <-> exists y r, In y l /\ f y = Some r /\ In x r.
Proof.
  intros A B f l. induction l as [|y r IH]; intros ids H x; simpl in H.
  - inversion H; subst. split; [intros [] | intros [y [r [[] _]]]].
  - destruct (f y) as [a|] eqn:Ey; [|discriminate]. destruct (collect_o f r) as [b|] eqn:Er; [|discriminate].
    inversion H; subst ids. rewrite in_app_iff, (IH b eq_refl x). split.
    + intros [Hx|[z [rz [Hz [Ez Hx]]]]].
      * exists y, a. split; [left; reflexivity|]. split; [exact Ey | exact Hx].
      * exists z, rz. split; [right; exact Hz|]. split; [exact Ez | exact Hx].
    + intros [z [rz [[Hz|Hz] [Ez Hx]]]]; [subst z; rewrite Ey in Ez; inversion Ez; subst; left; exact Hx|].
      right. exists z, rz. split; [exact Hz|]. split; [exact Ez | exact Hx].
Qed.

Lemma collect_o_all : forall {A B} (f : A -> option (list B)) l ids, collect_o f l = Some ids ->
  forall y, In y l -> exists r, f y = Some r.
Proof.
  intros A B f l. induction l as [|z r IH]; intros ids H y Hy; [destruct Hy|]. simpl in H.
  destruct (f z) as [a|] eqn:Ez; [|discriminate]. destruct (collect_o f r) as [b|] eqn:Er; [|discriminate].
  destruct Hy as [Hy|Hy]; [subst; exists a; exact Ez | apply (IH b eq_refl y Hy)].
Qed.

Theorem offending_o_spec : forall fuel ids, offending_o S D fuel = Some ids ->
  forall x, In x ids <-> exists s, In s (all_sets S D) /\ Offending s x.
Proof.
  intros fuel ids H x. unfold offending_o in H. rewrite (collect_o_spec _ _ _ H x). split.
  - intros [s [r [Hs [Er Hx]]]]. exists s. split; [exact Hs|]. apply (offending_set_o_spec fuel s r Er x). exact Hx.
  - intros [s [Hs Ho]]. destruct (collect_o_all _ _ _ H s Hs) as [r Er]. exists s, r. split; [exact Hs|].
    split; [exact Er|]. apply (offending_set_o_spec fuel s r Er x). exact Ho.
Qed.

(* every node the rule's model reports is an offending node of the Spec *)
Theorem model_reports_offending : forall fuel ids, offending_o S D fuel = Some ids ->
  forall memo fuel' x, In x (run_overlap S D memo fuel') -> In x ids.
Proof.
  intros fuel ids H memo fuel' x Hx. apply (offending_o_spec fuel ids H x).
  destruct (overlap_located S D memo fuel' x Hx) as [s [Hs [a [b [Ha [Hb [Hk [Ex C]]]]]]]].
  exists s. split; [exact Hs|]. exists a, b. repeat split; try assumption. apply Cfl_not_compat. exact C.
Qed.
End Off.
