(* Lexing what the printer lays out: the token-boundary lemma.  If every token piece of a
   layout is read back as that token before whatever follows it ([tok_ok]) and every
   separator consists of spaces, newlines and commas, then lexing the flattened layout
   yields exactly its token pieces, with the byte offsets at which they were written. *)
From Coq Require Import List NArith Bool Lia.
From GQL Require Import Base.Bytes Syntax.Lexer Syntax.Ast Syntax.Parser Syntax.Printer Proofs.SyntaxPrinter Proofs.SyntaxUtf8 Proofs.SyntaxBlock.
Import ListNotations.
Open Scope N_scope.

Definition is_sep_byte (c : N) : bool := (c =? 32) || (c =? 10) || (c =? 44).
Definition sep_ok (s : bytes) : Prop := forallb is_sep_byte s = true.
Definition tok_start (b : N) : bool := (b <? 128) && negb (is_ignored b) && negb (b =? 35).

Definition tokval (k : tkind) (v : bytes) : bytes :=
  match k with NAME | INT | FLOAT | STRING | BLOCK_STRING => v | _ => [] end.

(* the piece (k, v), written before [rest], is read back as the token (k, v) *)
Definition tok_ok (k : tkind) (v rest : bytes) : Prop :=
  let r := render_piece (PTok k v) in
  k <> EOF /\ (exists b y, r = b :: y /\ tok_start b = true) /\
  forall fuel pos, (length (r ++ rest) < fuel)%nat ->
    read_token fuel (r ++ rest) pos = Ok (mktok k pos (pos + nlen r) (tokval k v), rest, pos + nlen r).

(* the block-string piece (d, s), written before [rest], is read back as the BLOCK_STRING token s *)
Definition blk_ok (d : N) (s rest : bytes) : Prop :=
  let r := render_piece (PBlk d s) in
  forall fuel pos, (length (r ++ rest) < fuel)%nat ->
    read_token fuel (r ++ rest) pos = Ok (mktok BLOCK_STRING pos (pos + nlen r) s, rest, pos + nlen r).

Fixpoint layout_ok (L : layout) : Prop :=
  match L with
  | [] => True
  | PSep s :: r => sep_ok s /\ layout_ok r
  | PTok k v :: r => tok_ok k v (flat r) /\ layout_ok r
  | PBlk d s :: r => blk_ok d s (flat r) /\ layout_ok r
  end.

(* the tokens of a layout written at byte offset pos *)
Fixpoint ptoks (pos : N) (L : layout) : list token :=
  match L with
  | [] => []
  | PSep s :: r => ptoks (pos + nlen s) r
  | PTok k v :: r =>
    let n := nlen (render_piece (PTok k v)) in
    mktok k pos (pos + n) (tokval k v) :: ptoks (pos + n) r
  | PBlk d s :: r =>
    let n := nlen (render_piece (PBlk d s)) in
    mktok BLOCK_STRING pos (pos + n) s :: ptoks (pos + n) r
  end.
Definition eof_tok (p : N) : token := mktok EOF p p [].

Lemma nlen_app : forall A (a b : list A), nlen (a ++ b) = nlen a + nlen b.
Proof. intros. unfold nlen. rewrite app_length. lia. Qed.
Lemma nlen_cons : forall A (a : A) b, nlen (a :: b) = 1 + nlen b.
Proof. intros. unfold nlen. cbn [length]. lia. Qed.

Lemma skip_ws_seps : forall w rest fuel pos, sep_ok w ->
  (rest = [] \/ exists b y, rest = b :: y /\ tok_start b = true) ->
  (length (w ++ rest) < fuel)%nat ->
  skip_ws fuel (w ++ rest) pos false = Ok (rest, pos + nlen w, false).
Proof.
  induction w as [|c w IH]; intros rest fuel pos Hw Hr Hf.
  - destruct fuel; [simpl in Hf; lia|]. cbn [app skip_ws]. unfold nlen; cbn [length]. rewrite N.add_0_r.
    destruct Hr as [->|(b & y & -> & Hb)]; [reflexivity|].
    unfold tok_start in Hb. apply andb_true_iff in Hb. destruct Hb as [Hb H35]. apply andb_true_iff in Hb. destruct Hb as [H128 Hig].
    apply N.ltb_lt in H128. rewrite (rune_at_ascii b y H128).
    apply negb_true_iff in Hig. apply negb_true_iff in H35. rewrite Hig, H35. reflexivity.
  - destruct fuel; [simpl in Hf; lia|]. cbn [app skip_ws].
    unfold sep_ok in Hw. cbn [forallb] in Hw. apply andb_true_iff in Hw. destruct Hw as [Hc Hw].
    assert (Hc128 : c < 128).
    { unfold is_sep_byte in Hc. apply orb_true_iff in Hc. destruct Hc as [Hc|Hc]; [apply orb_true_iff in Hc; destruct Hc as [Hc|Hc]|];
        apply N.eqb_eq in Hc; subst; lia. }
    rewrite (rune_at_ascii c _ Hc128).
    assert (Hi : is_ignored c = true).
    { unfold is_sep_byte in Hc. apply orb_true_iff in Hc. destruct Hc as [Hc|Hc]; [apply orb_true_iff in Hc; destruct Hc as [Hc|Hc]|];
        apply N.eqb_eq in Hc; subst; reflexivity. }
    rewrite Hi. change (false || (1 <? 1)) with false. change (dropN 1 (c :: w ++ rest)) with (w ++ rest).
    rewrite (IH rest fuel (pos + 1) Hw Hr ltac:(simpl in Hf; lia)). rewrite nlen_cons. f_equal. f_equal. f_equal. lia.
Qed.

Lemma lex_all_tok : forall f s pos s1 p1 t s2 p2,
  skip_ws (S f) s pos false = Ok (s1, p1, false) -> read_token (S f) s1 p1 = Ok (t, s2, p2) -> tk t <> EOF ->
  lex_all (S f) s pos = match lex_all f s2 p2 with Ok (ts, fl) => Ok (t :: ts, fl) | Err => Err | OutOfFuel => OutOfFuel end.
Proof.
  intros f s pos s1 p1 t s2 p2 H1 H2 H3. cbn [lex_all]. rewrite H1, H2.
  destruct (tk t); try (exfalso; apply H3; reflexivity);
    (destruct (lex_all f s2 p2) as [[ts fl]| |]; [|reflexivity|reflexivity]; cbn [andb]; rewrite orb_false_r; reflexivity).
Qed.

Lemma lex_all_eof : forall f s pos s1 p1 mb t s2 p2,
  skip_ws (S f) s pos false = Ok (s1, p1, mb) -> read_token (S f) s1 p1 = Ok (t, s2, p2) -> tk t = EOF ->
  lex_all (S f) s pos = Ok ([t], false).
Proof. intros f s pos s1 p1 mb t s2 p2 H1 H2 H3. cbn [lex_all]. rewrite H1, H2, H3. reflexivity. Qed.

Theorem lex_layout : forall L w pos fuel, sep_ok w -> layout_ok L -> (length (w ++ flat L) < fuel)%nat ->
  lex_all fuel (w ++ flat L) pos = Ok (ptoks (pos + nlen w) L ++ [eof_tok (pos + nlen w + nlen (flat L))], false).
Proof.
  induction L as [|p L IH]; intros w pos fuel Hw HL Hf.
  - destruct fuel; [simpl in Hf; lia|]. change (flat []) with (@nil N) in *.
    etransitivity.
    + eapply (lex_all_eof fuel _ pos [] (pos + nlen w) false (eof_tok (pos + nlen w)) [] (pos + nlen w)).
      * apply (skip_ws_seps w [] (S fuel) pos Hw (or_introl eq_refl) Hf).
      * reflexivity.
      * reflexivity.
    + cbn [ptoks app]. unfold nlen at 3. cbn [length]. rewrite N.add_0_r. reflexivity.
  - destruct p as [k v|s|d s].
    + destruct HL as [(Hk & (b & y & Hr & Hb) & Hread) HL].
      destruct fuel; [simpl in Hf; lia|].
      change (flat (PTok k v :: L)) with (render_piece (PTok k v) ++ flat L) in *.
      etransitivity.
      * eapply (lex_all_tok fuel _ pos (render_piece (PTok k v) ++ flat L) (pos + nlen w)
                 (mktok k (pos + nlen w) (pos + nlen w + nlen (render_piece (PTok k v))) (tokval k v))
                 (flat L) (pos + nlen w + nlen (render_piece (PTok k v)))).
        -- apply skip_ws_seps; [exact Hw| |exact Hf]. right. exists b, (y ++ flat L). split; [rewrite Hr; reflexivity|exact Hb].
        -- apply Hread. rewrite app_length in Hf. lia.
        -- exact Hk.
      * assert (E := IH [] (pos + nlen w + nlen (render_piece (PTok k v))) fuel eq_refl HL).
        cbn [app] in E. rewrite E
          by (rewrite app_length in Hf; rewrite Hr in Hf; cbn [app length] in Hf |- *; rewrite app_length in Hf; lia).
        cbn [ptoks app]. rewrite !nlen_app. unfold nlen at 3. cbn [length]. rewrite !N.add_0_r. rewrite !N.add_assoc. reflexivity.
    + destruct HL as [Hs HL]. change (flat (PSep s :: L)) with (s ++ flat L) in *.
      rewrite app_assoc in Hf |- *.
      assert (Hws : sep_ok (w ++ s)) by (unfold sep_ok in *; rewrite forallb_app; apply andb_true_iff; split; assumption).
      rewrite (IH (w ++ s) pos fuel Hws HL Hf). cbn [ptoks]. rewrite !nlen_app. rewrite !N.add_assoc. reflexivity.
    + destruct HL as [Hread HL]. unfold blk_ok in Hread. cbv zeta in Hread.
      destruct fuel; [simpl in Hf; lia|].
      change (flat (PBlk d s :: L)) with (render_piece (PBlk d s) ++ flat L) in *.
      assert (Hr : render_piece (PBlk d s) = 34 :: 34 :: 34 :: N.iter d indent_bytes (block_raw s) ++ tq) by reflexivity.
      etransitivity.
      * eapply (lex_all_tok fuel _ pos (render_piece (PBlk d s) ++ flat L) (pos + nlen w)
                 (mktok BLOCK_STRING (pos + nlen w) (pos + nlen w + nlen (render_piece (PBlk d s))) s)
                 (flat L) (pos + nlen w + nlen (render_piece (PBlk d s)))).
        -- apply skip_ws_seps; [exact Hw| |exact Hf]. right. exists 34, ((34 :: 34 :: N.iter d indent_bytes (block_raw s) ++ tq) ++ flat L).
           split; [rewrite Hr; reflexivity|reflexivity].
        -- apply Hread. rewrite app_length in Hf. lia.
        -- discriminate.
      * assert (E := IH [] (pos + nlen w + nlen (render_piece (PBlk d s))) fuel eq_refl HL).
        cbn [app] in E. rewrite E
          by (rewrite app_length in Hf; rewrite Hr in Hf; cbn [app length] in Hf |- *; rewrite app_length in Hf; lia).
        cbn [ptoks app]. rewrite !nlen_app. unfold nlen at 3. cbn [length]. rewrite !N.add_0_r. rewrite !N.add_assoc. reflexivity.
Qed.

(* ---- each kind of token piece is read back ---- *)
Definition is_punct (k : tkind) : bool :=
  match k with
  | BANG | DOLLAR | PAREN_L | PAREN_R | SPREAD | COLON | EQUALS | AT | BRACKET_L | BRACKET_R
  | BRACE_L | PIPE | BRACE_R | AMP => true
  | _ => false
  end.

Lemma tok_ok_punct : forall k v rest, is_punct k = true -> v = [] -> tok_ok k v rest.
Proof.
  intros k v rest H ->. destruct k; try discriminate H;
    (split; [discriminate|]; split; [eexists; eexists; split; reflexivity|]; intros fuel pos _; reflexivity).
Qed.

(* the byte after a name or a number may not continue it *)
Definition bound_ok (rest : bytes) : bool :=
  match rest with [] => true | b :: _ => negb (is_name_char b) && negb (b =? 46) end.

Lemma span_app_stop : forall p a rest, forallb p a = true ->
  (match rest with [] => true | b :: _ => negb (p b) end) = true -> span p (a ++ rest) = (a, rest).
Proof.
  induction a as [|c a IH]; intros rest Ha Hr.
  - cbn [app]. destruct rest as [|b r]; [reflexivity|]. cbn [span]. apply negb_true_iff in Hr. rewrite Hr. reflexivity.
  - cbn [forallb] in Ha. apply andb_true_iff in Ha. destruct Ha as [Hc Ha]. cbn [app span]. rewrite Hc.
    rewrite (IH rest Ha Hr). reflexivity.
Qed.

Definition name_ok (v : bytes) : bool :=
  match v with c :: v' => is_name_start c && forallb is_name_char v' | [] => false end.

Lemma below128_all : forall (P : N -> bool), forallb P (map N.of_nat (seq 0 128)) = true -> forall c, c < 128 -> P c = true.
Proof. intros P H c Hc. rewrite forallb_forall in H. apply H. apply in_below. exact Hc. Qed.

Lemma name_start_facts : forall c, is_name_start c = true ->
  c < 128 /\ tok_start c = true /\ punct1 c = None /\ (c =? 46) = false /\
  ((c <? 32) && negb (c =? 9) && negb (c =? 10) && negb (c =? 13)) = false.
Proof.
  intros c H.
  assert (Hc : c < 128).
  { unfold is_name_start in H. apply orb_true_iff in H. destruct H as [H|H].
    - apply orb_true_iff in H. destruct H as [H|H]; [apply N.eqb_eq in H; lia|].
      apply andb_true_iff in H. destruct H as [_ H]. apply N.leb_le in H. lia.
    - apply andb_true_iff in H. destruct H as [_ H]. apply N.leb_le in H. lia. }
  split; [exact Hc|].
  assert (A := below128_all (fun c => implb (is_name_start c)
     (tok_start c && (match punct1 c with None => true | _ => false end) && negb (c =? 46) &&
      negb ((c <? 32) && negb (c =? 9) && negb (c =? 10) && negb (c =? 13)))) ltac:(vm_compute; reflexivity) c Hc).
  cbv beta in A. rewrite H in A. cbn [implb] in A.
  apply andb_true_iff in A; destruct A as [A A4]. apply andb_true_iff in A; destruct A as [A A3].
  apply andb_true_iff in A; destruct A as [A1 A2].
  repeat split.
  - exact A1.
  - destruct (punct1 c); [discriminate|reflexivity].
  - apply negb_true_iff. assumption.
  - apply negb_true_iff. assumption.
Qed.

Lemma tok_ok_name : forall v rest, name_ok v = true -> bound_ok rest = true -> tok_ok NAME v rest.
Proof.
  intros v rest Hv Hr. destruct v as [|c v']; [discriminate|]. cbn [name_ok] in Hv.
  apply andb_true_iff in Hv. destruct Hv as [Hc Hv].
  destruct (name_start_facts c Hc) as (H128 & Hts & Hp & H46 & Hctl).
  split; [discriminate|]. split; [exists c, v'; split; [reflexivity|exact Hts]|].
  intros fuel pos _. cbn [render_piece tokval]. unfold read_token. cbn [app].
  rewrite (rune_at_ascii c _ H128). rewrite Hctl, Hp, H46, Hc.
  assert (Hsp : span is_name_char (c :: v' ++ rest) = (c :: v', rest)).
  { apply (span_app_stop is_name_char (c :: v') rest).
    - cbn [forallb]. unfold is_name_char at 1. rewrite Hc. exact Hv.
    - destruct rest as [|b r]; [reflexivity|]. cbn [bound_ok] in Hr. apply andb_true_iff in Hr. tauto. }
  rewrite Hsp. reflexivity.
Qed.

(* ---- numbers ---- *)
Definition stopb (p : N -> bool) (rest : bytes) : bool := match rest with [] => true | b :: _ => negb (p b) end.

Lemma span_app_gen : forall p a x y rest, span p a = (x, y) -> (y <> [] \/ stopb p rest = true) ->
  span p (a ++ rest) = (x, y ++ rest).
Proof.
  induction a as [|c a IH]; intros x y rest H C.
  - cbn in H. inversion H; subst. destruct C as [C|C]; [contradiction C; reflexivity|]. cbn [app].
    destruct rest as [|b rr]; [reflexivity|]. cbn [span]. cbn [stopb] in C. apply negb_true_iff in C. rewrite C. reflexivity.
  - cbn [span] in H. cbn [app span]. destruct (p c).
    + destruct (span p a) as [x' y'] eqn:E. inversion H; subst. rewrite (IH x' y rest eq_refl C). reflexivity.
    + inversion H; subst. reflexivity.
Qed.

Definition numstop (rest : bytes) : Prop :=
  match rest with
  | [] => True
  | b :: _ => is_digit b = false /\ (b =? 46) = false /\ (b =? 69) = false /\ (b =? 101) = false
  end.

Lemma numstop_digit : forall rest, numstop rest -> stopb is_digit rest = true.
Proof. intros [|b r] H; [reflexivity|]. cbn. destruct H as [H _]. rewrite H. reflexivity. Qed.

Lemma read_int_part_app : forall s ip s2 rest, read_int_part s = Some (ip, s2) -> numstop rest ->
  read_int_part (s ++ rest) = Some (ip, s2 ++ rest).
Proof.
  intros s ip s2 rest H C. pose proof (numstop_digit _ C) as Cd.
  destruct s as [|c r]; [discriminate|]. cbn [read_int_part app] in *. destruct (c =? 48).
  - destruct r as [|d r'].
    + inversion H; subst. cbn [app]. destruct rest as [|b rr]; [reflexivity|]. destruct C as [C _]. rewrite C. reflexivity.
    + cbn [app]. destruct (is_digit d); [discriminate|]. inversion H; subst. reflexivity.
  - destruct (span is_digit (c :: r)) as [ds r'] eqn:E. destruct ds as [|d0 ds]; [discriminate|]. inversion H; subst.
    change (c :: r ++ rest) with ((c :: r) ++ rest). rewrite (span_app_gen _ _ _ _ rest E (or_intror Cd)). reflexivity.
Qed.

Lemma read_frac_part_app : forall s fp f s3 rest, read_frac_part s = Some (fp, f, s3) -> numstop rest ->
  read_frac_part (s ++ rest) = Some (fp, f, s3 ++ rest).
Proof.
  intros s fp f s3 rest H C. pose proof (numstop_digit _ C) as Cd.
  destruct s as [|c r].
  - cbn in H. inversion H; subst. cbn [app]. destruct rest as [|b rr]; [reflexivity|].
    cbn [read_frac_part]. destruct C as (_ & C & _). rewrite C. reflexivity.
  - cbn [read_frac_part app] in *. destruct (c =? 46).
    + destruct (span is_digit r) as [ds r'] eqn:E. destruct ds as [|d0 ds]; [discriminate|]. inversion H; subst.
      rewrite (span_app_gen _ _ _ _ rest E (or_intror Cd)). reflexivity.
    + inversion H; subst. reflexivity.
Qed.

Lemma read_exp_part_app : forall s ep f s4 rest, read_exp_part s = Some (ep, f, s4) -> numstop rest ->
  read_exp_part (s ++ rest) = Some (ep, f, s4 ++ rest).
Proof.
  intros s ep f s4 rest H C. pose proof (numstop_digit _ C) as Cd.
  destruct s as [|e r].
  - cbn in H. inversion H; subst. cbn [app]. destruct rest as [|b rr]; [reflexivity|].
    cbn [read_exp_part]. destruct C as (_ & _ & C1 & C2). rewrite C1, C2. reflexivity.
  - cbn [read_exp_part app] in *. destruct ((e =? 69) || (e =? 101)).
    + destruct r as [|c r'].
      * cbn in H. discriminate.
      * cbn [app]. destruct ((c =? 43) || (c =? 45)).
        -- destruct (span is_digit r') as [ds r2] eqn:E. destruct ds as [|d0 ds]; [discriminate|]. inversion H; subst.
           rewrite (span_app_gen _ _ _ _ rest E (or_intror Cd)). reflexivity.
        -- destruct (span is_digit (c :: r')) as [ds r2] eqn:E. destruct ds as [|d0 ds]; [discriminate|]. inversion H; subst.
           change (c :: r' ++ rest) with ((c :: r') ++ rest). rewrite (span_app_gen _ _ _ _ rest E (or_intror Cd)). reflexivity.
    + inversion H; subst. reflexivity.
Qed.

Lemma read_number_app : forall s lx isf rest, read_number s = Some (lx, isf, []) -> numstop rest ->
  read_number (s ++ rest) = Some (lx, isf, rest).
Proof.
  intros s lx isf rest H C. unfold read_number in *.
  destruct s as [|c r]; [cbn in H; discriminate|]. cbn [app].
  assert (G : forall sign s1, 
     match read_int_part s1 with
     | None => None
     | Some (ip, s2) => match read_frac_part s2 with
                        | None => None
                        | Some (fp, f1, s3) => match read_exp_part s3 with
                                               | None => None
                                               | Some (ep, f2, s4) => Some (sign ++ ip ++ fp ++ ep, f1 || f2, s4) end end end
     = Some (lx, isf, []) ->
     match read_int_part (s1 ++ rest) with
     | None => None
     | Some (ip, s2) => match read_frac_part s2 with
                        | None => None
                        | Some (fp, f1, s3) => match read_exp_part s3 with
                                               | None => None
                                               | Some (ep, f2, s4) => Some (sign ++ ip ++ fp ++ ep, f1 || f2, s4) end end end
     = Some (lx, isf, rest)).
  { intros sign s1 H1.
    destruct (read_int_part s1) as [[ip s2]|] eqn:E1; [|discriminate].
    destruct (read_frac_part s2) as [[[fp f1] s3]|] eqn:E2; [|discriminate].
    destruct (read_exp_part s3) as [[[ep f2] s4]|] eqn:E3; [|discriminate].
    inversion H1; subst.
    rewrite (read_int_part_app _ _ _ rest E1 C), (read_frac_part_app _ _ _ _ rest E2 C), (read_exp_part_app _ _ _ _ rest E3 C).
    reflexivity. }
  destruct (c =? 45).
  - apply (G [45] r H).
  - apply (G [] (c :: r) H).
Qed.

Lemma bound_numstop : forall rest, bound_ok rest = true -> numstop rest.
Proof.
  intros [|b r] H; [exact I|]. cbn [bound_ok] in H. apply andb_true_iff in H. destruct H as [H1 H2].
  apply negb_true_iff in H1. apply negb_true_iff in H2. unfold is_name_char in H1. apply orb_false_iff in H1. destruct H1 as [Hs Hd].
  cbn [numstop]. split; [exact Hd|]. split; [exact H2|]. split.
  - destruct (b =? 69) eqn:E; [apply N.eqb_eq in E; subst; discriminate Hs|reflexivity].
  - destruct (b =? 101) eqn:E; [apply N.eqb_eq in E; subst; discriminate Hs|reflexivity].
Qed.

Definition num_start (c : N) : bool := (c =? 45) || is_digit c.

Lemma num_start_facts : forall c, num_start c = true ->
  c < 128 /\ tok_start c = true /\ punct1 c = None /\ (c =? 46) = false /\ is_name_start c = false /\
  ((c <? 32) && negb (c =? 9) && negb (c =? 10) && negb (c =? 13)) = false.
Proof.
  intros c H.
  assert (Hc : c < 128).
  { unfold num_start, is_digit in H. apply orb_true_iff in H. destruct H as [H|H]; [apply N.eqb_eq in H; lia|].
    apply andb_true_iff in H. destruct H as [_ H]. apply N.leb_le in H. lia. }
  split; [exact Hc|].
  assert (A := below128_all (fun c => implb (num_start c)
     (tok_start c && (match punct1 c with None => true | _ => false end) && negb (c =? 46) && negb (is_name_start c) &&
      negb ((c <? 32) && negb (c =? 9) && negb (c =? 10) && negb (c =? 13)))) ltac:(vm_compute; reflexivity) c Hc).
  cbv beta in A. rewrite H in A. cbn [implb] in A.
  apply andb_true_iff in A; destruct A as [A A5]. apply andb_true_iff in A; destruct A as [A A4].
  apply andb_true_iff in A; destruct A as [A A3]. apply andb_true_iff in A; destruct A as [A1 A2].
  repeat split.
  - exact A1.
  - destruct (punct1 c); [discriminate|reflexivity].
  - apply negb_true_iff. assumption.
  - apply negb_true_iff. assumption.
  - apply negb_true_iff. assumption.
Qed.

Lemma read_number_first : forall v lx isf r, read_number v = Some (lx, isf, r) -> exists c v', v = c :: v' /\ num_start c = true.
Proof.
  intros v lx isf r H. destruct v as [|c v']; [cbn in H; discriminate|]. exists c, v'. split; [reflexivity|].
  unfold num_start. destruct (c =? 45) eqn:E; [reflexivity|]. cbn [orb].
  unfold read_number in H. rewrite E in H.
  destruct (read_int_part (c :: v')) as [[ip s2]|] eqn:E1; [|discriminate]. clear H.
  cbn [read_int_part] in E1. destruct (c =? 48) eqn:E48; [apply N.eqb_eq in E48; subst; reflexivity|].
  cbn [span] in E1. destruct (is_digit c); [reflexivity|]. discriminate.
Qed.

Definition num_ok (v : bytes) (isf : bool) : Prop := read_number v = Some (v, isf, []).

Lemma tok_ok_num : forall v rest isf, num_ok v isf -> bound_ok rest = true ->
  tok_ok (if isf then FLOAT else INT) v rest.
Proof.
  intros v rest isf Hv Hr. unfold num_ok in Hv.
  destruct (read_number_first _ _ _ _ Hv) as (c & v' & -> & Hc).
  destruct (num_start_facts c Hc) as (H128 & Hts & Hp & H46 & Hns & Hctl).
  assert (R : render_piece (PTok (if isf then FLOAT else INT) (c :: v')) = c :: v') by (destruct isf; reflexivity).
  split; [destruct isf; discriminate|]. split; [exists c, v'; split; [exact R|exact Hts]|].
  intros fuel pos _. rewrite R. unfold read_token. cbn [app].
  rewrite (rune_at_ascii c _ H128). rewrite Hctl, Hp, H46, Hns. unfold num_start in Hc. rewrite Hc.
  change (c :: v' ++ rest) with ((c :: v') ++ rest).
  rewrite (read_number_app _ _ _ rest Hv (bound_numstop _ Hr)). destruct isf; reflexivity.
Qed.

Lemma quote_string_head : forall s q, quote_string s = Ok q -> exists y, q = 34 :: y.
Proof.
  intros s q H. unfold quote_string in H.
  destruct (quote_body (S (length s)) s) as [b| |]; inversion H. eexists; reflexivity.
Qed.

Lemma tok_ok_string_ascii : forall v rest, (forall c, In c v -> c < 128) ->
  (v <> [] \/ forall r, rest <> 34 :: r) -> tok_ok STRING v rest.
Proof.
  intros v rest Hv Hne. destruct (quote_lex_roundtrip_ascii_gen v rest Hv Hne) as (q & Hq & Hread).
  assert (R : render_piece (PTok STRING v) = q) by (cbn [render_piece]; unfold quote_str; rewrite Hq; reflexivity).
  split; [discriminate|]. split.
  - rewrite R. destruct (quote_string_head _ _ Hq) as (y & ->). exists 34, y. split; reflexivity.
  - intros fuel pos Hf. rewrite R in *. apply Hread. exact Hf.
Qed.

Lemma tok_ok_string_utf8 : forall v rest, utf8_valid v ->
  (v <> [] \/ forall r, rest <> 34 :: r) -> tok_ok STRING v rest.
Proof.
  intros v rest Hv Hne. destruct (quote_lex_roundtrip_utf8 v rest Hv Hne) as (q & Hq & Hread).
  assert (R : render_piece (PTok STRING v) = q) by (cbn [render_piece]; unfold quote_str; rewrite Hq; reflexivity).
  split; [discriminate|]. split.
  - rewrite R. destruct (quote_string_head _ _ Hq) as (y & ->). exists 34, y. split; reflexivity.
  - intros fuel pos Hf. rewrite R in *. apply Hread. exact Hf.
Qed.

(* ---- a decidable sufficient condition, and the theorem for whole layouts ---- *)
Definition not_quote (rest : bytes) : bool := match rest with b :: _ => negb (b =? 34) | [] => true end.
Definition num_okb (v : bytes) (isf : bool) : bool :=
  match read_number v with
  | Some (lx, f, []) => bytes_eqb lx v && Bool.eqb f isf
  | _ => false
  end.

Definition piece_wfb (k : tkind) (v rest : bytes) : bool :=
  match k with
  | NAME => name_ok v && bound_ok rest
  | INT => num_okb v false && bound_ok rest
  | FLOAT => num_okb v true && bound_ok rest
  | STRING => str_okb v && (negb (is_nil v) || not_quote rest)
  | EOF | BLOCK_STRING => false
  | _ => is_nil v
  end.

Fixpoint layout_wfb (L : layout) : bool :=
  match L with
  | [] => true
  | PSep s :: r => forallb is_sep_byte s && layout_wfb r
  | PTok k v :: r => piece_wfb k v (flat r) && layout_wfb r
  | PBlk _ s :: r => blk_okb s && layout_wfb r
  end.

Lemma num_okb_ok : forall v isf, num_okb v isf = true -> num_ok v isf.
Proof.
  intros v isf H. unfold num_okb in H. unfold num_ok.
  destruct (read_number v) as [[[lx f] r]|]; [|discriminate]. destruct r; [|discriminate].
  apply andb_true_iff in H. destruct H as [H1 H2]. apply bytes_eqb_eq in H1. apply Bool.eqb_prop in H2. subst. reflexivity.
Qed.

Lemma piece_wfb_ok : forall k v rest, piece_wfb k v rest = true -> tok_ok k v rest.
Proof.
  intros k v rest H. destruct k; cbn [piece_wfb] in H; try discriminate H;
    try (apply tok_ok_punct; [reflexivity|destruct v; [reflexivity|discriminate H]]).
  - apply andb_true_iff in H. destruct H. apply tok_ok_name; assumption.
  - apply andb_true_iff in H. destruct H as [H1 H2]. apply (tok_ok_num v rest false (num_okb_ok _ _ H1) H2).
  - apply andb_true_iff in H. destruct H as [H1 H2]. apply (tok_ok_num v rest true (num_okb_ok _ _ H1) H2).
  - apply andb_true_iff in H. destruct H as [H1 H2]. apply tok_ok_string_utf8.
    + apply (utf8_okb_valid _ _ H1).
    + apply orb_true_iff in H2. destruct H2 as [H2|H2].
      * left. destruct v; [discriminate H2|discriminate].
      * right. intros r ->. discriminate H2.
Qed.

Lemma layout_wfb_ok : forall L, layout_wfb L = true -> layout_ok L.
Proof.
  induction L as [|p L IH]; intro H; [exact I|]. destruct p as [k v|s|d s]; cbn [layout_wfb layout_ok] in *;
    apply andb_true_iff in H; destruct H as [H1 H2]; split; auto.
  - apply piece_wfb_ok. exact H1.
  - intros fuel pos Hf. apply (read_token_block s d (flat L) fuel pos H1 Hf).
Qed.

(* Lexing the text of a well-formed layout gives back its token pieces, each at the byte offset
   where it was written, followed by the EOF token. *)
Theorem lex_flat_layout : forall L, layout_wfb L = true ->
  lex (flat L) = Ok (ptoks 0 L ++ [eof_tok (nlen (flat L))], false).
Proof.
  intros L H. unfold lex, lex_src. cbn [snd].
  pose proof (lex_layout L [] 0 (S (length (flat L))) eq_refl (layout_wfb_ok L H)) as X.
  cbn [app] in X. rewrite X by lia. unfold nlen at 1 2. cbn [length]. rewrite !N.add_0_l. reflexivity.
Qed.
