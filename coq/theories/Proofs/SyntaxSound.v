(* Soundness of the parser model with respect to the grammar (Syntax/Grammar.v):
   whatever a parse function returns is derivable, and the tokens it consumed
   are exactly the derivation's tokens. *)
From Coq Require Import String List NArith Bool Lia.
From GQL Require Import Base.Bytes Syntax.Lexer Syntax.Ast Syntax.Parser Syntax.Grammar.
Import ListNotations.
Open Scope N_scope.

Lemma tkind_beq_eq : forall a b, tkind_beq a b = true <-> a = b.
Proof. intros a b; split; [destruct a, b; simpl; intro H; try discriminate H; reflexivity | intros ->; destruct b; reflexivity]. Qed.

Lemma endof_app : forall p q pe, endof pe (p ++ q) = endof (endof pe p) q.
Proof. intros p q pe. unfold endof. apply fold_left_app. Qed.

Lemma endof_cons_any : forall t p pe pe', endof pe (t :: p) = endof pe' (t :: p).
Proof. reflexivity. Qed.

Definition consumes (st : pst) (p : list token) (st' : pst) : Prop :=
  snd st = p ++ snd st' /\ fst st' = endof (fst st) p.

Definition Sound {A} (P : pst -> res (A * pst)) (I : list token -> A -> Prop) : Prop :=
  forall st a st', P st = Ok (a, st') -> exists p, consumes st p st' /\ I p a.

Lemma consumes_refl : forall st, consumes st [] st.
Proof. intros [pe ts]; split; reflexivity. Qed.

Lemma consumes_trans : forall st p st1 q st2, consumes st p st1 -> consumes st1 q st2 -> consumes st (p ++ q) st2.
Proof.
  intros st p st1 q st2 [H1 H2] [H3 H4]. split.
  - rewrite H1, H3. apply app_assoc.
  - rewrite H4, H2. symmetry. apply endof_app.
Qed.

Lemma consumes_one : forall st t r, snd st = t :: r -> consumes st [t] (tend t, r).
Proof. intros [pe ts] t r H; simpl in *; subst; split; reflexivity. Qed.

Lemma consumes_start : forall st t p st', consumes st (t :: p) st' -> cur_start st = tstart t.
Proof. intros [pe ts] t p st' [H _]. unfold cur_start. simpl in *. rewrite H. reflexivity. Qed.

Lemma consumes_span : forall st t p st', consumes st (t :: p) st' -> mkl (tstart t) st' = span (t :: p).
Proof. intros st t p st' [_ H]. unfold mkl, span. rewrite H. reflexivity. Qed.

Lemma consumes_head : forall st t p st', consumes st (t :: p) st' -> exists r, snd st = t :: r.
Proof. intros st t p st' [H _]. rewrite H. eexists; reflexivity. Qed.

Lemma peek_true : forall k st, peek k st = true -> exists t r, snd st = t :: r /\ tk t = k.
Proof.
  intros k [pe ts]; unfold peek; simpl. destruct ts as [|t r]; [discriminate|].
  intro H. apply tkind_beq_eq in H. eauto.
Qed.

Lemma expect_ok : forall k st t st', expect k st = Ok (t, st') -> consumes st [t] st' /\ tk t = k.
Proof.
  intros k [pe ts] t st'; unfold expect; simpl. destruct ts as [|t0 r]; [discriminate|].
  destruct (tkind_beq (tk t0) k) eqn:E; [|discriminate].
  intro H; inversion H; subst. apply tkind_beq_eq in E. split; [split; reflexivity | exact E].
Qed.

Lemma expect_kw_ok : forall w st t st', expect_kw w st = Ok (t, st') -> consumes st [t] st' /\ tk t = NAME /\ tval t = w.
Proof.
  intros w [pe ts] t st'; unfold expect_kw; simpl. destruct ts as [|t0 r]; [discriminate|].
  destruct (tkind_beq (tk t0) NAME && bytes_eqb (tval t0) w) eqn:E; [|discriminate].
  intro H; inversion H; subst. apply andb_true_iff in E. destruct E as [E1 E2].
  apply tkind_beq_eq in E1. apply bytes_eqb_eq in E2. split; [split; reflexivity | auto].
Qed.

Lemma advance_ok : forall st st', advance st = Ok st' -> exists t, consumes st [t] st'.
Proof.
  intros [pe ts] st'; unfold advance; simpl. destruct ts as [|t r]; [discriminate|].
  intro H; inversion H; subst. exists t. split; reflexivity.
Qed.

Lemma skip_ok : forall k st b st', skip k st = Ok (b, st') ->
  (b = true /\ exists t, consumes st [t] st' /\ tk t = k) \/ (b = false /\ st' = st /\ peek k st = false).
Proof.
  intros k st b st'; unfold skip. destruct (peek k st) eqn:E.
  - destruct (advance st) as [st1| |] eqn:A; try discriminate. intro H; inversion H; subst.
    left; split; [reflexivity|]. apply peek_true in E. destruct E as (t & r & E1 & E2).
    exists t. split; [|exact E2]. unfold advance in A. rewrite E1 in A. inversion A. apply consumes_one; exact E1.
  - intro H; inversion H; subst. right; auto.
Qed.

(* one step of a monadic chain in hypothesis H *)
Ltac step H :=
  match type of H with
  | (match ?e with Ok _ => _ | Err => Err | OutOfFuel => OutOfFuel end) = Ok _ =>
    let E := fresh "E" in let x := fresh "x" in let s := fresh "s" in
    destruct e as [[x s]| |] eqn:E; [cbv beta iota in H|discriminate H|discriminate H]
  end.
Ltac step1 H :=
  match type of H with
  | (match ?e with Ok _ => _ | Err => Err | OutOfFuel => OutOfFuel end) = Ok _ =>
    let E := fresh "E" in let x := fresh "x" in
    destruct e as [x| |] eqn:E; [cbv beta iota in H|discriminate H|discriminate H]
  end.

Section ListLemmas.
  Context {A : Type}.
  Variable item : pst -> res (A * pst).
  Variable I : list token -> A -> Prop.
  Hypothesis item_sound : Sound item I.

  Lemma many_sound : forall close fuel st l st', many fuel item close st = Ok (l, st') ->
    exists ps c, consumes st (ps ++ [c]) st' /\ tk c = close /\ DStar I ps l.
  Proof.
    intros close fuel; induction fuel as [|f IH]; intros st l st' H; [discriminate|].
    cbn [many] in H. destruct (peek close st) eqn:P.
    - step1 H. inversion H; subst. apply peek_true in P. destruct P as (t & r & P1 & P2).
      exists [], t. split; [|split; [exact P2|constructor]].
      unfold advance in E. rewrite P1 in E. inversion E. apply consumes_one; exact P1.
    - step H. step H. inversion H; subst.
      apply item_sound in E. destruct E as (p & C1 & I1).
      apply IH in E0. destruct E0 as (ps & c & C2 & K & D).
      exists (p ++ ps), c. split; [|split; [exact K|constructor; assumption]].
      rewrite <- app_assoc. eapply consumes_trans; eassumption.
  Qed.

  Lemma reverse_sound : forall open close ne fuel, Sound (reverse fuel open item close ne) (DDelim I open close ne).
  Proof.
    intros open close ne fuel st l st' H. unfold reverse in H.
    step H. step H. apply expect_ok in E. destruct E as [C1 K1].
    apply many_sound in E0. destruct E0 as (ps & c & C2 & K2 & D).
    destruct (ne && is_nil x0) eqn:N; [discriminate|]. inversion H; subst.
    exists (x :: ps ++ [c]). split.
    - change (x :: ps ++ [c]) with ([x] ++ (ps ++ [c])). eapply consumes_trans; eassumption.
    - constructor; auto. intros -> ->. discriminate N.
  Qed.

  Lemma while_peek_sound : forall k fuel, Sound (while_peek fuel k item) (DStar I).
  Proof.
    intros k fuel; induction fuel as [|f IH]; intros st l st' H; [discriminate|].
    cbn [while_peek] in H. destruct (peek k st).
    - step H. step H. inversion H; subst.
      apply item_sound in E. destruct E as (p & C1 & I1).
      apply IH in E0. destruct E0 as (ps & C2 & D).
      exists (p ++ ps). split; [eapply consumes_trans; eassumption | constructor; assumption].
    - inversion H; subst. exists []. split; [apply consumes_refl | constructor].
  Qed.

  Lemma sep_by_sound : forall sep fuel, Sound (sep_by fuel sep item) (DSep I sep).
  Proof.
    intros sep fuel; induction fuel as [|f IH]; intros st l st' H; [discriminate|].
    cbn [sep_by] in H. step H. step H.
    apply item_sound in E. destruct E as (p & C1 & I1).
    apply skip_ok in E0. destruct E0 as [[-> (t & C2 & K)] | [-> [-> _]]].
    - step H. inversion H; subst. apply IH in E. destruct E as (ps & C3 & D).
      exists (p ++ t :: ps). split; [|constructor; auto].
      change (t :: ps) with ([t] ++ ps).
      eapply consumes_trans; [eassumption|]. eapply consumes_trans; eassumption.
    - inversion H; subst. exists p. split; [assumption | constructor; assumption].
  Qed.
End ListLemmas.

Lemma Sound_ext : forall A (P Q : pst -> res (A * pst)) I, (forall st, P st = Q st) -> Sound Q I -> Sound P I.
Proof. intros A P Q I E S st a st' H. rewrite E in H. exact (S st a st' H). Qed.

(* ---- leaves ---- *)
Lemma parse_name_sound : Sound parse_name DName.
Proof.
  intros st n st' H. unfold parse_name in H. step H. inversion H; subst.
  apply expect_ok in E. destruct E as [C K]. exists [x]. split; [exact C | constructor; exact K].
Qed.

Lemma parse_name_tok : forall st n st', parse_name st = Ok (n, st') -> exists t, consumes st [t] st' /\ tk t = NAME /\ n = tok_name t.
Proof.
  intros st n st' H. unfold parse_name in H. step H. inversion H; subst.
  apply expect_ok in E. destruct E as [C K]. exists x. auto.
Qed.

Lemma parse_named_tok : forall st n st', parse_named st = Ok (n, st') -> exists t, consumes st [t] st' /\ tk t = NAME /\ n = tok_named t.
Proof.
  intros st n st' H. unfold parse_named in H. step H. inversion H; subst.
  apply parse_name_tok in E. destruct E as (t & C & K & ->). exists t. split; [exact C|split; [exact K|]].
  unfold tok_named. rewrite (consumes_start _ _ _ _ C). f_equal.
  destruct C as [_ C2]. unfold mkl, tokloc. rewrite C2. reflexivity.
Qed.

Lemma parse_named_sound : Sound parse_named DNamed.
Proof.
  intros st n st' H. apply parse_named_tok in H. destruct H as (t & C & K & ->).
  exists [t]. split; [exact C | constructor; exact K].
Qed.

(* ---- values ---- *)
Lemma parse_variable_ok : forall st v st', parse_variable st = Ok (v, st') ->
  exists d n, consumes st [d; n] st' /\ tk d = DOLLAR /\ tk n = NAME /\ v = VVar (tok_name n) (span [d; n]).
Proof.
  intros st v st' H. unfold parse_variable in H. step H. step H. inversion H; subst.
  apply expect_ok in E. destruct E as [C1 K1]. apply parse_name_tok in E0. destruct E0 as (n & C2 & K2 & ->).
  exists x, n. assert (C : consumes st [x; n] st') by (change [x; n] with ([x] ++ [n]); eapply consumes_trans; eassumption).
  split; [exact C|]. split; [exact K1|]. split; [exact K2|].
  rewrite (consumes_start _ _ _ _ C). rewrite (consumes_span _ _ _ _ C). reflexivity.
Qed.

Lemma objfield_sound : forall pv V, Sound pv V -> Sound (parse_objfield_with pv) (DObjFieldOf V).
Proof.
  intros pv V S st f st' H. unfold parse_objfield_with in H. step H. step H. step H. inversion H; subst.
  apply parse_name_tok in E. destruct E as (n & C1 & K1 & ->).
  apply expect_ok in E0. destruct E0 as [C2 K2].
  apply S in E1. destruct E1 as (p & C3 & D).
  assert (C : consumes st (n :: x0 :: p) st').
  { change (n :: x0 :: p) with ([n] ++ [x0] ++ p). eapply consumes_trans; [eassumption|]. eapply consumes_trans; eassumption. }
  exists (n :: x0 :: p). split; [exact C|].
  rewrite (consumes_start _ _ _ _ C). rewrite (consumes_span _ _ _ _ C). constructor; assumption.
Qed.

Lemma bytes_eqb_false : forall a b, bytes_eqb a b = false -> a <> b.
Proof. intros a b H E. apply bytes_eqb_eq in E. congruence. Qed.

Lemma delim_span : forall A (I : list token -> A -> Prop) o c ne st p l st' t r,
  snd st = t :: r -> consumes st p st' -> DDelim I o c ne p l -> mkl (tstart t) st' = span p.
Proof.
  intros A I o c ne st p l st' t r Hs C D. destruct D as [o0 ps c0 l0 _ _ _ _].
  pose proof (consumes_head _ _ _ _ C) as [r' Hr]. rewrite Hs in Hr. inversion Hr; subst.
  apply (consumes_span _ _ _ _ C).
Qed.

Lemma parse_value_sound : forall fuel c, Sound (parse_value fuel c) (DValue c).
Proof.
  induction fuel as [|f IH]; intros c st v st' H; [discriminate|].
  cbn [parse_value] in H. destruct (snd st) as [|t r] eqn:Hs; [discriminate|].
  assert (C1 : consumes st [t] (tend t, r)) by (apply consumes_one; exact Hs).
  destruct (tk t) eqn:K; try discriminate.
  - (* DOLLAR *) destruct c; [discriminate|]. apply parse_variable_ok in H.
    destruct H as (d & n & C & K1 & K2 & ->). exists [d; n]. split; [exact C|]. constructor; auto.
  - (* [ *) step H. inversion H; subst.
    apply (reverse_sound _ _ (IH c)) in E. destruct E as (p & C & D).
    exists p. split; [exact C|]. rewrite (delim_span _ _ _ _ _ _ _ _ _ _ _ Hs C D). constructor. exact D.
  - (* { *) step H. inversion H; subst.
    apply (reverse_sound _ _ (objfield_sound _ _ (IH c))) in E. destruct E as (p & C & D).
    exists p. split; [exact C|]. rewrite (delim_span _ _ _ _ _ _ _ _ _ _ _ Hs C D). constructor. exact D.
  - (* NAME *)
    destruct (bytes_eqb (tval t) (kw "true")) eqn:B1.
    { inversion H; subst. exists [t]. split; [exact C1|]. apply bytes_eqb_eq in B1. constructor; assumption. }
    destruct (bytes_eqb (tval t) (kw "false")) eqn:B2.
    { inversion H; subst. exists [t]. split; [exact C1|]. apply bytes_eqb_eq in B2. apply DV_false; assumption. }
    destruct (bytes_eqb (tval t) (kw "null")) eqn:B3; [discriminate|].
    inversion H; subst. exists [t]. split; [exact C1|]. apply DV_enum; auto using bytes_eqb_false.
  - inversion H; subst. exists [t]. split; [exact C1|]. constructor; assumption.
  - inversion H; subst. exists [t]. split; [exact C1|]. constructor; assumption.
  - inversion H; subst. exists [t]. split; [exact C1|]. constructor; auto.
  - inversion H; subst. exists [t]. split; [exact C1|]. constructor; auto.
Qed.

(* ---- types ---- *)
Lemma parse_type_sound : forall fuel, Sound (parse_type fuel) DType.
Proof.
  induction fuel as [|f IH]; intros st ty st' H; [discriminate|].
  cbn [parse_type] in H. destruct (snd st) as [|t r] eqn:Hs; [discriminate|].
  assert (Inner : exists ty0 st1 p, consumes st p st1 /\ DType p ty0 /\ is_nonnull ty0 = false /\
            (' (b, st2) <- skip BANG st1 ;; if b then Ok (TNonNull ty0 (mkl (tstart t) st2), st2) else Ok (ty0, st2)) = Ok (ty, st')).
  { destruct (tk t) eqn:K; try discriminate.
    - (* [ *) step H. step1 E. step E. step E. inversion E; subst. clear E.
      apply advance_ok in E0. destruct E0 as (o & C0).
      pose proof (consumes_head _ _ _ _ C0) as [r' Hr]. rewrite Hs in Hr. inversion Hr; subst o r'.
      apply IH in E1. destruct E1 as (p & C1 & D1). apply expect_ok in E2. destruct E2 as [C2 K2].
      assert (C : consumes st (t :: p ++ [x2]) s).
      { change (t :: p ++ [x2]) with ([t] ++ p ++ [x2]). eapply consumes_trans; [eassumption|]. eapply consumes_trans; eassumption. }
      exists (TList x1 (mkl (tstart t) s)), s, (t :: p ++ [x2]). split; [exact C|]. split; [|split; [reflexivity|exact H]].
      rewrite (consumes_span _ _ _ _ C). constructor; assumption.
    - (* NAME *) step H. step E. inversion E; subst. clear E.
      apply parse_named_tok in E0. destruct E0 as (n & C & K1 & ->).
      exists (TNamed (tok_named n)), s, [n]. split; [exact C|]. split; [constructor; exact K1|]. split; [reflexivity|exact H]. }
  destruct Inner as (ty0 & st1 & p & C & D & NN & H').
  step H'. apply skip_ok in E. destruct E as [[-> (b & C2 & K2)] | [-> [-> _]]].
  - inversion H'; subst. assert (C' : consumes st (p ++ [b]) st') by (eapply consumes_trans; eassumption).
    exists (p ++ [b]). split; [exact C'|].
    destruct p as [|t0 p0].
    { inversion D. - destruct p; discriminate. }
    pose proof (consumes_head _ _ _ _ C) as [r' Hr]. rewrite Hs in Hr. inversion Hr; subst t0 r'.
    change ((t :: p0) ++ [b]) with (t :: (p0 ++ [b])) in C'. rewrite (consumes_span _ _ _ _ C').
    change (t :: p0 ++ [b]) with ((t :: p0) ++ [b]). constructor; assumption.
  - inversion H'; subst. exists p. split; assumption.
Qed.

(* ---- generic: Loc of a node that consumed p ---- *)
Lemma consumes_mkl : forall st p st', consumes st p st' -> p <> [] -> mkl (cur_start st) st' = span p.
Proof.
  intros st p st' C N. destruct p as [|t p]; [contradiction|].
  rewrite (consumes_start _ _ _ _ C). apply (consumes_span _ _ _ _ C).
Qed.

Ltac nonnil :=
  let X := fresh "X" in
  intro X; simpl in X; try discriminate X;
  repeat (apply app_eq_nil in X; let Y := fresh "Y" in destruct X as [Y X]; simpl in Y, X; try discriminate Y; try discriminate X).

Ltac chain :=
  repeat first [ eassumption | apply consumes_refl | (eapply consumes_trans; [eassumption|]) ].

Lemma opt_delim_sound : forall A (item : pst -> res (A * pst)) I open close fuel, Sound item I ->
  Sound (fun st => if peek open st then reverse fuel open item close true st else Ok ([], st)) (DOptDelim I open close).
Proof.
  intros A item I open close fuel S st l st' H. cbv beta in H. destruct (peek open st).
  - apply (reverse_sound _ _ S) in H. destruct H as (p & C & D). exists p. split; [exact C | constructor; exact D].
  - inversion H; subst. exists []. split; [apply consumes_refl | constructor].
Qed.

Lemma parse_argument_sound : forall fuel, Sound (parse_argument fuel) DArgument.
Proof.
  intros fuel st a st' H. unfold parse_argument in H. step H. step H. step H. inversion H; subst.
  apply parse_name_tok in E. destruct E as (n & C1 & K1 & ->).
  apply expect_ok in E0. destruct E0 as [C2 K2].
  apply parse_value_sound in E1. destruct E1 as (p & C3 & D).
  assert (C : consumes st ([n] ++ [x0] ++ p) st') by chain.
  exists (n :: x0 :: p). split; [exact C|].
  rewrite (consumes_mkl _ _ _ C) by nonnil. constructor; assumption.
Qed.

Lemma parse_arguments_sound : forall fuel, Sound (parse_arguments fuel) DArguments.
Proof. intros fuel. apply (opt_delim_sound _ _ _ _ _ _ (parse_argument_sound fuel)). Qed.

Lemma parse_directive_sound : forall fuel, Sound (parse_directive fuel) DDirec.
Proof.
  intros fuel st d st' H. unfold parse_directive in H. step H. step H. step H. inversion H; subst.
  apply expect_ok in E. destruct E as [C1 K1].
  apply parse_name_tok in E0. destruct E0 as (n & C2 & K2 & ->).
  apply parse_arguments_sound in E1. destruct E1 as (p & C3 & D).
  assert (C : consumes st ([x] ++ [n] ++ p) st') by chain.
  exists (x :: n :: p). split; [exact C|].
  rewrite (consumes_mkl _ _ _ C) by nonnil. constructor; assumption.
Qed.

Lemma parse_directives_sound : forall fuel, Sound (parse_directives fuel) DDirecs.
Proof. intros fuel. apply while_peek_sound. apply parse_directive_sound. Qed.

(* ---- selections ---- *)
Lemma cur_is_kw_true : forall w st, cur_is_kw w st = true -> exists t r, snd st = t :: r /\ tk t = NAME /\ tval t = w.
Proof.
  intros w [pe ts]; unfold cur_is_kw; simpl. destruct ts as [|t r]; [discriminate|]. intro H.
  apply andb_true_iff in H. destruct H as [H1 H2]. apply tkind_beq_eq in H1. apply bytes_eqb_eq in H2. eauto.
Qed.
Lemma cur_is_kw_false : forall w st t r, cur_is_kw w st = false -> snd st = t :: r -> tk t = NAME -> tval t <> w.
Proof.
  intros w [pe ts] t r; unfold cur_is_kw; simpl. intros H -> K E. rewrite K in H. simpl in H.
  apply bytes_eqb_false in H. contradiction.
Qed.

Lemma parse_fragment_name_sound : Sound parse_fragment_name DFragName.
Proof.
  intros st n st' H. unfold parse_fragment_name in H. destruct (cur_is_kw (kw "on") st) eqn:K; [discriminate|].
  apply parse_name_tok in H. destruct H as (t & C & K1 & ->). exists [t]. split; [exact C|].
  destruct (consumes_head _ _ _ _ C) as [r Hr]. constructor; [exact K1|]. eapply cur_is_kw_false; eassumption.
Qed.

Lemma parse_field_sound : forall psel fuel, Sound psel DSelSet ->
  Sound (parse_field_with psel fuel) (DSelectionOf DSelSet).
Proof.
  intros psel fuel S st f st' H. unfold parse_field_with in H. step H. step H.
  apply parse_name_tok in E. destruct E as (n0 & C1 & K1 & ->).
  assert (A : exists pn al nm st3, consumes st pn st3 /\ DAlias pn (al, nm) /\ pn <> [] /\
     (' (args, st4) <- parse_arguments fuel st3 ;; ' (dirs, st5) <- parse_directives fuel st4 ;;
      if peek BRACE_L st5 then ' (ss, st6) <- psel st5 ;; Ok (SField al nm args dirs (Some ss) (mkl (cur_start st) st6), st6)
      else Ok (SField al nm args dirs None (mkl (cur_start st) st5), st5)) = Ok (f, st')).
  { apply skip_ok in E0. destruct E0 as [[-> (c & C2 & K2)] | [-> [-> _]]].
    - step H. step E. inversion E; subst. clear E.
      apply parse_name_tok in E0. destruct E0 as (n1 & C3 & K3 & ->).
      exists [n0; c; n1], (Some (tok_name n0)), (tok_name n1), s1.
      split; [change [n0; c; n1] with ([n0] ++ [c] ++ [n1]); chain|]. split; [constructor; assumption|]. split; [discriminate|exact H].
    - cbv beta iota in H.
      exists [n0], None, (tok_name n0). eexists. split; [exact C1|]. split; [constructor; assumption|]. split; [discriminate|exact H]. }
  clear H. destruct A as (pn & al & nm & st3 & Cn & Dn & Nn & H).
  step H. step H.
  apply parse_arguments_sound in E. destruct E as (pa & Ca & Da).
  apply parse_directives_sound in E1. destruct E1 as (pd & Cd & Dd).
  destruct (peek BRACE_L s2).
  - step H. inversion H; subst. apply S in E. destruct E as (ps & Cs & Ds).
    assert (C : consumes st (pn ++ pa ++ pd ++ ps) st') by chain.
    exists (pn ++ pa ++ pd ++ ps). split; [exact C|].
    rewrite (consumes_mkl _ _ _ C) by (destruct pn; [contradiction|discriminate]).
    constructor; try assumption. constructor; assumption.
  - inversion H; subst.
    assert (C : consumes st (pn ++ pa ++ pd ++ []) st') by chain.
    exists (pn ++ pa ++ pd ++ []). split; [exact C|].
    rewrite (consumes_mkl _ _ _ C) by (destruct pn; [contradiction|discriminate]).
    constructor; try assumption. constructor.
Qed.

Lemma parse_fragment_sound : forall psel fuel, Sound psel DSelSet ->
  Sound (parse_fragment_with psel fuel) (DSelectionOf DSelSet).
Proof.
  intros psel fuel S st f st' H. unfold parse_fragment_with in H. step H.
  apply expect_ok in E. destruct E as [C1 K1].
  destruct (peek NAME s && negb (cur_is_kw (kw "on") s)).
  - step H. step H. inversion H; subst.
    apply parse_fragment_name_sound in E. destruct E as (pn & C2 & D2).
    apply parse_directives_sound in E0. destruct E0 as (pd & C3 & D3).
    assert (C : consumes st ([x] ++ pn ++ pd) st') by chain.
    exists (x :: pn ++ pd). split; [exact C|].
    rewrite (consumes_mkl _ _ _ C) by nonnil. constructor; assumption.
  - step H. step H. step H. inversion H; subst.
    assert (T : exists pt, consumes s pt s0 /\ DOpt DTypeCond pt x0).
    { destruct (cur_is_kw (kw "on") s) eqn:K.
      - step1 E. step E. inversion E; subst. clear E.
        apply cur_is_kw_true in K. destruct K as (o & r & Hs & Ko & Vo).
        apply advance_ok in E2. destruct E2 as (o' & Co).
        destruct (consumes_head _ _ _ _ Co) as [r' Hr]. rewrite Hs in Hr. inversion Hr; subst o' r'.
        apply parse_named_tok in E3. destruct E3 as (t & Ct & Kt & ->).
        exists [o; t]. split; [change [o; t] with ([o] ++ [t]); chain|]. constructor. constructor; assumption.
      - inversion E; subst. exists []. split; [apply consumes_refl|constructor]. }
    destruct T as (pt & Ct & Dt).
    apply parse_directives_sound in E0. destruct E0 as (pd & Cd & Dd).
    apply S in E1. destruct E1 as (ps & Cs & Ds).
    assert (C : consumes st ([x] ++ pt ++ pd ++ ps) st') by chain.
    exists (x :: pt ++ pd ++ ps). split; [exact C|].
    rewrite (consumes_mkl _ _ _ C) by nonnil. constructor; assumption.
Qed.

Lemma parse_selection_sound : forall psel fuel, Sound psel DSelSet ->
  Sound (parse_selection_with psel fuel) (DSelectionOf DSelSet).
Proof.
  intros psel fuel S st f st' H. unfold parse_selection_with in H. destruct (peek SPREAD st).
  - eapply parse_fragment_sound; eassumption.
  - eapply parse_field_sound; eassumption.
Qed.

Lemma delim_nonnil : forall A (I : list token -> A -> Prop) o c ne p l, DDelim I o c ne p l -> p <> [].
Proof. intros A I o c ne p l D. destruct D. discriminate. Qed.

Lemma parse_selset_sound : forall fuel, Sound (parse_selset fuel) DSelSet.
Proof.
  induction fuel as [|f IH]; intros st ss st' H; [discriminate|].
  cbn [parse_selset] in H. step H. inversion H; subst.
  apply (reverse_sound _ _ (parse_selection_sound _ f IH)) in E. destruct E as (p & C & D).
  exists p. split; [exact C|]. rewrite (consumes_mkl _ _ _ C) by (eapply delim_nonnil; eassumption).
  constructor. exact D.
Qed.

(* ---- operations, fragments ---- *)
Lemma parse_optype_ok : forall st op st', parse_optype st = Ok (op, st') ->
  exists k, consumes st [k] st' /\ tk k = NAME /\ optype_of (tval k) = Some op.
Proof.
  intros st op st' H. unfold parse_optype in H. step H. apply expect_ok in E. destruct E as [C K].
  exists x. split; [|split; [exact K|]].
  - destruct (bytes_eqb (tval x) (kw "query")); [inversion H; subst; exact C|].
    destruct (bytes_eqb (tval x) (kw "mutation")); [inversion H; subst; exact C|].
    destruct (bytes_eqb (tval x) (kw "subscription")); [inversion H; subst; exact C|discriminate].
  - unfold optype_of.
    destruct (bytes_eqb (tval x) (kw "query")); [inversion H; reflexivity|].
    destruct (bytes_eqb (tval x) (kw "mutation")); [inversion H; reflexivity|].
    destruct (bytes_eqb (tval x) (kw "subscription")); [inversion H; reflexivity|discriminate].
Qed.

Lemma default_sound : forall fuel st4 b st5 dv st6,
  skip EQUALS st4 = Ok (b, st5) ->
  (if b then ' (v, st6) <- parse_value fuel true st5 ;; Ok (Some v, st6) else Ok (None, st5)) = Ok (dv, st6) ->
  exists pv, consumes st4 pv st6 /\ DOpt DDefault pv dv.
Proof.
  intros fuel st4 b st5 dv st6 E H. apply skip_ok in E. destruct E as [[-> (e & C & K)] | [-> [-> _]]].
  - step H. inversion H; subst. apply parse_value_sound in E. destruct E as (pv & C2 & D).
    exists (e :: pv). split; [change (e :: pv) with ([e] ++ pv); chain|]. constructor. constructor; assumption.
  - inversion H; subst. exists []. split; [apply consumes_refl|constructor].
Qed.

Lemma parse_vardef_sound : forall fuel, Sound (parse_vardef fuel) DVarDef.
Proof.
  intros fuel st v st' H. unfold parse_vardef in H. step H. step H. step H. step H. step H.
  apply expect_ok in E. destruct E as [C1 K1].
  apply parse_name_tok in E0. destruct E0 as (n & C2 & K2 & ->).
  apply expect_ok in E1. destruct E1 as [C3 K3].
  apply parse_type_sound in E2. destruct E2 as (pt & C4 & D4).
  assert (Cv : consumes st [x; n] s0) by (change [x; n] with ([x] ++ [n]); chain).
  assert (Dflt : exists pv dv, consumes s2 pv st' /\ DOpt DDefault pv dv /\
            v = mkvardef (tok_name n) (mkl (cur_start st) s0) x2 dv (mkl (cur_start st) st')).
  { apply skip_ok in E3. destruct E3 as [[-> (e & C & K)] | [-> [-> _]]].
    - step H. inversion H; subst. apply parse_value_sound in E. destruct E as (pv & C5 & D).
      exists (e :: pv). eexists. split; [change (e :: pv) with ([e] ++ pv); chain|]. apply and_comm. split; [reflexivity|].
      constructor. constructor; assumption.
    - inversion H; subst. exists [], None. split; [apply consumes_refl|]. split; [constructor|reflexivity]. }
  destruct Dflt as (pv & dv & C5 & D5 & ->).
  assert (C : consumes st ([x] ++ [n] ++ [x1] ++ pt ++ pv) st') by chain.
  exists (x :: n :: x1 :: pt ++ pv). split; [exact C|].
  rewrite (consumes_mkl _ _ _ C) by nonnil. rewrite (consumes_mkl _ _ _ Cv) by nonnil.
  constructor; assumption.
Qed.

Lemma parse_vardefs_sound : forall fuel, Sound (parse_vardefs fuel) DVarDefs.
Proof. intros fuel. apply (opt_delim_sound _ _ _ _ _ _ (parse_vardef_sound fuel)). Qed.

Lemma selset_nonnil : forall p ss, DSelSet p ss -> p <> [].
Proof. intros p ss D. destruct D. eapply delim_nonnil; eassumption. Qed.

Lemma parse_operation_sound : forall fuel st d st', parse_operation fuel st = Ok (d, st') ->
  exists p o, consumes st p st' /\ DOperation p o /\ d = DOp o.
Proof.
  intros fuel st d st' H. unfold parse_operation in H. destruct (peek BRACE_L st).
  - step H. inversion H; subst. apply parse_selset_sound in E. destruct E as (p & C & D).
    exists p. eexists. split; [exact C|]. split; [|reflexivity].
    rewrite (consumes_mkl _ _ _ C) by (eapply selset_nonnil; eassumption). constructor. exact D.
  - step H. step H. step H. step H. step H. inversion H; subst.
    apply parse_optype_ok in E. destruct E as (k & C1 & K1 & O1).
    assert (N : exists pn, consumes s pn s0 /\ DOpt DName pn x0).
    { destruct (peek NAME s).
      - step E0. inversion E0; subst. apply parse_name_sound in E. destruct E as (pn & C & D).
        exists pn. split; [exact C|constructor; exact D].
      - inversion E0; subst. exists []. split; [apply consumes_refl|constructor]. }
    destruct N as (pn & C2 & D2).
    apply parse_vardefs_sound in E1. destruct E1 as (pv & C3 & D3).
    apply parse_directives_sound in E2. destruct E2 as (pd & C4 & D4).
    apply parse_selset_sound in E3. destruct E3 as (ps & C5 & D5).
    assert (C : consumes st ([k] ++ pn ++ pv ++ pd ++ ps) st') by chain.
    exists (k :: pn ++ pv ++ pd ++ ps). eexists. split; [exact C|]. split; [|reflexivity].
    rewrite (consumes_mkl _ _ _ C) by nonnil. econstructor; eassumption.
Qed.

Lemma parse_fragment_definition_sound : forall fuel st d st', parse_fragment_definition fuel st = Ok (d, st') ->
  exists p f, consumes st p st' /\ DFragment p f /\ d = DFrag f.
Proof.
  intros fuel st d st' H. unfold parse_fragment_definition in H. step H. step H. step H. step H. step H. step H.
  inversion H; subst.
  apply expect_kw_ok in E. destruct E as (C1 & K1 & V1).
  apply parse_fragment_name_sound in E0. destruct E0 as (pn & C2 & D2).
  apply expect_kw_ok in E1. destruct E1 as (C3 & K3 & V3).
  apply parse_named_tok in E2. destruct E2 as (t & C4 & K4 & ->).
  apply parse_directives_sound in E3. destruct E3 as (pd & C5 & D5).
  apply parse_selset_sound in E4. destruct E4 as (ps & C6 & D6).
  assert (C : consumes st ([x] ++ pn ++ [x1] ++ [t] ++ pd ++ ps) st') by chain.
  exists (x :: pn ++ x1 :: t :: pd ++ ps). eexists. split; [exact C|]. split; [|reflexivity].
  rewrite (consumes_mkl _ _ _ C) by nonnil. constructor; assumption.
Qed.

(* ---- type-system definitions ---- *)
Lemma parse_description_sound : Sound parse_description DDescr.
Proof.
  intros st d st' H. unfold parse_description in H. destruct (snd st) as [|t r] eqn:Hs.
  - inversion H; subst. exists []. split; [apply consumes_refl|constructor].
  - destruct (peek_description st) eqn:P.
    + inversion H; subst. exists [t]. split; [apply consumes_one; exact Hs|]. constructor.
      unfold peek_description, peek in P. rewrite Hs in P. apply orb_true_iff in P.
      destruct P as [P|P]; apply tkind_beq_eq in P; auto.
    + inversion H; subst. exists []. split; [apply consumes_refl|constructor].
Qed.

Lemma parse_ivdef_sound : forall fuel, Sound (parse_ivdef fuel) DIVDef.
Proof.
  intros fuel st v st' H. unfold parse_ivdef in H. step H. step H. step H. step H. step H. step H. step H.
  inversion H; subst.
  apply parse_description_sound in E. destruct E as (pdsc & C1 & D1).
  apply parse_name_tok in E0. destruct E0 as (n & C2 & K2 & ->).
  apply expect_ok in E1. destruct E1 as [C3 K3].
  apply parse_type_sound in E2. destruct E2 as (pt & C4 & D4).
  destruct (default_sound _ _ _ _ _ _ E3 E4) as (pv & C5 & D5).
  apply parse_directives_sound in E5. destruct E5 as (pd & C6 & D6).
  assert (C : consumes st (pdsc ++ [n] ++ [x1] ++ pt ++ pv ++ pd) st') by chain.
  exists (pdsc ++ n :: x1 :: pt ++ pv ++ pd). split; [exact C|].
  rewrite (consumes_mkl _ _ _ C) by nonnil. constructor; assumption.
Qed.

Lemma parse_argdefs_sound : forall fuel, Sound (parse_argdefs fuel) DArgDefs.
Proof. intros fuel. apply (opt_delim_sound _ _ _ _ _ _ (parse_ivdef_sound fuel)). Qed.

Lemma parse_fielddef_sound : forall fuel, Sound (parse_fielddef fuel) DFieldDef.
Proof.
  intros fuel st v st' H. unfold parse_fielddef in H. step H. step H. step H. step H. step H. step H.
  inversion H; subst.
  apply parse_description_sound in E. destruct E as (pdsc & C1 & D1).
  apply parse_name_tok in E0. destruct E0 as (n & C2 & K2 & ->).
  apply parse_argdefs_sound in E1. destruct E1 as (pa & C3 & D3).
  apply expect_ok in E2. destruct E2 as [C4 K4].
  apply parse_type_sound in E3. destruct E3 as (pt & C5 & D5).
  apply parse_directives_sound in E4. destruct E4 as (pd & C6 & D6).
  assert (C : consumes st (pdsc ++ [n] ++ pa ++ [x2] ++ pt ++ pd) st') by chain.
  exists (pdsc ++ n :: pa ++ x2 :: pt ++ pd). split; [exact C|].
  rewrite (consumes_mkl _ _ _ C) by nonnil. constructor; assumption.
Qed.

Lemma parse_optypedef_sound : Sound parse_optypedef DOpTypeDef.
Proof.
  intros st v st' H. unfold parse_optypedef in H. step H. step H. step H. inversion H; subst.
  apply parse_optype_ok in E. destruct E as (k & C1 & K1 & O1).
  apply expect_ok in E0. destruct E0 as [C2 K2].
  apply parse_named_tok in E1. destruct E1 as (t & C3 & K3 & ->).
  assert (C : consumes st ([k] ++ [x0] ++ [t]) st') by chain.
  exists [k; x0; t]. split; [exact C|].
  rewrite (consumes_mkl _ _ _ C) by nonnil. constructor; assumption.
Qed.

Lemma parse_implements_sound : forall fuel, Sound (parse_implements fuel) DImplements.
Proof.
  intros fuel st l st' H. unfold parse_implements in H. destruct (cur_is_kw (kw "implements") st) eqn:K.
  - step1 H. step H.
    apply cur_is_kw_true in K. destruct K as (i & r & Hs & Ki & Vi).
    apply advance_ok in E. destruct E as (i' & Ci).
    destruct (consumes_head _ _ _ _ Ci) as [r' Hr]. rewrite Hs in Hr. inversion Hr; subst i' r'.
    apply (sep_by_sound _ _ parse_named_sound) in H. destruct H as (p & Cp & Dp).
    apply skip_ok in E0. destruct E0 as [[-> (a & Ca & Ka)] | [-> [-> _]]].
    + exists (i :: [a] ++ p). split; [change (i :: [a] ++ p) with ([i] ++ [a] ++ p); chain|].
      constructor; auto. right. eauto.
    + exists (i :: [] ++ p). split; [change (i :: [] ++ p) with ([i] ++ p); chain|].
      constructor; auto.
  - inversion H; subst. exists []. split; [apply consumes_refl|constructor].
Qed.

Lemma parse_objdef_sound : forall fuel, Sound (parse_objdef fuel) DObjDef.
Proof.
  intros fuel st v st' H. unfold parse_objdef in H. step H. step H. step H. step H. step H. step H.
  inversion H; subst.
  apply parse_description_sound in E. destruct E as (pdsc & C1 & D1).
  apply expect_kw_ok in E0. destruct E0 as (C2 & K2 & V2).
  apply parse_name_tok in E1. destruct E1 as (n & C3 & K3 & ->).
  apply parse_implements_sound in E2. destruct E2 as (pi & C4 & D4).
  apply parse_directives_sound in E3. destruct E3 as (pd & C5 & D5).
  apply (reverse_sound _ _ (parse_fielddef_sound fuel)) in E4. destruct E4 as (pf & C6 & D6).
  assert (C : consumes st (pdsc ++ [x0] ++ [n] ++ pi ++ pd ++ pf) st') by chain.
  exists (pdsc ++ x0 :: n :: pi ++ pd ++ pf). split; [exact C|].
  rewrite (consumes_mkl _ _ _ C) by nonnil. constructor; assumption.
Qed.

Lemma parse_enumvaldef_sound : forall fuel, Sound (parse_enumvaldef fuel) DEnumValDef.
Proof.
  intros fuel st v st' H. unfold parse_enumvaldef in H. step H. step H. step H. inversion H; subst.
  apply parse_description_sound in E. destruct E as (pdsc & C1 & D1).
  apply parse_name_tok in E0. destruct E0 as (n & C2 & K2 & ->).
  apply parse_directives_sound in E1. destruct E1 as (pd & C3 & D3).
  assert (C : consumes st (pdsc ++ [n] ++ pd) st') by chain.
  exists (pdsc ++ n :: pd). split; [exact C|].
  rewrite (consumes_mkl _ _ _ C) by nonnil. constructor; assumption.
Qed.

Lemma parse_schema_definition_sound : forall fuel, Sound (parse_schema_definition fuel) DTypeSystem.
Proof.
  intros fuel st v st' H. unfold parse_schema_definition in H. step H. step H. step H. inversion H; subst.
  apply expect_kw_ok in E. destruct E as (C1 & K1 & V1).
  apply parse_directives_sound in E0. destruct E0 as (pd & C2 & D2).
  apply (reverse_sound _ _ parse_optypedef_sound) in E1. destruct E1 as (po & C3 & D3).
  assert (C : consumes st ([x] ++ pd ++ po) st') by chain.
  exists (x :: pd ++ po). split; [exact C|].
  rewrite (consumes_mkl _ _ _ C) by nonnil. constructor; assumption.
Qed.

Lemma parse_scalar_definition_sound : forall fuel, Sound (parse_scalar_definition fuel) DTypeSystem.
Proof.
  intros fuel st v st' H. unfold parse_scalar_definition in H. step H. step H. step H. step H. inversion H; subst.
  apply parse_description_sound in E. destruct E as (pdsc & C1 & D1).
  apply expect_kw_ok in E0. destruct E0 as (C2 & K2 & V2).
  apply parse_name_tok in E1. destruct E1 as (n & C3 & K3 & ->).
  apply parse_directives_sound in E2. destruct E2 as (pd & C4 & D4).
  assert (C : consumes st (pdsc ++ [x0] ++ [n] ++ pd) st') by chain.
  exists (pdsc ++ x0 :: n :: pd). split; [exact C|].
  rewrite (consumes_mkl _ _ _ C) by nonnil. constructor; assumption.
Qed.

Lemma parse_interface_definition_sound : forall fuel, Sound (parse_interface_definition fuel) DTypeSystem.
Proof.
  intros fuel st v st' H. unfold parse_interface_definition in H. step H. step H. step H. step H. step H. inversion H; subst.
  apply parse_description_sound in E. destruct E as (pdsc & C1 & D1).
  apply expect_kw_ok in E0. destruct E0 as (C2 & K2 & V2).
  apply parse_name_tok in E1. destruct E1 as (n & C3 & K3 & ->).
  apply parse_directives_sound in E2. destruct E2 as (pd & C4 & D4).
  apply (reverse_sound _ _ (parse_fielddef_sound fuel)) in E3. destruct E3 as (pf & C5 & D5).
  assert (C : consumes st (pdsc ++ [x0] ++ [n] ++ pd ++ pf) st') by chain.
  exists (pdsc ++ x0 :: n :: pd ++ pf). split; [exact C|].
  rewrite (consumes_mkl _ _ _ C) by nonnil. apply DTS_interface; assumption.
Qed.

Lemma parse_union_definition_sound : forall fuel, Sound (parse_union_definition fuel) DTypeSystem.
Proof.
  intros fuel st v st' H. unfold parse_union_definition in H. step H. step H. step H. step H. step H. step H. inversion H; subst.
  apply parse_description_sound in E. destruct E as (pdsc & C1 & D1).
  apply expect_kw_ok in E0. destruct E0 as (C2 & K2 & V2).
  apply parse_name_tok in E1. destruct E1 as (n & C3 & K3 & ->).
  apply parse_directives_sound in E2. destruct E2 as (pd & C4 & D4).
  apply expect_ok in E3. destruct E3 as [C5 K5].
  apply (sep_by_sound _ _ parse_named_sound) in E4. destruct E4 as (pm & C6 & D6).
  assert (C : consumes st (pdsc ++ [x0] ++ [n] ++ pd ++ [x3] ++ pm) st') by chain.
  exists (pdsc ++ x0 :: n :: pd ++ x3 :: pm). split; [exact C|].
  rewrite (consumes_mkl _ _ _ C) by nonnil. apply DTS_union; assumption.
Qed.

Lemma parse_enum_definition_sound : forall fuel, Sound (parse_enum_definition fuel) DTypeSystem.
Proof.
  intros fuel st v st' H. unfold parse_enum_definition in H. step H. step H. step H. step H. step H. inversion H; subst.
  apply parse_description_sound in E. destruct E as (pdsc & C1 & D1).
  apply expect_kw_ok in E0. destruct E0 as (C2 & K2 & V2).
  apply parse_name_tok in E1. destruct E1 as (n & C3 & K3 & ->).
  apply parse_directives_sound in E2. destruct E2 as (pd & C4 & D4).
  apply (reverse_sound _ _ (parse_enumvaldef_sound fuel)) in E3. destruct E3 as (pf & C5 & D5).
  assert (C : consumes st (pdsc ++ [x0] ++ [n] ++ pd ++ pf) st') by chain.
  exists (pdsc ++ x0 :: n :: pd ++ pf). split; [exact C|].
  rewrite (consumes_mkl _ _ _ C) by nonnil. apply DTS_enum; assumption.
Qed.

Lemma parse_input_definition_sound : forall fuel, Sound (parse_input_definition fuel) DTypeSystem.
Proof.
  intros fuel st v st' H. unfold parse_input_definition in H. step H. step H. step H. step H. step H. inversion H; subst.
  apply parse_description_sound in E. destruct E as (pdsc & C1 & D1).
  apply expect_kw_ok in E0. destruct E0 as (C2 & K2 & V2).
  apply parse_name_tok in E1. destruct E1 as (n & C3 & K3 & ->).
  apply parse_directives_sound in E2. destruct E2 as (pd & C4 & D4).
  apply (reverse_sound _ _ (parse_ivdef_sound fuel)) in E3. destruct E3 as (pf & C5 & D5).
  assert (C : consumes st (pdsc ++ [x0] ++ [n] ++ pd ++ pf) st') by chain.
  exists (pdsc ++ x0 :: n :: pd ++ pf). split; [exact C|].
  rewrite (consumes_mkl _ _ _ C) by nonnil. apply DTS_input; assumption.
Qed.

Lemma parse_extend_definition_sound : forall fuel, Sound (parse_extend_definition fuel) DTypeSystem.
Proof.
  intros fuel st v st' H. unfold parse_extend_definition in H. step H. step H. inversion H; subst.
  apply expect_kw_ok in E. destruct E as (C1 & K1 & V1).
  apply parse_objdef_sound in E0. destruct E0 as (p & C2 & D2).
  assert (C : consumes st ([x] ++ p) st') by chain.
  exists (x :: p). split; [exact C|].
  rewrite (consumes_mkl _ _ _ C) by nonnil. apply DTS_extend; assumption.
Qed.

Lemma parse_directive_definition_sound : forall fuel, Sound (parse_directive_definition fuel) DTypeSystem.
Proof.
  intros fuel st v st' H. unfold parse_directive_definition in H.
  step H. step H. step H. step H. step H. step H. step H. inversion H; subst.
  apply parse_description_sound in E. destruct E as (pdsc & C1 & D1).
  apply expect_kw_ok in E0. destruct E0 as (C2 & K2 & V2).
  apply expect_ok in E1. destruct E1 as [C3 K3].
  apply parse_name_tok in E2. destruct E2 as (n & C4 & K4 & ->).
  apply parse_argdefs_sound in E3. destruct E3 as (pa & C5 & D5).
  apply expect_kw_ok in E4. destruct E4 as (C6 & K6 & V6).
  apply (sep_by_sound _ _ parse_name_sound) in E5. destruct E5 as (pl & C7 & D7).
  assert (C : consumes st (pdsc ++ [x0] ++ [x1] ++ [n] ++ pa ++ [x4] ++ pl) st') by chain.
  exists (pdsc ++ x0 :: x1 :: n :: pa ++ x4 :: pl). split; [exact C|].
  rewrite (consumes_mkl _ _ _ C) by nonnil. apply DTS_directive; assumption.
Qed.

Lemma parse_type_system_definition_sound : forall fuel, Sound (parse_type_system_definition fuel) DDefinition.
Proof.
  intros fuel st d st' H. unfold parse_type_system_definition in H.
  destruct (keyword_token st) as [k|]; [|discriminate].
  destruct (negb (tkind_beq (tk k) NAME)); [discriminate|].
  destruct (bytes_eqb (tval k) (kw "fragment")).
  { apply parse_fragment_definition_sound in H. destruct H as (p & f & C & D & ->). exists p. split; [exact C|]. apply DD_frag; exact D. }
  destruct (bytes_eqb (tval k) (kw "query") || bytes_eqb (tval k) (kw "mutation") || bytes_eqb (tval k) (kw "subscription")).
  { apply parse_operation_sound in H. destruct H as (p & o & C & D & ->). exists p. split; [exact C|]. apply DD_op; exact D. }
  destruct (bytes_eqb (tval k) (kw "schema")).
  { apply parse_schema_definition_sound in H. destruct H as (p & C & D). exists p. split; [exact C|]. apply DD_ts; exact D. }
  destruct (bytes_eqb (tval k) (kw "scalar")).
  { apply parse_scalar_definition_sound in H. destruct H as (p & C & D). exists p. split; [exact C|]. apply DD_ts; exact D. }
  destruct (bytes_eqb (tval k) (kw "type")).
  { step H. inversion H; subst. apply parse_objdef_sound in E. destruct E as (p & C & D). exists p. split; [exact C|]. apply DD_ts. apply DTS_object; exact D. }
  destruct (bytes_eqb (tval k) (kw "interface")).
  { apply parse_interface_definition_sound in H. destruct H as (p & C & D). exists p. split; [exact C|]. apply DD_ts; exact D. }
  destruct (bytes_eqb (tval k) (kw "union")).
  { apply parse_union_definition_sound in H. destruct H as (p & C & D). exists p. split; [exact C|]. apply DD_ts; exact D. }
  destruct (bytes_eqb (tval k) (kw "enum")).
  { apply parse_enum_definition_sound in H. destruct H as (p & C & D). exists p. split; [exact C|]. apply DD_ts; exact D. }
  destruct (bytes_eqb (tval k) (kw "input")).
  { apply parse_input_definition_sound in H. destruct H as (p & C & D). exists p. split; [exact C|]. apply DD_ts; exact D. }
  destruct (bytes_eqb (tval k) (kw "extend")).
  { apply parse_extend_definition_sound in H. destruct H as (p & C & D). exists p. split; [exact C|]. apply DD_ts; exact D. }
  destruct (bytes_eqb (tval k) (kw "directive")); [|discriminate].
  apply parse_directive_definition_sound in H. destruct H as (p & C & D). exists p. split; [exact C|]. apply DD_ts; exact D.
Qed.

Lemma parse_definition_sound : forall fuel, Sound (parse_definition fuel) DDefinition.
Proof.
  intros fuel st d st' H. unfold parse_definition in H. destruct (peek BRACE_L st).
  - apply parse_operation_sound in H. destruct H as (p & o & C & D & ->). exists p. split; [exact C|]. apply DD_op; exact D.
  - destruct (peek NAME st || peek STRING st || peek BLOCK_STRING st); [|discriminate].
    apply parse_type_system_definition_sound in H. exact H.
Qed.

(* ---- documents ---- *)
Theorem parse_document_sound : forall fuel ts d, parse_document fuel ts = Ok d -> Derives ts d.
Proof.
  intros fuel ts d H. unfold parse_document in H. step H.
  apply (many_sound _ _ (parse_definition_sound fuel)) in E. destruct E as (ps & c & C & K & D).
  destruct (is_nil x) eqn:N; [discriminate|].
  destruct (snd s) as [|t' r'] eqn:Hs; [|discriminate]. inversion H; subst.
  assert (Ets : ts = ps ++ [c]).
  { destruct C as [C1 _]. simpl in C1. rewrite Hs, app_nil_r in C1. exact C1. }
  subst ts.
  assert (Hl : mkl (cur_start (0, ps ++ [c])) s = span (ps ++ [c])).
  { apply consumes_mkl; [exact C|]. intro X. apply app_eq_nil in X. destruct X as [_ X]. discriminate X. }
  rewrite Hl. constructor; [exact D| |exact K].
  intros ->. discriminate N.
Qed.

Theorem parse_tokens_sound : forall ts d, parse_tokens ts = Ok d -> Derives ts d.
Proof. intros ts d H. unfold parse_tokens in H. eapply parse_document_sound; eassumption. Qed.
