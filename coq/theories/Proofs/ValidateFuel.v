(* Fuel sufficiency for the overlap algorithm on acyclic documents: with fuel_of D
   (Validate/OverlapWf.v) neither the memoised nor the unmemoised run sets the out-of-fuel
   flag.  Every recursive call decreases h(s1) + h(s2), where the height h of a selection
   set is (1 + highest rank of a fragment spread anywhere inside) * (1 + deepest field
   nesting of a fragment body) + its own field nesting: going into the sub-selection of a
   field lowers the nesting, going into a spread fragment lowers the rank. *)
From Coq Require Import List Arith Lia Bool String NArith.
From GQL Require Import Exec.Syntax Validate.Overlap Validate.OverlapSpec Validate.OverlapWf
     Proofs.ValidateRules Proofs.ValidateOverlap Proofs.ValidateMemo Proofs.ValidateCost Proofs.ValidateL1 Proofs.ValidateReflect Proofs.ValidateReflectClose.
Import ListNotations.
Open Scope string_scope.
Open Scope list_scope.

Definition keep (st : mst) (r : list N * mst) : Prop := m_oof (snd r) = m_oof st.

Lemma seq_keep : forall {A} (step : A -> mst -> list N * mst) l,
  (forall x st, In x l -> keep st (step x st)) -> forall st, keep st (seq step l st).
Proof.
  intros A step l. induction l as [|x r IH]; intros H st; [reflexivity|].
  unfold keep. rewrite seq_cons. simpl.
  rewrite (IH (fun y st' Hy => H y st' (or_intror Hy)) (snd (step x st))).
  apply (H x st (or_introl eq_refl)).
Qed.

Section Fuel.
Variable S : schema.
Variable D : document.
Variable memo : bool.
Variable h : fset -> nat.
Hypothesis P1 : forall s e, In e (fields S s) -> h (subset_of e) < h s.
Hypothesis P2 : forall s g b, In g (frs s) -> fbody S D g = Some b -> h b < h s.

Notation fbody := (fbody S D).

Lemma fuel_enough : forall f,
  (forall fl a b st, 3 + 3 * (h (subset_of a) + h (subset_of b)) <= f ->
     keep st (Overlap.fc S D memo f fl a b st)) /\
  (forall fl l1 l2 st, 1 <= f ->
     (forall a b, In a l1 -> In b l2 -> 3 + 3 * (h (subset_of a) + h (subset_of b)) <= f - 1) ->
     keep st (between S D memo f fl l1 l2 st)) /\
  (forall fl s1 s2 st, 2 + 3 * (h s1 + h s2) <= f -> keep st (Overlap.subsets S D memo f fl s1 s2 st)) /\
  (forall fl s g st, 1 <= f -> (forall b, fbody g = Some b -> 2 + 3 * (h s + h b) <= f) ->
     keep st (ffrag S D memo f fl s g st)) /\
  (forall fl g1 g2 st, 1 <= f ->
     (forall b1 b2, fbody g1 = Some b1 -> fbody g2 = Some b2 -> 2 + 3 * (h b1 + h b2) <= f) ->
     keep st (frfr S D memo f fl g1 g2 st)).
Proof.
  induction f as [|f IH]; [split; [|split; [|split; [|split]]]; intros; lia|].
  destruct IH as (Ifc & Ibt & Isub & Iff & Ifr).
  split; [|split; [|split; [|split]]].
  - (* fc *) intros fl a b st Hf. unfold keep. simpl.
    destruct (negb (base_ok S (fl || excl S a b) a b)); [reflexivity|].
    destruct (has_sub a && has_sub b); [|reflexivity].
    assert (Hf' : 2 + 3 * (h (subset_of a) + h (subset_of b)) <= f) by lia.
    pose proof (Isub (fl || excl S a b) (subset_of a) (subset_of b) (inc_fc st) Hf') as R. unfold keep, subset_of in R.
    destruct (Overlap.subsets S D memo f (fl || excl S a b) (sub_pt a, fe_sub a) (sub_pt b, fe_sub b) (inc_fc st)) as [cs st'].
    simpl in *. exact R.
  - (* between *) intros fl l1 l2 st _ Hp. simpl.
    apply seq_keep. intros k st1 _. apply seq_keep. intros a st2 Ha. apply seq_keep. intros b st3 Hb.
    apply Ifc. apply with_key_in in Ha. apply with_key_in in Hb.
    specialize (Hp a b (proj1 Ha) (proj1 Hb)). simpl in Hp. lia.
  - (* subsets *) intros fl s1 s2 st Hf. unfold keep. simpl.
    assert (K1 : keep st (between S D memo f fl (dfields S (fst s1) (snd s1)) (dfields S (fst s2) (snd s2)) st)).
    { apply Ibt; [lia|]. intros a b Ha Hb. pose proof (P1 s1 a Ha). pose proof (P1 s2 b Hb). lia. }
    destruct (between S D memo f fl (dfields S (fst s1) (snd s1)) (dfields S (fst s2) (snd s2)) st) as [c1 st1].
    assert (K2 : keep st1 (seq (fun g => ffrag S D memo f fl s1 g) (dspreads (snd s2)) st1)).
    { apply seq_keep. intros g st' Hg. apply Iff; [lia|]. intros b Eb.
      pose proof (P2 s2 g b (dspreads_raw_in _ _ Hg) Eb). lia. }
    destruct (seq (fun g => ffrag S D memo f fl s1 g) (dspreads (snd s2)) st1) as [c2 st2].
    assert (K3 : keep st2 (seq (fun g => ffrag S D memo f fl s2 g) (dspreads (snd s1)) st2)).
    { apply seq_keep. intros g st' Hg. apply Iff; [lia|]. intros b Eb.
      pose proof (P2 s1 g b (dspreads_raw_in _ _ Hg) Eb). lia. }
    destruct (seq (fun g => ffrag S D memo f fl s2 g) (dspreads (snd s1)) st2) as [c3 st3].
    assert (K4 : keep st3 (seq (fun a => seq (fun b => frfr S D memo f fl a b) (dspreads (snd s2))) (dspreads (snd s1)) st3)).
    { apply seq_keep. intros g1 st' Hg1. apply seq_keep. intros g2 st'' Hg2. apply Ifr; [lia|]. intros b1 b2 E1 E2.
      pose proof (P2 s1 g1 b1 (dspreads_raw_in _ _ Hg1) E1). pose proof (P2 s2 g2 b2 (dspreads_raw_in _ _ Hg2) E2). lia. }
    destruct (seq (fun a => seq (fun b => frfr S D memo f fl a b) (dspreads (snd s2))) (dspreads (snd s1)) st3) as [c4 st4].
    unfold keep in *. simpl in *. congruence.
  - (* ffrag *) intros fl s g st _ Hb. unfold keep. simpl.
    destruct (memo && ff_has st (fst s) (first_id (snd s)) g fl); [reflexivity|].
    set (st0 := if memo then ff_add st (fst s) (first_id (snd s)) g fl else st).
    assert (E0 : m_oof st0 = m_oof st) by (unfold st0; destruct memo; reflexivity).
    destruct (frag D g) as [fr|] eqn:Ef; [|exact E0].
    destruct (same_set s (resolve S (fr_cond fr), fr_sel fr)); [exact E0|].
    pose proof (Hb _ (fbody_frag S D g fr Ef)) as Hf.
    set (b := (resolve S (fr_cond fr), fr_sel fr)) in Hf.
    match goal with |- context [between S D memo f fl ?x ?y ?z] =>
      assert (K1 : keep st0 (between S D memo f fl x y z));
      [ apply Ibt; [lia|]; intros x0 y0 Hx Hy; pose proof (P1 s x0 Hx); pose proof (P1 b y0 Hy); lia
      | destruct (between S D memo f fl x y z) as [c1 st1] ] end.
    match goal with |- context [seq ?stp ?l st1] =>
      assert (K2 : keep st1 (seq stp l st1));
      [ apply seq_keep; intros g' st' Hg; apply Iff; [lia|]; intros b' Eb;
        pose proof (P2 b g' b' (dspreads_raw_in _ _ Hg) Eb); lia
      | destruct (seq stp l st1) as [c2 st2] ] end.
    unfold keep in *. simpl in *. congruence.
  - (* frfr *) intros fl g1 g2 st _ Hb. unfold keep. simpl.
    destruct (frag D g1) as [f1|] eqn:Ef1; [|reflexivity].
    destruct (frag D g2) as [f2|] eqn:Ef2; [|reflexivity].
    destruct (String.eqb g1 g2); [reflexivity|].
    destruct (memo && pair_has st g1 g2 fl); [reflexivity|].
    set (st0 := if memo then pair_add st g1 g2 fl else st).
    assert (E0 : m_oof st0 = m_oof st) by (unfold st0; destruct memo; reflexivity).
    pose proof (Hb _ _ (fbody_frag S D g1 f1 Ef1) (fbody_frag S D g2 f2 Ef2)) as Hf.
    set (b1 := (resolve S (fr_cond f1), fr_sel f1)) in Hf. set (b2 := (resolve S (fr_cond f2), fr_sel f2)) in Hf.
    match goal with |- context [between S D memo f fl ?x ?y ?z] =>
      assert (K1 : keep st0 (between S D memo f fl x y z));
      [ apply Ibt; [lia|]; intros x0 y0 Hx Hy; pose proof (P1 b1 x0 Hx); pose proof (P1 b2 y0 Hy); lia
      | destruct (between S D memo f fl x y z) as [c1 st1] ] end.
    match goal with |- context [seq ?stp ?l st1] =>
      assert (K2 : keep st1 (seq stp l st1));
      [ apply seq_keep; intros g' st' Hg; apply Ifr; [lia|]; intros c1' c2' E1 E2;
        rewrite (fbody_frag S D g1 f1 Ef1) in E1; inversion E1; subst c1';
        pose proof (P2 b2 g' c2' (dspreads_raw_in _ _ Hg) E2); fold b1; lia
      | destruct (seq stp l st1) as [c2 st2] ] end.
    match goal with |- context [seq ?stp ?l st2] =>
      assert (K3 : keep st2 (seq stp l st2));
      [ apply seq_keep; intros g' st' Hg; apply Ifr; [lia|]; intros c1' c2' E1 E2;
        rewrite (fbody_frag S D g2 f2 Ef2) in E2; inversion E2; subst c2';
        pose proof (P2 b1 g' c1' (dspreads_raw_in _ _ Hg) E1); fold b2; lia
      | destruct (seq stp l st2) as [c3 st3] ] end.
    unfold keep in *. simpl in *. congruence.
Qed.

Lemma pairs_within_keep : forall fuel s l st, incl l (fields S s) -> 3 + 6 * h s <= fuel ->
  keep st (pairs_within S D memo fuel l st).
Proof.
  intros fuel s l. induction l as [|a r IH]; intros st Hi Hf; [reflexivity|]. unfold keep. simpl.
  assert (K1 : keep st (seq (fun b => Overlap.fc S D memo fuel false a b) r st)).
  { apply seq_keep. intros b st' Hb. apply (proj1 (fuel_enough fuel)).
    pose proof (P1 s a (Hi a (or_introl eq_refl))). pose proof (P1 s b (Hi b (or_intror Hb))). lia. }
  destruct (seq (fun b => Overlap.fc S D memo fuel false a b) r st) as [c1 st1].
  specialize (IH st1 (fun x Hx => Hi x (or_intror Hx)) Hf).
  destruct (pairs_within S D memo fuel r st1) as [c2 st2]. unfold keep in *. simpl in *. congruence.
Qed.

Lemma frags_within_keep : forall fuel s gs st, incl gs (frs s) -> 3 + 6 * h s <= fuel ->
  keep st (frags_within S D memo fuel s gs st).
Proof.
  intros fuel s gs. induction gs as [|g r IH]; intros st Hi Hf; [reflexivity|]. unfold keep. simpl.
  destruct (fuel_enough fuel) as (_ & _ & _ & Iff & Ifr).
  assert (K1 : keep st (ffrag S D memo fuel false s g st)).
  { apply Iff; [lia|]. intros b Eb. pose proof (P2 s g b (Hi g (or_introl eq_refl)) Eb). lia. }
  destruct (ffrag S D memo fuel false s g st) as [c1 st1].
  assert (K2 : keep st1 (seq (fun h0 => frfr S D memo fuel false g h0) r st1)).
  { apply seq_keep. intros g' st' Hg. apply Ifr; [lia|]. intros b1 b2 E1 E2.
    pose proof (P2 s g b1 (Hi g (or_introl eq_refl)) E1). pose proof (P2 s g' b2 (Hi g' (or_intror Hg)) E2). lia. }
  destruct (seq (fun h0 => frfr S D memo fuel false g h0) r st1) as [c2 st2].
  specialize (IH st2 (fun x Hx => Hi x (or_intror Hx)) Hf).
  destruct (frags_within S D memo fuel s r st2) as [c3 st3]. unfold keep in *. simpl in *. congruence.
Qed.

Lemma within_set_keep : forall fuel s st, 3 + 6 * h s <= fuel -> keep st (within_set S D memo fuel s st).
Proof.
  intros fuel s st Hf. unfold keep, within_set.
  assert (K1 : keep st (seq (fun k => pairs_within S D memo fuel (with_key k (dfields S (fst s) (snd s))))
                            (keys_of (dfields S (fst s) (snd s))) st)).
  { apply seq_keep. intros k st' _. apply (pairs_within_keep fuel s); [|exact Hf].
    intros e He. apply with_key_in in He. exact (proj1 He). }
  destruct (seq (fun k => pairs_within S D memo fuel (with_key k (dfields S (fst s) (snd s))))
                (keys_of (dfields S (fst s) (snd s))) st) as [c1 st1].
  pose proof (frags_within_keep fuel s (dspreads (snd s)) st1 (fun g Hg => dspreads_raw_in _ _ Hg) Hf) as K2.
  destruct (frags_within S D memo fuel s (dspreads (snd s)) st1) as [c2 st2]. unfold keep in *. simpl in *. congruence.
Qed.

Lemma run_complete_h : forall fuel, (forall s, In s (all_sets S D) -> 3 + 6 * h s <= fuel) ->
  run_complete S D memo fuel = true.
Proof.
  intros fuel H. unfold run_complete.
  pose proof (seq_keep (within_set S D memo fuel) (all_sets S D) (fun s st Hs => within_set_keep fuel s st (H s Hs)) mst0) as K.
  unfold keep in K. rewrite K. reflexivity.
Qed.
End Fuel.

(* ---- list_max ---- *)
Lemma list_max_in_le : forall l x, In x l -> x <= list_max l.
Proof.
  intros l x H. pose proof (proj1 (list_max_le l (list_max l)) (le_n _)) as F.
  rewrite Forall_forall in F. apply F. exact H.
Qed.

Lemma list_max_incl : forall l l', incl l l' -> list_max l <= list_max l'.
Proof.
  intros l l' H. apply list_max_le. apply Forall_forall. intros x Hx. apply list_max_in_le. apply H. exact Hx.
Qed.

(* ---- field nesting depth ---- *)
Lemma depth_go : forall l,
  (fix go (l : list selection) : nat := match l with [] => O | x :: r => Nat.max (sel_depth x) (go r) end) l = sels_depth l.
Proof. induction l as [|x r IH]; simpl; [reflexivity | rewrite IH; reflexivity]. Qed.

Lemma sel_depth_field : forall id al nm args ds sub, sel_depth (SField id al nm args ds sub) = Datatypes.S (sels_depth sub).
Proof. intros. simpl. rewrite depth_go. reflexivity. Qed.
Lemma sel_depth_inline : forall id tc ds sub, sel_depth (SInline id tc ds sub) = sels_depth sub.
Proof. intros. simpl. rewrite depth_go. reflexivity. Qed.

Lemma sels_depth_in : forall ss x, In x ss -> sel_depth x <= sels_depth ss.
Proof.
  induction ss as [|y r IH]; intros x H; [destruct H|]. simpl. destruct H as [H|H]; [subst; lia|].
  specialize (IH x H). lia.
Qed.

Lemma depth_fields_sel : forall S x pt e, In e (dfields_sel S pt x) -> Datatypes.S (sels_depth (fe_sub e)) <= sel_depth x.
Proof.
  intros S. induction x as [id al nm args ds sub IH | id g ds | id tc ds sub IH] using selection_ind'; intros pt e He.
  - simpl in He. destruct He as [He|[]]. subst e. rewrite sel_depth_field. simpl. lia.
  - destruct He.
  - rewrite dfields_inline in He. rewrite sel_depth_inline. unfold dfields in He. apply in_flat_map in He.
    destruct He as [y [Hy He]]. rewrite Forall_forall in IH. specialize (IH y Hy _ e He).
    pose proof (sels_depth_in sub y Hy). lia.
Qed.

Lemma depth_fields : forall S pt ss e, In e (dfields S pt ss) -> Datatypes.S (sels_depth (fe_sub e)) <= sels_depth ss.
Proof.
  intros S pt ss e He. unfold dfields in He. apply in_flat_map in He. destruct He as [x [Hx He]].
  pose proof (depth_fields_sel S x pt e He). pose proof (sels_depth_in ss x Hx). lia.
Qed.

Lemma depth_sets_sel : forall S x pt s, In s (sets_sel S pt x) -> sels_depth (snd s) <= sel_depth x.
Proof.
  intros S.
  assert (G : forall sub pt', Forall (fun x => forall pt s, In s (sets_sel S pt x) -> sels_depth (snd s) <= sel_depth x) sub ->
              forall s, In s (sets_of S pt' sub) -> sels_depth (snd s) <= sels_depth sub).
  { intros sub pt' IH s Hin. destruct Hin as [Hin|Hin]; [subst s; simpl; lia|].
    apply in_flat_map in Hin. destruct Hin as [y [Hy Hin]]. rewrite Forall_forall in IH.
    specialize (IH y Hy pt' s Hin). pose proof (sels_depth_in sub y Hy). lia. }
  induction x as [id al nm args ds sub IH | id g ds | id tc ds sub IH] using selection_ind'; intros pt s Hin.
  - rewrite sets_sel_field in Hin. rewrite sel_depth_field. destruct sub as [|y r]; [destruct Hin|].
    specialize (G _ _ IH s Hin). lia.
  - destruct Hin.
  - rewrite sets_sel_inline in Hin. rewrite sel_depth_inline. apply (G _ _ IH s Hin).
Qed.

Lemma depth_sets_of : forall S pt ss s, In s (sets_of S pt ss) -> sels_depth (snd s) <= sels_depth ss.
Proof.
  intros S pt ss s Hin. destruct Hin as [Hin|Hin]; [subst s; simpl; lia|].
  apply in_flat_map in Hin. destruct Hin as [y [Hy Hin]].
  pose proof (depth_sets_sel S y pt s Hin). pose proof (sels_depth_in ss y Hy). lia.
Qed.

Lemma fold_max_in : forall {A} (f : A -> nat) l x, In x l -> f x <= fold_right (fun y a => Nat.max (f y) a) O l.
Proof.
  intros A f l x. induction l as [|y r IH]; intros H; [destruct H|]. simpl.
  destruct H as [H|H]; [subst; lia | specialize (IH H); lia].
Qed.

Lemma doc_depth_op : forall D o, In o (d_ops D) -> sels_depth (o_sel o) <= doc_depth D.
Proof. intros D o H. unfold doc_depth. pose proof (fold_max_in (fun o => sels_depth (o_sel o)) (d_ops D) o H). lia. Qed.
Lemma doc_depth_frag : forall D f, In f (d_frags D) -> sels_depth (fr_sel f) <= doc_depth D.
Proof. intros D f H. unfold doc_depth. pose proof (fold_max_in (fun f => sels_depth (fr_sel f)) (d_frags D) f H). lia. Qed.

Lemma all_sets_depth : forall S D s, In s (all_sets S D) -> sels_depth (snd s) <= doc_depth D.
Proof.
  intros S D s H. unfold all_sets in H. apply in_app_iff in H.
  destruct H as [H|H]; apply in_flat_map in H; destruct H as [o [Ho H]]; pose proof (depth_sets_of S _ _ s H).
  - pose proof (doc_depth_op D o Ho). lia.
  - pose proof (doc_depth_frag D o Ho). lia.
Qed.

(* ---- a rank can be chosen below the number of fragment definitions ---- *)
Lemma filter_len_le' : forall {A} (p q : A -> bool) l,
  (forall x, p x = true -> q x = true) -> List.length (filter p l) <= List.length (filter q l).
Proof.
  intros A p q l H. induction l as [|x r IH]; simpl; [lia|].
  destruct (p x) eqn:Ep; [rewrite (H x Ep); simpl; lia|]. destruct (q x); simpl; lia.
Qed.

Lemma filter_len_lt' : forall {A} (p q : A -> bool) l n,
  (forall x, p x = true -> q x = true) -> In n l -> q n = true -> p n = false ->
  List.length (filter p l) < List.length (filter q l).
Proof.
  intros A p q l n H. induction l as [|x r IH]; intros Hin Hq Hp; [destruct Hin|]. simpl.
  destruct Hin as [Hin|Hin].
  - subst x. rewrite Hp, Hq. simpl. pose proof (filter_len_le' p q r H). lia.
  - specialize (IH Hin Hq Hp). destruct (p x) eqn:Ep; [rewrite (H x Ep); simpl; lia|]. destruct (q x); simpl; lia.
Qed.

Lemma filter_len_all : forall {A} (p : A -> bool) l n, In n l -> p n = false -> List.length (filter p l) < List.length l.
Proof.
  intros A p l n Hin Hp.
  pose proof (filter_len_lt' p (fun _ => true) l n (fun _ _ => eq_refl) Hin eq_refl Hp) as H.
  assert (E : filter (fun _ : A => true) l = l) by (clear; induction l as [|x r IH]; simpl; [reflexivity | rewrite IH; reflexivity]).
  rewrite E in H. exact H.
Qed.

Lemma rank_compress : forall S D, acyclic S D ->
  exists rk, ranked S D rk /\ forall g, rk g <= List.length (d_frags D).
Proof.
  intros S D [rk Hrk].
  set (names := map fr_name (d_frags D)).
  set (cnt := fun g => List.length (filter (fun n => Nat.ltb (rk n) (rk g)) names)).
  set (rk' := fun g => match fbody S D g with None => O | Some _ => Datatypes.S (cnt g) end).
  assert (Hdef : forall g b, fbody S D g = Some b -> In g names).
  { intros g b E. apply frag_defined. unfold fbody in E. destruct (frag D g); [discriminate | discriminate]. }
  exists rk'. split.
  - intros g b E h Ho. unfold rk'. rewrite E.
    destruct (fbody S D h) as [bh|] eqn:Eh; [|lia].
    assert (L : rk h < rk g) by (apply (Hrk g b E h Ho)).
    assert (cnt h < cnt g); [|lia]. unfold cnt.
    apply (filter_len_lt' _ _ names h).
    + intros x Hx. apply Nat.ltb_lt in Hx. apply Nat.ltb_lt. lia.
    + apply (Hdef h bh Eh).
    + apply Nat.ltb_lt. exact L.
    + apply Nat.ltb_ge. lia.
  - intro g. unfold rk'. destruct (fbody S D g) as [b|] eqn:E; [|lia].
    assert (cnt g < List.length names).
    { unfold cnt. apply (filter_len_all _ names g (Hdef g b E)). apply Nat.ltb_ge. lia. }
    unfold names in H. rewrite map_length in H. lia.
Qed.

(* ---- the height function and the theorem ---- *)
Section Height.
Variable S : schema.
Variable D : document.
Variable rk : name -> nat.
Hypothesis Hrk : ranked S D rk.
Hypothesis Hbound : forall g, rk g <= List.length (d_frags D).

Definition Mx (ss : list selection) : nat := list_max (map (fun g => Datatypes.S (rk g)) (all_spreads ss)).
Definition hgt (s : fset) : nat := Mx (snd s) * Datatypes.S (doc_depth D) + sels_depth (snd s).

Lemma hgt_P1 : forall s e, In e (fields S s) -> hgt (subset_of e) < hgt s.
Proof.
  intros s e He. unfold hgt, subset_of. simpl. unfold fields in He.
  assert (M : Mx (fe_sub e) <= Mx (snd s)).
  { unfold Mx. apply list_max_incl. apply incl_map. intros g Hg. eapply dfields_occ; eauto. }
  pose proof (depth_fields S _ _ e He) as Dp.
  pose proof (Nat.mul_le_mono_r _ _ (Datatypes.S (doc_depth D)) M). lia.
Qed.

Lemma hgt_P2 : forall s g b, In g (frs s) -> fbody S D g = Some b -> hgt b < hgt s.
Proof.
  intros s g b Hg Eb. unfold hgt.
  assert (M1 : Mx (snd b) <= rk g).
  { unfold Mx. apply list_max_le. apply Forall_forall. intros k Hk. apply in_map_iff in Hk.
    destruct Hk as [h0 [E Hh]]. subst k. apply (Hrk g b Eb h0 Hh). }
  assert (M2 : Datatypes.S (rk g) <= Mx (snd s)).
  { unfold Mx. apply list_max_in_le. apply in_map_iff. exists g. split; [reflexivity|]. apply dspreads_occ. exact Hg. }
  assert (Dp : sels_depth (snd b) <= doc_depth D).
  { apply fbody_some in Eb. destruct Eb as [fr [Ef Eb]]. subst b. simpl. apply doc_depth_frag. apply (frag_mem D g). exact Ef. }
  pose proof (Nat.mul_le_mono_r _ _ (Datatypes.S (doc_depth D)) M1).
  pose proof (Nat.mul_le_mono_r _ _ (Datatypes.S (doc_depth D)) M2). lia.
Qed.

Lemma hgt_bound : forall s, In s (all_sets S D) -> hgt s <= height_bound D.
Proof.
  intros s Hs. unfold hgt, height_bound.
  assert (M : Mx (snd s) <= Datatypes.S (List.length (d_frags D))).
  { unfold Mx. apply list_max_le. apply Forall_forall. intros k Hk. apply in_map_iff in Hk.
    destruct Hk as [h0 [E Hh]]. subst k. pose proof (Hbound h0). lia. }
  pose proof (all_sets_depth S D s Hs).
  pose proof (Nat.mul_le_mono_r _ _ (Datatypes.S (doc_depth D)) M). lia.
Qed.
End Height.

Theorem fuel_sufficient : forall S D memo fuel,
  acyclic S D -> fuel_of D <= fuel -> run_complete S D memo fuel = true.
Proof.
  intros S D memo fuel A Hf. destruct (rank_compress S D A) as [rk [Hrk Hb]].
  apply (run_complete_h S D memo (hgt D rk) (hgt_P1 S D rk) (hgt_P2 S D rk Hrk)).
  intros s Hs. pose proof (hgt_bound S D rk Hb s Hs). unfold fuel_of in Hf. lia.
Qed.
