(* Proofs about the cancellation LTS of ExecutePlan (Conc/CancelLts.v). *)
From Coq Require Import List Arith Bool Lia.
From GQL Require Import Conc.CancelLts.
Import ListNotations.

Section Proofs.
Variable n : nat.
Variable cap : nat.

Notation step := (step n cap).
Notation step_fn := (step_fn n cap).
Notation run := (run n cap).
Notation reach := (reach n cap).
Notation measure := (measure n).

Ltac inv_step H :=
  unfold CancelLts.step, CancelLts.step_fn in H;
  repeat match type of H with
  | context [match ?x with _ => _ end] => destruct x eqn:?; try discriminate H
  end;
  try discriminate H;
  match type of H with Some _ = Some ?b => (injection H as H; subst b) end.

Ltac red_proj := cbn [cp bp ch done vgate gates log errs] in *.

Lemma run_app : forall s ls s1 ls' s2, run s ls s1 -> run s1 ls' s2 -> run s (ls ++ ls') s2.
Proof.
  intros s ls s1 ls' s2 R. induction R as [|s l s1 ls s2' Hs R IH]; intros R2; simpl; [exact R2|].
  eapply run_cons; [exact Hs|apply IH; exact R2].
Qed.

Lemma reach_ind : forall (P : st -> Prop),
  P init -> (forall s l s', P s -> step s l s' -> P s') -> forall s, reach s -> P s.
Proof.
  intros P H0 HS s (ls & R). remember init as s0 eqn:E. revert H0. clear E.
  induction R as [|s l s1 ls s2 Hs R IH]; intros H0; [exact H0|]. apply IH. eapply HS; eauto.
Qed.

Lemma reach_run : forall s ls s', reach s -> run s ls s' -> reach s'.
Proof. intros s ls s' (l0 & R) R2. exists (l0 ++ ls). eapply run_app; eauto. Qed.

Lemma exec_trace_run : forall ls s s', exec_trace n cap s ls = Some s' <-> run s ls s'.
Proof.
  induction ls as [|l ls IH]; intros s s'; simpl.
  - split; intros H; [inversion H; apply run_nil|inversion H; reflexivity].
  - split; intros H.
    + destruct (step_fn s l) as [s1|] eqn:E; [|discriminate]. eapply run_cons; [exact E|]. apply IH. exact H.
    + inversion H as [|? ? s1 ? ? Hs R]; subst. unfold CancelLts.step in Hs. rewrite Hs. apply IH. exact R.
Qed.

Lemma accepts_iff_run : forall ls, accepts n cap ls = true <-> exists s, run init ls s.
Proof.
  intros ls. unfold accepts. destruct (exec_trace n cap init ls) as [s|] eqn:E.
  - split; [intros _; exists s; apply exec_trace_run; exact E|reflexivity].
  - split; [discriminate|]. intros (s & R). apply exec_trace_run in R. congruence.
Qed.

(* ---------- measure ---------- *)
Lemma measure_decreases : forall s l s', step s l s' -> lib l = true -> measure s' < measure s.
Proof.
  intros s l s' H L. destruct l; try discriminate L; inv_step H; unfold CancelLts.measure; red_proj;
    repeat match goal with E : (_ <? _) = true |- _ => apply Nat.ltb_lt in E end;
    repeat match goal with E : cp _ = _ |- _ => rewrite E; clear E | E : bp _ = _ |- _ => rewrite E; clear E end; try lia.
Qed.

Lemma lib_run_bounded : forall s ls s', run s ls s' -> Forall (fun l => lib l = true) ls ->
  length ls + measure s' <= measure s.
Proof.
  intros s ls s' R. induction R as [|s l s1 ls s2 Hs R IH]; intros F; simpl; [lia|].
  inversion F as [|? ? Hl F']; subst.
  pose proof (measure_decreases s l s1 Hs Hl). specialize (IH F'). lia.
Qed.

Lemma terminates_generic : forall (P goal : st -> Prop) (good : label -> bool),
  (forall s l s', P s -> good l = true -> step s l s' -> P s') ->
  (forall s, P s -> goal s \/ exists l s', good l = true /\ step s l s') ->
  (forall s l s', good l = true -> step s l s' -> measure s' < measure s) ->
  forall s, P s -> exists ls s', run s ls s' /\ Forall (fun l => good l = true) ls /\ goal s'.
Proof.
  intros P goal good Hpres Hprog Hdec.
  assert (G : forall m s, measure s < m -> P s ->
              exists ls s', run s ls s' /\ Forall (fun l => good l = true) ls /\ goal s').
  { induction m as [|m IH]; intros s Hm HP; [lia|].
    destruct (Hprog s HP) as [Hg|(l & s1 & Hl & Hs)].
    - exists [], s. split; [apply run_nil|split; [constructor|exact Hg]].
    - assert (Hm1 : measure s1 < m) by (pose proof (Hdec s l s1 Hl Hs); lia).
      destruct (IH s1 Hm1 (Hpres s l s1 HP Hl Hs)) as (ls & s2 & R & F & Hg).
      exists (l :: ls), s2. split; [eapply run_cons; eauto|split; [constructor; assumption|exact Hg]]. }
  intros s HP. apply (G (S (measure s))); [lia|exact HP].
Qed.

(* ---------- the invariant ---------- *)

Definition good_resp' (g : list bool) (v : option bool) (r : resp) : Prop :=
  match r with
  | RespFull outs e => length outs = n /\ (exists rest, g = outs ++ rest) /\ v = Some true /\ e = errors_of outs
  | RespVarErr => v = Some false
  end.
Notation good_resp s := (good_resp' (gates s) (vgate s)).
Definition returned' (c : cpc) : bool := match c with CReturned _ => true | _ => false end.

Definition inv (s : st) : Prop :=
  length (gates s) <= n /\
  ((exists rest, gates s = log s ++ rest) /\ errs s = errors_of (log s)) /\
  match bp s with
  | BNone => ch s = [] /\ (cp s = CIdle \/ cp s = CInit) /\ log s = []
  | BVars => ch s = [] /\ log s = []
  | BRun k => ch s = [] /\ length (log s) = k /\ k <= n /\ vgate s = Some true
  | BFinish r => ch s = [] /\ good_resp s r /\ match r with RespFull outs _ => outs = log s | RespVarErr => True end
  | BExit => (returned' (cp s) = false -> exists r, ch s = [r]) /\ (returned' (cp s) = true -> length (ch s) <= 1)
  end /\
  Forall (good_resp s) (ch s) /\
  match cp s with
  | CReturned (RetResp r) => good_resp s r
  | CReturned RetCtx => done s = true
  | CIdle | CInit => bp s = BNone
  | CSelect => bp s <> BNone
  end.

Lemma good_resp_gates : forall g v g' v' r, v' = v \/ v = None ->
  (exists t, g' = g ++ t) -> good_resp' g v r -> good_resp' g' v' r.
Proof.
  intros g v g' v' [outs e|] Hv (t & Hg) H; cbn in *.
  - destruct H as (L & (rest & E) & V & Ee). split; [exact L|]. split; [exists (rest ++ t); rewrite Hg, E, app_assoc; reflexivity|].
    split; [destruct Hv as [Hv|Hv]; congruence|exact Ee].
  - destruct Hv as [Hv|Hv]; congruence.
Qed.

Lemma inv_init : inv init.
Proof. unfold inv; cbn. repeat split; try lia; auto. exists []. reflexivity. Qed.

Lemma errors_from_snoc : forall l k o, errors_from k (l ++ [o]) = errors_from k l ++ (if o then [] else [k + length l]).
Proof.
  induction l as [|a l IH]; intros k o; cbn.
  - destruct o; cbn; [reflexivity|rewrite Nat.add_0_r; reflexivity].
  - destruct a; rewrite IH; cbn; rewrite Nat.add_succ_r; reflexivity.
Qed.

Lemma inv_step : forall s l s', inv s -> step s l s' -> inv s'.
Proof.
  intros s l s' (Ig & ((rest & Il) & Ie) & Ib & Ic & Ip) H. unfold inv.
  destruct l; inv_step H; red_proj.
  - (* LCall *) rewrite Ip in *. destruct Ib as (I1 & I2 & I3).
    split; [exact Ig|]. split; [split; [exists rest; exact Il|exact Ie]|]. split; [repeat split; auto|]. split; [exact Ic|reflexivity].
  - (* LDone *) split; [exact Ig|]. split; [split; [exists rest; exact Il|exact Ie]|]. split; [exact Ib|]. split; [exact Ic|].
    destruct (cp s) as [| | |[r|]]; auto.
  - (* LOpenVars *)
    assert (G : forall r, good_resp' (gates s) None r -> good_resp' (gates s) (Some ok) r).
    { intros r. apply good_resp_gates; [right; reflexivity|exists []; rewrite app_nil_r; reflexivity]. }
    split; [exact Ig|]. split; [split; [exists rest; exact Il|exact Ie]|]. split.
    + destruct (bp s) as [| |k|r|]; auto.
      * destruct Ib as (I1 & I2 & I3 & I4). discriminate I4.
      * destruct Ib as (I1 & I2 & I3). split; [exact I1|]. split; [apply G; exact I2|exact I3].
    + split; [eapply Forall_impl; [|exact Ic]; exact G|].
      destruct (cp s) as [| | |[r|]]; auto.
  - (* LOpen *)
    apply Nat.ltb_lt in Heqb.
    assert (G : forall r, good_resp' (gates s) (vgate s) r -> good_resp' (gates s ++ [o]) (vgate s) r).
    { intros r. apply good_resp_gates; [left; reflexivity|exists [o]; reflexivity]. }
    split; [rewrite app_length; cbn; lia|]. split; [split; [exists (rest ++ [o]); rewrite Il at 1; rewrite app_assoc; reflexivity|exact Ie]|]. split.
    + destruct (bp s) as [| |k|r|]; auto.
      destruct Ib as (I1 & I2 & I3). repeat split; auto.
    + split; [eapply Forall_impl; [|exact Ic]; exact G|].
      destruct (cp s) as [| | |[r|]]; auto.
  - (* LSpawn *) destruct Ib as (I1 & I2 & I3).
    split; [exact Ig|]. split; [split; [exists rest; exact Il|exact Ie]|]. split; [split; assumption|]. split; [exact Ic|]. discriminate.
  - (* LRetCtx *)
    split; [exact Ig|]. split; [split; [exists rest; exact Il|exact Ie]|]. split.
    + destruct (bp s) as [| |k|r|]; auto; try contradiction.
      destruct Ib as (I1 & I2). cbn [returned']. split; [discriminate|].
      intros _. destruct (I1 eq_refl) as (r & E). rewrite E. cbn. lia.
    + split; [exact Ic|reflexivity].
  - (* LRetRes *) inversion Ic as [|? ? G1 G2]; subst.
    split; [exact Ig|]. split; [split; [exists rest; exact Il|exact Ie]|]. split.
    + destruct (bp s) as [| |k|r0|]; try (destruct Ib as (I1 & _); discriminate I1).
      destruct Ib as (I1 & I2). cbn [returned']. split; [discriminate|].
      intros _. destruct (I1 eq_refl) as (r1 & E). inversion E; subst. cbn. lia.
    + split; [exact G2|exact G1].
  - (* LVars ok *) destruct Ib as (I1 & I2).
    split; [exact Ig|]. split; [split; [exists rest; exact Il|exact Ie]|]. split; [repeat split; auto; [rewrite I2; reflexivity|lia]|].
    split; [exact Ic|]. destruct (cp s) as [| | |[r|]]; auto; try discriminate Ip; intros X; discriminate X.
  - (* LVars fails *) destruct Ib as (I1 & I2).
    split; [exact Ig|]. split; [split; [exists rest; exact Il|exact Ie]|]. split; [repeat split; auto|].
    split; [exact Ic|]. destruct (cp s) as [| | |[r|]]; auto; try discriminate Ip; intros X; discriminate X.
  - (* LResolve *) subst b. destruct Ib as (I1 & I2 & I3 & I4). apply Nat.ltb_lt in Heqb0.
    assert (Er : exists rest', rest = true :: rest').
    { rewrite Il in Heqo. rewrite nth_error_app2 in Heqo by lia. rewrite I2, Nat.sub_diag in Heqo.
      destruct rest as [|x r]; cbn in Heqo; [discriminate|]. inversion Heqo; subst. exists r. reflexivity. }
    destruct Er as (rest' & Er). subst rest.
    split; [exact Ig|]. split; [split; [exists rest'; rewrite Il, <- app_assoc; reflexivity|unfold errors_of; rewrite errors_from_snoc; unfold errors_of in Ie; rewrite Ie; try rewrite I2; cbn; try rewrite app_nil_r; reflexivity]|].
    split; [split; [exact I1|]; split; [rewrite app_length, I2; cbn; lia|]; split; [lia|exact I4]|].
    split; [exact Ic|]. destruct (cp s) as [| | |[r|]]; auto; try discriminate Ip; intros X; discriminate X.
  - (* LResolve *) subst b. destruct Ib as (I1 & I2 & I3 & I4). apply Nat.ltb_lt in Heqb0.
    assert (Er : exists rest', rest = false :: rest').
    { rewrite Il in Heqo. rewrite nth_error_app2 in Heqo by lia. rewrite I2, Nat.sub_diag in Heqo.
      destruct rest as [|x r]; cbn in Heqo; [discriminate|]. inversion Heqo; subst. exists r. reflexivity. }
    destruct Er as (rest' & Er). subst rest.
    split; [exact Ig|]. split; [split; [exists rest'; rewrite Il, <- app_assoc; reflexivity|unfold errors_of; rewrite errors_from_snoc; unfold errors_of in Ie; rewrite Ie; try rewrite I2; cbn; try rewrite app_nil_r; reflexivity]|].
    split; [split; [exact I1|]; split; [rewrite app_length, I2; cbn; lia|]; split; [lia|exact I4]|].
    split; [exact Ic|]. destruct (cp s) as [| | |[r|]]; auto; try discriminate Ip; intros X; discriminate X.
  - (* LAssemble *) destruct Ib as (I1 & I2 & I3 & I4). apply Nat.eqb_eq in Heqb0. subst k.
    split; [exact Ig|]. split; [split; [exists rest; exact Il|exact Ie]|].
    split; [repeat split; auto; exists rest; exact Il|].
    split; [exact Ic|]. destruct (cp s) as [| | |[r|]]; auto; try discriminate Ip; intros X; discriminate X.
  - (* LSend *) destruct Ib as (I1 & I2 & I3). rewrite I1 in *. cbn [app].
    split; [exact Ig|]. split; [split; [exists rest; exact Il|exact Ie]|].
    split; [split; [intros _; exists r; reflexivity|intros _; cbn; lia]|].
    split; [constructor; [exact I2|constructor]|].
    destruct (cp s) as [| | |[r0|]]; auto; try discriminate Ip; intros X; discriminate X.
Qed.

Lemma inv_reach : forall s, reach s -> inv s.
Proof. apply reach_ind; [apply inv_init|]. intros; eapply inv_step; eauto. Qed.

(* ---------- the theorems ---------- *)

Lemma prefix_full : forall (outs g rest : list bool), g = outs ++ rest -> length g <= length outs -> outs = g.
Proof.
  intros outs g rest E L. subst g. rewrite app_length in L. destruct rest; [rewrite app_nil_r; reflexivity|cbn in L; lia].
Qed.

(* every terminal state returns the complete response or {no data, ctx.Err()} *)
Theorem two_outcomes : forall s r, reach s -> cp s = CReturned r ->
  match r with
  | RetCtx => done s = true
  | RetResp (RespFull outs e) => length outs = n /\ outs = gates s /\ vgate s = Some true /\ e = errors_of outs
  | RetResp RespVarErr => vgate s = Some false
  end.
Proof.
  intros s r R E. destruct (inv_reach s R) as (Ig & _ & _ & _ & Ip). rewrite E in Ip.
  destruct r as [[outs e|]|]; cbn in Ip; auto.
  destruct Ip as (L & (rest & Eg) & V & Ee). split; [exact L|]. split; [eapply prefix_full; [exact Eg|lia]|split; [exact V|exact Ee]].
Qed.


(* once Done is signalled the caller returns by its own steps alone (no resolver / background step) *)
Theorem prompt_return : forall s, reach s -> done s = true -> returned s = false -> cp s <> CIdle ->
  exists ls s', run s ls s' /\ Forall (fun l => caller l = true) ls /\ length ls <= 2 /\ returned s' = true.
Proof.
  intros s R D NR NI. destruct (inv_reach s R) as (_ & _ & _ & _ & Ip). unfold returned in NR.
  destruct (cp s) as [| | |r] eqn:E; try discriminate NR; [contradiction| |].
  - (* CInit: spawn, then the ctx arm *)
    assert (S1 : step_fn s LSpawn = Some (mk CSelect BVars (ch s) (done s) (vgate s) (gates s) (log s) (errs s)))
      by (unfold CancelLts.step_fn; rewrite E, Ip; reflexivity).
    eexists [LSpawn; LRetCtx], _. split.
    + eapply run_cons; [exact S1|]. eapply run_cons; [|apply run_nil].
      unfold CancelLts.step, CancelLts.step_fn. cbn [cp done]. rewrite D. reflexivity.
    + split; [repeat constructor|]. split; [cbn; lia|reflexivity].
  - eexists [LRetCtx], _. split.
    + eapply run_cons; [|apply run_nil]. unfold CancelLts.step, CancelLts.step_fn. rewrite E, D. reflexivity.
    + split; [repeat constructor|]. split; [cbn; lia|reflexivity].
Qed.

(* buffer >= 1: the background goroutine's send never blocks *)
Theorem send_never_blocks : 1 <= cap -> forall s r, reach s -> bp s = BFinish r -> exists s', step s LSend s'.
Proof.
  intros C s r R E. destruct (inv_reach s R) as (_ & _ & Ib & _). rewrite E in Ib. destruct Ib as (I1 & _).
  unfold CancelLts.step, CancelLts.step_fn. rewrite E, I1. cbn [length].
  destruct (0 <? cap) eqn:L; [eexists; reflexivity|apply Nat.ltb_ge in L; lia].
Qed.

(* the call itself never blocks forever: with the context done, or with every gate opened (all resolvers
   return), library steps alone lead to the return and to the end of the background goroutine's work *)
Definition released (s : st) : Prop := vgate s <> None /\ (vgate s = Some true -> length (gates s) = n).

Theorem call_returns : 1 <= cap -> forall s, reach s -> cp s <> CIdle -> done s = true \/ released s ->
  exists ls s', run s ls s' /\ Forall (fun l => lib l = true) ls /\ returned s' = true.
Proof.
  intros C s R NI H.
  destruct (terminates_generic
              (fun s => inv s /\ cp s <> CIdle /\ (done s = true \/ released s))
              (fun s => returned s = true) lib) with (s := s) as (ls & s' & R' & F & G).
  - intros s1 l s2 (I & N1 & H1) Hl Hs. split; [eapply inv_step; eauto|].
    unfold released in *. destruct l; try discriminate Hl; inv_step Hs; red_proj; (split; [try discriminate; try assumption|]); auto.
  - intros s1 ((Ig & ((rest & Il) & Ie) & Ib & Ic & Ip) & N1 & H1). unfold returned.
    destruct (cp s1) as [| | |r] eqn:E; [contradiction| | |left; reflexivity]; right.
    + exists LSpawn. unfold CancelLts.step, CancelLts.step_fn. rewrite E, Ip. eexists. split; reflexivity.
    + destruct H1 as [D|(V & Gs)].
      * exists LRetCtx. unfold CancelLts.step, CancelLts.step_fn. rewrite E, D. eexists. split; reflexivity.
      * destruct (bp s1) as [| |k|r|] eqn:B.
        -- contradiction.
        -- exists LVars. unfold CancelLts.step, CancelLts.step_fn. rewrite B. destruct (vgate s1) as [[|]|]; [| |contradiction]; eexists; split; reflexivity.
        -- destruct Ib as (I1 & I2 & I3 & I4). destruct (Nat.eq_dec k n) as [Ek|Nk].
           ++ exists LAssemble. unfold CancelLts.step, CancelLts.step_fn. rewrite B, Ek, Nat.eqb_refl. eexists. split; reflexivity.
           ++ exists LResolve. unfold CancelLts.step, CancelLts.step_fn. rewrite B. assert (Lk : k < n) by lia. apply Nat.ltb_lt in Lk. rewrite Lk.
              destruct (nth_error (gates s1) k) as [o|] eqn:En; [eexists; split; reflexivity|].
              apply nth_error_None in En. rewrite (Gs I4) in En. apply Nat.ltb_lt in Lk. lia.
        -- exists LSend. unfold CancelLts.step, CancelLts.step_fn. rewrite B. destruct Ib as (I1 & _). rewrite I1. cbn [length].
           destruct (0 <? cap) eqn:L; [eexists; split; reflexivity|apply Nat.ltb_ge in L; lia].
        -- exists LRetRes. unfold CancelLts.step, CancelLts.step_fn. rewrite E. destruct Ib as (I1 & _). cbn [returned'] in I1.
           destruct (I1 eq_refl) as (r & Er). rewrite Er. eexists. split; reflexivity.
  - intros s1 l s2 Hl Hs. eapply measure_decreases; eauto.
  - split; [apply inv_reach; exact R|split; assumption].
  - exists ls, s'. tauto.
Qed.

(* an unbuffered result channel: after the caller returned on ctx.Done the background goroutine is
   blocked on its send for ever *)
Theorem unbuffered_leaks : cap = 0 ->
  exists s, reach s /\ cp s = CReturned RetCtx /\ bp s = BFinish RespVarErr /\
            forall l s', lib l = true -> ~ step s l s'.
Proof.
  intros C.
  destruct (exec_trace n cap init [LCall; LSpawn; LOpenVars false; LVars; LDone; LRetCtx]) as [s|] eqn:E; [|discriminate E].
  exists s. split; [exists [LCall; LSpawn; LOpenVars false; LVars; LDone; LRetCtx]; apply exec_trace_run; exact E|].
  cbn in E. inversion E; subst s; clear E. split; [reflexivity|]. split; [reflexivity|].
  intros l s' L H. unfold CancelLts.step in H. destruct l; try discriminate L; cbn in H; try discriminate H.
  rewrite C in H. discriminate H.
Qed.

(* ---------- observed traces ---------- *)
Notation orun := (orun n cap).
Notation obs_run := (obs_run n cap).

Lemma list_eqb_eq : forall A (eqb : A -> A -> bool), (forall a b, eqb a b = true -> a = b) ->
  forall x y, list_eqb eqb x y = true -> x = y.
Proof.
  intros A eqb E. induction x as [|a x IH]; destruct y as [|b y]; cbn; intros H; try discriminate H; [reflexivity|].
  apply andb_true_iff in H. destruct H as (H1 & H2). f_equal; [apply E; exact H1|apply IH; exact H2].
Qed.
Lemma list_eqb_refl : forall A (eqb : A -> A -> bool), (forall a, eqb a a = true) -> forall x, list_eqb eqb x x = true.
Proof. intros A eqb E. induction x as [|a x IH]; cbn; [reflexivity|]. rewrite E, IH. reflexivity. Qed.

Lemma resp_eqb_eq : forall a b, resp_eqb a b = true -> a = b.
Proof.
  intros [x e|] [y f|] H; cbn in H; try discriminate H; try reflexivity.
  apply andb_true_iff in H. destruct H as (H1 & H2).
  apply (list_eqb_eq _ _ eqb_prop) in H1. apply (list_eqb_eq _ Nat.eqb (fun a b => proj1 (Nat.eqb_eq a b))) in H2. subst. reflexivity.
Qed.
Lemma resp_eqb_refl : forall a, resp_eqb a a = true.
Proof. intros [x e|]; cbn; [|reflexivity]. rewrite (list_eqb_refl _ _ eqb_reflx), (list_eqb_refl _ _ Nat.eqb_refl). reflexivity. Qed.

Lemma ret_eqb_eq : forall a b, ret_eqb a b = true -> a = b.
Proof. intros [x|] [y|] H; cbn in H; try discriminate H; try reflexivity. f_equal. apply resp_eqb_eq. exact H. Qed.
Lemma ret_eqb_refl : forall a, ret_eqb a a = true.
Proof. intros [x|]; cbn; [apply resp_eqb_refl|reflexivity]. Qed.

Lemma dedup_incl : forall l x, In x (dedup l) -> In x l.
Proof.
  induction l as [|y l IH]; intros x H; cbn in H; [exact H|].
  destruct (existsb _ l); [right; apply IH; exact H|].
  destruct H as [H|H]; [left; exact H|right; apply IH; exact H].
Qed.

Lemma in_opt_list : forall A (o : option A) x, In x (opt_list o) -> o = Some x.
Proof. intros A [y|] x H; cbn in H; [destruct H as [H|[]]; congruence|contradiction]. Qed.

Lemma lib_labels_lib : forall l, In l lib_labels -> lib l = true.
Proof. intros l H. cbn in H. repeat (destruct H as [H|H]; [subst l; reflexivity|]). contradiction. Qed.

Lemma orun_lib_run : forall s ls s1, run s ls s1 -> Forall (fun l => lib l = true) ls ->
  forall os s2, orun s1 os s2 -> orun s os s2.
Proof.
  intros s ls s1 R. induction R as [|s l s1 ls s2' Hs R IH]; intros F os s2 O; [exact O|].
  inversion F as [|? ? Hl F']; subst. eapply or_lib; [exact Hl|exact Hs|]. apply IH; assumption.
Qed.

Lemma orun_is_run : forall s os s', orun s os s' -> exists ls, run s ls s'.
Proof.
  intros s os s' O. induction O as [s|s l s1 os s2 Hl Hs O (ls & R)|s l s1 o os s2 He Hs O (ls & R)|s o os s2 D O (ls & R)].
  - exists []. apply run_nil.
  - exists (l :: ls). eapply run_cons; eauto.
  - exists (l :: ls). eapply run_cons; eauto.
  - exists ls. exact R.
Qed.

Lemma lib_closure_sound : forall fuel ss s', In s' (lib_closure n cap fuel ss) ->
  exists s ls, In s ss /\ run s ls s' /\ Forall (fun l => lib l = true) ls.
Proof.
  induction fuel as [|f IH]; intros ss s' H; cbn in H.
  - exists s', []. split; [exact H|split; [apply run_nil|constructor]].
  - apply in_app_or in H. destruct H as [H|H].
    + exists s', []. split; [exact H|split; [apply run_nil|constructor]].
    + destruct (IH _ _ H) as (s1 & ls & I1 & R & F). apply dedup_incl in I1. unfold lib_round in I1.
      apply in_flat_map in I1. destruct I1 as (s & Is & I1). apply in_flat_map in I1. destruct I1 as (l & Il & I1).
      apply in_opt_list in I1. exists s, (l :: ls). split; [exact Is|]. split; [eapply run_cons; [exact I1|exact R]|].
      constructor; [apply lib_labels_lib; exact Il|exact F].
Qed.

Lemma obs_step_sound : forall s o s1, In s1 (obs_step n cap s o) ->
  forall os s2, orun s1 os s2 -> orun s (o :: os) s2.
Proof.
  intros s o s1 H os s2 O. destruct o; cbn [obs_step] in H.
  - apply in_opt_list in H. eapply or_env; [|exact H|exact O]. reflexivity.
  - apply in_opt_list in H. eapply or_env; [|exact H|exact O]. reflexivity.
  - apply in_opt_list in H. eapply or_env; [|exact H|exact O]. reflexivity.
  - apply in_opt_list in H. eapply or_env; [|exact H|exact O]. reflexivity.
  - destruct (cp s) as [| | |r'] eqn:E; try contradiction. destruct (ret_eqb r r') eqn:Er; [|contradiction].
    destruct H as [H|[]]. subst s1. apply ret_eqb_eq in Er. subst r'. apply or_state; [exact E|exact O].
  - destruct (returned s) eqn:E; [contradiction|]. destruct H as [H|[]]. subst s1. apply or_state; [exact E|exact O].
  - destruct (bg_gone s) eqn:E; [|contradiction]. destruct H as [H|[]]. subst s1. apply or_state; [exact E|exact O].
Qed.

Theorem obs_run_sound : forall os ss s', In s' (obs_run ss os) -> exists s, In s ss /\ orun s os s'.
Proof.
  induction os as [|o os IH]; intros ss s' H; cbn [CancelLts.obs_run] in H.
  - exists s'. split; [exact H|apply or_nil].
  - destruct (IH _ _ H) as (s1 & I1 & O). unfold obs_after in I1. apply dedup_incl in I1. apply in_flat_map in I1.
    destruct I1 as (sc & Ic & I1). apply dedup_incl in Ic. destruct (lib_closure_sound _ _ _ Ic) as (s & ls & Is & R & F).
    exists s. split; [exact Is|]. eapply orun_lib_run; [exact R|exact F|]. eapply obs_step_sound; eauto.
Qed.

Theorem accepts_obs_sound : forall os, accepts_obs n cap os = true -> exists s, orun init os s /\ reach s.
Proof.
  intros os H. unfold accepts_obs in H. destruct (obs_run [init] os) as [|s' r] eqn:E; [discriminate H|].
  destruct (obs_run_sound os [init] s') as (s & Is & O); [rewrite E; left; reflexivity|].
  destruct Is as [Is|[]]. subst s. exists s'. split; [exact O|]. apply orun_is_run in O. exact O.
Qed.


(* ---------- completeness of the acceptor ---------- *)
Lemma cpc_eqb_eq : forall a b, cpc_eqb a b = true -> a = b.
Proof. intros [| | |x] [| | |y] H; cbn in H; try discriminate H; try reflexivity. f_equal. apply ret_eqb_eq. exact H. Qed.
Lemma bpc_eqb_eq : forall a b, bpc_eqb a b = true -> a = b.
Proof.
  intros [| |x|x|] [| |y|y|] H; cbn in H; try discriminate H; try reflexivity.
  - apply Nat.eqb_eq in H. subst. reflexivity.
  - f_equal. apply resp_eqb_eq. exact H.
Qed.
Lemma ob_eqb_eq : forall a b, ob_eqb a b = true -> a = b.
Proof. intros [x|] [y|] H; cbn in H; try discriminate H; try reflexivity. apply eqb_prop in H. subst. reflexivity. Qed.

Lemma st_eqb_eq : forall a b, st_eqb a b = true -> a = b.
Proof.
  intros [a1 a2 a3 a4 a5 a6 a7 a8] [b1 b2 b3 b4 b5 b6 b7 b8] H. unfold st_eqb in H. cbn [cp bp ch done vgate gates log errs] in H.
  repeat (apply andb_true_iff in H; let H' := fresh "E" in destruct H as (H & H')).
  apply cpc_eqb_eq in H. apply bpc_eqb_eq in E5. apply (list_eqb_eq _ _ resp_eqb_eq) in E4. apply eqb_prop in E3.
  apply ob_eqb_eq in E2. apply (list_eqb_eq _ _ eqb_prop) in E1. apply (list_eqb_eq _ _ eqb_prop) in E0.
  apply (list_eqb_eq _ Nat.eqb (fun a b => proj1 (Nat.eqb_eq a b))) in E. subst. reflexivity.
Qed.

Lemma dedup_complete : forall l x, In x l -> In x (dedup l).
Proof.
  induction l as [|y l IH]; intros x H; [contradiction|]. cbn.
  destruct (existsb (st_eqb y) l) eqn:E.
  - destruct H as [H|H]; [|apply IH; exact H]. subst y. apply existsb_exists in E. destruct E as (z & Iz & Ez).
    apply st_eqb_eq in Ez. subst z. apply IH. exact Iz.
  - destruct H as [H|H]; [left; exact H|right; apply IH; exact H].
Qed.

Lemma in_opt_list_intro : forall A (o : option A) x, o = Some x -> In x (opt_list o).
Proof. intros A o x H. subst o. left. reflexivity. Qed.

Lemma lib_in_labels : forall l, lib l = true -> In l lib_labels.
Proof. intros l H. destruct l; try discriminate H; cbn; tauto. Qed.

Lemma lib_closure_complete : forall ls fuel ss s s', In s ss -> run s ls s' -> Forall (fun l => lib l = true) ls ->
  length ls <= fuel -> In s' (lib_closure n cap fuel ss).
Proof.
  induction ls as [|l ls IH]; intros fuel ss s s' Is R F L.
  - inversion R; subst. destruct fuel; cbn; [exact Is|apply in_or_app; left; exact Is].
  - inversion R as [|? ? s1 ? ? Hs R']; subst. inversion F as [|? ? Hl F']; subst.
    destruct fuel as [|f]; [cbn in L; lia|]. cbn [CancelLts.lib_closure]. apply in_or_app. right.
    apply (IH f _ s1 s'); [|exact R'|exact F'|cbn in L; lia].
    apply dedup_complete. unfold lib_round. apply in_flat_map. exists s. split; [exact Is|].
    apply in_flat_map. exists l. split; [apply lib_in_labels; exact Hl|apply in_opt_list_intro; exact Hs].
Qed.

Lemma measure_bound : forall s, measure s <= 2 * n + 9.
Proof. intros s. unfold CancelLts.measure. destruct (cp s), (bp s); lia. Qed.

Definition covers (ss : list st) (s : st) : Prop :=
  exists s0 ls, In s0 ss /\ run s0 ls s /\ Forall (fun l => lib l = true) ls.

Lemma covers_in_closure : forall ss s, covers ss s -> In s (dedup (lib_closure n cap (2 * n + 12) ss)).
Proof.
  intros ss s (s0 & ls & I0 & R & F). apply dedup_complete. apply (lib_closure_complete ls _ ss s0 s I0 R F).
  pose proof (lib_run_bounded s0 ls s R F). pose proof (measure_bound s0). lia.
Qed.

Lemma run_snoc : forall s ls s1 l s2, run s ls s1 -> step s1 l s2 -> run s (ls ++ [l]) s2.
Proof.
  intros s ls s1 l s2 R Hs. eapply run_app; [exact R|]. eapply run_cons; [exact Hs|apply run_nil].
Qed.

Lemma orun_covers : forall s os s2, orun s os s2 -> forall ss, covers ss s -> covers (obs_run ss os) s2.
Proof.
  intros s os s2 O. induction O as [s|s l s1 os s2 Hl Hs O IH|s l s1 o os s2 He Hs O IH|s o os s2 Ho O IH]; intros ss C.
  - exact C.
  - apply IH. destruct C as (s0 & ls & I0 & R & F). exists s0, (ls ++ [l]). split; [exact I0|].
    split; [eapply run_snoc; eauto|apply Forall_app; split; [exact F|constructor; [exact Hl|constructor]]].
  - cbn [CancelLts.obs_run]. apply IH. exists s1, []. split; [|split; [apply run_nil|constructor]].
    unfold obs_after. apply dedup_complete. apply in_flat_map. exists s. split; [apply covers_in_closure; exact C|].
    unfold CancelLts.step in Hs. destruct l; cbn in He; try discriminate He; inversion He; subst o; cbn [obs_step];
      apply in_opt_list_intro; exact Hs.
  - cbn [CancelLts.obs_run]. apply IH. exists s, []. split; [|split; [apply run_nil|constructor]].
    unfold obs_after. apply dedup_complete. apply in_flat_map. exists s. split; [apply covers_in_closure; exact C|].
    destruct o; cbn in Ho; try contradiction; cbn [obs_step].
    + rewrite Ho, ret_eqb_refl. left. reflexivity.
    + rewrite Ho. left. reflexivity.
    + rewrite Ho. left. reflexivity.
Qed.

Theorem accepts_obs_complete : forall os s, orun init os s -> accepts_obs n cap os = true.
Proof.
  intros os s O. unfold accepts_obs.
  destruct (orun_covers init os s O [init]) as (x & ls & Ix & _).
  - exists init, []. split; [left; reflexivity|split; [apply run_nil|constructor]].
  - destruct (obs_run [init] os); [contradiction|reflexivity].
Qed.

End Proofs.
