(* A document in which no fragment reaches itself through spreads has a rank (acyclic):
   the length of the longest spread chain from a fragment, computed with fuel; by the
   pigeonhole principle the computation is stable after |fragments| steps. *)
From Coq Require Import List Arith Lia Bool String NArith Relations.
From GQL Require Import Exec.Syntax Validate.Overlap Validate.OverlapSpec Validate.OverlapWf
     Proofs.ValidateRules Proofs.ValidateOverlap Proofs.ValidateMemo Proofs.ValidateCost Proofs.ValidateL1
     Proofs.ValidateFuel.
Import ListNotations.
Open Scope string_scope.
Open Scope list_scope.

Lemma list_max_attained : forall l k, list_max l = Datatypes.S k -> In (Datatypes.S k) l.
Proof.
  induction l as [|x r IH]; intros k H; [discriminate|]. simpl in H.
  destruct (Nat.max_spec x (list_max r)) as [[_ E]|[_ E]]; rewrite E in H.
  - right. apply IH. exact H.
  - left. exact H.
Qed.

Section Rank.
Variable S : schema.
Variable D : document.

(* g spreads h somewhere inside its body *)
Definition edgeD (g h : name) : Prop := exists b, fbody S D g = Some b /\ In h (all_spreads (snd b)).
Definition reachD : name -> name -> Prop := clos_trans name edgeD.
Definition no_cycle : Prop := forall g, ~ reachD g g.

Notation names := (map fr_name (d_frags D)).

Notation lp := (lp D).

Lemma lp_le : forall n g, lp n g <= n.
Proof.
  induction n as [|n IH]; intro g; simpl; [lia|]. destruct (frag D g) as [fr|]; [|lia].
  assert (list_max (map (lp n) (all_spreads (fr_sel fr))) <= n); [|lia].
  apply list_max_le. apply Forall_forall. intros k Hk. apply in_map_iff in Hk. destruct Hk as [h [E _]]. subst k. apply IH.
Qed.

Lemma lp_step : forall n g, lp (Datatypes.S n) g = lp n g \/ lp (Datatypes.S n) g = Datatypes.S n.
Proof.
  induction n as [|n IH]; intro g.
  - simpl. destruct (frag D g) as [fr|]; [right|left; reflexivity].
    assert (list_max (map (fun _ : name => 0) (all_spreads (fr_sel fr))) <= 0); [|lia].
    apply list_max_le. apply Forall_forall. intros k Hk. apply in_map_iff in Hk. destruct Hk as [h [E _]]. lia.
  - change (lp (Datatypes.S (Datatypes.S n)) g) with
      (match frag D g with None => O | Some fr => Datatypes.S (list_max (map (lp (Datatypes.S n)) (all_spreads (fr_sel fr)))) end).
    change (lp (Datatypes.S n) g) with
      (match frag D g with None => O | Some fr => Datatypes.S (list_max (map (lp n) (all_spreads (fr_sel fr)))) end).
    destruct (frag D g) as [fr|]; [|left; reflexivity].
    set (l := all_spreads (fr_sel fr)).
    assert (C : (forall x, In x l -> lp (Datatypes.S n) x = lp n x) \/ (exists x, In x l /\ lp (Datatypes.S n) x = Datatypes.S n)).
    { induction l as [|y r IHl]; [left; intros x []|].
      destruct (IH y) as [Ey|Ey]; [|right; exists y; split; [left; reflexivity | exact Ey]].
      destruct IHl as [Hall|[x [Hx Ex]]]; [|right; exists x; split; [right; exact Hx | exact Ex]].
      left. intros x [Hx|Hx]; [subst; exact Ey | apply Hall; exact Hx]. }
    destruct C as [Hall|[x [Hx Ex]]].
    + left. f_equal. f_equal. apply map_ext_in. exact Hall.
    + right. f_equal. apply Nat.le_antisymm.
      * apply list_max_le. apply Forall_forall. intros k Hk. apply in_map_iff in Hk. destruct Hk as [h [E _]]. subst k. apply lp_le.
      * apply Nat.le_trans with (lp (Datatypes.S n) x); [rewrite Ex; lia|]. apply list_max_in_le. apply in_map. exact Hx.
Qed.

(* spread chains through defined fragments *)
Inductive dpath : name -> list name -> Prop :=
| dp1 : forall g fr, frag D g = Some fr -> dpath g [g]
| dpS : forall g fr h l, frag D g = Some fr -> In h (all_spreads (fr_sel fr)) -> dpath h l -> dpath g (g :: l).

Lemma lp_path : forall n g, lp (Datatypes.S n) g = Datatypes.S n -> exists l, dpath g l /\ List.length l = Datatypes.S n.
Proof.
  induction n as [|n IH]; intros g H.
  - simpl in H. destruct (frag D g) as [fr|] eqn:Ef; [|discriminate]. exists [g]. split; [eapply dp1; eauto | reflexivity].
  - change (lp (Datatypes.S (Datatypes.S n)) g) with
      (match frag D g with None => O | Some fr => Datatypes.S (list_max (map (lp (Datatypes.S n)) (all_spreads (fr_sel fr)))) end) in H.
    destruct (frag D g) as [fr|] eqn:Ef; [|discriminate]. injection H as H.
    apply list_max_attained in H. apply in_map_iff in H. destruct H as [h [Eh Hh]].
    destruct (IH h Eh) as [l [Hp Hl]]. exists (g :: l). split; [eapply dpS; eauto | simpl; lia].
Qed.

Lemma frag_edge : forall g fr h, frag D g = Some fr -> In h (all_spreads (fr_sel fr)) -> edgeD g h.
Proof. intros g fr h Ef Hh. exists (resolve S (fr_cond fr), fr_sel fr). split; [apply fbody_frag; exact Ef | exact Hh]. Qed.

Lemma dpath_reach : forall g l, dpath g l -> forall x, In x l -> x = g \/ reachD g x.
Proof.
  intros g l H. induction H as [g fr Ef | g fr h l Ef Hh Hp IH]; intros x Hx.
  - destruct Hx as [Hx|[]]. left. symmetry. exact Hx.
  - destruct Hx as [Hx|Hx]; [left; symmetry; exact Hx|]. right.
    pose proof (frag_edge g fr h Ef Hh) as E.
    destruct (IH x Hx) as [Ex|R]; [subst x; apply t_step; exact E | eapply t_trans; [apply t_step; exact E | exact R]].
Qed.

Lemma dpath_defined : forall g l, dpath g l -> forall x, In x l -> In x names.
Proof.
  intros g l H. induction H as [g fr Ef | g fr h l Ef Hh Hp IH]; intros x Hx.
  - destruct Hx as [Hx|[]]. subst x. apply frag_defined. rewrite Ef. discriminate.
  - destruct Hx as [Hx|Hx]; [subst x; apply frag_defined; rewrite Ef; discriminate | apply IH; exact Hx].
Qed.

Hypothesis Hnc : no_cycle.

Lemma dpath_nodup : forall g l, dpath g l -> NoDup l.
Proof.
  intros g l H. induction H as [g fr Ef | g fr h l Ef Hh Hp IH].
  - constructor; [intros [] | constructor].
  - constructor; [|exact IH]. intro Hin. apply (Hnc g).
    pose proof (frag_edge g fr h Ef Hh) as E.
    destruct (dpath_reach h l Hp g Hin) as [Ex|R]; [subst h; apply t_step; exact E | eapply t_trans; [apply t_step; exact E | exact R]].
Qed.

Lemma lp_stable : forall g, lp (Datatypes.S (List.length names)) g = lp (List.length names) g.
Proof.
  intro g. destruct (lp_step (List.length names) g) as [E|E]; [exact E|]. exfalso.
  destruct (lp_path _ g E) as [l [Hp Hl]].
  pose proof (NoDup_incl_length (dpath_nodup g l Hp) (dpath_defined g l Hp)) as L. lia.
Qed.

Lemma lp_ranked : ranked S D (lp_rank D).
Proof.
  unfold lp_rank. rewrite <- (map_length fr_name). intros g b Eb h Hh.
  apply fbody_some in Eb. destruct Eb as [fr [Ef Eb]]. subst b. unfold bodyf in Hh. simpl in Hh. unfold Occ in Hh.
  rewrite (lp_stable h).
  change (lp (Datatypes.S (List.length names)) g) with
    (match frag D g with None => O | Some fr => Datatypes.S (list_max (map (lp (List.length names)) (all_spreads (fr_sel fr)))) end).
  rewrite Ef.
  assert (lp (List.length names) h <= list_max (map (lp (List.length names)) (all_spreads (fr_sel fr)))); [|lia].
  apply list_max_in_le. apply in_map. exact Hh.
Qed.

Theorem rank_exists : acyclic S D.
Proof. exists (lp_rank D). exact lp_ranked. Qed.
End Rank.

(* conversely a ranked document has no cycle *)
Lemma acyclic_no_cycle : forall S D, acyclic S D -> no_cycle S D.
Proof.
  intros S D [rk Hrk] g R.
  assert (G : forall a b, reachD S D a b -> rk b < rk a).
  { intros a b H. induction H as [a b [bd [E Hh]] | a c b H1 IH1 H2 IH2]; [apply (Hrk a bd E b Hh) | lia]. }
  specialize (G g g R). lia.
Qed.

(* the certified executable test *)
Lemma last_fragment_name' : forall g fs acc f,
  last_fragment g fs acc = Some f -> acc = Some f \/ (In f fs /\ fr_name f = g).
Proof.
  intros g fs. induction fs as [|x r IH]; intros acc f H; simpl in *; [left; exact H|].
  destruct (IH _ f H) as [E|[E1 E2]]; [|right; split; [right; exact E1 | exact E2]].
  destruct (String.eqb g (fr_name x)) eqn:Eg; [|left; exact E].
  inversion E; subst. right. split; [left; reflexivity | symmetry; apply String.eqb_eq; exact Eg].
Qed.

Theorem ranked_b_acyclic : forall S D, ranked_b D = true <-> acyclic S D.
Proof.
  intros S D. split.
  - intro H. exists (lp_rank D). intros g b Eb h Hh.
    apply fbody_some in Eb. destruct Eb as [fr [Ef Eb]]. subst b. unfold bodyf in Hh. simpl in Hh. unfold Occ in Hh.
    pose proof Ef as Ef'. unfold frag in Ef'. destruct (last_fragment_name' _ _ _ _ Ef') as [E|[Hin En]]; [discriminate|].
    unfold ranked_b in H. rewrite forallb_forall in H. specialize (H fr Hin). rewrite En, Ef in H.
    rewrite forallb_forall in H. specialize (H h Hh). apply Nat.ltb_lt in H. exact H.
  - intro A. pose proof (lp_ranked S D (acyclic_no_cycle S D A)) as R.
    unfold ranked_b. apply forallb_forall. intros f Hf.
    destruct (frag D (fr_name f)) as [fr|] eqn:Ef; [|reflexivity].
    apply forallb_forall. intros h Hh. apply Nat.ltb_lt.
    apply (R (fr_name f) (resolve S (fr_cond fr), fr_sel fr) (fbody_frag S D _ fr Ef) h Hh).
Qed.
