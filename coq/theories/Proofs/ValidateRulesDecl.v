(* Relational specifications for the parts of the simple rules whose declarative predicate
   in Proofs/ValidateRules.v still mentions an executable helper of the model:
   - RecursiveVariableUsages (NoUndefinedVariables, NoUnusedVariables, VariablesInAllowedPosition):
     a usage belongs to an operation iff it occurs in the operation or in a fragment
     reachable from it through spreads (inductive Reach) -- instead of the closure iteration;
   - isTypeSubTypeOf (VariablesInAllowedPosition): the inductive relation Subtype;
   - doTypesOverlap (PossibleFragmentSpreads): two types overlap iff they are equal or have a
     common possible object type. *)
From Coq Require Import List Arith Lia Bool String NArith.
From GQL Require Import Exec.Syntax Validate.VSyntax Validate.Overlap Validate.Rules
     Proofs.ValidateRules Proofs.ValidateMemo Proofs.ValidateCycles Proofs.ValidateUnused Proofs.ValidateClosure
     Proofs.ValidateReflectClose.
Import ListNotations.
Open Scope string_scope.
Open Scope list_scope.

(* ================= RecursiveVariableUsages ================= *)
Lemma closure_stable_always : forall W ss, closure_stable W ss = true.
Proof.
  intros W ss. unfold closure_stable, closure_of. rewrite <- (map_length wf_name (w_frags W)).
  apply (closure_reaches_fixpoint (wfrag_spreads W) (map wf_name (w_frags W))).
  intros g h Hh. unfold wfrag_spreads in Hh. destruct (fragw W g) as [f|] eqn:E; [|destruct Hh].
  apply fragw_some in E. destruct E as [Hf En]. subst g. apply in_map. exact Hf.
Qed.

Section Uses.
Variable S : schema.
Variable W : wdoc.

Lemma referenced_iff : forall ss g,
  In g (referenced W ss) <-> Reach W (spread_names ss) g /\ exists f, fragw W g = Some f.
Proof.
  intros ss g. split.
  - intro H. split; [apply referenced_sound; exact H|]. unfold referenced in H. apply filter_In in H.
    destruct H as [_ H]. destruct (fragw W g) as [f|]; [exists f; reflexivity | discriminate].
  - intros [R [f Ef]]. unfold referenced. apply filter_In. split; [|rewrite Ef; reflexivity].
    apply (closure_complete W ss g (closure_stable_always W ss) R).
Qed.

(* the variable usages RecursiveVariableUsages(op) ranges over *)
Definition UsedIn (o : wop) (u : N * (name * option tyref)) : Prop :=
  In u (uses_of (op_items S o)) \/
  exists g f, Reach W (spread_names (wo_sel o)) g /\ fragw W g = Some f /\ In u (uses_of (frag_items S f)).

Lemma rec_uses_iff : forall o u, In u (rec_uses S W o) <-> UsedIn o u.
Proof.
  intros o u. unfold rec_uses, UsedIn. rewrite in_app_iff, in_flat_map. split.
  - intros [H|[g [Hg H]]]; [left; exact H|]. right. apply referenced_iff in Hg. destruct Hg as [R [f Ef]].
    exists g, f. rewrite Ef in H. auto.
  - intros [H|[g [f [R [Ef H]]]]]; [left; exact H|]. right. exists g. split.
    + apply referenced_iff. split; [exact R | exists f; exact Ef].
    + rewrite Ef. exact H.
Qed.

Definition Violates_no_undefined_variables_decl : Prop :=
  exists o u, In o (w_ops W) /\ UsedIn o u /\ ~ In (fst (snd u)) (map wv_name (wo_vars o)).

Theorem no_undefined_variables_decl_iff :
  rule_no_undefined_variables S W <> [] <-> Violates_no_undefined_variables_decl.
Proof.
  rewrite no_undefined_variables_iff. unfold Violates_no_undefined_variables, Violates_no_undefined_variables_decl.
  split; intros [o [u [Ho [Hu H]]]]; exists o, u; (split; [exact Ho|]); (split; [|exact H]); apply rec_uses_iff; exact Hu.
Qed.

Definition Violates_no_unused_variables_decl : Prop :=
  exists o v, In o (w_ops W) /\ In v (wo_vars o) /\ forall u, UsedIn o u -> fst (snd u) <> wv_name v.

Theorem no_unused_variables_decl_iff :
  rule_no_unused_variables S W <> [] <-> Violates_no_unused_variables_decl.
Proof.
  rewrite no_unused_variables_iff. unfold Violates_no_unused_variables, Violates_no_unused_variables_decl.
  split; intros [o [v [Ho [Hv H]]]]; exists o, v; (split; [exact Ho|]); (split; [exact Hv|]).
  - intros u Hu E. apply H. apply in_map_iff. exists u. split; [exact E | apply rec_uses_iff; exact Hu].
  - intro Hin. apply in_map_iff in Hin. destruct Hin as [u [E Hu]]. apply (H u); [apply rec_uses_iff; exact Hu | exact E].
Qed.
End Uses.

(* ================= isTypeSubTypeOf ================= *)
Section Sub.
Variable S : schema.

Inductive Subtype : tyref -> tyref -> Prop :=
| ST_same : forall x, Subtype (TNamed x) (TNamed x)
| ST_possible : forall x y, is_abstract S y = true -> is_object S x = true -> possible_type S y x = true ->
    Subtype (TNamed x) (TNamed y)
| ST_nonnull : forall a b, Subtype a b -> Subtype (TNonNull a) (TNonNull b)
| ST_nonnull_l : forall a b, is_nonnull b = false -> Subtype a b -> Subtype (TNonNull a) b
| ST_list : forall a b, Subtype a b -> Subtype (TList a) (TList b).

Theorem subtype_iff : forall a b, subtype S a b = true <-> Subtype a b.
Proof.
  induction a as [x|a IH|a IH]; intro b.
  - destruct b as [y|b|b]; simpl.
    + rewrite orb_true_iff, !andb_true_iff, String.eqb_eq. split.
      * intros [E|[[H1 H2] H3]]; [subst; apply ST_same | apply ST_possible; assumption].
      * intro H. inversion H; subst; [left; reflexivity | right; auto].
    + split; [discriminate | intro H; inversion H].
    + split; [discriminate | intro H; inversion H].
  - destruct b as [y|b|b]; simpl.
    + split; [discriminate | intro H; inversion H].
    + rewrite IH. split; [apply ST_list | intro H; inversion H; assumption].
    + split; [discriminate | intro H; inversion H].
  - destruct b as [y|b|b]; simpl.
    + rewrite IH. split; [apply ST_nonnull_l; reflexivity | intro H; inversion H; assumption].
    + rewrite IH. split; [apply ST_nonnull_l; reflexivity | intro H; inversion H; assumption].
    + rewrite IH. split; [apply ST_nonnull|]. intro H. inversion H; subst; [assumption | discriminate].
Qed.
End Sub.

Section Allowed.
Variable S : schema.
Variable W : wdoc.

(* a variable used where a value of type ut is expected must have a declared type that --
   made non-null when the variable has a default value -- is a subtype of ut *)
Definition Violates_variables_in_allowed_position_decl : Prop :=
  exists o u vd ut vt, In o (w_ops W) /\ UsedIn S W o u /\
    find_vardef (fst (snd u)) (wo_vars o) = Some vd /\ snd (snd u) = Some ut /\
    type_from_ast S (erase_type (wv_type vd)) = Some vt /\
    ~ Subtype S (effective_type vt vd) ut.

Theorem variables_in_allowed_position_decl_iff :
  rule_variables_in_allowed_position S W <> [] <-> Violates_variables_in_allowed_position_decl.
Proof.
  rewrite variables_in_allowed_position_iff.
  unfold Violates_variables_in_allowed_position, Violates_variables_in_allowed_position_decl.
  split; intros [o [u [vd [ut [vt [Ho [Hu [Ev [Eu [Et Es]]]]]]]]]]; exists o, u, vd, ut, vt;
    (split; [exact Ho|]); (split; [apply rec_uses_iff; exact Hu|]); repeat (split; [assumption|]).
  - intro H. apply subtype_iff in H. rewrite H in Es. discriminate.
  - destruct (subtype S (effective_type vt vd) ut) eqn:E; [|reflexivity]. exfalso. apply Es. apply subtype_iff. exact E.
Qed.
End Allowed.

(* ================= doTypesOverlap ================= *)
Section Overlaps.
Variable S : schema.
Variable W : wdoc.

(* the object types a composite type can stand for at run time *)
Definition PossObj (t o : name) : Prop :=
  (is_object S t = true /\ o = t) \/ (is_abstract S t = true /\ possible_type S t o = true).
Definition Overlaps (t1 t2 : name) : Prop := t1 = t2 \/ exists o, PossObj t1 o /\ PossObj t2 o.

Lemma object_not_abstract : forall t, is_object S t = true -> is_abstract S t = false.
Proof. intros t H. unfold is_object, is_abstract in *. destruct (lookup_type S t) as [[| | | | |]|]; try discriminate; reflexivity. Qed.

Lemma possible_object : forall t o, is_abstract S t = true -> possible_type S t o = true -> is_object S o = true.
Proof.
  intros t o Ha H. unfold is_abstract, possible_type, is_object in *.
  destruct (lookup_type S t) as [[| | | | |]|]; try discriminate;
    destruct (lookup_type S o) as [[| | | | |]|]; try discriminate; reflexivity.
Qed.

Lemma object_names_in : forall o, is_object S o = true -> In o (object_names S).
Proof.
  intros o H. unfold is_object, lookup_type in H. destruct (alookup o (s_types S)) as [td|] eqn:E; [|discriminate].
  apply alookup_in in E. unfold object_names. apply in_flat_map. exists (o, td). split; [exact E|].
  destruct td; try discriminate. left. reflexivity.
Qed.

Theorem types_overlap_iff : forall t1 t2, types_overlap S t1 t2 = true <-> Overlaps t1 t2.
Proof.
  intros t1 t2. unfold types_overlap, Overlaps. destruct (String.eqb t1 t2) eqn:E.
  { apply String.eqb_eq in E. split; [left; exact E | reflexivity]. }
  apply String.eqb_neq in E.
  destruct (is_object S t1) eqn:O1.
  - pose proof (object_not_abstract t1 O1) as A1. destruct (is_object S t2) eqn:O2.
    + pose proof (object_not_abstract t2 O2) as A2. split; [discriminate|].
      intros [H|[o [[[_ H1]|[H1 _]] [[_ H2]|[H2 _]]]]]; try congruence.
    + destruct (is_abstract S t2) eqn:A2.
      * split.
        -- intro H. right. exists t1. split; [left; auto | right; auto].
        -- intros [H|[o [[[_ H1]|[H1 _]] [[H2 _]|[_ H2]]]]]; try congruence.
      * split; [discriminate|]. intros [H|[o [_ [[H2 _]|[H2 _]]]]]; congruence.
  - destruct (is_abstract S t1) eqn:A1.
    + destruct (is_object S t2) eqn:O2.
      * pose proof (object_not_abstract t2 O2) as A2. split.
        -- intro H. right. exists t2. split; [right; auto | left; auto].
        -- intros [H|[o [[[H1 _]|[_ H1]] [[_ H2]|[H2 _]]]]]; try congruence.
      * destruct (is_abstract S t2) eqn:A2.
        -- rewrite existsb_exists. split.
           ++ intros [o [_ H]]. apply andb_true_iff in H. destruct H as [H1 H2]. right. exists o. split; right; auto.
           ++ intros [H|[o [[[H1 _]|[_ H1]] [[H2 _]|[_ H2]]]]]; try congruence.
              exists o. split; [apply object_names_in; apply (possible_object t1 o A1 H1) | rewrite H1, H2; reflexivity].
        -- split; [discriminate|]. intros [H|[o [_ [[H2 _]|[H2 _]]]]]; congruence.
    + split; [discriminate|]. intros [H|[o [[[H1 _]|[H1 _]] _]]]; congruence.
Qed.

Definition bad_spread_decl (i : item) : Prop :=
  match i with
  | IInline (Some p) (Some t) _ _ => ~ Overlaps t p
  | ISpread (Some p) _ _ g =>
    exists f t, fragw W g = Some f /\ resolve S (wf_cond f) = Some t /\ ~ Overlaps t p
  | _ => False
  end.
Definition Violates_possible_fragment_spreads_decl : Prop := exists i, In i (doc_items S W) /\ bad_spread_decl i.

Lemma not_overlap_iff : forall t p, types_overlap S t p = false <-> ~ Overlaps t p.
Proof.
  intros t p. split.
  - intros H O. apply types_overlap_iff in O. rewrite O in H. discriminate.
  - intro H. destruct (types_overlap S t p) eqn:E; [|reflexivity]. exfalso. apply H. apply types_overlap_iff. exact E.
Qed.

Theorem possible_fragment_spreads_decl_iff :
  rule_possible_fragment_spreads S W <> [] <-> Violates_possible_fragment_spreads_decl.
Proof.
  rewrite possible_fragment_spreads_iff. unfold Violates_possible_fragment_spreads, Violates_possible_fragment_spreads_decl.
  split; intros [i [Hi H]]; exists i; (split; [exact Hi|]);
    destruct i as [|[p|] id nid g|[p|] [t|] id tc| | |]; simpl in *; try contradiction.
  - destruct H as [f [t [H1 [H2 H3]]]]. exists f, t. split; [exact H1|]. split; [exact H2|]. apply not_overlap_iff. exact H3.
  - apply not_overlap_iff. exact H.
  - destruct H as [f [t [H1 [H2 H3]]]]. exists f, t. split; [exact H1|]. split; [exact H2|]. apply not_overlap_iff. exact H3.
  - apply not_overlap_iff. exact H.
Qed.
End Overlaps.
