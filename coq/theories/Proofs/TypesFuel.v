(* C11 -- termination of the type map reducer: the fuel NewSchema / AppendType are run with
   (one more than the number of definitions) is always enough, and any larger fuel gives the
   same result.

   The reducer descends into a definition only after it has entered the definition's name into
   the type map, and only when that name was not there yet.  Names in the map are distinct and
   each belongs to a definition that find_def finds, so the map never holds more entries than
   there are definitions; every nested call of visit has one more entry than its caller. *)
From Coq Require Import List NArith Bool Lia.
From GQL Require Import Base.Bytes Types.Schema Proofs.TypesReduce Proofs.TypesNames.
Import ListNotations.
Open Scope N_scope.

(* ---------- the type map never outgrows the definitions ---------- *)
Definition tm_ok (defs : list (N * tdef)) (tm : tmap) : Prop :=
  NoDup (map fst tm) /\ forall n id, In (n, id) tm -> exists d, find_def defs id = Some d /\ def_name d = n.

Lemma tm_good_ok : forall defs tm, tm_good defs tm -> tm_ok defs tm.
Proof.
  intros defs tm [Hnd Hall]. split; [exact Hnd|].
  intros n id Hin. destruct (Hall n id Hin) as (d & Hd & Hn & _). exists d. split; assumption.
Qed.

Lemma tm_ok_nil : forall defs, tm_ok defs [].
Proof. intro defs. split; [constructor|intros n id []]. Qed.

Lemma tm_ok_insert : forall defs tm id d, tm_ok defs tm -> find_def defs id = Some d ->
  tm_find (def_name d) tm = None -> tm_ok defs ((def_name d, id) :: tm).
Proof.
  intros defs tm id d [Hnd Hall] Hd Hf. split.
  - simpl. constructor; [apply tm_find_none; exact Hf|exact Hnd].
  - intros n i [Heq|Hin].
    + inversion Heq; subst. exists d. split; [assumption|reflexivity].
    + exact (Hall n i Hin).
Qed.

Lemma find_def_in : forall defs id d, find_def defs id = Some d -> In id (map fst defs).
Proof.
  induction defs as [|[i e] r IH]; simpl; intros id d H; [discriminate|].
  destruct (i =? id) eqn:E.
  - left. apply N.eqb_eq. exact E.
  - right. exact (IH id d H).
Qed.

Lemma tm_ok_ids_nodup : forall defs tm, tm_ok defs tm -> NoDup (map snd tm).
Proof.
  induction tm as [|[n i] r IH]; intros [Hnd Hall]; simpl; [constructor|].
  simpl in Hnd. inversion Hnd as [|x l Hni Hnd']; subst.
  constructor.
  - intro Hin. apply in_map_iff in Hin. destruct Hin as [[m j] [Hj Hin]]. simpl in Hj. subst j.
    destruct (Hall n i (or_introl eq_refl)) as (d & Hd & Hn).
    destruct (Hall m i (or_intror Hin)) as (d' & Hd' & Hm).
    rewrite Hd in Hd'. inversion Hd'; subst d'. subst. apply Hni. apply (in_map fst) in Hin. exact Hin.
  - apply IH. split; [exact Hnd'|]. intros m j Hin. exact (Hall m j (or_intror Hin)).
Qed.

Lemma tm_ok_length : forall defs tm, tm_ok defs tm -> (length tm <= length defs)%nat.
Proof.
  intros defs tm H.
  rewrite <- (map_length snd tm), <- (map_length fst defs).
  apply NoDup_incl_length; [exact (tm_ok_ids_nodup defs tm H)|].
  intros i Hin. apply in_map_iff in Hin. destruct Hin as [[n j] [Hj Hin]]. simpl in Hj. subst j.
  destruct H as [_ Hall]. destruct (Hall n i Hin) as (d & Hd & _). exact (find_def_in defs i d Hd).
Qed.

(* ---------- the invariant the reducer keeps: a well-formed map that only grows ---------- *)
Definition grown (defs : list (N * tdef)) (k : nat) (tm : tmap) : Prop := tm_ok defs tm /\ (k <= length tm)%nat.

Lemma grown_insert defs k : forall tm id d,
  grown defs k tm -> find_def defs id = Some d -> static_ok defs d -> tm_find (def_name d) tm = None ->
  grown defs k ((def_name d, id) :: tm).
Proof.
  intros tm id d [Hok Hk] Hd _ Hf. split; [exact (tm_ok_insert defs tm id d Hok Hd Hf)|simpl; lia].
Qed.

Lemma visit_grown : forall defs fuel tm id tm', tm_ok defs tm -> visit defs fuel tm id = OK tm' ->
  tm_ok defs tm' /\ (length tm <= length tm')%nat.
Proof.
  intros defs fuel tm id tm' Hok H.
  exact (visit_inv defs (grown defs (length tm)) (grown_insert defs (length tm)) fuel tm id tm' (conj Hok (le_n _)) H).
Qed.

(* ---------- enough fuel ---------- *)
Section Fuel.
  Variable defs : list (N * tdef).

  Definition go (f : nat) (tm : tmap) (t : tref) : res tmap :=
    match target_of defs t with TgtSkip => OK tm | TgtBad => Err | TgtTo i => visit defs f tm i end.

  Lemma visit_unfold : forall f tm id,
    visit defs (S f) tm id =
    match find_def defs id with
    | None => Err
    | Some d =>
      if ctor_err d then Err else
      match tm_find (def_name d) tm with
      | Some id' => if id' =? id then OK tm else Err
      | None =>
        let tm1 := (def_name d, id) :: tm in
        match d with
        | DScalar _ _ _ _ | DEnum _ _ => OK tm1
        | DUnion _ ms rt =>
          match define_union_types defs ms rt with
          | None => Err
          | Some ids => fold_res (go f) (map TNamed ids) tm1
          end
        | DObject _ ifs fs _ =>
          match define_interfaces defs ifs with
          | None => Err
          | Some ids =>
            match fold_res (go f) (map TNamed ids) tm1 with
            | OK tm2 => match define_field_map defs fs with
                        | None => Err
                        | Some vfs => fold_res (go f) (field_refs vfs) tm2
                        end
            | e => e
            end
          end
        | DInterface _ fs _ =>
          match define_field_map defs fs with
          | None => Err
          | Some vfs => fold_res (go f) (field_refs vfs) tm1
          end
        | DInput _ fs =>
          match define_input_field_map defs fs with
          | None => Err
          | Some l => fold_res (go f) (map snd l) tm1
          end
        end
      end
    end.
  Proof. reflexivity. Qed.

  (* a fold of steps each of which has enough fuel has enough fuel *)
  Lemma fold_enough (step : tmap -> tref -> res tmap) (bound : nat) :
    (forall tm t, tm_ok defs tm -> (bound <= length tm)%nat -> step tm t <> OutOfFuel) ->
    (forall tm t tm', tm_ok defs tm -> step tm t = OK tm' -> tm_ok defs tm' /\ (length tm <= length tm')%nat) ->
    forall l tm, tm_ok defs tm -> (bound <= length tm)%nat -> fold_res step l tm <> OutOfFuel.
  Proof.
    intros Hstep Hgrow. induction l as [|x r IH]; intros tm Hok Hb; simpl; [discriminate|].
    destruct (step tm x) as [tm1| |] eqn:E.
    - destruct (Hgrow tm x tm1 Hok E) as [Hok1 Hlen]. apply IH; [exact Hok1|lia].
    - discriminate.
    - exfalso. exact (Hstep tm x Hok Hb E).
  Qed.

  Lemma fold_grown (step : tmap -> tref -> res tmap) :
    (forall tm t tm', tm_ok defs tm -> step tm t = OK tm' -> tm_ok defs tm' /\ (length tm <= length tm')%nat) ->
    forall l tm tm', tm_ok defs tm -> fold_res step l tm = OK tm' -> tm_ok defs tm' /\ (length tm <= length tm')%nat.
  Proof.
    intros Hgrow. induction l as [|x r IH]; intros tm tm' Hok H; simpl in H.
    - inversion H; subst. split; [exact Hok|lia].
    - destruct (step tm x) as [tm1| |] eqn:E; try discriminate.
      destruct (Hgrow tm x tm1 Hok E) as [Hok1 Hlen]. destruct (IH tm1 tm' Hok1 H) as [Hok2 Hlen2]. split; [exact Hok2|lia].
  Qed.

  Lemma go_grown : forall f tm t tm', tm_ok defs tm -> go f tm t = OK tm' -> tm_ok defs tm' /\ (length tm <= length tm')%nat.
  Proof.
    intros f tm t tm' Hok H. unfold go in H. destruct (target_of defs t) as [| |i]; try discriminate.
    - inversion H; subst. split; [exact Hok|lia].
    - exact (visit_grown defs f tm i tm' Hok H).
  Qed.

  (* the heart: with a well-formed map of m entries, |defs| + 1 - m units of fuel are enough *)
  Lemma visit_enough : forall fuel tm id, tm_ok defs tm -> (length defs < fuel + length tm)%nat ->
    visit defs fuel tm id <> OutOfFuel.
  Proof.
    induction fuel as [|f IH]; intros tm id Hok Hf.
    - pose proof (tm_ok_length defs tm Hok). simpl in Hf. lia.
    - rewrite visit_unfold.
      destruct (find_def defs id) as [d|] eqn:Ed; [|discriminate].
      destruct (ctor_err d); [discriminate|].
      destruct (tm_find (def_name d) tm) as [id'|] eqn:Et; [destruct (id' =? id); discriminate|].
      pose proof (tm_ok_insert defs tm id d Hok Ed Et) as Hok1.
      assert (Hgo : forall tm0 t, tm_ok defs tm0 -> (S (length tm) <= length tm0)%nat -> go f tm0 t <> OutOfFuel).
      { intros tm0 t Hok0 Hlen. unfold go. destruct (target_of defs t) as [| |i]; try discriminate.
        apply IH; [exact Hok0|lia]. }
      assert (Hfold : forall l tm0, tm_ok defs tm0 -> (S (length tm) <= length tm0)%nat -> fold_res (go f) l tm0 <> OutOfFuel).
      { exact (fold_enough (go f) (S (length tm)) Hgo (go_grown f)). }
      cbv zeta.
      destruct d as [n ser pv pl|n ifs fs ito|n fs rt|n ms rt|n vs|n fs].
      + discriminate.
      + destruct (define_interfaces defs ifs) as [ids|]; [|discriminate].
        destruct (fold_res (go f) (map TNamed ids) _) as [tm2| |] eqn:E2.
        * destruct (define_field_map defs fs) as [vfs|]; [|discriminate].
          destruct (fold_grown (go f) (go_grown f) _ _ _ Hok1 E2) as [Hok2 Hlen2].
          apply Hfold; [exact Hok2|simpl in Hlen2; lia].
        * discriminate.
        * exfalso. exact (Hfold _ _ Hok1 (le_n _) E2).
      + destruct (define_field_map defs fs) as [vfs|]; [|discriminate]. apply Hfold; [exact Hok1|simpl; lia].
      + destruct (define_union_types defs ms rt) as [ids|]; [|discriminate]. apply Hfold; [exact Hok1|simpl; lia].
      + discriminate.
      + destruct (define_input_field_map defs fs) as [l|]; [|discriminate]. apply Hfold; [exact Hok1|simpl; lia].
  Qed.

  Lemma add_type_enough : forall fuel tm t, tm_ok defs tm -> (length defs < fuel + length tm)%nat ->
    add_type defs fuel tm t <> OutOfFuel.
  Proof.
    intros fuel tm t Hok Hf. unfold add_type, reduce.
    destruct (norm t) as [|i|u|u]; [discriminate| | |];
      (match goal with |- (if ?b then _ else _) <> _ => destruct b end; [discriminate|]);
      (match goal with |- match ?x with _ => _ end <> _ => destruct x as [| |j] end; try discriminate);
      apply visit_enough; assumption.
  Qed.

  Lemma add_type_grown : forall fuel tm t tm', tm_ok defs tm -> add_type defs fuel tm t = OK tm' ->
    tm_ok defs tm' /\ (length tm <= length tm')%nat.
  Proof.
    intros fuel tm t tm' Hok H.
    exact (add_type_inv defs (grown defs (length tm)) (grown_insert defs (length tm)) fuel tm t tm' (conj Hok (le_n _)) H).
  Qed.

  Lemma add_types_enough : forall fuel l tm, tm_ok defs tm -> (length defs < fuel + length tm)%nat ->
    fold_res (add_type defs fuel) l tm <> OutOfFuel.
  Proof.
    intros fuel l tm Hok Hf.
    apply (fold_enough (add_type defs fuel) (length tm)); auto.
    - intros tm0 t Hok0 Hlen. apply add_type_enough; [exact Hok0|lia].
    - intros tm0 t tm0'. apply add_type_grown.
  Qed.
End Fuel.

Theorem new_schema_fuel_enough : forall fuel c, (length (c_defs c) < fuel)%nat -> new_schema_fuel fuel c <> OutOfFuel.
Proof.
  intros fuel c Hf. unfold new_schema_fuel.
  destruct (c_query c); [|discriminate].
  match goal with |- (if ?b then _ else _) <> _ => destruct b end; [discriminate|].
  match goal with |- (if ?b then _ else _) <> _ => destruct b end; [discriminate|].
  destruct (fold_res _ _ _) as [tm| |] eqn:E.
  - match goal with |- (if ?b then _ else _) <> _ => destruct b end; discriminate.
  - discriminate.
  - exfalso. apply (add_types_enough (c_defs c) fuel (initial_types c) [] (tm_ok_nil _)); [simpl; lia|exact E].
Qed.

Theorem new_schema_terminates : forall c, new_schema c <> OutOfFuel.
Proof. intro c. unfold new_schema, fuel_for. apply new_schema_fuel_enough. lia. Qed.

Lemma append_type_fuel_enough : forall fuel S t, tm_ok (s_defs S) (s_tm S) -> (length (s_defs S) < fuel)%nat ->
  append_type_fuel fuel S t <> OutOfFuel.
Proof.
  intros fuel S t Hok Hf. unfold append_type_fuel.
  destruct (add_type _ _ _ _) as [tm| |] eqn:E.
  - match goal with |- (if ?b then _ else _) <> _ => destruct b end; discriminate.
  - discriminate.
  - exfalso. apply (add_type_enough (s_defs S) fuel (s_tm S) t Hok); [lia|exact E].
Qed.

Lemma append_types_fuel_enough : forall fuel ts S, tm_good (s_defs S) (s_tm S) -> (length (s_defs S) < fuel)%nat ->
  append_types_fuel fuel S ts <> OutOfFuel.
Proof.
  intros fuel. induction ts as [|t r IH]; intros S Hg Hf; simpl; [discriminate|].
  destruct (append_type_fuel fuel S t) as [S'| |] eqn:E.
  - destruct (append_type_fuel_tm _ _ _ _ E) as (Hd & _).
    apply IH; [exact (append_type_fuel_good _ _ _ _ Hg E)|rewrite Hd; exact Hf].
  - discriminate.
  - exfalso. exact (append_type_fuel_enough fuel S t (tm_good_ok _ _ Hg) Hf E).
Qed.

(* every schema reachable from NewSchema by AppendType calls: the next AppendType calls terminate *)
Theorem append_types_terminates : forall f0 f1 c S0 ts0 S ts,
  new_schema_fuel f0 c = OK S0 -> append_types_fuel f1 S0 ts0 = OK S -> append_types S ts <> OutOfFuel.
Proof.
  intros f0 f1 c S0 ts0 S ts H0 H1.
  assert (Hg : tm_good (s_defs S) (s_tm S)).
  { pose proof (new_schema_fuel_good _ _ _ H0) as Hg0. clear H0. revert S0 Hg0 H1.
    induction ts0 as [|t r IH]; intros S0 Hg0 H1; simpl in H1.
    - inversion H1; subst. exact Hg0.
    - destruct (append_type_fuel f1 S0 t) as [S1| |] eqn:E; try discriminate.
      exact (IH S1 (append_type_fuel_good _ _ _ _ Hg0 E) H1). }
  unfold append_types, fuel_for. apply append_types_fuel_enough; [exact Hg|lia].
Qed.

(* ---------- more fuel changes nothing ---------- *)
Section Mono.
  Variable defs : list (N * tdef).

  Lemma fold_res_ext {A} (f g : tmap -> A -> res tmap) : forall l tm,
    (forall tm x, f tm x <> OutOfFuel -> g tm x = f tm x) ->
    fold_res f l tm <> OutOfFuel -> fold_res g l tm = fold_res f l tm.
  Proof.
    induction l as [|x r IH]; intros tm Hfg H; simpl in *; [reflexivity|].
    destruct (f tm x) as [tm1| |] eqn:E.
    - rewrite (Hfg tm x) by (rewrite E; discriminate). rewrite E. apply IH; assumption.
    - rewrite (Hfg tm x) by (rewrite E; discriminate). rewrite E. reflexivity.
    - exfalso. apply H. reflexivity.
  Qed.

  Lemma visit_mono : forall f tm id, visit defs f tm id <> OutOfFuel -> visit defs (S f) tm id = visit defs f tm id.
  Proof.
    induction f as [|f IH]; intros tm id H; [exfalso; apply H; reflexivity|].
    rewrite (visit_unfold defs (S f)). rewrite (visit_unfold defs f) in H |- *.
    destruct (find_def defs id) as [d|]; [|reflexivity].
    destruct (ctor_err d); [reflexivity|].
    destruct (tm_find (def_name d) tm); [reflexivity|].
    assert (Hgo : forall tm0 t, go defs f tm0 t <> OutOfFuel -> go defs (S f) tm0 t = go defs f tm0 t).
    { intros tm0 t H0. unfold go in *. destruct (target_of defs t) as [| |i]; try reflexivity. apply IH. exact H0. }
    cbv zeta in *.
    destruct d as [n ser pv pl|n ifs fs ito|n fs rt|n ms rt|n vs|n fs].
    - reflexivity.
    - destruct (define_interfaces defs ifs) as [ids|]; [|reflexivity].
      destruct (fold_res (go defs f) (map TNamed ids) _) as [tm2| |] eqn:E2.
      + rewrite (fold_res_ext (go defs f) (go defs (S f)) _ _ Hgo) by (rewrite E2; discriminate). rewrite E2.
        destruct (define_field_map defs fs) as [vfs|]; [|reflexivity].
        apply fold_res_ext; assumption.
      + rewrite (fold_res_ext (go defs f) (go defs (S f)) _ _ Hgo) by (rewrite E2; discriminate). rewrite E2. reflexivity.
      + exfalso. apply H. reflexivity.
    - destruct (define_field_map defs fs) as [vfs|]; [|reflexivity]. apply fold_res_ext; assumption.
    - destruct (define_union_types defs ms rt) as [ids|]; [|reflexivity]. apply fold_res_ext; assumption.
    - reflexivity.
    - destruct (define_input_field_map defs fs) as [l|]; [|reflexivity]. apply fold_res_ext; assumption.
  Qed.

  Lemma visit_mono_le : forall f f' tm id, (f <= f')%nat -> visit defs f tm id <> OutOfFuel ->
    visit defs f' tm id = visit defs f tm id.
  Proof.
    intros f f' tm id Hle H. induction Hle as [|f' Hle IH]; [reflexivity|].
    rewrite visit_mono; [exact IH|rewrite IH; exact H].
  Qed.

  Lemma add_type_mono : forall f f' tm t, (f <= f')%nat -> add_type defs f tm t <> OutOfFuel ->
    add_type defs f' tm t = add_type defs f tm t.
  Proof.
    intros f f' tm t Hle H. unfold add_type, reduce in *.
    destruct (norm t) as [|i|u|u]; [reflexivity| | |];
      (match goal with |- (if ?b then _ else _) = _ => destruct b end; [reflexivity|]);
      (match goal with |- match ?x with _ => _ end = _ => destruct x as [| |j] end; try reflexivity);
      apply visit_mono_le; assumption.
  Qed.
End Mono.

Theorem new_schema_fuel_irrelevant : forall fuel c, (length (c_defs c) < fuel)%nat ->
  new_schema_fuel fuel c = new_schema c.
Proof.
  intros fuel c Hf. pose proof (new_schema_terminates c) as Ht.
  unfold new_schema, fuel_for in *. unfold new_schema_fuel in *.
  destruct (c_query c); [|reflexivity].
  match goal with |- (if ?b then _ else _) = _ => destruct b end; [reflexivity|].
  match goal with |- (if ?b then _ else _) = _ => destruct b end; [reflexivity|].
  rewrite (fold_res_ext (add_type (c_defs c) (S (length (c_defs c)))) (add_type (c_defs c) fuel)); [reflexivity| |].
  - intros tm x H. apply add_type_mono; [lia|exact H].
  - intro E. rewrite E in Ht. apply Ht. reflexivity.
Qed.
