(* C14 -- basic facts about traces and the recursive walk. *)
From Coq Require Import List NArith Bool Arith Lia.
From GQL Require Import Visitor.VisitorTree Visitor.VisitorWalk Visitor.VisitorLoop.
Import ListNotations.

Lemma seq_nil_l q : seq nil_tr q = q.
Proof. destruct q; reflexivity. Qed.
Lemma seq_nil_r p : seq p nil_tr = p.
Proof. destruct p as [e []]; cbn; rewrite ?app_nil_r; reflexivity. Qed.
Lemma seq_assoc p q r : seq (seq p q) r = seq p (seq q r).
Proof. destruct p as [e []], q as [e' []], r as [e'' b'']; cbn; rewrite ?app_assoc; reflexivity. Qed.
Lemma fst_seq_cont e q : fst (seq (e, false) q) = e ++ fst q.
Proof. destruct q; reflexivity. Qed.
Lemma seq_stop e q : seq (e, true) q = (e, true).
Proof. reflexivity. Qed.
Lemma seq_empty q : seq ([], false) q = q.
Proof. destruct q; reflexivity. Qed.

Section W.
Variable keys_of : N -> list N.
Variable sel : N -> phase -> option N.
Variable pol : N -> phase -> action.

Lemma walk_unfold c key n :
  walk keys_of sel pol c key n =
  match act sel pol n PEnter with
  | Break => (emit sel PEnter c key n, true)
  | Skip => (emit sel PEnter c key n, false)
  | Continue =>
    seq (emit sel PEnter c key n, false)
        (seq (wkeys keys_of sel pol (w_inner c key (Some (g_id n))) (g_slots n) (keys_of (g_kind n)))
             (leave_tr sel pol c key n))
  end.
Proof.
  destruct n as [id kind slots]. cbn [g_id g_slots g_kind]. cbn -[seq emit act leave_tr wkeys].
  destruct (act sel pol (GNode id kind slots) PEnter); try reflexivity.
  match goal with |- seq ?a (seq ?x ?l) = seq ?a (seq ?y ?l) =>
    assert (x = y) as ->; [|reflexivity] end.
  induction (keys_of kind) as [|k ks IH]; [reflexivity|].
  cbn [wkeys]. rewrite <- IH.
  match goal with |- seq ?x ?l = seq ?y ?l => assert (x = y) as ->; [|reflexivity] end.
  clear IH.
  induction slots as [|[nm o|nm l] ss IHs]; cbn [find_slot slot_name].
  - reflexivity.
  - destruct (N.eqb k nm); [destruct o; reflexivity | exact IHs].
  - destruct (N.eqb k nm); [| exact IHs]. cbn [wslot].
    generalize 0%nat. induction l as [|ch l IHl]; intros i; [reflexivity|].
    cbn [wlist]. rewrite IHl. reflexivity.
Qed.

Lemma nsteps_unfold n :
  nsteps keys_of n = S (S (ksteps keys_of (g_slots n) (keys_of (g_kind n)))).
Proof.
  destruct n as [id kind slots]. cbn [g_slots g_kind]. cbn -[ksteps Nat.add].
  match goal with |- S (S ?x) = S (S ?y) => assert (x = y) as ->; [|reflexivity] end.
  induction (keys_of kind) as [|k ks IH]; [reflexivity|].
  cbn [ksteps]. rewrite <- IH.
  match goal with |- ?x + ?l = ?y + ?l => assert (x = y) as ->; [|reflexivity] end.
  clear IH.
  induction slots as [|[nm o|nm l] ss IHs]; cbn [find_slot slot_name].
  - reflexivity.
  - destruct (N.eqb k nm); [destruct o; reflexivity | exact IHs].
  - destruct (N.eqb k nm); [| exact IHs]. cbn [sstep].
    destruct l as [|c0 l0]; [reflexivity|].
    assert (H : forall l, (fix ls (l1 : list gnode) : nat :=
               match l1 with [] => 0 | ch :: l' => nsteps keys_of ch + ls l' end) l = lsteps keys_of l).
    { induction l as [|ch l IHl]; [reflexivity|]. cbn [lsteps]. rewrite <- IHl. reflexivity. }
    rewrite <- (H (c0 :: l0)). reflexivity.
Qed.

End W.
