(* Completeness of the parser model for type-system definitions, and for whole documents. *)
From Coq Require Import String List NArith Bool Lia Arith.
From GQL Require Import Base.Bytes Syntax.Lexer Syntax.Ast Syntax.Parser Syntax.Grammar Proofs.SyntaxSound Proofs.SyntaxComplete.
Import ListNotations.
Open Scope N_scope.

Ltac eo3 := unfold mkl, span, endof, cur_start, tokloc; cbn [fst snd start_of app];
  repeat (first [rewrite fold_left_app | progress cbn [fold_left app]]); reflexivity.

(* ---- separated lists ---- *)
Section SepComplete.
  Context {A : Type}.
  Variable item : pst -> res (A * pst).
  Variable J : list token -> A -> Prop.
  Variable sep : tkind.
  Hypothesis item_complete : forall p a pe rest, J p a -> item (pe, p ++ rest) = Ok (a, (endof pe p, rest)).

  Lemma sep_by_complete : forall ps l, DSep J sep ps l -> forall fuel pe rest, nk sep rest -> (length l < fuel)%nat ->
    sep_by fuel sep item (pe, ps ++ rest) = Ok (l, (endof pe ps, rest)).
  Proof.
    intros ps l D. induction D as [p a Hpa|p a s ps l Hpa Ks Hrest IH]; intros fuel pe rest Hn Hf.
    - destruct fuel; [simpl in Hf; lia|]. cbn [sep_by]. rewrite (item_complete _ _ pe rest Hpa). cbv beta iota.
      rewrite (skip_nk _ _ _ Hn). reflexivity.
    - destruct fuel; [simpl in Hf; lia|]. cbn [sep_by]. rewrite <- app_assoc. change ((s :: ps) ++ rest) with (s :: ps ++ rest).
      rewrite (item_complete _ _ pe (s :: ps ++ rest) Hpa). cbv beta iota. cbn [app].
      rewrite (skip_yes _ _ _ _ Ks). cbv beta iota.
      rewrite (IH fuel (tend s) rest Hn ltac:(simpl in Hf; lia)).
      f_equal. f_equal. f_equal. change (s :: ps) with ([s] ++ ps). rewrite !endof_app. reflexivity.
  Qed.
End SepComplete.

Lemma DSep_length : forall A (I : list token -> A -> Prop) sep ps l, DSep I sep ps l -> (length l <= S (length ps))%nat.
Proof.
  intros A I sep ps l D. induction D as [p a _|p a s ps l _ _ _ IH]; [simpl; lia|]. rewrite app_length. simpl. lia.
Qed.

Lemma named_complete : forall p a pe rest, DNamed p a -> parse_named (pe, p ++ rest) = Ok (a, (endof pe p, rest)).
Proof. intros p a pe rest D. destruct D as [t K]. cbn [app]. apply parse_named_yes. exact K. Qed.
Lemma name_complete : forall p a pe rest, DName p a -> parse_name (pe, p ++ rest) = Ok (a, (endof pe p, rest)).
Proof. intros p a pe rest D. destruct D as [t K]. cbn [app]. apply parse_name_yes. exact K. Qed.

(* ---- descriptions ---- *)
Lemma parse_description_none : forall pe t r, tk t = NAME -> parse_description (pe, t :: r) = Ok (None, (pe, t :: r)).
Proof. intros pe t r K. unfold parse_description, peek_description, peek. cbn [snd]. rewrite K. reflexivity. Qed.
Lemma parse_description_some : forall pe t r, tk t = STRING \/ tk t = BLOCK_STRING ->
  parse_description (pe, t :: r) = Ok (Some (tval t, tokloc t), (tend t, r)).
Proof. intros pe t r K. unfold parse_description, peek_description, peek. cbn [snd]. destruct K as [K|K]; rewrite K; reflexivity. Qed.

Lemma descr_complete : forall pdsc dsc n r pe, DDescr pdsc dsc -> tk n = NAME ->
  parse_description (pe, pdsc ++ n :: r) = Ok (dsc, (endof pe pdsc, n :: r)).
Proof.
  intros pdsc dsc n r pe D K. destruct D as [|t Kt]; cbn [app].
  - apply parse_description_none. exact K.
  - apply parse_description_some. exact Kt.
Qed.

Lemma descr_starts : forall pdsc dsc, DDescr pdsc dsc -> starts [STRING; BLOCK_STRING] pdsc.
Proof.
  intros pdsc dsc D. destruct D as [|t K]; [left; reflexivity|]. right.
  destruct K as [K|K]; [exists STRING|exists BLOCK_STRING]; (split; [simpl; rewrite K; reflexivity|simpl; auto]).
Qed.

(* start of a node that begins with an optional description *)
Lemma cur_start_descr : forall pdsc dsc n r pe, DDescr pdsc dsc -> cur_start (pe, pdsc ++ n :: r) = start_of (pdsc ++ [n]).
Proof. intros pdsc dsc n r pe D. destruct D; reflexivity. Qed.

(* ---- input values, argument definitions ---- *)
Definition iv_follow (rest : list token) : Prop := nk BANG rest /\ nk EQUALS rest /\ nk AT rest /\ nk PAREN_L rest.

Lemma default_starts : forall pv dv, DOpt DDefault pv dv -> starts [EQUALS] pv.
Proof.
  intros pv dv D. destruct D as [|pv v Dd]; [left; reflexivity|]. destruct Dd as [e pv v Ke _]. right. exists EQUALS.
  split; [simpl; rewrite Ke; reflexivity|left; reflexivity].
Qed.

Lemma not_in2 : forall (a b c : tkind), a <> b -> a <> c -> ~ In a [b; c].
Proof. intros a b c H1 H2 [E|[E|[]]]; congruence. Qed.

Lemma parse_ivdef_complete : forall fuel p v pe rest, DIVDef p v -> (length p < fuel)%nat -> iv_follow rest ->
  parse_ivdef fuel (pe, p ++ rest) = Ok (v, (endof pe p, rest)).
Proof.
  intros fuel p v pe rest D Hl (F1 & F2 & F3 & F4).
  destruct D as [pdsc dsc n c pt t pv dv pd dirs Ddsc Kn Kc Dt Dv Dd].
  pose proof (default_starts _ _ Dv) as Sv. pose proof (direcs_starts _ _ Dd) as Sd.
  rewrite !app_length in Hl. simpl in Hl. rewrite !app_length in Hl.
  unfold parse_ivdef. rewrite <- app_assoc. cbn [app].
  rewrite (descr_complete _ _ n _ pe Ddsc Kn). cbv beta iota.
  rewrite (parse_name_yes _ _ _ Kn). cbv beta iota. rewrite (expect_yes _ _ _ _ Kc). cbv beta iota.
  rewrite <- !app_assoc.
  rewrite (parse_type_complete fuel pt t Dt ltac:(lia)).
  2:{ apply (nk_app _ [EQUALS]); [exact Sv|apply not_in1; discriminate|].
      apply (nk_app _ [AT]); [exact Sd|apply not_in1; discriminate|exact F1]. }
  cbv beta iota.
  set (pe0 := endof (tend c) pt).
  assert (E :
    (' (b, st5) <- skip EQUALS (pe0, pv ++ pd ++ rest) ;;
     ' (dv0, st6) <- (if b then ' (v0, st6) <- parse_value fuel true st5 ;; Ok (Some v0, st6) else Ok (None, st5)) ;;
     ' (dirs0, st7) <- parse_directives fuel st6 ;;
     Ok (mkivdef dsc (tok_name n) t dv0 dirs0 (mkl (cur_start (pe, pdsc ++ n :: c :: pt ++ pv ++ pd ++ rest)) st7), st7))
    = Ok (mkivdef dsc (tok_name n) t dv dirs (span (pdsc ++ n :: c :: pt ++ pv ++ pd)), (endof pe0 (pv ++ pd), rest))).
  { unfold pe0. destruct Dv as [|pv v0 Ddf].
    - cbn [app]. rewrite skip_nk by (apply (nk_app _ [AT]); [exact Sd|apply not_in1; discriminate|exact F2]). cbv beta iota.
      rewrite (parse_directives_complete fuel pd dirs Dd ltac:(lia) _ _ F4 F3). cbv beta iota.
      f_equal. f_equal. f_equal. destruct Ddsc; eo3.
    - destruct Ddf as [e pv v0 Ke Dv0]. cbn [app]. rewrite (skip_yes _ _ _ _ Ke). cbv beta iota.
      rewrite (parse_value_complete fuel true pv v0 Dv0 ltac:(simpl in Hl; lia)). cbv beta iota.
      rewrite (parse_directives_complete fuel pd dirs Dd ltac:(lia) _ _ F4 F3). cbv beta iota.
      destruct Ddsc; eo3. }
  rewrite E. unfold pe0. destruct Ddsc; eo3.
Qed.

Lemma ivdef_first : forall p v, DIVDef p v -> exists t p', p = t :: p' /\ (tk t = NAME \/ tk t = STRING \/ tk t = BLOCK_STRING).
Proof.
  intros p v D. destruct D as [pdsc dsc n c pt t pv dv pd dirs Ddsc Kn _ _ _ _]. destruct Ddsc as [|t0 K0]; cbn [app]; eauto 8.
Qed.

Lemma iv_follow_first : forall t r, tk t = NAME \/ tk t = STRING \/ tk t = BLOCK_STRING \/ tk t = PAREN_R \/ tk t = BRACE_R ->
  iv_follow (t :: r).
Proof.
  intros t r H. repeat split; apply nk_cons; intro E; rewrite E in H; destruct H as [H|[H|[H|[H|H]]]]; discriminate H.
Qed.

Lemma parse_argdefs_complete : forall fuel p l, DArgDefs p l -> (length p <= fuel)%nat -> forall pe rest, nk PAREN_L rest ->
  parse_argdefs fuel (pe, p ++ rest) = Ok (l, (endof pe p, rest)).
Proof.
  intros fuel p l D Hl pe rest Hn. unfold parse_argdefs.
  apply (opt_delim_complete (parse_ivdef fuel) DIVDef PAREN_L PAREN_R fuel iv_follow); auto.
  - intros p0 a H. destruct (ivdef_first _ _ H) as (t & p' & -> & [K|[K|K]]); eexists; eexists; (split; [reflexivity|]); rewrite K; discriminate.
  - intros. apply parse_ivdef_complete; auto.
  - intros p0 a rest0 H. destruct (ivdef_first _ _ H) as (t & p' & -> & K). apply iv_follow_first. tauto.
  - intros c rest0 K. apply iv_follow_first. tauto.
Qed.

(* ---- field definitions ---- *)
Definition fd_follow (rest : list token) : Prop := nk BANG rest /\ nk AT rest /\ nk PAREN_L rest.

Lemma parse_fielddef_complete : forall fuel p v pe rest, DFieldDef p v -> (length p < fuel)%nat -> fd_follow rest ->
  parse_fielddef fuel (pe, p ++ rest) = Ok (v, (endof pe p, rest)).
Proof.
  intros fuel p v pe rest D Hl (F1 & F2 & F3).
  destruct D as [pdsc dsc n pa args c pt t pd dirs Ddsc Kn Da Kc Dt Dd].
  pose proof (direcs_starts _ _ Dd) as Sd.
  rewrite !app_length in Hl. simpl in Hl. rewrite !app_length in Hl. simpl in Hl. rewrite !app_length in Hl.
  unfold parse_fielddef. rewrite <- app_assoc. cbn [app].
  rewrite (descr_complete _ _ n _ pe Ddsc Kn). cbv beta iota.
  rewrite (parse_name_yes _ _ _ Kn). cbv beta iota. rewrite <- !app_assoc.
  rewrite (parse_argdefs_complete fuel pa args Da ltac:(lia)) by (cbn [app]; apply (nk_cons_eq _ COLON); [exact Kc|discriminate]).
  cbv beta iota. cbn [app]. rewrite (expect_yes _ _ _ _ Kc). cbv beta iota. rewrite <- ?app_assoc.
  rewrite (parse_type_complete fuel pt t Dt ltac:(lia)) by (apply (nk_app _ [AT]); [exact Sd|apply not_in1; discriminate|exact F1]).
  cbv beta iota.
  rewrite (parse_directives_complete fuel pd dirs Dd ltac:(lia) _ _ F3 F2). cbv beta iota.
  destruct Ddsc; eo3.
Qed.

Lemma fielddef_first : forall p v, DFieldDef p v -> exists t p', p = t :: p' /\ (tk t = NAME \/ tk t = STRING \/ tk t = BLOCK_STRING).
Proof.
  intros p v D. destruct D as [pdsc dsc n pa args c pt t pd dirs Ddsc Kn _ _ _ _]. destruct Ddsc as [|t0 K0]; cbn [app]; eauto 8.
Qed.
Lemma fd_follow_first : forall t r, tk t = NAME \/ tk t = STRING \/ tk t = BLOCK_STRING \/ tk t = BRACE_R -> fd_follow (t :: r).
Proof. intros t r H. repeat split; apply nk_cons; intro E; rewrite E in H; destruct H as [H|[H|[H|H]]]; discriminate H. Qed.

Lemma fielddefs_complete : forall fuel p l, DDelim DFieldDef BRACE_L BRACE_R false p l -> (length p <= fuel)%nat -> forall pe rest,
  reverse fuel BRACE_L (parse_fielddef fuel) BRACE_R false (pe, p ++ rest) = Ok (l, (endof pe p, rest)).
Proof.
  intros fuel p l D Hl pe rest.
  apply (delim_complete (parse_fielddef fuel) DFieldDef BRACE_L BRACE_R fuel fd_follow); auto.
  - intros p0 a H. destruct (fielddef_first _ _ H) as (t & p' & -> & [K|[K|K]]); eexists; eexists; (split; [reflexivity|]); rewrite K; discriminate.
  - intros. apply parse_fielddef_complete; auto.
  - intros p0 a rest0 H. destruct (fielddef_first _ _ H) as (t & p' & -> & K). apply fd_follow_first. tauto.
  - intros c rest0 K. apply fd_follow_first. tauto.
Qed.

Lemma ivdefs_complete : forall fuel p l, DDelim DIVDef BRACE_L BRACE_R false p l -> (length p <= fuel)%nat -> forall pe rest,
  reverse fuel BRACE_L (parse_ivdef fuel) BRACE_R false (pe, p ++ rest) = Ok (l, (endof pe p, rest)).
Proof.
  intros fuel p l D Hl pe rest.
  apply (delim_complete (parse_ivdef fuel) DIVDef BRACE_L BRACE_R fuel iv_follow); auto.
  - intros p0 a H. destruct (ivdef_first _ _ H) as (t & p' & -> & [K|[K|K]]); eexists; eexists; (split; [reflexivity|]); rewrite K; discriminate.
  - intros. apply parse_ivdef_complete; auto.
  - intros p0 a rest0 H. destruct (ivdef_first _ _ H) as (t & p' & -> & K). apply iv_follow_first. tauto.
  - intros c rest0 K. apply iv_follow_first. tauto.
Qed.

(* ---- enum values, operation types ---- *)
Definition ev_follow (rest : list token) : Prop := nk AT rest /\ nk PAREN_L rest.

Lemma parse_enumvaldef_complete : forall fuel p v pe rest, DEnumValDef p v -> (length p < fuel)%nat -> ev_follow rest ->
  parse_enumvaldef fuel (pe, p ++ rest) = Ok (v, (endof pe p, rest)).
Proof.
  intros fuel p v pe rest D Hl (F1 & F2). destruct D as [pdsc dsc n pd dirs Ddsc Kn Dd].
  rewrite !app_length in Hl. simpl in Hl.
  unfold parse_enumvaldef. rewrite <- app_assoc. cbn [app].
  rewrite (descr_complete _ _ n _ pe Ddsc Kn). cbv beta iota. rewrite (parse_name_yes _ _ _ Kn). cbv beta iota.
  rewrite (parse_directives_complete fuel pd dirs Dd ltac:(lia) _ _ F2 F1). cbv beta iota. destruct Ddsc; eo3.
Qed.

Lemma enumvaldef_first : forall p v, DEnumValDef p v -> exists t p', p = t :: p' /\ (tk t = NAME \/ tk t = STRING \/ tk t = BLOCK_STRING).
Proof.
  intros p v D. destruct D as [pdsc dsc n pd dirs Ddsc Kn _]. destruct Ddsc as [|t0 K0]; cbn [app]; eauto 8.
Qed.
Lemma ev_follow_first : forall t r, tk t = NAME \/ tk t = STRING \/ tk t = BLOCK_STRING \/ tk t = BRACE_R -> ev_follow (t :: r).
Proof. intros t r H. repeat split; apply nk_cons; intro E; rewrite E in H; destruct H as [H|[H|[H|H]]]; discriminate H. Qed.

Lemma enumvaldefs_complete : forall fuel p l, DDelim DEnumValDef BRACE_L BRACE_R false p l -> (length p <= fuel)%nat -> forall pe rest,
  reverse fuel BRACE_L (parse_enumvaldef fuel) BRACE_R false (pe, p ++ rest) = Ok (l, (endof pe p, rest)).
Proof.
  intros fuel p l D Hl pe rest.
  apply (delim_complete (parse_enumvaldef fuel) DEnumValDef BRACE_L BRACE_R fuel ev_follow); auto.
  - intros p0 a H. destruct (enumvaldef_first _ _ H) as (t & p' & -> & [K|[K|K]]); eexists; eexists; (split; [reflexivity|]); rewrite K; discriminate.
  - intros. apply parse_enumvaldef_complete; auto.
  - intros p0 a rest0 H. destruct (enumvaldef_first _ _ H) as (t & p' & -> & K). apply ev_follow_first. tauto.
  - intros c rest0 K. apply ev_follow_first. tauto.
Qed.

Lemma parse_optypedef_complete : forall p v pe rest, DOpTypeDef p v -> parse_optypedef (pe, p ++ rest) = Ok (v, (endof pe p, rest)).
Proof.
  intros p v pe rest D. destruct D as [k op c t Kk Ho Kc Kt]. unfold parse_optypedef. cbn [app].
  rewrite (parse_optype_yes _ _ _ _ Kk Ho). cbv beta iota. rewrite (expect_yes _ _ _ _ Kc). cbv beta iota.
  rewrite (parse_named_yes _ _ _ Kt). reflexivity.
Qed.

Lemma optypedefs_complete : forall fuel p l, DDelim DOpTypeDef BRACE_L BRACE_R true p l -> (length p <= fuel)%nat -> forall pe rest,
  reverse fuel BRACE_L parse_optypedef BRACE_R true (pe, p ++ rest) = Ok (l, (endof pe p, rest)).
Proof.
  intros fuel p l D Hl pe rest.
  apply (delim_complete parse_optypedef DOpTypeDef BRACE_L BRACE_R fuel (fun _ => True)); auto.
  - intros p0 a H. destruct H as [k op c t Kk _ _ _]. eexists; eexists; split; [reflexivity|]. rewrite Kk; discriminate.
  - intros. apply parse_optypedef_complete; auto.
Qed.

(* ---- implements, object types ---- *)
Lemma cur_is_kw_yes : forall w pe t r, tk t = NAME -> tval t = w -> cur_is_kw w (pe, t :: r) = true.
Proof. intros w pe t r K <-. unfold cur_is_kw. cbn [snd]. rewrite K, bytes_eqb_refl. reflexivity. Qed.
Lemma cur_is_kw_nk : forall w pe rest, nk NAME rest -> cur_is_kw w (pe, rest) = false.
Proof.
  intros w pe [|t r] H; [reflexivity|]. unfold cur_is_kw. cbn [snd]. rewrite tkind_beq_neq; [reflexivity|].
  intro E. apply H. simpl. congruence.
Qed.

Lemma DSep_named_first : forall sep p l, DSep DNamed sep p l -> exists t p', p = t :: p' /\ tk t = NAME.
Proof.
  intros sep p l D. destruct D as [p a Ha|p a s ps l Ha _ _]; destruct Ha as [t K].
  - exists t, []. split; [reflexivity|exact K].
  - exists t, (s :: ps). split; [reflexivity|exact K].
Qed.

Lemma parse_implements_complete : forall fuel p l, DImplements p l -> (length p < fuel)%nat -> forall pe rest,
  nk NAME rest -> nk AMP rest -> parse_implements fuel (pe, p ++ rest) = Ok (l, (endof pe p, rest)).
Proof.
  intros fuel p l D Hl pe rest Hn Ha. destruct D as [|i pa p l Ki Vi Hpa Ds].
  - cbn [app]. unfold parse_implements. rewrite (cur_is_kw_nk _ _ _ Hn). reflexivity.
  - unfold parse_implements. cbn [app]. rewrite (cur_is_kw_yes _ _ _ _ Ki Vi). unfold advance. cbn [snd]. cbv beta iota.
    simpl in Hl. rewrite !app_length in Hl.
    pose proof (DSep_length _ _ _ _ _ Ds) as Ll.
    destruct Hpa as [->|(a & -> & Ka)].
    + cbn [app]. destruct (DSep_named_first _ _ _ Ds) as (t & p' & E & Kt). rewrite E. cbn [app].
      rewrite skip_nk by (apply (nk_cons_eq _ NAME); [exact Kt|discriminate]). cbv beta iota.
      change (t :: p' ++ rest) with ((t :: p') ++ rest). rewrite <- E.
      rewrite (sep_by_complete parse_named DNamed AMP named_complete p l Ds fuel (tend i) rest Ha ltac:(simpl in Hl; lia)). reflexivity.
    + cbn [app]. rewrite (skip_yes _ _ _ _ Ka). cbv beta iota.
      rewrite (sep_by_complete parse_named DNamed AMP named_complete p l Ds fuel (tend a) rest Ha ltac:(simpl in Hl; lia)). reflexivity.
Qed.

Lemma implements_starts : forall p l, DImplements p l -> starts [NAME] p.
Proof. intros p l D. destruct D as [|i pa p l Ki _ _ _]; [left; reflexivity|]. right. exists NAME. split; [simpl; rewrite Ki; reflexivity|left; reflexivity]. Qed.

Lemma delim_nk : forall A (I : list token -> A -> Prop) o c ne p l rest k, DDelim I o c ne p l -> k <> o -> nk k (p ++ rest).
Proof. intros A I o c ne p l rest k D H. destruct D as [o0 ps c0 l Ho _ _ _]. cbn [app]. apply (nk_cons_eq _ o); [exact Ho|auto]. Qed.

Lemma parse_objdef_complete : forall fuel p o, DObjDef p o -> (length p < fuel)%nat -> forall pe rest,
  parse_objdef fuel (pe, p ++ rest) = Ok (o, (endof pe p, rest)).
Proof.
  intros fuel p o D Hl pe rest.
  destruct D as [pdsc dsc k n pi ifs pd dirs pf fs Ddsc Kk Vk Kn Di Dd Df].
  pose proof (direcs_starts _ _ Dd) as Sd.
  rewrite !app_length in Hl. simpl in Hl. rewrite !app_length in Hl.
  unfold parse_objdef. rewrite <- app_assoc. cbn [app].
  rewrite (descr_complete _ _ k _ pe Ddsc Kk). cbv beta iota.
  rewrite (expect_kw_yes _ _ _ _ Kk Vk). cbv beta iota. rewrite (parse_name_yes _ _ _ Kn). cbv beta iota. rewrite <- !app_assoc.
  rewrite (parse_implements_complete fuel pi ifs Di ltac:(lia)).
  2:{ apply (nk_app _ [AT]); [exact Sd|apply not_in1; discriminate|]. apply (delim_nk _ _ _ _ _ _ _ _ _ Df). discriminate. }
  2:{ apply (nk_app _ [AT]); [exact Sd|apply not_in1; discriminate|]. apply (delim_nk _ _ _ _ _ _ _ _ _ Df). discriminate. }
  cbv beta iota.
  rewrite (parse_directives_complete fuel pd dirs Dd ltac:(lia));
    [|apply (delim_nk _ _ _ _ _ _ _ _ _ Df); discriminate|apply (delim_nk _ _ _ _ _ _ _ _ _ Df); discriminate].
  cbv beta iota.
  rewrite (fielddefs_complete fuel pf fs Df ltac:(lia)). cbv beta iota. destruct Ddsc; eo3.
Qed.

(* ---- the definitions ---- *)
Definition def_follow (rest : list token) : Prop := nk AT rest /\ nk PAREN_L rest /\ nk PIPE rest.

Lemma parse_schema_complete : forall fuel k pd dirs po ots pe rest, tk k = NAME -> tval k = kw "schema" -> DDirecs pd dirs ->
  DDelim DOpTypeDef BRACE_L BRACE_R true po ots -> (length (k :: pd ++ po) < fuel)%nat ->
  parse_schema_definition fuel (pe, (k :: pd ++ po) ++ rest) = Ok (DSchema dirs ots (span (k :: pd ++ po)), (endof pe (k :: pd ++ po), rest)).
Proof.
  intros fuel k pd dirs po ots pe rest Kk Vk Dd Do Hl. simpl in Hl. rewrite app_length in Hl.
  unfold parse_schema_definition. cbn [app]. rewrite (expect_kw_yes _ _ _ _ Kk Vk). cbv beta iota. rewrite <- app_assoc.
  rewrite (parse_directives_complete fuel pd dirs Dd ltac:(lia));
    [|apply (delim_nk _ _ _ _ _ _ _ _ _ Do); discriminate|apply (delim_nk _ _ _ _ _ _ _ _ _ Do); discriminate].
  cbv beta iota. rewrite (optypedefs_complete fuel po ots Do ltac:(lia)). cbv beta iota. eo3.
Qed.

Lemma parse_scalar_complete : forall fuel pdsc dsc k n pd dirs pe rest, DDescr pdsc dsc -> tk k = NAME -> tval k = kw "scalar" -> tk n = NAME ->
  DDirecs pd dirs -> (length (pdsc ++ k :: n :: pd) < fuel)%nat -> def_follow rest ->
  parse_scalar_definition fuel (pe, (pdsc ++ k :: n :: pd) ++ rest)
  = Ok (DScalar dsc (tok_name n) dirs (span (pdsc ++ k :: n :: pd)), (endof pe (pdsc ++ k :: n :: pd), rest)).
Proof.
  intros fuel pdsc dsc k n pd dirs pe rest Ddsc Kk Vk Kn Dd Hl (F1 & F2 & _). rewrite app_length in Hl. simpl in Hl.
  unfold parse_scalar_definition. rewrite <- app_assoc. cbn [app].
  rewrite (descr_complete _ _ k _ pe Ddsc Kk). cbv beta iota. rewrite (expect_kw_yes _ _ _ _ Kk Vk). cbv beta iota.
  rewrite (parse_name_yes _ _ _ Kn). cbv beta iota.
  rewrite (parse_directives_complete fuel pd dirs Dd ltac:(lia) _ _ F2 F1). cbv beta iota. destruct Ddsc; eo3.
Qed.

Lemma parse_interface_complete : forall fuel pdsc dsc k n pd dirs pf fs pe rest, DDescr pdsc dsc -> tk k = NAME -> tval k = kw "interface" ->
  tk n = NAME -> DDirecs pd dirs -> DDelim DFieldDef BRACE_L BRACE_R false pf fs -> (length (pdsc ++ k :: n :: pd ++ pf) < fuel)%nat ->
  parse_interface_definition fuel (pe, (pdsc ++ k :: n :: pd ++ pf) ++ rest)
  = Ok (DInterface dsc (tok_name n) dirs fs (span (pdsc ++ k :: n :: pd ++ pf)), (endof pe (pdsc ++ k :: n :: pd ++ pf), rest)).
Proof.
  intros fuel pdsc dsc k n pd dirs pf fs pe rest Ddsc Kk Vk Kn Dd Df Hl. rewrite app_length in Hl. simpl in Hl. rewrite app_length in Hl.
  unfold parse_interface_definition. rewrite <- app_assoc. cbn [app].
  rewrite (descr_complete _ _ k _ pe Ddsc Kk). cbv beta iota. rewrite (expect_kw_yes _ _ _ _ Kk Vk). cbv beta iota.
  rewrite (parse_name_yes _ _ _ Kn). cbv beta iota. rewrite <- app_assoc.
  rewrite (parse_directives_complete fuel pd dirs Dd ltac:(lia));
    [|apply (delim_nk _ _ _ _ _ _ _ _ _ Df); discriminate|apply (delim_nk _ _ _ _ _ _ _ _ _ Df); discriminate].
  cbv beta iota. rewrite (fielddefs_complete fuel pf fs Df ltac:(lia)). cbv beta iota. destruct Ddsc; eo3.
Qed.

Lemma parse_enum_complete : forall fuel pdsc dsc k n pd dirs pf fs pe rest, DDescr pdsc dsc -> tk k = NAME -> tval k = kw "enum" ->
  tk n = NAME -> DDirecs pd dirs -> DDelim DEnumValDef BRACE_L BRACE_R false pf fs -> (length (pdsc ++ k :: n :: pd ++ pf) < fuel)%nat ->
  parse_enum_definition fuel (pe, (pdsc ++ k :: n :: pd ++ pf) ++ rest)
  = Ok (DEnum dsc (tok_name n) dirs fs (span (pdsc ++ k :: n :: pd ++ pf)), (endof pe (pdsc ++ k :: n :: pd ++ pf), rest)).
Proof.
  intros fuel pdsc dsc k n pd dirs pf fs pe rest Ddsc Kk Vk Kn Dd Df Hl. rewrite app_length in Hl. simpl in Hl. rewrite app_length in Hl.
  unfold parse_enum_definition. rewrite <- app_assoc. cbn [app].
  rewrite (descr_complete _ _ k _ pe Ddsc Kk). cbv beta iota. rewrite (expect_kw_yes _ _ _ _ Kk Vk). cbv beta iota.
  rewrite (parse_name_yes _ _ _ Kn). cbv beta iota. rewrite <- app_assoc.
  rewrite (parse_directives_complete fuel pd dirs Dd ltac:(lia));
    [|apply (delim_nk _ _ _ _ _ _ _ _ _ Df); discriminate|apply (delim_nk _ _ _ _ _ _ _ _ _ Df); discriminate].
  cbv beta iota. rewrite (enumvaldefs_complete fuel pf fs Df ltac:(lia)). cbv beta iota. destruct Ddsc; eo3.
Qed.

Lemma parse_input_complete : forall fuel pdsc dsc k n pd dirs pf fs pe rest, DDescr pdsc dsc -> tk k = NAME -> tval k = kw "input" ->
  tk n = NAME -> DDirecs pd dirs -> DDelim DIVDef BRACE_L BRACE_R false pf fs -> (length (pdsc ++ k :: n :: pd ++ pf) < fuel)%nat ->
  parse_input_definition fuel (pe, (pdsc ++ k :: n :: pd ++ pf) ++ rest)
  = Ok (DInput dsc (tok_name n) dirs fs (span (pdsc ++ k :: n :: pd ++ pf)), (endof pe (pdsc ++ k :: n :: pd ++ pf), rest)).
Proof.
  intros fuel pdsc dsc k n pd dirs pf fs pe rest Ddsc Kk Vk Kn Dd Df Hl. rewrite app_length in Hl. simpl in Hl. rewrite app_length in Hl.
  unfold parse_input_definition. rewrite <- app_assoc. cbn [app].
  rewrite (descr_complete _ _ k _ pe Ddsc Kk). cbv beta iota. rewrite (expect_kw_yes _ _ _ _ Kk Vk). cbv beta iota.
  rewrite (parse_name_yes _ _ _ Kn). cbv beta iota. rewrite <- app_assoc.
  rewrite (parse_directives_complete fuel pd dirs Dd ltac:(lia));
    [|apply (delim_nk _ _ _ _ _ _ _ _ _ Df); discriminate|apply (delim_nk _ _ _ _ _ _ _ _ _ Df); discriminate].
  cbv beta iota. rewrite (ivdefs_complete fuel pf fs Df ltac:(lia)). cbv beta iota. destruct Ddsc; eo3.
Qed.

Lemma parse_union_complete : forall fuel pdsc dsc k n pd dirs e pm ms pe rest, DDescr pdsc dsc -> tk k = NAME -> tval k = kw "union" ->
  tk n = NAME -> DDirecs pd dirs -> tk e = EQUALS -> DSep DNamed PIPE pm ms -> (length (pdsc ++ k :: n :: pd ++ e :: pm) < fuel)%nat ->
  def_follow rest ->
  parse_union_definition fuel (pe, (pdsc ++ k :: n :: pd ++ e :: pm) ++ rest)
  = Ok (DUnion dsc (tok_name n) dirs ms (span (pdsc ++ k :: n :: pd ++ e :: pm)), (endof pe (pdsc ++ k :: n :: pd ++ e :: pm), rest)).
Proof.
  intros fuel pdsc dsc k n pd dirs e pm ms pe rest Ddsc Kk Vk Kn Dd Ke Dm Hl (_ & _ & F3).
  rewrite app_length in Hl. simpl in Hl. rewrite app_length in Hl. simpl in Hl.
  pose proof (DSep_length _ _ _ _ _ Dm) as Lm.
  unfold parse_union_definition. rewrite <- app_assoc. cbn [app].
  rewrite (descr_complete _ _ k _ pe Ddsc Kk). cbv beta iota. rewrite (expect_kw_yes _ _ _ _ Kk Vk). cbv beta iota.
  rewrite (parse_name_yes _ _ _ Kn). cbv beta iota. rewrite <- app_assoc. cbn [app].
  rewrite (parse_directives_complete fuel pd dirs Dd ltac:(lia));
    [|apply (nk_cons_eq _ EQUALS); [exact Ke|discriminate]|apply (nk_cons_eq _ EQUALS); [exact Ke|discriminate]].
  cbv beta iota. rewrite (expect_yes _ _ _ _ Ke). cbv beta iota.
  rewrite (sep_by_complete parse_named DNamed PIPE named_complete pm ms Dm fuel (tend e) rest F3 ltac:(lia)). cbv beta iota.
  destruct Ddsc; eo3.
Qed.

Lemma parse_directive_def_complete : forall fuel pdsc dsc k a n pa args o pl locs pe rest, DDescr pdsc dsc -> tk k = NAME -> tval k = kw "directive" ->
  tk a = AT -> tk n = NAME -> DArgDefs pa args -> tk o = NAME -> tval o = kw "on" -> DSep DName PIPE pl locs ->
  (length (pdsc ++ k :: a :: n :: pa ++ o :: pl) < fuel)%nat -> def_follow rest ->
  parse_directive_definition fuel (pe, (pdsc ++ k :: a :: n :: pa ++ o :: pl) ++ rest)
  = Ok (DDirective dsc (tok_name n) args locs (span (pdsc ++ k :: a :: n :: pa ++ o :: pl)),
        (endof pe (pdsc ++ k :: a :: n :: pa ++ o :: pl), rest)).
Proof.
  intros fuel pdsc dsc k a n pa args o pl locs pe rest Ddsc Kk Vk Ka Kn Da Ko Vo Dl Hl (_ & _ & F3).
  rewrite app_length in Hl. simpl in Hl. rewrite app_length in Hl. simpl in Hl.
  pose proof (DSep_length _ _ _ _ _ Dl) as Ll.
  unfold parse_directive_definition. rewrite <- app_assoc. cbn [app].
  rewrite (descr_complete _ _ k _ pe Ddsc Kk). cbv beta iota. rewrite (expect_kw_yes _ _ _ _ Kk Vk). cbv beta iota.
  rewrite (expect_yes _ _ _ _ Ka). cbv beta iota. rewrite (parse_name_yes _ _ _ Kn). cbv beta iota. rewrite <- app_assoc. cbn [app].
  rewrite (parse_argdefs_complete fuel pa args Da ltac:(lia)) by (apply (nk_cons_eq _ NAME); [exact Ko|discriminate]).
  cbv beta iota. rewrite (expect_kw_yes _ _ _ _ Ko Vo). cbv beta iota.
  rewrite (sep_by_complete parse_name DName PIPE name_complete pl locs Dl fuel (tend o) rest F3 ltac:(lia)). cbv beta iota.
  destruct Ddsc; eo3.
Qed.

Lemma parse_extend_complete : forall fuel k p o pe rest, tk k = NAME -> tval k = kw "extend" -> DObjDef p o -> (length (k :: p) < fuel)%nat ->
  parse_extend_definition fuel (pe, (k :: p) ++ rest) = Ok (DExtend o (span (k :: p)), (endof pe (k :: p), rest)).
Proof.
  intros fuel k p o pe rest Kk Vk Do Hl. simpl in Hl. unfold parse_extend_definition. cbn [app].
  rewrite (expect_kw_yes _ _ _ _ Kk Vk). cbv beta iota. rewrite (parse_objdef_complete fuel p o Do ltac:(lia)). cbv beta iota. eo3.
Qed.

(* ---- dispatch on the keyword (after an optional description) ---- *)
Definition ts_chain (fuel : nat) (v : bytes) (st : pst) : res (definition * pst) :=
  if bytes_eqb v (kw "fragment") then parse_fragment_definition fuel st
  else if bytes_eqb v (kw "query") || bytes_eqb v (kw "mutation") || bytes_eqb v (kw "subscription")
       then parse_operation fuel st
  else if bytes_eqb v (kw "schema") then parse_schema_definition fuel st
  else if bytes_eqb v (kw "scalar") then parse_scalar_definition fuel st
  else if bytes_eqb v (kw "type") then ' (o, st1) <- parse_objdef fuel st ;; Ok (DObject o, st1)
  else if bytes_eqb v (kw "interface") then parse_interface_definition fuel st
  else if bytes_eqb v (kw "union") then parse_union_definition fuel st
  else if bytes_eqb v (kw "enum") then parse_enum_definition fuel st
  else if bytes_eqb v (kw "input") then parse_input_definition fuel st
  else if bytes_eqb v (kw "extend") then parse_extend_definition fuel st
  else if bytes_eqb v (kw "directive") then parse_directive_definition fuel st
  else Err.

Lemma dispatch : forall fuel pe pdsc dsc k r, DDescr pdsc dsc -> tk k = NAME ->
  parse_definition fuel (pe, pdsc ++ k :: r) = ts_chain fuel (tval k) (pe, pdsc ++ k :: r).
Proof.
  intros fuel pe pdsc dsc k r D K. destruct D as [|t Kt]; cbn [app].
  - unfold parse_definition, parse_type_system_definition, keyword_token, peek_description, peek. cbn [snd]. rewrite !K.
    cbn [tkind_beq orb negb]. rewrite ?K. cbn [tkind_beq negb]. reflexivity.
  - unfold parse_definition, parse_type_system_definition, keyword_token, peek_description, peek. cbn [snd].
    destruct Kt as [Kt|Kt]; rewrite !Kt; cbn [tkind_beq orb negb]; rewrite ?K; cbn [tkind_beq negb]; reflexivity.
Qed.

Lemma chain_schema : forall fuel st, ts_chain fuel (kw "schema") st = parse_schema_definition fuel st. Proof. reflexivity. Qed.
Lemma chain_scalar : forall fuel st, ts_chain fuel (kw "scalar") st = parse_scalar_definition fuel st. Proof. reflexivity. Qed.
Lemma chain_type : forall fuel st, ts_chain fuel (kw "type") st = ' (o, st1) <- parse_objdef fuel st ;; Ok (DObject o, st1). Proof. reflexivity. Qed.
Lemma chain_interface : forall fuel st, ts_chain fuel (kw "interface") st = parse_interface_definition fuel st. Proof. reflexivity. Qed.
Lemma chain_union : forall fuel st, ts_chain fuel (kw "union") st = parse_union_definition fuel st. Proof. reflexivity. Qed.
Lemma chain_enum : forall fuel st, ts_chain fuel (kw "enum") st = parse_enum_definition fuel st. Proof. reflexivity. Qed.
Lemma chain_input : forall fuel st, ts_chain fuel (kw "input") st = parse_input_definition fuel st. Proof. reflexivity. Qed.
Lemma chain_extend : forall fuel st, ts_chain fuel (kw "extend") st = parse_extend_definition fuel st. Proof. reflexivity. Qed.
Lemma chain_directive : forall fuel st, ts_chain fuel (kw "directive") st = parse_directive_definition fuel st. Proof. reflexivity. Qed.

Lemma parse_definition_complete : forall fuel p d, DDefinition p d -> (length p < fuel)%nat -> forall pe rest, def_follow rest ->
  parse_definition fuel (pe, p ++ rest) = Ok (d, (endof pe p, rest)).
Proof.
  intros fuel p d D Hl pe rest F. destruct D as [p o Do|p f Df|p d Dt].
  - apply parse_definition_complete_exec; [apply DD_op; exact Do|reflexivity|exact Hl].
  - apply parse_definition_complete_exec; [apply DD_frag; exact Df|reflexivity|exact Hl].
  - destruct Dt as [k pd dirs po ots Kk Vk Dd Do
                   |pdsc dsc k n pd dirs Ddsc Kk Vk Kn Dd
                   |p o Do
                   |pdsc dsc k n pd dirs pf fs Ddsc Kk Vk Kn Dd Df
                   |pdsc dsc k n pd dirs e pm ms Ddsc Kk Vk Kn Dd Ke Dm
                   |pdsc dsc k n pd dirs pv vs Ddsc Kk Vk Kn Dd Dv
                   |pdsc dsc k n pd dirs pf fs Ddsc Kk Vk Kn Dd Df
                   |k p o Kk Vk Do
                   |pdsc dsc k a n pa args o pl locs Ddsc Kk Vk Ka Kn Da Ko Vo Dl].
    + change ((k :: pd ++ po) ++ rest) with ([] ++ k :: (pd ++ po) ++ rest).
      rewrite (dispatch fuel pe [] None k _ (DDescr_none) Kk). rewrite Vk, chain_schema. cbn [app].
      change (k :: (pd ++ po) ++ rest) with ((k :: pd ++ po) ++ rest). apply parse_schema_complete; assumption.
    + rewrite <- app_assoc. cbn [app]. rewrite (dispatch fuel pe pdsc dsc k _ Ddsc Kk). rewrite Vk, chain_scalar.
      change (pdsc ++ k :: n :: pd ++ rest) with (pdsc ++ (k :: n :: pd) ++ rest). rewrite app_assoc.
      apply parse_scalar_complete; assumption.
    + pose proof Do as Do'. destruct Do' as [pdsc dsc k n pi ifs pd dirs pf fs Ddsc Kk Vk Kn Di Dd Df].
      rewrite <- app_assoc. cbn [app]. rewrite (dispatch fuel pe pdsc dsc k _ Ddsc Kk). rewrite Vk, chain_type.
      change (pdsc ++ k :: n :: (pi ++ pd ++ pf) ++ rest) with (pdsc ++ (k :: n :: pi ++ pd ++ pf) ++ rest). rewrite app_assoc.
      rewrite (parse_objdef_complete fuel _ _ Do Hl). reflexivity.
    + rewrite <- app_assoc. cbn [app]. rewrite (dispatch fuel pe pdsc dsc k _ Ddsc Kk). rewrite Vk, chain_interface.
      change (pdsc ++ k :: n :: (pd ++ pf) ++ rest) with (pdsc ++ (k :: n :: pd ++ pf) ++ rest). rewrite app_assoc.
      apply parse_interface_complete; assumption.
    + rewrite <- app_assoc. cbn [app]. rewrite (dispatch fuel pe pdsc dsc k _ Ddsc Kk). rewrite Vk, chain_union.
      change (pdsc ++ k :: n :: (pd ++ e :: pm) ++ rest) with (pdsc ++ (k :: n :: pd ++ e :: pm) ++ rest). rewrite app_assoc.
      apply parse_union_complete; assumption.
    + rewrite <- app_assoc. cbn [app]. rewrite (dispatch fuel pe pdsc dsc k _ Ddsc Kk). rewrite Vk, chain_enum.
      change (pdsc ++ k :: n :: (pd ++ pv) ++ rest) with (pdsc ++ (k :: n :: pd ++ pv) ++ rest). rewrite app_assoc.
      apply parse_enum_complete; assumption.
    + rewrite <- app_assoc. cbn [app]. rewrite (dispatch fuel pe pdsc dsc k _ Ddsc Kk). rewrite Vk, chain_input.
      change (pdsc ++ k :: n :: (pd ++ pf) ++ rest) with (pdsc ++ (k :: n :: pd ++ pf) ++ rest). rewrite app_assoc.
      apply parse_input_complete; assumption.
    + change ((k :: p) ++ rest) with ([] ++ k :: p ++ rest).
      rewrite (dispatch fuel pe [] None k _ (DDescr_none) Kk). rewrite Vk, chain_extend. cbn [app].
      change (k :: p ++ rest) with ((k :: p) ++ rest). apply parse_extend_complete; assumption.
    + rewrite <- app_assoc. cbn [app]. rewrite (dispatch fuel pe pdsc dsc k _ Ddsc Kk). rewrite Vk, chain_directive.
      change (pdsc ++ k :: a :: n :: (pa ++ o :: pl) ++ rest) with (pdsc ++ (k :: a :: n :: pa ++ o :: pl) ++ rest). rewrite app_assoc.
      apply parse_directive_def_complete; assumption.
Qed.

Lemma definition_first : forall p d, DDefinition p d ->
  exists t p', p = t :: p' /\ (tk t = BRACE_L \/ tk t = NAME \/ tk t = STRING \/ tk t = BLOCK_STRING).
Proof.
  intros p d D.
  assert (X : forall pdsc dsc k r, DDescr pdsc dsc -> tk k = NAME ->
              exists t p', pdsc ++ k :: r = t :: p' /\ (tk t = BRACE_L \/ tk t = NAME \/ tk t = STRING \/ tk t = BLOCK_STRING)).
  { intros pdsc dsc k r Dd K. destruct Dd as [|t Kt]; cbn [app]; [eauto 8|]. destruct Kt; eauto 8. }
  destruct D as [p o Do|p f Df|p d Dt].
  - destruct (exec_definition_first _ _ (DD_op _ _ Do) eq_refl) as (t & p' & -> & [K|K]); eauto 8.
  - destruct (exec_definition_first _ _ (DD_frag _ _ Df) eq_refl) as (t & p' & -> & [K|K]); eauto 8.
  - destruct Dt; try (eapply X; eassumption); try (eexists; eexists; split; [reflexivity|auto]).
    match goal with H : DObjDef _ _ |- _ => destruct H end. eapply X; eassumption.
Qed.

Lemma def_follow_first : forall t r, tk t = BRACE_L \/ tk t = NAME \/ tk t = STRING \/ tk t = BLOCK_STRING \/ tk t = EOF -> def_follow (t :: r).
Proof. intros t r H. repeat split; apply nk_cons; intro E; rewrite E in H; destruct H as [H|[H|[H|[H|H]]]]; discriminate H. Qed.

Theorem parse_tokens_complete : forall ts d, Derives ts d -> parse_tokens ts = Ok d.
Proof.
  intros ts d D. destruct D as [p defs e Ds Hne Ke].
  unfold parse_tokens, parse_document.
  set (fuel := S (2 * length (p ++ [e]))).
  assert (Hf : (length p < fuel)%nat) by (unfold fuel; rewrite app_length; simpl; lia).
  change (p ++ [e]) with (p ++ e :: []) at 2.
  rewrite (many_complete (parse_definition fuel) (fun p d => DDefinition p d /\ (length p < fuel)%nat) EOF def_follow) with (l := defs).
  - cbv beta iota. destruct defs as [|d0 defs']; [contradiction Hne; reflexivity|]. cbn [is_nil snd].
    f_equal. f_equal. unfold mkl, span, cur_start, endof. cbn [fst snd]. rewrite !fold_left_app. cbn [fold_left].
    destruct p; reflexivity.
  - intros p0 a (H1 & _). destruct (definition_first _ _ H1) as (t & p' & -> & [K|[K|[K|K]]]);
      eexists; eexists; (split; [reflexivity|]); rewrite K; discriminate.
  - intros p0 a pe rest (H1 & H2) HQ. apply parse_definition_complete; assumption.
  - intros p0 a rest (H1 & _). destruct (definition_first _ _ H1) as (t & p' & -> & K). apply def_follow_first. tauto.
  - intros c rest K. apply def_follow_first. tauto.
  - apply DStar_strengthen; assumption.
  - exact Ke.
  - assert (length defs <= length p)%nat; [|lia].
    apply (DStar_length _ _ _ _ Ds). intros p0 a H. destruct (definition_first _ _ H) as (t & p' & -> & _). discriminate.
Qed.
