(* C09: unconditional termination of CollectFields (Exec.collect / Exec.collect_all)
   under the fuel bounds of Total/CollectBound.v, fuel monotonicity, growth of the
   visited set, and a non-vacuity example with a self-spreading fragment. *)
From Coq Require Import List Arith String Bool Lia NArith.
From GQL Require Import Exec.Syntax Exec.Coerce Exec.Exec Total.CollectBound.
Import ListNotations.
Open Scope string_scope.
Open Scope list_scope.

(* ---- nmem inclusion ---- *)
Definition vincl (v1 v2 : list name) : Prop :=
  forall x, nmem x v1 = true -> nmem x v2 = true.

Lemma vincl_refl : forall v, vincl v v.
Proof. intros v x Hx. exact Hx. Qed.

Lemma vincl_trans : forall v1 v2 v3, vincl v1 v2 -> vincl v2 v3 -> vincl v1 v3.
Proof. intros v1 v2 v3 H12 H23 x Hx. apply H23. apply H12. exact Hx. Qed.

Lemma vincl_cons : forall n v1 v2, vincl v1 v2 -> vincl (n :: v1) (n :: v2).
Proof.
  intros n v1 v2 H12 x Hx. cbn in *.
  apply orb_true_iff in Hx. apply orb_true_iff.
  destruct Hx as [Hx | Hx]; [left; exact Hx | right; apply H12; exact Hx].
Qed.

Lemma vincl_tail : forall n v, vincl v (n :: v).
Proof. intros n v x Hx. cbn. rewrite Hx. apply orb_true_r. Qed.

Lemma vincl_swap : forall a b v, vincl (a :: b :: v) (b :: a :: v).
Proof.
  intros a b v x Hx. cbn in *.
  destruct (String.eqb x a), (String.eqb x b); cbn in *; auto.
Qed.

Lemma vincl_dup : forall a v, vincl (a :: a :: v) (a :: v).
Proof.
  intros a v x Hx. cbn in *.
  destruct (String.eqb x a); cbn in *; auto.
Qed.

(* ---- csize ---- *)
Lemma csize_cons : forall s r, csize (s :: r) = sel_csize s + csize r.
Proof. intros s r. reflexivity. Qed.

Lemma sel_csize_pos : forall s, 1 <= sel_csize s.
Proof. intros s. destruct s; cbn; lia. Qed.

Lemma sel_csize_inline : forall i tc ds sub, sel_csize (SInline i tc ds sub) = S (csize sub).
Proof. intros. reflexivity. Qed.

(* ---- unvisited_size: antitone in the visited set, extensional ---- *)
Lemma unvisited_size_antitone : forall fs v1 v2,
  vincl v1 v2 -> unvisited_size fs v2 <= unvisited_size fs v1.
Proof.
  induction fs as [| f r IHr]; intros v1 v2 Hincl; cbn.
  - lia.
  - assert (Hr : unvisited_size r (fr_name f :: v2) <= unvisited_size r (fr_name f :: v1)).
    { apply IHr. apply vincl_cons. exact Hincl. }
    destruct (nmem (fr_name f) v2) eqn:E2.
    + lia.
    + destruct (nmem (fr_name f) v1) eqn:E1.
      * apply Hincl in E1. congruence.
      * lia.
Qed.

Lemma unvisited_size_ext : forall fs v1 v2,
  vincl v1 v2 -> vincl v2 v1 -> unvisited_size fs v1 = unvisited_size fs v2.
Proof.
  intros fs v1 v2 H12 H21.
  pose proof (unvisited_size_antitone fs v1 v2 H12).
  pose proof (unvisited_size_antitone fs v2 v1 H21).
  lia.
Qed.

(* ---- key accounting: expanding an unvisited fragment pays for its body ---- *)
Lemma unvisited_size_expand : forall fs nm f visited,
  find_fragment nm fs = Some f ->
  nmem nm visited = false ->
  csize (fr_sel f) + unvisited_size fs (nm :: visited) <= unvisited_size fs visited.
Proof.
  induction fs as [| f0 r IHr]; intros nm f visited Hfind Hnm; cbn in Hfind.
  - discriminate.
  - destruct (String.eqb nm (fr_name f0)) eqn:Enm.
    + apply String.eqb_eq in Enm. injection Hfind as Hf. subst f0. subst nm.
      cbn. rewrite String.eqb_refl. cbn. rewrite Hnm.
      rewrite (unvisited_size_ext r (fr_name f :: fr_name f :: visited) (fr_name f :: visited)).
      * lia.
      * apply vincl_dup.
      * apply vincl_tail.
    + cbn [unvisited_size].
      assert (Hmem : nmem (fr_name f0) (nm :: visited) = nmem (fr_name f0) visited).
      { cbn. rewrite String.eqb_sym. rewrite Enm. reflexivity. }
      rewrite Hmem.
      rewrite (unvisited_size_ext r (fr_name f0 :: nm :: visited) (nm :: fr_name f0 :: visited))
        by apply vincl_swap.
      assert (Hnm' : nmem nm (fr_name f0 :: visited) = false).
      { cbn. rewrite Enm. exact Hnm. }
      pose proof (IHr nm f (fr_name f0 :: visited) Hfind Hnm') as HIH.
      lia.
Qed.

(* ---- the generalised termination statement ---- *)
Lemma collect_terminates_gen : forall S D vars obj fuel sels visited g,
  csize sels + unvisited_size (d_frags D) visited + 1 <= fuel ->
  exists g' v', collect fuel S D vars obj sels visited g = Some (g', v') /\ vincl visited v'.
Proof.
  intros S D vars obj.
  induction fuel as [| fuel' IH]; intros sels visited g Hfuel.
  - lia.
  - destruct sels as [| s rest].
    + cbn. exists g, visited. split; [reflexivity | apply vincl_refl].
    + rewrite csize_cons in Hfuel.
      pose proof (sel_csize_pos s) as Hpos.
      assert (Hrest : csize rest + unvisited_size (d_frags D) visited + 1 <= fuel') by lia.
      destruct s as [id al nm args ds sub | id nm ds | id tc ds sub].
      * (* field *)
        cbn [collect].
        destruct (included S ds vars); apply IH; exact Hrest.
      * (* spread *)
        cbn [collect].
        destruct (included S ds vars && negb (nmem nm visited)) eqn:Econd.
        -- apply andb_true_iff in Econd. destruct Econd as [_ Hvis].
           apply negb_true_iff in Hvis.
           destruct (find_fragment nm (d_frags D)) as [f |] eqn:Efind.
           ++ pose proof (unvisited_size_expand _ _ _ _ Efind Hvis) as Hexp.
              pose proof (unvisited_size_antitone (d_frags D) visited (nm :: visited)
                            (vincl_tail nm visited)) as Hanti.
              destruct (fragment_matches S (Some (fr_cond f)) obj).
              ** cbn [sel_csize] in Hfuel.
                 destruct (IH (fr_sel f) (nm :: visited) g) as (g1 & v1 & Hc1 & Hi1); [lia |].
                 rewrite Hc1.
                 pose proof (unvisited_size_antitone (d_frags D) _ _ Hi1) as Hanti1.
                 destruct (IH rest v1 g1) as (g2 & v2 & Hc2 & Hi2); [lia |].
                 exists g2, v2. split; [exact Hc2 |].
                 eapply vincl_trans; [apply vincl_tail |].
                 eapply vincl_trans; [exact Hi1 | exact Hi2].
              ** destruct (IH rest (nm :: visited) g) as (g2 & v2 & Hc2 & Hi2); [lia |].
                 exists g2, v2. split; [exact Hc2 |].
                 eapply vincl_trans; [apply vincl_tail | exact Hi2].
           ++ apply IH; exact Hrest.
        -- apply IH; exact Hrest.
      * (* inline *)
        cbn [collect].
        rewrite sel_csize_inline in Hfuel.
        destruct (included S ds vars && fragment_matches S tc obj).
        -- destruct (IH sub visited g) as (g1 & v1 & Hc1 & Hi1); [lia |].
           rewrite Hc1.
           pose proof (unvisited_size_antitone (d_frags D) _ _ Hi1) as Hanti1.
           destruct (IH rest v1 g1) as (g2 & v2 & Hc2 & Hi2); [lia |].
           exists g2, v2. split; [exact Hc2 |].
           eapply vincl_trans; [exact Hi1 | exact Hi2].
        -- apply IH; exact Hrest.
Qed.

(* 1. unconditional termination of CollectFields *)
Lemma collect_terminates : forall S D vars obj fuel sels visited g,
  collect_bound D sels <= fuel -> collect fuel S D vars obj sels visited g <> None.
Proof.
  intros S D vars obj fuel sels visited g Hfuel.
  unfold collect_bound, frag_total in Hfuel.
  pose proof (unvisited_size_antitone (d_frags D) [] visited) as Hanti.
  assert (Hle : unvisited_size (d_frags D) visited <= unvisited_size (d_frags D) []).
  { apply Hanti. intros x Hx. cbn in Hx. discriminate. }
  destruct (collect_terminates_gen S D vars obj fuel sels visited g) as (g' & v' & Hc & _); [lia |].
  rewrite Hc. discriminate.
Qed.

(* 2. termination of the merged collection *)
Lemma collect_all_terminates_gen : forall S D vars obj fuel sets visited g,
  list_sum (map csize sets) + unvisited_size (d_frags D) visited + 1 <= fuel ->
  collect_all fuel S D vars obj sets visited g <> None.
Proof.
  intros S D vars obj fuel.
  induction sets as [| s r IHr]; intros visited g Hfuel.
  - cbn. discriminate.
  - change (list_sum (map csize (s :: r))) with (csize s + list_sum (map csize r)) in Hfuel.
    cbn [collect_all].
    destruct (collect_terminates_gen S D vars obj fuel s visited g) as (g1 & v1 & Hc1 & Hi1); [lia |].
    rewrite Hc1.
    pose proof (unvisited_size_antitone (d_frags D) _ _ Hi1) as Hanti1.
    apply IHr. lia.
Qed.

Lemma collect_all_terminates : forall S D vars obj fuel sets visited g,
  collect_all_bound D sets <= fuel -> collect_all fuel S D vars obj sets visited g <> None.
Proof.
  intros S D vars obj fuel sets visited g Hfuel.
  unfold collect_all_bound, frag_total in Hfuel.
  assert (Hle : unvisited_size (d_frags D) visited <= unvisited_size (d_frags D) []).
  { apply unvisited_size_antitone. intros x Hx. cbn in Hx. discriminate. }
  apply collect_all_terminates_gen. lia.
Qed.

(* 3. fuel monotonicity *)
Lemma collect_fuel_mono : forall S D vars obj fuel fuel' sels visited g r,
  collect fuel S D vars obj sels visited g = Some r ->
  fuel <= fuel' ->
  collect fuel' S D vars obj sels visited g = Some r.
Proof.
  intros S D vars obj.
  induction fuel as [| n IH]; intros fuel' sels visited g r Hc Hle.
  - cbn in Hc. discriminate.
  - destruct fuel' as [| n']; [lia |].
    assert (Hle' : n <= n') by lia.
    destruct sels as [| s rest].
    + cbn in *. exact Hc.
    + destruct s as [id al nm args ds sub | id nm ds | id tc ds sub]; cbn [collect] in *.
      * destruct (included S ds vars); eapply IH; eauto.
      * destruct (included S ds vars && negb (nmem nm visited)); [| eapply IH; eauto].
        destruct (find_fragment nm (d_frags D)) as [f |]; [| eapply IH; eauto].
        destruct (fragment_matches S (Some (fr_cond f)) obj); [| eapply IH; eauto].
        destruct (collect n S D vars obj (fr_sel f) (nm :: visited) g) as [[g1 v1] |] eqn:E1;
          [| discriminate].
        rewrite (IH n' _ _ _ _ E1 Hle'). eapply IH; eauto.
      * destruct (included S ds vars && fragment_matches S tc obj); [| eapply IH; eauto].
        destruct (collect n S D vars obj sub visited g) as [[g1 v1] |] eqn:E1; [| discriminate].
        rewrite (IH n' _ _ _ _ E1 Hle'). eapply IH; eauto.
Qed.

Lemma collect_all_fuel_mono : forall S D vars obj fuel fuel' sets visited g r,
  collect_all fuel S D vars obj sets visited g = Some r ->
  fuel <= fuel' ->
  collect_all fuel' S D vars obj sets visited g = Some r.
Proof.
  intros S D vars obj fuel fuel'.
  induction sets as [| s rest IHr]; intros visited g r Hc Hle; cbn [collect_all] in *.
  - exact Hc.
  - destruct (collect fuel S D vars obj s visited g) as [[g1 v1] |] eqn:E1; [| discriminate].
    rewrite (collect_fuel_mono _ _ _ _ _ _ _ _ _ _ E1 Hle).
    apply IHr; assumption.
Qed.

(* 4. the visited set only grows *)
Lemma collect_visited_grows : forall S D vars obj fuel sels visited g g' v',
  collect fuel S D vars obj sels visited g = Some (g', v') ->
  forall x, nmem x visited = true -> nmem x v' = true.
Proof.
  intros S D vars obj.
  induction fuel as [| n IH]; intros sels visited g g' v' Hc.
  - cbn in Hc. discriminate.
  - change (vincl visited v').
    destruct sels as [| s rest].
    + cbn in Hc. injection Hc as _ Hv. subst v'. apply vincl_refl.
    + destruct s as [id al nm args ds sub | id nm ds | id tc ds sub]; cbn [collect] in Hc.
      * destruct (included S ds vars); exact (IH _ _ _ _ _ Hc).
      * destruct (included S ds vars && negb (nmem nm visited)); [| exact (IH _ _ _ _ _ Hc)].
        destruct (find_fragment nm (d_frags D)) as [f |]; [| exact (IH _ _ _ _ _ Hc)].
        destruct (fragment_matches S (Some (fr_cond f)) obj).
        -- destruct (collect n S D vars obj (fr_sel f) (nm :: visited) g) as [[g1 v1] |] eqn:E1;
             [| discriminate].
           eapply vincl_trans; [apply vincl_tail |].
           eapply vincl_trans; [exact (IH _ _ _ _ _ E1) | exact (IH _ _ _ _ _ Hc)].
        -- eapply vincl_trans; [apply vincl_tail | exact (IH _ _ _ _ _ Hc)].
      * destruct (included S ds vars && fragment_matches S tc obj); [| exact (IH _ _ _ _ _ Hc)].
        destruct (collect n S D vars obj sub visited g) as [[g1 v1] |] eqn:E1; [| discriminate].
        eapply vincl_trans; [exact (IH _ _ _ _ _ E1) | exact (IH _ _ _ _ _ Hc)].
Qed.

(* 5. non-vacuity: a fragment that spreads itself on the same level,
      fragment F on Q { ...F x }   with the operation   { ...F }  *)
Definition ex_schema : schema :=
  {| s_types := [("String", TScalar SString);
                 ("Q", TObject [{| f_name := "x"; f_args := []; f_type := TNamed "String" |}] [])];
     s_query := "Q";
     s_mutation := None |}.

Definition ex_frag_F : fragment :=
  {| fr_name := "F"; fr_cond := "Q";
     fr_sel := [SSpread 20%N "F" []; SField 25%N None "x" [] [] []] |}.

Definition ex_sels : list selection := [SSpread 2%N "F" []].

Definition ex_doc : document :=
  {| d_ops := [{| o_kind := OpQuery; o_name := None; o_vars := []; o_sel := ex_sels |}];
     d_frags := [ex_frag_F] |}.

Example collect_same_level_cycle_example :
  collect (collect_bound ex_doc ex_sels) ex_schema ex_doc [] "Q" ex_sels [] []
  = Some ([("x", [{| oc_id := 25%N; oc_name := "x"; oc_args := []; oc_sub := [] |}])], ["F"]).
Proof. vm_compute. reflexivity. Qed.
