(* Proofs about the subscription LTS (Conc/SubscriptionLts.v). *)
From Coq Require Import List Arith Bool Lia.
From GQL Require Import Conc.SubscriptionLts.
Import ListNotations.

Section Proofs.
Variable ev res : Type.
Variable exec : ev -> res.
Variable sel : site -> bool.
Variable cap : nat.

Notation st := (st ev res).
Notation step := (step ev res exec sel cap).
Notation step_fn := (step_fn ev res exec sel cap).
Notation run := (run ev res exec sel cap).
Notation reach := (reach ev res exec sel cap).
Notation init := (init ev res).
Notation measure := (measure ev res).
Notation lib_enabled := (lib_enabled ev res exec sel cap).
Notation fwd_done := (fwd_done ev res).
Notation ok_for := (ok_for ev res exec).
Notation pending := (pending ev res).
Notation inexec := (inexec ev res).

Ltac inv_step H :=
  unfold SubscriptionLts.step, SubscriptionLts.step_fn, set_fwd in H;
  repeat match type of H with
  | context [match ?x with _ => _ end] => destruct x eqn:?; try discriminate H
  end;
  try discriminate H;
  match type of H with Some _ = Some ?b => (injection H as H; subst b) end.

Ltac red_proj := cbn [srcq inch sclosed fwd buf rclosed out seen_closed stopped cancelled] in *.

(* ---------- runs ---------- *)

Lemma run_app : forall s ls s1 ls' s2, run s ls s1 -> run s1 ls' s2 -> run s (ls ++ ls') s2.
Proof.
  intros s ls s1 ls' s2 R. induction R as [|s l s1 ls s2' Hs R IH]; intros R2; simpl; [exact R2|].
  eapply run_cons; [exact Hs|apply IH; exact R2].
Qed.

Lemma run_snoc : forall s ls s1 l s2, run s ls s1 -> step s1 l s2 -> run s (ls ++ [l]) s2.
Proof.
  intros s ls s1 l s2 R Hs. eapply run_app; [exact R|]. eapply run_cons; [exact Hs|apply run_nil].
Qed.

Lemma reach_refl : forall s, reach s s.
Proof. intros s. exists []. apply run_nil. Qed.

Lemma reach_step : forall s0 s l s', reach s0 s -> step s l s' -> reach s0 s'.
Proof. intros s0 s l s' (ls & R) Hs. exists (ls ++ [l]). eapply run_snoc; eauto. Qed.

Lemma reach_run : forall s0 s ls s', reach s0 s -> run s ls s' -> reach s0 s'.
Proof. intros s0 s ls s' (l0 & R) R2. exists (l0 ++ ls). eapply run_app; eauto. Qed.

(* invariants: anything true initially and preserved by every step holds in every reachable state *)
Lemma reach_ind : forall (P : st -> Prop) s0,
  P s0 -> (forall s l s', P s -> step s l s' -> P s') -> forall s, reach s0 s -> P s.
Proof.
  intros P s0 H0 HS s (ls & R). revert H0. induction R as [|s l s1 ls s2 Hs R IH]; intros H0; [exact H0|].
  apply IH. eapply HS; eauto.
Qed.

Lemma exec_trace_run : forall ls s s', exec_trace ev res exec sel cap s ls = Some s' <-> run s ls s'.
Proof.
  induction ls as [|l ls IH]; intros s s'; simpl.
  - split; intros H; [inversion H; apply run_nil|inversion H; reflexivity].
  - split; intros H.
    + destruct (step_fn s l) as [s1|] eqn:E; [|discriminate]. eapply run_cons; [exact E|]. apply IH. exact H.
    + inversion H as [|? ? s1 ? ? Hs R]; subst. unfold SubscriptionLts.step in Hs. rewrite Hs. apply IH. exact R.
Qed.

Lemma accepts_iff_run : forall s0 ls, accepts ev res exec sel cap s0 ls = true <-> exists s, run s0 ls s.
Proof.
  intros s0 ls. unfold accepts. destruct (exec_trace ev res exec sel cap s0 ls) as [s|] eqn:E.
  - split; [intros _; exists s; apply exec_trace_run; exact E|reflexivity].
  - split; [discriminate|]. intros (s & R). apply exec_trace_run in R. congruence.
Qed.

(* ---------- the measure ---------- *)

Lemma measure_decreases : forall s l s', step s l s' ->
  lib l = true \/ l = LDeliver \/ l = LRecvBuf -> measure s' < measure s.
Proof.
  intros s l s' H L. destruct l; cbn [lib] in L;
    try (exfalso; destruct L as [L|[L|L]]; discriminate L);
    inv_step H; unfold SubscriptionLts.measure; red_proj;
    repeat match goal with E : _ = _ |- _ => rewrite E; clear E end;
    try rewrite app_length; cbn [pc_weight length after_send]; try lia.
  all: try (destruct k; cbn [pc_weight after_send]; lia).
Qed.

Lemma lib_in_labels : forall l, lib l = true -> In l lib_labels.
Proof. intros l H. destruct l; try discriminate H; cbn; tauto. Qed.

Lemma lib_labels_lib : forall l, In l lib_labels -> lib l = true.
Proof. intros l H. unfold lib_labels in H. apply filter_In in H. tauto. Qed.

(* ---------- generic termination argument ---------- *)

Lemma terminates_generic : forall (P goal : st -> Prop) (good : label -> bool),
  (forall s l s', P s -> good l = true -> step s l s' -> P s') ->
  (forall s, P s -> goal s \/ exists l s', good l = true /\ step s l s') ->
  (forall s l s', good l = true -> step s l s' -> measure s' < measure s) ->
  forall s, P s -> exists ls s', run s ls s' /\ Forall (fun l => good l = true) ls /\ goal s'.
Proof.
  intros P goal good Hpres Hprog Hdec.
  assert (G : forall n s, measure s < n -> P s ->
              exists ls s', run s ls s' /\ Forall (fun l => good l = true) ls /\ goal s').
  { induction n as [|n IH]; intros s Hm HP; [lia|].
    destruct (Hprog s HP) as [Hg|(l & s1 & Hl & Hs)].
    - exists [], s. split; [apply run_nil|split; [constructor|exact Hg]].
    - assert (Hm1 : measure s1 < n) by (pose proof (Hdec s l s1 Hl Hs); lia).
      destruct (IH s1 Hm1 (Hpres s l s1 HP Hl Hs)) as (ls & s2 & R & F & Hg).
      exists (l :: ls), s2. split; [eapply run_cons; eauto|split; [constructor; assumption|exact Hg]]. }
  intros s HP. apply (G (S (measure s))); [lia|exact HP].
Qed.

(* no infinite library-only run: the length of a library-only run is bounded by the measure *)
Lemma lib_run_bounded : forall s ls s', run s ls s' -> Forall (fun l => lib l = true) ls ->
  length ls + measure s' <= measure s.
Proof.
  intros s ls s' R. induction R as [|s l s1 ls s2 Hs R IH]; intros F; simpl; [lia|].
  inversion F as [|? ? Hl F']; subst.
  pose proof (measure_decreases s l s1 Hs (or_introl Hl)). specialize (IH F'). lia.
Qed.

(* ---------- invariants common to every mode ---------- *)

(* the one-shot send finds an empty buffer; a finished forwarder has closed the result channel;
   a cancelled context stays cancelled and a closed source stays closed *)
Definition base_inv (s : st) : Prop :=
  (fwd s = POneSend -> buf s = []) /\ (fwd_done s = true -> rclosed s = true).

Lemma base_inv_init : forall f su es, base_inv (init f su es).
Proof. intros f su es. split; [reflexivity|]. destruct f; discriminate. Qed.

Lemma base_inv_step : forall s l s', base_inv s -> step s l s' -> base_inv s'.
Proof.
  intros s l s' (I1 & I2) H. unfold base_inv, SubscriptionLts.fwd_done in *.
  destruct l; inv_step H; red_proj; split; intros X; try discriminate X; auto;
    try (rewrite X in *; discriminate);
    try (apply I2; rewrite X in *; auto; fail); try congruence.
  all: try (destruct k; discriminate X).
  all: try (unfold has_chan in *; rewrite X in *; discriminate).
Qed.

Lemma base_inv_reach : forall f su es s, reach (init f su es) s -> base_inv s.
Proof. intros f su es. apply reach_ind; [apply base_inv_init|]. intros; eapply base_inv_step; eauto. Qed.

Lemma cancelled_mono : forall s l s', step s l s' -> cancelled s = true -> cancelled s' = true.
Proof. intros s l s' H C. destruct l; inv_step H; red_proj; auto. Qed.

Lemma sclosed_mono : forall s l s', step s l s' -> sclosed s = true -> sclosed s' = true.
Proof. intros s l s' H C. destruct l; inv_step H; red_proj; auto; congruence. Qed.

(* ---------- no stuck goroutine after cancellation ---------- *)

Definition all_sel : Prop := forall k, sel k = true.

Lemma lib_enabled_after_cancel : all_sel -> 1 <= cap ->
  forall s, (fwd s = POneSend -> buf s = []) -> cancelled s = true -> fwd_done s = false ->
  exists l s', lib l = true /\ step s l s'.
Proof.
  intros A C s I1 Hc Hd. unfold SubscriptionLts.fwd_done in Hd.
  destruct (fwd s) as [| |su| |e k|v k|w|w] eqn:E; try discriminate Hd.
  - exists LOneSend. unfold SubscriptionLts.step, SubscriptionLts.step_fn, set_fwd. rewrite E, (I1 eq_refl). cbn [length]. destruct (0 <? cap) eqn:L; [|apply Nat.ltb_ge in L; lia].
    eexists. split; reflexivity.
  - exists LOneClose. unfold SubscriptionLts.step, SubscriptionLts.step_fn, set_fwd. rewrite E. eexists. split; reflexivity.
  - exists LSetup. unfold SubscriptionLts.step, SubscriptionLts.step_fn, set_fwd. rewrite E. destruct su; eexists; split; reflexivity.
  - exists LQuitRecv. unfold SubscriptionLts.step, SubscriptionLts.step_fn, set_fwd. rewrite E, Hc. eexists. split; reflexivity.
  - exists LExec. unfold SubscriptionLts.step, SubscriptionLts.step_fn, set_fwd. rewrite E. eexists. split; reflexivity.
  - exists LQuitSend. unfold SubscriptionLts.step, SubscriptionLts.step_fn, set_fwd. rewrite E, Hc, (A k). eexists. split; reflexivity.
  - exists LCloseRes. unfold SubscriptionLts.step, SubscriptionLts.step_fn, set_fwd. rewrite E. eexists. split; reflexivity.
Qed.

Theorem no_stuck_after_cancel : all_sel -> 1 <= cap ->
  forall f su es s, reach (init f su es) s -> cancelled s = true ->
  exists ls s', run s ls s' /\ Forall (fun l => lib l = true) ls /\ fwd_done s' = true /\ rclosed s' = true.
Proof.
  intros A C f su es s R Hc.
  destruct (terminates_generic
              (fun s => base_inv s /\ cancelled s = true)
              (fun s => fwd_done s = true /\ rclosed s = true) lib) with (s := s)
    as (ls & s' & R' & F & G).
  - intros s1 l s2 (I & Hc1) _ Hs. split; [eapply base_inv_step; eauto|eapply cancelled_mono; eauto].
  - intros s1 ((I1 & I2) & Hc1). destruct (fwd_done s1) eqn:D.
    + left. split; [reflexivity|apply I2; reflexivity].
    + right. apply lib_enabled_after_cancel; auto.
  - intros s1 l s2 Hl Hs. eapply measure_decreases; eauto.
  - split; [eapply base_inv_reach; eauto|exact Hc].
  - exists ls, s'. tauto.
Qed.

(* ---------- closing after the source closed, consumer still reading ---------- *)

Definition lib_or_deliver (l : label) : bool := lib l || match l with LDeliver => true | _ => false end.

Theorem closes_after_source_close : 1 <= cap ->
  forall f su es s, reach (init f su es) s -> sclosed s = true -> stopped s = false ->
  exists ls s', run s ls s' /\ Forall (fun l => lib_or_deliver l = true) ls /\ fwd_done s' = true /\ rclosed s' = true.
Proof.
  intros C f su es s R Hc Hst.
  destruct (terminates_generic
              (fun s => base_inv s /\ sclosed s = true /\ stopped s = false)
              (fun s => fwd_done s = true /\ rclosed s = true) lib_or_deliver) with (s := s)
    as (ls & s' & R' & F & G).
  - intros s1 l s2 (I & Hc1 & Hs1) Hl Hs. split; [eapply base_inv_step; eauto|].
    split; [eapply sclosed_mono; eauto|].
    destruct l; try discriminate Hl; inv_step Hs; red_proj; auto.
  - intros s1 ((I1 & I2) & Hc1 & Hs1). destruct (fwd_done s1) eqn:D.
    + left. split; [reflexivity|apply I2; reflexivity].
    + right. unfold SubscriptionLts.fwd_done in D.
      destruct (fwd s1) as [| |su1| |e k|v k|w|w] eqn:E; try discriminate D.
      * exists LOneSend. unfold SubscriptionLts.step, SubscriptionLts.step_fn, set_fwd. rewrite E, (I1 eq_refl). cbn [length]. destruct (0 <? cap) eqn:L; [|apply Nat.ltb_ge in L; lia].
        eexists. split; reflexivity.
      * exists LOneClose. unfold SubscriptionLts.step, SubscriptionLts.step_fn, set_fwd. rewrite E. eexists. split; reflexivity.
      * exists LSetup. unfold SubscriptionLts.step, SubscriptionLts.step_fn, set_fwd. rewrite E. destruct su1; eexists; split; reflexivity.
      * destruct (inch s1) as [|e r] eqn:Ei.
        -- exists LEnd. unfold SubscriptionLts.step, SubscriptionLts.step_fn, set_fwd. rewrite E, Ei, Hc1. eexists. split; reflexivity.
        -- exists LTake. unfold SubscriptionLts.step, SubscriptionLts.step_fn, set_fwd. rewrite E, Ei. eexists. split; reflexivity.
      * exists LExec. unfold SubscriptionLts.step, SubscriptionLts.step_fn, set_fwd. rewrite E. eexists. split; reflexivity.
      * exists LDeliver. unfold SubscriptionLts.step, SubscriptionLts.step_fn, set_fwd. rewrite E, Hs1. eexists. split; reflexivity.
      * exists LCloseRes. unfold SubscriptionLts.step, SubscriptionLts.step_fn, set_fwd. rewrite E. eexists. split; reflexivity.
  - intros s1 l s2 Hl Hs. eapply measure_decreases; eauto. unfold lib_or_deliver in Hl.
    destruct (lib l) eqn:L; [left; reflexivity|]. destruct l; try discriminate Hl. right; left; reflexivity.
  - split; [eapply base_inv_reach; eauto|split; assumption].
  - exists ls, s'. tauto.
Qed.

(* ---------- in-order delivery on the stream path ---------- *)

Definition live (p : pc ev res) : Prop :=
  match p with PClosing ExitCancel | PDone ExitCancel => False | _ => True end.
Definition ended (p : pc ev res) : Prop :=
  match p with PClosing ExitEnd | PDone ExitEnd => True | _ => False end.
Definition stream_pc (p : pc ev res) : Prop :=
  match p with
  | PStart SetChan | PRecv | PExec _ SLoop | PSend _ SLoop => True
  | PClosing w | PDone w => w = ExitEnd \/ w = ExitCancel
  | _ => False
  end.

Definition stream_inv (es : list ev) (s : st) : Prop :=
  buf s = [] /\ stream_pc (fwd s) /\
  (ended (fwd s) -> inch s = [] /\ sclosed s = true) /\
  exists taken rest, es = taken ++ rest /\
    Forall2 ok_for taken (out s ++ pending (fwd s)) /\
    (cancelled s = false -> out s ++ pending (fwd s) = map (fun e => Normal (exec e)) taken) /\
    (live (fwd s) -> rest = inexec (fwd s) ++ inch s ++ srcq s).

Lemma Forall2_snoc : forall A B (R : A -> B -> Prop) l1 l2 a b,
  Forall2 R l1 l2 -> R a b -> Forall2 R (l1 ++ [a]) (l2 ++ [b]).
Proof. intros. apply Forall2_app; [assumption|constructor; [assumption|constructor]]. Qed.

Lemma stream_inv_init : forall es, stream_inv es (init FrontOk SetChan es).
Proof.
  intros es. unfold stream_inv. cbn. repeat split; try tauto.
  exists [], es. cbn. repeat split; auto.
Qed.

Lemma stream_inv_step : forall es s l s', stream_inv es s -> step s l s' -> stream_inv es s'.
Proof.
  intros es s l s' (Ib & Ipc & Iend & taken & rest & Ees & If2 & Inc & Ilive) H.
  unfold stream_inv.
  destruct l; inv_step H; red_proj;
    repeat match goal with
    | E : fwd _ = _ |- _ => rewrite E in *
    end; cbn [stream_pc ended live pending inexec after_send] in *;
    try contradiction.
  (* LCancel *)
  - split; [assumption|]. split; [assumption|]. split; [assumption|]. exists taken, rest. repeat split; auto. intros X; discriminate X.
  (* LEmit *)
  - split; [assumption|]. split; [assumption|]. split.
    + intros X. destruct (Iend X) as (_ & X2). congruence.
    + exists taken, rest. repeat split; auto. intros X. rewrite (Ilive X).
      rewrite <- !app_assoc. reflexivity.
  (* LCloseSrc *)
  - split; [assumption|]. split; [assumption|]. split.
    + intros X. destruct (Iend X) as (X1 & _). split; [exact X1|reflexivity].
    + exists taken, rest. repeat split; auto.
  (* LStop *)
  - split; [assumption|]. split; [assumption|]. split; [assumption|]. exists taken, rest. repeat split; auto.
  (* LDeliver *)
  - destruct k; cbn [stream_pc] in Ipc; try contradiction. cbn [after_send pending stream_pc ended live inexec] in *.
    split; [assumption|]. split; [exact I|]. split; [intros []|].
    exists taken, rest. rewrite app_nil_r. repeat split; auto.
  (* LRecvBuf *)
  - congruence.
  (* LObsClosed *)
  - split; [assumption|]. split; [assumption|]. split; [assumption|]. exists taken, rest. repeat split; auto.
  (* LSetup *)
  - split; [assumption|]. split; [exact I|]. split; [intros []|]. exists taken, rest. repeat split; auto.
  (* LTake *)
  - destruct Ipc. split; [assumption|]. split; [exact I|]. split; [intros []|].
    exists taken, rest. rewrite app_nil_r in *. repeat split; auto.
  (* LEnd *)
  - split; [assumption|]. split; [left; reflexivity|]. split; [intros _; split; reflexivity|].
    exists taken, rest. repeat split; auto.
  (* LQuitRecv *)
  - split; [assumption|]. split; [right; reflexivity|]. split; [intros []|].
    exists taken, rest. repeat split; auto; try (intros []).
  (* LExec *)
  - destruct k; cbn [stream_pc] in Ipc; try contradiction. cbn [pending inexec stream_pc ended live] in *.
    split; [assumption|]. split; [exact I|]. split; [intros []|].
    rewrite app_nil_r in *. specialize (Ilive I). cbn [app] in Ilive. subst rest.
    exists (taken ++ [e]), (inch s ++ srcq s). split; [rewrite <- app_assoc; exact Ees|].
    split; [apply Forall2_snoc; [exact If2|left; reflexivity]|].
    split; [|intros _; reflexivity].
    intros X. rewrite map_app, (Inc X). reflexivity.
  (* LExecCtx *)
  - destruct k; cbn [stream_pc] in Ipc; try contradiction. cbn [pending inexec stream_pc ended live] in *.
    split; [assumption|]. split; [exact I|]. split; [intros []|].
    rewrite app_nil_r in *. specialize (Ilive I). cbn [app] in Ilive. subst rest.
    exists (taken ++ [e]), (inch s ++ srcq s). split; [rewrite <- app_assoc; exact Ees|].
    split; [apply Forall2_snoc; [exact If2|right; reflexivity]|].
    split; [|intros _; reflexivity].
    intros X. congruence.
  (* LQuitSend *)
  - destruct k; cbn [stream_pc] in Ipc; try contradiction. cbn [pending inexec stream_pc ended live] in *.
    split; [assumption|]. split; [right; reflexivity|]. split; [intros []|].
    (* the pending result is dropped *)
    destruct (Forall2_app_inv_r _ _ If2) as (t1 & t2 & F1 & F2 & Et).
    exists t1, (t2 ++ rest). rewrite app_nil_r. split; [subst taken; rewrite app_assoc; exact Ees|].
    split; [exact F1|]. split; [intros X; discriminate X|intros []].
  (* LCloseRes *)
  - split; [assumption|]. split; [exact Ipc|]. split; [exact Iend|].
    exists taken, rest. repeat split; auto.
  (* LOneSend / LOneClose impossible *)
Qed.

Lemma stream_inv_reach : forall es s, reach (init FrontOk SetChan es) s -> stream_inv es s.
Proof. intros es. apply reach_ind; [apply stream_inv_init|]. intros; eapply stream_inv_step; eauto. Qed.


(* ---------- delivery: consequences of the invariant ---------- *)

Lemma Forall2_length_eq : forall A B (R : A -> B -> Prop) l1 l2, Forall2 R l1 l2 -> length l1 = length l2.
Proof. intros A B R l1 l2 F. induction F; simpl; congruence. Qed.

Lemma app_eq_len : forall A (a b c d : list A), a ++ b = c ++ d -> length a = length c -> a = c /\ b = d.
Proof.
  induction a as [|x a IH]; intros b c d E L; destruct c as [|y c]; try discriminate L.
  - split; [reflexivity|exact E].
  - cbn in E, L. inversion E; subst. destruct (IH b c d H1) as (X & Y); [congruence|]. subst. tauto.
Qed.

(* delivered results: one per event, in source order, for a prefix of the events *)
Theorem delivery_prefix : forall es s, reach (init FrontOk SetChan es) s ->
  exists taken rest, es = taken ++ rest /\ Forall2 ok_for taken (out s) /\
    (cancelled s = false -> out s = map (fun e => Normal (exec e)) taken).
Proof.
  intros es s R. destruct (stream_inv_reach es s R) as (_ & _ & _ & taken & rest & Ees & F & Inc & _).
  destruct (Forall2_app_inv_r _ _ F) as (t1 & t2 & F1 & F2 & Et).
  exists t1, (t2 ++ rest). split; [subst taken; rewrite app_assoc; exact Ees|]. split; [exact F1|].
  intros X. specialize (Inc X). subst taken. rewrite map_app in Inc.
  apply app_eq_len in Inc.
  - tauto.
  - rewrite map_length. symmetry. eapply Forall2_length_eq; exact F1.
Qed.

(* complete when the forwarder ended because the source was closed and drained:
   every event the source emitted has its result delivered *)
Theorem delivery_complete : forall es s, reach (init FrontOk SetChan es) s ->
  fwd s = PDone ExitEnd \/ fwd s = PClosing ExitEnd ->
  exists emitted, es = emitted ++ srcq s /\ Forall2 ok_for emitted (out s) /\
    (cancelled s = false -> out s = map (fun e => Normal (exec e)) emitted).
Proof.
  intros es s R E. destruct (stream_inv_reach es s R) as (_ & _ & Iend & taken & rest & Ees & F & Inc & Il).
  assert (P : pending (fwd s) = [] /\ inexec (fwd s) = [] /\ live (fwd s) /\ ended (fwd s))
    by (destruct E as [E|E]; rewrite E; cbn; tauto).
  destruct P as (P1 & P2 & P3 & P4). rewrite P1, app_nil_r in *. destruct (Iend P4) as (Ei & _).
  rewrite (Il P3), P2, Ei in Ees. exists taken. tauto.
Qed.

(* the result channel is closed only by the terminating forwarder, and the consumer sees the close only then *)
Definition close_inv (s : st) : Prop :=
  (rclosed s = true -> fwd_done s = true) /\ (seen_closed s = true -> fwd_done s = true).

Lemma close_inv_reach : forall f su es s, reach (init f su es) s -> close_inv s.
Proof.
  intros f su es. apply reach_ind.
  - split; intros X; discriminate X.
  - intros s l s' (I1 & I2) H. unfold close_inv, SubscriptionLts.fwd_done in *.
    destruct l; inv_step H; red_proj; split; intros X; auto; try discriminate X;
      try (rewrite Heqp in *; auto; fail).
    all: try (apply I1 in Heqb1; rewrite Heqp in Heqb1; discriminate Heqb1).
    all: try (destruct k; cbn [after_send]; auto).
Qed.

(* ---------- requests that fail: exactly one error result, then closed ---------- *)

(* parse / validate failure: sendOneResultAndClose *)
Definition oneshot_inv (s : st) : Prop :=
  match fwd s with
  | POneSend => buf s = [] /\ out s = [] /\ rclosed s = false
  | POneClose => buf s = [ErrRes] /\ out s = [] /\ rclosed s = false
  | PDone ExitOneShot => out s ++ buf s = [ErrRes] /\ rclosed s = true
  | _ => False
  end /\ (seen_closed s = true -> out s = [ErrRes] /\ buf s = []).

Lemma oneshot_inv_reach : forall su es s, reach (init FrontFail su es) s -> oneshot_inv s.
Proof.
  intros su es. apply reach_ind.
  - cbn. repeat split; try discriminate.
  - intros s l s' (I1 & I2) H. unfold oneshot_inv in *.
    destruct l; inv_step H; red_proj; try rewrite Heqp in *; try contradiction;
      try (split; [exact I1|exact I2]).
    + (* LRecvBuf *) destruct (fwd s) as [| |su0| |e0 k0|v0 k0|w|w] eqn:E; try contradiction;
        try (unfold has_chan in *; rewrite E in *; discriminate). destruct w; try contradiction.
      destruct I1 as (I1 & I3).
      split; [split; [rewrite <- app_assoc; exact I1|exact I3]|].
      intros X. destruct (I2 X) as (_ & X2). discriminate X2.
    + (* LObsClosed *) destruct (fwd s) as [| |su0| |e0 k0|v0 k0|w|w] eqn:E; try contradiction;
        try (unfold has_chan in *; rewrite E in *; discriminate). destruct w; try contradiction.
      destruct I1 as (I1 & I3).
      split; [split; [exact I1|reflexivity]|]. rewrite app_nil_r in I1. intros _. split; [exact I1|reflexivity].
    + (* LOneSend *) destruct I1 as (I1 & I3 & I4). rewrite I1. cbn [app].
      split; [repeat split; assumption|]. intros X. destruct (I2 X) as (X1 & _). congruence.
    + (* LOneClose *) destruct I1 as (I1 & I3 & I4). rewrite I1, I3. cbn [app].
      split; [split; reflexivity|]. intros X. destruct (I2 X) as (X1 & _). congruence.
Qed.

(* failure inside the forwarder (no operation, unknown field, Subscribe resolver error or nil result) *)
Definition seterr_inv (s : st) : Prop :=
  buf s = [] /\
  match fwd s with
  | PStart SetErr | PSend ErrRes SErr => out s = []
  | PClosing ExitOnce | PDone ExitOnce => out s = [ErrRes]
  | PClosing ExitCancel | PDone ExitCancel => out s = [] /\ cancelled s = true /\ sel SErr = true
  | _ => False
  end.

Lemma seterr_inv_reach : forall es s, reach (init FrontOk SetErr es) s -> seterr_inv s.
Proof.
  intros es. apply reach_ind.
  - cbn. split; reflexivity.
  - intros s l s' (I1 & I2) H. unfold seterr_inv in *.
    destruct l; inv_step H; red_proj; try rewrite Heqp in *; try contradiction;
      try (split; [exact I1|exact I2]); try congruence.
    + (* LCancel *) split; [exact I1|].
      repeat match goal with |- context [match ?x with _ => _ end] => destruct x end; tauto.
    + (* LDeliver *) destruct v; try contradiction. destruct k; try contradiction.
      cbn [after_send]. rewrite I2. split; [exact I1|reflexivity].
    + (* LQuitSend *) destruct v; try contradiction. destruct k; try contradiction.
      split; [exact I1|]. repeat split; assumption.
Qed.

Theorem one_error_front : forall su es s, reach (init FrontFail su es) s ->
  (exists n, out s = firstn n [ErrRes]) /\ (seen_closed s = true -> out s = [ErrRes]).
Proof.
  intros su es s R. destruct (oneshot_inv_reach su es s R) as (I1 & I2). split; [|intros X; apply I2; exact X].
  destruct (fwd s); try contradiction.
  - exists 0. tauto.
  - exists 0. tauto.
  - destruct w; try contradiction. destruct I1 as (I1 & _).
    destruct (out s) as [|a [|b o]]; [exists 0; reflexivity| |].
    + exists 1. cbn in *. congruence.
    + cbn in I1. inversion I1.
Qed.

Theorem one_error_setup : forall es s, reach (init FrontOk SetErr es) s ->
  (out s = [] \/ out s = [ErrRes]) /\
  (seen_closed s = true -> out s = [ErrRes] \/ (out s = [] /\ cancelled s = true /\ sel SErr = true)).
Proof.
  intros es s R. destruct (seterr_inv_reach es s R) as (I1 & I2).
  destruct (close_inv_reach _ _ _ s R) as (_ & C2). unfold SubscriptionLts.fwd_done in C2.
  split.
  - destruct (fwd s) as [| |su| |e k|v k|w|w]; try contradiction.
    + destruct su; try contradiction. left; exact I2.
    + destruct v; try contradiction. destruct k; try contradiction. left; exact I2.
    + destruct w; try contradiction; tauto.
    + destruct w; try contradiction; tauto.
  - intros X. specialize (C2 X). destruct (fwd s) as [| |su| |e k|v k|w|w]; try discriminate C2.
    destruct w; try contradiction; tauto.
Qed.


(* ---------- the forwarder without a select on a send gets stuck ---------- *)

Definition stuck (s : st) : Prop := cancelled s = true /\ fwd_done s = false /\ ~ lib_enabled s.

(* event loop: take an event, the consumer stops, cancel *)
Theorem stuck_without_loop_select : sel SLoop = false -> forall e,
  exists s, reach (init FrontOk SetChan [e]) s /\ stuck s.
Proof.
  intros Hs e.
  destruct (exec_trace ev res exec sel cap (init FrontOk SetChan [e]) [LSetup; LEmit; LTake; LExec; LStop; LCancel]) as [s|] eqn:E;
    [|discriminate E].
  exists s. split; [exists [LSetup; LEmit; LTake; LExec; LStop; LCancel]; apply exec_trace_run; exact E|].
  cbn in E. inversion E; subst s; clear E. split; [reflexivity|]. split; [reflexivity|].
  intros (l & s' & L & H). unfold SubscriptionLts.step in H.
  destruct l; try discriminate L; cbn in H; try discriminate H. rewrite Hs in H. discriminate H.
Qed.

(* error path: the Subscribe resolver fails, the consumer never reads, cancel *)
Theorem stuck_without_error_select : sel SErr = false -> forall es,
  exists s, reach (init FrontOk SetErr es) s /\ stuck s.
Proof.
  intros Hs es.
  destruct (exec_trace ev res exec sel cap (init FrontOk SetErr es) [LSetup; LStop; LCancel]) as [s|] eqn:E;
    [|discriminate E].
  exists s. split; [exists [LSetup; LStop; LCancel]; apply exec_trace_run; exact E|].
  cbn in E. inversion E; subst s; clear E. split; [reflexivity|]. split; [reflexivity|].
  intros (l & s' & L & H). unfold SubscriptionLts.step in H.
  destruct l; try discriminate L; cbn in H; try discriminate H. rewrite Hs in H. discriminate H.
Qed.

(* the code before fix C15-2: a Subscribe resolver panicking with a non-error value ends the
   goroutine silently, the consumer sees the close without any result and without cancellation *)
Theorem silent_exit_delivers_nothing : forall es,
  exists s, reach (init FrontOk SetSilent es) s /\ seen_closed s = true /\ out s = [] /\ cancelled s = false.
Proof.
  intros es.
  destruct (exec_trace ev res exec sel cap (init FrontOk SetSilent es) [LSetup; LCloseRes; LObsClosed]) as [s|] eqn:E;
    [|discriminate E].
  exists s. split; [exists [LSetup; LCloseRes; LObsClosed]; apply exec_trace_run; exact E|].
  cbn in E. inversion E; subst s; clear E. repeat split; reflexivity.
Qed.

(* a one-shot channel without buffer would block the caller of Subscribe before it returns *)
Theorem stuck_without_buffer : cap = 0 -> forall su es,
  ~ lib_enabled (init FrontFail su es) /\ fwd_done (init FrontFail su es) = false.
Proof.
  intros Hc su es. split; [|reflexivity].
  intros (l & s' & L & H). unfold SubscriptionLts.step in H.
  destruct l; try discriminate L; cbn in H; try discriminate H. rewrite Hc in H. discriminate H.
Qed.


(* ---------- observed traces ---------- *)

Variable res_eqb : res -> res -> bool.
Variable ev_eqb : ev -> ev -> bool.
Hypothesis res_eqb_eq : forall a b, res_eqb a b = true -> a = b.

Notation orun := (orun ev res exec sel cap).
Notation obs_run := (obs_run ev res exec sel cap res_eqb ev_eqb).
Notation lib_closure := (lib_closure ev res exec sel cap res_eqb ev_eqb).
Notation dedup := (dedup ev res res_eqb ev_eqb).

Lemma dres_eqb_eq : forall a b, dres_eqb res res_eqb a b = true -> a = b.
Proof. intros [x| |] [y| |] H; try discriminate H; try reflexivity. cbn in H. f_equal. apply res_eqb_eq. exact H. Qed.

Lemma last_is_sound : forall l v, last_is res res_eqb l v = true -> exists pre, l = pre ++ [v].
Proof.
  intros l v H. unfold last_is in H. destruct (rev l) as [|x r] eqn:E; [discriminate H|].
  apply dres_eqb_eq in H. subst x. exists (rev r). rewrite <- (rev_involutive l), E. reflexivity.
Qed.

Lemma orun_lib_run : forall s ls s1, run s ls s1 -> Forall (fun l => lib l = true) ls ->
  forall os s2, orun s1 os s2 -> orun s os s2.
Proof.
  intros s ls s1 R. induction R as [|s l s1 ls s2' Hs R IH]; intros F os s2 O; [exact O|].
  inversion F as [|? ? Hl F']; subst. eapply or_lib; [exact Hl|exact Hs|]. apply IH; assumption.
Qed.

Lemma orun_is_run : forall s os s', orun s os s' -> exists ls, run s ls s'.
Proof.
  intros s os s' O. induction O as [s|s l s1 os s2 Hl Hs O (ls & R)|s l s1 o os s2 Hs Sh O (ls & R)|s os s2 D O (ls & R)].
  - exists []. apply run_nil.
  - exists (l :: ls). eapply run_cons; eauto.
  - exists (l :: ls). eapply run_cons; eauto.
  - exists ls. exact R.
Qed.

Lemma in_opt_list : forall A (o : option A) x, In x (opt_list o) -> o = Some x.
Proof. intros A [y|] x H; cbn in H; [destruct H as [H|[]]; congruence|contradiction]. Qed.

Lemma dedup_incl : forall l x, In x (dedup l) -> In x l.
Proof.
  induction l as [|y l IH]; intros x H; cbn in H; [exact H|].
  destruct (existsb _ l); [right; apply IH; exact H|].
  destruct H as [H|H]; [left; exact H|right; apply IH; exact H].
Qed.

Lemma lib_closure_sound : forall fuel ss s', In s' (lib_closure fuel ss) ->
  exists s ls, In s ss /\ run s ls s' /\ Forall (fun l => lib l = true) ls.
Proof.
  induction fuel as [|f IH]; intros ss s' H; cbn in H.
  - exists s', []. split; [exact H|split; [apply run_nil|constructor]].
  - apply in_app_or in H. destruct H as [H|H].
    + exists s', []. split; [exact H|split; [apply run_nil|constructor]].
    + destruct (IH _ _ H) as (s1 & ls & I1 & R & F). apply dedup_incl in I1. unfold lib_round in I1.
      apply in_flat_map in I1. destruct I1 as (s & Is & I1). apply in_flat_map in I1. destruct I1 as (l & Il & I1).
      apply in_opt_list in I1. exists s, (l :: ls). split; [exact Is|]. split; [eapply run_cons; [exact I1|exact R]|].
      constructor; [apply lib_labels_lib; exact Il|exact F].
Qed.

Lemma obs_step_sound : forall s o s1, In s1 (obs_step ev res exec sel cap res_eqb s o) ->
  forall os s2, orun s1 os s2 -> orun s (o :: os) s2.
Proof.
  intros s o s1 H os s2 O. destruct o; cbn [obs_step] in H.
  - apply in_opt_list in H. eapply or_vis; [exact H|exact I|exact O].
  - apply in_opt_list in H. eapply or_vis; [exact H|exact I|exact O].
  - apply in_opt_list in H. eapply or_vis; [exact H|exact I|exact O].
  - apply in_opt_list in H. eapply or_vis; [exact H|exact I|exact O].
  - apply filter_In in H. destruct H as (H & L). apply last_is_sound in L. apply in_app_or in H. destruct H as [H|H];
      apply in_opt_list in H; (eapply or_vis; [exact H|exact L|exact O]).
  - apply in_opt_list in H. eapply or_vis; [exact H|exact I|exact O].
  - destruct (fwd_done s) eqn:D; [|contradiction]. destruct H as [H|[]]. subst s1. apply or_quiet; assumption.
Qed.

Theorem obs_run_sound : forall os ss s', In s' (obs_run ss os) -> exists s, In s ss /\ orun s os s'.
Proof.
  induction os as [|o os IH]; intros ss s' H; cbn [SubscriptionLts.obs_run] in H.
  - exists s'. split; [exact H|apply or_nil].
  - destruct (IH _ _ H) as (s1 & I1 & O). unfold obs_after in I1. apply dedup_incl in I1. apply in_flat_map in I1.
    destruct I1 as (sc & Ic & I1). apply dedup_incl in Ic. destruct (lib_closure_sound _ _ _ Ic) as (s & ls & Is & R & F).
    exists s. split; [exact Is|]. eapply orun_lib_run; [exact R|exact F|]. eapply obs_step_sound; eauto.
Qed.

Theorem accepts_obs_sound : forall s0 os, accepts_obs ev res exec sel cap res_eqb ev_eqb s0 os = true ->
  exists s, orun s0 os s.
Proof.
  intros s0 os H. unfold accepts_obs in H. destruct (obs_run [s0] os) as [|s' r] eqn:E; [discriminate H|].
  destruct (obs_run_sound os [s0] s') as (s & Is & O); [rewrite E; left; reflexivity|].
  destruct Is as [Is|[]]. subst s. exists s'. exact O.
Qed.

(* what the consumer has received is exactly the values of the ORecv observations, in order *)
Fixpoint recvd (os : list (obs res)) : list (dres res) :=
  match os with
  | [] => []
  | ORecv v :: r => v :: recvd r
  | _ :: r => recvd r
  end.

Lemma out_lib_step : forall s l s', step s l s' -> lib l = true -> out s' = out s.
Proof. intros s l s' H L. destruct l; try discriminate L; inv_step H; reflexivity. Qed.

Lemma orun_out : forall s os s', orun s os s' -> out s' = out s ++ recvd os.
Proof.
  intros s os s' O. induction O as [s|s l s1 os s2 Hl Hs O IH|s l s1 o os s2 Hs Sh O IH|s os s2 D O IH].
  - cbn. rewrite app_nil_r. reflexivity.
  - rewrite IH. rewrite (out_lib_step _ _ _ Hs Hl). reflexivity.
  - rewrite IH. destruct l, o; cbn in Sh; try contradiction; cbn [recvd];
      try (inv_step Hs; red_proj; reflexivity).
    + destruct Sh as (pre & E). inv_step Hs; red_proj. apply app_inj_tail in E. destruct E as (_ & E). subst.
      rewrite <- app_assoc. reflexivity.
    + destruct Sh as (pre & E). inv_step Hs; red_proj. apply app_inj_tail in E. destruct E as (_ & E). subst.
      rewrite <- app_assoc. reflexivity.
  - exact IH.
Qed.


(* ---------- completeness of the acceptor: every run's visible trace is accepted ---------- *)
Hypothesis res_eqb_refl : forall a, res_eqb a a = true.
Hypothesis ev_eqb_eq : forall a b, ev_eqb a b = true -> a = b.

Lemma list_eqb_eq : forall A (eqb : A -> A -> bool), (forall a b, eqb a b = true -> a = b) ->
  forall x y, list_eqb eqb x y = true -> x = y.
Proof.
  intros A eqb E. induction x as [|a x IH]; destruct y as [|b y]; cbn; intros H; try discriminate H; [reflexivity|].
  apply andb_true_iff in H. destruct H as (H1 & H2). f_equal; [apply E; exact H1|apply IH; exact H2].
Qed.

Lemma site_eqb_eq : forall a b, site_eqb a b = true -> a = b.
Proof. intros [] []; cbn; intros H; try discriminate H; reflexivity. Qed.
Lemma exit_eqb_eq : forall a b, exit_eqb a b = true -> a = b.
Proof. intros [] []; cbn; intros H; try discriminate H; reflexivity. Qed.

Lemma pc_eqb_eq : forall a b, pc_eqb ev res res_eqb ev_eqb a b = true -> a = b.
Proof.
  intros a b H. destruct a as [| |su| |e k|v k|w|w], b as [| |su'| |e' k'|v' k'|w'|w']; cbn in H; try discriminate H; try reflexivity.
  - f_equal. destruct su, su'; cbn in H; try discriminate H; try reflexivity. f_equal. apply ev_eqb_eq. exact H.
  - apply andb_true_iff in H. destruct H as (H1 & H2). f_equal; [apply ev_eqb_eq; exact H1|apply site_eqb_eq; exact H2].
  - apply andb_true_iff in H. destruct H as (H1 & H2). f_equal; [apply dres_eqb_eq; exact H1|apply site_eqb_eq; exact H2].
  - f_equal. apply exit_eqb_eq. exact H.
  - f_equal. apply exit_eqb_eq. exact H.
Qed.

Lemma st_eqb_eq : forall a b, st_eqb ev res res_eqb ev_eqb a b = true -> a = b.
Proof.
  intros [a1 a2 a3 a4 a5 a6 a7 a8 a9 a10] [b1 b2 b3 b4 b5 b6 b7 b8 b9 b10] H. unfold st_eqb in H. cbn [srcq inch sclosed fwd buf rclosed out seen_closed stopped cancelled] in H.
  repeat (apply andb_true_iff in H; let H' := fresh "E" in destruct H as (H & H')).
  apply (list_eqb_eq _ _ ev_eqb_eq) in H. apply (list_eqb_eq _ _ ev_eqb_eq) in E7.
  apply eqb_prop in E6. apply pc_eqb_eq in E5. apply (list_eqb_eq _ _ dres_eqb_eq) in E4. apply eqb_prop in E3.
  apply (list_eqb_eq _ _ dres_eqb_eq) in E2. apply eqb_prop in E1. apply eqb_prop in E0. apply eqb_prop in E.
  subst. reflexivity.
Qed.

Lemma dedup_complete : forall l x, In x l -> In x (dedup l).
Proof.
  induction l as [|y l IH]; intros x H; [contradiction|]. cbn.
  destruct (existsb (st_eqb ev res res_eqb ev_eqb y) l) eqn:E.
  - destruct H as [H|H]; [|apply IH; exact H]. subst y. apply existsb_exists in E. destruct E as (z & Iz & Ez).
    apply st_eqb_eq in Ez. subst z. apply IH. exact Iz.
  - destruct H as [H|H]; [left; exact H|right; apply IH; exact H].
Qed.

Lemma in_opt_list_intro : forall A (o : option A) x, o = Some x -> In x (opt_list o).
Proof. intros A o x H. subst o. left. reflexivity. Qed.

Lemma lib_closure_complete : forall ls fuel ss s s', In s ss -> run s ls s' -> Forall (fun l => lib l = true) ls ->
  length ls <= fuel -> In s' (lib_closure fuel ss).
Proof.
  induction ls as [|l ls IH]; intros fuel ss s s' Is R F L.
  - inversion R; subst. destruct fuel; cbn; [exact Is|apply in_or_app; left; exact Is].
  - inversion R as [|? ? s1 ? ? Hs R']; subst. inversion F as [|? ? Hl F']; subst.
    destruct fuel as [|f]; [cbn in L; lia|]. cbn [SubscriptionLts.lib_closure]. apply in_or_app. right.
    apply (IH f _ s1 s'); [|exact R'|exact F'|cbn in L; lia].
    apply dedup_complete. unfold lib_round. apply in_flat_map. exists s. split; [exact Is|].
    apply in_flat_map. exists l. split; [apply lib_in_labels; exact Hl|apply in_opt_list_intro; exact Hs].
Qed.

Lemma closure_fuel_bound : forall ss s, In s ss -> measure s < closure_fuel ev res ss.
Proof.
  intros ss s I. unfold closure_fuel. apply Nat.lt_succ_r.
  induction ss as [|y ss IH]; [contradiction|]. cbn [fold_right]. destruct I as [I|I]; [subst y; apply Nat.le_max_l|].
  eapply Nat.le_trans; [apply IH; exact I|apply Nat.le_max_r].
Qed.

(* s is reachable from the set by library steps alone *)
Definition covers (ss : list st) (s : st) : Prop :=
  exists s0 ls, In s0 ss /\ run s0 ls s /\ Forall (fun l => lib l = true) ls.

Lemma covers_in_closure : forall ss s, covers ss s -> In s (dedup (lib_closure (closure_fuel ev res ss) ss)).
Proof.
  intros ss s (s0 & ls & I0 & R & F). apply dedup_complete. apply (lib_closure_complete ls _ ss s0 s I0 R F).
  pose proof (lib_run_bounded s0 ls s R F). pose proof (closure_fuel_bound ss s0 I0). lia.
Qed.

Lemma last_is_complete : forall pre v, last_is res res_eqb (pre ++ [v]) v = true.
Proof.
  intros pre v. unfold last_is. rewrite rev_app_distr. cbn. destruct v; cbn; [apply res_eqb_refl|reflexivity|reflexivity].
Qed.

Lemma obs_step_complete : forall s l s1 o, step s l s1 -> shows ev res l s1 o ->
  In s1 (obs_step ev res exec sel cap res_eqb s o).
Proof.
  intros s l s1 o Hs Sh. unfold SubscriptionLts.step in Hs.
  destruct l, o; cbn in Sh; try contradiction; cbn [obs_step];
    try (apply in_opt_list_intro; exact Hs).
  - destruct Sh as (pre & E). apply filter_In. split; [apply in_or_app; left; apply in_opt_list_intro; exact Hs|].
    rewrite E. apply last_is_complete.
  - destruct Sh as (pre & E). apply filter_In. split; [apply in_or_app; right; apply in_opt_list_intro; exact Hs|].
    rewrite E. apply last_is_complete.
Qed.

Lemma orun_covers : forall s os s2, orun s os s2 -> forall ss, covers ss s -> covers (obs_run ss os) s2.
Proof.
  intros s os s2 O. induction O as [s|s l s1 os s2 Hl Hs O IH|s l s1 o os s2 Hs Sh O IH|s os s2 D O IH]; intros ss C.
  - exact C.
  - apply IH. destruct C as (s0 & ls & I0 & R & F). exists s0, (ls ++ [l]). split; [exact I0|].
    split; [eapply run_snoc; eauto|apply Forall_app; split; [exact F|constructor; [exact Hl|constructor]]].
  - cbn [SubscriptionLts.obs_run]. apply IH. exists s1, []. split; [|split; [apply run_nil|constructor]].
    unfold obs_after. apply dedup_complete. apply in_flat_map. exists s. split; [apply covers_in_closure; exact C|].
    eapply obs_step_complete; eauto.
  - cbn [SubscriptionLts.obs_run]. apply IH. exists s, []. split; [|split; [apply run_nil|constructor]].
    unfold obs_after. apply dedup_complete. apply in_flat_map. exists s. split; [apply covers_in_closure; exact C|].
    cbn [obs_step]. rewrite D. left. reflexivity.
Qed.

Theorem accepts_obs_complete : forall s0 os s, orun s0 os s -> accepts_obs ev res exec sel cap res_eqb ev_eqb s0 os = true.
Proof.
  intros s0 os s O. unfold accepts_obs.
  destruct (orun_covers s0 os s O [s0]) as (x & ls & Ix & _).
  - exists s0, []. split; [left; reflexivity|split; [apply run_nil|constructor]].
  - destruct (obs_run [s0] os); [contradiction|reflexivity].
Qed.

End Proofs.
