(* sameArguments is symmetric when argument names are unique (UniqueArgumentNames), so on
   such documents the two-field test of the code (base_ok) equals its symmetric closure
   (base2) that the decomposition theorem is stated with. *)
From Coq Require Import List Arith Lia Bool String NArith ZArith.
From GQL Require Import Exec.Syntax Validate.Overlap Validate.OverlapSpec.
Import ListNotations.
Open Scope string_scope.
Open Scope list_scope.

Section ValInd.
Variable P : value -> Prop.
Hypothesis Hvar : forall n, P (VVar n).
Hypothesis Hint : forall z, P (VInt z).
Hypothesis Hfloat : forall n d, P (VFloat n d).
Hypothesis Hstr : forall s, P (VStr s).
Hypothesis Hbool : forall b, P (VBool b).
Hypothesis Henum : forall n, P (VEnum n).
Hypothesis Hlist : forall l, Forall P l -> P (VList l).
Hypothesis Hobj : forall l, Forall (fun p => P (snd p)) l -> P (VObj l).
Fixpoint value_ind' (v : value) : P v :=
  match v with
  | VVar n => Hvar n
  | VInt z => Hint z
  | VFloat n d => Hfloat n d
  | VStr s => Hstr s
  | VBool b => Hbool b
  | VEnum n => Henum n
  | VList l =>
    Hlist l ((fix go (l : list value) : Forall P l :=
                match l with [] => Forall_nil P | x :: r => Forall_cons x (value_ind' x) (go r) end) l)
  | VObj l =>
    Hobj l ((fix go (l : list (name * value)) : Forall (fun p => P (snd p)) l :=
               match l with [] => Forall_nil _ | x :: r => Forall_cons x (value_ind' (snd x)) (go r) end) l)
  end.
End ValInd.

Lemma value_eqb_sym : forall a b, value_eqb a b = value_eqb b a.
Proof.
  induction a as [n|z|n d|s|b0|n|l IH|l IH] using value_ind'; destruct b as [n'|z'|n' d'|s'|b'|n'|l'|l'];
    simpl; try reflexivity.
  - apply String.eqb_sym.
  - apply Z.eqb_sym.
  - rewrite Z.eqb_sym, Pos.eqb_sym. reflexivity.
  - apply String.eqb_sym.
  - destruct b0, b'; reflexivity.
  - apply String.eqb_sym.
  - revert l'. induction l as [|x r IHr]; destruct l' as [|y r']; try reflexivity.
    inversion IH as [|? ? Hx Hr]; subst. rewrite (Hx y), (IHr Hr r'). reflexivity.
  - revert l'. induction l as [|[k x] r IHr]; destruct l' as [|[k' y] r']; try reflexivity.
    inversion IH as [|? ? Hx Hr]; subst. simpl in Hx.
    rewrite (String.eqb_sym k k'), (Hx y), (IHr Hr r'). reflexivity.
Qed.

Lemma find_arg_in : forall n l v, find_arg n l = Some v -> In (n, v) l.
Proof.
  intros n l. induction l as [|[k x] r IH]; simpl; intros v H; [discriminate|].
  destruct (String.eqb n k) eqn:E.
  - apply String.eqb_eq in E. inversion H; subst. left. reflexivity.
  - right. apply IH. exact H.
Qed.

Lemma find_arg_nodup : forall n v l, NoDup (map fst l) -> In (n, v) l -> find_arg n l = Some v.
Proof.
  intros n v l. induction l as [|[k x] r IH]; simpl; intros ND H; [destruct H|].
  inversion ND as [|? ? Hk ND']; subst. destruct H as [H|H].
  - inversion H; subst. rewrite String.eqb_refl. reflexivity.
  - destruct (String.eqb n k) eqn:E.
    + apply String.eqb_eq in E. subst k. exfalso. apply Hk. apply in_map_iff. exists (n, v). auto.
    + apply IH; assumption.
Qed.

Definition args_le (a b : list (name * value)) : Prop :=
  forall n v, In (n, v) a -> exists v', find_arg n b = Some v' /\ value_eqb v v' = true.

Lemma same_args_spec : forall a b,
  same_args a b = true <-> (List.length a = List.length b /\ args_le a b).
Proof.
  intros a b. unfold same_args. rewrite andb_true_iff, Nat.eqb_eq, forallb_forall. split.
  - intros [L H]. split; [exact L|]. intros n v Hin. specialize (H (n, v) Hin). simpl in H.
    destruct (find_arg n b) as [v'|]; [|discriminate]. exists v'. auto.
  - intros [L H]. split; [exact L|]. intros [n v] Hin. simpl. destruct (H n v Hin) as [v' [E1 E2]].
    rewrite E1. exact E2.
Qed.

Lemma same_args_sym_imp : forall a b,
  NoDup (map fst a) -> NoDup (map fst b) -> same_args a b = true -> same_args b a = true.
Proof.
  intros a b NDa NDb H. apply same_args_spec in H. destruct H as [L H]. apply same_args_spec.
  split; [symmetry; exact L|].
  (* names of a are among the names of b, both duplicate free and of equal length: also the converse *)
  assert (I1 : incl (map fst a) (map fst b)).
  { intros n Hn. apply in_map_iff in Hn. destruct Hn as [[n' v] [E Hin]]. simpl in E. subst n'.
    destruct (H n v Hin) as [v' [E1 _]]. apply find_arg_in in E1.
    apply in_map_iff. exists (n, v'). auto. }
  assert (I2 : incl (map fst b) (map fst a)).
  { apply NoDup_length_incl; [exact NDa | rewrite !map_length; lia | exact I1]. }
  intros n v Hin.
  assert (Hn : In n (map fst a)). { apply I2. apply in_map_iff. exists (n, v). auto. }
  apply in_map_iff in Hn. destruct Hn as [[n' w] [E Hw]]. simpl in E. subst n'.
  destruct (H n w Hw) as [v' [E1 E2]].
  rewrite (find_arg_nodup n v b NDb Hin) in E1. inversion E1; subst v'.
  exists w. split; [apply find_arg_nodup; assumption | rewrite value_eqb_sym; exact E2].
Qed.

Lemma same_args_sym : forall a b,
  NoDup (map fst a) -> NoDup (map fst b) -> same_args a b = same_args b a.
Proof.
  intros a b NDa NDb. destruct (same_args a b) eqn:E1; destruct (same_args b a) eqn:E2; try reflexivity.
  - rewrite (same_args_sym_imp a b NDa NDb E1) in E2. discriminate.
  - rewrite (same_args_sym_imp b a NDb NDa E2) in E1. discriminate.
Qed.

Lemma types_conflict_sym : forall S a b, types_conflict S a b = types_conflict S b a.
Proof.
  intros S. induction a as [n|a IH|a IH]; destruct b as [m|b|b]; simpl; try reflexivity.
  - rewrite (orb_comm (is_leaf S n)), (String.eqb_sym n m). reflexivity.
  - apply IH.
  - apply IH.
Qed.

(* on fields whose argument names are unique the code's test is its symmetric closure *)
Theorem base_ok_is_base2 : forall S ex a b,
  NoDup (map fst (fe_args a)) -> NoDup (map fst (fe_args b)) ->
  base_ok S ex a b = base2 S ex a b.
Proof.
  intros S ex a b NDa NDb. unfold base2.
  assert (E : base_ok S ex b a = base_ok S ex a b).
  { unfold base_ok. rewrite (String.eqb_sym (fe_name b)), (same_args_sym _ _ NDb NDa).
    f_equal. f_equal. unfold ty_conflict. destruct (fe_ty a), (fe_ty b); try reflexivity.
    apply types_conflict_sym. }
  rewrite E. destruct (base_ok S ex a b); reflexivity.
Qed.
