(* The planned executor (Exec/PlanExec.v: PlanQuery once, ExecutePlan many times) refines the reference
   executor (Exec/Exec.v + Exec/Request.v: CollectFields at every object value).

   Shape of the proof: [wf_plan] says what the walker relies on (a static level holds the groups
   CollectFields yields for *every* variable assignment; the sub-plan of a field is a well-formed plan
   for the field's merged sub-selections under the return type -- for an abstract return type, under
   every runtime type).  [plan_of_wf]: the planner only builds well-formed plans.  [sim_all]: one
   induction on the walker's fuel, the four mutually recursive functions in lock-step with the
   reference executor, which gets [pf] more fuel (the plan-time collections were run with at most [pf]). *)
From Coq Require Import List ZArith NArith String Bool Lia.
From GQL Require Import Exec.Syntax Exec.Coerce Exec.Exec Exec.PlanCollect Exec.Request Exec.PlanExec
     Proofs.PlanCollectProofs.
From GQL Require Proofs.TotalDethunk.
Import ListNotations.
Open Scope string_scope.
Open Scope list_scope.

(* ---- all-literal arguments coerce the same with and without a variables map ---- *)
Lemma args_novars_lookup : forall (l : list (name * value)) k x,
  args_have_vars l = false -> alookup k l = Some x -> has_vars x = false.
Proof.
  induction l as [|[k' v] r IH]; intros k x H Hx; [discriminate|].
  cbn [args_have_vars] in H. apply orb_false_iff in H. destruct H as [H1 H2].
  cbn [alookup] in Hx. destruct (String.eqb k k').
  - inversion Hx; subst. exact H1.
  - eapply IH; eassumption.
Qed.

Lemma get_argument_values_novars : forall fuel S defs fargs vars,
  args_have_vars fargs = false ->
  get_argument_values fuel S defs fargs None = get_argument_values fuel S defs fargs (Some vars).
Proof.
  intros fuel S defs fargs vars H. unfold get_argument_values.
  match goal with
  | |- match omap ?f _ with _ => _ end = match omap ?g _ with _ => _ end =>
    rewrite (omap_ext_in f g defs); [reflexivity|]
  end.
  intros a _. cbn beta.
  rewrite (value_from_ast_novars fuel S (a_type a) (alookup (a_name a) fargs) vars); [reflexivity|].
  intros x Hx. eapply args_novars_lookup; eassumption.
Qed.

(* ---- the planner builds well-formed plans ---- *)
Lemma plan_args_wf : forall pf S k defs fargs ap,
  k <= pf -> plan_args k S defs fargs = Some ap -> wf_args pf S defs fargs ap.
Proof.
  intros pf S k defs fargs ap Hle H. unfold plan_args in H.
  destruct (args_have_vars fargs) eqn:Ev.
  - inversion H; subst. constructor.
  - destruct (get_argument_values k S defs fargs None) as [a|] eqn:Eg; [|discriminate].
    inversion H; subst. constructor. intro vars.
    eapply TotalDethunk.get_argument_values_fuel_mono; [|exact Hle].
    rewrite <- (get_argument_values_novars k S defs fargs vars Ev). exact Eg.
Qed.

Lemma plan_sub_wf : forall pf S D rec t occs sub,
  (forall o sets pl, rec o sets = Some pl -> wf_plan pf S D o sets pl) ->
  plan_sub S rec t occs = Some sub -> wf_sub pf S D (named_of t) occs sub.
Proof.
  intros pf S D rec t occs sub Hrec H. unfold plan_sub in H.
  destruct (type_kind S (named_of t)) eqn:Ek.
  - destruct (rec (named_of t) (map oc_sub occs)) as [pl|] eqn:Er; [|discriminate].
    inversion H; subst. apply wf_sub_object; [exact Ek|]. apply Hrec. exact Er.
  - inversion H; subst. apply wf_sub_abstract; [exact Ek|].
    intros rt pl Hr. apply Hrec. exact Hr.
  - apply wf_sub_other. exact Ek.
Qed.

Lemma plan_field_wf : forall pf S D k obj rec key occs f,
  (forall o sets pl, rec o sets = Some pl -> wf_plan pf S D o sets pl) -> k <= pf ->
  plan_field k S obj rec (key, occs) = Some f -> wf_field pf S D obj key occs f.
Proof.
  intros pf S D k obj rec key occs f Hrec Hle H. unfold plan_field in H.
  destruct (find_field _ (object_fields S obj)) as [fd|] eqn:Ef.
  - destruct (plan_args k S (f_args fd) _) as [ap|] eqn:Ea; [|discriminate].
    destruct (plan_sub S rec (f_type fd) occs) as [sub|] eqn:Es; [|discriminate].
    inversion H; subst. apply wf_field_known; [exact Ef| |].
    + eapply plan_args_wf; eassumption.
    + eapply plan_sub_wf; eassumption.
  - inversion H; subst. apply wf_field_unknown. exact Ef.
Qed.

Lemma plan_fields_wf_gen : forall pf S D k obj rec,
  (forall o sets pl, rec o sets = Some pl -> wf_plan pf S D o sets pl) -> k <= pf ->
  forall g fs, omap (plan_field k S obj rec) g = Some fs -> wf_fields pf S D obj g fs.
Proof.
  intros pf S D k obj rec Hrec Hle. induction g as [|[key occs] g IH]; intros fs H; cbn [omap] in H.
  - inversion H. constructor.
  - destruct (plan_field k S obj rec (key, occs)) as [f|] eqn:Ef; [|discriminate].
    destruct (omap (plan_field k S obj rec) g) as [fs'|] eqn:Eo; [|discriminate].
    inversion H; subst. constructor; [|apply IH; reflexivity].
    eapply plan_field_wf; eassumption.
Qed.

Lemma plan_of_wf : forall pf S D k, k <= pf ->
  forall obj sets pl, plan_of k S D obj sets = Some pl -> wf_plan pf S D obj sets pl.
Proof.
  intros pf S D. induction k as [|k IH]; intros Hle obj sets pl H; [discriminate|].
  cbn [plan_of] in H.
  destruct (plan_all k S D obj sets [] [] false) as [[[g v] [|]]|] eqn:E; [| |discriminate].
  - inversion H; subst. constructor.
  - destruct (omap (plan_field k S obj (plan_of k S D)) g) as [fs|] eqn:Eo; [|discriminate].
    inversion H; subst. apply wf_static with (g := g).
    + intro vars. eapply TotalDethunk.collect_all_fuel_mono_l; [|apply Nat.lt_le_incl; exact Hle].
      eapply plan_all_static. exact E.
    + eapply plan_fields_wf_gen; [|apply Nat.lt_le_incl; exact Hle|exact Eo].
      intros o sets' pl' Hp. eapply IH; [lia|exact Hp].
Qed.

Lemma plan_fields_wf : forall pf S D obj g fs,
  plan_fields pf S D obj g = Some fs -> wf_fields pf S D obj g fs.
Proof.
  intros pf S D obj g fs H. unfold plan_fields in H.
  eapply plan_fields_wf_gen; [|apply le_n|exact H].
  intros o sets pl Hp. eapply plan_of_wf; [apply le_n|exact Hp].
Qed.

Lemma wf_field_key : forall pf S D obj k occs f, wf_field pf S D obj k occs f -> pf_key f = k.
Proof. intros pf S D obj k occs f H. inversion H; reflexivity. Qed.

(* ---- the simulation ---- *)
Section Sim.
  Variables (pf : nat) (E : env).
  Local Notation qwf' := (qwf pf (en_S E) (en_D E)).
  Local Notation wf_sub' := (wf_sub pf (en_S E) (en_D E)).
  Local Notation wf_plan' := (wf_plan pf (en_S E) (en_D E)).
  Local Notation wf_fields' := (wf_fields pf (en_S E) (en_D E)).
  Local Notation wf_field' := (wf_field pf (en_S E) (en_D E)).

  Definition efields (l : list (name * qresp)) : list (name * presp) :=
    map (fun kv => (fst kv, erase (snd kv))) l.

  (* a finished step of the walker is the step of the reference executor; unfinished: no claim *)
  Definition sim1 (r : xres qresp) (r' : xres presp) : Prop :=
    match r with
    | XOk q s => r' = XOk (erase q) s /\ qwf' q
    | XRaise e s => r' = XRaise e s
    | XFuel => True
    end.
  Definition simL (r : xres (list qresp)) (r' : xres (list presp)) : Prop :=
    match r with
    | XOk l s => r' = XOk (map erase l) s /\ Forall qwf' l
    | XRaise e s => r' = XRaise e s
    | XFuel => True
    end.
  Definition simF (r : xres (list (name * qresp))) (r' : xres (list (name * presp))) : Prop :=
    match r with
    | XOk l s => r' = XOk (efields l) s /\ Forall (fun kv : name * qresp => qwf' (snd kv)) l
    | XRaise e s => r' = XRaise e s
    | XFuel => True
    end.
  Definition simO (r : xres (option qresp)) (r' : xres (option presp)) : Prop :=
    match r with
    | XOk (Some q) s => r' = XOk (Some (erase q)) s /\ qwf' q
    | XOk None s => r' = XOk None s
    | XRaise e s => r' = XRaise e s
    | XFuel => True
    end.

  Lemma sim_catch : forall t r r', sim1 r r' -> sim1 (pcatch_at t r) (catch_at t r').
  Proof.
    intros t r r' H. destruct r as [q s|e s|]; cbn [sim1 pcatch_at] in *.
    - destruct H as [-> Hq]. cbn [catch_at]. split; [reflexivity|exact Hq].
    - subst r'. cbn [catch_at]. destruct (is_nonnull t); cbn [sim1 erase].
      + reflexivity.
      + split; [reflexivity|constructor].
    - exact I.
  Qed.

  Lemma pitems_sim : forall cmp cmp',
    (forall i x s, sim1 (cmp i x s) (cmp' i x s)) ->
    forall l i s, simL (pitems_loop cmp l i s) (items_loop cmp' l i s).
  Proof.
    intros cmp cmp' H. induction l as [|x r IH]; intros i s; cbn [pitems_loop items_loop].
    - cbn [simL map]. split; [reflexivity|constructor].
    - specialize (H i x s). destruct (cmp i x s) as [y sy|e sy|]; cbn [sim1] in H.
      + destruct H as [-> Hy]. specialize (IH (i + 1)%N sy).
        destruct (pitems_loop cmp r (i + 1)%N sy) as [ys sys|e sys|]; cbn [simL] in IH |- *.
        * destruct IH as [-> Hys]. cbn [map]. split; [reflexivity|constructor; assumption].
        * rewrite IH. reflexivity.
        * exact I.
      + rewrite H. reflexivity.
      + exact I.
  Qed.

  Lemma pdethunk_list_sim : forall f f',
    (forall q s, qwf' q -> sim1 (f q s) (f' (erase q) s)) ->
    forall l s, Forall qwf' l -> simL (pdethunk_list f l s) (dethunk_list f' (map erase l) s).
  Proof.
    intros f f' H. induction l as [|x r IH]; intros s Hl; cbn [pdethunk_list dethunk_list map].
    - cbn [simL map]. split; [reflexivity|constructor].
    - inversion Hl as [|? ? Hx Hr]; subst.
      specialize (H x s Hx). destruct (f x s) as [y sy|e sy|]; cbn [sim1] in H.
      + destruct H as [-> Hy]. specialize (IH sy Hr).
        destruct (pdethunk_list f r sy) as [ys sys|e sys|]; cbn [simL] in IH |- *.
        * destruct IH as [-> Hys]. cbn [map]. split; [reflexivity|constructor; assumption].
        * rewrite IH. reflexivity.
        * exact I.
      + rewrite H. reflexivity.
      + exact I.
  Qed.

  Lemma pdethunk_fields_sim : forall f f',
    (forall q s, qwf' q -> sim1 (f q s) (f' (erase q) s)) ->
    forall l s, Forall (fun kv : name * qresp => qwf' (snd kv)) l ->
    simF (pdethunk_fields f l s) (dethunk_fields f' (efields l) s).
  Proof.
    intros f f' H. induction l as [|[k x] r IH]; intros s Hl;
      cbn [pdethunk_fields dethunk_fields efields map fst snd].
    - cbn [simF efields map]. split; [reflexivity|constructor].
    - inversion Hl as [|? ? Hx Hr]; subst. cbn [snd] in Hx.
      specialize (H x s Hx). destruct (f x s) as [y sy|e sy|]; cbn [sim1] in H.
      + destruct H as [-> Hy]. specialize (IH sy Hr). fold (efields r).
        destruct (pdethunk_fields f r sy) as [ys sys|e sys|]; cbn [simF] in IH |- *.
        * destruct IH as [-> Hys]. cbn [efields map fst snd]. split; [reflexivity|constructor; assumption].
        * rewrite IH. reflexivity.
        * exact I.
      + rewrite H. reflexivity.
      + exact I.
  Qed.

  (* arguments: coerced at plan time (all literals) or per request, the resolver receives the same *)
  Lemma args_sim : forall n m defs fargs ap a,
    wf_args pf (en_S E) defs fargs ap -> n <= m -> pf <= m ->
    match ap with
    | ArgStatic a => Some a
    | ArgDynamic => get_argument_values n (en_S E) defs fargs (Some (en_vars E))
    end = Some a ->
    get_argument_values m (en_S E) defs fargs (Some (en_vars E)) = Some a.
  Proof.
    intros n m defs fargs ap a Hwf Hn Hp H. inversion Hwf as [|a0 Ha]; subst.
    - eapply TotalDethunk.get_argument_values_fuel_mono; eassumption.
    - inversion H; subst. eapply TotalDethunk.get_argument_values_fuel_mono; [apply Ha|exact Hp].
  Qed.

  (* the value of a field: deferred, or completed now *)
  Lemma field_value_sim : forall (b thunked : bool) t nodes occs sub fp o s2 c0 c0',
    wf_sub' (named_of t) occs sub -> sim1 c0 c0' ->
    sim1 (if b then XOk (PQThunk t nodes occs sub fp o) s2
          else match c0 with
               | XRaise e s' => if thunked then XRaise e (set_escape s') else c0
               | _ => c0
               end)
         (if b then XOk (QThunk t nodes occs fp o) s2
          else match c0' with
               | XRaise e s' => if thunked then XRaise e (set_escape s') else c0'
               | _ => c0'
               end).
  Proof.
    intros b thunked t nodes occs sub fp o s2 c0 c0' Hsub H. destruct b.
    - cbn [sim1 erase]. split; [reflexivity|constructor; exact Hsub].
    - destruct c0 as [q s|e s|]; cbn [sim1] in H |- *.
      + destruct H as [-> Hq]. split; [reflexivity|exact Hq].
      + subst c0'. destruct thunked; reflexivity.
      + exact I.
  Qed.

  Lemma field_tail_sim : forall (b : bool) t dth dth' r1 r1',
    (forall q s, qwf' q -> sim1 (dth q s) (dth' (erase q) s)) ->
    sim1 r1 r1' ->
    simO (match pcatch_at t r1 with
          | XOk y s' =>
            if b then match dth y s' with
                      | XOk y' s'' => XOk (Some y') s''
                      | XRaise e s'' => XRaise e s''
                      | XFuel => XFuel
                      end
            else XOk (Some y) s'
          | XRaise e s' => XRaise e s'
          | XFuel => XFuel
          end)
         (match catch_at t r1' with
          | XOk y s' =>
            if b then match dth' y s' with
                      | XOk y' s'' => XOk (Some y') s''
                      | XRaise e s'' => XRaise e s''
                      | XFuel => XFuel
                      end
            else XOk (Some y) s'
          | XRaise e s' => XRaise e s'
          | XFuel => XFuel
          end).
  Proof.
    intros b t dth dth' r1 r1' Hd H. apply (sim_catch t) in H.
    destruct (pcatch_at t r1) as [y sy|e sy|]; cbn [sim1] in H.
    - destruct H as [-> Hy]. destruct b.
      + specialize (Hd y sy Hy). destruct (dth y sy) as [y' sy'|e sy'|]; cbn [sim1] in Hd; cbn [simO].
        * destruct Hd as [-> Hy']. split; [reflexivity|exact Hy'].
        * rewrite Hd. reflexivity.
        * exact I.
      + cbn [simO]. split; [reflexivity|exact Hy].
    - rewrite H. reflexivity.
    - exact I.
  Qed.

  Lemma pexec_field_sim : forall n m cmp cmp' dth dth' obj src k occs f p s,
    n <= m -> pf <= m ->
    wf_field' obj k occs f ->
    (forall t nodes sub fpath p v s, wf_sub' (named_of t) occs sub ->
       sim1 (cmp t nodes occs sub fpath p v s) (cmp' t nodes occs fpath p v s)) ->
    (forall q s, qwf' q -> sim1 (dth q s) (dth' (erase q) s)) ->
    simO (pexec_field n cmp dth E obj src f p s) (Exec.exec_field m cmp' dth' E obj src k occs p s).
  Proof.
    intros n m cmp cmp' dth dth' obj src k occs f p s Hn Hp Hwf Hcmp Hdth.
    inversion Hwf as [? ? ? ap sub Hff|? ? ? fd ap sub Hff Hargs Hsub]; subst;
      unfold pexec_field, Exec.exec_field; cbv zeta.
    - destruct (String.eqb _ "__typename").
      + cbn [simO erase]. split; [reflexivity|constructor].
      + rewrite Hff. reflexivity.
    - destruct (String.eqb _ "__typename").
      + cbn [simO erase]. split; [reflexivity|constructor].
      + rewrite Hff.
        match goal with
        | |- simO (match ?oa with _ => _ end) _ => destruct oa as [a|] eqn:Ea; [|exact I]
        end.
        rewrite (args_sim _ _ _ _ _ _ Hargs Hn Hp Ea).
        destruct (match en_or E (p ++ [PKey k]) with
                  | Some o => force o
                  | None => (OVal RNull, false)
                  end) as [o' th].
        apply field_tail_sim; [exact Hdth|]. apply field_value_sim; [exact Hsub|].
        destruct o' as [v| |v| | | |o'']; try reflexivity. apply Hcmp. exact Hsub.
  Qed.

  (* the fields of a level: planned, or collected now -- CollectFields of the merged sets either way *)
  Lemma level_fields_sim : forall cf obj sets pl fs,
    wf_plan' obj sets pl -> level_fields pf cf E obj pl = Some fs ->
    exists g, collect_all (cf + pf) (en_S E) (en_D E) (en_vars E) obj sets [] [] = Some g /\
              wf_fields' obj g fs.
  Proof.
    intros cf obj sets pl fs Hwf H. inversion Hwf as [|? ? g fs0 Hg Hfs]; subst; cbn [level_fields] in H.
    - destruct (collect_all cf (en_S E) (en_D E) (en_vars E) obj sets [] []) as [g|] eqn:Ec; [|discriminate].
      exists g. split.
      + eapply TotalDethunk.collect_all_fuel_mono_l; [exact Ec|lia].
      + apply plan_fields_wf. exact H.
    - inversion H; subst. exists g. split; [|exact Hfs].
      eapply TotalDethunk.collect_all_fuel_mono_l; [apply Hg|lia].
  Qed.

  Definition sim_at (n : nat) : Prop :=
    (forall t nodes occs sub fpath p v s, wf_sub' (named_of t) occs sub ->
       sim1 (pcomplete n pf E t nodes occs sub fpath p v s) (complete (n + pf) E t nodes occs fpath p v s)) /\
    (forall obj occs pl p src s, wf_plan' obj (map oc_sub occs) pl ->
       sim1 (pexec_object n pf E obj pl p src s) (exec_object (n + pf) E obj occs p src s)) /\
    (forall obj src g fs p s, wf_fields' obj g fs ->
       simF (pexec_fields n pf E obj src fs p s) (exec_groups (n + pf) E obj src g p s)) /\
    (forall q s, qwf' q ->
       sim1 (pdethunk n pf E q s) (dethunk (n + pf) E (erase q) s)).

  Lemma sim_all : forall n, sim_at n.
  Proof.
    induction n as [|n [IHc [IHo [IHg IHd]]]].
    { repeat split; intros; exact I. }
    unfold sim_at. change (S n + pf) with (S (n + pf)).
    split; [|split; [|split]].
    - (* CompleteValue *)
      intros t nodes occs sub fpath p v s Hsub. destruct t as [nm|t'|t'].
      + cbn [pcomplete complete]. cbn [named_of] in Hsub.
        destruct (rv_nullish v); [split; [reflexivity|constructor]|].
        destruct (lookup_type (en_S E) nm) as [[k|vals|fs ifs|fs|ms|fs]|] eqn:El;
          try reflexivity.
        * cbv zeta. destruct (nullish _); split; try reflexivity; constructor.
        * cbv zeta. destruct (nullish _); split; try reflexivity; constructor.
        * inversion Hsub as [? ? pl Hk Hpl|? ? alt Hk Halt|? ? ? Hk]; subst;
            unfold type_kind in Hk; rewrite El in Hk; try discriminate.
          apply IHo. exact Hpl.
        * destruct (en_tor E v) as [rt|]; [|reflexivity].
          destruct (possible_type (en_S E) nm rt); [|reflexivity].
          inversion Hsub as [? ? pl Hk Hpl|? ? alt Hk Halt|? ? ? Hk]; subst;
            unfold type_kind in Hk; rewrite El in Hk; try discriminate.
          destruct (alt rt) as [pl|] eqn:Ea; [|exact I]. apply IHo. eapply Halt. exact Ea.
        * destruct (en_tor E v) as [rt|]; [|reflexivity].
          destruct (possible_type (en_S E) nm rt); [|reflexivity].
          inversion Hsub as [? ? pl Hk Hpl|? ? alt Hk Halt|? ? ? Hk]; subst;
            unfold type_kind in Hk; rewrite El in Hk; try discriminate.
          destruct (alt rt) as [pl|] eqn:Ea; [|exact I]. apply IHo. eapply Halt. exact Ea.
      + cbn [pcomplete complete]. cbn [named_of] in Hsub.
        destruct (rv_nullish v); [split; [reflexivity|constructor]|].
        destruct v as [| | | | |l| | | |]; try reflexivity.
        pose proof (pitems_sim
          (fun i x s0 => pcatch_at t' (pcomplete n pf E t' nodes occs sub fpath (p ++ [PIdx i]) x s0))
          (fun i x s0 => catch_at t' (complete (n + pf) E t' nodes occs fpath (p ++ [PIdx i]) x s0))
          (fun i x s0 => sim_catch t' _ _ (IHc t' nodes occs sub fpath (p ++ [PIdx i]) x s0 Hsub))
          l 0%N s) as Hl.
        destruct (pitems_loop _ l 0%N s) as [ys sy|e sy|]; cbn [simL] in Hl.
        * destruct Hl as [-> Hys]. cbn [sim1 erase]. split; [reflexivity|constructor; exact Hys].
        * rewrite Hl. reflexivity.
        * exact I.
      + cbn [pcomplete complete]. cbn [named_of] in Hsub.
        specialize (IHc t' nodes occs sub fpath p v s Hsub).
        destruct (pcomplete n pf E t' nodes occs sub fpath p v s) as [q sq|e sq|]; cbn [sim1] in IHc.
        * destruct IHc as [-> Hq].
          destruct q; cbn [erase sim1]; try (split; [reflexivity|exact Hq]). reflexivity.
        * rewrite IHc. reflexivity.
        * exact I.
    - (* ExecuteSelectionSet on an object value *)
      intros obj occs pl p src s Hpl. cbn [pexec_object exec_object].
      destruct (level_fields pf n E obj pl) as [fs|] eqn:Elf; [|exact I].
      destruct (level_fields_sim _ _ _ _ _ Hpl Elf) as [g [Hg Hfs]]. rewrite Hg.
      specialize (IHg obj src g fs p s Hfs).
      destruct (pexec_fields n pf E obj src fs p s) as [l sl|e sl|]; cbn [simF] in IHg.
      + destruct IHg as [-> Hl]. cbn [sim1 erase]. split; [reflexivity|constructor; exact Hl].
      + rewrite IHg. reflexivity.
      + exact I.
    - (* the fields of a level, in order *)
      intros obj src g fs p s Hfs. cbn [pexec_fields exec_groups].
      inversion Hfs as [|? k occs g0 f fs0 Hf Hrest]; subst.
      + cbn [simF efields map]. split; [reflexivity|constructor].
      + pose proof (pexec_field_sim n (n + pf) (pcomplete n pf E) (complete (n + pf) E)
                      (pdethunk n pf E) (dethunk (n + pf) E) obj src k occs f p s
                      (Nat.le_add_r n pf) (Nat.le_add_l pf n) Hf
                      (fun t nodes sub fpath p v s H => IHc t nodes occs sub fpath p v s H) IHd) as Hx.
        destruct (pexec_field n _ _ E obj src f p s) as [y sy|e sy|]; cbn [simO] in Hx.
        * specialize (IHg obj src g0 fs0 p sy Hrest). rewrite (wf_field_key _ _ _ _ _ _ _ Hf).
          destruct y as [y|].
          -- destruct Hx as [-> Hy].
             destruct (pexec_fields n pf E obj src fs0 p sy) as [ys sys|e sys|]; cbn [simF] in IHg |- *.
             ++ destruct IHg as [-> Hys]. cbn [efields map fst snd].
                split; [reflexivity|constructor; assumption].
             ++ rewrite IHg. reflexivity.
             ++ exact I.
          -- rewrite Hx.
             destruct (pexec_fields n pf E obj src fs0 p sy) as [ys sys|e sys|]; cbn [simF] in IHg |- *.
             ++ destruct IHg as [-> Hys]. split; [reflexivity|assumption].
             ++ rewrite IHg. reflexivity.
             ++ exact I.
        * rewrite Hx. reflexivity.
        * exact I.
    - (* the dethunk pass *)
      intros q s Hq. cbn [pdethunk dethunk].
      destruct q as [|v|l|l|t nodes occs sub p o]; cbn [erase].
      + split; [reflexivity|constructor].
      + split; [reflexivity|constructor].
      + inversion Hq as [| |? Hl| |]; subst.
        pose proof (pdethunk_list_sim _ _ IHd l s Hl) as Hx.
        destruct (pdethunk_list _ l s) as [ys sy|e sy|]; cbn [simL] in Hx.
        * destruct Hx as [-> Hys]. cbn [sim1 erase]. split; [reflexivity|constructor; exact Hys].
        * rewrite Hx. reflexivity.
        * exact I.
      + inversion Hq as [| | |? Hl|]; subst.
        pose proof (pdethunk_fields_sim _ _ IHd l s Hl) as Hx. fold (efields l).
        destruct (pdethunk_fields _ l s) as [ys sy|e sy|]; cbn [simF] in Hx.
        * destruct Hx as [-> Hys]. cbn [sim1 erase]. split; [reflexivity|constructor; exact Hys].
        * rewrite Hx. reflexivity.
        * exact I.
      + inversion Hq as [| | | |? ? ? ? ? ? Hsub]; subst. cbv zeta.
        assert (Hr : sim1 (match o with
                           | OVal v => pcomplete n pf E t nodes occs sub p p v s
                           | _ => XRaise {| e_path := p; e_nodes := nodes |} s
                           end)
                          (match o with
                           | OVal v => complete (n + pf) E t nodes occs p p v s
                           | _ => XRaise {| e_path := p; e_nodes := nodes |} s
                           end)).
        { destruct o as [v| |v| | | |o']; try reflexivity. apply IHc. exact Hsub. }
        apply (sim_catch t) in Hr.
        destruct (pcatch_at t _) as [y sy|e sy|]; cbn [sim1] in Hr.
        * destruct Hr as [-> Hy]. apply IHd. exact Hy.
        * rewrite Hr. reflexivity.
        * exact I.
  Qed.
End Sim.

(* ---- ExecutePlan on a well-formed plan = ExecuteRequest ---- *)
Theorem execute_plan_refines : forall pf ef S D opname op rt pl inputs root or tor r,
  get_operation D opname = Some op -> root_type S op = Some rt ->
  wf_plan pf S D rt [o_sel op] pl ->
  execute_plan pf ef S D {| pp_op := op; pp_root := rt; pp_plan := pl |} inputs root or tor = r ->
  r <> RFuel ->
  Request.request (ef + pf) S D opname inputs root or tor = r.
Proof.
  intros pf ef S D opname op rt pl inputs root or tor r Hop Hrt Hwf H Hr. subst r. revert Hr.
  unfold execute_plan, Request.request. cbn [pp_op pp_root pp_plan]. rewrite Hop, Hrt.
  destruct (get_variable_values ef S (o_vars op) inputs) as [vv|] eqn:Ev; [|intro Hr; contradiction].
  rewrite (TotalDethunk.get_variable_values_fuel_mono _ _ _ _ _ _ Ev (Nat.le_add_r ef pf)).
  destruct vv as [vars|u]; [|reflexivity].
  match goal with |- context [level_fields pf ef ?E0 rt pl] => set (E := E0) end.
  destruct (level_fields pf ef E rt pl) as [fs|] eqn:Elf; [|intro Hr; contradiction].
  destruct (level_fields_sim pf E ef rt [o_sel op] pl fs Hwf Elf) as [g [Hg Hfs]].
  cbn [collect_all en_S en_D en_vars E] in Hg.
  destruct (collect (ef + pf) S D vars rt (o_sel op) [] []) as [[g' v']|]; [|discriminate].
  inversion Hg; subst g'.
  destruct (sim_all pf E ef) as [_ [_ [Hsg Hsd]]].
  specialize (Hsg rt root g fs [] st0 Hfs).
  destruct (pexec_fields ef pf E rt root fs [] st0) as [l s|e s|]; cbn [simF] in Hsg.
  - destruct Hsg as [-> Hl].
    specialize (Hsd (PQObj l) s (qwf_obj _ _ _ _ Hl)). cbn [erase] in Hsd. fold (efields l) in Hsd.
    destruct (pdethunk ef pf E (PQObj l) s) as [q s'|e s'|]; cbn [sim1] in Hsd.
    + destruct Hsd as [-> Hq]. reflexivity.
    + rewrite Hsd. reflexivity.
    + intro Hr; contradiction.
  - rewrite Hsg. reflexivity.
  - intro Hr; contradiction.
Qed.

(* PlanQuery + ExecutePlan returns what the execution algorithm prescribes: data, errors, resolver
   calls (with coerced arguments), type resolutions, flags -- or the same request error *)
Theorem planned_request_refines : forall pf ef S D opname inputs root or tor r,
  PlanExec.request pf ef S D opname inputs root or tor = r -> r <> RFuel ->
  Request.request (ef + pf) S D opname inputs root or tor = r.
Proof.
  intros pf ef S D opname inputs root or tor r H Hr.
  unfold PlanExec.request, plan_query in H.
  destruct (get_operation D opname) as [op|] eqn:Hop.
  - destruct (root_type S op) as [rt|] eqn:Hrt.
    + destruct (plan_of pf S D rt [o_sel op]) as [pl|] eqn:Hpl; [|subst r; contradiction].
      eapply execute_plan_refines; try eassumption.
      eapply plan_of_wf; [apply le_n|exact Hpl].
    + subst r. unfold Request.request. rewrite Hop, Hrt. reflexivity.
  - subst r. unfold Request.request. rewrite Hop. reflexivity.
Qed.

Corollary planned_request_done : forall pf ef S D opname inputs root or tor d s,
  PlanExec.request pf ef S D opname inputs root or tor = RDone d s ->
  exists fuel, Request.request fuel S D opname inputs root or tor = RDone d s.
Proof.
  intros pf ef S D opname inputs root or tor d s H. exists (ef + pf).
  eapply planned_request_refines; [exact H|discriminate].
Qed.

(* ---- plan reuse: the plan is a value; every execution of it, with whatever variables, root value
        and resolver behaviour, is a fresh ExecuteRequest ---- *)
Definition run := (list (name * jv) * rv * oracle * toracle)%type.

Definition run_plan (pf ef : nat) (S : schema) (D : document) (pp : prepared) (x : run) : reqres :=
  let '(inputs, root, or, tor) := x in execute_plan pf ef S D pp inputs root or tor.
Definition run_fresh (fuel : nat) (S : schema) (D : document) (opname : option name) (x : run) : reqres :=
  let '(inputs, root, or, tor) := x in Request.request fuel S D opname inputs root or tor.

Lemma plan_query_wf : forall pf S D opname pp,
  plan_query pf S D opname = Planned pp ->
  get_operation D opname = Some (pp_op pp) /\ root_type S (pp_op pp) = Some (pp_root pp) /\
  wf_plan pf S D (pp_root pp) [o_sel (pp_op pp)] (pp_plan pp).
Proof.
  intros pf S D opname pp H. unfold plan_query in H.
  destruct (get_operation D opname) as [op|]; [|discriminate].
  destruct (root_type S op) as [rt|] eqn:Hrt; [|discriminate].
  destruct (plan_of pf S D rt [o_sel op]) as [pl|] eqn:Hpl; [|discriminate].
  inversion H; subst. cbn [pp_op pp_root pp_plan]. split; [reflexivity|]. split; [exact Hrt|].
  eapply plan_of_wf; [apply le_n|exact Hpl].
Qed.

Theorem plan_reuse_each : forall pf S D opname pp,
  plan_query pf S D opname = Planned pp ->
  forall ef x r, run_plan pf ef S D pp x = r -> r <> RFuel -> run_fresh (ef + pf) S D opname x = r.
Proof.
  intros pf S D opname pp Hq ef [[[inputs root] or] tor] r H Hr.
  destruct (plan_query_wf _ _ _ _ _ Hq) as [Hop [Hrt Hwf]].
  destruct pp as [op rt pl]. cbn [pp_op pp_root pp_plan] in *.
  unfold run_plan in H. unfold run_fresh. eapply execute_plan_refines; eassumption.
Qed.

(* one plan, executed n times *)
Theorem plan_reuse : forall pf S D opname pp,
  plan_query pf S D opname = Planned pp ->
  forall ef (xs : list run),
    Forall (fun x => run_plan pf ef S D pp x <> RFuel) xs ->
    map (run_plan pf ef S D pp) xs = map (run_fresh (ef + pf) S D opname) xs.
Proof.
  intros pf S D opname pp Hq ef xs H. induction H as [|x xs Hx _ IH]; [reflexivity|].
  cbn [map]. rewrite IH. f_equal. symmetry. eapply plan_reuse_each; [exact Hq|reflexivity|exact Hx].
Qed.

(* ---- the plan built here is the plan whose structure is dumped from the real planner: forgetting
        arguments, field definitions and lazily planned alternatives gives PlanCollect.plan_tree
        (which the C01 check compares with Plan dumps of every PlanQuery case) ---- *)
Fixpoint shape (p : plan) : ptree :=
  match p with
  | PDynamic _ => PT true []
  | PStatic fs =>
    PT false
       ((fix go (l : list pfield) : list (name * list N * option ptree) :=
           match l with
           | [] => []
           | PField k _ occs _ _ sub :: r =>
             (k, map oc_id occs, match sub with SubObject p' => Some (shape p') | _ => None end) :: go r
           end) fs)
  end.

Definition shape_field (f : pfield) : name * list N * option ptree :=
  match f with
  | PField k _ occs _ _ sub =>
    (k, map oc_id occs, match sub with SubObject p' => Some (shape p') | _ => None end)
  end.

Lemma shape_static : forall fs, shape (PStatic fs) = PT false (map shape_field fs).
Proof.
  intro fs. cbn [shape]. f_equal. induction fs as [|[k fn occs def ap sub] r IH]; [reflexivity|].
  cbn [map shape_field]. rewrite <- IH. reflexivity.
Qed.

Lemma plan_of_shape : forall k S D obj sets pl,
  plan_of k S D obj sets = Some pl -> plan_tree k S D obj sets = Some (shape pl).
Proof.
  induction k as [|k IH]; intros S D obj sets pl H; [discriminate|].
  cbn [plan_of] in H. cbn [plan_tree].
  destruct (plan_all k S D obj sets [] [] false) as [[[g v] [|]]|]; [| |discriminate].
  - inversion H; subst. reflexivity.
  - destruct (omap (plan_field k S obj (plan_of k S D)) g) as [fs|] eqn:Eo; [|discriminate].
    inversion H; subst. rewrite shape_static.
    match goal with |- match omap ?f g with _ => _ end = _ => assert (Hm : omap f g = Some (map shape_field fs)) end.
    { clear H. revert fs Eo. induction g as [|[key occs] g IHg]; intros fs Eo; cbn [omap] in Eo |- *.
      - inversion Eo. reflexivity.
      - destruct (plan_field k S obj (plan_of k S D) (key, occs)) as [f|] eqn:Ef; [|discriminate].
        destruct (omap (plan_field k S obj (plan_of k S D)) g) as [fs'|] eqn:Eo'; [|discriminate].
        inversion Eo; subst. rewrite (IHg fs' eq_refl). cbn [map].
        unfold plan_field in Ef.
        destruct (find_field _ (object_fields S obj)) as [fd|].
        + destruct (plan_args k S (f_args fd) _) as [ap|]; [|discriminate].
          destruct (plan_sub S (plan_of k S D) (f_type fd) occs) as [sub|] eqn:Es; [|discriminate].
          inversion Ef; subst. cbn [shape_field].
          unfold plan_sub, type_kind in Es. unfold is_object_type.
          destruct (lookup_type S (named_of (f_type fd))) as [[sk|vals|ofs ifs|ifs|ms|ifs]|];
            try (inversion Es; subst; reflexivity).
          destruct (plan_of k S D (named_of (f_type fd)) (map oc_sub occs)) as [pl'|] eqn:Ep; [|discriminate].
          inversion Es; subst. rewrite (IH _ _ _ _ _ Ep). reflexivity.
        + inversion Ef; subst. reflexivity. }
    rewrite Hm. reflexivity.
Qed.

(* ---- non-vacuity: a static root level, levels made dynamic by variable directives (directly and
        through a fragment), an eagerly planned object field, an interface field whose alternative
        is planned on use, literal and variable arguments, a list, deferred values, a resolver error
        and a null in a non-null position; the plan is built once and run under two variable
        assignments ---- *)
Module Example.
  Local Open Scope N_scope.
  Definition fS (n : name) (t : tyref) : fielddef := {| f_name := n; f_args := []; f_type := t |}.
  Definition S2 : schema := {|
    s_types := [("String", TScalar SString); ("Boolean", TScalar SBoolean); ("Int", TScalar SInt);
                ("Q", TObject [fS "a" (TNamed "String");
                               {| f_name := "o";
                                  f_args := [{| a_name := "n"; a_type := TNamed "Int"; a_default := None |}];
                                  f_type := TNamed "O" |};
                               fS "i" (TNamed "I"); fS "l" (TList (TNamed "O"))] []);
                ("O", TObject [fS "x" (TNamed "String"); fS "y" (TNonNull (TNamed "String"))] ["I"]);
                ("I", TInterface [fS "x" (TNamed "String")])];
    s_query := "Q"; s_mutation := None |}.
  Definition dskip := {| d_name := "skip"; d_args := [("if", VVar "v")] |}.
  Definition dinc := {| d_name := "include"; d_args := [("if", VVar "v")] |}.
  Definition D2 : document := {|
    d_ops := [{| o_kind := OpQuery; o_name := None;
                 o_vars := [{| v_name := "v"; v_type := TNamed "Boolean"; v_default := None |};
                            {| v_name := "n"; v_type := TNamed "Int"; v_default := None |}];
                 o_sel := [SField 1 None "a" [] [] [];
                           SField 2 None "o" [("n", VInt 3)] []
                                  [SField 3 None "x" [] [dskip] []; SSpread 4 "F" []];
                           SField 5 (Some "o2") "o" [("n", VVar "n")] [] [SField 6 None "y" [] [] []];
                           SField 7 None "i" [] []
                                  [SField 8 None "x" [] [] [];
                                   SInline 9 (Some "O") [] [SField 10 None "y" [] [] []]];
                           SField 11 None "l" [] [] [SSpread 12 "F" []];
                           SField 13 (Some "t") "a" [] [] []] |}];
    d_frags := [{| fr_name := "F"; fr_cond := "O";
                   fr_sel := [SField 20 None "y" [] [dinc] []; SField 21 None "x" [] [] []] |}] |}.
  Definition or2 : oracle := fun p =>
    match p with
    | [PKey "a"] => Some (OVal (RStr "A"))
    | [PKey "t"] => Some (OThunk (OVal (RStr "T")))
    | [PKey "o"] => Some (OVal (RObj 1 "O"))
    | [PKey "o2"] => Some (OVal (RObj 2 "O"))
    | [PKey "i"] => Some (OThunk (OVal (RObj 3 "O")))
    | [PKey "l"] => Some (OVal (RList [RObj 4 "O"; RNull; RObj 5 "O"]))
    | [PKey "l"; PIdx 2; PKey "y"] => Some OErr
    | [PKey "o2"; PKey "y"] => Some (OVal RNull)
    | _ => Some (OVal (RStr "s"))
    end.
  Definition tor2 : toracle := fun v => match v with RObj _ t => Some t | _ => None end.
  Definition inputs2 (v : bool) : list (name * jv) := [("v", JBool v); ("n", JInt 7)].

  Definition level_kinds (pl : plan) : list (name * bool * bool) :=
    match pl with
    | PDynamic _ => []
    | PStatic fs =>
      map (fun f => match f with
                    | PField k _ _ _ ap sub =>
                      (k, match ap with ArgStatic _ => true | ArgDynamic => false end,
                       match sub with SubObject (PDynamic _) => true | _ => false end)
                    end) fs
    end.

  Definition summary (r : reqres) : option (resp * list gerr * nat * nat) :=
    match r with
    | RDone (Some d) s => Some (d, st_errs s, List.length (st_calls s), List.length (st_tcalls s))
    | _ => None
    end.

  (* (the plan itself is not printed: it holds the closures of the lazily planned alternatives) *)
  Lemma planned_nonvacuous :
    match plan_query 12 S2 D2 None with
    | Planned pp =>
      (* static root; literal vs variable arguments; sub-levels of o and l are dynamic, that of o2 is not *)
      level_kinds (pp_plan pp) =
        [("a", true, false); ("o", true, true); ("o2", false, false); ("i", true, false);
         ("l", true, true); ("t", true, false)] /\
      summary (execute_plan 12 12 S2 D2 pp (inputs2 true) RNull or2 tor2) =
        Some (PObj [("a", PLeaf (JStr "A"));
                    ("o", PObj [("y", PLeaf (JStr "s")); ("x", PLeaf (JStr "s"))]);
                    ("o2", PNull);
                    ("i", PObj [("x", PLeaf (JStr "s")); ("y", PLeaf (JStr "s"))]);
                    ("l", PList [PObj [("y", PLeaf (JStr "s")); ("x", PLeaf (JStr "s"))]; PNull; PNull]);
                    ("t", PLeaf (JStr "T"))],
              [{| e_path := [PKey "o2"; PKey "y"]; e_nodes := [6] |};
               {| e_path := [PKey "l"; PIdx 2; PKey "y"]; e_nodes := [20] |}], 14%nat, 1%nat) /\
      summary (execute_plan 12 12 S2 D2 pp (inputs2 false) RNull or2 tor2) =
        Some (PObj [("a", PLeaf (JStr "A"));
                    ("o", PObj [("x", PLeaf (JStr "s"))]);
                    ("o2", PNull);
                    ("i", PObj [("x", PLeaf (JStr "s")); ("y", PLeaf (JStr "s"))]);
                    ("l", PList [PObj [("x", PLeaf (JStr "s"))]; PNull; PObj [("x", PLeaf (JStr "s"))]]);
                    ("t", PLeaf (JStr "T"))],
              [{| e_path := [PKey "o2"; PKey "y"]; e_nodes := [6] |}], 12%nat, 1%nat) /\
      execute_plan 12 12 S2 D2 pp (inputs2 true) RNull or2 tor2
        = Request.request 24 S2 D2 None (inputs2 true) RNull or2 tor2 /\
      execute_plan 12 12 S2 D2 pp (inputs2 false) RNull or2 tor2
        = Request.request 24 S2 D2 None (inputs2 false) RNull or2 tor2
    | _ => False
    end.
  Proof. vm_compute. repeat split; reflexivity. Qed.
  Lemma planned_nonvacuous_short :
    match plan_query 12 S2 D2 None with
    | Planned pp =>
      level_kinds (pp_plan pp) =
        [("a", true, false); ("o", true, true); ("o2", false, false); ("i", true, false);
         ("l", true, true); ("t", true, false)] /\
      (exists d s, execute_plan 12 12 S2 D2 pp (inputs2 true) RNull or2 tor2 = RDone (Some d) s /\
                   List.length (st_calls s) = 14%nat /\ List.length (st_errs s) = 2%nat) /\
      (exists d s, execute_plan 12 12 S2 D2 pp (inputs2 false) RNull or2 tor2 = RDone (Some d) s /\
                   List.length (st_calls s) = 12%nat /\ List.length (st_errs s) = 1%nat)
    | _ => False
    end.
  Proof.
    vm_compute. split; [reflexivity|].
    split; (eexists; eexists; split; [reflexivity|split; reflexivity]).
  Qed.
End Example.
