(* C04: every response the executor builds conforms to schema and query, whatever the
   resolver outcomes are. *)
From Coq Require Import List ZArith NArith String Bool Lia.
From GQL Require Import Exec.Syntax Exec.Coerce Exec.Exec Exec.Conform Exec.Request Proofs.ExecInv.
Import ListNotations.
Open Scope string_scope.
Open Scope list_scope.

Definition notthunk (q : presp) : Prop := forall a b c d e, q <> QThunk a b c d e.

(* ---- leaves ---- *)
Lemma quot_in_int32 : forall n d,
  ((n <? -2147483648 * Zpos d) || (n >? 2147483647 * Zpos d))%Z = false ->
  in_int32 (Z.quot n (Zpos d)) = true.
Proof.
  intros n d H. apply orb_false_iff in H. destruct H as [H1 H2].
  apply Z.ltb_ge in H1. apply Z.gtb_ltb in H2 || idtac.
  assert (H2' : (n <= 2147483647 * Zpos d)%Z).
  { destruct (Z.gtb_spec n (2147483647 * Zpos d)); [discriminate|lia]. }
  unfold in_int32. apply andb_true_iff. split; apply Z.leb_le.
  - rewrite <- (Z.quot_mul (-2147483648) (Zpos d)) by lia. apply Z.quot_le_mono; lia.
  - rewrite <- (Z.quot_mul 2147483647 (Zpos d)) by lia. apply Z.quot_le_mono; lia.
Qed.

Lemma parse_value_scalar_legal : forall k j, nullish (parse_value_scalar k j) = false ->
  legal_scalar k (parse_value_scalar k j).
Proof.
  intros k j H. destruct k; destruct j as [|b|z|n d|str|l|l]; cbn [parse_value_scalar] in *;
    try (cbn in H; discriminate); try exact I.
  - destruct b; reflexivity.
  - destruct (in_int32 z) eqn:E; [exact E|cbn in H; discriminate].
  - destruct ((n <? -2147483648 * Z.pos d)%Z || (n >? 2147483647 * Z.pos d)%Z) eqn:E; [cbn in H; discriminate|].
    cbn [legal_scalar]. apply quot_in_int32. exact E.
  - destruct (Z.odd z) eqn:E; [exact E|cbn in H; discriminate].
Qed.

Lemma serialize_scalar_legal : forall k v, nullish (serialize_scalar k v) = false ->
  legal_scalar k (serialize_scalar k v).
Proof.
  intros k v H. unfold serialize_scalar in *.
  destruct v; try (apply parse_value_scalar_legal; exact H); destruct k; cbn in *; try discriminate; exact I.
Qed.

Lemma enum_name_of_legal : forall vals v, nullish (enum_name_of vals v) = false ->
  exists nm, enum_name_of vals v = JStr nm /\ amem nm vals = true.
Proof.
  induction vals as [|[n iv] vals IH]; intros v H; [discriminate|].
  cbn [enum_name_of] in *. destruct (jv_eqb iv v).
  - exists n. split; [reflexivity|]. cbn. rewrite String.eqb_refl. reflexivity.
  - destruct (IH v H) as [nm [E1 E2]]. exists nm. split; [exact E1|]. cbn. rewrite E2. apply orb_true_r.
Qed.

Lemma serialize_enum_legal : forall vals v, nullish (serialize_enum vals v) = false ->
  exists nm, serialize_enum vals v = JStr nm /\ amem nm vals = true.
Proof.
  intros vals v H. unfold serialize_enum in *. destruct v; try discriminate; apply enum_name_of_legal; exact H.
Qed.

(* ---- invariants ---- *)
Section Inv.
Variable E : env.

Definition cinv (t : tyref) (occs : list occ) (r : xres presp) : Prop :=
  match r with
  | XOk q _ => PConf E t occs q /\ notthunk q
  | _ => True
  end.

Definition cinv' (t : tyref) (occs : list occ) (r : xres presp) : Prop :=
  match r with
  | XOk q _ => PConf E t occs q
  | _ => True
  end.

Lemma cinv'_catch : forall t occs r, cinv' t occs r -> cinv' t occs (catch_at t r).
Proof.
  intros t occs [q s|e s|] H; cbn in *; auto.
  destruct (is_nonnull t) eqn:En; cbn; [exact I|]. apply PC_null. exact En.
Qed.

Lemma items_loop_conf : forall cmp t occs,
  (forall i x s, cinv' t occs (cmp i x s)) ->
  forall l i s, match items_loop cmp l i s with XOk qs _ => PConfL E t occs qs | _ => True end.
Proof.
  intros cmp t occs Hc. induction l as [|x l IH]; intros i s; cbn [items_loop]; [constructor|].
  specialize (Hc i x s). destruct (cmp i x s) as [y s'|e s'|]; cbn in Hc |- *; auto.
  specialize (IH (i + 1)%N s'). destruct (items_loop cmp l (i + 1)%N s') as [ys s''|e s''|]; auto.
  constructor; assumption.
Qed.

Definition oinv (obj : name) (occs : list occ) (r : xres presp) : Prop :=
  match r with
  | XOk q _ => exists fuel g fs, q = QObj fs /\
       collect_all fuel (en_S E) (en_D E) (en_vars E) obj (map oc_sub occs) [] [] = Some g /\
       PConfG E obj g fs
  | _ => True
  end.

Definition ginv (obj : name) (g : groups) (r : xres (list (name * presp))) : Prop :=
  match r with
  | XOk fs _ => PConfG E obj g fs
  | _ => True
  end.

(* what ExecuteField returns for a group *)
Definition finv (obj : name) (occs : list occ) (r : xres (option presp)) : Prop :=
  match r with
  | XOk (Some y) _ =>
    (String.eqb (first_name occs) "__typename" = true /\ y = QLeaf (JStr obj)) \/
    (String.eqb (first_name occs) "__typename" = false /\
     exists fd, find_field (first_name occs) (object_fields (en_S E) obj) = Some fd /\ PConf E (f_type fd) occs y)
  | XOk None _ =>
    String.eqb (first_name occs) "__typename" = false /\
    find_field (first_name occs) (object_fields (en_S E) obj) = None
  | _ => True
  end.

Lemma exec_field_conf : forall fuel' cmp dth obj src k occs p s,
  (forall t nodes occs0 fpath p0 v s0, cinv t occs0 (cmp t nodes occs0 fpath p0 v s0)) ->
  (forall t occs0 q s0, PConf E t occs0 q -> cinv' t occs0 (dth q s0)) ->
  finv obj occs (exec_field fuel' cmp dth E obj src k occs p s).
Proof.
  intros fuel' cmp dth obj src k occs p s IHc IHd. unfold exec_field. cbv zeta. fold (first_name occs).
  destruct (String.eqb (first_name occs) "__typename") eqn:Etn; [cbn; left; split; [exact Etn|reflexivity]|].
  destruct (find_field (first_name occs) (object_fields (en_S E) obj)) as [fd|] eqn:Efd; [|cbn; split; [exact Etn|exact Efd]].
  destruct (get_argument_values fuel' (en_S E) (f_args fd) _ (Some (en_vars E))) as [args|]; [|exact I].
  destruct (match en_or E (p ++ [PKey k]) with Some o => force o | None => (OVal RNull, false) end) as [o thunked].
  match goal with |- finv _ _ (match catch_at ?t ?r1 with _ => _ end) => assert (Hr1 : cinv' t occs r1) end.
  { destruct (thunked && negb (is_nonnull (f_type fd))) eqn:Et.
    - cbn. apply PC_thunk. apply andb_true_iff in Et. destruct Et as [_ Et].
      destruct (is_nonnull (f_type fd)); [discriminate|reflexivity].
    - match goal with |- cinv' _ _ (match ?c0 with _ => _ end) => assert (Hc0 : cinv' (f_type fd) occs c0) end.
      { destruct o; try exact I. specialize (IHc (f_type fd) (map oc_id occs) occs (p ++ [PKey k]) (p ++ [PKey k]) v).
        match goal with |- cinv' _ _ (cmp _ _ _ _ _ _ ?s0) => specialize (IHc s0);
          destruct (cmp (f_type fd) (map oc_id occs) occs (p ++ [PKey k]) (p ++ [PKey k]) v s0) end; cbn in *; tauto. }
      match goal with |- cinv' _ _ (match ?c0 with _ => _ end) => destruct c0 as [q0 s0|e0 s0|] end; cbn in *; auto.
      destruct thunked; exact I. }
  pose proof (cinv'_catch _ _ _ Hr1) as Hcatch.
  match goal with |- finv _ _ (match ?c with _ => _ end) => destruct c as [y s'|e s'|] end; cbn in Hcatch |- *; auto.
  destruct (en_serial E && match p with [] => true | _ :: _ => false end).
  - specialize (IHd (f_type fd) occs y s' Hcatch).
    destruct (dth y s') as [y' s''|e s''|]; cbn in IHd |- *; auto.
    right. split; [exact Etn|]. exists fd. split; [exact Efd|exact IHd].
  - cbn. right. split; [exact Etn|]. exists fd. split; [exact Efd|exact Hcatch].
Qed.

Lemma dethunk_list_conf : forall f t occs,
  (forall q s, PConf E t occs q -> cinv' t occs (f q s)) ->
  forall l s, PConfL E t occs l ->
    match dethunk_list f l s with XOk l' _ => PConfL E t occs l' | _ => True end.
Proof.
  intros f t occs Hf. induction l as [|x l IH]; intros s Hl; cbn [dethunk_list]; [constructor|].
  inversion Hl; subst. specialize (Hf x s H3).
  destruct (f x s) as [y s'|e s'|]; cbn in Hf |- *; auto.
  specialize (IH s' H4). destruct (dethunk_list f l s') as [ys s''|e s''|]; auto.
  constructor; assumption.
Qed.

Lemma dethunk_fields_conf : forall f,
  (forall t occs q s, PConf E t occs q -> cinv' t occs (f q s)) ->
  (forall v s, match f (QLeaf v) s with XOk y _ => y = QLeaf v | _ => True end) ->
  forall rt g l, PConfG E rt g l -> forall s,
    match dethunk_fields f l s with XOk l' _ => PConfG E rt g l' | _ => True end.
Proof.
  intros f Hf Hleaf rt g l H.
  induction H as [rt|rt k occs g fs Htn _ IH|rt k occs g fs Htn Hnf _ IH|rt k occs g fs fd q Htn Hfd Hq _ IH]; intros s.
  - cbn. constructor.
  - cbn [dethunk_fields]. specialize (Hleaf (JStr rt) s).
    destruct (f (QLeaf (JStr rt)) s) as [y s'|e s'|]; auto. subst y.
    specialize (IH s'). destruct (dethunk_fields f fs s') as [ys s''|e s''|]; auto.
    apply PG_typename; assumption.
  - specialize (IH s). destruct (dethunk_fields f fs s) as [ys s'|e s'|]; auto. apply PG_skip; assumption.
  - cbn [dethunk_fields]. specialize (Hf (f_type fd) occs q s Hq).
    destruct (f q s) as [y s'|e s'|]; cbn in Hf |- *; auto.
    specialize (IH s'). destruct (dethunk_fields f fs s') as [ys s''|e s''|]; auto.
    eapply PG_field; eassumption.
Qed.

Lemma pconf_list_under : forall t occs l l',
  PConf E t occs (QList l) ->
  (forall t', PConfL E t' occs l -> PConfL E t' occs l') ->
  PConf E t occs (QList l').
Proof.
  induction t as [n|t0 IH|t0 IH]; intros occs l l' H Hl.
  - inversion H.
  - inversion H; subst. apply PC_list. apply Hl. assumption.
  - inversion H; subst. apply PC_nonnull; [discriminate|intros a b c d e Hx; discriminate|].
    eapply IH; eassumption.
Qed.

Lemma pconf_obj_under : forall t occs l l',
  PConf E t occs (QObj l) ->
  (forall rt g, PConfG E rt g l -> PConfG E rt g l') ->
  PConf E t occs (QObj l').
Proof.
  induction t as [n|t0 IH|t0 IH]; intros occs l l' H Hl.
  - inversion H; subst. eapply PC_obj; try eassumption. apply Hl. assumption.
  - inversion H.
  - inversion H; subst. apply PC_nonnull; [discriminate|intros a b c d e Hx; discriminate|].
    eapply IH; eassumption.
Qed.

Definition CP (fuel : nat) : Prop :=
  (forall t nodes occs fpath p v s, cinv t occs (complete fuel E t nodes occs fpath p v s)) /\
  (forall obj occs p src s, oinv obj occs (exec_object fuel E obj occs p src s)) /\
  (forall obj src g p s, ginv obj g (exec_groups fuel E obj src g p s)) /\
  (forall t occs q s, PConf E t occs q -> cinv' t occs (dethunk fuel E q s)).

Lemma notthunk_obj : forall fs, notthunk (QObj fs).
Proof. intros fs a b c d e H. discriminate. Qed.

Lemma dethunk_leaf : forall fuel v s,
  match dethunk fuel E (QLeaf v) s with XOk y _ => y = QLeaf v | _ => True end.
Proof. intros [|fuel] v s; cbn; auto. Qed.

Lemma conf_inv : forall fuel, CP fuel.
Proof.
  induction fuel as [|fuel [IHc [IHo [IHg IHd]]]].
  - repeat split; intros; exact I.
  - repeat split.
    + (* complete *)
      intros t nodes occs fpath p v s. cbn [complete].
      destruct t as [n|t'|t'].
      * destruct (rv_nullish v); [cbn; split; [apply PC_null; reflexivity|intros a b c d e H; discriminate]|].
        destruct (lookup_type (en_S E) n) as [[k|vals|fs ifs|fs|ms|fs]|] eqn:El; try exact I.
        -- cbn. destruct (nullish (serialize_scalar k v)) eqn:En; cbn;
             (split; [|intros a b c d e H; discriminate]).
           ++ apply PC_null. reflexivity.
           ++ eapply PC_scalar; [exact El|apply serialize_scalar_legal; exact En].
        -- cbn. destruct (nullish (serialize_enum vals v)) eqn:En; cbn;
             (split; [|intros a b c d e H; discriminate]).
           ++ apply PC_null. reflexivity.
           ++ destruct (serialize_enum_legal vals v En) as [nm [E1 E2]]. rewrite E1. eapply PC_enum; eassumption.
        -- specialize (IHo n occs p v s).
           destruct (exec_object fuel E n occs p v s) as [q s'|e s'|]; cbn in IHo |- *; auto.
           destruct IHo as [fl [g [fs0 [-> [Hc Hg]]]]]. split; [|apply notthunk_obj].
           eapply PC_obj; [unfold is_composite; rewrite El; exact I| |exact Hc|exact Hg].
           unfold possible_type. rewrite El. apply String.eqb_refl.
        -- destruct (en_tor E v) as [rt|]; [|exact I].
           destruct (possible_type (en_S E) n rt) eqn:Ep; [|exact I].
           specialize (IHo rt occs p v (add_tcall (fpath, v) s)).
           destruct (exec_object fuel E rt occs p v (add_tcall (fpath, v) s)) as [q s'|e s'|]; cbn in IHo |- *; auto.
           destruct IHo as [fl [g [fs0 [-> [Hc Hg]]]]]. split; [|apply notthunk_obj].
           eapply PC_obj; [unfold is_composite; rewrite El; exact I|exact Ep|exact Hc|exact Hg].
        -- destruct (en_tor E v) as [rt|]; [|exact I].
           destruct (possible_type (en_S E) n rt) eqn:Ep; [|exact I].
           specialize (IHo rt occs p v (add_tcall (fpath, v) s)).
           destruct (exec_object fuel E rt occs p v (add_tcall (fpath, v) s)) as [q s'|e s'|]; cbn in IHo |- *; auto.
           destruct IHo as [fl [g [fs0 [-> [Hc Hg]]]]]. split; [|apply notthunk_obj].
           eapply PC_obj; [unfold is_composite; rewrite El; exact I|exact Ep|exact Hc|exact Hg].
      * destruct (rv_nullish v); [cbn; split; [apply PC_null; reflexivity|intros a b c d e H; discriminate]|].
        destruct v; try exact I.
        pose proof (items_loop_conf
                      (fun i x s0 => catch_at t' (complete fuel E t' nodes occs fpath (p ++ [PIdx i]) x s0)) t' occs) as HL.
        match goal with |- cinv _ _ (match items_loop ?c ?l0 ?i0 ?s0 with _ => _ end) =>
          assert (Hitem : forall i x s1, cinv' t' occs (c i x s1));
          [|specialize (HL Hitem l0 i0 s0); destruct (items_loop c l0 i0 s0) as [ys s'|e s'|]; cbn in HL |- *; auto]
        end.
        { intros i x s1. apply cinv'_catch. specialize (IHc t' nodes occs fpath (p ++ [PIdx i]) x s1).
          destruct (complete fuel E t' nodes occs fpath (p ++ [PIdx i]) x s1); cbn in *; tauto. }
        split; [apply PC_list; exact HL|intros a b c d e H; discriminate].
      * specialize (IHc t' nodes occs fpath p v s).
        destruct (complete fuel E t' nodes occs fpath p v s) as [q s'|e s'|]; cbn in IHc |- *; auto.
        destruct IHc as [Hq Hn].
        destruct q; cbn; try exact I; (split; [apply PC_nonnull; [discriminate|exact Hn|exact Hq]|exact Hn]).
    + (* exec_object *)
      intros obj occs p src s. cbn [exec_object].
      destruct (collect_all fuel (en_S E) (en_D E) (en_vars E) obj (map oc_sub occs) [] []) as [g|] eqn:Ec; [|exact I].
      specialize (IHg obj src g p s).
      destruct (exec_groups fuel E obj src g p s) as [fs s'|e s'|]; cbn in IHg |- *; auto.
      exists fuel, g, fs. repeat split; assumption.
    + (* exec_groups *)
      intros obj src g p s. cbn [exec_groups].
      destruct g as [|[k occs] rest]; [cbn; constructor|].
      pose proof (exec_field_conf fuel (complete fuel E) (dethunk fuel E) obj src k occs p s
                    (fun t nodes occs0 fpath p0 v s0 => IHc t nodes occs0 fpath p0 v s0)
                    (fun t occs0 q s0 H0 => IHd t occs0 q s0 H0)) as Hf.
      destruct (exec_field fuel (complete fuel E) (dethunk fuel E) E obj src k occs p s) as [y s'|e s'|]; cbn in Hf |- *; auto.
      specialize (IHg obj src rest p s').
      destruct (exec_groups fuel E obj src rest p s') as [ys s''|e s''|]; cbn in IHg |- *; auto.
      destruct y as [y|].
      * destruct Hf as [[Htn ->]|[Htn [fd [Hfd Hy]]]].
        -- apply PG_typename; assumption.
        -- eapply PG_field; eassumption.
      * destruct Hf as [Htn Hnf]. apply PG_skip; assumption.
    + (* dethunk *)
      intros t occs q s Hq. cbn [dethunk].
      destruct q as [|v|l|l|t0 nodes occs0 tp o].
      * cbn. exact Hq.
      * cbn. exact Hq.
      * (* list *)
        destruct (dethunk_list (dethunk fuel E) l s) as [l' s'|e s'|] eqn:Edl; cbn; auto.
        eapply pconf_list_under; [exact Hq|].
        intros t' Hl.
        pose proof (dethunk_list_conf (dethunk fuel E) t' occs (fun q0 s1 H0 => IHd t' occs q0 s1 H0) l s Hl) as HL.
        rewrite Edl in HL. exact HL.
      * (* object *)
        destruct (dethunk_fields (dethunk fuel E) l s) as [l' s'|e s'|] eqn:Edl; cbn; auto.
        eapply pconf_obj_under; [exact Hq|].
        intros rt g Hg.
        pose proof (dethunk_fields_conf (dethunk fuel E) (fun t2 occs2 q0 s1 H2 => IHd t2 occs2 q0 s1 H2)
                      (dethunk_leaf fuel) rt g l Hg s) as HG.
        rewrite Edl in HG. exact HG.
      * (* a deferred value: its typing is PC_thunk (possibly under nothing else, since non-null excludes thunks) *)
        assert (Ht : t = t0 /\ occs = occs0 /\ is_nonnull t0 = false).
        { inversion Hq; subst.
          - exfalso. eapply H0. reflexivity.
          - repeat split; assumption. }
        destruct Ht as [-> [-> Hnn]].
        match goal with |- cinv' _ _ (match catch_at _ ?r with _ => _ end) => assert (Hr : cinv' t0 occs0 r) end.
        { destruct o; try exact I. specialize (IHc t0 nodes occs0 tp tp v s).
          destruct (complete fuel E t0 nodes occs0 tp tp v s); cbn in *; tauto. }
        pose proof (cinv'_catch _ _ _ Hr) as Hcatch.
        match goal with |- cinv' _ _ (match ?c with _ => _ end) => destruct c as [y s'|e s'|] end; cbn in Hcatch |- *; auto.
Qed.
End Inv.

(* ---- the request level ---- *)
Lemma request_conforms : forall fuel S D opn inputs root or tor d s,
  request fuel S D opn inputs root or tor = RDone (Some d) s ->
  exists op rt vars g fs,
    get_operation D opn = Some op /\ root_type S op = Some rt /\
    get_variable_values fuel S (o_vars op) inputs = Some (inl vars) /\
    (exists v, collect fuel S D vars rt (o_sel op) [] [] = Some (g, v)) /\
    let E := {| en_S := S; en_D := D; en_vars := vars; en_or := or; en_tor := tor;
                en_serial := match o_kind op with OpMutation => true | _ => false end |} in
    PConfG E rt g fs /\ thunks (QObj fs) = [] /\ d = to_resp (QObj fs).
Proof.
  intros fuel S D opn inputs root or tor d s H. unfold request in H.
  destruct (get_operation D opn) as [op|] eqn:Eop; [|discriminate].
  destruct (root_type S op) as [rt|] eqn:Ert; [|discriminate].
  destruct (get_variable_values fuel S (o_vars op) inputs) as [[vars|e]|] eqn:Ev; try discriminate.
  destruct (collect fuel S D vars rt (o_sel op) [] []) as [[g v]|] eqn:Ec; [|discriminate].
  set (E := {| en_S := S; en_D := D; en_vars := vars; en_or := or; en_tor := tor;
               en_serial := match o_kind op with OpMutation => true | _ => false end |}) in *.
  destruct (conf_inv E fuel) as [_ [_ [IHg IHd]]].
  specialize (IHg rt root g [] st0).
  destruct (exec_groups fuel E rt root g [] st0) as [fs s1|e s1|] eqn:Eg; try discriminate.
  cbn in IHg.
  destruct (dethunk fuel E (QObj fs) s1) as [q s2|e s2|] eqn:Ed; try discriminate.
  inversion H; subst.
  (* type the root object as a value of the root type, so that the dethunk lemma applies *)
  destruct (exec_inv fuel) as [_ [_ [IG ID]]].
  pose proof (IG E rt root g [] st0) as Hg1. rewrite Eg in Hg1. cbn in Hg1. destruct Hg1 as [_ Hth].
  pose proof (ID E (QObj fs) s1 [] (thunks_ok_obj_intro _ _ Hth)) as Hd1. rewrite Ed in Hd1. cbn in Hd1.
  destruct Hd1 as [_ Hnil].
  (* dethunk keeps the object shape and the group typing *)
  assert (Hshape : exists fs', q = QObj fs' /\ PConfG E rt g fs').
  { destruct fuel as [|fuel']; [discriminate|]. cbn [dethunk] in Ed.
    destruct (conf_inv E fuel') as [_ [_ [_ IHd']]].
    pose proof (dethunk_fields_conf E (dethunk fuel' E) (fun t2 occs2 q0 s3 H2 => IHd' t2 occs2 q0 s3 H2)
                  (dethunk_leaf E fuel') rt g fs IHg s1) as HG.
    destruct (dethunk_fields (dethunk fuel' E) fs s1) as [l' s'|e s'|]; try discriminate.
    inversion Ed; subst. exists l'. split; [reflexivity|exact HG]. }
  destruct Hshape as [fs' [-> Hg']].
  exists op, rt, vars, g, fs'.
  split; [first [reflexivity|assumption]|]. split; [first [reflexivity|assumption]|].
  split; [first [reflexivity|assumption]|].
  split; [exists v; exact Ec|]. cbv zeta. fold E.
  split; [exact Hg'|]. split; [exact Hnil|reflexivity].
Qed.
