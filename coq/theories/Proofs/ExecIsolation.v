(* C04, isolation of sibling fields (non-interference).
   A failure -- or any other change of resolver behaviour -- below one field of a selection set
   does not alter what the sibling fields produce, as long as no failure escapes the selection
   set itself (which would null the enclosing position, siblings included).

   The development has three independent parts, each one induction on fuel over the four
   mutually recursive functions of Exec/Exec.v, with the skeleton of Proofs/ExecInv.v:
   (1) frame: an execution does not read the state it extends -- run from [sapp s d] it yields
       the run from [d] with [s] put in front ([xlift]);
   (2) locality: an execution at path p consults the resolver oracle only at paths below p
       (for the dethunk pass: below the paths of the deferred values it forces);
   (3) isolation: (1) and (2) give, for every field whose key is not the one the two oracles
       disagree under, the same result and the same state increment in both runs; the fields
       of the differing key only record errors / calls under their own path. *)
From Coq Require Import List ZArith NArith String Bool Lia.
From GQL Require Import Exec.Syntax Exec.Coerce Exec.Exec Exec.Request
     Proofs.ExecInv Proofs.ExecPaths Run.ExecRun.
Import ListNotations.
Open Scope string_scope.
Open Scope list_scope.

(* ------------------------------------------------------------------------------------------ *)
(* state increments                                                                           *)
(* ------------------------------------------------------------------------------------------ *)
(* the state s followed by the increment d *)
Definition sapp (s d : st) : st :=
  {| st_errs := st_errs s ++ st_errs d; st_calls := st_calls s ++ st_calls d;
     st_tcalls := st_tcalls s ++ st_tcalls d; st_missing := st_missing s ++ st_missing d;
     st_escape := st_escape s || st_escape d |}.

Lemma sapp_st0_r : forall s, sapp s st0 = s.
Proof. intros [e c t m x]. unfold sapp. cbn. rewrite !app_nil_r, orb_false_r. reflexivity. Qed.

Lemma sapp_add_err : forall e s d, add_err e (sapp s d) = sapp s (add_err e d).
Proof. intros. unfold add_err, sapp. cbn. rewrite app_assoc. reflexivity. Qed.
Lemma sapp_add_call : forall c s d, add_call c (sapp s d) = sapp s (add_call c d).
Proof. intros. unfold add_call, sapp. cbn. rewrite app_assoc. reflexivity. Qed.
Lemma sapp_add_tcall : forall c s d, add_tcall c (sapp s d) = sapp s (add_tcall c d).
Proof. intros. unfold add_tcall, sapp. cbn. rewrite app_assoc. reflexivity. Qed.
Lemma sapp_add_missing : forall c s d, add_missing c (sapp s d) = sapp s (add_missing c d).
Proof. intros. unfold add_missing, sapp. cbn. rewrite app_assoc. reflexivity. Qed.
Lemma sapp_set_escape : forall s d, set_escape (sapp s d) = sapp s (set_escape d).
Proof. intros. unfold set_escape, sapp. cbn. rewrite orb_true_r. reflexivity. Qed.

(* a result computed from the increment d, seen from the state s ++ d *)
Definition xlift {A : Type} (s : st) (r : xres A) : xres A :=
  match r with
  | XOk a d => XOk a (sapp s d)
  | XRaise e d => XRaise e (sapp s d)
  | XFuel => XFuel
  end.

Lemma catch_at_lift : forall t s r, catch_at t (xlift s r) = xlift s (catch_at t r).
Proof.
  intros t s [q d|e d|]; cbn; try reflexivity.
  destruct (is_nonnull t); cbn; [reflexivity|]. rewrite sapp_add_err. reflexivity.
Qed.

(* ------------------------------------------------------------------------------------------ *)
(* ExecuteField, split at the recursive calls                                                 *)
(* ------------------------------------------------------------------------------------------ *)
Definition field_tail (thunked : bool) (t : tyref) (ser : bool) (dth : presp -> st -> xres presp)
           (tv : presp) (s2 : st) (c0 : xres presp) : xres (option presp) :=
  let r1 := if thunked && negb (is_nonnull t) then XOk tv s2
            else match c0 with
                 | XRaise e s' => if thunked then XRaise e (set_escape s') else c0
                 | _ => c0
                 end in
  match catch_at t r1 with
  | XOk y s' =>
    if ser
    then match dth y s' with
         | XOk y' s'' => XOk (Some y') s''
         | XRaise e s'' => XRaise e s''
         | XFuel => XFuel
         end
    else XOk (Some y) s'
  | XRaise e s' => XRaise e s'
  | XFuel => XFuel
  end.

Definition field_run (cmp : tyref -> list N -> list occ -> path -> path -> rv -> st -> xres presp)
           (dth : presp -> st -> xres presp)
           (E : env) (obj : name) (src : rv) (k : name) (occs : list occ) (p : path)
           (fd : fielddef) (args : list (name * jv)) (s : st) : xres (option presp) :=
  let fname := match occs with o :: _ => oc_name o | [] => "" end in
  let nodes := map oc_id occs in
  let fp := p ++ [PKey k] in
  let s1 := add_call {| c_path := fp; c_parent := obj; c_field := fname; c_source := src;
                        c_args := args; c_nodes := nodes |} s in
  let ot := match en_or E fp with
            | Some o => force o
            | None => (OVal RNull, false)
            end in
  let s2 := match en_or E fp with Some _ => s1 | None => add_missing fp s1 end in
  field_tail (snd ot) (f_type fd) (en_serial E && match p with [] => true | _ => false end) dth
             (QThunk (f_type fd) nodes occs fp (fst ot)) s2
             (match fst ot with
              | OVal v => cmp (f_type fd) nodes occs fp fp v s2
              | _ => XRaise {| e_path := fp; e_nodes := nodes |} s2
              end).

Lemma exec_field_unfold : forall fuel' cmp dth E obj src k occs p s,
  exec_field fuel' cmp dth E obj src k occs p s =
  let fname := match occs with o :: _ => oc_name o | [] => "" end in
  let fargs := match occs with o :: _ => oc_args o | [] => [] end in
  if String.eqb fname "__typename" then XOk (Some (QLeaf (JStr obj))) s
  else match find_field fname (object_fields (en_S E) obj) with
       | None => XOk None s
       | Some fd =>
         match get_argument_values fuel' (en_S E) (f_args fd) fargs (Some (en_vars E)) with
         | None => XFuel
         | Some args => field_run cmp dth E obj src k occs p fd args s
         end
       end.
Proof.
  intros fuel' cmp dth E obj src k occs p s. unfold exec_field, field_run, field_tail. cbv zeta.
  destruct (String.eqb _ "__typename"); [reflexivity|].
  destruct (find_field _ (object_fields (en_S E) obj)) as [fd|]; [|reflexivity].
  destruct (get_argument_values fuel' (en_S E) (f_args fd) _ (Some (en_vars E))) as [args|]; [|reflexivity].
  destruct (match en_or E (p ++ [PKey k]) with Some o => force o | None => (OVal RNull, false) end) as [o thunked].
  reflexivity.
Qed.

(* a field that returns without raising is present iff its name is __typename or a field of obj *)
Definition selects (S : schema) (obj : name) (occs : list occ) : bool :=
  let fname := match occs with o :: _ => oc_name o | [] => "" end in
  String.eqb fname "__typename" ||
  match find_field fname (object_fields S obj) with Some _ => true | None => false end.

Lemma field_tail_some : forall th t ser dth tv s2 c0 y s',
  field_tail th t ser dth tv s2 c0 = XOk y s' -> exists q, y = Some q.
Proof.
  intros th t ser dth tv s2 c0 y s'. unfold field_tail. cbv zeta.
  destruct (catch_at t _) as [y0 s0|e0 s0|]; try discriminate.
  destruct ser.
  - destruct (dth y0 s0) as [y1 s1|e1 s1|]; try discriminate. intros H. inversion H. eexists; reflexivity.
  - intros H. inversion H. eexists; reflexivity.
Qed.

Lemma exec_field_shape : forall fuel' cmp dth E obj src k occs p s y s',
  exec_field fuel' cmp dth E obj src k occs p s = XOk y s' ->
  match y with Some _ => true | None => false end = selects (en_S E) obj occs.
Proof.
  intros fuel' cmp dth E obj src k occs p s y s'. rewrite exec_field_unfold. unfold selects. cbv zeta.
  destruct (String.eqb _ "__typename"); [intros H; inversion H; reflexivity|].
  destruct (find_field _ (object_fields (en_S E) obj)) as [fd|]; [|intros H; inversion H; reflexivity].
  destruct (get_argument_values fuel' (en_S E) (f_args fd) _ (Some (en_vars E))) as [args|]; [|discriminate].
  unfold field_run. cbv zeta. intros H. apply field_tail_some in H. destruct H as [q ->]. reflexivity.
Qed.

(* ------------------------------------------------------------------------------------------ *)
(* (1) frame: executions do not read the state they extend                                    *)
(* ------------------------------------------------------------------------------------------ *)
Lemma items_loop_lift : forall cmp,
  (forall i x s d, cmp i x (sapp s d) = xlift s (cmp i x d)) ->
  forall l i s d, items_loop cmp l i (sapp s d) = xlift s (items_loop cmp l i d).
Proof.
  intros cmp Hc. induction l as [|x l IH]; intros i s d; cbn [items_loop]; [reflexivity|].
  rewrite Hc. destruct (cmp i x d) as [y d'|e d'|]; cbn [xlift]; try reflexivity.
  rewrite IH. destruct (items_loop cmp l (i + 1)%N d') as [ys d''|e d''|]; reflexivity.
Qed.

Lemma dethunk_list_lift : forall f,
  (forall x s d, f x (sapp s d) = xlift s (f x d)) ->
  forall l s d, dethunk_list f l (sapp s d) = xlift s (dethunk_list f l d).
Proof.
  intros f Hf. induction l as [|x l IH]; intros s d; cbn [dethunk_list]; [reflexivity|].
  rewrite Hf. destruct (f x d) as [y d'|e d'|]; cbn [xlift]; try reflexivity.
  rewrite IH. destruct (dethunk_list f l d') as [ys d''|e d''|]; reflexivity.
Qed.

Lemma dethunk_fields_lift : forall f,
  (forall x s d, f x (sapp s d) = xlift s (f x d)) ->
  forall l s d, dethunk_fields f l (sapp s d) = xlift s (dethunk_fields f l d).
Proof.
  intros f Hf. induction l as [|[k x] l IH]; intros s d; cbn [dethunk_fields]; [reflexivity|].
  rewrite Hf. destruct (f x d) as [y d'|e d'|]; cbn [xlift]; try reflexivity.
  rewrite IH. destruct (dethunk_fields f l d') as [ys d''|e d''|]; reflexivity.
Qed.

Lemma field_tail_lift : forall th t ser dth tv s s2 c0,
  (forall y s0 d, dth y (sapp s0 d) = xlift s0 (dth y d)) ->
  field_tail th t ser dth tv (sapp s s2) (xlift s c0) = xlift s (field_tail th t ser dth tv s2 c0).
Proof.
  intros th t ser dth tv s s2 c0 Hd. unfold field_tail. cbv zeta.
  set (r1 := if th && negb (is_nonnull t) then XOk tv s2
             else match c0 with
                  | XRaise e s' => if th then XRaise e (set_escape s') else c0
                  | _ => c0
                  end).
  assert (Hr1 : (if th && negb (is_nonnull t) then XOk tv (sapp s s2)
                 else match xlift s c0 with
                      | XRaise e s' => if th then XRaise e (set_escape s') else xlift s c0
                      | _ => xlift s c0
                      end) = xlift s r1).
  { unfold r1. destruct (th && negb (is_nonnull t)); [reflexivity|].
    destruct c0 as [q d|e d|]; cbn [xlift]; try reflexivity.
    destruct th; [|reflexivity]. rewrite sapp_set_escape. reflexivity. }
  rewrite Hr1, catch_at_lift.
  destruct (catch_at t r1) as [y d|e d|]; cbn [xlift]; try reflexivity.
  destruct ser; [|reflexivity].
  rewrite Hd. destruct (dth y d) as [y' d'|e d'|]; reflexivity.
Qed.

Lemma exec_field_lift : forall fuel' cmp dth E obj src k occs p s d,
  (forall t nodes occs0 fpath p0 v s0 d0,
     cmp t nodes occs0 fpath p0 v (sapp s0 d0) = xlift s0 (cmp t nodes occs0 fpath p0 v d0)) ->
  (forall y s0 d0, dth y (sapp s0 d0) = xlift s0 (dth y d0)) ->
  exec_field fuel' cmp dth E obj src k occs p (sapp s d) = xlift s (exec_field fuel' cmp dth E obj src k occs p d).
Proof.
  intros fuel' cmp dth E obj src k occs p s d Hc Hd. rewrite !exec_field_unfold. cbv zeta.
  destruct (String.eqb _ "__typename"); [reflexivity|].
  destruct (find_field _ (object_fields (en_S E) obj)) as [fd|]; [|reflexivity].
  destruct (get_argument_values fuel' (en_S E) (f_args fd) _ (Some (en_vars E))) as [args|]; [|reflexivity].
  unfold field_run. cbv zeta. rewrite sapp_add_call.
  set (c := {| c_path := p ++ [PKey k]; c_parent := obj; c_field := _; c_source := src;
               c_args := args; c_nodes := map oc_id occs |}).
  set (ot := match en_or E (p ++ [PKey k]) with Some o => force o | None => (OVal RNull, false) end).
  assert (Hs2 : match en_or E (p ++ [PKey k]) with
                | Some _ => sapp s (add_call c d)
                | None => add_missing (p ++ [PKey k]) (sapp s (add_call c d))
                end = sapp s (match en_or E (p ++ [PKey k]) with
                              | Some _ => add_call c d
                              | None => add_missing (p ++ [PKey k]) (add_call c d)
                              end)).
  { destruct (en_or E (p ++ [PKey k])); [reflexivity|apply sapp_add_missing]. }
  rewrite Hs2.
  set (s2 := match en_or E (p ++ [PKey k]) with
             | Some _ => add_call c d
             | None => add_missing (p ++ [PKey k]) (add_call c d)
             end).
  assert (Hc0 : match fst ot with
                | OVal v => cmp (f_type fd) (map oc_id occs) occs (p ++ [PKey k]) (p ++ [PKey k]) v (sapp s s2)
                | _ => XRaise {| e_path := p ++ [PKey k]; e_nodes := map oc_id occs |} (sapp s s2)
                end = xlift s match fst ot with
                              | OVal v => cmp (f_type fd) (map oc_id occs) occs (p ++ [PKey k]) (p ++ [PKey k]) v s2
                              | _ => XRaise {| e_path := p ++ [PKey k]; e_nodes := map oc_id occs |} s2
                              end).
  { destruct (fst ot); try reflexivity. apply Hc. }
  rewrite Hc0. apply field_tail_lift. exact Hd.
Qed.

Definition PF (fuel : nat) : Prop :=
  (forall E t nodes occs fpath p v s d,
     complete fuel E t nodes occs fpath p v (sapp s d) = xlift s (complete fuel E t nodes occs fpath p v d)) /\
  (forall E obj occs p src s d,
     exec_object fuel E obj occs p src (sapp s d) = xlift s (exec_object fuel E obj occs p src d)) /\
  (forall E obj src g p s d,
     exec_groups fuel E obj src g p (sapp s d) = xlift s (exec_groups fuel E obj src g p d)) /\
  (forall E q s d, dethunk fuel E q (sapp s d) = xlift s (dethunk fuel E q d)).

Lemma frame_inv : forall fuel, PF fuel.
Proof.
  induction fuel as [|fuel [IHc [IHo [IHg IHd]]]].
  - repeat split; intros; reflexivity.
  - repeat split.
    + (* complete *)
      intros E t nodes occs fpath p v s d. cbn [complete].
      destruct t as [n|t'|t'].
      * destruct (rv_nullish v); [reflexivity|].
        destruct (lookup_type (en_S E) n) as [[k|vals|fs ifs|fs|ms|fs]|]; try reflexivity.
        -- apply IHo.
        -- cbv zeta. rewrite sapp_add_tcall. destruct (en_tor E v) as [rt|]; [|reflexivity].
           destruct (possible_type (en_S E) n rt); [apply IHo|reflexivity].
        -- cbv zeta. rewrite sapp_add_tcall. destruct (en_tor E v) as [rt|]; [|reflexivity].
           destruct (possible_type (en_S E) n rt); [apply IHo|reflexivity].
      * destruct (rv_nullish v); [reflexivity|].
        destruct v; try reflexivity.
        rewrite (items_loop_lift (fun i x s0 => catch_at t' (complete fuel E t' nodes occs fpath (p ++ [PIdx i]) x s0))).
        -- destruct (items_loop _ l 0%N d) as [ys d'|e d'|]; reflexivity.
        -- intros i x s0 d0. cbn beta. rewrite IHc. apply catch_at_lift.
      * rewrite IHc.
        destruct (complete fuel E t' nodes occs fpath p v d) as [q d'|e d'|]; cbn [xlift]; try reflexivity.
        destruct q; reflexivity.
    + (* exec_object *)
      intros E obj occs p src s d. cbn [exec_object].
      destruct (collect_all fuel (en_S E) (en_D E) (en_vars E) obj (map oc_sub occs) [] []) as [g|]; [|reflexivity].
      rewrite IHg. destruct (exec_groups fuel E obj src g p d) as [fs d'|e d'|]; reflexivity.
    + (* exec_groups *)
      intros E obj src g p s d. cbn [exec_groups].
      destruct g as [|[k occs] rest]; [reflexivity|].
      rewrite (exec_field_lift fuel (complete fuel E) (dethunk fuel E) E obj src k occs p s d (IHc E) (IHd E)).
      destruct (exec_field fuel (complete fuel E) (dethunk fuel E) E obj src k occs p d) as [y d'|e d'|];
        cbn [xlift]; try reflexivity.
      rewrite IHg. destruct (exec_groups fuel E obj src rest p d') as [ys d''|e d''|]; reflexivity.
    + (* dethunk *)
      intros E q s d. cbn [dethunk].
      destruct q as [|v|l|l|t nodes occs tp o]; try reflexivity.
      * rewrite (dethunk_list_lift (dethunk fuel E) (IHd E)).
        destruct (dethunk_list (dethunk fuel E) l d) as [ys d'|e d'|]; reflexivity.
      * rewrite (dethunk_fields_lift (dethunk fuel E) (IHd E)).
        destruct (dethunk_fields (dethunk fuel E) l d) as [ys d'|e d'|]; reflexivity.
      * cbv zeta.
        assert (Hr : match o with
                     | OVal v => complete fuel E t nodes occs tp tp v (sapp s d)
                     | _ => XRaise {| e_path := tp; e_nodes := nodes |} (sapp s d)
                     end = xlift s match o with
                                   | OVal v => complete fuel E t nodes occs tp tp v d
                                   | _ => XRaise {| e_path := tp; e_nodes := nodes |} d
                                   end).
        { destruct o; try reflexivity. apply IHc. }
        rewrite Hr, catch_at_lift.
        destruct (catch_at t _) as [y d'|e d'|]; cbn [xlift]; try reflexivity.
        apply IHd.
Qed.

(* run from any state, an execution yields its run from the empty state, put after that state *)
Lemma exec_field_frame : forall fuel E obj src k occs p s,
  exec_field fuel (complete fuel E) (dethunk fuel E) E obj src k occs p s =
  xlift s (exec_field fuel (complete fuel E) (dethunk fuel E) E obj src k occs p st0).
Proof.
  intros fuel E obj src k occs p s. destruct (frame_inv fuel) as [Fc [_ [_ Fd]]].
  pose proof (exec_field_lift fuel (complete fuel E) (dethunk fuel E) E obj src k occs p s st0 (Fc E) (Fd E)) as H.
  rewrite sapp_st0_r in H. exact H.
Qed.

Lemma dethunk_frame : forall fuel E q s, dethunk fuel E q s = xlift s (dethunk fuel E q st0).
Proof.
  intros fuel E q s. pose proof (proj2 (proj2 (proj2 (frame_inv fuel))) E q s st0) as H.
  rewrite sapp_st0_r in H. exact H.
Qed.

Lemma exec_groups_frame : forall fuel E obj src g p s,
  exec_groups fuel E obj src g p s = xlift s (exec_groups fuel E obj src g p st0).
Proof.
  intros fuel E obj src g p s. pose proof (proj1 (proj2 (proj2 (frame_inv fuel))) E obj src g p s st0) as H.
  rewrite sapp_st0_r in H. exact H.
Qed.

Lemma complete_frame : forall fuel E t nodes occs fpath p v s,
  complete fuel E t nodes occs fpath p v s = xlift s (complete fuel E t nodes occs fpath p v st0).
Proof.
  intros fuel E t nodes occs fpath p v s. pose proof (proj1 (frame_inv fuel) E t nodes occs fpath p v s st0) as H.
  rewrite sapp_st0_r in H. exact H.
Qed.

(* ------------------------------------------------------------------------------------------ *)
(* (2) locality: an execution at p consults the resolver oracle only below p                  *)
(* ------------------------------------------------------------------------------------------ *)
(* the environment E with another resolver oracle *)
Definition set_or (E : env) (o : oracle) : env :=
  {| en_S := en_S E; en_D := en_D E; en_vars := en_vars E; en_or := o; en_tor := en_tor E;
     en_serial := en_serial E |}.

Definition agree_under (p : path) (o1 o2 : oracle) : Prop := forall q, prefix p q -> o1 q = o2 q.

Lemma agree_under_weaken : forall p p' o1 o2, prefix p p' -> agree_under p o1 o2 -> agree_under p' o1 o2.
Proof. intros p p' o1 o2 Hp H q Hq. apply H. eapply prefix_trans; eassumption. Qed.

Lemma items_loop_ext : forall cmp1 cmp2,
  (forall i x s, cmp1 i x s = cmp2 i x s) ->
  forall l i s, items_loop cmp1 l i s = items_loop cmp2 l i s.
Proof.
  intros cmp1 cmp2 Hc. induction l as [|x l IH]; intros i s; cbn [items_loop]; [reflexivity|].
  rewrite Hc. destruct (cmp2 i x s) as [y s'|e s'|]; try reflexivity. rewrite IH. reflexivity.
Qed.

Lemma dethunk_list_ext : forall f1 f2 p,
  (forall x s, thunks_ok p x -> f1 x s = f2 x s) ->
  forall l s, Forall (thunks_ok p) l -> dethunk_list f1 l s = dethunk_list f2 l s.
Proof.
  intros f1 f2 p Hf. induction l as [|x l IH]; intros s Hl; cbn [dethunk_list]; [reflexivity|].
  inversion Hl; subst. rewrite (Hf x s H1).
  destruct (f2 x s) as [y s'|e s'|]; try reflexivity. rewrite (IH s' H2). reflexivity.
Qed.

Lemma dethunk_fields_ext : forall f1 f2 p,
  (forall x s, thunks_ok p x -> f1 x s = f2 x s) ->
  forall l s, Forall (fun kv => thunks_ok p (snd kv)) l -> dethunk_fields f1 l s = dethunk_fields f2 l s.
Proof.
  intros f1 f2 p Hf. induction l as [|[k x] l IH]; intros s Hl; cbn [dethunk_fields]; [reflexivity|].
  inversion Hl; subst. cbn [snd] in H1. rewrite (Hf x s H1).
  destruct (f2 x s) as [y s'|e s'|]; try reflexivity. rewrite (IH s' H2). reflexivity.
Qed.

Lemma thunks_ok_qnull : forall p, thunks_ok p QNull.
Proof. intro p. unfold thunks_ok. cbn. constructor. Qed.

Lemma field_tail_ext : forall th t ser dth1 dth2 tv s2 c0 fp,
  (forall y s', thunks_ok fp y -> dth1 y s' = dth2 y s') ->
  (is_nonnull t = false -> thunks_ok fp tv) ->
  match c0 with XOk q _ => thunks_ok fp q | _ => True end ->
  field_tail th t ser dth1 tv s2 c0 = field_tail th t ser dth2 tv s2 c0.
Proof.
  intros th t ser dth1 dth2 tv s2 c0 fp Hd Htv Hc0. unfold field_tail. cbv zeta.
  set (r1 := if th && negb (is_nonnull t) then XOk tv s2
             else match c0 with
                  | XRaise e s' => if th then XRaise e (set_escape s') else c0
                  | _ => c0
                  end).
  assert (Hr1 : match catch_at t r1 with XOk y _ => thunks_ok fp y | _ => True end).
  { unfold r1. destruct (th && negb (is_nonnull t)) eqn:Et.
    - cbn. apply Htv. apply andb_true_iff in Et. destruct Et as [_ Et].
      destruct (is_nonnull t); [discriminate|reflexivity].
    - destruct c0 as [q s0|e s0|]; cbn; [exact Hc0| |exact I].
      destruct th; cbn; destruct (is_nonnull t); cbn; try exact I; apply thunks_ok_qnull. }
  destruct (catch_at t r1) as [y s'|e s'|]; try reflexivity.
  destruct ser; [|reflexivity]. rewrite (Hd y s' Hr1). reflexivity.
Qed.

Lemma exec_field_ext : forall fuel' cmp1 cmp2 dth1 dth2 E o2 obj src k occs p s,
  en_or E (p ++ [PKey k]) = o2 (p ++ [PKey k]) ->
  (forall t nodes occs0 v s0,
     cmp1 t nodes occs0 (p ++ [PKey k]) (p ++ [PKey k]) v s0 = cmp2 t nodes occs0 (p ++ [PKey k]) (p ++ [PKey k]) v s0) ->
  (forall t nodes occs0 fpath p0 v s0, inv1 p0 s0 (cmp1 t nodes occs0 fpath p0 v s0)) ->
  (forall y s', thunks_ok (p ++ [PKey k]) y -> dth1 y s' = dth2 y s') ->
  exec_field fuel' cmp1 dth1 E obj src k occs p s = exec_field fuel' cmp2 dth2 (set_or E o2) obj src k occs p s.
Proof.
  intros fuel' cmp1 cmp2 dth1 dth2 E o2 obj src k occs p s Hor Hc Hi Hd. rewrite !exec_field_unfold. cbv zeta.
  change (en_S (set_or E o2)) with (en_S E). change (en_vars (set_or E o2)) with (en_vars E).
  destruct (String.eqb _ "__typename"); [reflexivity|].
  destruct (find_field _ (object_fields (en_S E) obj)) as [fd|]; [|reflexivity].
  destruct (get_argument_values fuel' (en_S E) (f_args fd) _ (Some (en_vars E))) as [args|]; [|reflexivity].
  unfold field_run. cbv zeta.
  change (en_or (set_or E o2)) with o2. change (en_serial (set_or E o2)) with (en_serial E).
  rewrite <- Hor.
  set (ot := match en_or E (p ++ [PKey k]) with Some o => force o | None => (OVal RNull, false) end).
  set (s2 := match en_or E (p ++ [PKey k]) with Some _ => _ | None => _ end).
  assert (Hc0 : match fst ot with
                | OVal v => cmp2 (f_type fd) (map oc_id occs) occs (p ++ [PKey k]) (p ++ [PKey k]) v s2
                | _ => XRaise {| e_path := p ++ [PKey k]; e_nodes := map oc_id occs |} s2
                end = match fst ot with
                      | OVal v => cmp1 (f_type fd) (map oc_id occs) occs (p ++ [PKey k]) (p ++ [PKey k]) v s2
                      | _ => XRaise {| e_path := p ++ [PKey k]; e_nodes := map oc_id occs |} s2
                      end).
  { destruct (fst ot); try reflexivity. symmetry. apply Hc. }
  rewrite Hc0. apply (field_tail_ext _ _ _ dth1 dth2 _ _ _ (p ++ [PKey k]) Hd).
  - intros Hn. unfold thunks_ok. cbn. constructor; [|constructor]. split; cbn; [exact Hn|apply prefix_refl].
  - destruct (fst ot); try exact I.
    pose proof (Hi (f_type fd) (map oc_id occs) occs (p ++ [PKey k]) (p ++ [PKey k]) v s2) as H.
    destruct (cmp1 _ _ _ _ _ v s2) as [q s0|e s0|]; try exact I. exact (proj2 H).
Qed.

Definition PL (fuel : nat) : Prop :=
  (forall E o2 t nodes occs fpath p v s, agree_under p (en_or E) o2 ->
     complete fuel E t nodes occs fpath p v s = complete fuel (set_or E o2) t nodes occs fpath p v s) /\
  (forall E o2 obj occs p src s, agree_under p (en_or E) o2 ->
     exec_object fuel E obj occs p src s = exec_object fuel (set_or E o2) obj occs p src s) /\
  (forall E o2 obj src g p s, agree_under p (en_or E) o2 ->
     exec_groups fuel E obj src g p s = exec_groups fuel (set_or E o2) obj src g p s) /\
  (forall E o2 q s p, agree_under p (en_or E) o2 -> thunks_ok p q ->
     dethunk fuel E q s = dethunk fuel (set_or E o2) q s).

Lemma local_inv : forall fuel, PL fuel.
Proof.
  induction fuel as [|fuel [IHc [IHo [IHg IHd]]]].
  - repeat split; intros; reflexivity.
  - destruct (exec_inv fuel) as [XIc [_ [_ XId]]].
    repeat split.
    + (* complete *)
      intros E o2 t nodes occs fpath p v s Ha. cbn [complete].
      change (en_S (set_or E o2)) with (en_S E). change (en_tor (set_or E o2)) with (en_tor E).
      destruct t as [n|t'|t'].
      * destruct (rv_nullish v); [reflexivity|].
        destruct (lookup_type (en_S E) n) as [[k|vals|fs ifs|fs|ms|fs]|]; try reflexivity.
        -- apply IHo. exact Ha.
        -- cbv zeta. destruct (en_tor E v) as [rt|]; [|reflexivity].
           destruct (possible_type (en_S E) n rt); [apply IHo; exact Ha|reflexivity].
        -- cbv zeta. destruct (en_tor E v) as [rt|]; [|reflexivity].
           destruct (possible_type (en_S E) n rt); [apply IHo; exact Ha|reflexivity].
      * destruct (rv_nullish v); [reflexivity|].
        destruct v; try reflexivity.
        rewrite (items_loop_ext
                   (fun i x s0 => catch_at t' (complete fuel E t' nodes occs fpath (p ++ [PIdx i]) x s0))
                   (fun i x s0 => catch_at t' (complete fuel (set_or E o2) t' nodes occs fpath (p ++ [PIdx i]) x s0))).
        -- reflexivity.
        -- intros i x s0. cbn beta. f_equal. apply IHc.
           eapply agree_under_weaken; [apply prefix_app|exact Ha].
      * rewrite (IHc E o2 t' nodes occs fpath p v s Ha). reflexivity.
    + (* exec_object *)
      intros E o2 obj occs p src s Ha. cbn [exec_object].
      change (en_S (set_or E o2)) with (en_S E). change (en_D (set_or E o2)) with (en_D E).
      change (en_vars (set_or E o2)) with (en_vars E).
      destruct (collect_all fuel (en_S E) (en_D E) (en_vars E) obj (map oc_sub occs) [] []) as [g|]; [|reflexivity].
      rewrite (IHg E o2 obj src g p s Ha). reflexivity.
    + (* exec_groups *)
      intros E o2 obj src g p s Ha. cbn [exec_groups].
      destruct g as [|[k occs] rest]; [reflexivity|].
      assert (Hak : agree_under (p ++ [PKey k]) (en_or E) o2)
        by (eapply agree_under_weaken; [apply prefix_app|exact Ha]).
      rewrite (exec_field_ext fuel (complete fuel E) (complete fuel (set_or E o2))
                              (dethunk fuel E) (dethunk fuel (set_or E o2)) E o2 obj src k occs p s).
      * destruct (exec_field fuel _ _ (set_or E o2) obj src k occs p s) as [y s'|e s'|]; try reflexivity.
        rewrite (IHg E o2 obj src rest p s' Ha). reflexivity.
      * apply Ha. apply prefix_app.
      * intros t nodes occs0 v s0. apply IHc. exact Hak.
      * intros t nodes occs0 fpath p0 v s0. apply XIc.
      * intros y s' Hy. apply (IHd E o2 y s' (p ++ [PKey k]) Hak Hy).
    + (* dethunk *)
      intros E o2 q s p Ha Hq. cbn [dethunk].
      destruct q as [|v|l|l|t nodes occs tp o]; try reflexivity.
      * rewrite (dethunk_list_ext (dethunk fuel E) (dethunk fuel (set_or E o2)) p
                   (fun x s0 Hx => IHd E o2 x s0 p Ha Hx) l s (thunks_ok_list p l Hq)).
        reflexivity.
      * rewrite (dethunk_fields_ext (dethunk fuel E) (dethunk fuel (set_or E o2)) p
                   (fun x s0 Hx => IHd E o2 x s0 p Ha Hx) l s (thunks_ok_obj p l Hq)).
        reflexivity.
      * cbv zeta.
        unfold thunks_ok in Hq. cbn [thunks] in Hq. inversion Hq as [|x l0 [Hnn Hpre] _]; subst. cbn [fst snd] in *.
        assert (Hat : agree_under tp (en_or E) o2) by (eapply agree_under_weaken; eassumption).
        assert (Hr : match o with
                     | OVal v => complete fuel (set_or E o2) t nodes occs tp tp v s
                     | _ => XRaise {| e_path := tp; e_nodes := nodes |} s
                     end = match o with
                           | OVal v => complete fuel E t nodes occs tp tp v s
                           | _ => XRaise {| e_path := tp; e_nodes := nodes |} s
                           end).
        { destruct o; try reflexivity. symmetry. apply IHc. exact Hat. }
        rewrite Hr.
        assert (Hc : inv1 tp s (match o with
                                 | OVal v => complete fuel E t nodes occs tp tp v s
                                 | _ => XRaise {| e_path := tp; e_nodes := nodes |} s
                                 end)).
        { destruct o; try (cbn; split; [apply ext_refl|apply prefix_refl]). apply XIc. }
        pose proof (inv1_catch tp s t _ Hc) as Hcatch.
        destruct (catch_at t _) as [y s'|e s'|]; cbn in Hcatch; try reflexivity.
        apply (IHd E o2 y s' tp Hat (proj2 Hcatch)).
Qed.

(* ------------------------------------------------------------------------------------------ *)
(* (3) isolation of sibling fields                                                            *)
(* ------------------------------------------------------------------------------------------ *)
(* decidable prefix test, to select the part of a trace that lies outside a subtree *)
Lemma pseg_eqb_eq : forall a b, pseg_eqb a b = true <-> a = b.
Proof.
  intros [x|x] [y|y]; cbn; split; intros H; try discriminate.
  - apply String.eqb_eq in H. subst. reflexivity.
  - inversion H. apply String.eqb_refl.
  - apply N.eqb_eq in H. subst. reflexivity.
  - inversion H. apply N.eqb_refl.
Qed.

Fixpoint prefixb (p q : path) : bool :=
  match p, q with
  | [], _ => true
  | x :: p', y :: q' => pseg_eqb x y && prefixb p' q'
  | _ :: _, [] => false
  end.

Lemma prefixb_spec : forall p q, prefixb p q = true <-> prefix p q.
Proof.
  induction p as [|x p IH]; intros q; cbn [prefixb].
  - split; [intros _; exists q; reflexivity|reflexivity].
  - destruct q as [|y q].
    + split; [discriminate|]. intros [r H]. discriminate.
    + rewrite andb_true_iff, pseg_eqb_eq, IH. split.
      * intros [-> [r ->]]. exists r. reflexivity.
      * intros [r H]. cbn in H. inversion H. split; [reflexivity|exists r; reflexivity].
Qed.

(* errors / resolver invocations recorded outside the subtree at fp, in the order recorded *)
Definition errs_out (fp : path) (s : st) : list gerr :=
  filter (fun e => negb (prefixb fp (e_path e))) (st_errs s).
Definition calls_out (fp : path) (s : st) : list call :=
  filter (fun c => negb (prefixb fp (c_path c))) (st_calls s).
Definition out_eq (fp : path) (s1 s2 : st) : Prop :=
  errs_out fp s1 = errs_out fp s2 /\ calls_out fp s1 = calls_out fp s2.

Lemma out_eq_refl : forall fp s, out_eq fp s s.
Proof. intros. split; reflexivity. Qed.

Lemma filter_all_under : forall A (f : A -> path) fp l,
  Forall (fun a => prefix fp (f a)) l -> filter (fun a => negb (prefixb fp (f a))) l = [].
Proof.
  intros A f fp l H. induction H as [|a l Ha _ IH]; [reflexivity|].
  cbn [filter]. apply prefixb_spec in Ha. rewrite Ha. cbn. exact IH.
Qed.

Lemma out_eq_same_delta : forall fp s1 s2 d, out_eq fp s1 s2 -> out_eq fp (sapp s1 d) (sapp s2 d).
Proof.
  intros fp s1 s2 d [H1 H2]. unfold out_eq, errs_out, calls_out in *. cbn [sapp st_errs st_calls].
  rewrite !filter_app, H1, H2. split; reflexivity.
Qed.

Lemma out_eq_under : forall fp s1 s2 s1' s2',
  out_eq fp s1 s2 -> ext fp s1 s1' -> ext fp s2 s2' -> out_eq fp s1' s2'.
Proof.
  intros fp s1 s2 s1' s2' [H1 H2] [[c1 [C1 D1]] [e1 [E1 F1]]] [[c2 [C2 D2]] [e2 [E2 F2]]].
  unfold out_eq, errs_out, calls_out in *. rewrite C1, C2, E1, E2, !filter_app.
  rewrite (filter_all_under _ e_path fp e1 F1), (filter_all_under _ e_path fp e2 F2).
  rewrite (filter_all_under _ c_path fp c1 D1), (filter_all_under _ c_path fp c2 D2).
  rewrite !app_nil_r. split; assumption.
Qed.

(* two field lists that differ at most in the values of key k *)
Definition sib (k : name) (a b : name * presp) : Prop := fst a = fst b /\ (fst a <> k -> snd a = snd b).

Lemma sibs_alookup : forall k l1 l2, Forall2 (sib k) l1 l2 ->
  forall k', k' <> k -> alookup k' l1 = alookup k' l2.
Proof.
  intros k l1 l2 H k' Hk. induction H as [|[ka a] [kb b] l1 l2 [Hf Hs] _ IH]; [reflexivity|].
  cbn [fst snd] in Hf, Hs. subst kb. cbn [alookup].
  destruct (String.eqb k' ka) eqn:Ek; [|exact IH].
  apply String.eqb_eq in Ek. subst ka. rewrite (Hs Hk). reflexivity.
Qed.

Lemma sibs_keys : forall k l1 l2, Forall2 (sib k) l1 l2 -> map fst l1 = map fst l2.
Proof.
  intros k l1 l2 H. induction H as [|a b l1 l2 [Hf _] _ IH]; [reflexivity|].
  cbn [map]. rewrite Hf, IH. reflexivity.
Qed.

(* every entry's deferred values lie under the entry's own path *)
Definition keyed_ok (p : path) (kv : name * presp) : Prop := thunks_ok (p ++ [PKey (fst kv)]) (snd kv).

(* two oracles that agree outside the subtree at fp *)
Definition agree_outside (fp : path) (o1 o2 : oracle) : Prop := forall q, ~ prefix fp q -> o1 q = o2 q.

Lemma agree_outside_sibling : forall p k k0 o1 o2, k0 <> k ->
  agree_outside (p ++ [PKey k]) o1 o2 -> agree_under (p ++ [PKey k0]) o1 o2.
Proof.
  intros p k k0 o1 o2 Hk H q Hq. apply H. intro Hq'.
  pose proof (snoc_apart p _ _ q Hq Hq') as E. inversion E. exact (Hk H1).
Qed.

Lemma agree_outside_weaken : forall fp fp' o1 o2, prefix fp fp' ->
  agree_outside fp' o1 o2 -> agree_outside fp o1 o2.
Proof. intros fp fp' o1 o2 Hp H q Hq. apply H. intro Hq'. apply Hq. eapply prefix_trans; eassumption. Qed.

(* a sibling field: same result, same state increment, in both runs *)
Lemma exec_field_sim : forall fuel E o2 obj src k occs p s1 s2,
  agree_under (p ++ [PKey k]) (en_or E) o2 ->
  exists r0,
    exec_field fuel (complete fuel E) (dethunk fuel E) E obj src k occs p s1 = xlift s1 r0 /\
    exec_field fuel (complete fuel (set_or E o2)) (dethunk fuel (set_or E o2)) (set_or E o2) obj src k occs p s2
    = xlift s2 r0.
Proof.
  intros fuel E o2 obj src k occs p s1 s2 Ha.
  exists (exec_field fuel (complete fuel E) (dethunk fuel E) E obj src k occs p st0).
  split; [apply exec_field_frame|].
  rewrite (exec_field_frame fuel (set_or E o2)). f_equal.
  destruct (local_inv fuel) as [Lc [_ [_ Ld]]]. destruct (exec_inv fuel) as [XIc _].
  symmetry. apply exec_field_ext.
  - apply Ha. apply prefix_refl.
  - intros t nodes occs0 v s0. apply Lc. exact Ha.
  - intros t nodes occs0 fpath p0 v s0. apply XIc.
  - intros y s' Hy. apply (Ld E o2 y s' (p ++ [PKey k]) Ha Hy).
Qed.

Lemma dethunk_sim : forall fuel E o2 q p s1 s2,
  agree_under p (en_or E) o2 -> thunks_ok p q ->
  exists r0, dethunk fuel E q s1 = xlift s1 r0 /\ dethunk fuel (set_or E o2) q s2 = xlift s2 r0.
Proof.
  intros fuel E o2 q p s1 s2 Ha Hq. exists (dethunk fuel E q st0).
  split; [apply dethunk_frame|]. rewrite (dethunk_frame fuel (set_or E o2)). f_equal.
  symmetry. apply (proj2 (proj2 (proj2 (local_inv fuel))) E o2 q st0 p Ha Hq).
Qed.

(* ExecuteSelectionSet: the two runs may start from different states *)
Lemma groups_iso : forall fuel E o2 obj src p k,
  agree_outside (p ++ [PKey k]) (en_or E) o2 ->
  forall g s1 s2 fs1 s1' fs2 s2',
    exec_groups fuel E obj src g p s1 = XOk fs1 s1' ->
    exec_groups fuel (set_or E o2) obj src g p s2 = XOk fs2 s2' ->
    Forall2 (sib k) fs1 fs2 /\ Forall (keyed_ok p) fs1 /\ Forall (keyed_ok p) fs2 /\
    (out_eq (p ++ [PKey k]) s1 s2 -> out_eq (p ++ [PKey k]) s1' s2').
Proof.
  induction fuel as [|fuel IH]; intros E o2 obj src p k Ha g s1 s2 fs1 s1' fs2 s2' H1 H2; [discriminate|].
  cbn [exec_groups] in H1, H2.
  destruct g as [|[k0 occs] rest].
  { inversion H1; inversion H2; subst. split; [constructor|]. split; [constructor|]. split; [constructor|]. auto. }
  destruct (exec_inv fuel) as [XIc [_ [_ XId]]].
  pose proof (proj1 (exec_field_inv fuel (complete fuel E) (dethunk fuel E) E obj src k0 occs p s1
                       (fun t nodes occs0 fpath p0 v s0 => XIc E t nodes occs0 fpath p0 v s0)
                       (fun q s0 p0 H0 => XId E q s0 p0 H0))) as I1.
  pose proof (proj1 (exec_field_inv fuel (complete fuel (set_or E o2)) (dethunk fuel (set_or E o2)) (set_or E o2)
                       obj src k0 occs p s2
                       (fun t nodes occs0 fpath p0 v s0 => XIc (set_or E o2) t nodes occs0 fpath p0 v s0)
                       (fun q s0 p0 H0 => XId (set_or E o2) q s0 p0 H0))) as I2.
  destruct (exec_field fuel (complete fuel E) (dethunk fuel E) E obj src k0 occs p s1) as [y1 t1|e1 t1|] eqn:F1;
    try discriminate.
  destruct (exec_groups fuel E obj src rest p t1) as [ys1 u1|e1 u1|] eqn:G1; try discriminate.
  destruct (exec_field fuel (complete fuel (set_or E o2)) (dethunk fuel (set_or E o2)) (set_or E o2) obj src k0 occs p s2)
    as [y2 t2|e2 t2|] eqn:F2; try discriminate.
  destruct (exec_groups fuel (set_or E o2) obj src rest p t2) as [ys2 u2|e2 u2|] eqn:G2; try discriminate.
  inversion H1; inversion H2; subst. clear H1 H2.
  destruct (IH E o2 obj src p k Ha rest t1 t2 ys1 s1' ys2 s2' G1 G2) as [Hsib [Hk1 [Hk2 Hout]]].
  cbn in I1, I2. destruct I1 as [X1 T1]. destruct I2 as [X2 T2].
  assert (Hkey1 : Forall (keyed_ok p) match y1 with Some y => (k0, y) :: ys1 | None => ys1 end)
    by (destruct y1; [constructor; [exact T1|exact Hk1]|exact Hk1]).
  assert (Hkey2 : Forall (keyed_ok p) match y2 with Some y => (k0, y) :: ys2 | None => ys2 end)
    by (destruct y2; [constructor; [exact T2|exact Hk2]|exact Hk2]).
  split; [|split; [exact Hkey1|split; [exact Hkey2|]]].
  - destruct (string_dec k0 k) as [->|Hne].
    + pose proof (exec_field_shape _ _ _ _ _ _ _ _ _ _ _ _ F1) as S1.
      pose proof (exec_field_shape _ _ _ _ _ _ _ _ _ _ _ _ F2) as S2.
      change (en_S (set_or E o2)) with (en_S E) in S2. rewrite <- S1 in S2.
      destruct y1, y2; try discriminate; [|exact Hsib].
      constructor; [|exact Hsib]. split; [reflexivity|]. cbn [fst]. intros Hc. exfalso. apply Hc. reflexivity.
    + destruct (exec_field_sim fuel E o2 obj src k0 occs p s1 s2 (agree_outside_sibling p k k0 _ _ Hne Ha))
        as [r0 [R1 R2]].
      rewrite F1 in R1. rewrite F2 in R2.
      destruct r0 as [a d|e d|]; cbn [xlift] in R1, R2; try discriminate.
      inversion R1; inversion R2; subst.
      destruct a; [|exact Hsib]. constructor; [|exact Hsib]. split; [reflexivity|]. intros _. reflexivity.
  - intros Ho. apply Hout.
    destruct (string_dec k0 k) as [->|Hne].
    + eapply out_eq_under; eassumption.
    + destruct (exec_field_sim fuel E o2 obj src k0 occs p s1 s2 (agree_outside_sibling p k k0 _ _ Hne Ha))
        as [r0 [R1 R2]].
      rewrite F1 in R1. rewrite F2 in R2.
      destruct r0 as [a d|e d|]; cbn [xlift] in R1, R2; try discriminate.
      inversion R1; inversion R2; subst. apply out_eq_same_delta. exact Ho.
Qed.

(* the dethunk pass over two such field lists *)
Lemma dethunk_fields_iso : forall fuel E o2 p k,
  agree_outside (p ++ [PKey k]) (en_or E) o2 ->
  forall l1 l2, Forall2 (sib k) l1 l2 -> Forall (keyed_ok p) l1 -> Forall (keyed_ok p) l2 ->
  forall s1 s2 ys1 s1' ys2 s2',
    dethunk_fields (dethunk fuel E) l1 s1 = XOk ys1 s1' ->
    dethunk_fields (dethunk fuel (set_or E o2)) l2 s2 = XOk ys2 s2' ->
    Forall2 (sib k) ys1 ys2 /\ (out_eq (p ++ [PKey k]) s1 s2 -> out_eq (p ++ [PKey k]) s1' s2').
Proof.
  intros fuel E o2 p k Ha l1 l2 Hs. destruct (exec_inv fuel) as [_ [_ [_ XId]]].
  induction Hs as [|[ka a] [kb b] l1 l2 [Hf Hv] _ IH]; intros K1 K2 s1 s2 ys1 s1' ys2 s2' H1 H2.
  { cbn in H1, H2. inversion H1; inversion H2; subst. split; [constructor|auto]. }
  cbn [fst snd] in Hf, Hv. subst kb. cbn [dethunk_fields] in H1, H2.
  inversion K1 as [|? ? Ka K1']; subst. inversion K2 as [|? ? Kb K2']; subst.
  unfold keyed_ok in Ka, Kb. cbn [fst snd] in Ka, Kb.
  pose proof (XId E a s1 _ Ka) as I1. pose proof (XId (set_or E o2) b s2 _ Kb) as I2.
  destruct (dethunk fuel E a s1) as [y1 t1|e1 t1|] eqn:F1; try discriminate.
  destruct (dethunk_fields (dethunk fuel E) l1 t1) as [zs1 u1|e1 u1|] eqn:G1; try discriminate.
  destruct (dethunk fuel (set_or E o2) b s2) as [y2 t2|e2 t2|] eqn:F2; try discriminate.
  destruct (dethunk_fields (dethunk fuel (set_or E o2)) l2 t2) as [zs2 u2|e2 u2|] eqn:G2; try discriminate.
  inversion H1; inversion H2; subst. clear H1 H2.
  destruct (IH K1' K2' t1 t2 zs1 s1' zs2 s2' G1 G2) as [Hsib Hout].
  cbn in I1, I2. destruct I1 as [X1 _]. destruct I2 as [X2 _].
  destruct (string_dec ka k) as [->|Hne].
  - split.
    + constructor; [|exact Hsib]. split; [reflexivity|]. cbn [fst]. intros Hc. exfalso. apply Hc. reflexivity.
    + intros Ho. apply Hout. eapply out_eq_under; eassumption.
  - specialize (Hv Hne). subst b.
    destruct (dethunk_sim fuel E o2 a (p ++ [PKey ka]) s1 s2 (agree_outside_sibling p k ka _ _ Hne Ha) Ka)
      as [r0 [R1 R2]].
    rewrite F1 in R1. rewrite F2 in R2.
    destruct r0 as [q d|e d|]; cbn [xlift] in R1, R2; try discriminate.
    inversion R1; inversion R2; subst. split.
    + constructor; [|exact Hsib]. split; [reflexivity|]. intros _. reflexivity.
    + intros Ho. apply Hout. apply out_eq_same_delta. exact Ho.
Qed.

(* ------------------------------------------------------------------------------------------ *)
(* the theorems                                                                               *)
(* ------------------------------------------------------------------------------------------ *)
(* two environments that differ at most in the resolver oracle *)
Record same_but_oracle (E1 E2 : env) : Prop := {
  sbo_S : en_S E1 = en_S E2; sbo_D : en_D E1 = en_D E2; sbo_vars : en_vars E1 = en_vars E2;
  sbo_tor : en_tor E1 = en_tor E2; sbo_serial : en_serial E1 = en_serial E2 }.

Lemma same_but_oracle_set : forall E1 E2, same_but_oracle E1 E2 -> E2 = set_or E1 (en_or E2).
Proof.
  intros [S1 D1 v1 o1 t1 b1] [S2 D2 v2 o2 t2 b2] [H1 H2 H3 H4 H5]. cbn in *. subst. reflexivity.
Qed.

(* (2) in general form: an execution consults the resolver oracle only below its own path *)
Theorem oracle_locality : forall fuel E1 E2, same_but_oracle E1 E2 ->
  (forall t nodes occs fpath p v s, agree_under p (en_or E1) (en_or E2) ->
     complete fuel E1 t nodes occs fpath p v s = complete fuel E2 t nodes occs fpath p v s) /\
  (forall obj occs p src s, agree_under p (en_or E1) (en_or E2) ->
     exec_object fuel E1 obj occs p src s = exec_object fuel E2 obj occs p src s) /\
  (forall obj src g p s, agree_under p (en_or E1) (en_or E2) ->
     exec_groups fuel E1 obj src g p s = exec_groups fuel E2 obj src g p s) /\
  (forall q s p, agree_under p (en_or E1) (en_or E2) -> thunks_ok p q ->
     dethunk fuel E1 q s = dethunk fuel E2 q s).
Proof.
  intros fuel E1 E2 Hs. rewrite (same_but_oracle_set E1 E2 Hs).
  change (en_or (set_or E1 (en_or E2))) with (en_or E2).
  destruct (local_inv fuel) as [Lc [Lo [Lg Ld]]].
  repeat split; intros.
  - apply Lc; assumption.
  - apply Lo; assumption.
  - apply Lg; assumption.
  - eapply Ld; eassumption.
Qed.

(* (1)+(2): run from two arbitrary states under two oracles that agree below p, an execution
   at p gives the same result and the same state increment *)
Theorem exec_groups_sim : forall fuel E1 E2 obj src g p s1 s2, same_but_oracle E1 E2 ->
  agree_under p (en_or E1) (en_or E2) ->
  exists r0, exec_groups fuel E1 obj src g p s1 = xlift s1 r0 /\ exec_groups fuel E2 obj src g p s2 = xlift s2 r0.
Proof.
  intros fuel E1 E2 obj src g p s1 s2 Hs Ha. exists (exec_groups fuel E1 obj src g p st0).
  split; [apply exec_groups_frame|]. rewrite (exec_groups_frame fuel E2). f_equal.
  symmetry. apply (proj1 (proj2 (proj2 (oracle_locality fuel E1 E2 Hs)))). exact Ha.
Qed.

Theorem complete_sim : forall fuel E1 E2 t nodes occs fpath p v s1 s2, same_but_oracle E1 E2 ->
  agree_under p (en_or E1) (en_or E2) ->
  exists r0, complete fuel E1 t nodes occs fpath p v s1 = xlift s1 r0 /\
             complete fuel E2 t nodes occs fpath p v s2 = xlift s2 r0.
Proof.
  intros fuel E1 E2 t nodes occs fpath p v s1 s2 Hs Ha. exists (complete fuel E1 t nodes occs fpath p v st0).
  split; [apply complete_frame|]. rewrite (complete_frame fuel E2). f_equal.
  symmetry. apply (proj1 (oracle_locality fuel E1 E2 Hs)). exact Ha.
Qed.

(* Isolation in a selection set.  The two oracles agree everywhere outside the subtree at fp,
   fp at or below the field of key k of the selection set executed at p; neither run raises
   out of the selection set.  Then the two field maps have the same keys, every sibling field
   k' <> k has the same (possibly still deferred) result, and the errors and the resolver
   invocations (with their arguments) recorded outside the subtree of k are the same, in the
   same order. *)
Theorem selection_isolation : forall fuel E1 E2 obj src g p k fp s fs1 s1 fs2 s2,
  same_but_oracle E1 E2 -> prefix (p ++ [PKey k]) fp -> agree_outside fp (en_or E1) (en_or E2) ->
  exec_groups fuel E1 obj src g p s = XOk fs1 s1 ->
  exec_groups fuel E2 obj src g p s = XOk fs2 s2 ->
  map fst fs1 = map fst fs2 /\
  (forall k', k' <> k -> alookup k' fs1 = alookup k' fs2) /\
  errs_out (p ++ [PKey k]) s1 = errs_out (p ++ [PKey k]) s2 /\
  calls_out (p ++ [PKey k]) s1 = calls_out (p ++ [PKey k]) s2.
Proof.
  intros fuel E1 E2 obj src g p k fp s fs1 s1 fs2 s2 Hs Hp Ha H1 H2.
  rewrite (same_but_oracle_set E1 E2 Hs) in H2.
  assert (Ha' : agree_outside (p ++ [PKey k]) (en_or E1) (en_or E2)) by (eapply agree_outside_weaken; eassumption).
  destruct (groups_iso fuel E1 (en_or E2) obj src p k Ha' g s s fs1 s1 fs2 s2 H1 H2) as [Hsib [_ [_ Hout]]].
  destruct (Hout (out_eq_refl _ s)) as [O1 O2].
  split; [eapply sibs_keys; exact Hsib|]. split; [apply sibs_alookup; exact Hsib|]. split; assumption.
Qed.

(* ... and after the dethunk pass over the two results: the final sub-responses of the sibling
   fields are the same, and so are the errors and invocations outside the subtree of k. *)
Theorem selection_isolation_forced : forall fuel fuel' E1 E2 obj src g p k fp s fs1 s1 fs2 s2 q1 s1' q2 s2',
  same_but_oracle E1 E2 -> prefix (p ++ [PKey k]) fp -> agree_outside fp (en_or E1) (en_or E2) ->
  exec_groups fuel E1 obj src g p s = XOk fs1 s1 ->
  exec_groups fuel E2 obj src g p s = XOk fs2 s2 ->
  dethunk fuel' E1 (QObj fs1) s1 = XOk q1 s1' ->
  dethunk fuel' E2 (QObj fs2) s2 = XOk q2 s2' ->
  exists ys1 ys2, q1 = QObj ys1 /\ q2 = QObj ys2 /\
    map fst ys1 = map fst ys2 /\
    (forall k', k' <> k -> alookup k' ys1 = alookup k' ys2) /\
    errs_out (p ++ [PKey k]) s1' = errs_out (p ++ [PKey k]) s2' /\
    calls_out (p ++ [PKey k]) s1' = calls_out (p ++ [PKey k]) s2'.
Proof.
  intros fuel fuel' E1 E2 obj src g p k fp s fs1 s1 fs2 s2 q1 s1' q2 s2' Hs Hp Ha H1 H2 D1 D2.
  rewrite (same_but_oracle_set E1 E2 Hs) in H2, D2.
  assert (Ha' : agree_outside (p ++ [PKey k]) (en_or E1) (en_or E2)) by (eapply agree_outside_weaken; eassumption).
  destruct (groups_iso fuel E1 (en_or E2) obj src p k Ha' g s s fs1 s1 fs2 s2 H1 H2) as [Hsib [K1 [K2 Hout]]].
  destruct fuel' as [|fuel']; [discriminate|]. cbn [dethunk] in D1, D2.
  destruct (dethunk_fields (dethunk fuel' E1) fs1 s1) as [ys1 t1|e1 t1|] eqn:F1; try discriminate.
  destruct (dethunk_fields (dethunk fuel' (set_or E1 (en_or E2))) fs2 s2) as [ys2 t2|e2 t2|] eqn:F2; try discriminate.
  inversion D1; inversion D2; subst.
  destruct (dethunk_fields_iso fuel' E1 (en_or E2) p k Ha' fs1 fs2 Hsib K1 K2 s1 s2 ys1 s1' ys2 s2' F1 F2)
    as [Hsib' Hout'].
  destruct (Hout' (Hout (out_eq_refl _ s))) as [O1 O2].
  exists ys1, ys2. split; [reflexivity|]. split; [reflexivity|].
  split; [eapply sibs_keys; exact Hsib'|]. split; [apply sibs_alookup; exact Hsib'|]. split; assumption.
Qed.

(* Isolation in a request.  The two resolver oracles agree outside the subtree at fp, which lies
   at or below the top-level field k; both requests complete with non-null data.  Then every
   other top-level field k' has the same sub-response in both, and the errors and resolver
   invocations recorded outside the subtree of k are the same. *)
Theorem request_isolation : forall fuel S D opn inputs root or1 or2 tor k fp d1 s1 d2 s2,
  prefix [PKey k] fp -> agree_outside fp or1 or2 ->
  request fuel S D opn inputs root or1 tor = RDone (Some d1) s1 ->
  request fuel S D opn inputs root or2 tor = RDone (Some d2) s2 ->
  (forall k', k' <> k -> resp_at d1 [PKey k'] = resp_at d2 [PKey k']) /\
  errs_out [PKey k] s1 = errs_out [PKey k] s2 /\
  calls_out [PKey k] s1 = calls_out [PKey k] s2.
Proof.
  intros fuel S D opn inputs root or1 or2 tor k fp d1 s1 d2 s2 Hp Ha H1 H2. unfold request in H1, H2.
  destruct (get_operation D opn) as [op|]; [|discriminate].
  destruct (root_type S op) as [rt|]; [|discriminate].
  destruct (get_variable_values fuel S (o_vars op) inputs) as [[vars|e]|]; try discriminate.
  destruct (collect fuel S D vars rt (o_sel op) [] []) as [[g v]|]; [|discriminate].
  set (E1 := {| en_S := S; en_D := D; en_vars := vars; en_or := or1; en_tor := tor;
                en_serial := match o_kind op with OpMutation => true | _ => false end |}) in *.
  set (E2 := {| en_S := S; en_D := D; en_vars := vars; en_or := or2; en_tor := tor;
                en_serial := match o_kind op with OpMutation => true | _ => false end |}) in *.
  assert (Hs : same_but_oracle E1 E2) by (split; reflexivity).
  destruct (exec_groups fuel E1 rt root g [] st0) as [fs1 t1|e1 t1|] eqn:G1; try discriminate.
  destruct (exec_groups fuel E2 rt root g [] st0) as [fs2 t2|e2 t2|] eqn:G2; try discriminate.
  destruct (dethunk fuel E1 (QObj fs1) t1) as [q1 u1|e1 u1|] eqn:F1; try discriminate.
  destruct (dethunk fuel E2 (QObj fs2) t2) as [q2 u2|e2 u2|] eqn:F2; try discriminate.
  inversion H1; inversion H2; subst. clear H1 H2.
  destruct (selection_isolation_forced fuel fuel E1 E2 rt root g [] k fp st0 fs1 t1 fs2 t2 q1 s1 q2 s2
              Hs Hp Ha G1 G2 F1 F2) as [ys1 [ys2 [-> [-> [_ [Hl [O1 O2]]]]]]].
  split; [|split; [exact O1|exact O2]].
  intros k' Hk. cbn [to_resp resp_at]. rewrite !alookup_map_snd, (Hl k' Hk). reflexivity.
Qed.

(* ---- non-vacuity: the failure of the non-null child n of o (which nulls o) against a run
        where it succeeds: the hypotheses hold, o differs, the sibling i is the same ---- *)
Definition Si : schema := {|
  s_types := [("Int", TScalar SInt);
              ("O", TObject [{| f_name := "n"; f_args := []; f_type := TNonNull (TNamed "Int") |}] []);
              ("Q", TObject [{| f_name := "i"; f_args := []; f_type := TNamed "Int" |};
                             {| f_name := "o"; f_args := []; f_type := TNamed "O" |}] [])];
  s_query := "Q"; s_mutation := None |}.
Definition Di : document := {|
  d_ops := [{| o_kind := OpQuery; o_name := None; o_vars := [];
               o_sel := [SField 2%N None "o" [] [] [SField 6%N None "n" [] [] []]; SField 12%N None "i" [] [] []] |}];
  d_frags := [] |}.
Lemma path_eqb_eq : forall a b, path_eqb a b = true -> a = b.
Proof.
  induction a as [|x a IH]; intros [|y b] H; cbn in H; try discriminate; [reflexivity|].
  apply andb_true_iff in H. destruct H as [H1 H2]. apply pseg_eqb_eq in H1. subst y.
  rewrite (IH b H2). reflexivity.
Qed.

Definition ori (n : outcome) : oracle := fun p =>
  if path_eqb p [PKey "o"; PKey "n"] then Some n
  else match p with
       | [PKey "i"] => Some (OThunk (OVal (RInt 7%Z)))
       | [PKey "o"] => Some (OVal (RObj 1%N "O"))
       | _ => None
       end.

Example isolation_nonvacuous :
  agree_outside [PKey "o"; PKey "n"] (ori OErr) (ori (OVal (RInt 1%Z))) /\
  match request 20 Si Di None [] (RObj 0%N "root") (ori OErr) (fun _ => None),
        request 20 Si Di None [] (RObj 0%N "root") (ori (OVal (RInt 1%Z))) (fun _ => None) with
  | RDone (Some d1) s1, RDone (Some d2) s2 =>
    d1 = PObj [("o", PNull); ("i", PLeaf (JInt 7))] /\
    d2 = PObj [("o", PObj [("n", PLeaf (JInt 1))]); ("i", PLeaf (JInt 7))] /\
    map e_path (st_errs s1) = [[PKey "o"; PKey "n"]] /\ st_errs s2 = []
  | _, _ => False
  end.
Proof.
  split.
  - intros q Hq. unfold ori.
    destruct (path_eqb q [PKey "o"; PKey "n"]) eqn:Eq; [|reflexivity].
    exfalso. apply Hq. apply path_eqb_eq in Eq. subst q. apply prefix_refl.
  - vm_compute. repeat split; reflexivity.
Qed.
