(* The executable oracle consistentb decides the Spec Consistent. *)
From Coq Require Import List NArith Bool Lia.
From GQL Require Import Base.Bytes Types.Schema Types.Consistent Proofs.TypesNames Proofs.TypesImpl Proofs.TypesPossible.
Import ListNotations.
Open Scope N_scope.

Lemma nodup_names_sound : forall l, nodup_names l = true <-> NoDup l.
Proof.
  induction l as [|n r IH]; simpl; split; intro H; try constructor; auto.
  - apply andb_true_iff in H. destruct H as [H1 H2]. apply negb_true_iff in H1.
    intros Hin. apply mem_name_in in Hin. congruence.
  - apply andb_true_iff in H. apply IH. exact (proj2 H).
  - inversion H as [|x l Hni Hnd]; subst. apply andb_true_iff. split.
    + apply negb_true_iff. destruct (mem_name n r) eqn:E; auto. apply mem_name_in in E. contradiction.
    + apply IH. exact Hnd.
Qed.

Lemma nodupN_sound : forall l, nodupN l = true <-> NoDup l.
Proof.
  induction l as [|n r IH]; simpl; split; intro H; try constructor; auto.
  - apply andb_true_iff in H. destruct H as [H1 H2]. apply negb_true_iff in H1.
    intros Hin. apply memN_in in Hin. congruence.
  - apply andb_true_iff in H. apply IH. exact (proj2 H).
  - inversion H as [|x l Hni Hnd]; subst. apply andb_true_iff. split.
    + apply negb_true_iff. destruct (memN n r) eqn:E; auto. apply memN_in in E. contradiction.
    + apply IH. exact Hnd.
Qed.

Lemma implements_fieldb_iff ts ofs jf : implements_fieldb ts ofs jf = true <-> implements_field (possible ts) ofs jf.
Proof.
  unfold implements_fieldb, implements_field, subtypeb. split.
  - destruct (find_field (vf_name jf) ofs) as [f|]; try discriminate.
    intro H. apply andb_true_iff in H. destruct H as [H H3]. apply andb_true_iff in H. destruct H as [H1 H2].
    exists f. split; [reflexivity|]. split; [apply sub_sound; exact H1|]. split.
    + intros an at' Hin. pose proof (proj1 (forallb_forall _ _) H2 (an, at') Hin) as Hx. simpl in Hx.
      destruct (assoc_name an (vf_args f)) as [t|]; try discriminate.
      apply tref_eqb_eq in Hx. subst. reflexivity.
    + intros an at' Hin Hnone. pose proof (proj1 (forallb_forall _ _) H3 (an, at') Hin) as Hx. simpl in Hx.
      rewrite Hnone in Hx. apply negb_true_iff in Hx. exact Hx.
  - intros (f & Hf & Hs & Ha & Hb). rewrite Hf.
    apply andb_true_iff. split; [apply andb_true_iff; split|].
    + apply sub_complete; exact Hs.
    + apply forallb_forall. intros [an at'] Hin. simpl. rewrite (Ha an at' Hin). apply tref_eqb_refl.
    + apply forallb_forall. intros [an at'] Hin. simpl.
      destruct (assoc_name an (vf_args jf)) eqn:E; auto. rewrite (Hb an at' Hin E). reflexivity.
Qed.

Lemma same_set_iff ts a row : 
  same_set row (possible ts a) (map vt_id ts) = true <-> (forall o, In o row <-> possible ts a o = true).
Proof.
  unfold same_set. rewrite andb_true_iff, !forallb_forall. split.
  - intros [H1 H2] o. split; [apply H1|].
    intros Hp. assert (Hin : In o (map vt_id ts)).
    { unfold possible in Hp. destruct (vfind ts a); try discriminate. destruct (vfind ts o) as [vo|] eqn:E; try discriminate.
      destruct (vfind_some_in ts o vo E) as [Hi He]. rewrite <- He. apply in_map. exact Hi. }
    pose proof (H2 o Hin) as Hx. rewrite Hp in Hx. simpl in Hx. apply memN_in. exact Hx.
  - intros H. split.
    + intros o Ho. apply H. exact Ho.
    + intros o _. destruct (possible ts a o) eqn:E; auto. simpl. apply memN_in. apply H. exact E.
Qed.

Theorem consistentb_iff V : consistentb V = true <-> Consistent V.
Proof.
  unfold consistentb. split.
  - intro H. repeat (apply andb_true_iff in H; let H' := fresh "C" in destruct H as [H H']).
    constructor.
    + apply nodup_names_sound. exact H.
    + intros vt Hin. exact (proj1 (forallb_forall _ _) C6 vt Hin).
    + intros vt Hin. exact (proj1 (forallb_forall _ _) C5 vt Hin).
    + destruct (v_query V) as [q|]; try discriminate. exists q. auto.
    + intros m Hm. rewrite Hm in C3. exact C3.
    + intros m Hm. rewrite Hm in C2. exact C2.
    + intros n Hn. apply mem_name_in. exact (proj1 (forallb_forall _ _) C1 n Hn).
    + intros vt ifs fs i jf Hin Hd Hi Hjf. pose proof (proj1 (forallb_forall _ _) C0 vt Hin) as Hx.
      unfold implementsb in Hx. rewrite Hd in Hx.
      pose proof (proj1 (forallb_forall _ _) Hx i Hi) as Hy.
      apply implements_fieldb_iff. exact (proj1 (forallb_forall _ _) Hy jf Hjf).
    + intros vt Hin Hk. pose proof (proj1 (forallb_forall _ _) C vt Hin) as Hx. unfold possibleb_row in Hx.
      assert (Hrow : match assocN (vt_id vt) (v_poss V), assocN (vt_id vt) (v_isposs V) with
                     | Some row, Some row2 => nodupN row && same_set row (possible (v_types V) (vt_id vt)) (map vt_id (v_types V))
                                               && same_set row2 (possible (v_types V) (vt_id vt)) (map vt_id (v_types V))
                     | _, _ => false end = true).
      { destruct Hk as [Hk|[ms Hk]]; [destruct (vt_def vt); try discriminate; exact Hx|rewrite Hk in Hx; exact Hx]. }
      destruct (assocN (vt_id vt) (v_poss V)) as [row|]; try discriminate.
      destruct (assocN (vt_id vt) (v_isposs V)) as [row2|]; try discriminate.
      apply andb_true_iff in Hrow. destruct Hrow as [Hr R3]. apply andb_true_iff in Hr. destruct Hr as [R1 R2].
      exists row, row2. repeat split; try reflexivity.
      * apply nodupN_sound. exact R1.
      * apply same_set_iff; exact R2.
      * apply (proj1 (same_set_iff _ _ _) R2).
      * apply same_set_iff; exact R3.
      * apply (proj1 (same_set_iff _ _ _) R3).
  - intros [C1 C2 C3 [q [Hq Hqo]] C5 C6 C7 C8 C9].
    apply andb_true_iff; split; [apply andb_true_iff; split; [apply andb_true_iff; split; [apply andb_true_iff; split;
      [apply andb_true_iff; split; [apply andb_true_iff; split; [apply andb_true_iff; split; [apply andb_true_iff; split|]|]|]|]|]|]|].
    + apply nodup_names_sound. exact C1.
    + apply forallb_forall. exact C2.
    + apply forallb_forall. exact C3.
    + rewrite Hq. exact Hqo.
    + unfold root_okb. destruct (v_mutation V) as [m|]; auto.
    + unfold root_okb. destruct (v_subscription V) as [m|]; auto.
    + apply forallb_forall. intros n Hn. apply mem_name_in. exact (C7 n Hn).
    + apply forallb_forall. intros vt Hin. unfold implementsb. destruct (vt_def vt) as [|ifs fs| | | | |] eqn:Ed; auto.
      apply forallb_forall. intros i Hi. apply forallb_forall. intros jf Hjf.
      apply implements_fieldb_iff. exact (C8 vt ifs fs i jf Hin Ed Hi Hjf).
    + apply forallb_forall. intros vt Hin. unfold possibleb_row.
      destruct (vt_def vt) as [|ifs fs|fs|ms| | |] eqn:Ed; auto.
      * destruct (C9 vt Hin) as (row & row2 & E1 & E2 & Hnd & H1 & H2); [left; rewrite Ed; reflexivity|].
        rewrite E1, E2. apply andb_true_iff; split; [apply andb_true_iff; split|].
        -- apply nodupN_sound; exact Hnd.
        -- apply same_set_iff; exact H1.
        -- apply same_set_iff; exact H2.
      * destruct (C9 vt Hin) as (row & row2 & E1 & E2 & Hnd & H1 & H2); [right; exists ms; exact Ed|].
        rewrite E1, E2. apply andb_true_iff; split; [apply andb_true_iff; split|].
        -- apply nodupN_sound; exact Hnd.
        -- apply same_set_iff; exact H1.
        -- apply same_set_iff; exact H2.
Qed.
