From Coq Require Import List ZArith NArith String Bool.
From GQL Require Import Exec.Syntax Exec.Coerce Exec.Exec Exec.PlanCollect.
Import ListNotations.
Open Scope string_scope.
Open Scope list_scope.

Lemma has_vars_list : forall l x, has_vars (VList l) = false -> In x l -> has_vars x = false.
Proof.
  induction l as [|y l IH]; intros x H Hin; [contradiction|].
  cbn [has_vars] in H. apply orb_false_iff in H. destruct H as [H1 H2].
  destruct Hin as [->|Hin]; [exact H1|]. apply IH; [exact H2|exact Hin].
Qed.

Lemma has_vars_obj : forall l k x, has_vars (VObj l) = false -> alookup k l = Some x -> has_vars x = false.
Proof.
  induction l as [|[k' y] l IH]; intros k x H Hx; [discriminate|].
  cbn [has_vars] in H. apply orb_false_iff in H. destruct H as [H1 H2].
  cbn [alookup] in Hx. destruct (String.eqb k k').
  - inversion Hx; subst. exact H1.
  - eapply IH; [exact H2|exact Hx].
Qed.

Lemma omap_ext_in : forall {A B} (f g : A -> option B) l,
  (forall x, In x l -> f x = g x) -> omap f l = omap g l.
Proof.
  intros A B f g l. induction l as [|x l IH]; intros H; [reflexivity|].
  cbn [omap]. rewrite (H x (or_introl eq_refl)). rewrite IH; [reflexivity|].
  intros y Hy. apply H. right. exact Hy.
Qed.

(* a literal without variables evaluates the same with and without a variables map *)
Lemma value_from_ast_novars : forall fuel S t l vars,
  (forall x, l = Some x -> has_vars x = false) ->
  value_from_ast fuel S t l None = value_from_ast fuel S t l (Some vars).
Proof.
  induction fuel as [|fuel IH]; intros S t l vars H; [reflexivity|].
  cbn [value_from_ast]. destruct l as [x|]; [|reflexivity].
  specialize (H x eq_refl) as Hx.
  assert (Hsame : forall t0, value_from_ast fuel S t0 (Some x) None = value_from_ast fuel S t0 (Some x) (Some vars)).
  { intro t0. apply IH. intros y Hy. inversion Hy; subst. exact Hx. }
  destruct x as [vn|z|fn fd|str|b|en|ls|lfs]; try discriminate.
  - destruct t as [tn|t'|t']; [reflexivity|rewrite Hsame; reflexivity|apply Hsame].
  - destruct t as [tn|t'|t']; [reflexivity|rewrite Hsame; reflexivity|apply Hsame].
  - destruct t as [tn|t'|t']; [reflexivity|rewrite Hsame; reflexivity|apply Hsame].
  - destruct t as [tn|t'|t']; [reflexivity|rewrite Hsame; reflexivity|apply Hsame].
  - destruct t as [tn|t'|t']; [reflexivity|rewrite Hsame; reflexivity|apply Hsame].
  - destruct t as [tn|t'|t']; [| |apply Hsame].
    + destruct (lookup_type S tn) as [[k|vals|fs ifs|fs|ms|fs]|]; reflexivity.
    + rewrite (omap_ext_in _ (fun x => value_from_ast fuel S t' (Some x) (Some vars)) ls); [reflexivity|].
      intros y Hy. apply IH. intros z Hz. inversion Hz; subst. eapply has_vars_list; eassumption.
  - destruct t as [tn|t'|t']; [|rewrite Hsame; reflexivity|apply Hsame].
    destruct (lookup_type S tn) as [[k|vals|fs ifs|fs|ms|fs]|]; try reflexivity.
    rewrite (omap_ext_in _ (fun f =>
       match value_from_ast fuel S (a_type f) (alookup (a_name f) lfs) (Some vars) with
       | Some fv => Some (a_name f, if nullish fv then match a_default f with Some d => d | None => JNull end else fv)
       | None => None
       end) fs); [reflexivity|].
    intros f _. rewrite (IH S (a_type f) (alookup (a_name f) lfs) vars); [reflexivity|].
    intros z Hz. eapply has_vars_obj; eassumption.
Qed.

(* a literal `if` argument evaluates the same with and without variables *)
Lemma bool_arg_static_eq : forall S d vars, args_have_vars (d_args d) = false ->
  bool_arg S d vars = bool_arg_static S d.
Proof.
  intros S d vars H. unfold bool_arg, bool_arg_static.
  rewrite <- (value_from_ast_novars 3 S _ _ vars); [reflexivity|].
  clear vars. induction (d_args d) as [|[k v] r IH]; intros x Hx; [discriminate|].
  cbn [args_have_vars] in H. apply orb_false_iff in H. destruct H as [H1 H2].
  cbn [alookup] in Hx. destruct (String.eqb "if" k).
  - inversion Hx; subst. exact H1.
  - apply IH; assumption.
Qed.

(* when no variable-driven directive is seen, the plan-time verdict is the runtime verdict *)
Lemma plan_directives_static : forall S ds vars skip,
  plan_directives S ds = (skip, false) -> included S ds vars = negb skip.
Proof.
  intros S ds vars skip H. unfold plan_directives in H. unfold included.
  destruct (last_directive "skip" ds None) as [dskip|] eqn:Es.
  - destruct (args_have_vars (d_args dskip)) eqn:Ev.
    + (* skip is dynamic: saw1 = true, so the result cannot have saw = false *)
      destruct (last_directive "include" ds None) as [dinc|]; [|inversion H].
      destruct (args_have_vars (d_args dinc)); inversion H.
    + rewrite (bool_arg_static_eq S dskip vars Ev).
      destruct (match bool_arg_static S dskip with JBool true => true | _ => false end) eqn:Eb.
      * inversion H; subst. cbn. reflexivity.
      * destruct (last_directive "include" ds None) as [dinc|] eqn:Ei.
        -- destruct (args_have_vars (d_args dinc)) eqn:Evi; [inversion H|].
           rewrite (bool_arg_static_eq S dinc vars Evi). inversion H; subst.
           destruct (match bool_arg_static S dinc with JBool false => true | _ => false end); reflexivity.
        -- inversion H; subst. reflexivity.
  - destruct (last_directive "include" ds None) as [dinc|] eqn:Ei.
    + destruct (args_have_vars (d_args dinc)) eqn:Evi; [inversion H|].
      rewrite (bool_arg_static_eq S dinc vars Evi). inversion H; subst.
      destruct (match bool_arg_static S dinc with JBool false => true | _ => false end); reflexivity.
    + inversion H; subst. reflexivity.
Qed.

(* sawDynamic only grows *)
Lemma plan_collect_saw_mono : forall fuel S D obj sels visited g saw g' v' saw',
  plan_collect fuel S D obj sels visited g saw = Some (g', v', saw') -> saw = true -> saw' = true.
Proof.
  induction fuel as [|fuel IH]; intros S D obj sels visited g saw g' v' saw' H Hs; [discriminate|].
  subst saw. cbn [plan_collect] in H.
  destruct sels as [|[id al nm args ds sub|id nm ds|id tc ds sub] rest].
  - inversion H; reflexivity.
  - destruct (plan_directives S ds) as [skip dyn]. cbn [orb] in H.
    destruct skip; eapply IH; try eassumption; reflexivity.
  - destruct (plan_directives S ds) as [skip dyn]. cbn [orb] in H.
    destruct (negb skip && negb (nmem nm visited)); [|eapply IH; [eassumption|reflexivity]].
    destruct (find_fragment nm (d_frags D)) as [f|]; [|eapply IH; [eassumption|reflexivity]].
    destruct (fragment_matches S (Some (fr_cond f)) obj); [|eapply IH; [eassumption|reflexivity]].
    destruct (plan_collect fuel S D obj (fr_sel f) (nm :: visited) g true) as [[[g1 v1] s1]|] eqn:E; [|discriminate].
    assert (s1 = true) by (eapply IH; [exact E|reflexivity]). subst.
    eapply IH; [eassumption|reflexivity].
  - destruct (plan_directives S ds) as [skip dyn]. cbn [orb] in H.
    destruct (negb skip && fragment_matches S tc obj); [|eapply IH; [eassumption|reflexivity]].
    destruct (plan_collect fuel S D obj sub visited g true) as [[[g1 v1] s1]|] eqn:E; [|discriminate].
    assert (s1 = true) by (eapply IH; [exact E|reflexivity]). subst.
    eapply IH; [eassumption|reflexivity].
Qed.

Lemma orb_false_both : forall a b, a || b = false -> a = false /\ b = false.
Proof. intros a b H. apply orb_false_iff in H. exact H. Qed.

(* the static plan is what CollectFields yields for every variable assignment *)
Lemma plan_collect_static : forall fuel S D obj sels visited g saw g' v',
  plan_collect fuel S D obj sels visited g saw = Some (g', v', false) ->
  forall vars, collect fuel S D vars obj sels visited g = Some (g', v').
Proof.
  induction fuel as [|fuel IH]; intros S D obj sels visited g saw g' v' H vars; [discriminate|].
  cbn [plan_collect] in H. cbn [collect].
  destruct sels as [|[id al nm args ds sub|id nm ds|id tc ds sub] rest].
  - inversion H; reflexivity.
  - destruct (plan_directives S ds) as [skip dyn] eqn:Ed.
    assert (Hdyn : dyn = false).
    { destruct dyn; [|reflexivity]. exfalso.
      destruct skip; (eapply plan_collect_saw_mono in H; [discriminate|apply orb_true_r]). }
    subst dyn. rewrite (plan_directives_static S ds vars skip Ed).
    destruct skip; cbn [negb]; eapply IH; eassumption.
  - destruct (plan_directives S ds) as [skip dyn] eqn:Ed.
    assert (Hdyn : dyn = false).
    { destruct dyn; [|reflexivity]. exfalso.
      destruct (negb skip && negb (nmem nm visited)); [|eapply plan_collect_saw_mono in H; [discriminate|apply orb_true_r]].
      destruct (find_fragment nm (d_frags D)) as [f|]; [|eapply plan_collect_saw_mono in H; [discriminate|apply orb_true_r]].
      destruct (fragment_matches S (Some (fr_cond f)) obj); [|eapply plan_collect_saw_mono in H; [discriminate|apply orb_true_r]].
      destruct (plan_collect fuel S D obj (fr_sel f) (nm :: visited) g (saw || true)) as [[[g1 v1] s1]|] eqn:E; [|discriminate].
      assert (s1 = true) by (eapply plan_collect_saw_mono; [exact E|apply orb_true_r]). subst.
      eapply plan_collect_saw_mono in H; [discriminate|reflexivity]. }
    subst dyn. rewrite (plan_directives_static S ds vars skip Ed).
    destruct (negb skip && negb (nmem nm visited)); [|eapply IH; eassumption].
    destruct (find_fragment nm (d_frags D)) as [f|]; [|eapply IH; eassumption].
    destruct (fragment_matches S (Some (fr_cond f)) obj); [|eapply IH; eassumption].
    destruct (plan_collect fuel S D obj (fr_sel f) (nm :: visited) g (saw || false)) as [[[g1 v1] s1]|] eqn:E; [|discriminate].
    assert (s1 = false).
    { destruct s1; [|reflexivity]. eapply plan_collect_saw_mono in H; [discriminate|reflexivity]. }
    subst. rewrite (IH _ _ _ _ _ _ _ _ _ E vars). eapply IH; eassumption.
  - destruct (plan_directives S ds) as [skip dyn] eqn:Ed.
    assert (Hdyn : dyn = false).
    { destruct dyn; [|reflexivity]. exfalso.
      destruct (negb skip && fragment_matches S tc obj); [|eapply plan_collect_saw_mono in H; [discriminate|apply orb_true_r]].
      destruct (plan_collect fuel S D obj sub visited g (saw || true)) as [[[g1 v1] s1]|] eqn:E; [|discriminate].
      assert (s1 = true) by (eapply plan_collect_saw_mono; [exact E|apply orb_true_r]). subst.
      eapply plan_collect_saw_mono in H; [discriminate|reflexivity]. }
    subst dyn. rewrite (plan_directives_static S ds vars skip Ed).
    destruct (negb skip && fragment_matches S tc obj); [|eapply IH; eassumption].
    destruct (plan_collect fuel S D obj sub visited g (saw || false)) as [[[g1 v1] s1]|] eqn:E; [|discriminate].
    assert (s1 = false).
    { destruct s1; [|reflexivity]. eapply plan_collect_saw_mono in H; [discriminate|reflexivity]. }
    subst. rewrite (IH _ _ _ _ _ _ _ _ _ E vars). eapply IH; eassumption.
Qed.

(* the two-phase collection of the planner is CollectFields, for every variable assignment *)
Lemma two_phase_is_collect : forall fuel S D vars obj sels g,
  two_phase_collect fuel S D vars obj sels = Some g ->
  exists v, collect fuel S D vars obj sels [] [] = Some (g, v).
Proof.
  intros fuel S D vars obj sels g H. unfold two_phase_collect in H.
  destruct (plan_collect fuel S D obj sels [] [] false) as [[[g1 v1] [|]]|] eqn:E; [| |discriminate].
  - destruct (collect fuel S D vars obj sels [] []) as [[g2 v2]|]; [|discriminate].
    inversion H; subst. eexists; reflexivity.
  - inversion H; subst. exists v1. eapply plan_collect_static; eassumption.
Qed.

(* ---- merged selection sets (a field group's sub-selection) ---- *)
Lemma plan_all_saw_mono : forall fuel S D obj sets visited g saw g' v' saw',
  plan_all fuel S D obj sets visited g saw = Some (g', v', saw') -> saw = true -> saw' = true.
Proof.
  intros fuel S D obj sets. induction sets as [|x sets IH]; intros visited g saw g' v' saw' H Hs.
  - inversion H; subst. reflexivity.
  - cbn [plan_all] in H.
    destruct (plan_collect fuel S D obj x visited g saw) as [[[g1 v1] s1]|] eqn:E; [|discriminate].
    eapply IH; [exact H|]. eapply plan_collect_saw_mono; eassumption.
Qed.

Lemma plan_all_static : forall fuel S D obj sets visited g saw g' v',
  plan_all fuel S D obj sets visited g saw = Some (g', v', false) ->
  forall vars, collect_all fuel S D vars obj sets visited g = Some g'.
Proof.
  intros fuel S D obj sets. induction sets as [|x sets IH]; intros visited g saw g' v' H vars.
  - inversion H; subst. reflexivity.
  - cbn [plan_all] in H. cbn [collect_all].
    destruct (plan_collect fuel S D obj x visited g saw) as [[[g1 v1] s1]|] eqn:E; [|discriminate].
    assert (s1 = false).
    { destruct s1; [|reflexivity]. eapply plan_all_saw_mono in H; [discriminate|reflexivity]. }
    subst. rewrite (plan_collect_static _ _ _ _ _ _ _ _ _ _ E vars). eapply IH. exact H.
Qed.

Lemma omap_keys : forall (S : schema) (D : document) (obj : name) fuel' (g : groups) fs,
  omap (fun ko : name * list occ =>
          let '(k, occs) := ko in
          let fname := match occs with o :: _ => oc_name o | [] => "" end in
          let sub :=
              match find_field fname (object_fields S obj) with
              | Some fd =>
                if is_object_type S (named_of (f_type fd))
                then match plan_tree fuel' S D (named_of (f_type fd)) (map oc_sub occs) with
                     | Some t => Some (Some t)
                     | None => None
                     end
                else Some None
              | None => Some None
              end in
          match sub with
          | Some st => Some (k, map oc_id occs, st)
          | None => None
          end) g = Some fs ->
  map (fun x => fst (fst x)) fs = map fst g.
Proof.
  intros S D obj fuel'. induction g as [|[k occs] g IH]; intros fs H; cbn [omap] in H.
  - inversion H. reflexivity.
  - match type of H with match ?a with _ => _ end = _ => destruct a as [[[k0 ns] st]|] eqn:E1 end; [|discriminate].
    match type of H with match ?a with _ => _ end = _ => destruct a as [fs'|] eqn:E2 end; [|discriminate].
    inversion H; subst. cbn [map fst]. f_equal; [|apply IH; reflexivity].
    cbv zeta in E1.
    destruct (find_field _ _) as [fd|]; [destruct (is_object_type S (named_of (f_type fd)));
      [destruct (plan_tree fuel' S D _ _); [|discriminate]|]|]; inversion E1; reflexivity.
Qed.

(* a static level of the prepared plan lists exactly the response keys CollectFields yields,
   for every variable assignment *)
Lemma plan_tree_static_level : forall fuel S D obj sets fs,
  plan_tree (Datatypes.S fuel) S D obj sets = Some (PT false fs) ->
  exists g, (forall vars, collect_all fuel S D vars obj sets [] [] = Some g) /\
            map (fun x => fst (fst x)) fs = map fst g.
Proof.
  intros fuel S D obj sets fs H. cbn [plan_tree] in H.
  destruct (plan_all fuel S D obj sets [] [] false) as [[[g v] [|]]|] eqn:E; try discriminate.
  match type of H with match ?a with _ => _ end = _ => destruct a as [fs'|] eqn:Eo end; [|discriminate].
  inversion H; subst. exists g. split.
  - intro vars. eapply plan_all_static. exact E.
  - eapply omap_keys. exact Eo.
Qed.
