(* The whole chain print -> lex -> derive -> parse on one recursive nonterminal: types. *)
From Coq Require Import String List NArith Bool Lia.
From GQL Require Import Base.Bytes Syntax.Lexer Syntax.Ast Syntax.Parser Syntax.Grammar Syntax.Printer
  Proofs.SyntaxSound Proofs.SyntaxComplete Proofs.SyntaxPrinter Proofs.SyntaxRender.
Import ListNotations.
Open Scope N_scope.

(* a type the parser can have produced: names are names, no NonNull directly inside NonNull *)
Fixpoint wf_ty (t : ty) : bool :=
  match t with
  | TNamed n => name_ok (nval (nd_name n))
  | TList t _ => wf_ty t
  | TNonNull t _ => wf_ty t && negb (is_nonnull t)
  end.

(* equality of types up to locations *)
Fixpoint ty_eqv (a b : ty) : Prop :=
  match a, b with
  | TNamed n, TNamed m => nval (nd_name n) = nval (nd_name m)
  | TList a _, TList b _ => ty_eqv a b
  | TNonNull a _, TNonNull b _ => ty_eqv a b
  | _, _ => False
  end.

Lemma flat_app : forall A B, flat (A ++ B) = flat A ++ flat B.
Proof. intros A B. unfold flat. apply flat_map_app. Qed.

Lemma ptoks_app : forall A B pos, ptoks pos (A ++ B) = ptoks pos A ++ ptoks (pos + nlen (flat A)) B.
Proof.
  induction A as [|p A IH]; intros B pos.
  - cbn [app ptoks flat flat_map]. unfold nlen; cbn [length]. rewrite N.add_0_r. reflexivity.
  - destruct p as [k v|s|d s]; cbn [app ptoks].
    + rewrite IH. change (flat (PTok k v :: A)) with (render_piece (PTok k v) ++ flat A). rewrite nlen_app, N.add_assoc. reflexivity.
    + rewrite IH. change (flat (PSep s :: A)) with (s ++ flat A). rewrite nlen_app, N.add_assoc. reflexivity.
    + rewrite IH. change (flat (PBlk d s :: A)) with (render_piece (PBlk d s) ++ flat A). rewrite nlen_app, N.add_assoc. reflexivity.
Qed.

Lemma layout_wfb_type : forall t L, wf_ty t = true -> layout_wfb L = true -> bound_ok (flat L) = true ->
  layout_wfb (lay_type t ++ L) = true.
Proof.
  induction t as [n|t IH l|t IH l]; intros L W HL HB.
  - cbn [lay_type Nm app layout_wfb piece_wfb]. cbn [wf_ty] in W. rewrite W, HB, HL. reflexivity.
  - cbn [lay_type]. unfold T. cbn [app]. cbn [layout_wfb piece_wfb is_nil andb]. rewrite <- app_assoc.
    apply IH; [exact W| cbn [app layout_wfb piece_wfb is_nil andb]; exact HL | reflexivity].
  - cbn [lay_type]. unfold T. rewrite <- app_assoc. cbn [wf_ty] in W. apply andb_true_iff in W. destruct W as [W _].
    apply IH; [exact W| cbn [app layout_wfb piece_wfb is_nil andb]; exact HL | reflexivity].
Qed.

Lemma is_nonnull_eqv : forall a b, ty_eqv a b -> is_nonnull b = is_nonnull a.
Proof. intros a b H. destruct a, b; simpl in *; try contradiction; reflexivity. Qed.

(* the tokens of a printed type derive a type equal to it up to locations *)
Lemma type_tokens_derive : forall t pos, wf_ty t = true -> exists t', DType (ptoks pos (lay_type t)) t' /\ ty_eqv t t'.
Proof.
  induction t as [n|t IH l|t IH l]; intros pos W.
  - cbn [lay_type Nm ptoks]. eexists. split; [apply DT_named; reflexivity|]. reflexivity.
  - cbn [lay_type]. unfold T. cbn [app]. cbn [ptoks]. rewrite ptoks_app. cbn [ptoks app].
    destruct (IH (pos + nlen (render_piece (PTok BRACKET_L []))) W) as (t' & D & E).
    eexists. split.
    + apply DT_list; [reflexivity|exact D|reflexivity].
    + exact E.
  - cbn [lay_type]. unfold T. rewrite ptoks_app. cbn [ptoks]. cbn [wf_ty] in W. apply andb_true_iff in W. destruct W as [W NN].
    destruct (IH pos W) as (t' & D & E).
    eexists. split.
    + apply DT_nonnull; [exact D| rewrite (is_nonnull_eqv _ _ E); apply negb_true_iff; exact NN | reflexivity].
    + exact E.
Qed.

(* print, lex, parse: a well-formed type is read back, up to locations *)
Theorem type_roundtrip : forall t, wf_ty t = true ->
  exists ts t', lex (print_type t) = Ok (ts ++ [eof_tok (nlen (print_type t))], false) /\
    DType ts t' /\ ty_eqv t t' /\
    forall fuel pe, (length ts < fuel)%nat ->
      parse_type fuel (pe, ts ++ [eof_tok (nlen (print_type t))]) = Ok (t', (endof pe ts, [eof_tok (nlen (print_type t))])).
Proof.
  intros t W. destruct (type_tokens_derive t 0 W) as (t' & D & E).
  exists (ptoks 0 (lay_type t)), t'. split; [|split; [exact D|split; [exact E|]]].
  - unfold print_type. apply lex_flat_layout.
    rewrite <- (app_nil_r (lay_type t)). apply layout_wfb_type; [exact W|reflexivity|reflexivity].
  - intros fuel pe Hf. apply parse_type_complete; [exact D|exact Hf|]. apply nk_cons. discriminate.
Qed.
