(* Invariants of the executor (Exec/Exec.v), by one induction on fuel over the four mutually
   recursive functions: everything a (sub)execution at response path p records -- resolver
   calls, errors, a raised error, deferred values -- lies under p. *)
From Coq Require Import List ZArith NArith String Bool.
From GQL Require Import Exec.Syntax Exec.Coerce Exec.Exec.
Import ListNotations.
Open Scope string_scope.
Open Scope list_scope.

Definition prefix (p q : path) : Prop := exists r, q = p ++ r.

Lemma prefix_refl : forall p, prefix p p.
Proof. intro p. exists []. rewrite app_nil_r. reflexivity. Qed.

Lemma prefix_trans : forall p q r, prefix p q -> prefix q r -> prefix p r.
Proof. intros p q r [a ->] [b ->]. exists (a ++ b). rewrite app_assoc. reflexivity. Qed.

Lemma prefix_app : forall p r, prefix p (p ++ r).
Proof. intros p r. exists r. reflexivity. Qed.

(* deferred values still in a response under construction: (type, path) *)
Fixpoint thunks (q : presp) : list (tyref * path) :=
  match q with
  | QThunk t _ _ p _ => [(t, p)]
  | QList l => flat_map thunks l
  | QObj l => flat_map (fun kv => thunks (snd kv)) l
  | _ => []
  end.

Definition thunk_ok (p : path) (tp : tyref * path) : Prop := is_nonnull (fst tp) = false /\ prefix p (snd tp).
Definition thunks_ok (p : path) (q : presp) : Prop := Forall (thunk_ok p) (thunks q).

Record ext (p : path) (s s' : st) : Prop := {
  ext_c : exists cs, st_calls s' = st_calls s ++ cs /\ Forall (fun c => prefix p (c_path c)) cs;
  ext_e : exists es, st_errs s' = st_errs s ++ es /\ Forall (fun e => prefix p (e_path e)) es }.

Lemma ext_refl : forall p s, ext p s s.
Proof. intros p s. split; exists []; rewrite app_nil_r; split; auto. Qed.

Lemma ext_trans : forall p s1 s2 s3, ext p s1 s2 -> ext p s2 s3 -> ext p s1 s3.
Proof.
  intros p s1 s2 s3 [[c1 [E1 F1]] [e1 [G1 H1]]] [[c2 [E2 F2]] [e2 [G2 H2]]]. split.
  - exists (c1 ++ c2). rewrite E2, E1, app_assoc. split; [reflexivity|apply Forall_app; split; assumption].
  - exists (e1 ++ e2). rewrite G2, G1, app_assoc. split; [reflexivity|apply Forall_app; split; assumption].
Qed.

Lemma ext_weaken : forall p p' s s', prefix p p' -> ext p' s s' -> ext p s s'.
Proof.
  intros p p' s s' Hp [[c [E F]] [e [G H]]]. split.
  - exists c. split; [exact E|]. eapply Forall_impl; [|exact F]. intros a Ha. eapply prefix_trans; eassumption.
  - exists e. split; [exact G|]. eapply Forall_impl; [|exact H]. intros a Ha. eapply prefix_trans; eassumption.
Qed.

Lemma thunks_ok_weaken : forall p p' q, prefix p p' -> thunks_ok p' q -> thunks_ok p q.
Proof.
  intros p p' q Hp H. unfold thunks_ok in *. eapply Forall_impl; [|exact H].
  intros [t tp] [H1 H2]. split; [exact H1|]. eapply prefix_trans; eassumption.
Qed.

Lemma ext_add_err : forall p e s, prefix p (e_path e) -> ext p s (add_err e s).
Proof. intros p e s H. split; cbn; [exists []; rewrite app_nil_r; auto|exists [e]; auto]. Qed.
Lemma ext_add_call : forall p c s, prefix p (c_path c) -> ext p s (add_call c s).
Proof. intros p c s H. split; cbn; [exists [c]; auto|exists []; rewrite app_nil_r; auto]. Qed.
Lemma ext_add_tcall : forall p x s, ext p s (add_tcall x s).
Proof. intros. split; cbn; exists []; rewrite app_nil_r; auto. Qed.
Lemma ext_add_missing : forall p x s, ext p s (add_missing x s).
Proof. intros. split; cbn; exists []; rewrite app_nil_r; auto. Qed.
Lemma ext_set_escape : forall p s, ext p s (set_escape s).
Proof. intros. split; cbn; exists []; rewrite app_nil_r; auto. Qed.

(* the invariant of a sub-execution at path p *)
Definition inv1 (p : path) (s : st) (r : xres presp) : Prop :=
  match r with
  | XOk q s' => ext p s s' /\ thunks_ok p q
  | XRaise e s' => ext p s s' /\ prefix p (e_path e)
  | XFuel => True
  end.

Definition invL (p : path) (s : st) (r : xres (list presp)) : Prop :=
  match r with
  | XOk qs s' => ext p s s' /\ Forall (thunks_ok p) qs
  | XRaise e s' => ext p s s' /\ prefix p (e_path e)
  | XFuel => True
  end.

Definition invF (p : path) (s : st) (r : xres (list (name * presp))) : Prop :=
  match r with
  | XOk fs s' => ext p s s' /\ Forall (fun kv => thunks_ok p (snd kv)) fs
  | XRaise e s' => ext p s s' /\ prefix p (e_path e)
  | XFuel => True
  end.

(* forcing: no raise, and nothing deferred remains *)
Definition invD (p : path) (s : st) (r : xres presp) : Prop :=
  match r with
  | XOk q s' => ext p s s' /\ thunks q = []
  | XRaise _ _ => False
  | XFuel => True
  end.

Lemma inv1_weaken : forall p p' s r, prefix p p' -> inv1 p' s r -> inv1 p s r.
Proof.
  intros p p' s [q s'|e s'|] Hp H; cbn in *; auto; destruct H as [H1 H2]; split.
  - eapply ext_weaken; eassumption.
  - eapply thunks_ok_weaken; eassumption.
  - eapply ext_weaken; eassumption.
  - eapply prefix_trans; eassumption.
Qed.

Lemma inv1_catch : forall p s t r, inv1 p s r -> inv1 p s (catch_at t r).
Proof.
  intros p s t [q s'|e s'|] H; cbn in *; auto.
  destruct (is_nonnull t); cbn; [exact H|].
  destruct H as [H1 H2]. split.
  - eapply ext_trans; [exact H1|apply ext_add_err; exact H2].
  - constructor.
Qed.

Lemma inv1_pre : forall p s0 s r, ext p s0 s -> inv1 p s r -> inv1 p s0 r.
Proof.
  intros p s0 s [q s'|e s'|] He H; cbn in *; auto; destruct H as [H1 H2]; split; auto; eapply ext_trans; eassumption.
Qed.

Lemma items_loop_inv : forall cmp p,
  (forall i x s, inv1 p s (cmp i x s)) -> forall l i s, invL p s (items_loop cmp l i s).
Proof.
  intros cmp p Hc. induction l as [|x l IH]; intros i s; cbn [items_loop].
  - cbn. split; [apply ext_refl|constructor].
  - specialize (Hc i x s). destruct (cmp i x s) as [y s'|e s'|]; cbn in Hc |- *; auto.
    destruct Hc as [H1 H2]. specialize (IH (i + 1)%N s').
    destruct (items_loop cmp l (i + 1)%N s') as [ys s''|e s''|]; cbn in IH |- *; auto.
    + destruct IH as [I1 I2]. split; [eapply ext_trans; eassumption|constructor; assumption].
    + destruct IH as [I1 I2]. split; [eapply ext_trans; eassumption|assumption].
Qed.

Lemma thunks_list_nil : forall qs, Forall (fun q => thunks q = []) qs -> flat_map thunks qs = [].
Proof. induction qs as [|q qs IH]; intros H; [reflexivity|]. inversion H; subst. cbn. rewrite H2, IH; auto. Qed.

Lemma dethunk_list_inv : forall f p,
  (forall q s, thunks_ok p q -> invD p s (f q s)) ->
  forall l s, Forall (thunks_ok p) l ->
    match dethunk_list f l s with
    | XOk qs s' => ext p s s' /\ Forall (fun q => thunks q = []) qs
    | XRaise _ _ => False
    | XFuel => True
    end.
Proof.
  intros f p Hf. induction l as [|x l IH]; intros s Hl; cbn [dethunk_list].
  - split; [apply ext_refl|constructor].
  - inversion Hl; subst. specialize (Hf x s H1).
    destruct (f x s) as [y s'|e s'|]; cbn in Hf |- *; auto.
    destruct Hf as [F1 F2]. specialize (IH s' H2).
    destruct (dethunk_list f l s') as [ys s''|e s''|]; auto.
    destruct IH as [I1 I2]. split; [eapply ext_trans; eassumption|constructor; assumption].
Qed.

Lemma dethunk_fields_inv : forall f p,
  (forall q s, thunks_ok p q -> invD p s (f q s)) ->
  forall l s, Forall (fun kv => thunks_ok p (snd kv)) l ->
    match dethunk_fields f l s with
    | XOk qs s' => ext p s s' /\ Forall (fun kv => thunks (snd kv) = []) qs
    | XRaise _ _ => False
    | XFuel => True
    end.
Proof.
  intros f p Hf. induction l as [|[k x] l IH]; intros s Hl; cbn [dethunk_fields].
  - split; [apply ext_refl|constructor].
  - inversion Hl; subst. cbn [snd] in H1. specialize (Hf x s H1).
    destruct (f x s) as [y s'|e s'|]; cbn in Hf |- *; auto.
    destruct Hf as [F1 F2]. specialize (IH s' H2).
    destruct (dethunk_fields f l s') as [ys s''|e s''|]; auto.
    destruct IH as [I1 I2]. split; [eapply ext_trans; eassumption|constructor; assumption].
Qed.

Lemma thunks_fields_nil : forall (l : list (name * presp)),
  Forall (fun kv => thunks (snd kv) = []) l -> flat_map (fun kv => thunks (snd kv)) l = [].
Proof. induction l as [|q qs IH]; intros H; [reflexivity|]. inversion H; subst. cbn. rewrite H2, IH; auto. Qed.

Lemma thunks_ok_list : forall p l, thunks_ok p (QList l) -> Forall (thunks_ok p) l.
Proof.
  intros p l. unfold thunks_ok. cbn [thunks]. induction l as [|x l IH]; intros H; [constructor|].
  cbn [flat_map] in H. apply Forall_app in H. destruct H as [H1 H2]. constructor; [exact H1|apply IH; exact H2].
Qed.

Lemma thunks_ok_list_intro : forall p l, Forall (thunks_ok p) l -> thunks_ok p (QList l).
Proof.
  intros p l H. unfold thunks_ok. cbn [thunks]. induction H as [|x l H1 H2 IH]; [constructor|].
  cbn [flat_map]. apply Forall_app. split; assumption.
Qed.

Lemma thunks_ok_obj : forall p l, thunks_ok p (QObj l) -> Forall (fun kv => thunks_ok p (snd kv)) l.
Proof.
  intros p l. unfold thunks_ok. cbn [thunks]. induction l as [|x l IH]; intros H; [constructor|].
  cbn [flat_map] in H. apply Forall_app in H. destruct H as [H1 H2]. constructor; [exact H1|apply IH; exact H2].
Qed.

Lemma thunks_ok_obj_intro : forall p (l : list (name * presp)),
  Forall (fun kv => thunks_ok p (snd kv)) l -> thunks_ok p (QObj l).
Proof.
  intros p l H. unfold thunks_ok. cbn [thunks]. induction H as [|x l H1 H2 IH]; [constructor|].
  cbn [flat_map]. apply Forall_app. split; assumption.
Qed.

Lemma thunks_ok_nil : forall p q, thunks q = [] -> thunks_ok p q.
Proof. intros p q H. unfold thunks_ok. rewrite H. constructor. Qed.

(* ExecuteField at p for key k: everything it records lies under p ++ [PKey k] *)
Definition invO (p : path) (s : st) (r : xres (option presp)) : Prop :=
  match r with
  | XOk y s' => ext p s s' /\ match y with Some q => thunks_ok p q | None => True end
  | XRaise e s' => ext p s s' /\ prefix p (e_path e)
  | XFuel => True
  end.

Lemma exec_field_inv : forall fuel' cmp dth E obj src k occs p s,
  (forall t nodes occs0 fpath p0 v s0, inv1 p0 s0 (cmp t nodes occs0 fpath p0 v s0)) ->
  (forall q s0 p0, thunks_ok p0 q -> invD p0 s0 (dth q s0)) ->
  invO (p ++ [PKey k]) s (exec_field fuel' cmp dth E obj src k occs p s) /\
  (en_serial E = true -> p = [] ->
   match exec_field fuel' cmp dth E obj src k occs p s with
   | XOk (Some y) _ => thunks y = []
   | _ => True
   end).
Proof.
  intros fuel' cmp dth E obj src k occs p s IHc IHd. unfold exec_field.
  set (fname := match occs with o :: _ => oc_name o | [] => "" end).
  set (fargs := match occs with o :: _ => oc_args o | [] => [] end).
  set (nodes := map oc_id occs).
  set (fp := p ++ [PKey k]).
  destruct (String.eqb fname "__typename"); [cbn; split; [split; [apply ext_refl|constructor]|reflexivity]|].
  destruct (find_field fname (object_fields (en_S E) obj)) as [fd|]; [|cbn; split; [split; [apply ext_refl|exact I]|auto]].
  destruct (get_argument_values fuel' (en_S E) (f_args fd) fargs (Some (en_vars E))) as [args|]; [|split; [exact I|auto]].
  set (s1 := add_call _ s).
  assert (Hs1 : ext fp s s1) by (apply ext_add_call; cbn; apply prefix_refl).
  destruct (match en_or E fp with Some o => force o | None => (OVal RNull, false) end) as [o thunked].
  set (s2 := match en_or E fp with Some _ => s1 | None => add_missing fp s1 end).
  assert (Hs2 : ext fp s s2).
  { unfold s2. destruct (en_or E fp); [exact Hs1|eapply ext_trans; [exact Hs1|apply ext_add_missing]]. }
  set (c0 := match o with
             | OVal v => cmp (f_type fd) nodes occs fp fp v s2
             | _ => XRaise {| e_path := fp; e_nodes := nodes |} s2
             end).
  assert (Hc0 : inv1 fp s c0).
  { unfold c0. destruct o; try (cbn; split; [exact Hs2|apply prefix_refl]).
    eapply inv1_pre; [exact Hs2|apply IHc]. }
  set (r1 := if thunked && negb (is_nonnull (f_type fd))
             then XOk (QThunk (f_type fd) nodes occs fp o) s2
             else match c0 with
                  | XRaise e s' => if thunked then XRaise e (set_escape s') else c0
                  | _ => c0
                  end).
  assert (Hr1 : inv1 fp s r1).
  { unfold r1. destruct (thunked && negb (is_nonnull (f_type fd))) eqn:Et.
    - cbn. split; [exact Hs2|]. unfold thunks_ok. cbn. constructor; [|constructor].
      split; cbn; [|apply prefix_refl].
      apply andb_true_iff in Et. destruct Et as [_ Et]. destruct (is_nonnull (f_type fd)); [discriminate|reflexivity].
    - destruct c0 as [q0 s0|e0 s0|]; cbn in Hc0 |- *; auto.
      destruct thunked; cbn; [|exact Hc0].
      destruct Hc0 as [H1 H2]. split; [eapply ext_trans; [exact H1|apply ext_set_escape]|exact H2]. }
  pose proof (inv1_catch fp s (f_type fd) r1 Hr1) as Hcatch.
  destruct (catch_at (f_type fd) r1) as [y s'|e s'|]; cbn in Hcatch |- *; auto.
  destruct (en_serial E && match p with [] => true | _ :: _ => false end) eqn:Eser.
  - destruct Hcatch as [H1 H2].
    pose proof (IHd y s' fp H2) as Hd.
    destruct (dth y s') as [y' s''|e s''|]; cbn in Hd |- *; auto; [|contradiction].
    destruct Hd as [D1 D2]. split; [split; [eapply ext_trans; eassumption|apply thunks_ok_nil; exact D2]|].
    intros _ _. exact D2.
  - cbn. split; [exact Hcatch|]. intros Hs Hp. subst p. rewrite Hs in Eser. discriminate.
Qed.

Lemma invO_weaken : forall p p' s r, prefix p p' -> invO p' s r -> invO p s r.
Proof.
  intros p p' s [y s'|e s'|] Hp H; cbn in *; auto; destruct H as [H1 H2]; split.
  - eapply ext_weaken; eassumption.
  - destruct y; [eapply thunks_ok_weaken; eassumption|exact I].
  - eapply ext_weaken; eassumption.
  - eapply prefix_trans; eassumption.
Qed.

(* ---- the main invariant ---- *)
Definition P (fuel : nat) : Prop :=
  (forall E t nodes occs fpath p v s, inv1 p s (complete fuel E t nodes occs fpath p v s)) /\
  (forall E obj occs p src s, inv1 p s (exec_object fuel E obj occs p src s)) /\
  (forall E obj src g p s, invF p s (exec_groups fuel E obj src g p s)) /\
  (forall E q s p, thunks_ok p q -> invD p s (dethunk fuel E q s)).

Lemma exec_inv : forall fuel, P fuel.
Proof.
  induction fuel as [|fuel [IHc [IHo [IHg IHd]]]].
  - repeat split; intros; exact I.
  - repeat split.
    + (* complete *)
      intros E t nodes occs fpath p v s. cbn [complete].
      destruct t as [n|t'|t'].
      * (* named *)
        destruct (rv_nullish v); [cbn; split; [apply ext_refl|constructor]|].
        destruct (lookup_type (en_S E) n) as [[k|vals|fs ifs|fs|ms|fs]|].
        -- cbn. destruct (nullish (serialize_scalar k v)); cbn; split; try apply ext_refl; constructor.
        -- cbn. destruct (nullish (serialize_enum vals v)); cbn; split; try apply ext_refl; constructor.
        -- apply IHo.
        -- destruct (en_tor E v) as [rt|]; [|cbn; split; [apply ext_add_tcall|apply prefix_refl]].
           destruct (possible_type (en_S E) n rt); [|cbn; split; [apply ext_add_tcall|apply prefix_refl]].
           eapply inv1_pre; [apply ext_add_tcall|apply IHo].
        -- destruct (en_tor E v) as [rt|]; [|cbn; split; [apply ext_add_tcall|apply prefix_refl]].
           destruct (possible_type (en_S E) n rt); [|cbn; split; [apply ext_add_tcall|apply prefix_refl]].
           eapply inv1_pre; [apply ext_add_tcall|apply IHo].
        -- cbn. split; [apply ext_refl|apply prefix_refl].
        -- cbn. split; [apply ext_refl|apply prefix_refl].
      * (* list *)
        destruct (rv_nullish v); [cbn; split; [apply ext_refl|constructor]|].
        destruct v; try (cbn; split; [apply ext_refl|apply prefix_refl]).
        pose proof (items_loop_inv
                      (fun i x s0 => catch_at t' (complete fuel E t' nodes occs fpath (p ++ [PIdx i]) x s0)) p) as HL.
        match goal with |- inv1 p s (match items_loop ?c ?l0 ?i0 ?s0 with _ => _ end) =>
          specialize (HL (fun i x s1 => inv1_catch p s1 t' _
                              (inv1_weaken p (p ++ [PIdx i]) s1 _ (prefix_app p [PIdx i]) (IHc E t' nodes occs fpath (p ++ [PIdx i]) x s1))) l0 i0 s0);
          destruct (items_loop c l0 i0 s0) as [ys s'|e s'|]; cbn in HL |- *; auto
        end.
        destruct HL as [H1 H2]. split; [exact H1|apply thunks_ok_list_intro; exact H2].
      * (* non-null *)
        specialize (IHc E t' nodes occs fpath p v s).
        destruct (complete fuel E t' nodes occs fpath p v s) as [q s'|e s'|]; cbn in IHc |- *; auto.
        destruct q; cbn; try exact IHc.
        destruct IHc as [H1 _]. split; [exact H1|apply prefix_refl].
    + (* exec_object *)
      intros E obj occs p src s. cbn [exec_object].
      destruct (collect_all fuel (en_S E) (en_D E) (en_vars E) obj (map oc_sub occs) [] []) as [g|]; [|exact I].
      specialize (IHg E obj src g p s).
      destruct (exec_groups fuel E obj src g p s) as [fs s'|e s'|]; cbn in IHg |- *; auto.
      destruct IHg as [H1 H2]. split; [exact H1|apply thunks_ok_obj_intro; exact H2].
    + (* exec_groups *)
      intros E obj src g p s. cbn [exec_groups].
      destruct g as [|[k occs] rest]; [cbn; split; [apply ext_refl|constructor]|].
      pose proof (invO_weaken p (p ++ [PKey k]) s _ (prefix_app p [PKey k])
                    (proj1 (exec_field_inv fuel (complete fuel E) (dethunk fuel E) E obj src k occs p s
                       (fun t nodes occs0 fpath p0 v s0 => IHc E t nodes occs0 fpath p0 v s0)
                       (fun q s0 p0 H0 => IHd E q s0 p0 H0)))) as Hthis.
      destruct (exec_field fuel (complete fuel E) (dethunk fuel E) E obj src k occs p s) as [y s'|e s'|]; cbn in Hthis |- *; auto.
      destruct Hthis as [T1 T2].
      specialize (IHg E obj src rest p s').
      destruct (exec_groups fuel E obj src rest p s') as [ys s''|e s''|]; cbn in IHg |- *; auto.
      * destruct IHg as [G1 G2]. split; [eapply ext_trans; eassumption|].
        destruct y as [q|]; [constructor; assumption|exact G2].
      * destruct IHg as [G1 G2]. split; [eapply ext_trans; eassumption|exact G2].
    + (* dethunk *)
      intros E q s p Hq. cbn [dethunk].
      destruct q as [|v|l|l|t nodes occs tp o].
      * cbn. split; [apply ext_refl|reflexivity].
      * cbn. split; [apply ext_refl|reflexivity].
      * pose proof (dethunk_list_inv (dethunk fuel E) p (fun q0 s0 H0 => IHd E q0 s0 p H0) l s (thunks_ok_list p l Hq)) as HL.
        destruct (dethunk_list (dethunk fuel E) l s) as [ys s'|e s'|]; cbn; auto.
        destruct HL as [H1 H2]. split; [exact H1|]. cbn [thunks]. apply thunks_list_nil. exact H2.
      * pose proof (dethunk_fields_inv (dethunk fuel E) p (fun q0 s0 H0 => IHd E q0 s0 p H0) l s (thunks_ok_obj p l Hq)) as HL.
        destruct (dethunk_fields (dethunk fuel E) l s) as [ys s'|e s'|]; cbn; auto.
        destruct HL as [H1 H2]. split; [exact H1|]. cbn [thunks]. apply thunks_fields_nil. exact H2.
      * unfold thunks_ok in Hq. cbn [thunks] in Hq. inversion Hq as [|x l0 [Hnn Hpre] _]; subst. cbn [fst snd] in *.
        assert (Hc : inv1 tp s (match o with
                                 | OVal v => complete fuel E t nodes occs tp tp v s
                                 | _ => XRaise {| e_path := tp; e_nodes := nodes |} s
                                 end)).
        { destruct o; try (cbn; split; [apply ext_refl|apply prefix_refl]). apply IHc. }
        pose proof (inv1_catch tp s t _ Hc) as Hcatch.
        destruct (catch_at t _) as [y s'|e s'|] eqn:Ec; cbn in Hcatch |- *; auto.
        -- destruct Hcatch as [H1 H2].
           pose proof (IHd E y s' tp H2) as Hd.
           destruct (dethunk fuel E y s') as [y' s''|e s''|]; cbn in Hd |- *; auto.
           destruct Hd as [D1 D2]. split; [|exact D2].
           eapply ext_weaken; [exact Hpre|eapply ext_trans; eassumption].
        -- (* catch_at at a nullable type never raises *)
           unfold catch_at in Ec. destruct (match o with OVal v => _ | _ => _ end) as [a s0|e0 s0|]; try discriminate.
           rewrite Hnn in Ec. discriminate.
Qed.
