(* NoUnusedFragments, one direction: a fragment definition that no operation reaches through
   spreads is reported (the closure computed by RecursivelyReferencedFragments contains only
   reachable names). *)
From Coq Require Import List Arith Lia Bool String NArith.
From GQL Require Import Exec.Syntax Validate.VSyntax Validate.Overlap Validate.Rules Proofs.ValidateRules Proofs.ValidateMemo.
Import ListNotations.
Open Scope string_scope.
Open Scope list_scope.

Section Unused.
Variable W : wdoc.

(* names reachable from the spreads [init] of a selection set *)
Inductive Reach (init : list name) : name -> Prop :=
| R0 : forall g, In g init -> Reach init g
| RS : forall h g, Reach init h -> In g (wfrag_spreads W h) -> Reach init g.

Definition Violates_no_unused_fragments : Prop :=
  exists f, In f (w_frags W) /\
            forall o, In o (w_ops W) -> ~ Reach (spread_names (wo_sel o)) (wf_name f).

Lemma close_step_sound : forall init seen g,
  (forall x, In x seen -> Reach init x) -> In g (close_step W seen) -> Reach init g.
Proof.
  intros init seen g H Hg. unfold close_step in Hg. apply dedup_incl in Hg.
  apply in_app_or in Hg. destruct Hg as [Hg|Hg]; [apply H; exact Hg|].
  apply in_flat_map in Hg. destruct Hg as [h [Hh Hg]]. apply (RS init h g); [apply H; exact Hh | exact Hg].
Qed.

Lemma iter_sound : forall init n seen g,
  (forall x, In x seen -> Reach init x) -> In g (iter n (close_step W) seen) -> Reach init g.
Proof.
  intros init n. induction n as [|n IH]; intros seen g H Hg; simpl in Hg; [apply H; exact Hg|].
  apply (IH (close_step W seen) g); [|exact Hg].
  intros x Hx. apply (close_step_sound init seen x H Hx).
Qed.

Lemma referenced_sound : forall ss g, In g (referenced W ss) -> Reach (spread_names ss) g.
Proof.
  intros ss g H. unfold referenced in H. apply filter_In in H. destruct H as [H _].
  apply (iter_sound (spread_names ss) _ _ g) in H; [exact H|].
  intros x Hx. apply dedup_incl in Hx. apply R0. exact Hx.
Qed.

Theorem no_unused_fragments_complete :
  Violates_no_unused_fragments -> rule_no_unused_fragments W <> [].
Proof.
  intros [f [Hf H]]. unfold rule_no_unused_fragments. apply flat_map_nonempty. exists f.
  split; [exact Hf|].
  destruct (nmem (wf_name f) (used_fragments W)) eqn:E; [|discriminate].
  exfalso. apply nmem_in in E. unfold used_fragments in E. apply in_flat_map in E.
  destruct E as [o [Ho E]]. apply (H o Ho). apply referenced_sound. exact E.
Qed.

End Unused.

(* ---- the other direction: a reported fragment is unreachable, when the closure iteration
   did not fall short ---- *)
Section Unused2.
Variable W : wdoc.

Lemma dedup_complete2 : forall l seen x, In x l -> In x seen \/ In x (dedup l seen).
Proof.
  induction l as [|y r IH]; intros seen x H; [destruct H|]. simpl.
  destruct (nmem y seen) eqn:E.
  - destruct H as [H|H]; [subst; left; apply nmem_in; exact E | apply IH; exact H].
  - destruct H as [H|H]; [subst; right; left; reflexivity|].
    destruct (IH (y :: seen) x H) as [[K|K]|K]; [subst; right; left; reflexivity | left; exact K | right; right; exact K].
Qed.

Lemma close_step_incl : forall seen x, In x seen -> In x (close_step W seen).
Proof.
  intros seen x H. unfold close_step.
  destruct (dedup_complete2 (seen ++ flat_map (wfrag_spreads W) seen) [] x) as [[]|K]; [|exact K].
  apply in_or_app. left. exact H.
Qed.

Lemma iter_incl : forall n seen x, In x seen -> In x (iter n (close_step W) seen).
Proof.
  induction n as [|n IH]; intros seen x H; simpl; [exact H|]. apply IH. apply close_step_incl. exact H.
Qed.

Lemma closure_complete : forall ss g,
  closure_stable W ss = true -> Reach W (spread_names ss) g -> In g (closure_of W ss).
Proof.
  intros ss g Hst R. induction R as [g Hg|h g Rh IH Hg].
  - unfold closure_of. apply iter_incl. destruct (dedup_complete2 (spread_names ss) [] g Hg) as [[]|K]. exact K.
  - unfold closure_stable in Hst. rewrite forallb_forall in Hst. apply nmem_in. apply Hst.
    apply in_flat_map. exists h. split; [exact IH | exact Hg].
Qed.

Theorem no_unused_fragments_sound :
  closures_stable W = true ->
  rule_no_unused_fragments W <> [] -> Violates_no_unused_fragments W.
Proof.
  intros Hst H. unfold rule_no_unused_fragments in H. apply flat_map_nonempty in H.
  destruct H as [f [Hf H]]. exists f. split; [exact Hf|].
  intros o Ho R. destruct (nmem (wf_name f) (used_fragments W)) eqn:E; [contradiction|].
  apply nmem_not_in in E. apply E. unfold used_fragments. apply in_flat_map. exists o. split; [exact Ho|].
  unfold referenced. apply filter_In. split.
  - apply (closure_complete (wo_sel o) (wf_name f)); [|exact R].
    unfold closures_stable in Hst. rewrite forallb_forall in Hst. apply Hst. exact Ho.
  - assert (Hn : In (wf_name f) (map wf_name (w_frags W))) by (apply in_map; exact Hf).
    destruct (fragw W (wf_name f)) eqn:Efw; [reflexivity|]. apply fragw_none in Efw. contradiction.
Qed.

Theorem no_unused_fragments_iff :
  closures_stable W = true ->
  (rule_no_unused_fragments W <> [] <-> Violates_no_unused_fragments W).
Proof.
  intro Hst. split; [apply no_unused_fragments_sound; exact Hst | apply no_unused_fragments_complete].
Qed.
End Unused2.
