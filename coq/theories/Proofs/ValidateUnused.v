(* NoUnusedFragments, one direction: a fragment definition that no operation reaches through
   spreads is reported (the closure computed by RecursivelyReferencedFragments contains only
   reachable names). *)
From Coq Require Import List Arith Lia Bool String NArith.
From GQL Require Import Exec.Syntax Validate.VSyntax Validate.Overlap Validate.Rules Proofs.ValidateRules Proofs.ValidateMemo.
Import ListNotations.
Open Scope string_scope.
Open Scope list_scope.

Section Unused.
Variable W : wdoc.

(* names reachable from the spreads [init] of a selection set *)
Inductive Reach (init : list name) : name -> Prop :=
| R0 : forall g, In g init -> Reach init g
| RS : forall h g, Reach init h -> In g (wfrag_spreads W h) -> Reach init g.

Definition Violates_no_unused_fragments : Prop :=
  exists f, In f (w_frags W) /\
            forall o, In o (w_ops W) -> ~ Reach (spread_names (wo_sel o)) (wf_name f).

Lemma close_step_sound : forall init seen g,
  (forall x, In x seen -> Reach init x) -> In g (close_step W seen) -> Reach init g.
Proof.
  intros init seen g H Hg. unfold close_step in Hg. apply dedup_incl in Hg.
  apply in_app_or in Hg. destruct Hg as [Hg|Hg]; [apply H; exact Hg|].
  apply in_flat_map in Hg. destruct Hg as [h [Hh Hg]]. apply (RS init h g); [apply H; exact Hh | exact Hg].
Qed.

Lemma iter_sound : forall init n seen g,
  (forall x, In x seen -> Reach init x) -> In g (iter n (close_step W) seen) -> Reach init g.
Proof.
  intros init n. induction n as [|n IH]; intros seen g H Hg; simpl in Hg; [apply H; exact Hg|].
  apply (IH (close_step W seen) g); [|exact Hg].
  intros x Hx. apply (close_step_sound init seen x H Hx).
Qed.

Lemma referenced_sound : forall ss g, In g (referenced W ss) -> Reach (spread_names ss) g.
Proof.
  intros ss g H. unfold referenced in H. apply filter_In in H. destruct H as [H _].
  apply (iter_sound (spread_names ss) _ _ g) in H; [exact H|].
  intros x Hx. apply dedup_incl in Hx. apply R0. exact Hx.
Qed.

Theorem no_unused_fragments_complete :
  Violates_no_unused_fragments -> rule_no_unused_fragments W <> [].
Proof.
  intros [f [Hf H]]. unfold rule_no_unused_fragments. apply flat_map_nonempty. exists f.
  split; [exact Hf|].
  destruct (nmem (wf_name f) (used_fragments W)) eqn:E; [|discriminate].
  exfalso. apply nmem_in in E. unfold used_fragments in E. apply in_flat_map in E.
  destruct E as [o [Ho E]]. apply (H o Ho). apply referenced_sound. exact E.
Qed.

End Unused.
