(* Locations: the node ids a rule's model reports are ids of nodes of the document of the kind
   the rule names (the offending node). *)
From Coq Require Import List Arith Lia Bool String NArith.
From GQL Require Import Exec.Syntax Validate.VSyntax Validate.Overlap Validate.Rules Proofs.ValidateRules.
Import ListNotations.
Open Scope string_scope.
Open Scope list_scope.

Lemma dup_firsts_located : forall l seen x, In x (dup_firsts seen l) -> In x (map snd seen) \/ In x (map snd l).
Proof.
  induction l as [|[n id] r IH]; intros seen x H; simpl in H; [destruct H|].
  destruct (alookup n seen) as [first|] eqn:E.
  - destruct H as [H|H].
    + subst x. left. apply alookup_in in E. apply in_map_iff. exists (n, first). split; [reflexivity | exact E].
    + destruct (IH seen x H) as [K|K]; [left; exact K | right; right; exact K].
  - destruct (IH _ x H) as [K|K]; [|right; right; exact K].
    rewrite map_app in K. apply in_app_or in K. destruct K as [K|[K|[]]]; [left; exact K | right; left; exact K].
Qed.

Lemma dup_firsts_located0 : forall l x, In x (dup_firsts [] l) -> In x (map snd l).
Proof. intros l x H. destruct (dup_firsts_located l [] x H) as [[]|K]. exact K. Qed.

Lemma find_vardef_in : forall n vs vd, find_vardef n vs = Some vd -> In vd vs.
Proof.
  intros n vs vd. unfold find_vardef.
  assert (G : forall (l : list wvardef) acc,
             fold_left (fun acc v => if String.eqb n (wv_name v) then Some v else acc) l acc = Some vd ->
             acc = Some vd \/ In vd l).
  { induction l as [|v r IH]; intros acc H; simpl in H; [left; exact H|].
    destruct (IH _ H) as [E|E]; [|right; right; exact E].
    destruct (String.eqb n (wv_name v)); [|left; exact E]. inversion E. right. left. reflexivity. }
  intro H. destruct (G vs None H) as [E|E]; [discriminate | exact E].
Qed.

Section Located.
Variable S : schema.
Variable W : wdoc.

(* 20 UniqueOperationNames: the name node of a named operation, or the node of an anonymous one *)
Theorem unique_operation_names_located : forall x, In x (rule_unique_operation_names W) ->
  exists o, In o (w_ops W) /\ x = snd (op_key o).
Proof.
  intros x H. unfold rule_unique_operation_names in H. apply dup_firsts_located0 in H.
  rewrite map_map in H. apply in_map_iff in H. destruct H as [o [E Ho]]. exists o. split; [exact Ho | symmetry; exact E].
Qed.

(* 18 UniqueFragmentNames: the name node of a fragment definition *)
Theorem unique_fragment_names_located : forall x, In x (rule_unique_fragment_names W) ->
  exists f, In f (w_frags W) /\ x = wf_nid f.
Proof.
  intros x H. unfold rule_unique_fragment_names in H. apply dup_firsts_located0 in H.
  rewrite map_map in H. apply in_map_iff in H. destruct H as [f [E Hf]]. exists f. split; [exact Hf | symmetry; exact E].
Qed.

(* 21 UniqueVariableNames: the name node of a variable definition *)
Theorem unique_variable_names_located : forall x, In x (rule_unique_variable_names W) ->
  exists o v, In o (w_ops W) /\ In v (wo_vars o) /\ x = wv_nid v.
Proof.
  intros x H. unfold rule_unique_variable_names in H. apply in_flat_map in H. destruct H as [o [Ho H]].
  apply dup_firsts_located0 in H. rewrite map_map in H. apply in_map_iff in H. destruct H as [v [E Hv]].
  exists o, v. split; [exact Ho|]. split; [exact Hv | symmetry; exact E].
Qed.

(* 17 UniqueArgumentNames: an argument node of a field or directive of the document *)
Definition item_args (i : item) : list warg :=
  match i with IField _ _ _ _ args _ _ => args | IDir _ _ d => wd_args d | _ => [] end.
Theorem unique_argument_names_located : forall x, In x (rule_unique_argument_names S W) ->
  exists i a, In i (doc_items S W) /\ In a (item_args i) /\ x = wa_id a.
Proof.
  intros x H. unfold rule_unique_argument_names in H. apply in_flat_map in H. destruct H as [i [Hi H]].
  assert (G : forall args, In x (arg_dups args) -> exists a, In a args /\ x = wa_id a).
  { intros args K. unfold arg_dups in K. apply dup_firsts_located0 in K. rewrite map_map in K.
    apply in_map_iff in K. destruct K as [a [E Ha]]. exists a. split; [exact Ha | symmetry; exact E]. }
  destruct i as [pt fd id nm args ssid hs| | |loc dd d| |]; try contradiction.
  - destruct (G _ H) as [a [Ha E]]. exists (IField pt fd id nm args ssid hs), a. auto.
  - destruct (G _ H) as [a [Ha E]]. exists (IDir loc dd d), a. auto.
Qed.

(* 16 ScalarLeafs: the selection set of a leaf field, or a composite field without one *)
Theorem scalar_leafs_located : forall x, In x (rule_scalar_leafs S W) ->
  exists pt fd id nm args ssid hs, In (IField pt fd id nm args ssid hs) (doc_items S W) /\ (x = ssid \/ x = id).
Proof.
  intros x H. unfold rule_scalar_leafs in H. apply in_flat_map in H. destruct H as [i [Hi H]].
  destruct i as [pt [fd|] id nm args ssid hs| | | | |]; try contradiction.
  exists pt, (Some fd), id, nm, args, ssid, hs. split; [exact Hi|].
  destruct (is_leaf S (named_of (f_type fd))); destruct hs; simpl in H; try destruct H as [H|[]]; try destruct H; auto.
Qed.

(* 5 KnownDirectives: the directive node *)
Theorem known_directives_located : forall x, In x (rule_known_directives S W) ->
  exists loc dd d, In (IDir loc dd d) (doc_items S W) /\ x = wd_id d.
Proof.
  intros x H. unfold rule_known_directives in H. apply in_flat_map in H. destruct H as [i [Hi H]].
  destruct i as [| | |loc [dd|] d| |]; try contradiction.
  - exists loc, (Some dd), d. split; [exact Hi|].
    destruct (existsb (dloc_eqb loc) (dd_locs dd)); simpl in H; [destruct H | destruct H as [H|[]]; auto].
  - exists loc, None, d. split; [exact Hi|]. destruct H as [H|[]]. auto.
Qed.

(* 4 KnownArgumentNames: the argument node *)
Theorem known_argument_names_located : forall x, In x (rule_known_argument_names S W) ->
  exists ow ad a, In (IArg ow ad a) (doc_items S W) /\ x = wa_id a.
Proof.
  intros x H. unfold rule_known_argument_names in H. apply in_flat_map in H. destruct H as [i [Hi H]].
  destruct i as [| | | |[[fd|] pt|[dd|]] ad a|]; try contradiction.
  - exists (OField (Some fd) pt), ad, a. split; [exact Hi|].
    destruct (find_argdef (wa_name a) (f_args fd)); simpl in H; [destruct H | destruct H as [H|[]]; auto].
  - exists (ODir (Some dd)), ad, a. split; [exact Hi|].
    destruct (find_argdef (wa_name a) (dd_args dd)); simpl in H; [destruct H | destruct H as [H|[]]; auto].
Qed.

(* 15 ProvidedNonNullArguments: the field or directive node *)
Theorem provided_non_null_arguments_located : forall x, In x (rule_provided_non_null_arguments S W) ->
  (exists pt fd nm args ssid hs, In (IField pt fd x nm args ssid hs) (doc_items S W)) \/
  (exists loc dd d, In (IDir loc dd d) (doc_items S W) /\ x = wd_id d).
Proof.
  intros x H. unfold rule_provided_non_null_arguments in H. apply in_flat_map in H. destruct H as [i [Hi H]].
  assert (G : forall defs args y, In x (missing_required defs args y) -> x = y).
  { intros defs args y K. unfold missing_required in K. apply in_flat_map in K. destruct K as [ad [_ K]].
    destruct (is_nonnull (a_type ad) && negb (existsb (fun a => String.eqb (wa_name a) (a_name ad)) args)); [|destruct K].
    destruct K as [K|[]]. auto. }
  destruct i as [pt [fd|] id nm args ssid hs| | |loc [dd|] d| |]; try contradiction.
  - left. apply G in H. subst x. exists pt, (Some fd), nm, args, ssid, hs. exact Hi.
  - right. apply G in H. exists loc, (Some dd), d. auto.
Qed.

(* 14 PossibleFragmentSpreads: the inline fragment or the spread *)
Theorem possible_fragment_spreads_located : forall x, In x (rule_possible_fragment_spreads S W) ->
  (exists pt ty tc, In (IInline pt ty x tc) (doc_items S W)) \/ (exists pt nid g, In (ISpread pt x nid g) (doc_items S W)).
Proof.
  intros x H. unfold rule_possible_fragment_spreads in H. apply in_flat_map in H. destruct H as [i [Hi H]].
  destruct i as [|[p|] id nid g|[p|] [t|] id tc| | |]; try contradiction.
  - right. destruct (fragw W g) as [f|]; [|destruct H]. destruct (resolve S (wf_cond f)) as [t|]; [|destruct H].
    destruct (types_overlap S t p); [destruct H|]. destruct H as [H|[]]. subst x. exists (Some p), nid, g. exact Hi.
  - left. destruct (types_overlap S t p); [destruct H|]. destruct H as [H|[]]. subst x. exists (Some p), (Some t), tc. exact Hi.
Qed.

(* 3 FragmentsOnCompositeTypes: the type condition *)
Theorem fragments_on_composite_located : forall x, In x (rule_fragments_on_composite S W) ->
  (exists pt ty id tc, In (IInline pt ty id (Some tc)) (doc_items S W) /\ x = fst tc) \/
  (exists f, In f (w_frags W) /\ x = wf_tcid f).
Proof.
  intros x H. unfold rule_fragments_on_composite in H. apply in_app_or in H. destruct H as [H|H]; apply in_flat_map in H.
  - left. destruct H as [i [Hi H]]. destruct i as [| |pt [t|] id [tc|]| | |]; try contradiction.
    destruct (is_composite S t); [destruct H|]. destruct H as [H|[]]. exists pt, (Some t), id, tc. auto.
  - right. destruct H as [f [Hf H]]. destruct (resolve S (wf_cond f)) as [t|]; [|destruct H].
    destruct (is_composite S t); [destruct H|]. destruct H as [H|[]]. exists f. auto.
Qed.

(* 11 NoUnusedFragments: the fragment definition *)
Theorem no_unused_fragments_located : forall x, In x (rule_no_unused_fragments W) ->
  exists f, In f (w_frags W) /\ x = wf_id f.
Proof.
  intros x H. unfold rule_no_unused_fragments in H. apply in_flat_map in H. destruct H as [f [Hf H]].
  destruct (nmem (wf_name f) (used_fragments W)); [destruct H|]. destruct H as [H|[]]. exists f. auto.
Qed.

(* 10 NoUndefinedVariables: the variable usage *)
Theorem no_undefined_variables_located : forall x, In x (rule_no_undefined_variables S W) ->
  exists o u, In o (w_ops W) /\ In u (rec_uses S W o) /\ x = fst u.
Proof.
  intros x H. unfold rule_no_undefined_variables in H. apply in_flat_map in H. destruct H as [o [Ho H]].
  apply in_flat_map in H. destruct H as [u [Hu H]].
  destruct (nmem (fst (snd u)) (map wv_name (wo_vars o))); [destruct H|]. destruct H as [H|[]]. exists o, u. auto.
Qed.

(* 12 NoUnusedVariables: the variable definition *)
Theorem no_unused_variables_located : forall x, In x (rule_no_unused_variables S W) ->
  exists o v, In o (w_ops W) /\ In v (wo_vars o) /\ x = wv_vid v.
Proof.
  intros x H. unfold rule_no_unused_variables in H. apply in_flat_map in H. destruct H as [o [Ho H]].
  apply in_flat_map in H. destruct H as [v [Hv H]].
  match type of H with In _ (if ?c then _ else _) => destruct c end; [destruct H|]. destruct H as [H|[]]. exists o, v. auto.
Qed.

(* 22 VariablesAreInputTypes: the type of the variable definition *)
Theorem variables_are_input_types_located : forall x, In x (rule_variables_are_input_types S W) ->
  exists o v, In o (w_ops W) /\ In v (wo_vars o) /\ x = wt_id (wv_type v).
Proof.
  intros x H. unfold rule_variables_are_input_types in H. apply in_flat_map in H. destruct H as [o [Ho H]].
  apply in_flat_map in H. destruct H as [v [Hv H]].
  match type of H with In _ (if ?c then _ else _) => destruct c end; [|destruct H]. destruct H as [H|[]]. exists o, v. auto.
Qed.

(* 1 DefaultValuesOfCorrectType: the default value *)
Theorem default_values_of_correct_type_located : forall x, In x (rule_default_values_of_correct_type S W) ->
  exists o v d, In o (w_ops W) /\ In v (wo_vars o) /\ wv_default v = Some d /\ x = wv_id d.
Proof.
  intros x H. unfold rule_default_values_of_correct_type in H. apply in_flat_map in H. destruct H as [o [Ho H]].
  apply in_flat_map in H. destruct H as [v [Hv H]].
  destruct (wv_default v) as [d|] eqn:Ed; [|destruct H].
  destruct (type_from_ast S (erase_type (wv_type v))) as [t|]; [|destruct H].
  exists o, v, d. split; [exact Ho|]. split; [exact Hv|]. split; [exact Ed|].
  apply in_app_or in H. destruct H as [H|H].
  - destruct (is_nonnull t); [|destruct H]. destruct H as [H|[]]. auto.
  - destruct (vlit S d t); [destruct H|]. destruct H as [H|[]]. auto.
Qed.

(* 23 VariablesInAllowedPosition: the definition of the variable used *)
Theorem variables_in_allowed_position_located : forall x, In x (rule_variables_in_allowed_position S W) ->
  exists o vd, In o (w_ops W) /\ In vd (wo_vars o) /\ x = wv_vid vd.
Proof.
  intros x H. unfold rule_variables_in_allowed_position in H. apply in_flat_map in H. destruct H as [o [Ho H]].
  apply in_flat_map in H. destruct H as [u [Hu H]].
  destruct (find_vardef (fst (snd u)) (wo_vars o)) as [vd|] eqn:Ev; [|destruct H].
  destruct (snd (snd u)) as [ut|]; [|destruct H].
  destruct (type_from_ast S (erase_type (wv_type vd))) as [vt|]; [|destruct H].
  destruct (subtype S (effective_type vt vd) ut); [destruct H|]. destruct H as [H|[]].
  exists o, vd. split; [exact Ho|]. split; [apply (find_vardef_in _ _ _ Ev) | auto].
Qed.

(* 7 KnownTypeNames: a named-type node: of a variable's type, a type condition *)
Theorem known_type_names_located : forall x, In x (rule_known_type_names S W) ->
  (exists o v, In o (w_ops W) /\ In v (wo_vars o) /\ x = fst (type_named (wv_type v))) \/
  (exists pt ty id tc, In (IInline pt ty id (Some tc)) (doc_items S W) /\ x = fst tc) \/
  (exists f, In f (w_frags W) /\ x = wf_tcid f).
Proof.
  intros x H. unfold rule_known_type_names in H.
  assert (U : forall p, In x (unknown_named S p) -> x = fst p).
  { intros p K. unfold unknown_named in K. destruct (known S (snd p)); [destruct K | destruct K as [K|[]]; auto]. }
  assert (I : forall its, In x (flat_map (fun i => match i with IInline _ _ _ (Some tc) => unknown_named S tc | _ => [] end) its) ->
              exists pt ty id tc, In (IInline pt ty id (Some tc)) its /\ x = fst tc).
  { intros its K. apply in_flat_map in K. destruct K as [i [Hi K]].
    destruct i as [| |pt ty id [tc|]| | |]; try contradiction. exists pt, ty, id, tc. split; [exact Hi | apply U; exact K]. }
  apply in_app_or in H. destruct H as [H|H].
  - left. apply in_flat_map in H. destruct H as [o [Ho H]]. apply in_flat_map in H. destruct H as [v [Hv H]].
    exists o, v. split; [exact Ho|]. split; [exact Hv | apply U; exact H].
  - apply in_app_or in H. destruct H as [H|H].
    + right. left. destruct (I _ H) as [pt [ty [id [tc [Hi E]]]]]. exists pt, ty, id, tc. split; [|exact E].
      unfold doc_items. apply in_or_app. left. exact Hi.
    + apply in_flat_map in H. destruct H as [f [Hf H]]. apply in_app_or in H. destruct H as [H|H].
      * right. right. exists f. split; [exact Hf | apply (U (wf_tcid f, wf_cond f)); exact H].
      * right. left. destruct (I _ H) as [pt [ty [id [tc [Hi E]]]]]. exists pt, ty, id, tc. split; [|exact E].
        unfold doc_items. apply in_or_app. right. apply in_flat_map. exists f. split; assumption.
Qed.
End Located.
