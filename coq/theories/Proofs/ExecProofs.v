From Coq Require Import List String Bool.
From GQL Require Import Exec.Syntax Exec.Coerce Exec.Exec Exec.Request.
Import ListNotations.

Lemma catch_at_nullable : forall t r, is_nonnull t = false ->
  forall e s, catch_at t r <> XRaise e s.
Proof.
  intros t r Hn e s. unfold catch_at. destruct r as [a s'|e' s'|]; try discriminate.
  rewrite Hn. discriminate.
Qed.
