From Coq Require Import List String Bool.
From GQL Require Import Exec.Syntax Exec.Coerce Exec.Exec Exec.Request.
Import ListNotations.

Lemma catch_at_nullable : forall t r, is_nonnull t = false ->
  forall e s, catch_at t r <> XRaise e s.
Proof.
  intros t r Hn e s. unfold catch_at. destruct r as [a s'|e' s'|]; try discriminate.
  rewrite Hn. discriminate.
Qed.

From Coq Require Import ZArith.
From GQL Require Import Exec.CoerceSpec Proofs.CoerceProofs.

Lemma gvv_reject : forall S ds inputs d, In d ds -> NC S (v_type d) (jlookup (v_name d) inputs) ->
  forall fuel r, get_variable_values fuel S ds inputs = Some r -> exists n, r = inr n.
Proof.
  intros S ds inputs d. induction ds as [|d0 ds IH]; intros Hin Hnc fuel r Hr; [contradiction|].
  cbn [get_variable_values] in Hr.
  destruct (get_variable_value fuel S d0 (jlookup (v_name d0) inputs)) as [[x|u]|] eqn:E; [| |discriminate].
  - destruct Hin as [->|Hin].
    + pose proof (bad_variable_rejects _ _ _ Hnc _ _ E) as Hb. discriminate.
    + destruct (get_variable_values fuel S ds inputs) as [[m|e]|] eqn:E2; [| |discriminate].
      * destruct (IH Hin Hnc _ _ E2) as [n Hn]. discriminate.
      * inversion Hr. eexists; reflexivity.
  - inversion Hr. eexists; reflexivity.
Qed.

(* a request with a non-conformant variable value is answered without data and no resolver runs *)
Lemma request_rejects_bad_variable : forall S D opn op inputs d,
  get_operation D opn = Some op -> In d (o_vars op) ->
  NC S (v_type d) (jlookup (v_name d) inputs) ->
  forall fuel root or tor,
    request fuel S D opn inputs root or tor = RReject \/ request fuel S D opn inputs root or tor = RFuel.
Proof.
  intros S D opn op inputs d Hop Hin Hnc fuel root or tor. unfold request. rewrite Hop.
  destruct (root_type S op); [|left; reflexivity].
  destruct (get_variable_values fuel S (o_vars op) inputs) as [r|] eqn:E; [|right; reflexivity].
  destruct (gvv_reject _ _ _ _ Hin Hnc _ _ E) as [nm ->]. left. reflexivity.
Qed.
