(* C20, "its arguments are the coerced arguments of that field, and its info names ... the
   field's occurrences in the document": for EVERY resolver invocation of a request -- also
   inside subtrees nulled later -- the occurrences it is told about are field nodes of the
   document (in an operation, a fragment, or below such a node), all with ... the invocation's
   field name being the first one's, and the argument map is what input coercion
   (get_argument_values, specified by C05) yields from the first occurrence's argument literals
   against the argument definitions of the schema field (parent type, field name) under the
   request's coerced variables. *)
From Coq Require Import List ZArith NArith String Bool.
From GQL Require Import Exec.Syntax Exec.Coerce Exec.Exec Exec.Request Exec.Conform
     Proofs.CollectProofs Proofs.ExecCoverage.
Import ListNotations.
Open Scope string_scope.
Open Scope list_scope.

(* selection sets of the document: of an operation, of a fragment, or below a field / inline fragment *)
Inductive Reach (D : document) : list selection -> Prop :=
| R_op op : In op (d_ops D) -> Reach D (o_sel op)
| R_frag f : In f (d_frags D) -> Reach D (fr_sel f)
| R_field sels id al nm args ds sub : Reach D sels -> In (SField id al nm args ds sub) sels -> Reach D sub
| R_inline sels id tc ds sub : Reach D sels -> In (SInline id tc ds sub) sels -> Reach D sub.

(* o is (the relevant projection of) a field node of the document *)
Definition field_node (D : document) (o : occ) : Prop :=
  exists sels al ds, Reach D sels /\ In (SField (oc_id o) al (oc_name o) (oc_args o) ds (oc_sub o)) sels.

Lemma field_node_sub : forall D o, field_node D o -> Reach D (oc_sub o).
Proof. intros D o [sels [al [ds [H1 H2]]]]. eapply R_field; eassumption. Qed.

Lemma find_fragment_in : forall nm fs f, find_fragment nm fs = Some f -> In f fs.
Proof.
  intros nm fs. induction fs as [|x fs IH]; intros f H; cbn in H; [discriminate|].
  destruct (String.eqb nm (fr_name x)); [inversion H; subst; left; reflexivity|right; apply IH; exact H].
Qed.

Lemma Occurs_node : forall S D vars obj sels k o,
  Occurs S D vars obj sels k o -> Reach D sels -> field_node D o.
Proof.
  intros S D vars obj sels k o H. induction H as [sels id al nm args ds sub Hin _|sels id tc ds sub k o Hin _ _ _ IH|sels id nm ds f k o Hin _ Hf _ _ IH]; intros HR.
  - exists sels, al, ds. split; [exact HR|exact Hin].
  - apply IH. eapply R_inline; eassumption.
  - apply IH. apply R_frag. eapply find_fragment_in. exact Hf.
Qed.

Definition occs_ok (D : document) (occs : list occ) : Prop := Forall (field_node D) occs.
Definition groups_ok (D : document) (g : groups) : Prop := forall k o, in_group g k o -> field_node D o.

Lemma collect_nodes : forall fuel S D vars obj sels visited g g' v',
  collect fuel S D vars obj sels visited g = Some (g', v') -> Reach D sels -> groups_ok D g -> groups_ok D g'.
Proof.
  intros fuel S D vars obj sels visited g g' v' H HR Hg k o Hin.
  destruct (collect_sound _ _ _ _ _ _ _ _ _ _ H k o Hin) as [H1|H1]; [apply (Hg k o H1)|].
  eapply Occurs_node; eassumption.
Qed.

Lemma collect_all_nodes : forall fuel S D vars obj sets visited g g',
  collect_all fuel S D vars obj sets visited g = Some g' ->
  (forall s, In s sets -> Reach D s) -> groups_ok D g -> groups_ok D g'.
Proof.
  intros fuel S D vars obj sets. induction sets as [|x sets IH]; intros visited g g' H HR Hg; cbn [collect_all] in H.
  - inversion H; subst. exact Hg.
  - destruct (collect fuel S D vars obj x visited g) as [[g1 v1]|] eqn:E1; [|discriminate].
    eapply IH; [exact H|intros s Hs; apply HR; right; exact Hs|].
    eapply collect_nodes; [exact E1|apply HR; left; reflexivity|exact Hg].
Qed.

Lemma groups_ok_nil : forall D, groups_ok D [].
Proof. intros D k o [os [[] _]]. Qed.

Lemma groups_ok_head : forall D k occs g, groups_ok D ((k, occs) :: g) -> occs_ok D occs /\ groups_ok D g.
Proof.
  intros D k occs g H. split.
  - apply Forall_forall. intros o Ho. apply (H k o). exists occs. split; [left; reflexivity|exact Ho].
  - intros k' o [os [H1 H2]]. apply (H k' o). exists os. split; [right; exact H1|exact H2].
Qed.

Section Args.
Variable E : env.

Definition args_ok (c : call) : Prop :=
  exists occs fd fuel,
    occs_ok (en_D E) occs /\ c_nodes c = map oc_id occs /\ c_field c = first_name occs /\
    find_field (c_field c) (object_fields (en_S E) (c_parent c)) = Some fd /\
    get_argument_values fuel (en_S E) (f_args fd) (first_args occs) (Some (en_vars E)) = Some (c_args c).

(* deferred values carry occurrences of the document *)
Inductive TA : presp -> Prop :=
| TA_null : TA QNull
| TA_leaf v : TA (QLeaf v)
| TA_list l : Forall TA l -> TA (QList l)
| TA_obj l : Forall (fun kv => TA (snd kv)) l -> TA (QObj l)
| TA_thunk t nodes occs p o : occs_ok (en_D E) occs -> TA (QThunk t nodes occs p o).

Definition newa (s s' : st) : Prop := exists cs, st_calls s' = st_calls s ++ cs /\ Forall args_ok cs.

Lemma newa_refl : forall s, newa s s.
Proof. intros s. exists []. split; [rewrite app_nil_r; reflexivity|constructor]. Qed.
Lemma newa_trans : forall s1 s2 s3, newa s1 s2 -> newa s2 s3 -> newa s1 s3.
Proof.
  intros s1 s2 s3 [c1 [E1 F1]] [c2 [E2 F2]]. exists (c1 ++ c2). split.
  - rewrite E2, E1, app_assoc. reflexivity.
  - apply Forall_app. split; assumption.
Qed.
Lemma newa_eq : forall s s', st_calls s' = st_calls s -> newa s s'.
Proof. intros s s' H. exists []. split; [rewrite app_nil_r; exact H|constructor]. Qed.

Definition ares {A : Type} (T : A -> Prop) (s : st) (r : xres A) : Prop :=
  match r with
  | XOk y s' => newa s s' /\ T y
  | XRaise _ s' => newa s s'
  | XFuel => True
  end.

Lemma ares_pre : forall A (T : A -> Prop) s0 s r, newa s0 s -> ares T s r -> ares T s0 r.
Proof.
  intros A T s0 s [y s'|e s'|] H Hr; cbn in *; auto.
  - destruct Hr as [H1 H2]. split; [eapply newa_trans; eassumption|exact H2].
  - eapply newa_trans; eassumption.
Qed.

Lemma ares_catch : forall s t r, ares TA s r -> ares TA s (catch_at t r).
Proof.
  intros s t [y s'|e s'|] H; cbn in *; auto.
  destruct (is_nonnull t); cbn; [exact H|]. split; [|constructor].
  eapply newa_trans; [exact H|apply newa_eq; reflexivity].
Qed.

Lemma items_loop_args : forall cmp,
  (forall i x s, ares TA s (cmp i x s)) -> forall l i s, ares (Forall TA) s (items_loop cmp l i s).
Proof.
  intros cmp Hc. induction l as [|x l IH]; intros i s; cbn [items_loop].
  - cbn. split; [apply newa_refl|constructor].
  - specialize (Hc i x s). destruct (cmp i x s) as [y s'|e s'|]; cbn in Hc |- *; auto.
    destruct Hc as [H1 H2]. specialize (IH (i + 1)%N s').
    destruct (items_loop cmp l (i + 1)%N s') as [ys s''|e s''|]; cbn in IH |- *; auto.
    + destruct IH as [I1 I2]. split; [eapply newa_trans; eassumption|constructor; assumption].
    + eapply newa_trans; eassumption.
Qed.

Lemma dethunk_list_args : forall f,
  (forall x s, TA x -> ares TA s (f x s)) ->
  forall l s, Forall TA l -> ares (Forall TA) s (dethunk_list f l s).
Proof.
  intros f Hf. induction l as [|x l IH]; intros s Hl; cbn [dethunk_list].
  - cbn. split; [apply newa_refl|constructor].
  - inversion Hl as [|? ? Hx Hr]; subst. specialize (Hf x s Hx).
    destruct (f x s) as [y s'|e s'|]; cbn in Hf |- *; auto.
    destruct Hf as [H1 H2]. specialize (IH s' Hr).
    destruct (dethunk_list f l s') as [ys s''|e s''|]; cbn in IH |- *; auto.
    + destruct IH as [I1 I2]. split; [eapply newa_trans; eassumption|constructor; assumption].
    + eapply newa_trans; eassumption.
Qed.

Definition TAF (l : list (name * presp)) : Prop := Forall (fun kv => TA (snd kv)) l.

Lemma dethunk_fields_args : forall f,
  (forall x s, TA x -> ares TA s (f x s)) ->
  forall l s, TAF l -> ares TAF s (dethunk_fields f l s).
Proof.
  intros f Hf. induction l as [|[k x] l IH]; intros s Hl; cbn [dethunk_fields].
  - cbn. split; [apply newa_refl|constructor].
  - inversion Hl as [|? ? Hx Hr]; subst. cbn [snd] in Hx. specialize (Hf x s Hx).
    destruct (f x s) as [y s'|e s'|]; cbn in Hf |- *; auto.
    destruct Hf as [H1 H2]. specialize (IH s' Hr).
    destruct (dethunk_fields f l s') as [ys s''|e s''|]; cbn in IH |- *; auto.
    + destruct IH as [I1 I2]. split; [eapply newa_trans; eassumption|constructor; assumption].
    + eapply newa_trans; eassumption.
Qed.

Definition TAO (y : option presp) : Prop := match y with Some q => TA q | None => True end.

Lemma exec_field_args : forall fuel' cmp dth obj src k occs p s,
  (forall t nodes occs0 fpath p0 v s0, occs_ok (en_D E) occs0 -> ares TA s0 (cmp t nodes occs0 fpath p0 v s0)) ->
  (forall q s0, TA q -> ares TA s0 (dth q s0)) ->
  occs_ok (en_D E) occs ->
  ares TAO s (exec_field fuel' cmp dth E obj src k occs p s).
Proof.
  intros fuel' cmp dth obj src k occs p s IHc IHd Hoccs. unfold exec_field. cbv zeta.
  fold (first_name occs). fold (first_args occs).
  destruct (String.eqb (first_name occs) "__typename"); [cbn; split; [apply newa_refl|constructor]|].
  destruct (find_field (first_name occs) (object_fields (en_S E) obj)) as [fd|] eqn:Efd; [|cbn; split; [apply newa_refl|exact I]].
  destruct (get_argument_values fuel' (en_S E) (f_args fd) (first_args occs) (Some (en_vars E))) as [args|] eqn:Eargs; [|exact I].
  set (fp := p ++ [PKey k]).
  match goal with |- context [add_call ?c0 s] => set (c := c0) end.
  set (s1 := add_call c s).
  assert (Hs1 : newa s s1).
  { exists [c]. split; [reflexivity|]. constructor; [|constructor].
    exists occs, fd, fuel'. repeat split; try assumption; reflexivity. }
  destruct (match en_or E fp with Some o => force o | None => (OVal RNull, false) end) as [o thunked].
  set (s2 := match en_or E fp with Some _ => s1 | None => add_missing fp s1 end).
  assert (Hs2 : newa s s2).
  { eapply newa_trans; [exact Hs1|]. apply newa_eq. unfold s2. destruct (en_or E fp); reflexivity. }
  match goal with |- ares _ _ (match catch_at ?t ?r1 with _ => _ end) => assert (Hr1 : ares TA s r1) end.
  { destruct (thunked && negb (is_nonnull (f_type fd))).
    - cbn. split; [exact Hs2|]. constructor. exact Hoccs.
    - match goal with |- ares _ _ (match ?c0 with _ => _ end) => assert (Hc0 : ares TA s c0) end.
      { destruct o; try exact Hs2. eapply ares_pre; [exact Hs2|]. apply IHc. exact Hoccs. }
      match goal with |- ares _ _ (match ?c0 with _ => _ end) => destruct c0 as [q0 s0|e0 s0|] end; cbn in Hc0 |- *; auto.
      destruct thunked; cbn; [|exact Hc0].
      eapply newa_trans; [exact Hc0|apply newa_eq; reflexivity]. }
  pose proof (ares_catch _ (f_type fd) _ Hr1) as Hcatch.
  match goal with |- ares _ _ (match ?cc with _ => _ end) => destruct cc as [y s'|e s'|] end; cbn in Hcatch |- *; auto.
  destruct Hcatch as [H1 H2].
  destruct (en_serial E && match p with [] => true | _ :: _ => false end).
  - specialize (IHd y s' H2).
    destruct (dth y s') as [y' s''|e s''|]; cbn in IHd |- *; auto.
    + destruct IHd as [D1 D2]. split; [eapply newa_trans; eassumption|exact D2].
    + eapply newa_trans; eassumption.
  - cbn. split; assumption.
Qed.

Definition PAr (fuel : nat) : Prop :=
  (forall t nodes occs fpath p v s, occs_ok (en_D E) occs -> ares TA s (complete fuel E t nodes occs fpath p v s)) /\
  (forall obj occs p src s, occs_ok (en_D E) occs -> ares TA s (exec_object fuel E obj occs p src s)) /\
  (forall obj src g p s, groups_ok (en_D E) g -> ares TAF s (exec_groups fuel E obj src g p s)) /\
  (forall q s, TA q -> ares TA s (dethunk fuel E q s)).

Lemma args_inv : forall fuel, PAr fuel.
Proof.
  induction fuel as [|fuel [IHc [IHo [IHg IHd]]]].
  - repeat split; intros; exact I.
  - repeat split.
    + intros t nodes occs fpath p v s Hoc. cbn [complete].
      destruct t as [n|t'|t'].
      * destruct (rv_nullish v); [cbn; split; [apply newa_refl|constructor]|].
        destruct (lookup_type (en_S E) n) as [[k|vals|fs ifs|fs|ms|fs]|]; try (cbn; apply newa_refl).
        -- cbn. split; [apply newa_refl|]. destruct (nullish (serialize_scalar k v)); constructor.
        -- cbn. split; [apply newa_refl|]. destruct (nullish (serialize_enum vals v)); constructor.
        -- apply IHo. exact Hoc.
        -- destruct (en_tor E v) as [rt|]; [|cbn; apply newa_eq; reflexivity].
           destruct (possible_type (en_S E) n rt); [|cbn; apply newa_eq; reflexivity].
           eapply ares_pre; [|apply IHo; exact Hoc]. apply newa_eq. reflexivity.
        -- destruct (en_tor E v) as [rt|]; [|cbn; apply newa_eq; reflexivity].
           destruct (possible_type (en_S E) n rt); [|cbn; apply newa_eq; reflexivity].
           eapply ares_pre; [|apply IHo; exact Hoc]. apply newa_eq. reflexivity.
      * destruct (rv_nullish v); [cbn; split; [apply newa_refl|constructor]|].
        destruct v; try (cbn; apply newa_refl).
        pose proof (items_loop_args
                      (fun i x s0 => catch_at t' (complete fuel E t' nodes occs fpath (p ++ [PIdx i]) x s0))
                      (fun i x s1 => ares_catch s1 t' _ (IHc t' nodes occs fpath (p ++ [PIdx i]) x s1 Hoc)) l 0%N s) as HL.
        destruct (items_loop _ l 0%N s) as [ys s'|e s'|]; cbn in HL |- *; auto.
        destruct HL as [H1 H2]. split; [exact H1|constructor; exact H2].
      * specialize (IHc t' nodes occs fpath p v s Hoc).
        destruct (complete fuel E t' nodes occs fpath p v s) as [q s'|e s'|]; cbn in IHc |- *; auto.
        destruct q; cbn; try exact IHc. exact (proj1 IHc).
    + intros obj occs p src s Hoc. cbn [exec_object].
      destruct (collect_all fuel (en_S E) (en_D E) (en_vars E) obj (map oc_sub occs) [] []) as [g|] eqn:Ec; [|exact I].
      assert (Hg : groups_ok (en_D E) g).
      { eapply collect_all_nodes; [exact Ec| |apply groups_ok_nil].
        intros s0 Hs0. apply in_map_iff in Hs0. destruct Hs0 as [o [<- Ho]].
        apply field_node_sub. unfold occs_ok in Hoc. rewrite Forall_forall in Hoc. apply Hoc. exact Ho. }
      specialize (IHg obj src g p s Hg).
      destruct (exec_groups fuel E obj src g p s) as [fs s'|e s'|]; cbn in IHg |- *; auto.
      destruct IHg as [H1 H2]. split; [exact H1|constructor; exact H2].
    + intros obj src g p s Hg. cbn [exec_groups].
      destruct g as [|[k occs] rest]; [cbn; split; [apply newa_refl|constructor]|].
      destruct (groups_ok_head _ _ _ _ Hg) as [Hoc Hrest].
      pose proof (exec_field_args fuel (complete fuel E) (dethunk fuel E) obj src k occs p s
                    (fun t nodes occs0 fpath p0 v s0 H0 => IHc t nodes occs0 fpath p0 v s0 H0)
                    (fun q s0 H0 => IHd q s0 H0) Hoc) as Hf.
      destruct (exec_field fuel (complete fuel E) (dethunk fuel E) E obj src k occs p s) as [y s'|e s'|]; cbn in Hf |- *; auto.
      destruct Hf as [F1 F2].
      specialize (IHg obj src rest p s' Hrest).
      destruct (exec_groups fuel E obj src rest p s') as [ys s''|e s''|]; cbn in IHg |- *; auto.
      * destruct IHg as [G1 G2]. split; [eapply newa_trans; eassumption|].
        destruct y as [y|]; [constructor; assumption|exact G2].
      * eapply newa_trans; eassumption.
    + intros q s Hq. cbn [dethunk].
      destruct q as [|v|l|l|t nodes occs tp o].
      * cbn. split; [apply newa_refl|constructor].
      * cbn. split; [apply newa_refl|constructor].
      * inversion Hq as [| |? HL0| |]; subst.
        pose proof (dethunk_list_args (dethunk fuel E) (fun x s0 H0 => IHd x s0 H0) l s HL0) as HL.
        destruct (dethunk_list (dethunk fuel E) l s) as [ys s'|e s'|]; cbn in HL |- *; auto.
        destruct HL as [H1 H2]. split; [exact H1|constructor; exact H2].
      * inversion Hq as [| | |? HL0|]; subst.
        pose proof (dethunk_fields_args (dethunk fuel E) (fun x s0 H0 => IHd x s0 H0) l s HL0) as HL.
        destruct (dethunk_fields (dethunk fuel E) l s) as [ys s'|e s'|]; cbn in HL |- *; auto.
        destruct HL as [H1 H2]. split; [exact H1|constructor; exact H2].
      * inversion Hq as [| | | |? ? ? ? ? Hoc]; subst.
        match goal with |- ares _ _ (match catch_at _ ?r with _ => _ end) => assert (Hr : ares TA s r) end.
        { destruct o; try (cbn; apply newa_refl). apply IHc. exact Hoc. }
        pose proof (ares_catch _ t _ Hr) as Hcatch.
        match goal with |- ares _ _ (match ?c with _ => _ end) => destruct c as [y s'|e s'|] end; cbn in Hcatch |- *; auto.
        destruct Hcatch as [H1 H2]. eapply ares_pre; [exact H1|]. apply IHd. exact H2.
Qed.
End Args.

Lemma find_op_in : forall n ops acc op, find_op n ops acc = Some op -> In op ops \/ acc = Some op.
Proof.
  intros n ops. induction ops as [|o ops IH]; intros acc op H; cbn in H; [right; exact H|].
  destruct (IH _ _ H) as [Hin|Hacc]; [left; right; exact Hin|].
  destruct (o_name o) as [m|]; [|right; exact Hacc].
  destruct (String.eqb m n); [inversion Hacc; subst; left; left; reflexivity|right; exact Hacc].
Qed.

Lemma get_operation_in : forall D opn op, get_operation D opn = Some op -> In op (d_ops D).
Proof.
  intros D [n|] op H; cbn in H.
  - destruct (find_op_in _ _ _ _ H) as [Hin|Habs]; [exact Hin|discriminate].
  - destruct (d_ops D) as [|o [|o2 r]]; try discriminate. inversion H; subst. left. reflexivity.
Qed.

Theorem request_args : forall fuel S D opn inputs root or tor data s,
  request fuel S D opn inputs root or tor = RDone data s ->
  exists op vars,
    get_operation D opn = Some op /\
    get_variable_values fuel S (o_vars op) inputs = Some (inl vars) /\
    let E := {| en_S := S; en_D := D; en_vars := vars; en_or := or; en_tor := tor;
                en_serial := match o_kind op with OpMutation => true | _ => false end |} in
    Forall (args_ok E) (st_calls s).
Proof.
  intros fuel S D opn inputs root or tor data s H. unfold request in H.
  destruct (get_operation D opn) as [op|] eqn:Eop; [|discriminate].
  destruct (root_type S op) as [rt|] eqn:Ert; [|discriminate].
  destruct (get_variable_values fuel S (o_vars op) inputs) as [[vars|e]|] eqn:Ev; try discriminate.
  destruct (collect fuel S D vars rt (o_sel op) [] []) as [[g v]|] eqn:Ec; [|discriminate].
  exists op, vars. split; [reflexivity|]. split; [first [reflexivity|exact Ev]|]. cbv zeta.
  set (E := {| en_S := S; en_D := D; en_vars := vars; en_or := or; en_tor := tor;
               en_serial := match o_kind op with OpMutation => true | _ => false end |}) in *.
  destruct (args_inv E fuel) as [_ [_ [IHg IHd]]].
  assert (Hg : groups_ok (en_D E) g).
  { eapply collect_nodes; [exact Ec| |apply groups_ok_nil]. apply R_op. eapply get_operation_in. exact Eop. }
  specialize (IHg rt root g [] st0 Hg).
  assert (Hfin : forall s', newa E st0 s' -> Forall (args_ok E) (st_calls s')).
  { intros s' [cs [E1 F1]]. rewrite E1. exact F1. }
  destruct (exec_groups fuel E rt root g [] st0) as [fs s1|e s1|] eqn:Eg; try discriminate.
  - cbn in IHg. destruct IHg as [G1 G2].
    specialize (IHd (QObj fs) s1 (TA_obj E fs G2)).
    destruct (dethunk fuel E (QObj fs) s1) as [q s2|e s2|] eqn:Ed; try discriminate; cbn in IHd.
    + inversion H; subst. apply Hfin. eapply newa_trans; [exact G1|exact (proj1 IHd)].
    + inversion H; subst. apply (Hfin s2). eapply newa_trans; [exact G1|exact IHd].
  - cbn in IHg. inversion H; subst. apply (Hfin s1). exact IHg.
Qed.
