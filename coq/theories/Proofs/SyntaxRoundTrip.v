(* C08: print -> lex -> derive -> parse for executable documents.
   For every nonterminal X: from a derivation D_X p x whose tokens carry well-formed lexemes,
   (a) the layout lay_X x is well-formed (so C08_lex_layout applies to the printed text), and
   (b) any token list with the signatures of the layout's token pieces derives an x' that equals
       x up to locations and has the same layout. *)
From Coq Require Import String List NArith Bool Lia.
From GQL Require Import Base.Bytes Syntax.Lexer Syntax.Ast Syntax.Parser Syntax.Grammar Syntax.Printer
  Proofs.SyntaxSound Proofs.SyntaxComplete Proofs.SyntaxPrinter Proofs.SyntaxUtf8 Proofs.SyntaxRender Proofs.SyntaxLayoutWf.
Import ListNotations.
Open Scope N_scope.

Definition sig (t : token) : tkind * bytes := (tk t, tval t).
Fixpoint ltoks (A : layout) : list (tkind * bytes) :=
  match A with
  | [] => []
  | PSep _ :: r => ltoks r
  | PTok k v :: r => (k, tokval k v) :: ltoks r
  | PBlk _ s :: r => (BLOCK_STRING, s) :: ltoks r
  end.

(* a string value the printer's quoting is proved to preserve: valid UTF-8 *)
Definition str_ok (v : bytes) : bool := str_okb v.
Definition tok_wf (t : token) : bool :=
  match tk t with
  | NAME => name_ok (tval t)
  | INT => num_okb (tval t) false
  | FLOAT => num_okb (tval t) true
  | STRING | BLOCK_STRING => str_ok (tval t)
  | _ => true
  end.
Definition toks_wf (p : list token) : Prop := forallb tok_wf p = true.

(* equality up to locations: the kind/field/value trees agree once every Loc is zeroed *)
Fixpoint gnl (g : gt) : gt := match g with G t a _ _ kids => G t a 0 0 (map gnl kids) end.

Lemma ltoks_app : forall A B, ltoks (A ++ B) = ltoks A ++ ltoks B.
Proof. induction A as [|[k v|s|d s] A IH]; intro B; cbn [app ltoks]; [reflexivity|rewrite IH; reflexivity|apply IH|rewrite IH; reflexivity]. Qed.

Lemma sig_ptoks : forall A pos, map sig (ptoks pos A) = ltoks A.
Proof. induction A as [|[k v|s|d s] A IH]; intro pos; cbn [ptoks ltoks map]; [reflexivity|rewrite IH; reflexivity|apply IH|rewrite IH; reflexivity]. Qed.

Lemma ltoks_ljoin_ne : forall l sep, ltoks (ljoin_ne l sep) = flat_map ltoks l.
Proof.
  induction l as [|a l IH]; intro sep; [reflexivity|]. destruct l as [|b l'].
  - cbn [ljoin_ne flat_map]. rewrite app_nil_r. reflexivity.
  - change (ljoin_ne (a :: b :: l') sep) with (a ++ PSep sep :: ljoin_ne (b :: l') sep).
    rewrite ltoks_app. cbn [ltoks]. rewrite IH. reflexivity.
Qed.
Lemma ltoks_ljoin : forall l sep, ltoks (ljoin l sep) = flat_map ltoks l.
Proof.
  intros l sep. unfold ljoin. rewrite ltoks_ljoin_ne. induction l as [|a l IH]; [reflexivity|].
  cbn [filter flat_map]. destruct a as [|x a']; cbn [is_nil negb]; [exact IH|]. cbn [flat_map]. rewrite IH. reflexivity.
Qed.
Lemma ltoks_lwrap : forall a m b, ltoks (lwrap a m b) = if is_nil m then [] else ltoks a ++ ltoks m ++ ltoks b.
Proof. intros a m b. unfold lwrap. destruct (is_nil m); [reflexivity|]. rewrite !ltoks_app. reflexivity. Qed.
Lemma ltoks_lindent : forall A, ltoks (lindent A) = ltoks A.
Proof. induction A as [|[k v|s|d s] A IH]; cbn [lindent map ltoks]; [reflexivity|unfold lindent in IH; rewrite IH; reflexivity|apply IH|unfold lindent in IH; rewrite IH; reflexivity]. Qed.

Lemma toks_wf_app : forall p q, toks_wf (p ++ q) -> toks_wf p /\ toks_wf q.
Proof. intros p q H. unfold toks_wf in *. rewrite forallb_app in H. apply andb_true_iff in H. exact H. Qed.
Lemma toks_wf_cons : forall t p, toks_wf (t :: p) -> tok_wf t = true /\ toks_wf p.
Proof. intros t p H. unfold toks_wf in *. cbn [forallb] in H. apply andb_true_iff in H. exact H. Qed.

Lemma name_tok_wf : forall t, tk t = NAME -> tok_wf t = true -> name_ok (tval t) = true.
Proof. intros t K H. unfold tok_wf in H. rewrite K in H. exact H. Qed.

(* destructuring  map sig ts = (k1, v1) :: ... *)
Lemma sig_inv : forall t k v, sig t = (k, v) -> tk t = k /\ tval t = v.
Proof. intros t k v H. unfold sig in H. inversion H. split; reflexivity. Qed.
Ltac sigs H :=
  repeat (let t := fresh "t" in let tl := fresh "tl" in let Hs := fresh "Hs" in let K := fresh "K" in let V := fresh "V" in
          apply map_eq_cons in H; destruct H as (t & tl & -> & Hs & H); apply sig_inv in Hs; destruct Hs as [K V]);
  try (apply map_eq_nil in H; subst).

(* ---- generic: stars ---- *)
Section Stars.
  Context {A : Type}.
  Variable I : list token -> A -> Prop.
  Variable lay : A -> layout.
  Variable g : A -> gt.

  Definition Rb (a : A) : Prop :=
    forall ts, map sig ts = ltoks (lay a) -> exists a', I ts a' /\ gnl (g a') = gnl (g a) /\ lay a' = lay a.

  Lemma star_reloc : forall l, Forall Rb l -> forall ts, map sig ts = flat_map ltoks (map lay l) ->
    exists l', DStar I ts l' /\ map gnl (map g l') = map gnl (map g l) /\ map lay l' = map lay l.
  Proof.
    induction l as [|a l IH]; intros H ts Hts.
    - cbn in Hts. apply map_eq_nil in Hts. subst. exists []. split; [constructor|split; reflexivity].
    - inversion H as [|? ? Ha Hl]; subst. cbn [map flat_map] in Hts.
      apply map_eq_app in Hts. destruct Hts as (t1 & t2 & -> & H1 & H2).
      destruct (Ha t1 H1) as (a' & Da & Ea & La). destruct (IH Hl t2 H2) as (l' & Dl & El & Ll).
      exists (a' :: l'). split; [constructor; assumption|]. cbn [map]. rewrite Ea, El, La, Ll. split; reflexivity.
  Qed.

  Lemma star_elems : forall ps l, DStar I ps l -> toks_wf ps ->
    Forall (fun a => exists p, I p a /\ (length p <= length ps)%nat /\ toks_wf p) l.
  Proof.
    intros ps l D. induction D as [|p a ps l Hpa _ IH]; intro W; [constructor|].
    apply toks_wf_app in W. destruct W as [W1 W2]. constructor.
    - exists p. split; [exact Hpa|]. split; [rewrite app_length; lia|exact W1].
    - specialize (IH W2). eapply Forall_impl; [|exact IH]. intros b (q & Hq & Lq & Wq).
      exists q. split; [exact Hq|]. split; [rewrite app_length; lia|exact Wq].
  Qed.
End Stars.

Lemma map_gnl_app : forall A (g : A -> gt) l' l, map gnl (map g l') = map gnl (map g l) ->
  forall t a, gnl (G t a 0 0 (map g l')) = gnl (G t a 0 0 (map g l)).
Proof. intros A g l' l H t a. cbn [gnl]. rewrite H. reflexivity. Qed.

Lemma sep_wf_comma : sep_wf comma_sp = true. Proof. reflexivity. Qed.
Lemma sep_wf_sp : sep_wf [32] = true. Proof. reflexivity. Qed.
Lemma sep_wf_nl : sep_wf [10] = true. Proof. reflexivity. Qed.
Lemma sep_wf_nl2 : sep_wf [10; 10] = true. Proof. reflexivity. Qed.

Ltac fin :=
  cbn [g_value gl gnl map g_name lay_value];
  unfold Nm, tok_name, tok_named; cbn [nval nd_name nloc nd_loc lstart lend app];
  repeat match goal with H : tval _ = _ |- _ => rewrite H end;
  repeat match goal with H : map gnl _ = _ |- _ => rewrite H end;
  repeat match goal with H : gnl _ = _ |- _ => rewrite H end;
  repeat match goal with H : map _ _ = map _ _ |- _ => rewrite H end;
  repeat match goal with H : lay_value _ = _ |- _ => rewrite H end;
  split; reflexivity.

(* ---- values ---- *)
Definition lay_objfield (f : objfield) : layout :=
  match f with OField n v _ => Nm n ++ PTok COLON [] :: PSep [32] :: lay_value v end.
Definition g_objfield (f : objfield) : gt :=
  match f with OField n v l' => gl 14 [] l' [g_name n; g_value v] end.

Lemma lay_value_obj : forall fs l, lay_value (VObj fs l) = T BRACE_L ++ ljoin (map lay_objfield fs) comma_sp ++ T BRACE_R.
Proof. reflexivity. Qed.
Lemma g_value_obj : forall fs l, g_value (VObj fs l) = gl 13 [] l (map g_objfield fs).
Proof. reflexivity. Qed.

Definition RV (c : bool) (v : value) : Prop :=
  P1 (lay_value v) /\ Rb (DValue c) lay_value g_value v.

Lemma value_rt : forall n c p v, (length p <= n)%nat -> DValue c p v -> toks_wf p -> RV c v.
Proof.
  induction n as [|n IH]; intros c p v Hn D W.
  { destruct (DValue_first _ _ _ D) as (t & p' & -> & _). simpl in Hn. lia. }
  destruct D as [d nm Hc Kd Kn|t K|t K|t K|t K V|t K V|t K V1 V2 V3|p l Dl|p l Dl].
  - (* variable *)
    apply toks_wf_cons in W. destruct W as [_ W]. apply toks_wf_cons in W. destruct W as [Wn _].
    split.
    + cbn [lay_value Nm tok_name nval]. apply P1_punct; [reflexivity|]. apply P1_wordy_last. apply name_tok_wf; assumption.
    + intros ts Hts. cbn [lay_value Nm tok_name nval ltoks tokval] in Hts. sigs Hts.
      exists (VVar (tok_name t0) (span [t; t0])). split; [apply DV_var; auto|].
      fin.
  - apply toks_wf_cons in W. destruct W as [Wt _]. unfold tok_wf in Wt. rewrite K in Wt. split.
    + apply P1_wordy_last. exact Wt.
    + intros ts Hts. cbn [lay_value ltoks tokval] in Hts. sigs Hts.
      exists (VInt (tval t0) (tokloc t0)). split; [apply DV_int; assumption|]. fin.
  - apply toks_wf_cons in W. destruct W as [Wt _]. unfold tok_wf in Wt. rewrite K in Wt. split.
    + apply P1_wordy_last. exact Wt.
    + intros ts Hts. cbn [lay_value ltoks tokval] in Hts. sigs Hts.
      exists (VFloat (tval t0) (tokloc t0)). split; [apply DV_float; assumption|]. fin.
  - apply toks_wf_cons in W. destruct W as [Wt _]. unfold tok_wf in Wt.
    assert (Wa : str_ok (tval t) = true) by (destruct K as [K|K]; rewrite K in Wt; exact Wt). split.
    + apply P1_wordy_last. exact Wa.
    + intros ts Hts. cbn [lay_value ltoks tokval] in Hts. sigs Hts.
      exists (VStr (tval t0) (tokloc t0)). split; [apply DV_string; left; assumption|]. fin.
  - split.
    + apply P1_wordy_last. reflexivity.
    + intros ts Hts. cbn [lay_value Kw ltoks tokval] in Hts. sigs Hts.
      exists (VBool true (tokloc t0)). split; [apply DV_true; assumption|]. split; reflexivity.
  - split.
    + apply P1_wordy_last. reflexivity.
    + intros ts Hts. cbn [lay_value Kw ltoks tokval] in Hts. sigs Hts.
      exists (VBool false (tokloc t0)). split; [apply DV_false; assumption|]. split; reflexivity.
  - apply toks_wf_cons in W. destruct W as [Wt _]. split.
    + apply P1_wordy_last. apply name_tok_wf; assumption.
    + intros ts Hts. cbn [lay_value ltoks tokval] in Hts. sigs Hts.
      exists (VEnum (tval t0) (tokloc t0)). split; [apply DV_enum; try assumption; rewrite V; assumption|].
      fin.
  - (* list *)
    destruct Dl as [o ps c0 l Ho Hc Hs Hne].
    apply toks_wf_cons in W. destruct W as [_ W]. apply toks_wf_app in W. destruct W as [W _].
    assert (E : Forall (RV c) l).
    { pose proof (star_elems _ _ _ Hs W) as X. eapply Forall_impl; [|exact X].
      intros a (q & Dq & Lq & Wq). apply (IH c q a); [|exact Dq|exact Wq].
      simpl in Hn. rewrite app_length in Hn. simpl in Hn. lia. }
    split.
    + cbn [lay_value]. unfold T. cbn [app]. apply P1_punct; [reflexivity|]. apply P0_P1. apply P0_app1.
      * apply ljoin_P1; [reflexivity|]. rewrite Forall_map. eapply Forall_impl; [|exact E]. intros a [Ha _]. exact Ha.
      * apply P0_punct; [reflexivity|apply P0_nil].
      * apply SFs_punct; reflexivity.
    + intros ts Hts. cbn [lay_value] in Hts. unfold T in Hts. cbn [app ltoks tokval] in Hts.
      apply map_eq_cons in Hts. destruct Hts as (o' & tl & -> & So & Hts). apply sig_inv in So. destruct So as [Ko _].
      rewrite ltoks_app, ltoks_ljoin in Hts. cbn [ltoks tokval] in Hts.
      apply map_eq_app in Hts. destruct Hts as (mid & cl & -> & Hmid & Hcl). sigs Hcl.
      destruct (star_reloc (DValue c) lay_value g_value l
                  ltac:(eapply Forall_impl; [|exact E]; intros a [_ Ha]; exact Ha) mid Hmid) as (l' & Dl' & El & Ll).
      exists (VList l' (span (o' :: mid ++ [t]))). split.
      * apply DV_list. constructor; try assumption. intros X; discriminate X.
      * cbn [g_value gl gnl lay_value]. rewrite El, Ll. split; reflexivity.
  - (* object *)
    destruct Dl as [o ps c0 l Ho Hc Hs Hne].
    apply toks_wf_cons in W. destruct W as [_ W]. apply toks_wf_app in W. destruct W as [W _].
    assert (E : Forall (fun f => P1 (lay_objfield f) /\ Rb (DObjFieldOf (DValue c)) lay_objfield g_objfield f) l).
    { pose proof (star_elems _ _ _ Hs W) as X. eapply Forall_impl; [|exact X].
      intros a (q & Dq & Lq & Wq). destruct Dq as [nm cl pv v Kn Kc Dv].
      apply toks_wf_cons in Wq. destruct Wq as [Wn Wq]. apply toks_wf_cons in Wq. destruct Wq as [_ Wq].
      destruct (IH c pv v ltac:(simpl in Hn, Lq; rewrite app_length in Hn; simpl in Hn; lia) Dv Wq) as [Pv Rv].
      split.
      - cbn [lay_objfield Nm tok_name nval app]. apply P1_wordy; [apply name_tok_wf; assumption| |apply SFs_SF; apply SFs_punct; reflexivity].
        apply P1_punct; [reflexivity|]. apply P1_sep; [reflexivity|exact Pv].
      - intros ts Hts. cbn [lay_objfield Nm tok_name nval app ltoks tokval] in Hts.
        apply map_eq_cons in Hts. destruct Hts as (n' & tl & -> & Sn & Hts). apply sig_inv in Sn. destruct Sn as [Kn' Vn'].
        apply map_eq_cons in Hts. destruct Hts as (c' & tv & -> & Sc & Hts). apply sig_inv in Sc. destruct Sc as [Kc' _].
        destruct (Rv tv Hts) as (v' & Dv' & Ev & Lv).
        exists (OField (tok_name n') v' (span (n' :: c' :: tv))). split; [constructor; assumption|].
        cbn [g_objfield lay_objfield]. fin. }
    split.
    + rewrite lay_value_obj. unfold T. cbn [app]. apply P1_punct; [reflexivity|]. apply P0_P1. apply P0_app1.
      * apply ljoin_P1; [reflexivity|]. rewrite Forall_map. eapply Forall_impl; [|exact E]. intros a [Ha _]. exact Ha.
      * apply P0_punct; [reflexivity|apply P0_nil].
      * apply SFs_punct; reflexivity.
    + intros ts Hts. rewrite lay_value_obj in Hts. unfold T in Hts. cbn [app ltoks tokval] in Hts.
      apply map_eq_cons in Hts. destruct Hts as (o' & tl & -> & So & Hts). apply sig_inv in So. destruct So as [Ko _].
      rewrite ltoks_app, ltoks_ljoin in Hts. cbn [ltoks tokval] in Hts.
      apply map_eq_app in Hts. destruct Hts as (mid & cl & -> & Hmid & Hcl). sigs Hcl.
      destruct (star_reloc (DObjFieldOf (DValue c)) lay_objfield g_objfield l
                  ltac:(eapply Forall_impl; [|exact E]; intros a [_ Ha]; exact Ha) mid Hmid) as (l' & Dl' & El & Ll).
      exists (VObj l' (span (o' :: mid ++ [t]))). split.
      * apply DV_object. constructor; try assumption. intros X; discriminate X.
      * rewrite !g_value_obj, !lay_value_obj. cbn [gl gnl]. rewrite El, Ll. split; reflexivity.
Qed.

(* ---- types ---- *)
Lemma gnl_ty_nonnull : forall a b, gnl (g_ty a) = gnl (g_ty b) -> is_nonnull a = is_nonnull b.
Proof. intros a b H. destruct a as [[? ?]| |], b as [[? ?]| |]; cbn in H; try discriminate H; reflexivity. Qed.

Lemma type_rt : forall p t, DType p t -> toks_wf p -> P1 (lay_type t) /\ Rb DType lay_type g_ty t.
Proof.
  intros p t D. induction D as [n Kn|o p t c Ko Dt IH Kc|p t b Dt IH NN Kb]; intro W.
  - apply toks_wf_cons in W. destruct W as [Wn _]. split.
    + cbn [lay_type]. unfold Nm, tok_named, tok_name. cbn [nd_name nval]. apply P1_wordy_last. apply name_tok_wf; assumption.
    + intros ts Hts. cbn [lay_type] in Hts. unfold Nm, tok_named, tok_name in Hts. cbn [nd_name nval ltoks tokval] in Hts. sigs Hts.
      exists (TNamed (tok_named t)). split; [apply DT_named; assumption|].
      cbn [g_ty g_named g_name gl gnl map lay_type]. unfold Nm, tok_named, tok_name. cbn [nd_name nval nd_loc nloc]. rewrite V. split; reflexivity.
  - apply toks_wf_cons in W. destruct W as [_ W]. apply toks_wf_app in W. destruct W as [W _]. destruct (IH W) as [Pt Rt]. split.
    + cbn [lay_type]. unfold T. cbn [app]. apply P1_punct; [reflexivity|]. apply P0_P1. apply P0_app1; [exact Pt|apply P0_punct; [reflexivity|apply P0_nil]|apply SFs_punct; reflexivity].
    + intros ts Hts. cbn [lay_type] in Hts. unfold T in Hts. cbn [app ltoks tokval] in Hts.
      apply map_eq_cons in Hts. destruct Hts as (o' & tl & -> & So & Hts). apply sig_inv in So. destruct So as [Ko' _].
      rewrite ltoks_app in Hts. cbn [ltoks tokval] in Hts. apply map_eq_app in Hts. destruct Hts as (mid & cl & -> & Hmid & Hcl). sigs Hcl.
      destruct (Rt mid Hmid) as (t' & Dt' & Et & Lt).
      exists (TList t' (span (o' :: mid ++ [t0]))). split; [apply DT_list; assumption|].
      cbn [g_ty gl gnl map lay_type]. rewrite Et, Lt. split; reflexivity.
  - apply toks_wf_app in W. destruct W as [W _]. destruct (IH W) as [Pt Rt]. split.
    + cbn [lay_type]. apply P0_P1. apply P0_app1; [exact Pt|apply P0_punct; [reflexivity|apply P0_nil]|apply SFs_punct; reflexivity].
    + intros ts Hts. cbn [lay_type] in Hts. rewrite ltoks_app in Hts. unfold T in Hts. cbn [ltoks tokval] in Hts.
      apply map_eq_app in Hts. destruct Hts as (mid & cl & -> & Hmid & Hcl). sigs Hcl.
      destruct (Rt mid Hmid) as (t' & Dt' & Et & Lt).
      exists (TNonNull t' (span (mid ++ [t0]))). split; [apply DT_nonnull; try assumption; rewrite (gnl_ty_nonnull _ _ Et); exact NN|].
      cbn [g_ty gl gnl map lay_type]. rewrite Et, Lt. split; reflexivity.
Qed.

(* ---- optional delimited lists:  wrap(open, join(items, sep), close) ---- *)
Lemma ljoin_ne_nonnil : forall l sep, l <> [] -> (forall a, In a l -> a <> []) -> ljoin_ne l sep <> [].
Proof.
  intros l sep Hl Ha. destruct l as [|a l']; [contradiction|]. destruct l' as [|b l''].
  - cbn. apply Ha. left; reflexivity.
  - change (ljoin_ne (a :: b :: l'') sep) with (a ++ PSep sep :: ljoin_ne (b :: l'') sep). intro X.
    apply app_eq_nil in X. destruct X as [_ X]. discriminate X.
Qed.
Lemma filter_id : forall l : list layout, (forall a, In a l -> a <> []) -> filter (fun x => negb (is_nil x)) l = l.
Proof.
  induction l as [|a l IH]; intro H; [reflexivity|]. cbn [filter].
  assert (a <> []) by (apply H; left; reflexivity). destruct a; [contradiction|]. cbn [is_nil negb].
  rewrite IH; [reflexivity|]. intros b Hb. apply H. right; exact Hb.
Qed.
Lemma ljoin_map_nil : forall A (lay : A -> layout) l sep, (forall a, lay a <> []) ->
  is_nil (ljoin (map lay l) sep) = is_nil l.
Proof.
  intros A lay l sep H. unfold ljoin. rewrite filter_id by (intros a Ha; apply in_map_iff in Ha; destruct Ha as (x & <- & _); apply H).
  destruct l as [|a l']; [reflexivity|].
  assert (X : ljoin_ne (map lay (a :: l')) sep <> []).
  { apply ljoin_ne_nonnil; [discriminate|]. intros b Hb. apply in_map_iff in Hb. destruct Hb as (x & <- & _). apply H. }
  destruct (ljoin_ne (map lay (a :: l')) sep); [contradiction|reflexivity].
Qed.

Section OptDelim.
  Context {A : Type}.
  Variable I : list token -> A -> Prop.
  Variable lay : A -> layout.
  Variable g : A -> gt.
  Variables o c : tkind.
  Variable sep : bytes.
  Hypothesis Ho : is_punct o = true.
  Hypothesis Hc : is_punct c = true.
  Hypothesis Hos : tkind_beq o SPREAD = false.
  Hypothesis Hcs : tkind_beq c SPREAD = false.
  Hypothesis Hsep : sep_wf sep = true.
  Hypothesis lay_nonnil : forall a, lay a <> [].

  Definition lay_opt (l : list A) : layout := lwrap (T o) (ljoin (map lay l) sep) (T c).

  Lemma tokval_punct : forall k, is_punct k = true -> tokval k [] = [].
  Proof. intros k H. destruct k; try discriminate H; reflexivity. Qed.

  Lemma delim_P0 : forall l, Forall (fun a => P1 (lay a)) l -> P0 (T o ++ ljoin (map lay l) sep ++ T c).
  Proof.
    intros l H. unfold T. cbn [app]. apply P0_punct; [exact Ho|]. apply P0_app1.
    - apply ljoin_P1; [exact Hsep|]. rewrite Forall_map. exact H.
    - apply P0_punct; [exact Hc|apply P0_nil].
    - apply SFs_punct; assumption.
  Qed.

  Lemma optdelim_P1 : forall l, Forall (fun a => P1 (lay a)) l -> P1 (lay_opt l).
  Proof.
    intros l H. unfold lay_opt, lwrap. destruct (is_nil (ljoin (map lay l) sep)); [apply P1_nil|]. apply P0_P1. apply delim_P0. exact H.
  Qed.
  Lemma optdelim_SF : forall l, SF (lay_opt l).
  Proof. intro l. apply lwrap_SF. apply SFs_punct; assumption. Qed.

  Lemma delim_reloc : forall l ne, Forall (Rb I lay g) l -> (ne = true -> l <> []) ->
    forall ts, map sig ts = ltoks (T o ++ ljoin (map lay l) sep ++ T c) ->
    exists l', DDelim I o c ne ts l' /\ map gnl (map g l') = map gnl (map g l) /\ map lay l' = map lay l.
  Proof.
    intros l ne H Hne ts Hts. unfold T in Hts. cbn [app ltoks] in Hts. rewrite (tokval_punct _ Ho) in Hts.
    apply map_eq_cons in Hts. destruct Hts as (o' & tl & -> & So & Hts). apply sig_inv in So. destruct So as [Ko _].
    rewrite ltoks_app, ltoks_ljoin in Hts. cbn [ltoks] in Hts. rewrite (tokval_punct _ Hc) in Hts.
    apply map_eq_app in Hts. destruct Hts as (mid & cl & -> & Hmid & Hcl).
    apply map_eq_cons in Hcl. destruct Hcl as (c' & tl2 & -> & Sc & Hnil). apply sig_inv in Sc. destruct Sc as [Kc _].
    apply map_eq_nil in Hnil. rewrite Hnil.
    destruct (star_reloc I lay g l H mid Hmid) as (l' & Dl' & El & Ll).
    exists l'. split; [|split; assumption]. constructor; [exact Ko|exact Kc|exact Dl'|].
    intros E X. subst l'. specialize (Hne E). destruct l; [contradiction Hne; reflexivity|discriminate Ll].
  Qed.

  Lemma optdelim_reloc : forall l, Forall (Rb I lay g) l ->
    forall ts, map sig ts = ltoks (lay_opt l) ->
    exists l', DOptDelim I o c ts l' /\ map gnl (map g l') = map gnl (map g l) /\ map lay l' = map lay l.
  Proof.
    intros l H ts Hts. unfold lay_opt in Hts. rewrite ltoks_lwrap in Hts. rewrite (ljoin_map_nil _ lay l sep lay_nonnil) in Hts.
    destruct l as [|a l'].
    - cbn in Hts. apply map_eq_nil in Hts. subst. exists []. split; [constructor|split; reflexivity].
    - cbn [is_nil] in Hts. rewrite <- !ltoks_app in Hts.
      destruct (delim_reloc (a :: l') true H ltac:(intros _; discriminate) ts Hts) as (l'' & D & E & L).
      exists l''. split; [apply DOptDelim_some; exact D|split; assumption].
  Qed.
End OptDelim.

(* elementwise facts from a derivation of an optional delimited list *)
Lemma optdelim_elems : forall A (I : list token -> A -> Prop) o c p l, DOptDelim I o c p l -> toks_wf p ->
  Forall (fun a => exists q, I q a /\ (length q <= length p)%nat /\ toks_wf q) l.
Proof.
  intros A I o c p l D W. destruct D as [|p l D]; [constructor|]. destruct D as [o0 ps c0 l Ho Hc Hs Hne].
  apply toks_wf_cons in W. destruct W as [_ W]. apply toks_wf_app in W. destruct W as [W _].
  pose proof (star_elems _ _ _ Hs W) as X. eapply Forall_impl; [|exact X]. intros a (q & Dq & Lq & Wq).
  exists q. split; [exact Dq|]. split; [simpl; rewrite app_length; lia|exact Wq].
Qed.

(* ---- arguments, directives ---- *)
Lemma lay_arg_nonnil : forall a, lay_arg a <> [].
Proof. intro a. unfold lay_arg, Nm. discriminate. Qed.

Lemma arg_rt : forall p a, DArgument p a -> toks_wf p -> P1 (lay_arg a) /\ Rb DArgument lay_arg g_arg a.
Proof.
  intros p a D W. destruct D as [n c pv v Kn Kc Dv].
  apply toks_wf_cons in W. destruct W as [Wn W]. apply toks_wf_cons in W. destruct W as [_ W].
  destruct (value_rt _ false pv v (le_n _) Dv W) as [Pv Rv]. split.
  - unfold lay_arg, Nm, tok_name. cbn [a_name a_value nval app].
    apply P1_wordy; [apply name_tok_wf; assumption| |apply SFs_SF; apply SFs_punct; reflexivity].
    apply P1_punct; [reflexivity|]. apply P1_sep; [reflexivity|exact Pv].
  - intros ts Hts. unfold lay_arg, Nm, tok_name in Hts. cbn [a_name a_value nval app ltoks tokval] in Hts.
    apply map_eq_cons in Hts. destruct Hts as (n' & tl & -> & Sn & Hts). apply sig_inv in Sn. destruct Sn as [Kn' Vn'].
    apply map_eq_cons in Hts. destruct Hts as (c' & tv & -> & Sc & Hts). apply sig_inv in Sc. destruct Sc as [Kc' _].
    destruct (Rv tv Hts) as (v' & Dv' & Ev & Lv).
    exists (mkarg (tok_name n') v' (span (n' :: c' :: tv))). split; [constructor; assumption|].
    unfold g_arg, lay_arg. cbn [a_name a_value a_loc]. fin.
Qed.

Definition lay_args_opt := lay_opt lay_arg PAREN_L PAREN_R comma_sp.
Lemma lay_args_eq : forall l, lay_args l = lay_args_opt l.
Proof. reflexivity. Qed.

Lemma args_rt : forall p l, DArguments p l -> toks_wf p ->
  P1 (lay_args l) /\ SF (lay_args l) /\
  forall ts, map sig ts = ltoks (lay_args l) ->
    exists l', DArguments ts l' /\ map gnl (map g_arg l') = map gnl (map g_arg l) /\ lay_args l' = lay_args l.
Proof.
  intros p l D W. pose proof (optdelim_elems _ _ _ _ _ _ D W) as X.
  assert (E : Forall (fun a => P1 (lay_arg a) /\ Rb DArgument lay_arg g_arg a) l).
  { eapply Forall_impl; [|exact X]. intros a (q & Dq & _ & Wq). apply (arg_rt q a Dq Wq). }
  rewrite !lay_args_eq. split; [|split].
  - apply optdelim_P1; try reflexivity. eapply Forall_impl; [|exact E]. intros a [Ha _]. exact Ha.
  - apply optdelim_SF; reflexivity.
  - intros ts Hts.
    destruct (optdelim_reloc DArgument lay_arg g_arg PAREN_L PAREN_R comma_sp eq_refl eq_refl lay_arg_nonnil l
                ltac:(eapply Forall_impl; [|exact E]; intros a [_ Ha]; exact Ha) ts Hts) as (l' & D' & E' & L').
    exists l'. split; [exact D'|]. split; [exact E'|]. rewrite !lay_args_eq. unfold lay_args_opt, lay_opt. rewrite L'. reflexivity.
Qed.

Lemma lay_dir_nonnil : forall a, lay_dir a <> [].
Proof. intro a. unfold lay_dir. discriminate. Qed.

Lemma dir_rt : forall p d, DDirec p d -> toks_wf p -> P1 (lay_dir d) /\ Rb DDirec lay_dir g_dir d.
Proof.
  intros p d D W. destruct D as [a n pa args Ka Kn Da].
  apply toks_wf_cons in W. destruct W as [_ W]. apply toks_wf_cons in W. destruct W as [Wn W].
  destruct (args_rt pa args Da W) as (Pa & Sa & Ra). split.
  - unfold lay_dir, Nm, tok_name. cbn [d_name d_args nval app]. apply P1_punct; [reflexivity|].
    apply P1_wordy; [apply name_tok_wf; assumption|exact Pa|exact Sa].
  - intros ts Hts. unfold lay_dir, Nm, tok_name in Hts. cbn [d_name d_args nval app ltoks tokval] in Hts.
    apply map_eq_cons in Hts. destruct Hts as (a' & tl & -> & Sa' & Hts). apply sig_inv in Sa'. destruct Sa' as [Ka' _].
    apply map_eq_cons in Hts. destruct Hts as (n' & ta & -> & Sn & Hts). apply sig_inv in Sn. destruct Sn as [Kn' Vn'].
    destruct (Ra ta Hts) as (args' & Da' & Ea & La).
    exists (mkdir (tok_name n') args' (span (a' :: n' :: ta))). split; [constructor; assumption|].
    unfold g_dir, lay_dir, glist. cbn [d_name d_args d_loc gl gnl map g_name]. unfold Nm, tok_name. cbn [nval]. rewrite Vn', Ea, La. split; reflexivity.
Qed.

Lemma dirs_rt : forall p l, DDirecs p l -> toks_wf p ->
  P1 (lay_dirs l) /\ SF (lay_dirs l) /\
  forall ts, map sig ts = ltoks (lay_dirs l) ->
    exists l', DDirecs ts l' /\ map gnl (map g_dir l') = map gnl (map g_dir l) /\ lay_dirs l' = lay_dirs l.
Proof.
  intros p l D W. pose proof (star_elems _ _ _ D W) as X.
  assert (E : Forall (fun a => P1 (lay_dir a) /\ Rb DDirec lay_dir g_dir a) l).
  { eapply Forall_impl; [|exact X]. intros a (q & Dq & _ & Wq). apply (dir_rt q a Dq Wq). }
  split; [|split].
  - unfold lay_dirs. apply ljoin_P1; [reflexivity|]. rewrite Forall_map. eapply Forall_impl; [|exact E]. intros a [Ha _]. exact Ha.
  - unfold lay_dirs. apply ljoin_SF; [reflexivity|]. rewrite Forall_map. apply Forall_forall. intros a _.
    unfold lay_dir. apply SFs_SF. apply SFs_punct; reflexivity.
  - intros ts Hts. unfold lay_dirs in Hts. rewrite ltoks_ljoin in Hts.
    destruct (star_reloc DDirec lay_dir g_dir l ltac:(eapply Forall_impl; [|exact E]; intros a [_ Ha]; exact Ha) ts Hts) as (l' & D' & E' & L').
    exists l'. split; [exact D'|]. split; [exact E'|]. unfold lay_dirs. rewrite L'. reflexivity.
Qed.

(* ---- indent does not change well-formedness ---- *)
Lemma piece_wfb_hd : forall k v r1 r2, hd_error r1 = hd_error r2 -> piece_wfb k v r1 = piece_wfb k v r2.
Proof.
  intros k v r1 r2 H. destruct r1 as [|a r1], r2 as [|b r2]; try discriminate H; [reflexivity|].
  inversion H; subst. destruct k; reflexivity.
Qed.
Lemma hd_app_ne : forall (a b c : bytes), a <> [] -> hd_error (a ++ b) = hd_error (a ++ c).
Proof. intros [|x a] b c H; [contradiction|reflexivity]. Qed.
Lemma indent_bytes_hd : forall s, hd_error (indent_bytes s) = hd_error s.
Proof. intros [|c s]; [reflexivity|]. cbn [indent_bytes]. destruct (c =? 10) eqn:E; [apply N.eqb_eq in E; subst; reflexivity|reflexivity]. Qed.
Lemma indent_bytes_nil : forall s, indent_bytes s = [] -> s = [].
Proof. intros [|c s] H; [reflexivity|]. cbn [indent_bytes] in H. destruct (c =? 10); discriminate H. Qed.

Lemma lindent_hd : forall X L, hd_error (flat (lindent X ++ L)) = hd_error (flat (X ++ L)).
Proof.
  induction X as [|p X IH]; intro L; [reflexivity|]. destruct p as [k v|s|d s]; cbn [lindent map app]; fold (lindent X).
  - change (flat (PTok k v :: lindent X ++ L)) with (render_piece (PTok k v) ++ flat (lindent X ++ L)).
    change (flat (PTok k v :: X ++ L)) with (render_piece (PTok k v) ++ flat (X ++ L)).
    destruct (render_piece (PTok k v)) as [|b r] eqn:E; [cbn [app]; apply IH|reflexivity].
  - change (flat (PSep (indent_bytes s) :: lindent X ++ L)) with (indent_bytes s ++ flat (lindent X ++ L)).
    change (flat (PSep s :: X ++ L)) with (s ++ flat (X ++ L)).
    destruct s as [|c s']; [cbn [indent_bytes app]; apply IH|].
    pose proof (indent_bytes_hd (c :: s')) as Hh. destruct (indent_bytes (c :: s')) as [|c' s'']; [discriminate Hh|].
    cbn [app hd_error] in *. exact Hh.
  - reflexivity.
Qed.

Lemma indent_sep_eq : forall s, forallb is_sep_byte (indent_bytes s) = forallb is_sep_byte s.
Proof.
  induction s as [|c s IH]; [reflexivity|]. cbn [indent_bytes]. destruct (c =? 10) eqn:E.
  - apply N.eqb_eq in E. subst. cbn [forallb]. rewrite IH. reflexivity.
  - cbn [forallb]. rewrite IH. reflexivity.
Qed.

Lemma lindent_wfb : forall X L, layout_wfb (lindent X ++ L) = layout_wfb (X ++ L).
Proof.
  induction X as [|p X IH]; intro L; [reflexivity|]. destruct p as [k v|s|d s]; cbn [lindent map app layout_wfb].
  - fold (lindent X). rewrite IH. f_equal. apply piece_wfb_hd. apply lindent_hd.
  - fold (lindent X). rewrite IH, indent_sep_eq. reflexivity.
  - fold (lindent X). rewrite IH. reflexivity.
Qed.

Lemma lindent_P1 : forall X, P1 X -> P1 (lindent X).
Proof. intros X H L HL. unfold wf0. rewrite lindent_wfb. apply H. exact HL. Qed.

Lemma lblock_P0 : forall items, items <> [] -> Forall P1 items -> P0 (lblock items).
Proof.
  intros items Hne H. unfold lblock. destruct items as [|a items']; [contradiction|]. cbn [is_nil].
  apply P0_app1.
  - apply lindent_P1. apply P1_punct; [reflexivity|]. apply P1_sep; [reflexivity|]. apply ljoin_P1; [reflexivity|exact H].
  - apply P0_sep; [reflexivity|]. apply P0_punct; [reflexivity|apply P0_nil].
  - apply SFs_sep. reflexivity.
Qed.
Lemma lblock_SFs : forall items, SFs (lblock items).
Proof.
  intros items L. unfold lblock. destruct (is_nil items); [reflexivity|]. reflexivity.
Qed.
Lemma ltoks_lblock : forall items, items <> [] ->
  ltoks (lblock items) = (BRACE_L, []) :: flat_map ltoks items ++ [(BRACE_R, [])].
Proof.
  intros items H. unfold lblock. destruct items as [|a items']; [contradiction|]. cbn [is_nil].
  rewrite ltoks_app, ltoks_lindent. cbn [ltoks tokval]. rewrite ltoks_ljoin. reflexivity.
Qed.

(* ---- selections ---- *)
Lemma ltoks_lwrap_sep : forall a m b, ltoks a = [] -> ltoks b = [] -> ltoks (lwrap a m b) = ltoks m.
Proof.
  intros a m b Ha Hb. rewrite ltoks_lwrap. destruct m as [|x m']; [reflexivity|]. cbn [is_nil]. rewrite Ha, Hb, app_nil_r. reflexivity.
Qed.

Definition RSS (ss : selset) : Prop := P0 (lay_selset ss) /\ Rb DSelSet lay_selset g_selset ss.
Definition sel_part (sub : option selset) : layout := match sub with Some ss => lay_selset ss | None => [] end.
Definition g_sub (sub : option selset) : gt := match sub with Some ss => g_selset ss | None => gnone end.

Lemma lay_selset_SFs : forall ss, SFs (lay_selset ss).
Proof. intros [sels l]. cbn [lay_selset]. apply lblock_SFs. Qed.

Section SelRT.
  Variable n : nat.
  Hypothesis Hss : forall p ss, (length p < n)%nat -> DSelSet p ss -> toks_wf p -> RSS ss.

  (* arguments, directives and the optional sub-selection of a field, together *)
  Lemma field_tail_rt : forall pa args pd dirs ps sub,
    DArguments pa args -> DDirecs pd dirs -> DOpt DSelSet ps sub -> (length ps < n)%nat ->
    toks_wf pa -> toks_wf pd -> toks_wf ps ->
    P1 (lay_args args) /\ SF (lay_args args) /\ P1 (lay_dirs dirs) /\ P1 (sel_part sub) /\
    forall ts, map sig ts = ltoks (lay_args args) ++ ltoks (lay_dirs dirs) ++ ltoks (sel_part sub) ->
      exists ta td tsel args' dirs' sub', ts = ta ++ td ++ tsel /\
        DArguments ta args' /\ DDirecs td dirs' /\ DOpt DSelSet tsel sub' /\
        map gnl (map g_arg args') = map gnl (map g_arg args) /\ lay_args args' = lay_args args /\
        map gnl (map g_dir dirs') = map gnl (map g_dir dirs) /\ lay_dirs dirs' = lay_dirs dirs /\
        gnl (g_sub sub') = gnl (g_sub sub) /\ sel_part sub' = sel_part sub.
  Proof.
    intros pa args pd dirs ps sub Da Dd Ds Ln Wa Wd Ws.
    destruct (args_rt _ _ Da Wa) as (Pa & Sa & Ra). destruct (dirs_rt _ _ Dd Wd) as (Pd & Sd & Rd).
    assert (S : P1 (sel_part sub) /\ forall tsel, map sig tsel = ltoks (sel_part sub) ->
                 exists sub', DOpt DSelSet tsel sub' /\ gnl (g_sub sub') = gnl (g_sub sub) /\ sel_part sub' = sel_part sub).
    { destruct Ds as [|ps ss Dss].
      - split; [apply P1_nil|]. intros tsel H. cbn in H. apply map_eq_nil in H. subst. exists None. split; [constructor|split; reflexivity].
      - destruct (Hss ps ss Ln Dss Ws) as [Ps Rs]. split; [apply P0_P1; exact Ps|].
        intros tsel H. destruct (Rs tsel H) as (ss' & Dss' & Es & Ls). exists (Some ss'). split; [constructor; exact Dss'|split; assumption]. }
    destruct S as [Ps Rs]. split; [exact Pa|]. split; [exact Sa|]. split; [exact Pd|]. split; [exact Ps|].
    intros ts Hts. apply map_eq_app in Hts. destruct Hts as (ta & t2 & -> & Hta & Ht2).
    apply map_eq_app in Ht2. destruct Ht2 as (td & tsel & -> & Htd & Htsel).
    destruct (Ra ta Hta) as (args' & Da' & Ea & La). destruct (Rd td Htd) as (dirs' & Dd' & Ed & Ld).
    destruct (Rs tsel Htsel) as (sub' & Ds' & Es & Ls).
    exists ta, td, tsel, args', dirs', sub'. repeat split; assumption.
  Qed.

  Lemma sel_rt : forall p s, (length p <= n)%nat -> DSelectionOf DSelSet p s -> toks_wf p ->
    P1 (lay_sel s) /\ Rb (DSelectionOf DSelSet) lay_sel g_sel s.
  Proof.
    intros p s Ln D W.
    destruct D as [pn al nm pa args pd dirs ps sub Dn Da Dd Ds | sp0 pn nmm pd dirs Ks Dn Dd | sp0 pt tc pd dirs ps ss Ks Dt Dd Dss].
    - (* field *)
      apply toks_wf_app in W. destruct W as [Wn W]. apply toks_wf_app in W. destruct W as [Wa W].
      apply toks_wf_app in W. destruct W as [Wd Ws].
      assert (Lps : (length ps < n)%nat).
      { rewrite !app_length in Ln. inversion Dn; subst; simpl in Ln; lia. }
      destruct (field_tail_rt pa args pd dirs ps sub Da Dd Ds Lps Wa Wd Ws) as (Pa & Sa & Pd & Ps & Rt).
      change (lay_sel (SField al nm args dirs sub (span (pn ++ pa ++ pd ++ ps))))
        with (ljoin [ lwrap [] (match al with Some a => Nm a | None => [] end) [PTok COLON []; PSep [32]] ++ Nm nm ++ lay_args args;
                      lay_dirs dirs; sel_part sub ] [32]).
      inversion Dn as [t Kt E1 E2 | a c t Ka Kc Kt E1 E2]; subst.
      + apply toks_wf_cons in Wn. destruct Wn as [Wt _]. split.
        * apply ljoin_P1; [reflexivity|]. repeat constructor; try assumption.
          unfold lwrap, Nm, tok_name. cbn [is_nil app nval]. apply P1_wordy; [apply name_tok_wf; assumption|exact Pa|exact Sa].
        * intros ts Hts. cbn [lay_sel] in Hts. fold (sel_part sub) in Hts.
          rewrite ltoks_ljoin in Hts. cbn [flat_map] in Hts. rewrite app_nil_r, !ltoks_app in Hts.
          unfold lwrap, Nm, tok_name in Hts. cbn [is_nil app nval ltoks tokval] in Hts.
          apply map_eq_cons in Hts. destruct Hts as (t' & tl & -> & St & Hts). apply sig_inv in St. destruct St as [Kt' Vt'].
          destruct (Rt tl Hts) as (ta & td & tsel & args' & dirs' & sub' & -> & Da' & Dd' & Ds' & Ea & La & Ed & Ld & Es & Ls).
          exists (SField None (tok_name t') args' dirs' sub' (span ([t'] ++ ta ++ td ++ tsel))). split.
          { apply (DS_field DSelSet [t'] None (tok_name t') ta args' td dirs' tsel sub'); try assumption. constructor. exact Kt'. }
          split.
          { cbn [g_sel gl gnl map gopt g_name g_dirs glist]. fold (g_sub sub') (g_sub sub). unfold tok_name. cbn [nval].
            rewrite Vt', Ea, Ed, Es. reflexivity. }
          { cbn [lay_sel]. fold (sel_part sub') (sel_part sub). unfold Nm, tok_name. cbn [nval]. rewrite Vt', La, Ld, Ls. reflexivity. }
      + apply toks_wf_cons in Wn. destruct Wn as [Wa0 Wn]. apply toks_wf_cons in Wn. destruct Wn as [_ Wn].
        apply toks_wf_cons in Wn. destruct Wn as [Wt _]. split.
        * apply ljoin_P1; [reflexivity|]. repeat constructor; try assumption.
          unfold lwrap, Nm, tok_name. cbn [is_nil app nval].
          apply P1_wordy; [apply name_tok_wf; assumption| |apply SFs_SF; apply SFs_punct; reflexivity].
          apply P1_punct; [reflexivity|]. apply P1_sep; [reflexivity|].
          apply P1_wordy; [apply name_tok_wf; assumption|exact Pa|exact Sa].
        * intros ts Hts. cbn [lay_sel] in Hts. fold (sel_part sub) in Hts.
          rewrite ltoks_ljoin in Hts. cbn [flat_map] in Hts. rewrite app_nil_r, !ltoks_app in Hts.
          unfold lwrap, Nm, tok_name in Hts. cbn [is_nil app nval ltoks tokval] in Hts.
          apply map_eq_cons in Hts. destruct Hts as (a' & tl & -> & Sa' & Hts). apply sig_inv in Sa'. destruct Sa' as [Ka' Va'].
          apply map_eq_cons in Hts. destruct Hts as (c' & tl2 & -> & Sc' & Hts). apply sig_inv in Sc'. destruct Sc' as [Kc' _].
          apply map_eq_cons in Hts. destruct Hts as (t' & tl3 & -> & St & Hts). apply sig_inv in St. destruct St as [Kt' Vt'].
          destruct (Rt tl3 Hts) as (ta & td & tsel & args' & dirs' & sub' & -> & Da' & Dd' & Ds' & Ea & La & Ed & Ld & Es & Ls).
          exists (SField (Some (tok_name a')) (tok_name t') args' dirs' sub' (span ([a'; c'; t'] ++ ta ++ td ++ tsel))). split.
          { apply (DS_field DSelSet [a'; c'; t'] (Some (tok_name a')) (tok_name t') ta args' td dirs' tsel sub'); try assumption.
            constructor; assumption. }
          split.
          { cbn [g_sel gl gnl map gopt g_name g_dirs glist]. fold (g_sub sub') (g_sub sub). unfold tok_name. cbn [nval].
            rewrite Va', Vt', Ea, Ed, Es. reflexivity. }
          { cbn [lay_sel]. fold (sel_part sub') (sel_part sub). unfold Nm, tok_name. cbn [nval]. rewrite Va', Vt', La, Ld, Ls. reflexivity. }
    - (* spread *)
      destruct Dn as [t Kt Vt].
      apply toks_wf_cons in W. destruct W as [_ W]. apply toks_wf_cons in W. destruct W as [Wt Wd].
      destruct (dirs_rt _ _ Dd Wd) as (Pd & Sd & Rd).
      cbn [lay_sel]. unfold T, Nm, tok_name. cbn [nval app]. split.
      + apply P1_punct; [reflexivity|]. apply P1_wordy; [apply name_tok_wf; assumption| |apply lwrap_SF; apply SFs_sep; reflexivity].
        apply lwrap_P1_open; [apply P0_sep; [reflexivity|apply P0_nil]|exact Pd].
      + intros ts Hts. cbn [lay_sel] in Hts. unfold T, Nm, tok_name in Hts. cbn [nval app ltoks tokval] in Hts.
        rewrite (ltoks_lwrap_sep sp (lay_dirs dirs) [] eq_refl eq_refl) in Hts.
        apply map_eq_cons in Hts. destruct Hts as (s' & tl & -> & Ss & Hts). apply sig_inv in Ss. destruct Ss as [Ks' _].
        apply map_eq_cons in Hts. destruct Hts as (t' & td & -> & St & Hts). apply sig_inv in St. destruct St as [Kt' Vt'].
        destruct (Rd td Hts) as (dirs' & Dd' & Ed & Ld).
        exists (SSpread (tok_name t') dirs' (span (s' :: [t'] ++ td))). split.
        { apply (DS_spread DSelSet s' [t'] (tok_name t') td dirs'); [exact Ks'|constructor; [exact Kt'|rewrite Vt'; exact Vt]|exact Dd']. }
        split.
        { cbn [g_sel gl gnl map g_name g_dirs glist]. unfold tok_name. cbn [nval]. rewrite Vt', Ed. reflexivity. }
        { cbn [lay_sel]. unfold T, Nm, tok_name. cbn [nval]. rewrite Vt', Ld. reflexivity. }
    - (* inline fragment *)
      apply toks_wf_cons in W. destruct W as [_ W]. apply toks_wf_app in W. destruct W as [Wt W].
      apply toks_wf_app in W. destruct W as [Wd Ws].
      destruct (dirs_rt _ _ Dd Wd) as (Pd & Sd & Rd).
      destruct (Hss ps ss ltac:(simpl in Ln; rewrite !app_length in Ln; lia) Dss Ws) as [Ps Rs].
      set (tcl := match tc with Some t => Nm (nd_name t) | None => [] end).
      change (lay_sel (SInline tc dirs ss (span (sp0 :: pt ++ pd ++ ps))))
        with (ljoin [T SPREAD; lwrap (Kw "on" ++ sp) tcl []; lay_dirs dirs; lay_selset ss] [32]).
      assert (TC : P1 (lwrap (Kw "on" ++ sp) tcl []) /\
                   forall tt, map sig tt = ltoks (lwrap (Kw "on" ++ sp) tcl []) ->
                     exists tc', DOpt DTypeCond tt tc' /\ gnl (gopt g_named tc') = gnl (gopt g_named tc) /\
                       match tc' with Some t => Nm (nd_name t) | None => [] end = tcl).
      { destruct Dt as [|pt tc0 Dtc].
        - split; [apply P1_nil|]. intros tt H. cbn in H. apply map_eq_nil in H. subst. exists None. split; [constructor|split; reflexivity].
        - destruct Dtc as [o t Ko Vo Kt]. apply toks_wf_cons in Wt. destruct Wt as [_ Wt]. apply toks_wf_cons in Wt. destruct Wt as [Wt _].
          unfold tcl, lwrap, Kw, sp, Nm, tok_named, tok_name. cbn [nd_name nval is_nil app]. split.
          + apply P1_wordy; [reflexivity| |apply SFs_SF; apply SFs_sep; reflexivity]. apply P1_sep; [reflexivity|].
            apply P1_wordy_last. apply name_tok_wf; assumption.
          + intros tt H. cbn [ltoks tokval] in H. sigs H.
            exists (Some (tok_named t1)). split; [constructor; constructor; assumption|].
            unfold tok_named, tok_name, Nm. cbn [gopt g_named g_name gl gnl map nd_name nval nd_loc nloc]. rewrite V0. split; reflexivity. }
      destruct TC as [Ptc Rtc]. split.
      + apply ljoin_P1; [reflexivity|]. repeat constructor; try assumption.
        * unfold T. apply P1_punct; [reflexivity|apply P1_nil].
        * apply P0_P1; exact Ps.
      + intros ts Hts. cbn [lay_sel] in Hts. fold tcl in Hts.
        rewrite ltoks_ljoin in Hts. cbn [flat_map] in Hts. rewrite app_nil_r in Hts. unfold T in Hts. cbn [ltoks tokval app] in Hts.
        apply map_eq_cons in Hts. destruct Hts as (s' & tl & -> & Ss & Hts). apply sig_inv in Ss. destruct Ss as [Ks' _].
        apply map_eq_app in Hts. destruct Hts as (tt & t2 & -> & Htt & Ht2).
        apply map_eq_app in Ht2. destruct Ht2 as (td & tsel & -> & Htd & Htsel).
        destruct (Rtc tt Htt) as (tc' & Dtc' & Etc & Ltc). destruct (Rd td Htd) as (dirs' & Dd' & Ed & Ld).
        destruct (Rs tsel Htsel) as (ss' & Dss' & Es & Ls).
        exists (SInline tc' dirs' ss' (span (s' :: tt ++ td ++ tsel))). split; [apply DS_inline; assumption|]. split.
        { cbn [g_sel gl gnl map g_dirs glist]. rewrite Etc, Ed, Es. reflexivity. }
        { cbn [lay_sel]. fold tcl. rewrite Ltc, Ld, Ls. reflexivity. }
  Qed.
End SelRT.

Lemma selset_rt : forall n p ss, (length p <= n)%nat -> DSelSet p ss -> toks_wf p -> RSS ss.
Proof.
  induction n as [|n IH]; intros p ss Ln D W.
  { exfalso. apply (selset_nonnil _ _ D). destruct p; [reflexivity|simpl in Ln; lia]. }
  destruct D as [p l D]. destruct D as [o ps c l Ho Hc Hs Hne].
  apply toks_wf_cons in W. destruct W as [_ W]. apply toks_wf_app in W. destruct W as [W _].
  assert (E : Forall (fun s => P1 (lay_sel s) /\ Rb (DSelectionOf DSelSet) lay_sel g_sel s) l).
  { pose proof (star_elems _ _ _ Hs W) as X. eapply Forall_impl; [|exact X].
    intros a (q & Dq & Lq & Wq). apply (sel_rt n) with (p := q); [|simpl in Ln; rewrite app_length in Ln; simpl in Ln; lia|exact Dq|exact Wq].
    intros p0 ss0 L0 D0 W0. apply (IH p0 ss0); [lia|exact D0|exact W0]. }
  assert (Nl : l <> []) by (apply Hne; reflexivity).
  assert (Nm' : map lay_sel l <> []) by (destruct l; [contradiction|discriminate]).
  split.
  - cbn [lay_selset]. apply lblock_P0; [exact Nm'|]. rewrite Forall_map. eapply Forall_impl; [|exact E]. intros a [Ha _]. exact Ha.
  - intros ts Hts. cbn [lay_selset] in Hts. rewrite (ltoks_lblock _ Nm') in Hts.
    apply map_eq_cons in Hts. destruct Hts as (o' & tl & -> & So & Hts). apply sig_inv in So. destruct So as [Ko _].
    apply map_eq_app in Hts. destruct Hts as (mid & cl & -> & Hmid & Hcl). sigs Hcl.
    destruct (star_reloc (DSelectionOf DSelSet) lay_sel g_sel l
                ltac:(eapply Forall_impl; [|exact E]; intros a [_ Ha]; exact Ha) mid Hmid) as (l' & Dl' & El & Ll).
    exists (SelSet l' (span (o' :: mid ++ [t]))). split.
    + apply DSS_intro. constructor; try assumption. intros _ X. subst l'. destruct l; [contradiction|discriminate Ll].
    + cbn [g_selset gl gnl lay_selset]. rewrite El, Ll. split; reflexivity.
Qed.

(* ---- variable definitions ---- *)
Lemma lay_value_nonnil : forall v, lay_value v <> [].
Proof. intros [n l|s l|s l|s l|b l|s l|vs l|fs l]; cbn [lay_value]; unfold T; try discriminate. destruct b; discriminate. Qed.

Definition dflt_part (dv : option value) : layout := match dv with Some d => lay_value d | None => [] end.
Definition eq_wrap : layout := sp ++ T EQUALS ++ sp.

Lemma default_rt : forall pv dv, DOpt DDefault pv dv -> toks_wf pv ->
  P1 (lwrap eq_wrap (dflt_part dv) []) /\
  forall ts, map sig ts = ltoks (lwrap eq_wrap (dflt_part dv) []) ->
    exists dv', DOpt DDefault ts dv' /\ gnl (gopt g_value dv') = gnl (gopt g_value dv) /\ dflt_part dv' = dflt_part dv.
Proof.
  intros pv dv D W. destruct D as [|pv v Dd].
  - split; [apply P1_nil|]. intros ts H. cbn in H. apply map_eq_nil in H. subst. exists None. split; [constructor|split; reflexivity].
  - destruct Dd as [e pv v Ke Dv]. apply toks_wf_cons in W. destruct W as [_ W].
    destruct (value_rt _ true pv v (le_n _) Dv W) as [Pv Rv]. cbn [dflt_part]. split.
    + apply lwrap_P1_open; [|exact Pv]. unfold eq_wrap, sp, T. cbn [app].
      apply P0_sep; [reflexivity|]. apply P0_punct; [reflexivity|]. apply P0_sep; [reflexivity|apply P0_nil].
    + intros ts H. rewrite ltoks_lwrap in H. pose proof (lay_value_nonnil v) as Nv.
      destruct (lay_value v) as [|x lv] eqn:E; [contradiction|]. cbn [is_nil] in H. rewrite <- E in *. clear E.
      unfold eq_wrap, sp, T in H. cbn [app ltoks tokval] in H. rewrite app_nil_r in H.
      apply map_eq_cons in H. destruct H as (e' & tv & -> & Se & H). apply sig_inv in Se. destruct Se as [Ke' _].
      destruct (Rv tv H) as (v' & Dv' & Ev & Lv).
      exists (Some v'). split; [constructor; constructor; assumption|]. cbn [gopt dflt_part]. split; assumption.
Qed.

Lemma lay_vardef_eq : forall v, lay_vardef v =
  PTok DOLLAR [] :: Nm (vd_var v) ++ PTok COLON [] :: PSep [32] :: lay_type (vd_type v) ++ lwrap eq_wrap (dflt_part (vd_default v)) [].
Proof. reflexivity. Qed.
Lemma lay_vardef_nonnil : forall v, lay_vardef v <> [].
Proof. intro v. rewrite lay_vardef_eq. discriminate. Qed.

Lemma vardef_rt : forall p v, DVarDef p v -> toks_wf p -> P1 (lay_vardef v) /\ Rb DVarDef lay_vardef g_vardef v.
Proof.
  intros p v D W. destruct D as [d n c pt t pv dv Kd Kn Kc Dt Dv].
  apply toks_wf_cons in W. destruct W as [_ W]. apply toks_wf_cons in W. destruct W as [Wn W].
  apply toks_wf_cons in W. destruct W as [_ W]. apply toks_wf_app in W. destruct W as [Wt Wv].
  destruct (type_rt _ _ Dt Wt) as [Pt Rt]. destruct (default_rt _ _ Dv Wv) as [Pd Rd].
  rewrite lay_vardef_eq. cbn [vd_var vd_type vd_default]. unfold Nm, tok_name. cbn [nval app]. split.
  - apply P1_punct; [reflexivity|]. apply P1_wordy; [apply name_tok_wf; assumption| |apply SFs_SF; apply SFs_punct; reflexivity].
    apply P1_punct; [reflexivity|]. apply P1_sep; [reflexivity|].
    apply P1_app1; [exact Pt|exact Pd|]. apply lwrap_SF. unfold eq_wrap, sp. cbn [app]. apply SFs_sep. reflexivity.
  - intros ts Hts. rewrite lay_vardef_eq in Hts. cbn [vd_var vd_type vd_default] in Hts. unfold Nm, tok_name in Hts.
    cbn [nval app ltoks tokval] in Hts. rewrite ltoks_app in Hts.
    apply map_eq_cons in Hts. destruct Hts as (d' & tl & -> & Sd & Hts). apply sig_inv in Sd. destruct Sd as [Kd' _].
    apply map_eq_cons in Hts. destruct Hts as (n' & tl2 & -> & Sn & Hts). apply sig_inv in Sn. destruct Sn as [Kn' Vn'].
    apply map_eq_cons in Hts. destruct Hts as (c' & tl3 & -> & Sc & Hts). apply sig_inv in Sc. destruct Sc as [Kc' _].
    apply map_eq_app in Hts. destruct Hts as (tt & tv & -> & Htt & Htv).
    destruct (Rt tt Htt) as (t' & Dt' & Et & Lt). destruct (Rd tv Htv) as (dv' & Dv' & Ev & Lv).
    exists (mkvardef (tok_name n') (span [d'; n']) t' dv' (span (d' :: n' :: c' :: tt ++ tv))). split; [constructor; assumption|].
    rewrite !lay_vardef_eq. unfold g_vardef. cbn [vd_var vd_varloc vd_type vd_default vd_loc gl gnl map g_name].
    unfold Nm, tok_name. cbn [nval]. rewrite Vn', Et, Ev, Lt, Lv. split; reflexivity.
Qed.

Definition lay_vardefs (l : list vardef) : layout := lay_opt lay_vardef PAREN_L PAREN_R comma_sp l.

Lemma vardefs_rt : forall p l, DVarDefs p l -> toks_wf p ->
  P1 (lay_vardefs l) /\ SF (lay_vardefs l) /\
  forall ts, map sig ts = ltoks (lay_vardefs l) ->
    exists l', DVarDefs ts l' /\ map gnl (map g_vardef l') = map gnl (map g_vardef l) /\ lay_vardefs l' = lay_vardefs l.
Proof.
  intros p l D W. pose proof (optdelim_elems _ _ _ _ _ _ D W) as X.
  assert (E : Forall (fun a => P1 (lay_vardef a) /\ Rb DVarDef lay_vardef g_vardef a) l).
  { eapply Forall_impl; [|exact X]. intros a (q & Dq & _ & Wq). apply (vardef_rt q a Dq Wq). }
  split; [|split].
  - apply optdelim_P1; try reflexivity. eapply Forall_impl; [|exact E]. intros a [Ha _]. exact Ha.
  - apply optdelim_SF; reflexivity.
  - intros ts Hts.
    destruct (optdelim_reloc DVarDef lay_vardef g_vardef PAREN_L PAREN_R comma_sp eq_refl eq_refl lay_vardef_nonnil l
                ltac:(eapply Forall_impl; [|exact E]; intros a [_ Ha]; exact Ha) ts Hts) as (l' & D' & E' & L').
    exists l'. split; [exact D'|]. split; [exact E'|]. unfold lay_vardefs, lay_opt. rewrite L'. reflexivity.
Qed.

(* ---- operations ---- *)
Definition name_part (nm : option name) : layout := match nm with Some n => Nm n | None => [] end.

Lemma lay_op_eq : forall o, lay_op o =
  if is_nil (name_part (op_name o)) && is_nil (lay_dirs (op_dirs o)) && is_nil (lay_vardefs (op_vars o)) && is_query (op_type o)
  then lay_selset (op_sel o)
  else ljoin [ [PTok NAME (optype_name (op_type o))]; name_part (op_name o) ++ lay_vardefs (op_vars o);
               lay_dirs (op_dirs o); lay_selset (op_sel o) ] [32].
Proof. reflexivity. Qed.

Lemma optype_of_name : forall op, optype_of (optype_name op) = Some op.
Proof. destruct op; reflexivity. Qed.
Lemma optype_name_of : forall v op, optype_of v = Some op -> v = optype_name op.
Proof.
  intros v op H. unfold optype_of in H.
  destruct (bytes_eqb v (kw "query")) eqn:E1; [apply bytes_eqb_eq in E1; inversion H; subst; reflexivity|].
  destruct (bytes_eqb v (kw "mutation")) eqn:E2; [apply bytes_eqb_eq in E2; inversion H; subst; reflexivity|].
  destruct (bytes_eqb v (kw "subscription")) eqn:E3; [apply bytes_eqb_eq in E3; inversion H; subst; reflexivity|discriminate].
Qed.
Lemma optype_name_ok : forall op, name_ok (optype_name op) = true.
Proof. destruct op; reflexivity. Qed.

Lemma is_nil_true : forall A (l : list A), is_nil l = true -> l = [].
Proof. intros A [|x l] H; [reflexivity|discriminate]. Qed.

Lemma lay_dirs_nil : forall dirs, is_nil (lay_dirs dirs) = is_nil dirs.
Proof. intro dirs. unfold lay_dirs. apply ljoin_map_nil. apply lay_dir_nonnil. Qed.
Lemma lay_vardefs_nil : forall vds, is_nil (lay_vardefs vds) = is_nil vds.
Proof.
  intro vds. unfold lay_vardefs, lay_opt, lwrap. rewrite (ljoin_map_nil _ lay_vardef vds comma_sp lay_vardef_nonnil).
  destruct vds; reflexivity.
Qed.

Definition g_op (o : opdef) : gt := g_def (DOp o).

Lemma op_rt : forall p o, DOperation p o -> toks_wf p ->
  P1 (lay_op o) /\
  forall ts, map sig ts = ltoks (lay_op o) -> exists o', DOperation ts o' /\ gnl (g_op o') = gnl (g_op o) /\ lay_op o' = lay_op o.
Proof.
  intros p o D W. destruct D as [p ss Ds | k op pn nm pv vds pd dirs ps ss Kk Ho Dn Dv Dd Ds].
  - destruct (selset_rt _ p ss (le_n _) Ds W) as [Ps Rs].
    change (lay_op (mkopdef Query None [] [] ss (span p))) with (lay_selset ss). split; [apply P0_P1; exact Ps|].
    intros ts Hts. destruct (Rs ts Hts) as (ss' & Ds' & Es & Ls).
    exists (mkopdef Query None [] [] ss' (span ts)). split; [apply DO_short; exact Ds'|]. split.
    + unfold g_op. cbn [g_def op_type op_name op_vars op_dirs op_sel op_loc gl gnl map gopt glist g_dirs]. rewrite Es. reflexivity.
    + change (lay_op (mkopdef Query None [] [] ss' (span ts))) with (lay_selset ss'). exact Ls.
  - apply toks_wf_cons in W. destruct W as [_ W]. apply toks_wf_app in W. destruct W as [Wn W].
    apply toks_wf_app in W. destruct W as [Wv W]. apply toks_wf_app in W. destruct W as [Wd Ws].
    destruct (vardefs_rt _ _ Dv Wv) as (Pv & Sv & Rv). destruct (dirs_rt _ _ Dd Wd) as (Pd & Sd & Rd).
    destruct (selset_rt _ ps ss (le_n _) Ds Ws) as [Ps Rs].
    assert (NP : P1 (name_part nm ++ lay_vardefs vds) /\
                 forall tn, map sig tn = ltoks (name_part nm) ->
                   exists nm', DOpt DName tn nm' /\ gnl (gopt g_name nm') = gnl (gopt g_name nm) /\ name_part nm' = name_part nm).
    { destruct Dn as [|pn n0 Dn0].
      - split; [exact Pv|]. intros tn H. cbn in H. apply map_eq_nil in H. subst. exists None. split; [constructor|split; reflexivity].
      - destruct Dn0 as [t Kt]. apply toks_wf_cons in Wn. destruct Wn as [Wt _]. cbn [name_part]. unfold Nm, tok_name. cbn [nval app]. split.
        + apply P1_wordy; [apply name_tok_wf; assumption|exact Pv|exact Sv].
        + intros tn H. cbn [ltoks tokval] in H. sigs H. exists (Some (tok_name t0)). split; [constructor; constructor; assumption|].
          unfold tok_name, Nm. cbn [gopt g_name gl gnl map nval name_part]. rewrite V. split; reflexivity. }
    destruct NP as [Pn Rn].
    rewrite lay_op_eq. cbn [op_type op_name op_vars op_dirs op_sel].
    destruct (is_nil (name_part nm) && is_nil (lay_dirs dirs) && is_nil (lay_vardefs vds) && is_query op) eqn:C.
    + (* printed in the short form *)
      apply andb_true_iff in C. destruct C as [C C4]. apply andb_true_iff in C. destruct C as [C C3]. apply andb_true_iff in C. destruct C as [C1 C2].
      rewrite lay_dirs_nil in C2. rewrite lay_vardefs_nil in C3. apply is_nil_true in C2. apply is_nil_true in C3. subst dirs vds.
      assert (nm = None) by (destruct nm; [discriminate C1|reflexivity]). subst nm.
      assert (op = Query) by (destruct op; try discriminate C4; reflexivity). subst op.
      split; [apply P0_P1; exact Ps|].
      intros ts Hts. destruct (Rs ts Hts) as (ss' & Ds' & Es & Ls).
      exists (mkopdef Query None [] [] ss' (span ts)). split; [apply DO_short; exact Ds'|]. split.
      * unfold g_op. cbn [g_def op_type op_name op_vars op_dirs op_sel op_loc gl gnl map gopt glist g_dirs]. rewrite Es. reflexivity.
      * change (lay_op (mkopdef Query None [] [] ss' (span ts))) with (lay_selset ss'). exact Ls.
    + split.
      * apply ljoin_P1; [reflexivity|]. repeat constructor; try assumption.
        -- apply P1_wordy_last. apply optype_name_ok.
        -- apply P0_P1; exact Ps.
      * intros ts Hts. rewrite ltoks_ljoin in Hts. cbn [flat_map] in Hts. rewrite app_nil_r, ltoks_app in Hts. cbn [ltoks tokval app] in Hts.
        apply map_eq_cons in Hts. destruct Hts as (k' & tl & -> & Sk & Hts). apply sig_inv in Sk. destruct Sk as [Kk' Vk'].
        rewrite <- app_assoc in Hts.
        apply map_eq_app in Hts. destruct Hts as (tn & t2 & -> & Htn & Ht2).
        apply map_eq_app in Ht2. destruct Ht2 as (tv & t3 & -> & Htv & Ht3).
        apply map_eq_app in Ht3. destruct Ht3 as (td & tsel & -> & Htd & Htsel).
        destruct (Rn tn Htn) as (nm' & Dn' & En & Ln). destruct (Rv tv Htv) as (vds' & Dv' & Ev & Lv).
        destruct (Rd td Htd) as (dirs' & Dd' & Ed & Ld). destruct (Rs tsel Htsel) as (ss' & Ds' & Es & Ls).
        exists (mkopdef op nm' vds' dirs' ss' (span (k' :: tn ++ tv ++ td ++ tsel))). split.
        { apply DO_full; try assumption. rewrite Vk'. apply optype_of_name. }
        split.
        { unfold g_op. cbn [g_def op_type op_name op_vars op_dirs op_sel op_loc gl gnl map glist g_dirs]. rewrite En, Ev, Ed, Es. reflexivity. }
        { rewrite lay_op_eq. cbn [op_type op_name op_vars op_dirs op_sel]. rewrite Ln, Lv, Ld, Ls, C. reflexivity. }
Qed.

(* ---- fragment definitions ---- *)
Lemma lay_frag_eq : forall f, lay_frag f =
  PTok NAME (kw "fragment") :: PSep [32] :: PTok NAME (nval (fr_name f)) :: PSep [32] :: PTok NAME (kw "on") :: PSep [32] ::
  PTok NAME (nval (nd_name (fr_cond f))) :: PSep [32] :: lwrap [] (lay_dirs (fr_dirs f)) sp ++ lay_selset (fr_sel f).
Proof. reflexivity. Qed.

Lemma frag_rt : forall p f, DFragment p f -> toks_wf p ->
  P1 (lay_frag f) /\
  forall ts, map sig ts = ltoks (lay_frag f) -> exists f', DFragment ts f' /\ gnl (g_def (DFrag f')) = gnl (g_def (DFrag f)) /\ lay_frag f' = lay_frag f.
Proof.
  intros p f D W. destruct D as [fk pn n o t pd dirs ps ss Kf Vf Dn Ko Vo Kt Dd Ds].
  destruct Dn as [tn Ktn Vtn].
  apply toks_wf_cons in W. destruct W as [_ W]. apply toks_wf_cons in W. destruct W as [Wtn W].
  apply toks_wf_cons in W. destruct W as [_ W]. apply toks_wf_cons in W. destruct W as [Wt W].
  apply toks_wf_app in W. destruct W as [Wd Ws].
  destruct (dirs_rt _ _ Dd Wd) as (Pd & Sd & Rd). destruct (selset_rt _ ps ss (le_n _) Ds Ws) as [Ps Rs].
  rewrite lay_frag_eq. cbn [fr_name fr_cond fr_dirs fr_sel]. unfold tok_named, tok_name. cbn [nd_name nval]. split.
  - apply P1_wordy; [reflexivity| |apply SFs_SF; apply SFs_sep; reflexivity]. apply P1_sep; [reflexivity|].
    apply P1_wordy; [apply name_tok_wf; assumption| |apply SFs_SF; apply SFs_sep; reflexivity]. apply P1_sep; [reflexivity|].
    apply P1_wordy; [reflexivity| |apply SFs_SF; apply SFs_sep; reflexivity]. apply P1_sep; [reflexivity|].
    apply P1_wordy; [apply name_tok_wf; assumption| |apply SFs_SF; apply SFs_sep; reflexivity]. apply P1_sep; [reflexivity|].
    apply P1_app1; [|apply P0_P1; exact Ps|apply SFs_SF; apply lay_selset_SFs].
    apply lwrap_P1; [apply P0_nil|exact Pd|apply P0_sep; [reflexivity|apply P0_nil]|apply SFs_sep; reflexivity].
  - intros ts Hts. cbn [ltoks tokval] in Hts. rewrite ltoks_app in Hts.
    rewrite (ltoks_lwrap_sep [] (lay_dirs dirs) sp eq_refl eq_refl) in Hts.
    apply map_eq_cons in Hts. destruct Hts as (f' & tl & -> & Sf & Hts). apply sig_inv in Sf. destruct Sf as [Kf' Vf'].
    apply map_eq_cons in Hts. destruct Hts as (n' & tl2 & -> & Sn & Hts). apply sig_inv in Sn. destruct Sn as [Kn' Vn'].
    apply map_eq_cons in Hts. destruct Hts as (o' & tl3 & -> & So & Hts). apply sig_inv in So. destruct So as [Ko' Vo'].
    apply map_eq_cons in Hts. destruct Hts as (t' & tl4 & -> & St & Hts). apply sig_inv in St. destruct St as [Kt' Vt'].
    apply map_eq_app in Hts. destruct Hts as (td & tsel & -> & Htd & Htsel).
    destruct (Rd td Htd) as (dirs' & Dd' & Ed & Ld). destruct (Rs tsel Htsel) as (ss' & Ds' & Es & Ls).
    exists (mkfragdef (tok_name n') (tok_named t') dirs' ss' (span (f' :: [n'] ++ o' :: t' :: td ++ tsel))). split.
    { apply (DF_intro f' [n'] (tok_name n') o' t' td dirs' tsel ss'); try assumption. constructor; [exact Kn'|rewrite Vn'; exact Vtn]. }
    split.
    { cbn [g_def fr_name fr_cond fr_dirs fr_sel fr_loc gl gnl map g_name g_named g_dirs glist]. unfold tok_named, tok_name.
      cbn [nd_name nd_loc nval nloc]. rewrite Vn', Vt', Ed, Es. reflexivity. }
    { rewrite lay_frag_eq. cbn [fr_name fr_cond fr_dirs fr_sel]. unfold tok_named, tok_name. cbn [nd_name nval]. rewrite Vn', Vt', Ld, Ls. reflexivity. }
Qed.

(* ---- definitions and documents ---- *)
Lemma gnl_def_exec : forall a b, gnl (g_def a) = gnl (g_def b) -> is_exec a = is_exec b.
Proof.
  intros a b H. destruct a, b; cbn [g_def g_objdef gl gnl is_exec] in *; try discriminate H; reflexivity.
Qed.

Lemma def_rt : forall p d, DDefinition p d -> is_exec d = true -> toks_wf p ->
  P1 (lay_def d) /\ Rb DDefinition lay_def g_def d.
Proof.
  intros p d D E W. destruct D as [p o Do|p f Df|p d Dt].
  - destruct (op_rt _ _ Do W) as [Po Ro]. split; [exact Po|]. intros ts Hts. destruct (Ro ts Hts) as (o' & Do' & Eo & Lo).
    exists (DOp o'). split; [apply DD_op; exact Do'|]. split; [exact Eo|exact Lo].
  - destruct (frag_rt _ _ Df W) as [Pf Rf]. split; [exact Pf|]. intros ts Hts. destruct (Rf ts Hts) as (f' & Df' & Ef & Lf).
    exists (DFrag f'). split; [apply DD_frag; exact Df'|]. split; [exact Ef|exact Lf].
  - rewrite (typesystem_not_exec _ _ Dt) in E. discriminate E.
Qed.

Definition erase_loc (d : document) : gt := gnl (g_doc d).

Lemma map_gnl_exec : forall l' l, map gnl (map g_def l') = map gnl (map g_def l) -> forallb is_exec l' = forallb is_exec l.
Proof.
  induction l' as [|a l' IH]; intros [|b l] H; try discriminate H; [reflexivity|]. cbn [map] in H. inversion H.
  cbn [forallb]. rewrite (gnl_def_exec _ _ H1), (IH l H2). reflexivity.
Qed.

Theorem doc_rt : forall ts d, Derives ts d -> exec_only d = true -> toks_wf ts ->
  layout_wfb (lay_doc d) = true /\
  forall tx e, map sig tx = ltoks (lay_doc d) -> tk e = EOF ->
    exists d', Derives (tx ++ [e]) d' /\ erase_loc d' = erase_loc d /\ lay_doc d' = lay_doc d /\ exec_only d' = true.
Proof.
  intros ts d D E W. destruct D as [p defs e0 Ds Hne Ke]. unfold exec_only in E. cbn [doc_defs] in E.
  apply toks_wf_app in W. destruct W as [W _].
  assert (X : Forall (fun a => P1 (lay_def a) /\ Rb DDefinition lay_def g_def a) defs).
  { pose proof (star_elems _ _ _ Ds W) as X. rewrite forallb_forall in E. apply Forall_forall. intros a Ha.
    rewrite Forall_forall in X. destruct (X a Ha) as (q & Dq & _ & Wq). apply (def_rt q a Dq (E a Ha) Wq). }
  split.
  - unfold lay_doc. cbn [doc_defs].
    assert (P : P0 (ljoin (map lay_def defs) [10; 10] ++ [PSep [10]])).
    { apply P0_app1; [|apply P0_sep; [reflexivity|apply P0_nil]|apply SFs_sep; reflexivity].
      apply ljoin_P1; [reflexivity|]. rewrite Forall_map. eapply Forall_impl; [|exact X]. intros a [Ha _]. exact Ha. }
    specialize (P [] eq_refl). rewrite app_nil_r in P. exact P.
  - intros tx e Htx Ke'. unfold lay_doc in Htx. cbn [doc_defs] in Htx. rewrite ltoks_app, ltoks_ljoin in Htx. cbn [ltoks] in Htx.
    rewrite app_nil_r in Htx.
    destruct (star_reloc DDefinition lay_def g_def defs ltac:(eapply Forall_impl; [|exact X]; intros a [_ Ha]; exact Ha) tx Htx)
      as (defs' & D' & E' & L').
    exists (mkdoc defs' (span (tx ++ [e]))). split; [|split; [|split]].
    + constructor; [exact D'| |exact Ke']. intro Z. subst defs'. destruct defs; [contradiction Hne; reflexivity|discriminate L'].
    + unfold erase_loc. cbn [g_doc doc_defs doc_loc gl gnl]. rewrite E'. reflexivity.
    + unfold lay_doc. cbn [doc_defs]. rewrite L'. reflexivity.
    + unfold exec_only. cbn [doc_defs]. rewrite (map_gnl_exec _ _ E'). exact E.
Qed.

(* print, lex, parse: an executable document whose tokens carry well-formed lexemes *)
Theorem roundtrip_exec_tokens : forall ts d, parse_tokens ts = Ok d -> exec_only d = true -> toks_wf ts ->
  exists d', parse (print_doc d) = Ok (d', false) /\ erase_loc d' = erase_loc d /\ print_doc d' = print_doc d.
Proof.
  intros ts d Hp E W. apply parse_tokens_sound in Hp.
  destruct (doc_rt ts d Hp E W) as [Lw R].
  pose proof (lex_flat_layout (lay_doc d) Lw) as Hl.
  destruct (R (ptoks 0 (lay_doc d)) (eof_tok (nlen (flat (lay_doc d)))) (sig_ptoks _ _) eq_refl) as (d' & D' & Ed & Ld & Ex).
  exists d'. split; [|split; [exact Ed|unfold print_doc; rewrite Ld; reflexivity]].
  unfold parse, print_doc. rewrite Hl. rewrite (parse_tokens_complete_exec _ _ D' Ex). reflexivity.
Qed.
