(* C11 -- appending types afterwards and supplying them up front agree on the verdict:
   NewSchema(config + types) succeeds exactly when NewSchema(config) followed by AppendType of
   the types, one by one, succeeds (and then the two schemas are the same: TypesAppend.v).

   The type map of the up-front construction is the map of the step-by-step construction
   (the reducer is folded over the same list); the step-by-step construction additionally runs
   the interface implementation check after every step.  Those intermediate checks cannot fail
   when the final one passes: an intermediate map is a closed part of the final map, the check
   only looks at the objects of the map, their interfaces and the types of their fields -- all
   inside the closed part -- and the possible-type relation between types of the part is the
   declared one in both. *)
From Coq Require Import List NArith Bool Lia.
From GQL Require Import Base.Bytes Types.Schema Types.Consistent Proofs.TypesReduce Proofs.TypesNames
  Proofs.TypesClosed Proofs.TypesView Proofs.TypesImpl Proofs.TypesPossible Proofs.TypesConsistent
  Proofs.TypesAppend Proofs.TypesFuel.
Import ListNotations.
Open Scope N_scope.

(* ---------- the subtype check only asks the possible-type relation about the two named types ---------- *)
Lemma subtype_weaken (p1 p2 : N -> N -> bool) : forall t1 t2, subtype p1 t1 t2 ->
  (forall a o, get_named t2 = Some a -> get_named t1 = Some o -> p1 a o = true -> p2 a o = true) ->
  subtype p2 t1 t2.
Proof.
  induction 1 as [t|a b _ IH|a b Hn _ IH|a b _ IH|o a Hp]; intro Hw.
  - apply st_refl.
  - apply st_nonnull. apply IH. exact Hw.
  - apply st_nonnull_l; [exact Hn|]. apply IH. exact Hw.
  - apply st_list. apply IH. exact Hw.
  - apply st_possible. exact (Hw a o eq_refl eq_refl Hp).
Qed.

Lemma find_field_in : forall n fs f, find_field n fs = Some f -> In f fs.
Proof.
  induction fs as [|g r IH]; intros f H; simpl in H; [discriminate|].
  destruct (bytes_eqb (vf_name g) n); [inversion H; left; reflexivity|right; exact (IH f H)].
Qed.

Lemma field_implements_weaken (p1 p2 : N -> N -> bool) ofs jf :
  (forall f a o, In f ofs -> get_named (vf_type jf) = Some a -> get_named (vf_type f) = Some o -> p1 a o = true -> p2 a o = true) ->
  field_implements p1 ofs jf = true -> field_implements p2 ofs jf = true.
Proof.
  intros Hw H. unfold field_implements in *. destruct (find_field (vf_name jf) ofs) as [f|] eqn:Ef; [|discriminate].
  apply andb_true_iff in H. destruct H as [H H3]. apply andb_true_iff in H. destruct H as [H1 H2].
  rewrite H2, H3, !andb_true_r. apply sub_reflect. apply sub_reflect in H1.
  apply (subtype_weaken p1 p2 _ _ H1). intros a o Ha Ho. exact (Hw f a o (find_field_in _ _ _ Ef) Ha Ho).
Qed.

(* ---------- a closed part of a good map: same possible types inside the part ---------- *)
Section Part.
  Variables (defs : list (N * tdef)) (tmA tmB : tmap) (q m sb : option N).
  Let SA := Schema defs tmA q m sb.
  Let SB := Schema defs tmB q m sb.
  Hypothesis GA : tm_good defs tmA.
  Hypothesis GB : tm_good defs tmB.
  Hypothesis CA : closed defs tmA.
  Hypothesis CB : closed defs tmB.
  Hypothesis Hincl : incl (ids tmA) (ids tmB).

  Lemma possible_part a o : In a (ids tmA) -> In o (ids tmA) ->
    possible (view_types defs tmA) a o = possible (view_types defs tmB) a o.
  Proof.
    intros Ha Ho. unfold possible.
    destruct (vfind_view defs tmA a Ha) as [n1 E1]. destruct (vfind_view defs tmB a (Hincl a Ha)) as [n2 E2].
    destruct (vfind_view defs tmA o Ho) as [n3 E3]. destruct (vfind_view defs tmB o (Hincl o Ho)) as [n4 E4].
    rewrite E1, E2, E3, E4. reflexivity.
  Qed.

  Lemma abstract_possible_part a o : In a (ids tmA) -> In o (ids tmA) ->
    abstract_possible SB a o = true -> abstract_possible SA a o = true.
  Proof.
    intros Ha Ho H.
    apply (abstract_possible_spec SA GA CA a o Ha Ho).
    change (s_defs SA) with defs. change (s_tm SA) with tmA. rewrite (possible_part a o Ha Ho).
    exact (proj1 (abstract_possible_spec SB GB CB a o (Hincl a Ha) (Hincl o Ho)) H).
  Qed.

  Lemma check_part : check_implementations SB = true -> check_implementations SA = true.
  Proof.
    intro H. unfold check_implementations in *. rewrite forallb_forall in *. intros o Ho.
    apply (in_objects SA) in Ho. destruct Ho as [HoA Hk].
    assert (HoB : In o (objects_of SB)) by (apply (in_objects SB); split; [exact (Hincl o HoA)|exact Hk]).
    specialize (H o HoB). change (s_defs SB) with defs in H. change (s_defs SA) with defs.
    rewrite forallb_forall in *. intros i Hi. specialize (H i Hi).
    destruct (interface_in_map SA CA o i HoA Hi) as [HiA _].
    unfold assert_object_implements_interface in *. change (s_defs SB) with defs in H. change (s_defs SA) with defs.
    rewrite forallb_forall in *. intros jf Hjf. specialize (H jf Hjf).
    apply (field_implements_weaken (abstract_possible SB) (abstract_possible SA) _ _); [|exact H].
    intros f a o' Hf Hga Hgo Hp.
    apply abstract_possible_part; [| |exact Hp].
    - exact (field_leaf_in_map SA CA i jf a HiA Hjf Hga).
    - exact (field_leaf_in_map SA CA o f o' HoA Hf Hgo).
  Qed.
End Part.

(* ---------- the step-by-step construction against one fold of the reducer ---------- *)
Definition mk (S : schema) (tm : tmap) : schema := Schema (s_defs S) tm (s_query S) (s_mutation S) (s_subscription S).

(* AppendType one by one succeeds exactly when the reducer folded over the types succeeds and the
   implementation check passes on every intermediate map *)
Fixpoint steps_ok (fuel : nat) (S : schema) (ts : list tref) : Prop :=
  match ts with
  | [] => True
  | t :: r => exists tm, add_type (s_defs S) fuel (s_tm S) t = OK tm /\ check_implementations (mk S tm) = true /\ steps_ok fuel (mk S tm) r
  end.

Lemma append_types_steps fuel : forall ts S, (exists S', append_types_fuel fuel S ts = OK S') <-> steps_ok fuel S ts.
Proof.
  induction ts as [|t r IH]; intro S; simpl.
  - split; [trivial|intros _; exists S; reflexivity].
  - unfold append_type_fuel. destruct (add_type (s_defs S) fuel (s_tm S) t) as [tm| |] eqn:Ea.
    + fold (mk S tm). destruct (check_implementations (mk S tm)) eqn:Ec.
      * rewrite IH. split.
        -- intro H. exists tm. repeat split; auto.
        -- intros (tm' & E & _ & H). inversion E; subst. exact H.
      * split; [intros [S' H]; discriminate|intros (tm' & E & C & _); inversion E; subst; rewrite Ec in C; discriminate].
    + split; [intros [S' H]; discriminate|intros (tm' & E & _); discriminate].
    + split; [intros [S' H]; discriminate|intros (tm' & E & _); discriminate].
Qed.

Lemma steps_fold fuel : forall ts S, steps_ok fuel S ts ->
  exists tm, fold_res (add_type (s_defs S) fuel) ts (s_tm S) = OK tm /\ (ts <> [] -> check_implementations (mk S tm) = true).
Proof.
  induction ts as [|t r IH]; intros S H; simpl in *.
  - exists (s_tm S). split; [reflexivity|intro X; contradiction X; reflexivity].
  - destruct H as (tm & Ea & Ec & Hr). rewrite Ea. destruct (IH (mk S tm) Hr) as (tm' & Ef & Hc). simpl in Ef.
    exists tm'. split; [exact Ef|]. intros _. destruct r as [|t' r'].
    + simpl in Ef. inversion Ef; subst. exact Ec.
    + exact (Hc ltac:(discriminate)).
Qed.

Lemma fold_steps fuel : forall ts S tm, tm_good (s_defs S) (s_tm S) -> closed (s_defs S) (s_tm S) ->
  fold_res (add_type (s_defs S) fuel) ts (s_tm S) = OK tm ->
  tm_good (s_defs S) tm -> closed (s_defs S) tm -> check_implementations (mk S tm) = true ->
  steps_ok fuel S ts.
Proof.
  induction ts as [|t r IH]; intros S tm G C Hf Gt Ct Hc; simpl in *; [trivial|].
  destruct (add_type (s_defs S) fuel (s_tm S) t) as [tm1| |] eqn:Ea; try discriminate.
  pose proof (add_type_inv (s_defs S) _ (tm_good_insert _) fuel _ _ _ G Ea) as G1.
  destruct (add_type_post _ _ _ _ _ Ea) as [P1 _]. pose proof (post_closed _ _ _ C P1) as C1.
  destruct (add_types_post _ _ _ _ _ Hf) as [[I2 _] _].
  exists tm1. split; [reflexivity|]. split.
  - exact (check_part (s_defs S) tm1 tm (s_query S) (s_mutation S) (s_subscription S) G1 Gt C1 Ct I2 Hc).
  - apply (IH (mk S tm1) tm); assumption.
Qed.

(* ---------- the verdicts agree ---------- *)
Definition dir_bad (d : dircfg) : bool := match d with DirOk => false | _ => true end.

Lemma new_schema_fuel_dirs fuel c S : new_schema_fuel fuel c = OK S -> existsb dir_bad (c_dirs c) = false.
Proof.
  intro H. unfold new_schema_fuel in H. destruct (c_query c); [|discriminate].
  destruct (root_err _ _ || root_err _ _ || root_err _ _); [discriminate|].
  fold dir_bad in H. destruct (existsb dir_bad (c_dirs c)); [discriminate|reflexivity].
Qed.

Lemma new_schema_fuel_intro fuel c tm :
  (exists q, c_query c = Some q) ->
  root_err (c_defs c) (c_query c) = false -> root_err (c_defs c) (c_mutation c) = false ->
  root_err (c_defs c) (c_subscription c) = false -> existsb dir_bad (c_dirs c) = false ->
  fold_res (add_type (c_defs c) fuel) (initial_types c) [] = OK tm ->
  check_implementations (Schema (c_defs c) tm (c_query c) (c_mutation c) (c_subscription c)) = true ->
  new_schema_fuel fuel c = OK (Schema (c_defs c) tm (c_query c) (c_mutation c) (c_subscription c)).
Proof.
  intros [q Eq] R1 R2 R3 Hd Hf Hc. unfold new_schema_fuel. fold dir_bad. rewrite R1, R2, R3, Hd, Hf, Hc. cbn [orb].
  rewrite Eq. reflexivity.
Qed.

Theorem append_agrees_fuel : forall fuel c ts,
  (exists S2, new_schema_fuel fuel (with_types c ts) = OK S2) <->
  (exists S0 S1, new_schema_fuel fuel c = OK S0 /\ append_types_fuel fuel S0 ts = OK S1).
Proof.
  intros fuel c ts. split.
  - intros [S2 H2].
    pose proof (new_schema_invariants _ _ _ H2) as (G2 & C2 & I2).
    pose proof (new_schema_fuel_dirs _ _ _ H2) as Hd.
    destruct (new_schema_fuel_tm _ _ _ H2) as (D2 & Q2 & M2 & B2 & F2 & _ & Hq & R1 & R2 & R3).
    simpl in D2, Q2, M2, B2, F2, Hq, R1, R2, R3, Hd. rewrite initial_with_types, fold_res_app in F2.
    destruct (fold_res (add_type (c_defs c) fuel) (initial_types c) []) as [tm0| |] eqn:F0; try discriminate.
    pose proof (add_types_inv (c_defs c) (tm_good (c_defs c)) (tm_good_insert (c_defs c)) fuel _ _ _ (tm_good_nil _) F0) as G0.
    destruct (add_types_post _ _ _ _ _ F0) as [P0 _]. pose proof (post_closed _ _ _ (closed_nil _) P0) as C0.
    destruct (add_types_post _ _ _ _ _ F2) as [[I02 _] _].
    rewrite D2 in G2, C2.
    assert (I2' : check_implementations (Schema (c_defs c) (s_tm S2) (c_query c) (c_mutation c) (c_subscription c)) = true).
    { rewrite <- D2, <- Q2, <- M2, <- B2. destruct S2; exact I2. }
    pose proof (check_part (c_defs c) tm0 (s_tm S2) (c_query c) (c_mutation c) (c_subscription c) G0 G2 C0 C2 I02 I2') as I0.
    pose proof (new_schema_fuel_intro fuel c tm0 Hq R1 R2 R3 Hd F0 I0) as H0.
    eexists. 
    assert (Hs : steps_ok fuel (Schema (c_defs c) tm0 (c_query c) (c_mutation c) (c_subscription c)) ts)
      by (apply (fold_steps fuel ts _ (s_tm S2)); assumption).
    destruct (proj2 (append_types_steps fuel ts _) Hs) as [S1 H1]. exists S1. split; [exact H0|exact H1].
  - intros (S0 & S1 & H0 & H1).
    pose proof (new_schema_fuel_dirs _ _ _ H0) as Hd.
    destruct (new_schema_fuel_tm _ _ _ H0) as (D0 & Q0 & M0 & B0 & F0 & I0 & Hq & R1 & R2 & R3).
    pose proof (proj1 (append_types_steps fuel ts S0) (ex_intro _ S1 H1)) as Hs.
    destruct (steps_fold fuel ts S0 Hs) as (tm & Ef & Hc). rewrite D0 in Ef.
    assert (Ic : check_implementations (Schema (c_defs c) tm (c_query c) (c_mutation c) (c_subscription c)) = true).
    { destruct ts as [|t r].
      - simpl in Ef. inversion Ef; subst tm. rewrite <- D0, <- Q0, <- M0, <- B0. destruct S0; exact I0.
      - specialize (Hc ltac:(discriminate)). unfold mk in Hc. rewrite D0, Q0, M0, B0 in Hc. exact Hc. }
    eexists. apply (new_schema_fuel_intro fuel (with_types c ts) tm); simpl; auto.
    rewrite initial_with_types, fold_res_app, F0. exact Ef.
Qed.
