(* C20, "its source is the value its parent resolved to (the individual element under a list,
   the request's root value at the top level)": for EVERY resolver invocation of a request --
   also those inside subtrees that are nulled later -- the source is the root value when the
   field is a top-level one, and otherwise the value obtained from the (forced) outcome of the
   resolver of the enclosing field by descending through the list indices that separate the
   two in the response path.  All resolver outcomes, deferred values at any depth, any fuel. *)
From Coq Require Import List ZArith NArith String Bool Lia.
From GQL Require Import Exec.Syntax Exec.Coerce Exec.Exec Exec.Request.
Import ListNotations.
Open Scope string_scope.
Open Scope list_scope.

Fixpoint descend (v : rv) (idxs : list N) : option rv :=
  match idxs with
  | [] => Some v
  | i :: r =>
    match v with
    | RList l => match nth_error l (N.to_nat i) with Some x => descend x r | None => None end
    | _ => None
    end
  end.

Lemma descend_snoc : forall idxs v0 l i x,
  descend v0 idxs = Some (RList l) -> nth_error l (N.to_nat i) = Some x ->
  descend v0 (idxs ++ [i]) = Some x.
Proof.
  induction idxs as [|j idxs IH]; intros v0 l i x H Hx; cbn in *.
  - inversion H; subst. rewrite Hx. reflexivity.
  - destruct v0; try discriminate. destruct (nth_error l0 (N.to_nat j)) as [y|]; [|discriminate].
    eapply IH; eassumption.
Qed.

(* what the resolver of the field at response path fp handed to value completion *)
Definition field_value (E : env) (fp : path) : option rv :=
  match en_or E fp with
  | Some o => match fst (force o) with OVal v => Some v | _ => None end
  | None => Some RNull
  end.

Section Src.
Variable E : env.
Variable root : rv.

(* src is the object value whose fields are resolved at path p *)
Definition obj_at (p : path) (src : rv) : Prop :=
  (p = [] /\ src = root) \/
  exists q k idxs v0, p = (q ++ [PKey k]) ++ map PIdx idxs /\
                      field_value E (q ++ [PKey k]) = Some v0 /\ descend v0 idxs = Some src.

Definition src_ok (c : call) : Prop :=
  exists p k, c_path c = p ++ [PKey k] /\ obj_at p (c_source c).

(* v is the value being completed at path p for the field at fpath *)
Definition val_at (fpath p : path) (v : rv) : Prop :=
  exists q k idxs v0, fpath = q ++ [PKey k] /\ p = fpath ++ map PIdx idxs /\
                      field_value E fpath = Some v0 /\ descend v0 idxs = Some v.

(* deferred values remember the outcome of their own resolver *)
Inductive TL : presp -> Prop :=
| TL_null : TL QNull
| TL_leaf v : TL (QLeaf v)
| TL_list l : Forall TL l -> TL (QList l)
| TL_obj l : Forall (fun kv => TL (snd kv)) l -> TL (QObj l)
| TL_thunk t nodes occs p o :
    (exists q k, p = q ++ [PKey k]) -> (forall v, o = OVal v -> field_value E p = Some v) ->
    TL (QThunk t nodes occs p o).

Definition newc (s s' : st) : Prop := exists cs, st_calls s' = st_calls s ++ cs /\ Forall src_ok cs.

Lemma newc_refl : forall s, newc s s.
Proof. intros s. exists []. split; [rewrite app_nil_r; reflexivity|constructor]. Qed.
Lemma newc_trans : forall s1 s2 s3, newc s1 s2 -> newc s2 s3 -> newc s1 s3.
Proof.
  intros s1 s2 s3 [c1 [E1 F1]] [c2 [E2 F2]]. exists (c1 ++ c2). split.
  - rewrite E2, E1, app_assoc. reflexivity.
  - apply Forall_app. split; assumption.
Qed.
Lemma newc_eq : forall s s', st_calls s' = st_calls s -> newc s s'.
Proof. intros s s' H. exists []. split; [rewrite app_nil_r; exact H|constructor]. Qed.

Definition nres {A : Type} (T : A -> Prop) (s : st) (r : xres A) : Prop :=
  match r with
  | XOk y s' => newc s s' /\ T y
  | XRaise _ s' => newc s s'
  | XFuel => True
  end.

Lemma nres_pre : forall A (T : A -> Prop) s0 s r, newc s0 s -> nres T s r -> nres T s0 r.
Proof.
  intros A T s0 s [y s'|e s'|] H Hr; cbn in *; auto.
  - destruct Hr as [H1 H2]. split; [eapply newc_trans; eassumption|exact H2].
  - eapply newc_trans; eassumption.
Qed.

Lemma nres_catch : forall s t r, nres TL s r -> nres TL s (catch_at t r).
Proof.
  intros s t [y s'|e s'|] H; cbn in *; auto.
  destruct (is_nonnull t); cbn; [exact H|]. split; [|constructor].
  eapply newc_trans; [exact H|apply newc_eq; reflexivity].
Qed.

Lemma items_loop_src : forall cmp (l0 : list rv),
  (forall i x s, nth_error l0 (N.to_nat i) = Some x -> nres TL s (cmp i x s)) ->
  forall l i s, (forall j x, nth_error l j = Some x -> nth_error l0 (N.to_nat i + j) = Some x) ->
    nres (Forall TL) s (items_loop cmp l i s).
Proof.
  intros cmp l0 Hc. induction l as [|x l IH]; intros i s Hl; cbn [items_loop].
  - cbn. split; [apply newc_refl|constructor].
  - assert (Hx : nth_error l0 (N.to_nat i) = Some x).
    { specialize (Hl 0 x eq_refl). rewrite Nat.add_0_r in Hl. exact Hl. }
    specialize (Hc i x s Hx). destruct (cmp i x s) as [y s'|e s'|]; cbn in Hc |- *; auto.
    destruct Hc as [H1 H2].
    assert (Hl' : forall j x0, nth_error l j = Some x0 -> nth_error l0 (N.to_nat (i + 1) + j) = Some x0).
    { intros j x0 Hj. specialize (Hl (S j) x0 Hj).
      replace (N.to_nat (i + 1) + j) with (N.to_nat i + S j) by lia. exact Hl. }
    specialize (IH (i + 1)%N s' Hl').
    destruct (items_loop cmp l (i + 1)%N s') as [ys s''|e s''|]; cbn in IH |- *; auto.
    + destruct IH as [I1 I2]. split; [eapply newc_trans; eassumption|constructor; assumption].
    + eapply newc_trans; eassumption.
Qed.

Lemma dethunk_list_src : forall f,
  (forall x s, TL x -> nres TL s (f x s)) ->
  forall l s, Forall TL l -> nres (Forall TL) s (dethunk_list f l s).
Proof.
  intros f Hf. induction l as [|x l IH]; intros s Hl; cbn [dethunk_list].
  - cbn. split; [apply newc_refl|constructor].
  - inversion Hl as [|? ? Hx Hr]; subst. specialize (Hf x s Hx).
    destruct (f x s) as [y s'|e s'|]; cbn in Hf |- *; auto.
    destruct Hf as [H1 H2]. specialize (IH s' Hr).
    destruct (dethunk_list f l s') as [ys s''|e s''|]; cbn in IH |- *; auto.
    + destruct IH as [I1 I2]. split; [eapply newc_trans; eassumption|constructor; assumption].
    + eapply newc_trans; eassumption.
Qed.

Definition TLF (l : list (name * presp)) : Prop := Forall (fun kv => TL (snd kv)) l.

Lemma dethunk_fields_src : forall f,
  (forall x s, TL x -> nres TL s (f x s)) ->
  forall l s, TLF l -> nres TLF s (dethunk_fields f l s).
Proof.
  intros f Hf. induction l as [|[k x] l IH]; intros s Hl; cbn [dethunk_fields].
  - cbn. split; [apply newc_refl|constructor].
  - inversion Hl as [|? ? Hx Hr]; subst. cbn [snd] in Hx. specialize (Hf x s Hx).
    destruct (f x s) as [y s'|e s'|]; cbn in Hf |- *; auto.
    destruct Hf as [H1 H2]. specialize (IH s' Hr).
    destruct (dethunk_fields f l s') as [ys s''|e s''|]; cbn in IH |- *; auto.
    + destruct IH as [I1 I2]. split; [eapply newc_trans; eassumption|constructor; assumption].
    + eapply newc_trans; eassumption.
Qed.

Definition TLO (y : option presp) : Prop := match y with Some q => TL q | None => True end.

Lemma exec_field_src : forall fuel' cmp dth obj src k occs p s,
  (forall t nodes occs0 fpath p0 v s0, val_at fpath p0 v -> nres TL s0 (cmp t nodes occs0 fpath p0 v s0)) ->
  (forall q s0, TL q -> nres TL s0 (dth q s0)) ->
  obj_at p src ->
  nres TLO s (exec_field fuel' cmp dth E obj src k occs p s).
Proof.
  intros fuel' cmp dth obj src k occs p s IHc IHd Hobj. unfold exec_field. cbv zeta.
  destruct (String.eqb _ "__typename"); [cbn; split; [apply newc_refl|constructor]|].
  destruct (find_field _ (object_fields (en_S E) obj)) as [fd|]; [|cbn; split; [apply newc_refl|exact I]].
  destruct (get_argument_values fuel' (en_S E) (f_args fd) _ (Some (en_vars E))) as [args|]; [|exact I].
  set (fp := p ++ [PKey k]).
  match goal with |- context [add_call ?c0 s] => set (c := c0) end.
  set (s1 := add_call c s).
  assert (Hs1 : newc s s1).
  { exists [c]. split; [reflexivity|]. constructor; [|constructor].
    exists p, k. split; [reflexivity|exact Hobj]. }
  assert (Hfv : forall v, fst (match en_or E fp with Some o => force o | None => (OVal RNull, false) end) = OVal v ->
                          field_value E fp = Some v).
  { unfold field_value. destruct (en_or E fp); cbn; intros v Hv; [rewrite Hv; reflexivity|inversion Hv; reflexivity]. }
  destruct (match en_or E fp with Some o => force o | None => (OVal RNull, false) end) as [o thunked].
  cbn [fst] in Hfv.
  set (s2 := match en_or E fp with Some _ => s1 | None => add_missing fp s1 end).
  assert (Hs2 : newc s s2).
  { eapply newc_trans; [exact Hs1|]. apply newc_eq. unfold s2. destruct (en_or E fp); reflexivity. }
  match goal with |- nres _ _ (match catch_at ?t ?r1 with _ => _ end) => assert (Hr1 : nres TL s r1) end.
  { destruct (thunked && negb (is_nonnull (f_type fd))).
    - cbn. split; [exact Hs2|]. constructor; [exists p, k; reflexivity|exact Hfv].
    - match goal with |- nres _ _ (match ?c0 with _ => _ end) => assert (Hc0 : nres TL s c0) end.
      { destruct o; try exact Hs2. eapply nres_pre; [exact Hs2|]. apply IHc.
        exists p, k, [], v. split; [reflexivity|]. split; [cbn; rewrite app_nil_r; reflexivity|].
        split; [apply Hfv; reflexivity|reflexivity]. }
      match goal with |- nres _ _ (match ?c0 with _ => _ end) => destruct c0 as [q0 s0|e0 s0|] end; cbn in Hc0 |- *; auto.
      destruct thunked; cbn; [|exact Hc0].
      eapply newc_trans; [exact Hc0|apply newc_eq; reflexivity]. }
  pose proof (nres_catch _ (f_type fd) _ Hr1) as Hcatch.
  match goal with |- nres _ _ (match ?cc with _ => _ end) => destruct cc as [y s'|e s'|] end; cbn in Hcatch |- *; auto.
  destruct Hcatch as [H1 H2].
  destruct (en_serial E && match p with [] => true | _ :: _ => false end).
  - specialize (IHd y s' H2).
    destruct (dth y s') as [y' s''|e s''|]; cbn in IHd |- *; auto.
    + destruct IHd as [D1 D2]. split; [eapply newc_trans; eassumption|exact D2].
    + eapply newc_trans; eassumption.
  - cbn. split; assumption.
Qed.

Definition PS (fuel : nat) : Prop :=
  (forall t nodes occs fpath p v s, val_at fpath p v -> nres TL s (complete fuel E t nodes occs fpath p v s)) /\
  (forall obj occs p src s, obj_at p src -> nres TL s (exec_object fuel E obj occs p src s)) /\
  (forall obj src g p s, obj_at p src -> nres TLF s (exec_groups fuel E obj src g p s)) /\
  (forall q s, TL q -> nres TL s (dethunk fuel E q s)).

Lemma val_obj : forall fpath p v, val_at fpath p v -> obj_at p v.
Proof.
  intros fpath p v [q [k [idxs [v0 [-> [-> [H1 H2]]]]]]]. right. exists q, k, idxs, v0. auto.
Qed.

Lemma src_inv : forall fuel, PS fuel.
Proof.
  induction fuel as [|fuel [IHc [IHo [IHg IHd]]]].
  - repeat split; intros; exact I.
  - repeat split.
    + (* complete *)
      intros t nodes occs fpath p v s Hv. cbn [complete].
      destruct t as [n|t'|t'].
      * destruct (rv_nullish v); [cbn; split; [apply newc_refl|constructor]|].
        destruct (lookup_type (en_S E) n) as [[k|vals|fs ifs|fs|ms|fs]|]; try (cbn; apply newc_refl).
        -- cbn. split; [apply newc_refl|]. destruct (nullish (serialize_scalar k v)); constructor.
        -- cbn. split; [apply newc_refl|]. destruct (nullish (serialize_enum vals v)); constructor.
        -- apply IHo. eapply val_obj; exact Hv.
        -- destruct (en_tor E v) as [rt|]; [|cbn; apply newc_eq; reflexivity].
           destruct (possible_type (en_S E) n rt); [|cbn; apply newc_eq; reflexivity].
           eapply nres_pre; [|apply IHo; eapply val_obj; exact Hv]. apply newc_eq. reflexivity.
        -- destruct (en_tor E v) as [rt|]; [|cbn; apply newc_eq; reflexivity].
           destruct (possible_type (en_S E) n rt); [|cbn; apply newc_eq; reflexivity].
           eapply nres_pre; [|apply IHo; eapply val_obj; exact Hv]. apply newc_eq. reflexivity.
      * destruct (rv_nullish v); [cbn; split; [apply newc_refl|constructor]|].
        destruct v as [| | | | |l| | | |]; try (cbn; apply newc_refl).
        pose proof (items_loop_src
                      (fun i x s0 => catch_at t' (complete fuel E t' nodes occs fpath (p ++ [PIdx i]) x s0)) l) as HL.
        assert (Hitem : forall i x s1, nth_error l (N.to_nat i) = Some x ->
                  nres TL s1 (catch_at t' (complete fuel E t' nodes occs fpath (p ++ [PIdx i]) x s1))).
        { intros i x s1 Hx. apply nres_catch. apply IHc.
          destruct Hv as [q [k [idxs [v0 [Hf [Hp [H1 H2]]]]]]].
          exists q, k, (idxs ++ [i]), v0. split; [exact Hf|]. split.
          - rewrite Hp, map_app, app_assoc. reflexivity.
          - split; [exact H1|]. eapply descend_snoc; eassumption. }
        specialize (HL Hitem l 0%N s (fun j x Hj => Hj)).
        destruct (items_loop _ l 0%N s) as [ys s'|e s'|]; cbn in HL |- *; auto.
        destruct HL as [H1 H2]. split; [exact H1|constructor; exact H2].
      * specialize (IHc t' nodes occs fpath p v s Hv).
        destruct (complete fuel E t' nodes occs fpath p v s) as [q s'|e s'|]; cbn in IHc |- *; auto.
        destruct q; cbn; try exact IHc. exact (proj1 IHc).
    + (* exec_object *)
      intros obj occs p src s Hobj. cbn [exec_object].
      destruct (collect_all fuel (en_S E) (en_D E) (en_vars E) obj (map oc_sub occs) [] []) as [g|]; [|exact I].
      specialize (IHg obj src g p s Hobj).
      destruct (exec_groups fuel E obj src g p s) as [fs s'|e s'|]; cbn in IHg |- *; auto.
      destruct IHg as [H1 H2]. split; [exact H1|constructor; exact H2].
    + (* exec_groups *)
      intros obj src g p s Hobj. cbn [exec_groups].
      destruct g as [|[k occs] rest]; [cbn; split; [apply newc_refl|constructor]|].
      pose proof (exec_field_src fuel (complete fuel E) (dethunk fuel E) obj src k occs p s
                    (fun t nodes occs0 fpath p0 v s0 H0 => IHc t nodes occs0 fpath p0 v s0 H0)
                    (fun q s0 H0 => IHd q s0 H0) Hobj) as Hf.
      destruct (exec_field fuel (complete fuel E) (dethunk fuel E) E obj src k occs p s) as [y s'|e s'|]; cbn in Hf |- *; auto.
      destruct Hf as [F1 F2].
      specialize (IHg obj src rest p s' Hobj).
      destruct (exec_groups fuel E obj src rest p s') as [ys s''|e s''|]; cbn in IHg |- *; auto.
      * destruct IHg as [G1 G2]. split; [eapply newc_trans; eassumption|].
        destruct y as [y|]; [constructor; assumption|exact G2].
      * eapply newc_trans; eassumption.
    + (* dethunk *)
      intros q s Hq. cbn [dethunk].
      destruct q as [|v|l|l|t nodes occs tp o].
      * cbn. split; [apply newc_refl|constructor].
      * cbn. split; [apply newc_refl|constructor].
      * inversion Hq as [| |? HL0| |]; subst.
        pose proof (dethunk_list_src (dethunk fuel E) (fun x s0 H0 => IHd x s0 H0) l s HL0) as HL.
        destruct (dethunk_list (dethunk fuel E) l s) as [ys s'|e s'|]; cbn in HL |- *; auto.
        destruct HL as [H1 H2]. split; [exact H1|constructor; exact H2].
      * inversion Hq as [| | |? HL0|]; subst.
        pose proof (dethunk_fields_src (dethunk fuel E) (fun x s0 H0 => IHd x s0 H0) l s HL0) as HL.
        destruct (dethunk_fields (dethunk fuel E) l s) as [ys s'|e s'|]; cbn in HL |- *; auto.
        destruct HL as [H1 H2]. split; [exact H1|constructor; exact H2].
      * inversion Hq as [| | | |? ? ? ? ? [q0 [k0 Hp]] Hfv]; subst.
        match goal with |- nres _ _ (match catch_at _ ?r with _ => _ end) => assert (Hr : nres TL s r) end.
        { destruct o; try (cbn; apply newc_refl). apply IHc.
          exists q0, k0, [], v. split; [reflexivity|]. split; [cbn; rewrite app_nil_r; reflexivity|].
          split; [apply Hfv; reflexivity|reflexivity]. }
        pose proof (nres_catch _ t _ Hr) as Hcatch.
        match goal with |- nres _ _ (match ?c with _ => _ end) => destruct c as [y s'|e s'|] end; cbn in Hcatch |- *; auto.
        destruct Hcatch as [H1 H2]. eapply nres_pre; [exact H1|]. apply IHd. exact H2.
Qed.
End Src.

(* ---- the request level ---- *)
Theorem request_sources : forall fuel S D opn inputs root or tor data s,
  request fuel S D opn inputs root or tor = RDone data s ->
  exists op vars,
    get_operation D opn = Some op /\
    get_variable_values fuel S (o_vars op) inputs = Some (inl vars) /\
    let E := {| en_S := S; en_D := D; en_vars := vars; en_or := or; en_tor := tor;
                en_serial := match o_kind op with OpMutation => true | _ => false end |} in
    Forall (src_ok E root) (st_calls s).
Proof.
  intros fuel S D opn inputs root or tor data s H. unfold request in H.
  destruct (get_operation D opn) as [op|] eqn:Eop; [|discriminate].
  destruct (root_type S op) as [rt|] eqn:Ert; [|discriminate].
  destruct (get_variable_values fuel S (o_vars op) inputs) as [[vars|e]|] eqn:Ev; try discriminate.
  destruct (collect fuel S D vars rt (o_sel op) [] []) as [[g v]|] eqn:Ec; [|discriminate].
  exists op, vars. split; [reflexivity|]. split; [first [reflexivity|exact Ev]|]. cbv zeta.
  set (E := {| en_S := S; en_D := D; en_vars := vars; en_or := or; en_tor := tor;
               en_serial := match o_kind op with OpMutation => true | _ => false end |}) in *.
  destruct (src_inv E root fuel) as [_ [_ [IHg IHd]]].
  assert (Hroot : obj_at E root [] root) by (left; split; reflexivity).
  specialize (IHg rt root g [] st0 Hroot).
  assert (Hfin : forall s', newc E root st0 s' -> Forall (src_ok E root) (st_calls s')).
  { intros s' [cs [E1 F1]]. rewrite E1. exact F1. }
  destruct (exec_groups fuel E rt root g [] st0) as [fs s1|e s1|] eqn:Eg; try discriminate.
  - cbn in IHg. destruct IHg as [G1 G2].
    specialize (IHd (QObj fs) s1 (TL_obj E fs G2)).
    destruct (dethunk fuel E (QObj fs) s1) as [q s2|e s2|] eqn:Ed; try discriminate; cbn in IHd.
    + inversion H; subst. apply Hfin. eapply newc_trans; [exact G1|exact (proj1 IHd)].
    + inversion H; subst. apply (Hfin s2). eapply newc_trans; [exact G1|exact IHd].
  - cbn in IHg. inversion H; subst. apply (Hfin s1). exact IHg.
Qed.

(* non-vacuity helper: the decomposition used by src_ok is the one the path itself determines *)
Lemma obj_at_root : forall E root src, obj_at E root [] src -> src = root.
Proof.
  intros E root src [[_ H]|[q [k [idxs [v0 [Hp _]]]]]]; [exact H|].
  exfalso. destruct q; cbn in Hp; discriminate.
Qed.
