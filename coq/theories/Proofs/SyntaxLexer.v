(* Termination of the lexer model: fuel exceeding the length of the source is never exhausted. *)
From Coq Require Import List NArith Bool Lia.
From GQL Require Import Base.Bytes Syntax.Lexer.
Import ListNotations.
Open Scope N_scope.

Lemma rune_at_width : forall s code n, rune_at s = Some (code, n) -> (1 <= N.to_nat n <= length s)%nat.
Proof.
  intros s code n H. destruct s as [|c r]; [discriminate|]. unfold rune_at, rune_error in H.
  destruct r as [|b1 [|b2 [|b3 r]]];
    repeat (match type of H with context [if ?X then _ else _] => destruct X end);
    inversion H; subst; simpl; lia.
Qed.

Lemma dropN_shorter : forall s code n, rune_at s = Some (code, n) -> (length (dropN n s) < length s)%nat.
Proof. intros s code n H. apply rune_at_width in H. unfold dropN. rewrite skipn_length. lia. Qed.

Lemma dropN_le : forall n s, (length (dropN n s) <= length s)%nat.
Proof. intros n s. unfold dropN. rewrite skipn_length. lia. Qed.

Lemma dropN_len1 : forall s, (length (dropN 1 s) = length s - 1)%nat.
Proof. intro s. unfold dropN. apply skipn_length. Qed.
Lemma dropN_len3 : forall s, (length (dropN 3 s) = length s - 3)%nat.
Proof. intro s. unfold dropN. apply skipn_length. Qed.
Lemma dropN_len4 : forall s, (length (dropN 4 s) = length s - 4)%nat.
Proof. intro s. unfold dropN. apply skipn_length. Qed.

(* a decoded character below 128 is the byte itself *)
Lemma rune_at_low : forall (c : N) (r : list N) code n, rune_at (c :: r) = Some (code, n) -> code < 128 -> c = code.
Proof.
  intros c r code n H Hc. unfold rune_at, rune_error in H.
  destruct (c <? 128) eqn:E0; [inversion H; reflexivity|]. exfalso.
  apply N.ltb_ge in E0.
  destruct ((c <? 194) || (244 <? c)) eqn:E1; [inversion H; subst; lia|].
  apply orb_false_iff in E1. destruct E1 as [E1 E1']. apply N.ltb_ge in E1. apply N.ltb_ge in E1'.
  destruct (c <? 224) eqn:E2.
  { destruct r as [|b1 r]; [inversion H; subst; lia|].
    destruct (cont b1) eqn:Cb; [|inversion H; subst; lia]. inversion H; subst. clear - E1 Hc. lia. }
  apply N.ltb_ge in E2.
  cbv zeta in H.
  destruct (c <? 240) eqn:E3.
  { destruct r as [|b1 [|b2 r]]; try (inversion H; subst; lia).
    destruct ((if c =? 224 then 160 else 128) <=? b1) eqn:L1; cbn [andb] in H; [|inversion H; subst; lia].
    match type of H with context [if ?X then _ else _] => destruct X end; [|inversion H; subst; lia].
    inversion H; subst. apply N.leb_le in L1. clear - L1 E2 Hc.
    destruct (c =? 224) eqn:E224; [apply N.eqb_eq in E224; subst; lia | apply N.eqb_neq in E224; lia]. }
  apply N.ltb_ge in E3.
  destruct r as [|b1 [|b2 [|b3 r]]]; try (inversion H; subst; lia).
  destruct ((if c =? 240 then 144 else 128) <=? b1) eqn:L1; cbn [andb] in H; [|inversion H; subst; lia].
  match type of H with context [if ?X then _ else _] => destruct X end; [|inversion H; subst; lia].
  inversion H; subst. apply N.leb_le in L1. clear - L1 E3 Hc.
  destruct (c =? 240) eqn:E240; [apply N.eqb_eq in E240; subst; lia | apply N.eqb_neq in E240; lia].
Qed.

Lemma skip_comment_fuel : forall fuel s pos mb, (length s < fuel)%nat ->
  exists s' p' m', skip_comment fuel s pos mb = Ok (s', p', m') /\ (length s' <= length s)%nat.
Proof.
  induction fuel as [|f IH]; intros s pos mb H; [lia|]. cbn [skip_comment].
  destruct (rune_at s) as [[code n]|] eqn:R; [|eauto 6].
  destruct (is_comment_char code); [|eauto 6].
  pose proof (dropN_shorter _ _ _ R) as L.
  destruct (IH (dropN n s) (pos + n) (mb || (1 <? n)) ltac:(lia)) as (s' & p' & m' & E & L').
  exists s', p', m'. split; [exact E|lia].
Qed.

Lemma skip_ws_fuel : forall fuel s pos mb, (length s < fuel)%nat ->
  exists s' p' m', skip_ws fuel s pos mb = Ok (s', p', m') /\ (length s' <= length s)%nat.
Proof.
  induction fuel as [|f IH]; intros s pos mb H; [lia|]. cbn [skip_ws].
  destruct (rune_at s) as [[code n]|] eqn:R; [|eauto 6].
  pose proof (dropN_shorter _ _ _ R) as L.
  destruct (is_ignored code).
  - destruct (IH (dropN n s) (pos + n) (mb || (1 <? n)) ltac:(lia)) as (s' & p' & m' & E & L').
    exists s', p', m'. split; [exact E|lia].
  - destruct (code =? 35); [|eauto 6].
    destruct (skip_comment_fuel f (dropN n s) (pos + n) mb ltac:(lia)) as (s1 & p1 & m1 & E1 & L1).
    rewrite E1. destruct (IH s1 p1 m1 ltac:(lia)) as (s' & p' & m' & E & L').
    exists s', p', m'. split; [exact E|lia].
Qed.

Lemma read_string_fuel : forall fuel s pos, (length s < fuel)%nat ->
  read_string fuel s pos = Err \/ exists v r p, read_string fuel s pos = Ok (v, r, p) /\ (length r < length s)%nat.
Proof.
  induction fuel as [|f IH]; intros s pos H; [lia|]. cbn [read_string].
  destruct (rune_at s) as [[code n]|] eqn:R; [|left; reflexivity].
  pose proof (dropN_shorter _ _ _ R) as L. pose proof (rune_at_width _ _ _ R) as W.
  destruct ((code =? 10) || (code =? 13)); [left; reflexivity|].
  destruct (code =? 34).
  { right. exists [], (dropN 1 s), (pos + 1). split; [reflexivity|]. rewrite dropN_len1. lia. }
  destruct ((code <? 32) && negb (code =? 9)); [left; reflexivity|].
  destruct (code =? 92).
  - destruct (dropN 1 s) as [|e r] eqn:D; [left; reflexivity|].
    assert (Lr : (length r < length s)%nat).
    { pose proof (dropN_len1 s) as X. rewrite D in X. simpl in X. lia. }
    destruct (simple_escape e) as [esc|].
    + destruct (IH r (pos + 2) ltac:(lia)) as [E|(v & r' & p & E & L')]; rewrite E; [left; reflexivity|].
      right. exists (esc :: v), r', p. split; [reflexivity|lia].
    + destruct (e =? 117); [|left; reflexivity].
      destruct r as [|a [|b [|c [|d r']]]]; try (left; reflexivity).
      destruct (uni_char_code a b c d); [|left; reflexivity].
      destruct (IH r' (pos + 6) ltac:(simpl in Lr; lia)) as [E|(v & r'' & p & E & L')]; rewrite E; [left; reflexivity|].
      right. eexists; eexists; eexists. split; [reflexivity|simpl in Lr; lia].
  - destruct (IH (dropN n s) (pos + n) ltac:(lia)) as [E|(v & r' & p & E & L')]; rewrite E; [left; reflexivity|].
    right. eexists; eexists; eexists. split; [reflexivity|lia].
Qed.

Lemma read_block_raw_fuel : forall fuel s pos, (length s < fuel)%nat ->
  read_block_raw fuel s pos = Err \/ exists v r p, read_block_raw fuel s pos = Ok (v, r, p) /\ (length r < length s)%nat.
Proof.
  induction fuel as [|f IH]; intros s pos H; [lia|]. cbn [read_block_raw].
  destruct (rune_at s) as [[code n]|] eqn:R; [|left; reflexivity].
  pose proof (dropN_shorter _ _ _ R) as L. pose proof (rune_at_width _ _ _ R) as W.
  destruct ((code =? 34) && starts_with [34; 34] (dropN 1 s)).
  { right. exists [], (dropN 3 s), (pos + 3). split; [reflexivity|]. rewrite dropN_len3. lia. }
  destruct ((code <? 32) && negb (code =? 9) && negb (code =? 10) && negb (code =? 13)); [left; reflexivity|].
  destruct ((code =? 92) && starts_with [34; 34; 34] (dropN 1 s)).
  - assert (L4 : (length (dropN 4 s) < length s)%nat) by (rewrite dropN_len4; lia).
    destruct (IH (dropN 4 s) (pos + 4) ltac:(lia)) as [E|(v & r' & p & E & L')]; rewrite E; [left; reflexivity|].
    right. eexists; eexists; eexists. split; [reflexivity|lia].
  - destruct (IH (dropN n s) (pos + n) ltac:(lia)) as [E|(v & r' & p & E & L')]; rewrite E; [left; reflexivity|].
    right. eexists; eexists; eexists. split; [reflexivity|lia].
Qed.

Lemma span_split : forall p s a b, span p s = (a, b) -> s = a ++ b.
Proof.
  induction s as [|c s IH]; intros a b H; simpl in H.
  - inversion H; reflexivity.
  - destruct (p c).
    + destruct (span p s) as [a' b'] eqn:E. pose proof (IH a' b' eq_refl) as X. inversion H; subst. reflexivity.
    + inversion H; subst. reflexivity.
Qed.

Lemma read_number_split : forall s lx isf r, read_number s = Some (lx, isf, r) -> s = lx ++ r /\ lx <> [].
Proof.
  intros s lx isf r H. unfold read_number in H.
  set (sg := match s with c :: r0 => if c =? 45 then ([45], r0) else ([], s) | [] => ([], s) end) in H.
  assert (Hs : s = fst sg ++ snd sg).
  { unfold sg. destruct s as [|c r0]; [reflexivity|]. destruct (c =? 45) eqn:E; [apply N.eqb_eq in E; subst; reflexivity|reflexivity]. }
  destruct sg as [sign s1]. cbn [fst snd] in Hs.
  destruct (read_int_part s1) as [[ip s2]|] eqn:E1; [|discriminate].
  destruct (read_frac_part s2) as [[[fp f1] s3]|] eqn:E2; [|discriminate].
  destruct (read_exp_part s3) as [[[ep f2] s4]|] eqn:E3; [|discriminate].
  inversion H; subst lx isf r. clear H.
  assert (I1 : s1 = ip ++ s2 /\ ip <> []).
  { destruct s1 as [|c r0]; [discriminate|]. cbn [read_int_part] in E1. destruct (c =? 48) eqn:E48.
    - apply N.eqb_eq in E48; subst c. destruct r0 as [|d r1].
      + inversion E1; subst. split; [reflexivity|discriminate].
      + destruct (is_digit d); [discriminate|]. inversion E1; subst. split; [reflexivity|discriminate].
    - destruct (span is_digit (c :: r0)) as [ds r'] eqn:E. destruct ds as [|d0 ds]; [discriminate|]. inversion E1; subst.
      split; [apply (span_split _ _ _ _ E)|discriminate]. }
  assert (I2 : s2 = fp ++ s3).
  { destruct s2 as [|c r0]; [cbn in E2; inversion E2; reflexivity|]. cbn [read_frac_part] in E2. destruct (c =? 46) eqn:E46.
    - apply N.eqb_eq in E46; subst c. destruct (span is_digit r0) as [ds r'] eqn:E. destruct ds as [|d0 ds]; [discriminate|].
      inversion E2; subst. cbn [app]. f_equal. apply (span_split _ _ _ _ E).
    - inversion E2; subst. reflexivity. }
  assert (I3 : s3 = ep ++ s4).
  { destruct s3 as [|e r0]; [cbn in E3; inversion E3; reflexivity|]. cbn [read_exp_part] in E3.
    destruct ((e =? 69) || (e =? 101)); [|inversion E3; subst; reflexivity].
    destruct r0 as [|c r1].
    - cbn in E3. discriminate.
    - destruct ((c =? 43) || (c =? 45)).
      + destruct (span is_digit r1) as [ds r2] eqn:E. destruct ds as [|d0 ds]; [discriminate|]. inversion E3; subst.
        cbn [app]. f_equal. f_equal. apply (span_split _ _ _ _ E).
      + destruct (span is_digit (c :: r1)) as [ds r2] eqn:E. destruct ds as [|d0 ds]; [discriminate|]. inversion E3; subst.
        cbn [app]. f_equal. apply (span_split _ _ _ _ E). }
  destruct I1 as [I1 N1]. split.
  - rewrite Hs, I1, I2, I3. rewrite <- !app_assoc. reflexivity.
  - intro X. apply app_eq_nil in X. destruct X as [_ X]. apply app_eq_nil in X. destruct X as [X _]. contradiction.
Qed.

(* a token other than EOF consumes at least one byte *)
Lemma read_token_fuel : forall fuel s pos, (length s < fuel)%nat ->
  read_token fuel s pos = Err \/
  exists t r p, read_token fuel s pos = Ok (t, r, p) /\ (tk t = EOF \/ (length r < length s)%nat).
Proof.
  intros fuel s pos H. unfold read_token.
  destruct (rune_at s) as [[code n]|] eqn:R; [|right; eexists; eexists; eexists; split; [reflexivity|left; reflexivity]].
  pose proof (rune_at_width _ _ _ R) as W.
  destruct ((code <? 32) && negb (code =? 9) && negb (code =? 10) && negb (code =? 13)); [left; reflexivity|].
  destruct (punct1 code).
  { right. eexists; eexists; eexists. split; [reflexivity|]. right. rewrite dropN_len1. lia. }
  destruct (code =? 46).
  { destruct (starts_with [46; 46] (dropN 1 s)); [|left; reflexivity].
    right. eexists; eexists; eexists. split; [reflexivity|]. right. rewrite dropN_len3. lia. }
  destruct (is_name_start code) eqn:NS.
  { destruct (span is_name_char s) as [nm r] eqn:E. right. eexists; eexists; eexists. split; [reflexivity|]. right.
    pose proof (span_split _ _ _ _ E) as X.
    assert (nm <> []); [|rewrite X, app_length; destruct nm; [contradiction|simpl; lia]].
    destruct s as [|c s']; [discriminate R|].
    assert (Hlow : code < 128).
    { unfold is_name_start in NS. apply orb_true_iff in NS. destruct NS as [NS|NS].
      - apply orb_true_iff in NS. destruct NS as [NS|NS]; [apply N.eqb_eq in NS; lia|].
        apply andb_true_iff in NS. destruct NS as [_ NS]. apply N.leb_le in NS. lia.
      - apply andb_true_iff in NS. destruct NS as [_ NS]. apply N.leb_le in NS. lia. }
    pose proof (rune_at_low _ _ _ _ R Hlow) as Ec. subst c.
    cbn [span] in E. unfold is_name_char at 1 in E. rewrite NS in E. cbn [orb] in E.
    destruct (span is_name_char s'). inversion E. discriminate. }
  destruct ((code =? 45) || is_digit code).
  { destruct (read_number s) as [[[lexeme isf] r]|] eqn:E; [|left; reflexivity].
    right. eexists; eexists; eexists. split; [reflexivity|]. right.
    destruct (read_number_split _ _ _ _ E) as [X NX]. rewrite X, app_length. destruct lexeme; [contradiction|simpl; lia]. }
  destruct (code =? 34); [|left; reflexivity].
  destruct (starts_with [34; 34] (dropN 1 s)).
  - assert (L3 : (length (dropN 3 s) <= length s)%nat) by apply dropN_le.
    destruct (read_block_raw_fuel fuel (dropN 3 s) (pos + 3) ltac:(lia)) as [E|(v & r' & p & E & L')]; rewrite E; [left; reflexivity|].
    right. eexists; eexists; eexists. split; [reflexivity|right; lia].
  - assert (L1 : (length (dropN 1 s) <= length s)%nat) by apply dropN_le.
    destruct (read_string_fuel fuel (dropN 1 s) (pos + 1) ltac:(lia)) as [E|(v & r' & p & E & L')]; rewrite E; [left; reflexivity|].
    right. eexists; eexists; eexists. split; [reflexivity|right; lia].
Qed.

Theorem lex_all_terminates : forall fuel s pos, (length s < fuel)%nat -> lex_all fuel s pos <> OutOfFuel.
Proof.
  induction fuel as [|f IH]; intros s pos H; [lia|]. cbn [lex_all].
  destruct (skip_ws_fuel (S f) s pos false H) as (s1 & p1 & mb & E1 & L1). rewrite E1.
  destruct (read_token_fuel (S f) s1 p1 ltac:(lia)) as [E2|(t & r & p & E2 & C)]; rewrite E2; [discriminate|].
  destruct C as [C|C].
  - rewrite C. discriminate.
  - specialize (IH r p ltac:(lia)).
    destruct (tk t); try discriminate; (destruct (lex_all f r p) as [[ts fl]| |]; [discriminate|discriminate|contradiction]).
Qed.

Theorem lex_terminates : forall src, lex src <> OutOfFuel.
Proof. intro src. unfold lex, lex_src. cbn [snd]. apply lex_all_terminates. lia. Qed.
