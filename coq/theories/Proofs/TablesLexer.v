(* The lexer model reads exactly the punctuator table Tables/LexerTable.v. *)
From Coq Require Import List NArith String Bool Lia.
From GQL Require Import Base.Bytes Syntax.Lexer Tables.LexerTable.
Import ListNotations.
Open Scope N_scope.

(* punct1 is the lookup in punct_table, for every code *)
Lemma punct1_is_table : forall code, punct1 code = punct_lookup code punct_table.
Proof.
  intros [|p]; [reflexivity|].
  do 8 (destruct p as [p|p|]; try reflexivity).
Qed.

Lemma punct_lookup_ascii : forall code k, punct_lookup code punct_table = Some k -> code < 128 /\ code <> 46.
Proof.
  intros code k H. unfold punct_table in H. cbn [punct_lookup] in H.
  repeat match type of H with
         | (if ?c =? ?v then _ else _) = _ =>
           destruct (N.eqb_spec c v) as [E|_]; [subst; split; [reflexivity|discriminate]|]
         end.
  discriminate.
Qed.

(* a byte of the table, wherever it stands, is read as a one-byte token of the table's kind *)
Lemma read_token_punct : forall code k, punct_lookup code punct_table = Some k ->
  forall fuel s pos, read_token fuel (code :: s) pos = Ok (mktok k pos (pos + 1) [], s, pos + 1).
Proof.
  intros code k H fuel s pos.
  destruct (punct_lookup_ascii code k H) as [Hlt _].
  unfold read_token, rune_at.
  apply N.ltb_lt in Hlt. rewrite Hlt.
  assert (Hc : (code <? 32) && negb (code =? 9) && negb (code =? 10) && negb (code =? 13) = false).
  { unfold punct_table in H. cbn [punct_lookup] in H.
    repeat match type of H with
           | (if ?c =? ?v then _ else _) = _ =>
             destruct (N.eqb_spec c v) as [E|_]; [subst; reflexivity|]
           end.
    discriminate. }
  rewrite Hc. rewrite punct1_is_table, H. reflexivity.
Qed.

(* "..." is read as SPREAD of length 1 + |spread_rest|; a '.' not followed by ".." is an error *)
Lemma read_token_spread : forall fuel s pos,
  read_token fuel (spread_first :: spread_rest ++ s) pos
  = Ok (mktok SPREAD pos (pos + (1 + nlen spread_rest)) [], s, pos + (1 + nlen spread_rest)).
Proof. intros fuel s pos. reflexivity. Qed.

Lemma read_token_dot_alone : forall fuel s pos, starts_with spread_rest s = false ->
  read_token fuel (spread_first :: s) pos = Err.
Proof.
  intros fuel s pos H. unfold spread_first, spread_rest in *.
  unfold read_token, rune_at.
  change (46 <? 128) with true. cbv iota.
  change ((46 <? 32) && negb (46 =? 9) && negb (46 =? 10) && negb (46 =? 13)) with false. cbv iota.
  change (punct1 46) with (@None tkind). cbv iota.
  change (46 =? 46) with true. cbv iota.
  change (dropN 1 (46 :: s)) with s.
  rewrite H. reflexivity.
Qed.

(* reflection of a check over all byte values *)
Lemma forall_bytes256 : forall P : N -> bool,
  forallb P bytes256 = true -> forall c, c < 256 -> P c = true.
Proof.
  intros P H c Hc. rewrite forallb_forall in H. apply H.
  unfold bytes256. apply in_map_iff. exists (N.to_nat c). split; [apply N2Nat.id|].
  apply in_seq. lia.
Qed.
