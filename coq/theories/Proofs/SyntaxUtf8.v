(* Multi-byte characters pass through the printer's quoting and the lexer unchanged:
   decoding a valid UTF-8 sequence and encoding the code point again gives the same bytes. *)
From Coq Require Import List NArith Bool Lia Arith.
From GQL Require Import Base.Bytes Syntax.Lexer Syntax.Printer Proofs.SyntaxPrinter Proofs.SyntaxLexer.
Import ListNotations.
Open Scope N_scope.

Lemma cont_range : forall b, cont b = true -> 128 <= b /\ b <= 191.
Proof. intros b H. unfold cont in H. apply andb_true_iff in H. destruct H as [H1 H2]. apply N.leb_le in H1. apply N.leb_le in H2. split; assumption. Qed.

Lemma div_u : forall a b q r, r < b -> a = b * q + r -> a / b = q.
Proof. intros a b q r H E. symmetry. apply (N.div_unique a b q r H E). Qed.
Lemma mod_u : forall a b q r, r < b -> a = b * q + r -> a mod b = r.
Proof. intros a b q r H E. symmetry. apply (N.mod_unique a b q r H E). Qed.

(* what a genuine multi-byte decoding looks like: the bytes, the code point, and its re-encoding *)
Lemma rune_at_multibyte : forall (s : list N) r n, rune_at s = Some (r, n) -> 1 < n ->
  exists pre rest, s = pre ++ rest /\ nlen pre = n /\ encode_rune r = pre /\ 128 <= r /\
    (forall tail, rune_at (pre ++ tail) = Some (r, n)) /\ (exists c pre', pre = c :: pre' /\ 128 <= c).
Proof.
  intros s r n H Hn. destruct s as [|c s']; [discriminate|]. unfold rune_at, rune_error in H. cbv zeta in H.
  destruct (c <? 128) eqn:E0; [inversion H; subst; lia|]. apply N.ltb_ge in E0.
  destruct ((c <? 194) || (244 <? c)) eqn:E1; [inversion H; subst; lia|].
  apply orb_false_iff in E1. destruct E1 as [E1 E1']. apply N.ltb_ge in E1. apply N.ltb_ge in E1'.
  destruct (c <? 224) eqn:E2.
  { (* two bytes *)
    apply N.ltb_lt in E2. destruct s' as [|b1 r1]; [inversion H; subst; lia|].
    destruct (cont b1) eqn:C1; [|inversion H; subst; lia]. inversion H; subst r n. clear H.
    destruct (cont_range _ C1) as [L1 U1].
    set (r := (c - 192) * 64 + (b1 - 128)).
    assert (D : r / 64 = c - 192) by (apply (div_u r 64 (c - 192) (b1 - 128)); unfold r; lia).
    assert (M : r mod 64 = b1 - 128) by (apply (mod_u r 64 (c - 192) (b1 - 128)); unfold r; lia).
    assert (R1 : 128 <= r) by (unfold r; lia). assert (R2 : r < 2048) by (unfold r; lia).
    exists [c; b1], r1. split; [reflexivity|]. split; [reflexivity|]. split; [|split; [exact R1|split]].
    - unfold encode_rune, utf8_encode. assert (r <? 65536 = true) by (apply N.ltb_lt; lia). rewrite H.
      assert (r <? 128 = false) by (apply N.ltb_ge; lia). rewrite H0.
      assert (r <? 2048 = true) by (apply N.ltb_lt; lia). rewrite H1. rewrite D, M. f_equal; [lia|f_equal; lia].
    - intro tail. cbn [app]. unfold rune_at.
      assert (c <? 128 = false) by (apply N.ltb_ge; lia). rewrite H.
      assert ((c <? 194) || (244 <? c) = false) by (apply orb_false_iff; split; apply N.ltb_ge; lia). rewrite H0.
      assert (c <? 224 = true) by (apply N.ltb_lt; lia). rewrite H1, C1. reflexivity.
    - exists c, [b1]. split; [reflexivity|exact E0]. }
  apply N.ltb_ge in E2.
  destruct (c <? 240) eqn:E3.
  { (* three bytes *)
    apply N.ltb_lt in E3. destruct s' as [|b1 [|b2 r2]]; try (inversion H; subst; lia).
    destruct ((if c =? 224 then 160 else 128) <=? b1) eqn:L1; cbn [andb] in H; [|inversion H; subst; lia].
    destruct (b1 <=? (if c =? 237 then 159 else 191)) eqn:U1; cbn [andb] in H; [|inversion H; subst; lia].
    destruct (cont b2) eqn:C2; [|inversion H; subst; lia]. inversion H; subst r n. clear H.
    apply N.leb_le in L1. apply N.leb_le in U1. destruct (cont_range _ C2) as [L2 U2].
    assert (B1 : 128 <= b1 /\ b1 <= 191).
    { destruct (c =? 224); destruct (c =? 237); lia. }
    set (r := (c - 224) * 4096 + (b1 - 128) * 64 + (b2 - 128)).
    assert (D1 : r / 4096 = c - 224) by (apply (div_u r 4096 (c - 224) ((b1 - 128) * 64 + (b2 - 128))); unfold r; lia).
    assert (D2 : r / 64 = (c - 224) * 64 + (b1 - 128)) by (apply (div_u r 64 ((c - 224) * 64 + (b1 - 128)) (b2 - 128)); unfold r; lia).
    assert (M2 : ((c - 224) * 64 + (b1 - 128)) mod 64 = b1 - 128) by (apply (mod_u _ 64 (c - 224) (b1 - 128)); lia).
    assert (M3 : r mod 64 = b2 - 128) by (apply (mod_u r 64 ((c - 224) * 64 + (b1 - 128)) (b2 - 128)); unfold r; lia).
    assert (R1 : 2048 <= r).
    { unfold r. destruct (c =? 224) eqn:X; [apply N.eqb_eq in X; subst c; lia|apply N.eqb_neq in X; lia]. }
    assert (R2 : r < 65536) by (unfold r; lia).
    assert (R3 : ((55296 <=? r) && (r <=? 57343)) = false).
    { apply andb_false_iff. destruct (c =? 237) eqn:X.
      - apply N.eqb_eq in X. subst c. left. apply N.leb_gt. unfold r. lia.
      - apply N.eqb_neq in X. destruct (N.lt_ge_cases c 237); [left; apply N.leb_gt; unfold r; lia|right; apply N.leb_gt; unfold r; lia]. }
    exists [c; b1; b2], r2. split; [reflexivity|]. split; [reflexivity|]. split; [|split; [lia|split]].
    - unfold encode_rune, utf8_encode. assert (r <? 65536 = true) by (apply N.ltb_lt; lia). rewrite H.
      assert (r <? 128 = false) by (apply N.ltb_ge; lia). rewrite H0.
      assert (r <? 2048 = false) by (apply N.ltb_ge; lia). rewrite H1, R3. rewrite D1, D2, M2, M3.
      f_equal; [lia|f_equal; [lia|f_equal; lia]].
    - intro tail. cbn [app]. unfold rune_at. cbv zeta.
      assert (c <? 128 = false) by (apply N.ltb_ge; lia). rewrite H.
      assert ((c <? 194) || (244 <? c) = false) by (apply orb_false_iff; split; apply N.ltb_ge; lia). rewrite H0.
      assert (c <? 224 = false) by (apply N.ltb_ge; lia). rewrite H1.
      assert (c <? 240 = true) by (apply N.ltb_lt; lia). rewrite H2.
      apply N.leb_le in L1. apply N.leb_le in U1. rewrite L1, U1, C2. reflexivity.
    - exists c, [b1; b2]. split; [reflexivity|exact E0]. }
  (* four bytes *)
  apply N.ltb_ge in E3. destruct s' as [|b1 [|b2 [|b3 r3]]]; try (inversion H; subst; lia).
  destruct ((if c =? 240 then 144 else 128) <=? b1) eqn:L1; cbn [andb] in H; [|inversion H; subst; lia].
  destruct (b1 <=? (if c =? 244 then 143 else 191)) eqn:U1; cbn [andb] in H; [|inversion H; subst; lia].
  destruct (cont b2) eqn:C2; cbn [andb] in H; [|inversion H; subst; lia].
  destruct (cont b3) eqn:C3; [|inversion H; subst; lia]. inversion H; subst r n. clear H.
  apply N.leb_le in L1. apply N.leb_le in U1. destruct (cont_range _ C2) as [L2 U2]. destruct (cont_range _ C3) as [L3 U3].
  assert (B1 : 128 <= b1 /\ b1 <= 191) by (destruct (c =? 240); destruct (c =? 244); lia).
  set (r := (c - 240) * 262144 + (b1 - 128) * 4096 + (b2 - 128) * 64 + (b3 - 128)).
  assert (D1 : r / 262144 = c - 240)
    by (apply (div_u r 262144 (c - 240) ((b1 - 128) * 4096 + (b2 - 128) * 64 + (b3 - 128))); unfold r; lia).
  assert (D2 : r / 4096 = (c - 240) * 64 + (b1 - 128))
    by (apply (div_u r 4096 ((c - 240) * 64 + (b1 - 128)) ((b2 - 128) * 64 + (b3 - 128))); unfold r; lia).
  assert (D3 : r / 64 = (c - 240) * 4096 + (b1 - 128) * 64 + (b2 - 128))
    by (apply (div_u r 64 ((c - 240) * 4096 + (b1 - 128) * 64 + (b2 - 128)) (b3 - 128)); unfold r; lia).
  assert (M2 : ((c - 240) * 64 + (b1 - 128)) mod 64 = b1 - 128) by (apply (mod_u _ 64 (c - 240) (b1 - 128)); lia).
  assert (M3 : ((c - 240) * 4096 + (b1 - 128) * 64 + (b2 - 128)) mod 64 = b2 - 128)
    by (apply (mod_u _ 64 ((c - 240) * 64 + (b1 - 128)) (b2 - 128)); lia).
  assert (M4 : r mod 64 = b3 - 128)
    by (apply (mod_u r 64 ((c - 240) * 4096 + (b1 - 128) * 64 + (b2 - 128)) (b3 - 128)); unfold r; lia).
  assert (R1 : 65536 <= r).
  { unfold r. destruct (c =? 240) eqn:X; [apply N.eqb_eq in X; subst c; lia|apply N.eqb_neq in X; lia]. }
  assert (R2 : r <= 1114111).
  { unfold r. destruct (c =? 244) eqn:X; [apply N.eqb_eq in X; subst c; lia|apply N.eqb_neq in X; lia]. }
  exists [c; b1; b2; b3], r3. split; [reflexivity|]. split; [reflexivity|]. split; [|split; [lia|split]].
  - unfold encode_rune. assert (r <? 65536 = false) by (apply N.ltb_ge; lia). rewrite H.
    assert (1114111 <? r = false) by (apply N.ltb_ge; lia). rewrite H0. rewrite D1, D2, D3, M2, M3, M4.
    f_equal; [lia|f_equal; [lia|f_equal; [lia|f_equal; lia]]].
  - intro tail. cbn [app]. unfold rune_at. cbv zeta.
    assert (c <? 128 = false) by (apply N.ltb_ge; lia). rewrite H.
    assert ((c <? 194) || (244 <? c) = false) by (apply orb_false_iff; split; apply N.ltb_ge; lia). rewrite H0.
    assert (c <? 224 = false) by (apply N.ltb_ge; lia). rewrite H1.
    assert (c <? 240 = false) by (apply N.ltb_ge; lia). rewrite H2.
    apply N.leb_le in L1. apply N.leb_le in U1. rewrite L1, U1, C2, C3. reflexivity.
  - exists c, [b1; b2; b3]. split; [reflexivity|exact E0].
Qed.

Lemma nlen_app' : forall A (a b : list A), nlen (a ++ b) = nlen a + nlen b.
Proof. intros. unfold nlen. rewrite app_length. lia. Qed.

(* valid UTF-8: a sequence of single bytes below 128 and genuinely decoded multi-byte sequences *)
Inductive utf8_valid : list N -> Prop :=
| V_nil : utf8_valid []
| V_ascii : forall c s, c < 128 -> utf8_valid s -> utf8_valid (c :: s)
| V_multi : forall s r n, rune_at s = Some (r, n) -> 1 < n -> utf8_valid (dropN n s) -> utf8_valid s.

Definition lift_bytes (pre : list N) (r : res (bytes * bytes * N)) : res (bytes * bytes * N) :=
  match r with Ok (v, rest, p) => Ok (pre ++ v, rest, p) | Err => Err | OutOfFuel => OutOfFuel end.

Lemma dropN_app_len : forall (pre tail : list N) n, nlen pre = n -> dropN n (pre ++ tail) = tail.
Proof.
  intros pre tail n H. unfold dropN. subst n. unfold nlen. rewrite Nnat.Nat2N.id.
  rewrite skipn_app, skipn_all, Nat.sub_diag. reflexivity.
Qed.
Lemma takeN_app_len : forall (pre tail : list N) n, nlen pre = n -> takeN n (pre ++ tail) = pre.
Proof.
  intros pre tail n H. unfold takeN. subst n. unfold nlen. rewrite Nnat.Nat2N.id.
  rewrite firstn_app, firstn_all, Nat.sub_diag. cbn [firstn]. apply app_nil_r.
Qed.

Lemma quote_rune_high : forall r, 128 <= r -> quote_rune r = encode_rune r.
Proof.
  intros r H. unfold quote_rune.
  assert (X : forall k, k < 128 -> (r =? k) = false) by (intros; apply N.eqb_neq; lia).
  rewrite !X by lia.
  assert (r <? 32 = false) by (apply N.ltb_ge; lia). rewrite H0. reflexivity.
Qed.

Lemma read_multibyte : forall r n pre, 128 <= r -> nlen pre = n -> (forall tail, rune_at (pre ++ tail) = Some (r, n)) ->
  forall f tail pos, read_string (S f) (pre ++ tail) pos = lift_bytes pre (read_string f tail (pos + n)).
Proof.
  intros r n pre Hr Hn Hd f tail pos. cbn [read_string]. rewrite (Hd tail).
  assert (E1 : (r =? 10) || (r =? 13) = false) by (apply orb_false_iff; split; apply N.eqb_neq; lia). rewrite E1.
  assert (E2 : (r =? 34) = false) by (apply N.eqb_neq; lia). rewrite E2.
  assert (E3 : (r <? 32) && negb (r =? 9) = false) by (apply andb_false_iff; left; apply N.ltb_ge; lia). rewrite E3.
  assert (E4 : (r =? 92) = false) by (apply N.eqb_neq; lia). rewrite E4.
  rewrite (dropN_app_len _ _ _ Hn), (takeN_app_len _ _ _ Hn). unfold lift_bytes.
  destruct (read_string f tail (pos + n)) as [[[v rr] p]| |]; reflexivity.
Qed.

Lemma quote_rune_head : forall c, c < 128 -> exists x y, quote_rune c = x :: y /\ (c <> 34 -> x <> 34) /\ (c = 34 -> x = 92).
Proof.
  intros c Hc. unfold quote_rune.
  destruct (c =? 34) eqn:E34; [exists 92, [34]; split; [reflexivity|split; [intros _; discriminate|intros _; reflexivity]]|].
  apply N.eqb_neq in E34.
  repeat (match goal with |- context [if ?x =? ?y then _ else _] => destruct (x =? y); [eexists; eexists; split; [reflexivity|split; [intros _; discriminate|intro; contradiction]]|] end).
  destruct ((c <? 32) || (c =? 127)); [eexists; eexists; split; [reflexivity|split; [intros _; discriminate|intro; contradiction]]|].
  unfold encode_rune. assert (c <? 65536 = true) by (apply N.ltb_lt; lia). rewrite H. rewrite (utf8_encode_ascii c Hc).
  exists c, []. split; [reflexivity|]. split; [intros _; exact E34|intro; contradiction].
Qed.

Lemma quote_body_valid : forall s, utf8_valid s ->
  exists b, (forall f, (length s < f)%nat -> quote_body f s = Ok b) /\ (length s <= length b)%nat /\
    (s <> [] -> exists x y, b = x :: y /\ x <> 34) /\
    forall f rest pos, (length s < f)%nat -> read_string f (b ++ 34 :: rest) pos = Ok (s, rest, pos + nlen b + 1).
Proof.
  intros s V. induction V as [|c s Hc V IH|s r n R Hn V IH].
  - exists []. split; [intros f Hf; destruct f; [simpl in Hf; lia|reflexivity]|]. split; [simpl; lia|]. split; [intro X; contradiction X; reflexivity|].
    intros f rest pos Hf. destruct f; [simpl in Hf; lia|]. cbn [app read_string]. rewrite (rune_at_ascii 34 _ ltac:(lia)). cbn.
    f_equal. f_equal. unfold nlen; cbn. lia.
  - destruct IH as (b & Hb & Lb & _ & Hr). exists (quote_rune c ++ b).
    destruct (quote_rune_head c Hc) as (x & y & Eq & Hx & Hx').
    split; [|split; [|split]].
    + intros f Hf. destruct f; [simpl in Hf; lia|]. rewrite quote_body_step. rewrite (rune_at_ascii c s Hc).
      change (dropN 1 (c :: s)) with s. rewrite (Hb f ltac:(simpl in Hf; lia)), (quote_piece_ascii c s Hc). reflexivity.
    + rewrite app_length, Eq. simpl. lia.
    + intros _. rewrite Eq. exists x, (y ++ b). split; [reflexivity|].
      destruct (N.eq_dec c 34) as [E|E]; [rewrite (Hx' E); discriminate|exact (Hx E)].
    + intros f rest pos Hf. destruct f; [simpl in Hf; lia|]. rewrite <- app_assoc.
      rewrite (read_quote_rune c Hc). rewrite (Hr f rest _ ltac:(simpl in Hf; lia)). unfold lift.
      f_equal. f_equal. unfold nlen. rewrite app_length. lia.
  - destruct IH as (b & Hb & Lb & _ & Hr).
    destruct (rune_at_multibyte s r n R Hn) as (pre & rst & Es & Ln & Enc & Hr128 & Hd & (c & pre' & Epre & Hc)).
    assert (Ed : dropN n s = rst) by (rewrite Es; apply dropN_app_len; exact Ln).
    rewrite Ed in *. clear Ed.
    assert (Lp : length s = (length pre + length rst)%nat) by (rewrite Es, app_length; reflexivity).
    assert (Lpre : (1 <= length pre)%nat) by (rewrite Epre; simpl; lia).
    unfold bytes, byte in *.
    exists (pre ++ b). split; [|split; [|split]].
    + intros f Hf. destruct f; [lia|]. rewrite quote_body_step, R.
      assert (Ed : dropN n s = rst) by (rewrite Es; apply dropN_app_len; exact Ln). rewrite Ed.
      rewrite (Hb f ltac:(lia)). rewrite (quote_piece_multi _ r n Hn), (quote_rune_high r Hr128), Enc. reflexivity.
    + rewrite app_length. lia.
    + intros _. exists c, (pre' ++ b). split; [rewrite Epre; reflexivity|lia].
    + intros f rest pos Hf. destruct f; [lia|]. rewrite <- app_assoc.
      rewrite (read_multibyte r n pre Hr128 Ln Hd). rewrite (Hr f rest _ ltac:(lia)). unfold lift_bytes.
      rewrite Es. f_equal. f_equal. rewrite nlen_app'. lia.
Qed.

(* lexing the printed form of a valid UTF-8 string gives the string back *)
Theorem quote_lex_roundtrip_utf8 : forall s rest, utf8_valid s ->
  (s <> [] \/ forall r, rest <> 34 :: r) ->
  exists q, quote_string s = Ok q /\
    forall pos fuel, (length (q ++ rest) < fuel)%nat ->
    read_token fuel (q ++ rest) pos = Ok (mktok STRING pos (pos + nlen q) s, rest, pos + nlen q).
Proof.
  intros s rest V Hne. destruct (quote_body_valid s V) as (b & Hb & Lb & Hh & Hr).
  exists (34 :: b ++ [34]). split.
  { unfold quote_string. unfold bytes, byte in *. rewrite (Hb (S (length s)) ltac:(lia)). reflexivity. }
  intros pos fuel Hf.
  unfold read_token. cbn [app]. rewrite (rune_at_ascii 34 _ ltac:(lia)).
  change ((34 <? 32) && negb (34 =? 9) && negb (34 =? 10) && negb (34 =? 13)) with false. cbv iota.
  change (punct1 34) with (@None tkind). cbv iota. change (34 =? 46) with false. cbv iota.
  change (is_name_start 34) with false. cbv iota. change ((34 =? 45) || is_digit 34) with false. cbv iota.
  change (34 =? 34) with true. cbv iota.
  change (dropN 1 (34 :: (b ++ [34]) ++ rest)) with ((b ++ [34]) ++ rest).
  assert (NB : starts_with [34; 34] ((b ++ [34]) ++ rest) = false).
  { destruct s as [|c s'].
    - assert (b = []).
      { pose proof (Hb 1%nat ltac:(simpl; lia)) as X. change (quote_body 1 []) with (@Ok bytes []) in X. inversion X. reflexivity. }
      subst b. cbn [app starts_with].
      destruct rest as [|x r]; [reflexivity|]. destruct (34 =? x) eqn:E; [|rewrite andb_false_r; reflexivity].
      apply N.eqb_eq in E. subst x. destruct Hne as [Hn|Hn]; [contradiction Hn; reflexivity|]. exfalso. apply (Hn r). reflexivity.
    - destruct (Hh ltac:(discriminate)) as (x & y & -> & Hx). cbn [app starts_with].
      apply N.eqb_neq in Hx. rewrite N.eqb_sym in Hx. rewrite Hx. reflexivity. }
  rewrite NB. rewrite <- app_assoc. cbn [app].
  unfold bytes, byte in *. rewrite (Hr fuel rest (pos + 1)).
  - f_equal. f_equal; [f_equal|].
    + f_equal. unfold nlen. cbn [length]. rewrite app_length. cbn [length]. lia.
    + unfold nlen. cbn [length]. rewrite app_length. cbn [length]. lia.
  - cbn [length app] in Hf. rewrite !app_length in Hf. cbn [length] in Hf. lia.
Qed.

(* a decidable form of validity *)
Fixpoint utf8_okb (fuel : nat) (s : list N) : bool :=
  match fuel with
  | O => false
  | S f =>
    match s with
    | [] => true
    | c :: _ =>
      match rune_at s with
      | Some (r, n) => ((1 <? n) || (c <? 128)) && utf8_okb f (dropN n s)
      | None => true
      end
    end
  end.
Definition str_okb (s : list N) : bool := utf8_okb (S (length s)) s.

Lemma utf8_okb_valid : forall fuel s, utf8_okb fuel s = true -> utf8_valid s.
Proof.
  induction fuel as [|f IH]; intros s H; [discriminate|]. cbn [utf8_okb] in H.
  destruct s as [|c s']; [constructor|].
  destruct (rune_at (c :: s')) as [[r n]|] eqn:R.
  2:{ exfalso. unfold rune_at, rune_error in R. cbv zeta in R. destruct s' as [|b1 [|b2 [|b3 r']]];
      repeat (match type of R with context [if ?X then _ else _] => destruct X end); discriminate R. }
  apply andb_true_iff in H. destruct H as [H1 H2]. pose proof (rune_at_width _ _ _ R) as W.
  destruct (1 <? n) eqn:E.
  - apply N.ltb_lt in E. apply (V_multi _ r n R E). apply IH. exact H2.
  - apply N.ltb_ge in E. cbn [orb] in H1. apply N.ltb_lt in H1.
    assert (n = 1) by lia. subst n. change (dropN 1 (c :: s')) with s' in H2.
    apply V_ascii; [exact H1|apply IH; exact H2].
Qed.

Lemma ascii_str_okb : forall s, forallb (fun c => c <? 128) s = true -> str_okb s = true.
Proof.
  assert (G : forall s f, (length s < f)%nat -> forallb (fun c => c <? 128) s = true -> utf8_okb f s = true).
  { induction s as [|c s IH]; intros f Hf H; (destruct f; [simpl in Hf; lia|]); [reflexivity|].
    cbn [forallb] in H. apply andb_true_iff in H. destruct H as [Hc Hs]. cbn [utf8_okb].
    rewrite (rune_at_ascii c s ltac:(apply N.ltb_lt; exact Hc)). rewrite Hc. cbn [orb andb].
    change (dropN 1 (c :: s)) with s. apply IH; [simpl in Hf; lia|exact Hs]. }
  intros s H. unfold str_okb. apply G; [lia|exact H].
Qed.
