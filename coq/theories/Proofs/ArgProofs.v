(* C05: getArgumentValues and the defaults of getVariableValues (Exec/Coerce.v) against the
   specification of input coercion (Exec/CoerceSpec.v): resolvers receive, for every argument
   of the field definition, the literal coercion of what was written (SL) -- or the coerced value
   of the variable that was written -- with the argument's default in place of null, and null
   entries are dropped from the map. *)
From Coq Require Import List ZArith String Bool.
From GQL Require Import Exec.Syntax Exec.Coerce Exec.CoerceSpec Proofs.CoerceProofs.
Import ListNotations.
Open Scope string_scope.
Open Scope list_scope.

(* what the specification assigns to one argument definition, given what was written for it:
   a variable yields that variable's coerced value, anything else (a constant literal, or
   nothing) its literal coercion *)
Inductive arg_spec (S : schema) (vars : list (name * jv)) (a : argdef) : option value -> jv -> Prop :=
| AS_var x : arg_spec S vars a (Some (VVar x)) (jlookup x vars)
| AS_lit l r : SL S (a_type a) l r -> arg_spec S vars a l r.

(* one step of getArgumentValues *)
Definition arg_step (fuel : nat) (S : schema) (args : list (name * value)) (vars : option (list (name * jv)))
           (a : argdef) : option (name * jv) :=
  match value_from_ast fuel S (a_type a) (alookup (a_name a) args) vars with
  | Some v => Some (a_name a, with_default (a_default a) v)
  | None => None
  end.

Lemma get_argument_values_unfold : forall fuel S defs args vars,
  get_argument_values fuel S defs args vars =
  match omap (arg_step fuel S args vars) defs with
  | Some kvs => Some (keep_nonnull kvs)
  | None => None
  end.
Proof. reflexivity. Qed.

Lemma value_from_ast_var : forall fuel S t x vars r,
  value_from_ast fuel S t (Some (VVar x)) (Some vars) = Some r -> r = jlookup x vars.
Proof. intros fuel S t x vars r H. destruct fuel; [discriminate|]. cbn in H. congruence. Qed.

Lemma arg_spec_correct : forall S vars a l r, arg_spec S vars a l r ->
  forall fuel r', value_from_ast fuel S (a_type a) l (Some vars) = Some r' -> r' = r.
Proof.
  intros S vars a l r H fuel r' Hv. destruct H as [x|l r Hsl].
  - eapply value_from_ast_var. exact Hv.
  - eapply literal_correct; eassumption.
Qed.

Lemma arg_steps_correct : forall S vars args (r : argdef -> jv) fuel defs kvs,
  (forall a, In a defs -> arg_spec S vars a (alookup (a_name a) args) (r a)) ->
  omap (arg_step fuel S args (Some vars)) defs = Some kvs ->
  kvs = map (fun a => (a_name a, with_default (a_default a) (r a))) defs.
Proof.
  intros S vars args r fuel. induction defs as [|a defs IH]; intros kvs Hs H; cbn [omap] in H.
  - inversion H. reflexivity.
  - unfold arg_step at 1 in H.
    destruct (value_from_ast fuel S (a_type a) (alookup (a_name a) args) (Some vars)) as [v|] eqn:E1; [|discriminate].
    destruct (omap (arg_step fuel S args (Some vars)) defs) as [kvs'|] eqn:E2; [|discriminate].
    inversion H; subst. cbn [map]. f_equal.
    + f_equal. f_equal. eapply arg_spec_correct; [apply Hs; left; reflexivity|exact E1].
    + apply IH; [|reflexivity]. intros a0 Ha0. apply Hs. right. exact Ha0.
Qed.

(* Arguments written as constant literals, as variables, or not at all: the map handed to the
   resolver is the specified value of every argument definition, default applied, nulls dropped. *)
Theorem arguments_correct : forall S vars defs args (r : argdef -> jv),
  (forall a, In a defs -> arg_spec S vars a (alookup (a_name a) args) (r a)) ->
  forall fuel m, get_argument_values fuel S defs args (Some vars) = Some m ->
    m = keep_nonnull (map (fun a => (a_name a, with_default (a_default a) (r a))) defs).
Proof.
  intros S vars defs args r Hs fuel m H. rewrite get_argument_values_unfold in H.
  destruct (omap (arg_step fuel S args (Some vars)) defs) as [kvs|] eqn:E; [|discriminate].
  inversion H; subst. f_equal. eapply arg_steps_correct; eassumption.
Qed.

(* Constant literals only (whatever the variables, even a nil variable map) *)
Theorem arguments_from_literals : forall S defs args (r : argdef -> jv),
  (forall a, In a defs -> SL S (a_type a) (alookup (a_name a) args) (r a)) ->
  forall fuel vars m, get_argument_values fuel S defs args vars = Some m ->
    m = keep_nonnull (map (fun a => (a_name a, with_default (a_default a) (r a))) defs).
Proof.
  intros S defs args r Hs fuel vars m H. rewrite get_argument_values_unfold in H.
  destruct (omap (arg_step fuel S args vars) defs) as [kvs|] eqn:E; [|discriminate].
  inversion H; subst. f_equal. clear H.
  revert kvs E. induction defs as [|a defs IH]; intros kvs E; cbn [omap] in E.
  - inversion E. reflexivity.
  - unfold arg_step at 1 in E.
    destruct (value_from_ast fuel S (a_type a) (alookup (a_name a) args) vars) as [v|] eqn:E1; [|discriminate].
    destruct (omap (arg_step fuel S args vars) defs) as [kvs'|] eqn:E2; [|discriminate].
    inversion E; subst. cbn [map]. f_equal.
    + f_equal. f_equal. eapply literal_correct; [apply Hs; left; reflexivity|exact E1].
    + apply IH; [|reflexivity]. intros a0 Ha0. apply Hs. right. exact Ha0.
Qed.

(* The same against the specification's own relation for the fields of an input object: the
   argument definitions are coerced exactly like the fields of an input-object literal. *)
Theorem arguments_SLF : forall S defs args kvs, SLF S defs args kvs ->
  forall fuel vars m, get_argument_values fuel S defs args vars = Some m -> m = keep_nonnull kvs.
Proof.
  intros S defs args kvs Hs fuel vars m H. rewrite get_argument_values_unfold in H.
  change (arg_step fuel S args vars) with (lfield_step fuel S args vars) in H.
  destruct (omap (lfield_step fuel S args vars) defs) as [kvs'|] eqn:E; [|discriminate].
  inversion H; subst. f_equal.
  eapply (proj2 (proj2 (literal_correct_all S))); eassumption.
Qed.

(* ---- per argument: what the resolver finds under the argument's name ---- *)
Lemma alookup_notin : forall A k (l : list (name * A)), ~ In k (map fst l) -> alookup k l = None.
Proof.
  intros A k l. induction l as [|[k' v] l IH]; intros H; [reflexivity|].
  cbn [alookup]. destruct (String.eqb k k') eqn:Ek.
  - exfalso. apply H. left. symmetry. apply String.eqb_eq. exact Ek.
  - apply IH. intro Hin. apply H. right. exact Hin.
Qed.

Lemma jlookup_keep_nonnull : forall k kvs, NoDup (map fst kvs) ->
  jlookup k (keep_nonnull kvs) = jlookup k kvs.
Proof.
  intros k kvs. unfold jlookup, keep_nonnull. induction kvs as [|[k' v] kvs IH]; intros Hn; [reflexivity|].
  cbn [map fst] in Hn. inversion Hn as [|? ? Hk Hn']; subst.
  cbn [filter snd]. destruct (nullish v) eqn:Ev; cbn [negb alookup].
  - destruct (String.eqb k k') eqn:Ek.
    + apply String.eqb_eq in Ek. subst k'. rewrite (IH Hn'), (alookup_notin _ k kvs Hk).
      destruct v; try discriminate. reflexivity.
    + apply IH. exact Hn'.
  - destruct (String.eqb k k'); [reflexivity|apply IH; exact Hn'].
Qed.

Lemma jlookup_map_defs : forall (f : argdef -> jv) defs a, NoDup (map a_name defs) -> In a defs ->
  jlookup (a_name a) (map (fun a0 => (a_name a0, f a0)) defs) = f a.
Proof.
  intros f defs a. unfold jlookup. induction defs as [|b defs IH]; intros Hn Hin; [contradiction|].
  cbn [map] in Hn. inversion Hn as [|? ? Hb Hn']; subst. cbn [map alookup].
  destruct Hin as [->|Hin].
  - rewrite String.eqb_refl. reflexivity.
  - destruct (String.eqb (a_name a) (a_name b)) eqn:Ek.
    + exfalso. apply String.eqb_eq in Ek. apply Hb. rewrite <- Ek. apply in_map. exact Hin.
    + apply IH; assumption.
Qed.

Lemma map_fst_defs : forall (f : argdef -> jv) defs,
  map fst (map (fun a0 => (a_name a0, f a0)) defs) = map a_name defs.
Proof. intros f defs. rewrite map_map. reflexivity. Qed.

(* With distinct argument names, the resolver finds under the name of argument a (null standing
   for "no entry") exactly a's specified value with a's default applied. *)
Theorem argument_received : forall S vars defs args (r : argdef -> jv),
  NoDup (map a_name defs) ->
  (forall a, In a defs -> arg_spec S vars a (alookup (a_name a) args) (r a)) ->
  forall fuel m, get_argument_values fuel S defs args (Some vars) = Some m ->
  forall a, In a defs -> jlookup (a_name a) m = with_default (a_default a) (r a).
Proof.
  intros S vars defs args r Hn Hs fuel m H a Ha.
  rewrite (arguments_correct S vars defs args r Hs fuel m H).
  rewrite jlookup_keep_nonnull by (rewrite map_fst_defs; exact Hn).
  apply (jlookup_map_defs (fun a0 => with_default (a_default a0) (r a0))); assumption.
Qed.

(* An argument written as the variable $x receives the coerced value of x, the argument's
   default when that is null. *)
Theorem argument_variable_received : forall S vars defs args (r : argdef -> jv) a x,
  NoDup (map a_name defs) ->
  (forall a0, In a0 defs -> arg_spec S vars a0 (alookup (a_name a0) args) (r a0)) ->
  In a defs -> alookup (a_name a) args = Some (VVar x) ->
  forall fuel m, get_argument_values fuel S defs args (Some vars) = Some m ->
    jlookup (a_name a) m = with_default (a_default a) (jlookup x vars).
Proof.
  intros S vars defs args r a x Hn Hs Ha Hx fuel m H.
  set (r' := fun a0 => if String.eqb (a_name a0) (a_name a) then jlookup x vars else r a0).
  assert (Hs' : forall a0, In a0 defs -> arg_spec S vars a0 (alookup (a_name a0) args) (r' a0)).
  { intros a0 Ha0. unfold r'. destruct (String.eqb (a_name a0) (a_name a)) eqn:Ek; [|apply Hs; exact Ha0].
    apply String.eqb_eq in Ek. rewrite Ek, Hx. apply AS_var. }
  rewrite (argument_received S vars defs args r' Hn Hs' fuel m H a Ha).
  unfold r'. rewrite String.eqb_refl. reflexivity.
Qed.

(* ---- variables: an absent or null input ---- *)
(* With a default literal, the variable's value is the literal coercion of the default; without
   one it is null.  (Such a variable is accepted only at a nullable type.) *)
Theorem variable_default : forall S d dv r, v_default d = Some dv -> SL S (v_type d) (Some dv) r ->
  forall fuel x, get_variable_value fuel S d JNull = Some (inl x) ->
    x = r /\ is_nonnull (v_type d) = false.
Proof.
  intros S d dv r Hd Hsl fuel x H. unfold get_variable_value in H.
  destruct (negb (is_input_type S (v_type d))); [discriminate|].
  destruct fuel as [|fuel]; [discriminate|].
  cbn [valid_input nullish] in H.
  destruct (is_nonnull (v_type d)); cbn [negb] in H; [discriminate|].
  rewrite Hd in H.
  destruct (value_from_ast (Datatypes.S fuel) S (v_type d) (Some dv) None) as [y|] eqn:E; [|discriminate].
  inversion H; subst. split; [|reflexivity].
  eapply literal_correct; eassumption.
Qed.

Theorem variable_no_default : forall S d, v_default d = None ->
  forall fuel x, get_variable_value fuel S d JNull = Some (inl x) ->
    x = JNull /\ is_nonnull (v_type d) = false.
Proof.
  intros S d Hd fuel x H. unfold get_variable_value in H.
  destruct (negb (is_input_type S (v_type d))); [discriminate|].
  destruct fuel as [|fuel]; [discriminate|].
  cbn [valid_input nullish] in H.
  destruct (is_nonnull (v_type d)); cbn [negb] in H; [discriminate|].
  rewrite Hd in H. inversion H. split; reflexivity.
Qed.

(* lifted to the variable map of the request *)
Lemma gvv_lookup : forall fuel S ds inputs vars d, NoDup (map v_name ds) -> In d ds ->
  get_variable_values fuel S ds inputs = Some (inl vars) ->
  exists x, get_variable_value fuel S d (jlookup (v_name d) inputs) = Some (inl x) /\
            jlookup (v_name d) vars = x.
Proof.
  intros fuel S ds inputs. induction ds as [|d0 ds IH]; intros vars d Hn Hin H; [contradiction|].
  cbn [map] in Hn. inversion Hn as [|? ? Hd0 Hn']; subst. cbn [get_variable_values] in H.
  destruct (get_variable_value fuel S d0 (jlookup (v_name d0) inputs)) as [[x0|u]|] eqn:E0; try discriminate.
  destruct (get_variable_values fuel S ds inputs) as [[m|e]|] eqn:E1; try discriminate.
  inversion H; subst. unfold jlookup at 2. cbn [alookup].
  destruct Hin as [->|Hin].
  - exists x0. rewrite String.eqb_refl. split; [exact E0|reflexivity].
  - destruct (String.eqb (v_name d) (v_name d0)) eqn:Ek.
    + exfalso. apply String.eqb_eq in Ek. apply Hd0. rewrite <- Ek. apply in_map. exact Hin.
    + destruct (IH m d Hn' Hin eq_refl) as [x [X1 X2]]. exists x. split; [exact X1|exact X2].
Qed.

Theorem variables_default : forall fuel S ds inputs vars d dv r,
  NoDup (map v_name ds) -> In d ds ->
  get_variable_values fuel S ds inputs = Some (inl vars) ->
  jlookup (v_name d) inputs = JNull ->
  v_default d = Some dv -> SL S (v_type d) (Some dv) r ->
  jlookup (v_name d) vars = r.
Proof.
  intros fuel S ds inputs vars d dv r Hn Hin H Hnull Hd Hsl.
  destruct (gvv_lookup fuel S ds inputs vars d Hn Hin H) as [x [X1 X2]].
  rewrite Hnull in X1. rewrite X2. exact (proj1 (variable_default S d dv r Hd Hsl fuel x X1)).
Qed.

Theorem variables_no_default : forall fuel S ds inputs vars d,
  NoDup (map v_name ds) -> In d ds ->
  get_variable_values fuel S ds inputs = Some (inl vars) ->
  jlookup (v_name d) inputs = JNull -> v_default d = None ->
  jlookup (v_name d) vars = JNull.
Proof.
  intros fuel S ds inputs vars d Hn Hin H Hnull Hd.
  destruct (gvv_lookup fuel S ds inputs vars d Hn Hin H) as [x [X1 X2]].
  rewrite Hnull in X1. rewrite X2. exact (proj1 (variable_no_default S d Hd fuel x X1)).
Qed.

(* ---- non-vacuity: a literal, a variable that is null (argument default applies), an argument
        not written (default), an argument not written without default (dropped) ---- *)
Definition Sa : schema := {|
  s_types := [("Int", TScalar SInt); ("Q", TObject [] [])]; s_query := "Q"; s_mutation := None |}.
Definition defs_a : list argdef :=
  [{| a_name := "a"; a_type := TNonNull (TNamed "Int"); a_default := None |};
   {| a_name := "b"; a_type := TNamed "Int"; a_default := Some (JInt 5) |};
   {| a_name := "c"; a_type := TList (TNamed "Int"); a_default := Some (JList [JInt 9]) |};
   {| a_name := "d"; a_type := TNamed "Int"; a_default := None |}].
Definition args_a : list (name * value) := [("a", VInt 1); ("b", VVar "x")].
Definition spec_a (a : argdef) : jv := if String.eqb (a_name a) "a" then JInt 1 else JNull.

Example arguments_nonvacuous :
  (forall a, In a defs_a -> arg_spec Sa [("x", JNull)] a (alookup (a_name a) args_a) (spec_a a)) /\
  get_argument_values 5 Sa defs_a args_a (Some [("x", JNull)])
  = Some [("a", JInt 1); ("b", JInt 5); ("c", JList [JInt 9])].
Proof.
  split; [|reflexivity].
  intros a [<-|[<-|[<-|[<-|[]]]]]; cbn.
  - apply AS_lit. apply SL_nonnull. eapply SL_scalar; [reflexivity|]. apply sl_int. reflexivity.
  - apply (AS_var Sa [("x", JNull)] _ "x").
  - apply AS_lit. apply SL_absent. reflexivity.
  - apply AS_lit. apply SL_absent. reflexivity.
Qed.
