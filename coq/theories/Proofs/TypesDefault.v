(* C10: the default-value sentence.  For every well-typed default (wt_default) the literal that
   astFromValue builds prints to a text that the library's lexer and parser read back as that
   literal, and coercing the literal against the same type gives back the configured value.
   Then: the description the resolvers' model reports is an exact description by the Spec. *)
From Coq Require Import List NArith ZArith Bool Lia Permutation String.
From GQL Require Import Base.Bytes Types.Schema Types.Consistent Types.Literal Types.Introspection
  Proofs.TypesNames Proofs.TypesOracle Proofs.TypesImpl Proofs.TypesIntro Proofs.TypesNumbers Proofs.TypesLiteral.
Import ListNotations.
Open Scope string_scope.
Open Scope N_scope.

(* ---------- equalities ---------- *)
Lemma same_list_unfold : forall x y, same_value (VList x) (VList y) =
  (fix go (x y : list value) : bool :=
     match x, y with [], [] => true | u :: x', w :: y' => same_value u w && go x' y' | _, _ => false end) x y.
Proof. reflexivity. Qed.

Lemma same_list_cons : forall u x w y, same_value (VList (u :: x)) (VList (w :: y)) = same_value u w && same_value (VList x) (VList y).
Proof. reflexivity. Qed.

Lemma same_obj_cons : forall n u x m w y,
  same_value (VObj ((n, u) :: x)) (VObj ((m, w) :: y)) = bytes_eqb n m && same_value u w && same_value (VObj x) (VObj y).
Proof. reflexivity. Qed.

Lemma lit_eqb_list_cons : forall u x w y, lit_eqb (LList (u :: x)) (LList (w :: y)) = lit_eqb u w && lit_eqb (LList x) (LList y).
Proof. reflexivity. Qed.
Lemma lit_eqb_obj_cons : forall n u x m w y,
  lit_eqb (LObj ((n, u) :: x)) (LObj ((m, w) :: y)) = bytes_eqb n m && lit_eqb u w && lit_eqb (LObj x) (LObj y).
Proof. reflexivity. Qed.

Lemma lit_eqb_refl : forall l, lit_eqb l l = true.
Proof.
  induction l as [lx|lx|b|b|n|vs IH|fs IH] using lit_ind'.
  - apply bytes_eqb_refl.
  - apply bytes_eqb_refl.
  - apply bytes_eqb_refl.
  - destruct b; reflexivity.
  - apply bytes_eqb_refl.
  - induction IH as [|v r Hv _ IHr]; [reflexivity|]. rewrite lit_eqb_list_cons, Hv. exact IHr.
  - induction IH as [|[n v] r Hv _ IHr]; [reflexivity|]. rewrite lit_eqb_obj_cons, bytes_eqb_refl. cbn [snd] in Hv. rewrite Hv. exact IHr.
Qed.

(* ---------- scalars ---------- *)
Lemma float_ok_digits : forall neg d r dp, float_ok neg (d :: r) dp = true -> fdigits_ok (d :: r).
Proof.
  intros neg d r dp H. unfold float_ok in H.
  repeat (apply andb_true_iff in H; destruct H as [H ?]).
  apply negb_true_iff in H. apply N.eqb_neq in H.
  match goal with X : negb (last _ _ =? 0) = true |- _ => apply negb_true_iff in X; apply N.eqb_neq in X; rename X into HL end.
  split; [exists d, r; repeat split; assumption|assumption].
Qed.

Lemma num_lit_wf : forall lx, num_lexeme_ok lx (floaty lx) = true -> lit_wf (num_lit lx) = true.
Proof. intros lx H. unfold num_lit. destruct (floaty lx); exact H. Qed.

Lemma coerce_float_num_lit : forall lx, coerce_scalar (s "Float") (num_lit lx) =
  let '(neg, ds, dp) := float_of_lexeme lx in Some (VFloat neg ds dp).
Proof. intro lx. unfold num_lit. destruct (floaty lx); reflexivity. Qed.

Lemma same_float_refl : forall n ds dp, same_value (VFloat n ds dp) (VFloat n ds dp) = true.
Proof. intros. cbn [same_value]. rewrite eqb_reflx, bytes_eqb_refl, Z.eqb_refl. reflexivity. Qed.

Definition rt (v : value) (ol : option lit) (co : lit -> option value) : Prop :=
  exists l v', ol = Some l /\ lit_wf l = true /\ co l = Some v' /\ same_value v v' = true.

Lemma scalar_roundtrip : forall nm v, wt_scalar nm v = true ->
  v <> VNull /\ rt v (scalar_lit (bytes_eqb nm (s "Float")) v) (coerce_scalar nm).
Proof.
  intros nm v H. unfold wt_scalar in H.
  destruct (bytes_eqb nm (s "Int")) eqn:EI.
  { apply bytes_eqb_eq in EI. subst nm. destruct v as [|z|n ds dp|b|b|l|kv]; try discriminate H.
    split; [discriminate|]. exists (LInt (dec_Z z)), (VInt z). split; [reflexivity|]. split; [apply dec_Z_int_token|].
    split; [|cbn [same_value]; apply Z.eqb_refl].
    change (coerce_scalar (s "Int") (LInt (dec_Z z))) with (let z' := Z_of_dec (dec_Z z) in if in_int32 z' then Some (VInt z') else None).
    rewrite Z_of_dec_Z. cbv zeta. rewrite H. reflexivity. }
  destruct (bytes_eqb nm (s "Float")) eqn:EF.
  { apply bytes_eqb_eq in EF. subst nm. destruct v as [|z|n ds dp|b|b|l|kv]; try discriminate H.
    - split; [discriminate|].
      destruct (float_of_Z z) as [[n ds] dp] eqn:EZ.
      exists (LFloat (dec_Z z ++ [46; 48])%list), (VFloat n ds dp). split; [reflexivity|]. split; [apply dec_Z_dot0_float_token|]. split.
      + change (coerce_scalar (s "Float") (LFloat (dec_Z z ++ [46; 48])%list))
          with (let '(neg, ds, dp) := float_of_lexeme (dec_Z z ++ [46; 48])%list in Some (VFloat neg ds dp)).
        rewrite float_of_int_dot0, EZ. reflexivity.
      + cbn [same_value]. rewrite EZ. rewrite eqb_reflx, bytes_eqb_refl, Z.eqb_refl. reflexivity.
    - split; [discriminate|]. exists (num_lit (fmt_g n ds dp)), (VFloat n ds dp). split; [reflexivity|].
      destruct ds as [|d r].
      + cbn [float_ok] in H. apply andb_true_iff in H. destruct H as [Hn Hp]. apply negb_true_iff in Hn. apply Z.eqb_eq in Hp. subst.
        split; [reflexivity|]. split; reflexivity.
      + pose proof (float_ok_digits _ _ _ _ H) as Hd.
        split; [apply num_lit_wf; apply (fmt_g_token n (d :: r) dp Hd)|]. split; [|apply same_float_refl].
        rewrite coerce_float_num_lit. rewrite (fmt_g_read n (d :: r) dp Hd). reflexivity. }
  destruct (bytes_eqb nm (s "Boolean")) eqn:EB.
  { apply bytes_eqb_eq in EB. subst nm. destruct v as [|z|n ds dp|b|b|l|kv]; try discriminate H.
    split; [discriminate|]. exists (LBool b), (VBool b). repeat split. cbn [same_value]. destruct b; reflexivity. }
  destruct (bytes_eqb nm (s "String")) eqn:ES.
  { apply bytes_eqb_eq in ES. subst nm. destruct v as [|z|n ds dp|b|b|l|kv]; try discriminate H.
    split; [discriminate|]. exists (LStr b), (VStr b). split; [reflexivity|]. split; [exact H|]. split; [reflexivity|].
    cbn [same_value]. apply bytes_eqb_refl. }
  destruct (bytes_eqb nm (s "ID")) eqn:EID; [|discriminate H].
  apply bytes_eqb_eq in EID. subst nm. destruct v as [|z|n ds dp|b|b|l|kv]; try discriminate H.
  split; [discriminate|]. exists (LStr b), (VStr b). split; [reflexivity|]. split; [exact H|]. split; [reflexivity|].
  cbn [same_value]. apply bytes_eqb_refl.
Qed.

(* ---------- lists ---------- *)
Lemma list_roundtrip (f : value -> option lit) (g : lit -> option value) : forall l,
  Forall (fun x => rt x (f x) g) l ->
  forallb lit_wf (filter_some (map f l)) = true /\
  exists vs, all_some (map g (filter_some (map f l))) = Some vs /\ same_value (VList l) (VList vs) = true.
Proof.
  induction l as [|x r IH]; intro H.
  - split; [reflexivity|]. exists []. split; reflexivity.
  - inversion H as [|x' l' (y & v' & Hf & Hw & Hg & Hs) Hr]; subst. destruct (IH Hr) as (W & vs & Ha & Hsv).
    cbn [map]. rewrite Hf. cbn [filter_some map forallb all_some]. rewrite Hw, W, Hg, Ha. split; [reflexivity|].
    exists (v' :: vs). split; [reflexivity|]. rewrite same_list_cons, Hs, Hsv. reflexivity.
Qed.

(* ---------- input objects ---------- *)
Lemma assoc_name_notin {A} : forall (l : list (name * A)) n, ~ In n (map fst l) -> assoc_name n l = None.
Proof.
  induction l as [|[m x] r IH]; intros n H; [reflexivity|]. cbn [assoc_name].
  destruct (bytes_eqb m n) eqn:E.
  - apply bytes_eqb_eq in E. subst. exfalso. apply H. left. reflexivity.
  - apply IH. intro Hin. apply H. right. exact Hin.
Qed.

Lemma bytes_eqb_false : forall a b : bytes, a <> b -> bytes_eqb a b = false.
Proof. intros a b H. destruct (bytes_eqb a b) eqn:E; [|reflexivity]. apply bytes_eqb_eq in E. contradiction. Qed.

Section Fields.
  Variable wt : tref -> value -> bool.
  Variable dflt : name -> option value.

  Lemma wt_fields_keys : forall sfs kv, wt_fields wt dflt sfs kv = true -> incl (map fst kv) (map fst sfs).
  Proof.
    induction sfs as [|[fn ft] r IH]; intros kv H; cbn [wt_fields] in H.
    - destruct kv; [intros x []|discriminate].
    - destruct kv as [|[k x] kv'].
      + intros y [].
      + destruct (bytes_eqb k fn) eqn:E.
        * apply bytes_eqb_eq in E. subst k. apply andb_true_iff in H. destruct H as [_ H].
          intros y [Hy|Hy]; [left; exact Hy|right; exact (IH kv' H y Hy)].
        * destruct (dflt fn); [discriminate|]. intros y Hy. right. exact (IH _ H y Hy).
  Qed.

  (* the present fields, in field order: what the map says about each field of the type *)
  Definition present (kv : list (name * value)) (fd : name * tref) : option (name * value) :=
    match assoc_name (fst fd) kv with Some x => Some (fst fd, x) | None => None end.

  Lemma wt_fields_canon : forall sfs kv, NoDup (map fst sfs) -> wt_fields wt dflt sfs kv = true ->
    kv = filter_some (map (present kv) sfs)
    /\ forall fd, In fd sfs ->
         match assoc_name (fst fd) kv with
         | Some x => name_lexeme_ok (fst fd) = true /\ wt (snd fd) x = true
         | None => dflt (fst fd) = None
         end.
  Proof.
    induction sfs as [|[fn ft] r IH]; intros kv Hnd H; cbn [wt_fields] in H.
    - destruct kv; [|discriminate]. split; [reflexivity|intros fd []].
    - cbn [map] in Hnd. inversion Hnd as [|? ? Hni Hnd']; subst.
      assert (Hskip : dflt fn = None -> wt_fields wt dflt r kv = true ->
                kv = filter_some (map (present kv) ((fn, ft) :: r))
                /\ forall fd, In fd ((fn, ft) :: r) ->
                     match assoc_name (fst fd) kv with
                     | Some x => name_lexeme_ok (fst fd) = true /\ wt (snd fd) x = true
                     | None => dflt (fst fd) = None
                     end).
      { intros Hd Hr. destruct (IH kv Hnd' Hr) as [E F].
        assert (Hn : assoc_name fn kv = None).
        { apply assoc_name_notin. intro Hin. apply Hni. exact (wt_fields_keys r kv Hr fn Hin). }
        split.
        - cbn [map filter_some]. unfold present at 1. cbn [fst]. rewrite Hn. exact E.
        - intros fd [<-|Hin]; [cbn [fst]; rewrite Hn; exact Hd|exact (F fd Hin)]. }
      destruct kv as [|[k x] kv'].
      + destruct (dflt fn) eqn:Ed; [discriminate|]. exact (Hskip eq_refl H).
      + destruct (bytes_eqb k fn) eqn:E.
        * apply bytes_eqb_eq in E. subst k.
          apply andb_true_iff in H. destruct H as [H Hr]. apply andb_true_iff in H. destruct H as [Hname Hwt].
          destruct (IH kv' Hnd' Hr) as [E' F].
          assert (Hother : forall fd, In fd r -> assoc_name (fst fd) ((fn, x) :: kv') = assoc_name (fst fd) kv').
          { intros fd Hin. cbn [assoc_name]. rewrite bytes_eqb_false; [reflexivity|].
            intro Heq. apply Hni. rewrite Heq. apply in_map. exact Hin. }
          split.
          -- cbn [map filter_some]. unfold present at 1. cbn [fst assoc_name]. rewrite bytes_eqb_refl. f_equal.
             rewrite E' at 1. f_equal. apply map_ext_in. intros fd Hin. unfold present. rewrite (Hother fd Hin). reflexivity.
          -- intros fd [<-|Hin].
             ++ cbn [fst snd assoc_name]. rewrite bytes_eqb_refl. split; assumption.
             ++ rewrite (Hother fd Hin). exact (F fd Hin).
        * destruct (dflt fn) eqn:Ed; [discriminate|]. exact (Hskip eq_refl H).
  Qed.
End Fields.

(* looking a name up in a list built field by field from a duplicate-free field list *)
Lemma assoc_filter_map {A B} (G : name * A -> option B) : forall (sfs : list (name * A)) fd,
  NoDup (map fst sfs) -> In fd sfs ->
  assoc_name (fst fd) (filter_some (map (fun e => match G e with Some y => Some (fst e, y) | None => None end) sfs)) = G fd.
Proof.
  induction sfs as [|e r IH]; intros fd Hnd Hin; [contradiction|].
  cbn [map] in Hnd. inversion Hnd as [|? ? Hni Hnd']; subst. cbn [map filter_some].
  destruct Hin as [->|Hin].
  - destruct (G fd) as [y|] eqn:Eg.
    + cbn [filter_some assoc_name]. rewrite bytes_eqb_refl. reflexivity.
    + cbn [filter_some]. apply assoc_name_notin. intro Hx. apply Hni.
      apply in_map_iff in Hx. destruct Hx as [[n y] [Hn Hy]]. cbn [fst] in Hn. subst n.
      assert (Hsub : forall l : list (name * A), In (fst fd, y) (filter_some (map (fun e => match G e with Some y => Some (fst e, y) | None => None end) l)) -> In (fst fd) (map fst l)).
      { induction l as [|e' l' IHl]; cbn [map filter_some]; [intros []|].
        destruct (G e') as [y'|]; cbn [filter_some].
        - intros [Heq|Hl]; [left; inversion Heq; reflexivity|right; exact (IHl Hl)].
        - intro Hl. right. exact (IHl Hl). }
      exact (Hsub r Hy).
  - assert (Hne : fst e <> fst fd) by (intro Heq; apply Hni; rewrite Heq; apply in_map; exact Hin).
    destruct (G e) as [y|]; cbn [filter_some assoc_name].
    + rewrite (bytes_eqb_false _ _ Hne). exact (IH fd Hnd' Hin).
    + exact (IH fd Hnd' Hin).
Qed.

Lemma same_obj_pointwise {A} (K H : A -> option (name * value)) : forall l : list A,
  (forall a, In a l -> match K a, H a with
                       | Some (n, u), Some (m, w) => n = m /\ same_value u w = true
                       | None, None => True
                       | _, _ => False
                       end) ->
  same_value (VObj (filter_some (map K l))) (VObj (filter_some (map H l))) = true.
Proof.
  induction l as [|a r IH]; intro Hall; [reflexivity|].
  pose proof (Hall a (or_introl eq_refl)) as Ha. specialize (IH (fun b Hb => Hall b (or_intror Hb))).
  cbn [map filter_some]. destruct (K a) as [[n u]|], (H a) as [[m w]|]; try contradiction; cbn [filter_some].
  - destruct Ha as [-> Hs]. rewrite same_obj_cons, bytes_eqb_refl, Hs. exact IH.
  - exact IH.
Qed.

Lemma obj_roundtrip (wt : tref -> value -> bool) (ast : tref -> value -> option lit) (co : tref -> lit -> option value)
      (dflt : name -> option value) :
  (forall t v, wt t v = true -> rt v (ast t v) (co t)) ->
  (forall t, ast t VNull = None) ->
  forall sfs kv, NoDup (map fst sfs) -> wt_fields wt dflt sfs kv = true ->
    lit_wf (LObj (obj_lit ast sfs kv)) = true
    /\ same_value (VObj kv) (VObj (obj_val co dflt sfs (obj_lit ast sfs kv))) = true.
Proof.
  intros Hrt Hnull sfs kv Hnd Hwt.
  destruct (wt_fields_canon wt dflt sfs kv Hnd Hwt) as [Ekv Hfd].
  set (G := fun fd : name * tref => ast (snd fd) (lookup_or_null (fst fd) kv)).
  assert (Ekl : obj_lit ast sfs kv = filter_some (map (fun e => match G e with Some y => Some (fst e, y) | None => None end) sfs)) by reflexivity.
  (* what G says on each field *)
  assert (HG : forall fd, In fd sfs ->
             match assoc_name (fst fd) kv with
             | Some x => name_lexeme_ok (fst fd) = true /\ rt x (G fd) (co (snd fd))
             | None => G fd = None /\ dflt (fst fd) = None
             end).
  { intros fd Hin. specialize (Hfd fd Hin). unfold G, lookup_or_null.
    destruct (assoc_name (fst fd) kv) as [x|].
    - destruct Hfd as [Hn Hw]. split; [exact Hn|exact (Hrt _ _ Hw)].
    - split; [apply Hnull|exact Hfd]. }
  split.
  - cbn [lit_wf]. rewrite Ekl. apply forallb_forall. intros [n l] Hin.
    assert (Hsub : forall r : list (name * tref), (forall fd, In fd r -> In fd sfs) ->
              In (n, l) (filter_some (map (fun e => match G e with Some y => Some (fst e, y) | None => None end) r)) ->
              name_lexeme_ok n && lit_wf l = true).
    { induction r as [|e r' IHr]; intros Hsubset Hx; [contradiction|]. cbn [map filter_some] in Hx.
      pose proof (HG e (Hsubset e (or_introl eq_refl))) as He.
      destruct (G e) as [y|] eqn:Eg; cbn [filter_some] in Hx.
      - destruct Hx as [Heq|Hx]; [|exact (IHr (fun fd Hf => Hsubset fd (or_intror Hf)) Hx)].
        inversion Heq; subst. destruct (assoc_name (fst e) kv) as [x|].
        + destruct He as [Hn (l0 & v' & El & Wl & _)]. inversion El; subst. cbn [fst snd]. rewrite Hn, Wl. reflexivity.
        + destruct He as [He _]. discriminate He.
      - exact (IHr (fun fd Hf => Hsubset fd (or_intror Hf)) Hx). }
    exact (Hsub sfs (fun fd Hf => Hf) Hin).
  - rewrite Ekv at 1. unfold obj_val. apply same_obj_pointwise. intros fd Hin.
    rewrite Ekl. rewrite (assoc_filter_map G sfs fd Hnd Hin).
    specialize (HG fd Hin). unfold present.
    destruct (assoc_name (fst fd) kv) as [x|].
    + destruct HG as [_ (l0 & v' & El & _ & Hc & Hs)]. rewrite El, Hc. split; [reflexivity|exact Hs].
    + destruct HG as [HGn Hd]. rewrite HGn, Hd. exact I.
Qed.

(* ---------- enums ---------- *)
Lemma index_of_nth' : forall names n k idx, NoDup names -> nth_error names idx = Some n ->
  index_of n names k = Some (k + Z.of_nat idx)%Z.
Proof.
  induction names as [|m r IH]; intros n k idx Hnd Hn; destruct idx; simpl in *; try discriminate.
  - inversion Hn; subst. rewrite bytes_eqb_refl. f_equal. lia.
  - inversion Hnd as [|x l Hni Hnd']; subst.
    destruct (bytes_eqb m n) eqn:E.
    + apply bytes_eqb_eq in E. subst. exfalso. apply Hni. exact (nth_error_In _ _ Hn).
    + rewrite (IH n (k + 1)%Z idx Hnd' Hn). f_equal. lia.
Qed.

(* ---------- the default-value round trip ---------- *)
Lemma ast_null : forall fuel ts t, ast_from_value fuel ts t VNull = None.
Proof.
  induction fuel as [|f IH]; intros ts t; [reflexivity|]. cbn [ast_from_value]. destruct t; try reflexivity. apply IH.
Qed.

Lemma default_roundtrip : forall fuel ts D t v, wt_default fuel ts D t v = true ->
  rt v (ast_from_value fuel ts t v) (coerce fuel ts D t).
Proof.
  induction fuel as [|f IH]; intros ts D t v H; [discriminate|].
  cbn [wt_default] in H. destruct t as [|i|t|t].
  - discriminate.
  - destruct (vfind ts i) as [vt|] eqn:Ev; [|discriminate].
    destruct (vt_def vt) as [|ifs fs|fs|ms|names|fs|] eqn:Ed; try discriminate.
    + (* scalar *)
      destruct (scalar_roundtrip (vt_name vt) v H) as [Hnn (l & v' & El & Wl & Hc & Hs)].
      exists l, v'. split; [|split; [exact Wl|split; [|exact Hs]]].
      * cbn [ast_from_value]. rewrite Ev, Ed. unfold is_float_type. rewrite Ed.
        destruct v; try (contradiction Hnn; reflexivity); exact El.
      * cbn [coerce]. rewrite Ev, Ed. exact Hc.
    + (* enum *)
      destruct v as [|z|n ds dp|b|b|l|kv]; try discriminate.
      apply andb_true_iff in H. destruct H as [H Hn]. apply andb_true_iff in H. destruct H as [Hz Hnd].
      destruct (nth_error names (Z.to_nat (z - 1))) as [n|] eqn:En; [|discriminate].
      exists (LEnum n), (VInt z). split; [|split; [exact Hn|split]].
      * cbn [ast_from_value]. rewrite Ev, Ed, En, Hz. reflexivity.
      * cbn [coerce]. rewrite Ev, Ed.
        rewrite (index_of_nth' names n 1%Z _ (proj1 (nodup_names_sound names) Hnd) En).
        apply Z.ltb_lt in Hz. f_equal. f_equal. lia.
      * cbn [same_value]. apply Z.eqb_refl.
    + (* input object *)
      destruct v as [|z|n ds dp|b|b|l|kv]; try discriminate.
      apply andb_true_iff in H. destruct H as [Hnd Hf].
      assert (Hnd' : NoDup (map fst (sort_name fst fs))).
      { apply (Permutation_NoDup (l := map fst fs)); [apply Permutation_sym; apply Permutation_map; apply sort_name_perm|].
        apply nodup_names_sound. exact Hnd. }
      destruct (obj_roundtrip (wt_default f ts D) (ast_from_value f ts) (coerce f ts D) (ifield_default D i)
                  (fun t0 v0 Hw => IH ts D t0 v0 Hw) (ast_null f ts) (sort_name fst fs) kv Hnd' Hf) as [W S].
      exists (LObj (obj_lit (ast_from_value f ts) (sort_name fst fs) kv)),
             (VObj (obj_val (coerce f ts D) (ifield_default D i) (sort_name fst fs) (obj_lit (ast_from_value f ts) (sort_name fst fs) kv))).
      split; [|split; [exact W|split; [|exact S]]].
      * cbn [ast_from_value]. rewrite Ev, Ed. reflexivity.
      * cbn [coerce]. rewrite Ev, Ed. reflexivity.
  - (* list *)
    destruct v as [|z|n ds dp|b|b|l|kv]; try discriminate.
    assert (Hall : Forall (fun x => rt x (ast_from_value f ts t x) (coerce f ts D t)) l).
    { apply Forall_forall. intros x Hx. apply IH. rewrite forallb_forall in H. exact (H x Hx). }
    destruct (list_roundtrip _ _ l Hall) as (W & vs & Ha & Hs).
    exists (LList (filter_some (map (ast_from_value f ts t) l))), (VList vs).
    split; [reflexivity|]. split; [exact W|]. split; [|exact Hs].
    cbn [coerce]. rewrite Ha. reflexivity.
  - (* non-null *)
    destruct (IH ts D t v H) as (l & v' & El & Wl & Hc & Hs). exists l, v'. repeat split; assumption.
Qed.

(* the property's sentence: print, parse and coerce give back the configured default *)
Theorem default_literal_roundtrip : forall fuel ts D t v, wt_default fuel ts D t v = true ->
  exists l v', ast_from_value fuel ts t v = Some l
    /\ parse_lit (print_lit l) = Some l
    /\ coerce fuel ts D t l = Some v' /\ same_value v v' = true.
Proof.
  intros fuel ts D t v H. destruct (default_roundtrip fuel ts D t v H) as (l & v' & El & Wl & Hc & Hs).
  exists l, v'. split; [exact El|]. split; [exact (parse_print_lit l Wl)|]. split; assumption.
Qed.

(* ---------- the model's report is an exact description ---------- *)
Lemma dref_eqb_refl : forall d, dref_eqb d d = true.
Proof. induction d; cbn [dref_eqb]; auto. rewrite !bytes_eqb_refl. reflexivity. Qed.

Lemma list_match_map {A} (m : A -> A -> bool) (g : A -> A) : forall l,
  (forall x, In x l -> m x (g x) = true) -> list_match m l (map g l) = true.
Proof.
  induction l as [|x r IH]; intro H; [reflexivity|]. cbn [map list_match].
  rewrite (H x (or_introl eq_refl)). apply IH. intros y Hy. apply H. right. exact Hy.
Qed.

Lemma list_match_refl {A} (m : A -> A -> bool) : forall l, (forall x, In x l -> m x x = true) -> list_match m l l = true.
Proof. intros l H. rewrite <- (map_id l) at 2. apply list_match_map. exact H. Qed.

Lemma opt_bytes_refl : forall o, opt_match bytes_eqb o o = true.
Proof. intros [b|]; [apply bytes_eqb_refl|reflexivity]. Qed.

Opaque lit_fuel.

Section Exact.
  Variable spec : bool.
  Variable ts : list vtype.
  Variable D : decor.

  Lemma default_exact : forall e, default_wt ts D e = true -> default_match spec ts D e (resolve_default ts e) = true.
  Proof.
    intros [|t v|text p] H; cbn [default_wt] in H; [reflexivity| |discriminate].
    destruct (default_roundtrip lit_fuel ts D t v H) as (l & v' & El & Wl & Hc & Hs).
    cbn [resolve_default]. rewrite El. cbn [default_match]. rewrite (parse_print_lit l Wl). destruct spec.
    - rewrite Hc. exact Hs.
    - rewrite El, bytes_eqb_refl, lit_eqb_refl. reflexivity.
  Qed.

  Lemma input_exact : forall i, default_wt ts D (di_default i) = true -> input_match spec ts D i (resolve_input ts i) = true.
  Proof.
    intros i H. unfold input_match, resolve_input. cbn [di_name di_desc di_type di_default].
    rewrite !bytes_eqb_refl, dref_eqb_refl, (default_exact _ H). reflexivity.
  Qed.

  Lemma inputs_exact : forall l, forallb (fun i => default_wt ts D (di_default i)) l = true ->
    list_match (input_match spec ts D) l (map (resolve_input ts) l) = true.
  Proof.
    intros l H. apply list_match_map. intros i Hi. apply input_exact. rewrite forallb_forall in H. exact (H i Hi).
  Qed.

  Lemma field_exact : forall f, field_wt ts D f = true -> field_match spec ts D f (resolve_field ts f) = true.
  Proof.
    intros f H. unfold field_match, resolve_field. cbn [df_name df_desc df_args df_type df_isdep df_reason].
    rewrite !bytes_eqb_refl, dref_eqb_refl, eqb_reflx, opt_bytes_refl, (inputs_exact _ H). reflexivity.
  Qed.

  Lemma enum_exact : forall e, enum_match e e = true.
  Proof. intro e. unfold enum_match. rewrite !bytes_eqb_refl, eqb_reflx, opt_bytes_refl. reflexivity. Qed.

  Lemma type_exact : forall t, type_wt ts D t = true -> type_match spec ts D t (resolve_type ts t) = true.
  Proof.
    intros t H. unfold type_wt in H. apply andb_true_iff in H. destruct H as [Hf Hi].
    unfold type_match, resolve_type. cbn [dt_kind dt_name dt_desc dt_fields dt_interfaces dt_possible dt_enums dt_inputs].
    rewrite !bytes_eqb_refl. cbn [andb].
    assert (E1 : opt_match (list_match (field_match spec ts D)) (dt_fields t) (option_map (map (resolve_field ts)) (dt_fields t)) = true).
    { destruct (dt_fields t) as [fs|]; [|reflexivity]. cbn [option_map opt_match]. apply list_match_map.
      intros f Hin. apply field_exact. rewrite forallb_forall in Hf. exact (Hf f Hin). }
    assert (E2 : forall o, opt_match (list_match dref_eqb) o o = true).
    { intros [l|]; [|reflexivity]. cbn [opt_match]. apply list_match_refl. intros x _. apply dref_eqb_refl. }
    assert (E3 : opt_match (list_match enum_match) (dt_enums t) (dt_enums t) = true).
    { destruct (dt_enums t) as [l|]; [|reflexivity]. cbn [opt_match]. apply list_match_refl. intros x _. apply enum_exact. }
    assert (E4 : opt_match (list_match (input_match spec ts D)) (dt_inputs t) (option_map (map (resolve_input ts)) (dt_inputs t)) = true).
    { destruct (dt_inputs t) as [l|]; [|reflexivity]. cbn [option_map opt_match]. apply inputs_exact. exact Hi. }
    rewrite E1, !E2, E3, E4. reflexivity.
  Qed.

  Lemma directive_exact : forall d, forallb (fun i => default_wt ts D (di_default i)) (ddr_args d) = true ->
    directive_match spec ts D d (resolve_directive ts d) = true.
  Proof.
    intros d H. unfold directive_match, resolve_directive. cbn [ddr_name ddr_desc ddr_locs ddr_args].
    rewrite !bytes_eqb_refl, (inputs_exact _ H). cbn [andb]. rewrite andb_true_r.
    apply list_match_refl. intros x _. apply bytes_eqb_refl.
  Qed.
End Exact.

Theorem model_exact : forall spec V D, description_wt (v_types V) D (describe V D) = true ->
  matches spec (v_types V) D (describe V D) (introspect V D) = true.
Proof.
  intros spec V D H. unfold description_wt in H. apply andb_true_iff in H. destruct H as [Ht Hd].
  unfold matches, introspect. cbn [d_types d_query d_mutation d_subscription d_directives].
  rewrite !opt_bytes_refl.
  rewrite (list_match_map _ _ _ (fun t Hin => type_exact spec (v_types V) D t (proj1 (forallb_forall _ _) Ht t Hin))).
  rewrite (list_match_map _ _ _ (fun d Hin => directive_exact spec (v_types V) D d (proj1 (forallb_forall _ _) Hd d Hin))).
  reflexivity.
Qed.
