(* Termination of the validator's model as a whole.  Only the overlap rule's model takes fuel;
   the other recursive models are structural (literal validity, the TypeInfo walk) or iterate
   a fixed number of rounds that is proved sufficient (the closures: closures_stable_always;
   NoFragmentCycles' detect: see detect_fuel below). *)
From Coq Require Import List Arith Lia Bool String NArith ListDec.
From GQL Require Import Exec.Syntax Validate.VSyntax Validate.Overlap Validate.OverlapSpec Validate.OverlapWf Validate.Rules Validate.All
     Proofs.ValidateRules Proofs.ValidateCycles Proofs.ValidateCyclesComplete Proofs.ValidateMemo
     Proofs.ValidateFuel Proofs.ValidateFuelMono Proofs.ValidateRank Proofs.ValidateWfDoc Proofs.ValidateAll.
Import ListNotations.
Close Scope N_scope.
Open Scope nat_scope.

Definition vfuel (W : wdoc) : nat := Nat.max 200 (fuel_of (erase W)).

Lemma validate_model_overlap : forall f f' S W,
  run_overlap S (erase W) true f' = run_overlap S (erase W) true f -> validate_model f' S W = validate_model f S W.
Proof. intros f f' S W E. unfold validate_model, all_rules. simpl. rewrite E. reflexivity. Qed.

(* any fuel at which the overlap model completes is as good as any larger one *)
Theorem validate_fuel_stable : forall S W f fuel,
  run_complete S (erase W) true f = true -> f <= fuel ->
  validate_model fuel S W = validate_model f S W /\ run_complete S (erase W) true fuel = true.
Proof.
  intros S W f fuel Hc L. destruct (run_fuel_mono S (erase W) true f fuel L Hc) as [E C].
  split; [apply validate_model_overlap; exact E | exact C].
Qed.

Theorem validate_fuel_sufficient : forall S W fuel,
  ranked_b (erase W) = true -> vfuel W <= fuel ->
  validate_model fuel S W = validate_model (vfuel W) S W /\ run_complete S (erase W) true fuel = true.
Proof.
  intros S W fuel Hr L. apply validate_fuel_stable; [|exact L].
  apply fuel_sufficient; [apply (proj1 (ranked_b_acyclic S (erase W))); exact Hr | unfold vfuel; lia].
Qed.

(* a document with a fragment cycle is rejected whatever the fuel *)
Lemma cyclic_rejected : forall S W fuel, ranked_b (erase W) = false -> validate_model fuel S W <> [].
Proof.
  intros S W fuel Hr E. unfold validate_model in E. rewrite flat_map_nil in E.
  assert (In9 : In 9%N all_rules) by (unfold all_rules; simpl; auto 30).
  assert (In18 : In 18%N all_rules) by (unfold all_rules; simpl; auto 30).
  pose proof (E _ In9) as E9. pose proof (E _ In18) as E18. simpl in E9, E18.
  assert (ND : NoDup (map wf_name (w_frags W))).
  { destruct (NoDup_dec string_dec (map wf_name (w_frags W))) as [Y|N]; [exact Y|]. exfalso.
    apply (proj2 (unique_fragment_names_iff W)) in N. apply N. exact E18. }
  assert (NV : ~ Violates_no_fragment_cycles W).
  { intro V. apply (proj2 (no_fragment_cycles_iff W ND)) in V. apply V. exact E9. }
  pose proof (proj2 (ranked_b_acyclic S (erase W)) (acyclic_of_W S W NV)) as R. rewrite R in Hr. discriminate.
Qed.

(* more fuel, same verdict: for every schema and document *)
Theorem validate_fuel_irrelevant : forall S W fuel fuel',
  vfuel W <= fuel -> vfuel W <= fuel' -> (validate_model fuel S W = [] <-> validate_model fuel' S W = []).
Proof.
  intros S W fuel fuel' L L'. destruct (ranked_b (erase W)) eqn:Hr.
  - rewrite (proj1 (validate_fuel_sufficient S W fuel Hr L)), (proj1 (validate_fuel_sufficient S W fuel' Hr L')). reflexivity.
  - split; intro E; exfalso; eapply cyclic_rejected; eauto.
Qed.

(* ---- NoFragmentCycles: the DFS never exhausts its internal fuel |fragments| + 1: every
   recursive call descends into a definition name not visited before ---- *)
Section DetectFuel.
Variable W : wdoc.
Open Scope string_scope.

Lemma fold_ext_inv : forall {A} (P : cyc -> Prop) (step step' : cyc -> A -> cyc) (l : list A),
  (forall st x, In x l -> P st -> step st x = step' st x /\ P (step st x)) ->
  forall st, P st -> fold_left step l st = fold_left step' l st /\ P (fold_left step l st).
Proof.
  intros A P step step' l. induction l as [|x r IH]; intros H st Hs; simpl; [split; [reflexivity | exact Hs]|].
  destruct (H st x (or_introl eq_refl) Hs) as [E Hp]. rewrite <- E.
  apply IH; [intros st' y Hy; apply H; right; exact Hy | exact Hp].
Qed.

Lemma detect_fuel : forall fuel fuel' f path idx st,
  In f (w_frags W) -> ~ In (wf_name f) (cy_visited st) -> unv W st <= fuel -> unv W st <= fuel' ->
  detect W fuel f path idx st = detect W fuel' f path idx st /\
  incl (cy_visited st) (cy_visited (detect W fuel f path idx st)).
Proof.
  induction fuel as [|fu IH]; intros fuel' f path idx st Hf Hn L L'.
  { exfalso. pose proof (unv_dec W st (wf_name f) (in_map wf_name _ f Hf) Hn). lia. }
  destruct fuel' as [|fu'].
  { exfalso. pose proof (unv_dec W st (wf_name f) (in_map wf_name _ f Hf) Hn). lia. }
  cbn [detect].
  set (st1 := {| cy_visited := wf_name f :: cy_visited st; cy_errs := cy_errs st |}).
  assert (U1 : unv W st1 < unv W st) by (apply unv_dec; [apply in_map; exact Hf | exact Hn]).
  assert (I1 : incl (cy_visited st) (cy_visited st1)) by (intros x Hx; right; exact Hx).
  destruct (ctx_spreads (wf_sel f)) as [|sp0 sps]; [split; [reflexivity | exact I1]|].
  match goal with |- fold_left ?stp ?l st1 = fold_left ?stp' ?l st1 /\ _ =>
    destruct (fold_ext_inv (fun st' => incl (cy_visited st1) (cy_visited st')) stp stp' l) with (st := st1) as [E P] end.
  - intros st' sp _ Hp.
    destruct (alookup (snd (snd sp)) ((wf_name f, Datatypes.length path) :: idx)); [split; [reflexivity | exact Hp]|].
    destruct (nmem (snd (snd sp)) (cy_visited st')) eqn:Ev; [split; [reflexivity | exact Hp]|].
    destruct (fragw W (snd (snd sp))) as [sf|] eqn:Efw; [|split; [reflexivity | exact Hp]].
    destruct (fragw_some W _ _ Efw) as [Hsf Hname].
    assert (Hn' : ~ In (wf_name sf) (cy_visited st')) by (rewrite Hname; apply nmem_not_in; exact Ev).
    pose proof (unv_mono W st1 st' Hp) as Um.
    destruct (IH fu' sf (path ++ [fst sp])%list ((wf_name f, Datatypes.length path) :: idx)%list st' Hsf Hn') as [E I]; [lia | lia|].
    split; [exact E | eapply incl_tran; eauto].
  - apply incl_refl.
  - split; [exact E | eapply incl_tran; eauto].
Qed.

Definition cycles_with_fuel (n : nat) : list N :=
  cy_errs (fold_left (fun st f => if nmem (wf_name f) (cy_visited st) then st else detect W n f [] [] st)
                     (w_frags W) {| cy_visited := []; cy_errs := [] |}).

Theorem cycles_fuel_irrelevant : forall n, Datatypes.S (List.length (w_frags W)) <= n ->
  cycles_with_fuel n = rule_no_fragment_cycles W.
Proof.
  intros n L. unfold cycles_with_fuel, rule_no_fragment_cycles. f_equal.
  assert (G : forall l st, incl l (w_frags W) ->
    fold_left (fun st f => if nmem (wf_name f) (cy_visited st) then st else detect W n f [] [] st) l st =
    fold_left (fun st f => if nmem (wf_name f) (cy_visited st) then st
                           else detect W (Datatypes.S (List.length (w_frags W))) f [] [] st) l st).
  { induction l as [|f r IH]; intros st Hi; simpl; [reflexivity|].
    destruct (nmem (wf_name f) (cy_visited st)) eqn:Ev; [apply IH; intros x Hx; apply Hi; right; exact Hx|].
    pose proof (unv_le W st) as U.
    destruct (detect_fuel n (Datatypes.S (List.length (w_frags W))) f [] [] st (Hi f (or_introl eq_refl))) as [E _];
      [apply nmem_not_in; exact Ev | lia | lia|].
    rewrite E. apply IH. intros x Hx. apply Hi. right. exact Hx. }
  apply G. apply incl_refl.
Qed.
End DetectFuel.
