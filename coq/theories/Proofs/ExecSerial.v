(* C13 / C20: resolver calls are segmented by response key in execution order, and for a
   mutation everything belonging to one top-level field precedes everything of the next. *)
From Coq Require Import List ZArith NArith String Bool Lia.
From GQL Require Import Exec.Syntax Exec.Coerce Exec.Exec Exec.Request Proofs.ExecInv Proofs.CollectProofs Run.ExecRun.
Import ListNotations.
Open Scope string_scope.
Open Scope list_scope.

(* the call paths recorded while a selection set at p is executed, segmented by response key *)
Inductive Seg (p : path) : list name -> list path -> Prop :=
| Seg_done ks : Seg p ks []
| Seg_cons k ks ps1 ps2 : Forall (prefix (p ++ [PKey k])) ps1 -> Seg p ks ps2 -> Seg p (k :: ks) (ps1 ++ ps2).

Lemma exec_field_calls : forall fuel E obj src k occs p s,
  match exec_field fuel (complete fuel E) (dethunk fuel E) E obj src k occs p s with
  | XOk _ s' | XRaise _ s' =>
    exists cs, st_calls s' = st_calls s ++ cs /\ Forall (prefix (p ++ [PKey k])) (map c_path cs)
  | XFuel => True
  end.
Proof.
  intros fuel E obj src k occs p s.
  destruct (exec_inv fuel) as [IHc [_ [_ IHd]]].
  pose proof (proj1 (exec_field_inv fuel (complete fuel E) (dethunk fuel E) E obj src k occs p s
                (fun t nodes occs0 fpath p0 v s0 => IHc E t nodes occs0 fpath p0 v s0)
                (fun q s0 p0 H0 => IHd E q s0 p0 H0))) as H.
  destruct (exec_field fuel _ _ E obj src k occs p s) as [y s'|e s'|]; cbn in H; auto;
    destruct H as [[[cs [Hc Hf]] _] _]; exists cs; (split; [exact Hc|]);
    rewrite Forall_map; exact Hf.
Qed.

Lemma groups_seg : forall fuel E obj src g p s,
  match exec_groups fuel E obj src g p s with
  | XOk _ s' | XRaise _ s' =>
    exists cs, st_calls s' = st_calls s ++ cs /\ Seg p (map fst g) (map c_path cs)
  | XFuel => True
  end.
Proof.
  induction fuel as [|fuel IH]; intros E obj src g p s; [exact I|].
  cbn [exec_groups]. destruct g as [|[k occs] rest].
  - exists []. rewrite app_nil_r. split; [reflexivity|constructor].
  - pose proof (exec_field_calls fuel E obj src k occs p s) as Hf.
    destruct (exec_field fuel _ _ E obj src k occs p s) as [y s'|e s'|]; auto.
    + destruct Hf as [cs1 [Hc1 Hp1]]. specialize (IH E obj src rest p s').
      destruct (exec_groups fuel E obj src rest p s') as [ys s''|e s''|]; auto;
        destruct IH as [cs2 [Hc2 Hs2]]; exists (cs1 ++ cs2);
        (split; [rewrite Hc2, Hc1, app_assoc; reflexivity|]);
        cbn [map fst]; rewrite map_app; constructor; assumption.
    + destruct Hf as [cs1 [Hc1 Hp1]]. exists cs1. split; [exact Hc1|].
      cbn [map fst]. rewrite <- (app_nil_r (map c_path cs1)). constructor; [exact Hp1|constructor].
Qed.

(* ---- from the segmentation to the order predicate the runner evaluates ---- *)
Lemma index_of_app : forall k pre ks i, nmem k pre = false ->
  index_of k (pre ++ k :: ks) i = Some (i + N.of_nat (List.length pre))%N.
Proof.
  intros k pre. induction pre as [|x pre IH]; intros ks i H.
  - cbn. rewrite String.eqb_refl. f_equal. lia.
  - cbn [nmem] in H. apply orb_false_iff in H. destruct H as [H1 H2].
    cbn [app index_of]. rewrite H1. rewrite IH; [|exact H2]. f_equal. cbn [List.length]. lia.
Qed.

Lemma nondecreasing_app : forall l1 l2 i j,
  nondecreasing l1 i = true -> (forall x, In x l1 -> x = Some j) -> (i <= j)%N ->
  nondecreasing l2 j = true -> nondecreasing (l1 ++ l2) i = true.
Proof.
  induction l1 as [|x l1 IH]; intros l2 i j H1 Hall Hij H2; cbn [app].
  - destruct l2 as [|[y|] l2]; cbn in *; auto.
    apply andb_true_iff in H2. destruct H2 as [H2 H3]. apply andb_true_iff. split; [|exact H3].
    apply N.leb_le. apply N.leb_le in H2. lia.
  - rewrite (Hall x (or_introl eq_refl)) in *. cbn [nondecreasing] in *.
    apply andb_true_iff in H1. destruct H1 as [H1 H1'].
    apply andb_true_iff. split; [exact H1|].
    eapply IH; [exact H1'| |apply N.le_refl|exact H2].
    intros y Hy. apply Hall. right. exact Hy.
Qed.

Lemma nondecreasing_const : forall (l : list (option N)) j i,
  (forall x, In x l -> x = Some j) -> (i <= j)%N -> nondecreasing l i = true.
Proof.
  induction l as [|x l IH]; intros j i Hall Hij; [reflexivity|].
  rewrite (Hall x (or_introl eq_refl)). cbn [nondecreasing].
  apply andb_true_iff. split; [apply N.leb_le; exact Hij|].
  eapply IH; [|apply N.le_refl]. intros y Hy. apply Hall. right. exact Hy.
Qed.

Lemma nmem_NoDup_app : forall pre k ks, NoDup (pre ++ k :: ks) -> nmem k pre = false.
Proof.
  induction pre as [|x pre IH]; intros k ks H; [reflexivity|].
  cbn [app] in H. inversion H; subst. cbn [nmem].
  apply orb_false_iff. split.
  - destruct (String.eqb k x) eqn:E; [|reflexivity]. apply String.eqb_eq in E. subst.
    exfalso. apply H2. apply in_or_app. right. left. reflexivity.
  - eapply IH. exact H3.
Qed.

Lemma seg_serial : forall ks ps, Seg [] ks ps ->
  forall pre, NoDup (pre ++ ks) ->
    nondecreasing (map (top_index (pre ++ ks)) ps) (N.of_nat (List.length pre)) = true.
Proof.
  intros ks ps H. induction H as [ks|k ks ps1 ps2 H1 H2 IH]; intros pre Hn; [reflexivity|].
  rewrite map_app.
  assert (Hidx : forall x, In x (map (top_index (pre ++ k :: ks)) ps1) -> x = Some (N.of_nat (List.length pre))).
  { intros x Hx. apply in_map_iff in Hx. destruct Hx as [q [<- Hq]].
    rewrite Forall_forall in H1. destruct (H1 q Hq) as [r ->]. cbn [app top_index].
    rewrite index_of_app; [f_equal; lia|]. eapply nmem_NoDup_app. exact Hn. }
  specialize (IH (pre ++ [k])). rewrite <- app_assoc in IH. cbn [app] in IH. specialize (IH Hn).
  rewrite app_length in IH. cbn [List.length] in IH.
  eapply nondecreasing_app; [eapply nondecreasing_const; [exact Hidx|apply N.le_refl]|exact Hidx|apply N.le_refl|].
  destruct (map (top_index (pre ++ k :: ks)) ps2) as [|[y|] l2] eqn:E; cbn in IH |- *; auto.
  apply andb_true_iff in IH. destruct IH as [I1 I2]. apply andb_true_iff. split; [|exact I2].
  apply N.leb_le. apply N.leb_le in I1. lia.
Qed.

(* forcing a response that holds nothing deferred runs no resolver *)
Lemma dethunk_nothunk_calls : forall fuel E q s q' s',
  thunks q = [] -> dethunk fuel E q s = XOk q' s' -> st_calls s' = st_calls s.
Proof.
  intros fuel E q s q' s' Hq Hd.
  destruct (exec_inv fuel) as [_ [_ [_ IHd]]].
  pose proof (IHd E q s [PKey "a"] (thunks_ok_nil _ _ Hq)) as Ha.
  pose proof (IHd E q s [PKey "b"] (thunks_ok_nil _ _ Hq)) as Hb.
  rewrite Hd in Ha, Hb. cbn in Ha, Hb.
  destruct Ha as [[[ca [Ea Fa]] _] _]. destruct Hb as [[[cb [Eb Fb]] _] _].
  rewrite Ea in Eb. apply app_inv_head in Eb. subst cb.
  destruct ca as [|c ca]; [rewrite app_nil_r in Ea; exact Ea|].
  inversion Fa as [|? ? [ra Ha] _]; subst. inversion Fb as [|? ? [rb Hb] _]; subst.
  rewrite Ha in Hb. discriminate.
Qed.

(* in a mutation every top-level field leaves nothing deferred *)
Lemma exec_field_serial_nothunks : forall fuel E obj src k occs s y s',
  en_serial E = true ->
  exec_field fuel (complete fuel E) (dethunk fuel E) E obj src k occs [] s = XOk (Some y) s' -> thunks y = [].
Proof.
  intros fuel E obj src k occs s y s' Hser H.
  destruct (exec_inv fuel) as [IHc [_ [_ IHd]]].
  pose proof (proj2 (exec_field_inv fuel (complete fuel E) (dethunk fuel E) E obj src k occs [] s
                (fun t nodes occs0 fpath p0 v s0 => IHc E t nodes occs0 fpath p0 v s0)
                (fun q s0 p0 H0 => IHd E q s0 p0 H0)) Hser eq_refl) as Hn.
  rewrite H in Hn. exact Hn.
Qed.

Lemma groups_serial_nothunks : forall fuel E obj src g s fs s',
  en_serial E = true -> exec_groups fuel E obj src g [] s = XOk fs s' ->
  Forall (fun kv => thunks (snd kv) = []) fs.
Proof.
  induction fuel as [|fuel IH]; intros E obj src g s fs s' Hser H; [discriminate|].
  cbn [exec_groups] in H. destruct g as [|[k occs] rest]; [inversion H; constructor|].
  destruct (exec_field fuel _ _ E obj src k occs [] s) as [y s1|e s1|] eqn:Ef; try discriminate.
  destruct (exec_groups fuel E obj src rest [] s1) as [ys s2|e s2|] eqn:Eg; try discriminate.
  inversion H; subst. specialize (IH _ _ _ _ _ _ _ Hser Eg).
  destruct y as [y|]; [|exact IH]. constructor; [|exact IH].
  cbn [snd]. eapply exec_field_serial_nothunks; eassumption.
Qed.

(* C13 on the model: in a mutation the resolver calls, in execution order, never go back to an
   earlier top-level field *)
Lemma mutation_calls_serial : forall fuel S D opn inputs root or tor data s,
  is_mutation D opn = true ->
  request fuel S D opn inputs root or tor = RDone data s ->
  serial_ok (root_keys fuel S D opn inputs) (map c_path (st_calls s)) = true.
Proof.
  intros fuel S D opn inputs root or tor data s Hm H.
  unfold request in H. unfold root_keys. unfold is_mutation in Hm.
  destruct (get_operation D opn) as [op|]; [|discriminate].
  destruct (o_kind op) eqn:Ek; try discriminate.
  unfold root_type in *. rewrite Ek in *.
  destruct (s_mutation S) as [rt|]; [|discriminate].
  destruct (get_variable_values fuel S (o_vars op) inputs) as [[vars|e]|]; try discriminate.
  destruct (collect fuel S D vars rt (o_sel op) [] []) as [[g v]|] eqn:Ec; [|discriminate].
  set (E := {| en_S := S; en_D := D; en_vars := vars; en_or := or; en_tor := tor; en_serial := true |}) in *.
  pose proof (groups_seg fuel E rt root g [] st0) as Hseg.
  assert (Hkeys : NoDup (map fst g)) by (eapply collect_keys_nodup; [exact Ec|constructor]).
  destruct (exec_groups fuel E rt root g [] st0) as [fs s1|e s1|] eqn:Eg; try discriminate.
  - destruct Hseg as [cs [Hc Hs]]. cbn in Hc.
    destruct (dethunk fuel E (QObj fs) s1) as [q s2|e s2|] eqn:Ed; try discriminate.
    + inversion H; subst.
      assert (Hq : thunks (QObj fs) = []).
      { cbn [thunks]. apply thunks_fields_nil. apply (groups_serial_nothunks fuel E rt root g st0 fs s1 eq_refl Eg). }
      rewrite (dethunk_nothunk_calls _ _ _ _ _ _ Hq Ed). try rewrite Hc.
      unfold serial_ok. apply (seg_serial _ _ Hs []). exact Hkeys.
    + exfalso. destruct (exec_inv fuel) as [_ [_ [_ IHd]]].
      assert (Hq : thunks (QObj fs) = []).
      { cbn [thunks]. apply thunks_fields_nil. apply (groups_serial_nothunks fuel E rt root g st0 fs s1 eq_refl Eg). }
      pose proof (IHd E (QObj fs) s1 [] (thunks_ok_nil _ _ Hq)) as Hd. rewrite Ed in Hd. exact Hd.
  - destruct Hseg as [cs [Hc Hs]]. cbn in Hc. inversion H; subst. cbn [st_calls add_err]. try rewrite Hc.
    unfold serial_ok. apply (seg_serial _ _ Hs []). exact Hkeys.
Qed.

(* the first invocation recorded for a field is the field's own, with the parameters of C20 *)
Lemma exec_field_first_call : forall fuel cmp dth E obj src k occs p s fd args,
  String.eqb (match occs with o :: _ => oc_name o | [] => "" end) "__typename" = false ->
  find_field (match occs with o :: _ => oc_name o | [] => "" end) (object_fields (en_S E) obj) = Some fd ->
  get_argument_values fuel (en_S E) (f_args fd) (match occs with o :: _ => oc_args o | [] => [] end)
                      (Some (en_vars E)) = Some args ->
  (forall t nodes occs0 fpath p0 v s0, inv1 p0 s0 (cmp t nodes occs0 fpath p0 v s0)) ->
  (forall q s0 p0, thunks_ok p0 q -> invD p0 s0 (dth q s0)) ->
  match exec_field fuel cmp dth E obj src k occs p s with
  | XOk _ s' | XRaise _ s' =>
    exists cs, st_calls s' = st_calls s ++
      {| c_path := p ++ [PKey k]; c_parent := obj;
         c_field := match occs with o :: _ => oc_name o | [] => "" end;
         c_source := src; c_args := args; c_nodes := map oc_id occs |} :: cs
      /\ Forall (fun c => prefix (p ++ [PKey k]) (c_path c)) cs
  | XFuel => True
  end.
Proof.
  intros fuel cmp dth E obj src k occs p s fd args Htn Hfd Hargs IHc IHd. unfold exec_field. cbv zeta. unfold name in *.
  rewrite Htn, Hfd, Hargs.
  set (fname := match occs with o :: _ => oc_name o | [] => "" end).
  set (nodes := map oc_id occs).
  set (fp := p ++ [PKey k]).
  set (c := {| c_path := fp; c_parent := obj; c_field := fname; c_source := src; c_args := args; c_nodes := nodes |}).
  set (s1 := add_call c s).
  destruct (match en_or E fp with Some o => force o | None => (OVal RNull, false) end) as [o thunked].
  set (s2 := match en_or E fp with Some _ => s1 | None => add_missing fp s1 end).
  assert (Hs2 : ext fp s1 s2).
  { unfold s2. destruct (en_or E fp); [apply ext_refl|apply ext_add_missing]. }
  set (c0 := match o with
             | OVal v => cmp (f_type fd) nodes occs fp fp v s2
             | _ => XRaise {| e_path := fp; e_nodes := nodes |} s2
             end).
  assert (Hc0 : inv1 fp s1 c0).
  { unfold c0. destruct o; try (cbn; split; [exact Hs2|apply prefix_refl]).
    eapply inv1_pre; [exact Hs2|apply IHc]. }
  set (r1 := if thunked && negb (is_nonnull (f_type fd))
             then XOk (QThunk (f_type fd) nodes occs fp o) s2
             else match c0 with
                  | XRaise e s' => if thunked then XRaise e (set_escape s') else c0
                  | _ => c0
                  end).
  assert (Hr1 : inv1 fp s1 r1).
  { unfold r1. destruct (thunked && negb (is_nonnull (f_type fd))) eqn:Et.
    - cbn. split; [exact Hs2|]. unfold thunks_ok. cbn. constructor; [|constructor].
      split; cbn; [|apply prefix_refl].
      apply andb_true_iff in Et. destruct Et as [_ Et]. destruct (is_nonnull (f_type fd)); [discriminate|reflexivity].
    - destruct c0 as [q0 s0|e0 s0|]; cbn in Hc0 |- *; auto.
      destruct thunked; cbn; [|exact Hc0].
      destruct Hc0 as [H1 H2]. split; [eapply ext_trans; [exact H1|apply ext_set_escape]|exact H2]. }
  pose proof (inv1_catch fp s1 (f_type fd) r1 Hr1) as Hcatch.
  assert (Hfin : forall s', ext fp s1 s' ->
            exists cs, st_calls s' = st_calls s ++ c :: cs /\ Forall (fun c' => prefix fp (c_path c')) cs).
  { intros s' [[cs [Hcs Hf]] _]. exists cs. split; [|exact Hf]. rewrite Hcs. unfold s1. cbn.
    rewrite <- app_assoc. reflexivity. }
  destruct (catch_at (f_type fd) r1) as [y s'|e s'|]; cbn in Hcatch |- *; auto.
  - destruct (en_serial E && match p with [] => true | _ :: _ => false end).
    + destruct Hcatch as [H1 H2]. pose proof (IHd y s' fp H2) as Hd.
      destruct (dth y s') as [y' s''|e s''|]; cbn in Hd |- *; auto; [|contradiction].
      apply Hfin. eapply ext_trans; [exact H1|tauto].
    + apply Hfin. tauto.
  - apply Hfin. tauto.
Qed.
