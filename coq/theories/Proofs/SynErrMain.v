(* Syntax-error positions: the error-position model agrees with the parser model
   on what is rejected, reports the start of a token of the input (or the lexer's
   position inside the malformed lexeme), and that token is one no valid document
   can have at this place after the same preceding tokens. *)
From Coq Require Import String List NArith Bool Lia PeanoNat.
From GQL Require Import Base.Bytes Syntax.Lexer Syntax.Ast Syntax.Parser SynErr.LexErr SynErr.ParseErr.
From GQL Require Import Proofs.SyntaxLexer Proofs.SyntaxTerm Proofs.SynErrWB Proofs.SynErrErase.
Import ListNotations.
Open Scope N_scope.

(* ---- the lexer with positions lexes what the lexer model lexes ---- *)
Lemma lex_allE_spec : forall fuel s pos,
  match lex_all fuel s pos with
  | Ok (ts, _) => lex_allE fuel s pos = (ts, LDone)
  | Err => exists ts a b, lex_allE fuel s pos = (ts, LBad a b)
  | OutOfFuel => exists ts, lex_allE fuel s pos = (ts, LFuel)
  end.
Proof.
  induction fuel as [|f IH]; intros s pos; cbn [lex_all lex_allE]; [exists []; reflexivity|].
  destruct (skip_ws (S f) s pos false) as [[[s1 p1] mb]| |]; [|eexists; eexists; eexists; reflexivity|eexists; reflexivity].
  destruct (read_token (S f) s1 p1) as [[[t s2] p2]| |]; [|eexists; eexists; eexists; reflexivity|eexists; reflexivity].
  specialize (IH s2 p2).
  destruct (tk t); try reflexivity;
    (destruct (lex_all f s2 p2) as [[ts fl]| |];
     [ rewrite IH; reflexivity
     | destruct IH as (ts & a & b & ->); eexists; eexists; eexists; reflexivity
     | destruct IH as (ts & ->); eexists; reflexivity ]).
Qed.

Definition tokens_of (src : bytes) : list token := fst (lexE src).

Lemma lexE_ok : forall src ts mb, lex src = Ok (ts, mb) -> lexE src = (ts, LDone).
Proof.
  intros src ts mb H. unfold lex, lex_src in H. cbn [snd] in H. unfold lexE.
  pose proof (lex_allE_spec (S (length src)) src 0) as Sp. rewrite H in Sp. exact Sp.
Qed.
Lemma lexE_err : forall src, lex src = Err -> exists ts a b, lexE src = (ts, LBad a b).
Proof.
  intros src H. unfold lex, lex_src in H. cbn [snd] in H. unfold lexE.
  pose proof (lex_allE_spec (S (length src)) src 0) as Sp. rewrite H in Sp. exact Sp.
Qed.
Lemma lexE_done : forall src ts, lexE src = (ts, LDone) -> exists mb, lex src = Ok (ts, mb).
Proof.
  intros src ts H. unfold lex, lex_src. cbn [snd]. unfold lexE in H.
  pose proof (lex_allE_spec (S (length src)) src 0) as Sp.
  destruct (lex_all (S (length src)) src 0) as [[ts' mb]| |].
  - rewrite H in Sp. inversion Sp; subst. eauto.
  - destruct Sp as (ts' & a & b & Sp). rewrite H in Sp. discriminate Sp.
  - destruct Sp as (ts' & Sp). rewrite H in Sp. discriminate Sp.
Qed.
Lemma lexE_bad : forall src ts a b, lexE src = (ts, LBad a b) -> lex src = Err.
Proof.
  intros src ts a b H. unfold lex, lex_src. cbn [snd]. unfold lexE in H.
  pose proof (lex_allE_spec (S (length src)) src 0) as Sp.
  destruct (lex_all (S (length src)) src 0) as [[ts' mb]| |].
  - rewrite H in Sp. discriminate Sp.
  - reflexivity.
  - destruct Sp as (ts' & Sp). rewrite H in Sp. discriminate Sp.
Qed.
Lemma lexE_nofuel : forall src ts, lexE src <> (ts, LFuel).
Proof.
  intros src ts H. pose proof (lex_terminates src) as T. unfold lex, lex_src in T. cbn [snd] in T. unfold lexE in H.
  pose proof (lex_allE_spec (S (length src)) src 0) as Sp.
  destruct (lex_all (S (length src)) src 0) as [[ts' mb]| |].
  - rewrite H in Sp. discriminate Sp.
  - destruct Sp as (ts' & a & b & Sp). rewrite H in Sp. discriminate Sp.
  - apply T. reflexivity.
Qed.

(* a lexed token stream is not empty *)
Lemma lex_allE_done_ne : forall fuel s pos ts, lex_allE fuel s pos = (ts, LDone) -> ts <> [].
Proof.
  intros [|f] s pos ts H; cbn [lex_allE] in H; [discriminate H|].
  destruct (skip_ws (S f) s pos false) as [[[s1 p1] mb]| |]; try discriminate H.
  destruct (read_token (S f) s1 p1) as [[[t s2] p2]| |]; try discriminate H.
  destruct (tk t); try (inversion H; subst; discriminate);
    (destruct (lex_allE f s2 p2) as [ts' o]; inversion H; subst; discriminate).
Qed.

(* ---- the recogniser never runs out of the fuel it is given, and more fuel changes nothing ---- *)
Lemma parse_tokensE_nofuel : forall ts, parse_tokensE ts <> FuelE.
Proof.
  intros ts H. pose proof (Er_parse_tokens ts) as E. rewrite H in E. cbn in E.
  pose proof (parse_tokens_terminates ts) as T. destruct (parse_tokens ts); try discriminate E. apply T. reflexivity.
Qed.

Lemma docE_fuel : forall ts n, (S (2 * length ts) <= n)%nat -> parse_documentE n ts = parse_tokensE ts.
Proof.
  intros ts n H. pose proof (ref_parse_documentE (S (2 * length ts)) n H ts) as X.
  change (parse_documentE (S (2 * length ts)) ts) with (parse_tokensE ts) in X.
  exact (X (parse_tokensE_nofuel ts)).
Qed.

(* ---- agreement on acceptance ---- *)
Lemma parse_tokens_err_iff : forall ts, parse_tokens ts = Err <-> exists r, parse_tokensE ts = ErrE r.
Proof.
  intro ts. pose proof (Er_parse_tokens ts) as E.
  destruct (parse_tokens ts); destruct (parse_tokensE ts); cbn in E; try discriminate E; split;
    intro H; try discriminate H; try (destruct H as [? H]; discriminate H); eauto.
Qed.

Lemma parse_tokens_ok_iff : forall ts, (exists d, parse_tokens ts = Ok d) <-> parse_tokensE ts = OkE [].
Proof.
  intro ts. pose proof (Er_parse_tokens ts) as E.
  destruct (parse_tokens ts); destruct (parse_tokensE ts); cbn in E; try discriminate E; split;
    intro H; try discriminate H; try (destruct H as [? H]; discriminate H); eauto.
  inversion E; subst. reflexivity.
Qed.

Theorem parse_err_iff : forall src, parse src = Err <-> exists off, parse_err src = Some off.
Proof.
  intro src. unfold parse, parse_err, parse_err_ext.
  destruct (lex src) as [[ts mb]| |] eqn:L.
  - rewrite (lexE_ok _ _ _ L).
    pose proof (Er_parse_tokens ts) as E.
    destruct (parse_tokens ts) as [d| |]; destruct (parse_tokensE ts) as [r|r|]; cbn in E; try discriminate E.
    + split; [discriminate|intros [off H]; discriminate H].
    + split; [intros _|intros _; reflexivity]. destruct r as [|t r]; [destruct (tok_ext _) as [[a b] c]|destruct (tok_ext t) as [[a b] c]]; eauto.
    + split; [discriminate|intros [off H]; discriminate H].
  - destruct (lexE_err _ L) as (ts & a & b & ->).
    split; [intros _|intros _; reflexivity].
    destruct (parse_tokensE (ts ++ [end_marker a])) as [r|[|t [|t2 r]]|]; eauto.
    destruct (tok_ext t) as [[x y] z]; eauto.
  - exfalso. exact (lex_terminates src L).
Qed.

Theorem parse_err_none_iff : forall src, parse_err src = None <-> exists d, parse src = Ok d.
Proof.
  intro src. split.
  - intro H. destruct (parse src) as [d| |] eqn:P; [eauto| |].
    + apply parse_err_iff in P. destruct P as [off P]. congruence.
    + exfalso. unfold parse in P. destruct (lex src) as [[ts mb]| |] eqn:L; try discriminate P.
      * pose proof (parse_tokens_terminates ts) as T. destruct (parse_tokens ts); try discriminate P. apply T; reflexivity.
      * exact (lex_terminates src L).
  - intros [d P]. destruct (parse_err src) as [off|] eqn:E; [|reflexivity].
    assert (X : parse src = Err) by (apply parse_err_iff; eauto). congruence.
Qed.

(* ---- (a) the reported offset is the start of a token of the input, or the lexer's report ---- *)
Lemma app_last_split : forall (ts : list token) m u t r, ts ++ [m] = u ++ t :: r -> r <> [] ->
  exists r', r = r' ++ [m] /\ ts = u ++ t :: r'.
Proof.
  intros ts m u t r H Hr.
  destruct (exists_last Hr) as (r' & x & ->).
  change (u ++ t :: r' ++ [x]) with (u ++ (t :: r') ++ [x]) in H. rewrite app_assoc in H.
  apply app_inj_tail in H. destruct H as [H1 H2]. subst x. exists r'. split; [reflexivity|].
  rewrite H1. reflexivity.
Qed.

Theorem parse_err_at_token : forall src off lo hi, parse_err_ext src = Some (off, lo, hi) ->
  (exists u t r, tokens_of src = u ++ t :: r /\ (off, lo, hi) = tok_ext t) \/
  (exists s, snd (lexE src) = LBad s off /\ lo = s /\ hi = off).
Proof.
  intros src off lo hi H. unfold parse_err_ext in H. unfold tokens_of.
  destruct (lexE src) as [ts [| s e |]] eqn:L; cbn [fst snd]; [| |discriminate H].
  - destruct (parse_tokensE ts) as [r|[|t r]|] eqn:P; try discriminate H.
    + left. pose proof (lex_allE_done_ne _ _ _ _ L) as NE.
      destruct (exists_last NE) as (u' & t & E). subst ts.
      exists u', t, []. split; [reflexivity|]. rewrite last_last in H. inversion H; reflexivity.
    + left. destruct (wb_err _ (WB_parse_documentE _) _ _ P) as [u Hu].
      exists u, t, r. split; [exact Hu|]. inversion H; reflexivity.
  - destruct (parse_tokensE (ts ++ [end_marker s])) as [r|[|t [|t2 r]]|] eqn:P;
      try solve [right; exists s; inversion H; subst; auto].
    left. destruct (wb_err _ (WB_parse_documentE _) _ _ P) as [u Hu].
    destruct (app_last_split _ _ _ _ _ Hu ltac:(discriminate)) as (r' & Hr & Hts).
    exists u, t, r'. split; [exact Hts|]. inversion H; reflexivity.
Qed.

(* ---- (b) the verdict depends on the tokens up to the reported one only ---- *)
Theorem parse_tokensE_local : forall u t rest, parse_tokensE (u ++ t :: rest) = ErrE (t :: rest) ->
  forall rest', parse_tokensE (u ++ t :: rest') = ErrE (t :: rest').
Proof.
  intros u t rest H rest'.
  set (F := S (2 * (length (u ++ t :: rest) + length (u ++ t :: rest')))).
  rewrite <- (docE_fuel (u ++ t :: rest) F) in H by (unfold F; lia).
  rewrite <- (docE_fuel (u ++ t :: rest') F) by (unfold F; lia).
  exact (wb_lerr _ (WB_parse_documentE F) u (t :: rest) (t :: rest') H eq_refl).
Qed.

(* no continuation makes the recogniser fail inside a prefix it once got past *)
Lemma no_failure_inside : forall u rest,
  (forall r0, parse_tokensE (u ++ rest) = ErrE r0 -> (length r0 <= length rest)%nat) ->
  forall rest' r, parse_tokensE (u ++ rest') = ErrE r -> (length r <= length rest')%nat.
Proof.
  intros u rest H0 rest' r H.
  destruct (Nat.le_gt_cases (length r) (length rest')) as [Hle|Hgt]; [exact Hle|exfalso].
  destruct (wb_err _ (WB_parse_documentE _) _ _ H) as [u2 Hu].
  apply app_eq_app in Hu. destruct Hu as [l [[E1 E2]|[E1 E2]]].
  - (* u = u2 ++ l, r = l ++ rest' *)
    subst u r. destruct l as [|x u3]; [cbn in Hgt; lia|].
    rewrite <- app_assoc in H. cbn [app] in H.
    pose proof (parse_tokensE_local u2 x (u3 ++ rest') H (u3 ++ rest)) as X.
    specialize (H0 (x :: u3 ++ rest)).
    rewrite <- app_assoc in H0. cbn [app] in H0. specialize (H0 X).
    cbn [length] in H0. rewrite app_length in H0. lia.
  - subst rest'. rewrite app_length in Hgt. lia.
Qed.

(* ---- a lexed token stream ends with its only EOF token ---- *)
Lemma lex_all_shape : forall fuel s pos ts mb, lex_all fuel s pos = Ok (ts, mb) ->
  exists body e, ts = body ++ [e] /\ tk e = EOF /\ Forall (fun t => tk t <> EOF) body.
Proof.
  induction fuel as [|f IH]; intros s pos ts mb H; cbn [lex_all] in H; [discriminate H|].
  destruct (skip_ws (S f) s pos false) as [[[s1 p1] m]| |]; try discriminate H.
  destruct (read_token (S f) s1 p1) as [[[t s2] p2]| |]; try discriminate H.
  destruct (tk t) eqn:K;
    try (inversion H; subst; exists [], t; repeat split; [exact K|constructor]);
    (destruct (lex_all f s2 p2) as [[ts' fl]| |] eqn:L; try discriminate H;
     inversion H; subst;
     destruct (IH _ _ _ _ L) as (body & e & -> & Ke & Fb);
     exists (t :: body), e; repeat split; [exact Ke|constructor; [rewrite K; discriminate|exact Fb]]).
Qed.

Lemma eof_is_last : forall body e u t rest, body ++ [e] = u ++ t :: rest ->
  Forall (fun t => tk t <> EOF) body -> tk t = EOF -> rest = [] /\ u = body /\ t = e.
Proof.
  intros body e u t rest H Fb Kt.
  destruct rest as [|x rest].
  - apply app_inj_tail in H. destruct H as [-> ->]. auto.
  - exfalso. destruct (exists_last (l := x :: rest) ltac:(discriminate)) as (r' & y & Er). rewrite Er in H.
    change (u ++ t :: r' ++ [y]) with (u ++ (t :: r') ++ [y]) in H. rewrite app_assoc in H.
    apply app_inj_tail in H. destruct H as [H _]. subst body.
    apply Forall_app in Fb. destruct Fb as [_ Fb]. inversion Fb; subst. contradiction.
Qed.

(* ---- the two position theorems on byte strings ---- *)
(* no source whose token stream begins with u ++ [t] is a valid document *)
Definition no_extension (u : list token) (t : token) : Prop :=
  forall src' rest' mb', lex src' = Ok (u ++ t :: rest', mb') -> parse src' = Err.
(* whatever follows the tokens u, the parser does not stop at one of them *)
Definition prefix_consumed (u : list token) : Prop :=
  forall rest' r, parse_tokensE (u ++ rest') = ErrE r -> (length r <= length rest')%nat.

Lemma no_extension_of_local : forall u t rest, parse_tokensE (u ++ t :: rest) = ErrE (t :: rest) -> no_extension u t.
Proof.
  intros u t rest H src' rest' mb' L. unfold parse. rewrite L.
  pose proof (parse_tokensE_local _ _ _ H rest') as X.
  assert (P : parse_tokens (u ++ t :: rest') = Err) by (apply parse_tokens_err_iff; eauto).
  rewrite P. reflexivity.
Qed.

Theorem parse_err_position : forall src off lo hi, parse_err_ext src = Some (off, lo, hi) ->
  (exists u t r, tokens_of src = u ++ t :: r /\ (off, lo, hi) = tok_ext t /\
                 no_extension u t /\ prefix_consumed u) \/
  (exists s, snd (lexE src) = LBad s off /\ lo = s /\ hi = off /\ prefix_consumed (tokens_of src)).
Proof.
  intros src off lo hi H. unfold parse_err_ext in H. unfold tokens_of.
  destruct (lexE src) as [ts [| s e |]] eqn:L; cbn [fst snd]; [| |discriminate H].
  - destruct (parse_tokensE ts) as [r|[|t r]|] eqn:P; try discriminate H.
    + (* the recogniser consumed the whole stream and failed: reported at the EOF token *)
      left. destruct (lexE_done _ _ L) as [mb Lx].
      unfold lex, lex_src in Lx. cbn [snd] in Lx.
      destruct (lex_all_shape _ _ _ _ _ Lx) as (body & e & -> & Ke & Fb).
      exists body, e, []. split; [reflexivity|]. rewrite last_last in H. split; [inversion H; reflexivity|]. split.
      * intros src' rest' mb' L'. unfold parse. rewrite L'.
        pose proof L' as L''. unfold lex, lex_src in L''. cbn [snd] in L''.
        destruct (lex_all_shape _ _ _ _ _ L'') as (body' & e' & E' & Ke' & Fb').
        destruct (eof_is_last _ _ _ _ _ (eq_sym E') Fb' Ke) as [-> _].
        assert (X : parse_tokens (body ++ [e]) = Err) by (apply parse_tokens_err_iff; eauto).
        rewrite X. reflexivity.
      * unfold prefix_consumed; apply (no_failure_inside body [e]). intros r0 Hr0. rewrite P in Hr0. inversion Hr0; subst. cbn; lia.
    + left. destruct (wb_err _ (WB_parse_documentE _) _ _ P) as [u Hu].
      exists u, t, r. split; [exact Hu|]. split; [inversion H; reflexivity|]. subst ts. split.
      * exact (no_extension_of_local _ _ _ P).
      * unfold prefix_consumed; apply (no_failure_inside u (t :: r)). intros r0 Hr0. rewrite P in Hr0. inversion Hr0; subst. lia.
  - destruct (parse_tokensE (ts ++ [end_marker s])) as [r|[|t [|t2 r]]|] eqn:P;
      try solve [ right; exists s;
        assert (X : prefix_consumed ts) by
          (unfold prefix_consumed; apply (no_failure_inside ts [end_marker s]); intros r0 Hr0; rewrite P in Hr0;
           try discriminate Hr0; inversion Hr0; subst; cbn; lia);
        inversion H; subst; auto ].
    left. destruct (wb_err _ (WB_parse_documentE _) _ _ P) as [u Hu].
    destruct (app_last_split _ _ _ _ _ Hu ltac:(discriminate)) as (r' & Hr & Hts).
    exists u, t, r'. split; [exact Hts|]. split; [inversion H; reflexivity|]. split.
    + rewrite Hu in P. exact (no_extension_of_local _ _ _ P).
    + rewrite Hu in P. unfold prefix_consumed; apply (no_failure_inside u (t :: t2 :: r)). intros r0 Hr0. rewrite P in Hr0. inversion Hr0; subst. lia.
Qed.
