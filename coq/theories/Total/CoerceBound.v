(* C09: sizes the fuel bounds of input coercion (Exec.Coerce) and of the executor
   (Exec.Exec) are made of.  Definitions only; proofs in Proofs/TotalCoerce.v and
   Proofs/TotalRequest.v. *)
From Coq Require Import List Arith String Bool.
From GQL Require Import Exec.Syntax.
Import ListNotations.

(* number of List / NonNull wrappers around the named type, plus one *)
Fixpoint ty_size (t : tyref) : nat :=
  match t with
  | TNamed _ => 1
  | TList t' => S (ty_size t')
  | TNonNull t' => S (ty_size t')
  end.

(* nesting depth of raw (JSON) values and of literals *)
Fixpoint jv_depth (v : jv) : nat :=
  match v with
  | JList l => S (list_max (map jv_depth l))
  | JObj l => S (list_max (map (fun kv => jv_depth (snd kv)) l))
  | _ => 1
  end.

Fixpoint value_depth (v : value) : nat :=
  match v with
  | VList l => S (list_max (map value_depth l))
  | VObj l => S (list_max (map (fun kv => value_depth (snd kv)) l))
  | _ => 1
  end.

Definition args_depth (args : list (name * value)) : nat :=
  list_max (map (fun kv => value_depth (snd kv)) args).

(* widest type reference among the argument definitions *)
Definition argdefs_width (defs : list argdef) : nat := list_max (map (fun a => ty_size (a_type a)) defs).
Definition fields_arg_width (fs : list fielddef) : nat := list_max (map (fun f => argdefs_width (f_args f)) fs).
Definition fields_out_width (fs : list fielddef) : nat := list_max (map (fun f => ty_size (f_type f)) fs).

Definition typedef_in_width (d : typedef) : nat :=
  match d with
  | TObject fs _ => fields_arg_width fs
  | TInterface fs => fields_arg_width fs
  | TInputObject fs => argdefs_width fs
  | _ => 0
  end.

Definition typedef_out_width (d : typedef) : nat :=
  match d with
  | TObject fs _ => fields_out_width fs
  | TInterface fs => fields_out_width fs
  | _ => 0
  end.

(* widest input type reference (arguments, input object fields) and widest output type
   reference (field types) anywhere in the schema *)
Definition in_width (S : schema) : nat := list_max (map (fun kv => typedef_in_width (snd kv)) (s_types S)).
Definition out_width (S : schema) : nat := list_max (map (fun kv => typedef_out_width (snd kv)) (s_types S)).

(* ---- fuel bounds of input coercion: every step either strips a wrapper of the type
        (at most [w] times in a row) or descends into the value ---- *)
Definition coerce_bound (w depth : nat) : nat := (depth + 2) * (w + 2).

(* valueFromAST of a literal of depth d at a type of width at most w (input object
   fields have width at most in_width S) *)
Definition vfa_bound (S : schema) (t : tyref) (lit : option value) : nat :=
  coerce_bound (Nat.max (ty_size t) (in_width S)) (match lit with Some v => value_depth v | None => 0 end).

Definition args_bound (S : schema) (defs : list argdef) (args : list (name * value)) : nat :=
  coerce_bound (Nat.max (argdefs_width defs) (in_width S)) (args_depth args).

(* variables: raw inputs and default literals *)
Definition vardefs_width (ds : list vardef) : nat := list_max (map (fun d => ty_size (v_type d)) ds).
Definition vardefs_depth (ds : list vardef) : nat :=
  list_max (map (fun d => match v_default d with Some v => value_depth v | None => 0 end) ds).
Definition inputs_depth (inputs : list (name * jv)) : nat :=
  list_max (map (fun kv => jv_depth (snd kv)) inputs).

Definition vars_bound (S : schema) (ds : list vardef) (inputs : list (name * jv)) : nat :=
  coerce_bound (Nat.max (vardefs_width ds) (in_width S)) (Nat.max (vardefs_depth ds) (inputs_depth inputs)).
