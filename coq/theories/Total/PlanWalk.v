(* C09: the recursion structure of planning / executing a document, without data.

   [walk] follows plan.go planSelectionSetsLocked -> collectInto ->
   planMergedFieldChildren (and executor's ExecuteSelectionSet -> CollectFields ->
   CompleteValue on a datum that never ends): collect one selection-set level
   for an object type with a fresh visited set, then, for every response key
   whose field returns a composite type, walk the merged sub-selections of the
   key's occurrences for every object type the field can yield.  The result is
   the depth of the recursion (what the Go stack has to hold); [None] is "out
   of fuel".

   This is the recursion that never ended on '{ ...F } fragment F on Q { x { ...F } }'
   before PlanQuery rejected fragments reaching themselves through a field;
   Proofs/TotalWalk.v proves that it is bounded by a polynomial in the document
   size for every document the check accepts. *)
From Coq Require Import List Arith String Bool.
From GQL Require Import Exec.Syntax Exec.Coerce Exec.Exec Total.CollectBound Total.FragCycle.
Import ListNotations.
Open Scope list_scope.

(* the object types a field of named type n can yield *)
Definition target_types (S : schema) (n : name) : list name :=
  match lookup_type S n with
  | Some (TObject _ _) => [n]
  | Some (TInterface _) | Some (TUnion _) =>
    filter (fun o => possible_type S n o) (map fst (s_types S))
  | _ => []
  end.

Fixpoint walk (fuel : nat) (S : schema) (D : document) (vars : list (name * jv)) (obj : name)
         (sets : list (list selection)) {struct fuel} : option nat :=
  match fuel with
  | O => None
  | Datatypes.S f =>
    match collect_all f S D vars obj sets [] [] with
    | None => None
    | Some g =>
      match
        (fix over_groups (g : groups) : option nat :=
           match g with
           | [] => Some 0
           | (_, occs) :: rest =>
             let fname := match occs with o :: _ => oc_name o | [] => EmptyString end in
             let here : option nat :=
                 match find_field fname (object_fields S obj) with
                 | None => Some 0
                 | Some fd =>
                   (fix over_types (ts : list name) : option nat :=
                      match ts with
                      | [] => Some 0
                      | t :: r =>
                        match walk f S D vars t (map oc_sub occs), over_types r with
                        | Some a, Some b => Some (Nat.max a b)
                        | _, _ => None
                        end
                      end) (target_types S (named_of (f_type fd)))
                 end in
             match here, over_groups rest with
             | Some a, Some b => Some (Nat.max a b)
             | _, _ => None
             end
           end) g
      with
      | Some d => Some (Datatypes.S d)
      | None => None
      end
    end
  end.

(* ---- sizes the bound is made of ---- *)
(* field-nesting height: inline fragments and spreads do not add a level *)
Fixpoint sel_height (s : selection) : nat :=
  match s with
  | SField _ _ _ _ _ sub => Datatypes.S (list_max (map sel_height sub))
  | SSpread _ _ _ => 0
  | SInline _ _ _ sub => list_max (map sel_height sub)
  end.
Definition sels_height (sels : list selection) : nat := list_max (map sel_height sels).

(* all selection nodes, at every depth *)
Fixpoint sel_size (s : selection) : nat :=
  match s with
  | SField _ _ _ _ _ sub => Datatypes.S (list_sum (map sel_size sub))
  | SSpread _ _ _ => 1
  | SInline _ _ _ sub => Datatypes.S (list_sum (map sel_size sub))
  end.
Definition sels_size (sels : list selection) : nat := list_sum (map sel_size sels).

Definition doc_height (D : document) : nat :=
  Nat.max (list_max (map (fun o => sels_height (o_sel o)) (d_ops D)))
          (list_max (map (fun f => sels_height (fr_sel f)) (d_frags D))).

Definition doc_size (D : document) : nat :=
  list_sum (map (fun o => sels_size (o_sel o)) (d_ops D))
  + list_sum (map (fun f => sels_size (fr_sel f)) (d_frags D)).

(* depth of the recursion: (ranks + 1) * (height + 1) levels, each needing the fuel of one CollectFields *)
Definition plan_bound (D : document) : nat :=
  (max_rank D + 2) * (doc_height D + 2) + doc_size D + 2.
