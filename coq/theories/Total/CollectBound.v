(* C09: fuel bounds for CollectFields (Exec.collect / Exec.collect_all).
   Definitions only; the termination proofs are in Proofs/TotalCollect.v.

   [collect] takes fuel as a recursion-depth bound.  It descends into inline
   fragments and into the bodies of named fragments, never into the
   sub-selection of a field, and expands every fragment name at most once per
   call because of the visited set.  So the depth is bounded by the number of
   selection nodes on this level plus the level sizes of the fragment bodies,
   whether or not the fragments are cyclic. *)
From Coq Require Import List Arith String Bool.
From GQL Require Import Exec.Syntax.
Import ListNotations.

(* number of selection nodes CollectFields can step on in one selection set:
   fields and spreads count one, inline fragments one plus their content;
   the sub-selection of a field belongs to the next level *)
Fixpoint sel_csize (s : selection) : nat :=
  match s with
  | SField _ _ _ _ _ _ => 1
  | SSpread _ _ _ => 1
  | SInline _ _ _ sub => S (list_sum (map sel_csize sub))
  end.

Definition csize (sels : list selection) : nat := list_sum (map sel_csize sels).

(* level sizes of the fragment bodies whose name is not yet visited; a name
   defined twice counts once (find_fragment returns the first definition) *)
Fixpoint unvisited_size (fs : list fragment) (visited : list name) : nat :=
  match fs with
  | [] => 0
  | f :: r =>
    (if nmem (fr_name f) visited then 0 else csize (fr_sel f))
    + unvisited_size r (fr_name f :: visited)
  end.

Definition frag_total (D : document) : nat := unvisited_size (d_frags D) [].

(* linear in the size of the document *)
Definition collect_bound (D : document) (sels : list selection) : nat :=
  csize sels + frag_total D + 1.

Definition collect_all_bound (D : document) (sets : list (list selection)) : nat :=
  list_sum (map csize sets) + frag_total D + 1.
