(* C09: the shape of what an entry point returns, and the request pipeline of
   graphql.Do (graphql.go:36-116) over the reference executor.

   Specification [result_well_formed]: the result is serialisable, carries no
   data when parsing or validation failed, and carries at least one error
   whenever data is absent.  The correspondence runner applies it to the shape
   the harness observed on the implementation (code 2 when it fails). *)
From Coq Require Import List NArith String Bool.
From GQL Require Import Exec.Syntax Exec.Coerce Exec.Exec Exec.Request.
Import ListNotations.

Record shape := {
  sh_parse_failed : bool;     (* the request text has a syntax error *)
  sh_valid_failed : bool;     (* the document has a validation error *)
  sh_has_data : bool;         (* Result.Data is non-nil *)
  sh_nerrs : N;               (* len(Result.Errors) *)
  sh_json_ok : bool;          (* json.Marshal(result) succeeded and decodes again *)
  sh_keys_ok : bool }.        (* every key in data is a Name of the query language *)

Definition result_well_formed (s : shape) : bool :=
  sh_json_ok s && sh_keys_ok s
  && (if sh_parse_failed s || sh_valid_failed s then negb (sh_has_data s) else true)
  && (sh_has_data s || (0 <? sh_nerrs s)%N).

(* ---- a response under construction that has nothing deferred left in it:
        the model's counterpart of "no func value is left in the result" ---- *)
Fixpoint no_thunk (q : presp) : bool :=
  match q with
  | QNull => true
  | QLeaf _ => true
  | QList l => forallb no_thunk l
  | QObj l => forallb (fun kv => no_thunk (snd kv)) l
  | QThunk _ _ _ _ _ => false
  end.

(* every deferred value sits at a nullable position (what exec_groups builds) *)
Fixpoint thunks_nullable (q : presp) : bool :=
  match q with
  | QNull => true
  | QLeaf _ => true
  | QList l => forallb thunks_nullable l
  | QObj l => forallb (fun kv => thunks_nullable (snd kv)) l
  | QThunk t _ _ _ _ => negb (is_nonnull t)
  end.

(* ---- graphql.Do: parse, validate, execute.  The parser and the validator are
        parameters (their own models belong to C03 / C02): [parsed = None] is a
        syntax error, [verrs D] the number of validation errors. ---- *)
Inductive do_result :=
| DoFuel
| DoRes (data : option resp) (nerrs : nat) (ncalls : nat).

Definition do_model (parsed : option document) (verrs : document -> nat)
           (fuel : nat) (S : schema) (opname : option name) (inputs : list (name * jv))
           (root : rv) (or : oracle) (tor : toracle) : do_result :=
  match parsed with
  | None => DoRes None 1 0
  | Some D =>
    match verrs D with
    | Datatypes.S n => DoRes None (Datatypes.S n) 0
    | O =>
      match request fuel S D opname inputs root or tor with
      | RFuel => DoFuel
      | RReject => DoRes None 1 0
      | RDone d s => DoRes d (List.length (st_errs s)) (List.length (st_calls s))
      end
    end
  end.

Definition do_shape (parsed : option document) (verrs : document -> nat)
           (data : option resp) (nerrs : nat) : shape :=
  {| sh_parse_failed := match parsed with None => true | Some _ => false end;
     sh_valid_failed := match parsed with
                        | Some D => negb (Nat.eqb (verrs D) 0)
                        | None => false
                        end;
     sh_has_data := match data with Some _ => true | None => false end;
     sh_nerrs := N.of_nat nerrs;
     sh_json_ok := true;
     sh_keys_ok := true |}.
