(* C09: the check PlanQuery applies to unvalidated documents (plan.go,
   fragmentCycleThroughField): a fragment must not reach itself through the
   sub-selection of a field.  A cycle on one selection-set level is harmless
   (the visited set of CollectFields cuts it, see Total/CollectBound.v).

   Spread edges: fragment a --(nested?)--> fragment b for every spread ...b in
   the body of a; [nested] says that the spread sits below a field of a's body
   (inline fragments do not count as nesting).

   Specification [has_rank]: there is a rank on fragment names that no spread
   increases and every nested spread strictly decreases.  This is "no cycle
   contains a nested edge" in the form termination proofs need.

   Model of the check: translation validation.  A candidate rank is computed by
   |fragments|+1 rounds of relaxation (rank a := max over edges a->b of rank b
   + [nested]) and then checked edge by edge; the document is rejected iff the
   candidate fails.  The Go code decides the same question by a depth-first
   reachability search per nested edge; both are compared on generated
   (cyclic) documents by the correspondence runner. *)
From Coq Require Import List Arith String Bool.
From GQL Require Import Exec.Syntax.
Import ListNotations.
Open Scope string_scope.

Fixpoint sel_edges (nested : bool) (s : selection) : list (name * bool) :=
  match s with
  | SField _ _ _ _ _ sub => flat_map (sel_edges true) sub
  | SSpread _ nm _ => [(nm, nested)]
  | SInline _ _ _ sub => flat_map (sel_edges nested) sub
  end.

Definition sels_edges (nested : bool) (sels : list selection) : list (name * bool) :=
  flat_map (sel_edges nested) sels.

Definition frag_edges (f : fragment) : list (name * bool) := sels_edges false (fr_sel f).

Definition edge_weight (e : name * bool) : nat := if snd e then 1 else 0.

(* ---- specification ---- *)
Definition rank_respected (D : document) (rk : name -> nat) : Prop :=
  forall f e, In f (d_frags D) -> In e (frag_edges f) ->
              rk (fst e) + edge_weight e <= rk (fr_name f).

Definition has_rank (D : document) : Prop := exists rk, rank_respected D rk.

(* ---- the decidable check of a given rank ---- *)
Definition rank_ok (D : document) (rk : name -> nat) : bool :=
  forallb (fun f => forallb (fun e => Nat.leb (rk (fst e) + edge_weight e) (rk (fr_name f))) (frag_edges f))
          (d_frags D).

(* ---- candidate rank by relaxation over a table ---- *)
Definition rank_table := list (name * nat).

Definition rk_of (t : rank_table) (a : name) : nat :=
  match alookup a t with Some n => n | None => 0 end.

(* all definitions of a name contribute (the Go map keeps one; generated documents have unique names) *)
Definition succs (D : document) (a : name) : list (name * bool) :=
  flat_map (fun f => if String.eqb (fr_name f) a then frag_edges f else []) (d_frags D).

Definition relax1 (D : document) (t : rank_table) (a : name) : nat :=
  fold_right (fun e m => Nat.max m (rk_of t (fst e) + edge_weight e)) 0 (succs D a).

Definition relax (D : document) (t : rank_table) : rank_table :=
  map (fun kv => (fst kv, relax1 D t (fst kv))) t.

Fixpoint iter_relax (n : nat) (D : document) (t : rank_table) : rank_table :=
  match n with
  | O => t
  | S n' => iter_relax n' D (relax D t)
  end.

Definition rank_candidate (D : document) : rank_table :=
  iter_relax (S (List.length (d_frags D))) D (map (fun f => (fr_name f, 0)) (d_frags D)).

(* true = PlanQuery answers "Cannot spread fragment ... within itself" *)
Definition fragment_cycle_through_field (D : document) : bool :=
  negb (rank_ok D (rk_of (rank_candidate D))).

(* the largest rank the candidate can assign: one per relaxation round *)
Definition max_rank (D : document) : nat := S (List.length (d_frags D)).
