(* C09: the fuel bound of a whole request (Exec.Request.request) on the reference
   executor.  Definitions only; the termination proof is in Proofs/TotalRequest.v.

   Fuel is a recursion-depth bound.  The executor has the level structure of
   Total.PlanWalk.walk: at most [exec_levels D] selection-set levels are nested
   in one another for a document the fragment-cycle check accepts, and one
   level costs at most [level_unit S D]: one unit per response key of the level
   (exec_groups), the coercion of one argument list, the wrappers of one field
   type (complete), one CollectFields (exec_object), and the same again for the
   dethunk pass. *)
From Coq Require Import List Arith String Bool.
From GQL Require Import Exec.Syntax Total.CollectBound Total.FragCycle Total.PlanWalk Total.CoerceBound.
Import ListNotations.

(* response key and argument list of every field node, at every depth *)
Fixpoint sel_fields (s : selection) : list (name * list (name * value)) :=
  match s with
  | SField _ al nm args _ sub =>
    (match al with Some a => a | None => nm end, args) :: flat_map sel_fields sub
  | SSpread _ _ _ => []
  | SInline _ _ _ sub => flat_map sel_fields sub
  end.

Definition sels_fields (sels : list selection) : list (name * list (name * value)) :=
  flat_map sel_fields sels.

Definition doc_fields (D : document) : list (name * list (name * value)) :=
  flat_map (fun o => sels_fields (o_sel o)) (d_ops D)
  ++ flat_map (fun f => sels_fields (fr_sel f)) (d_frags D).

(* the deepest argument list of any field node of the document *)
Definition doc_args_depth (D : document) : nat :=
  list_max (map (fun ka => args_depth (snd ka)) (doc_fields D)).

(* nested selection-set levels: the measure of an operation's selection set in Proofs/TotalWalk.v *)
Definition exec_levels (D : document) : nat :=
  (max_rank D + 1) * (doc_height D + 2) + doc_height D.

(* fuel of one level: response keys (at most doc_size D) + argument coercion + wrappers of the
   field type + one CollectFields (doc_size D + 1) + constant *)
Definition level_unit (S : schema) (D : document) : nat :=
  doc_size D + coerce_bound (in_width S) (doc_args_depth D) + out_width S + (doc_size D + 1) + 4.

Definition exec_bound (S : schema) (D : document) : nat :=
  (exec_levels D + 2) * level_unit S D.

Definition request_bound (S : schema) (D : document) (inputs : list (name * jv)) : nat :=
  list_max (map (fun o => vars_bound S (o_vars o) inputs) (d_ops D)) + exec_bound S D.
