(* The punctuator table of the lexer model (Syntax/Lexer.v: punct1 and the "..." branch of
   read_token) as data, in the shape of the table generated from lexer.go
   (Gen/Punctuators.v).  Hand-written; Proofs/TablesLexer.v proves that the model lexer reads
   exactly this table, Properties/C03.v compares it with the generated one.  No proofs here. *)
From Coq Require Import List NArith String Bool Ascii.
From GQL Require Import Base.Bytes Syntax.Lexer.
Import ListNotations.
Open Scope string_scope.
Open Scope N_scope.

(* the Go constant of each token kind *)
Definition tkind_name (k : tkind) : string :=
  match k with
  | EOF => "EOF" | BANG => "BANG" | DOLLAR => "DOLLAR" | PAREN_L => "PAREN_L" | PAREN_R => "PAREN_R"
  | SPREAD => "SPREAD" | COLON => "COLON" | EQUALS => "EQUALS" | AT => "AT"
  | BRACKET_L => "BRACKET_L" | BRACKET_R => "BRACKET_R" | BRACE_L => "BRACE_L" | PIPE => "PIPE"
  | BRACE_R => "BRACE_R" | NAME => "NAME" | INT => "INT" | FLOAT => "FLOAT" | STRING => "STRING"
  | BLOCK_STRING => "BLOCK_STRING" | AMP => "AMP"
  end.

(* declaration order of the constants (EOF TokenKind = iota + 1) *)
Definition tkinds : list tkind :=
  [EOF; BANG; DOLLAR; PAREN_L; PAREN_R; SPREAD; COLON; EQUALS; AT; BRACKET_L; BRACKET_R; BRACE_L;
   PIPE; BRACE_R; NAME; INT; FLOAT; STRING; BLOCK_STRING; AMP].

(* one-byte punctuators: first byte, kind *)
Definition punct_table : list (N * tkind) :=
  [(33, BANG); (36, DOLLAR); (38, AMP); (40, PAREN_L); (41, PAREN_R); (58, COLON); (61, EQUALS);
   (64, AT); (91, BRACKET_L); (93, BRACKET_R); (123, BRACE_L); (124, PIPE); (125, BRACE_R)].

Fixpoint punct_lookup (code : N) (l : list (N * tkind)) : option tkind :=
  match l with
  | [] => None
  | (c, k) :: r => if code =? c then Some k else punct_lookup code r
  end.

(* the only longer punctuator: first byte, kind, length, bytes that must follow *)
Definition spread_first : N := 46.
Definition spread_rest : list N := [46; 46].

Definition pentry : Type := list N * string * N * list N.
Definition pentry_code (e : pentry) : N := match fst (fst (fst e)) with c :: _ => c | [] => 0 end.

Fixpoint pinsert (e : pentry) (l : list pentry) : list pentry :=
  match l with
  | [] => [e]
  | x :: r => if pentry_code e <=? pentry_code x then e :: l else x :: pinsert e r
  end.

(* the model's table, sorted by first byte like the generated one *)
Definition model_punctuators : list pentry :=
  pinsert ([spread_first], tkind_name SPREAD, 1 + nlen spread_rest, spread_rest)
          (map (fun ck => ([fst ck], tkind_name (snd ck), 1, [])) punct_table).

(* the bytes of a Coq string *)
Fixpoint str_bytes (s : string) : list N :=
  match s with
  | EmptyString => []
  | String a r => N_of_ascii a :: str_bytes r
  end.

Fixpoint assoc_str {A} (k : string) (l : list (string * A)) : option A :=
  match l with
  | [] => None
  | (x, v) :: r => if String.eqb k x then Some v else assoc_str k r
  end.

Fixpoint list_N_eqb (a b : list N) : bool :=
  match a, b with
  | [], [] => true
  | x :: a', y :: b' => (x =? y) && list_N_eqb a' b'
  | _, _ => false
  end.

(* a generated punctuator entry is spelled the way tokenDescription prints its kind: the
   description is the first byte followed by the lookahead, and the token is that long *)
Definition entry_spelled (descs : list (string * string)) (e : pentry) : bool :=
  let '(codes, kind, len, look) := e in
  match assoc_str kind descs with
  | Some d => forallb (fun c => list_N_eqb (str_bytes d) (c :: look)) codes && (len =? nlen (str_bytes d))
  | None => false
  end.

(* membership of a byte in the cases of the switch that call a given reader *)
Definition dispatch_to (f : string) (disp : list (list N * list string)) (c : N) : bool :=
  existsb (fun e => existsb (N.eqb c) (fst e) && existsb (String.eqb f) (snd e)) disp.

Definition bytes256 : list N := map N.of_nat (seq 0 256).
