(* Reading the generated directive table (Gen/Directives.v) in the vocabulary of the validation
   model (Validate/Rules.v: ddef, dloc).  Hand-written; no proofs here. *)
From Coq Require Import List NArith ZArith String Bool.
From GQL Require Import Exec.Syntax Validate.Rules Gen.Directives Tables.DirectiveTable.
Import ListNotations.
Open Scope string_scope.

(* the locations the validation model distinguishes (executable locations); every type-system
   location is LOther *)
Definition to_dloc (s : string) : dloc :=
  if String.eqb s "QUERY" then LQuery
  else if String.eqb s "MUTATION" then LMutation
  else if String.eqb s "SUBSCRIPTION" then LSubscription
  else if String.eqb s "FIELD" then LField
  else if String.eqb s "FRAGMENT_SPREAD" then LFragSpread
  else if String.eqb s "INLINE_FRAGMENT" then LInline
  else if String.eqb s "FRAGMENT_DEFINITION" then LFragDef
  else LOther.

Fixpoint dedup_locs (seen l : list dloc) : list dloc :=
  match l with
  | [] => []
  | x :: r => if existsb (dloc_eqb x) seen then dedup_locs seen r else x :: dedup_locs (x :: seen) r
  end.

Fixpoint all_some {A} (l : list (option A)) : option (list A) :=
  match l with
  | [] => Some []
  | Some x :: r => match all_some r with Some xs => Some (x :: xs) | None => None end
  | None :: _ => None
  end.

Definition to_ddef (d : gdirective) : option ddef :=
  match all_some (map to_argdef (gd_args d)) with
  | Some args => Some {| dd_name := gd_name d; dd_args := args; dd_locs := dedup_locs [] (map to_dloc (gd_locations d)) |}
  | None => None
  end.

Definition gen_ddefs : option (list ddef) := all_some (map to_ddef Gen.Directives.specified_directives).
