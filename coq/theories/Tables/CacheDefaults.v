(* The defaults of NewPlanCache as the cache model knows them (Cache/LRU.v takes them as the
   fields c_defmax / c_defq of a configuration).  Hand-written; Properties/C06.v compares them
   with the constants generated from plan_cache.go (Gen/Consts.v).  No proofs here. *)
From Coq Require Import NArith ZArith.
From GQL Require Import Cache.LRU.
Open Scope N_scope.

Definition model_default_max_entries : N := 1024.
Definition model_default_max_query_bytes : N := 65536.

(* the configuration of NewPlanCache(PlanCacheOptions{Normalize: norm}) *)
Definition default_cfg (norm : bool) : cfg :=
  mkCfg false 0 0 norm model_default_max_entries model_default_max_query_bytes.
