(* The rule table of the validation model: which rule of rules.go each index of
   Run.C02run.run_rule (and of the implementation's per-rule observations) stands for, and
   which model function implements it.  Hand-written; Properties/C02.v compares it with the
   list generated from the source (Gen/Rules.v) on every check run.  No proofs here. *)
From Coq Require Import List NArith String.
Import ListNotations.
Open Scope string_scope.
Open Scope N_scope.

(* (index in run_rule, exported name in rules.go, model function) *)
Definition rule_table : list (N * string * string) :=
  [ (0,  "ArgumentsOfCorrectTypeRule",       "Validate.Rules.rule_arguments_of_correct_type");
    (1,  "DefaultValuesOfCorrectTypeRule",   "Validate.Rules.rule_default_values_of_correct_type");
    (2,  "FieldsOnCorrectTypeRule",          "Validate.Rules.rule_fields_on_correct_type");
    (3,  "FragmentsOnCompositeTypesRule",    "Validate.Rules.rule_fragments_on_composite");
    (4,  "KnownArgumentNamesRule",           "Validate.Rules.rule_known_argument_names");
    (5,  "KnownDirectivesRule",              "Validate.Rules.rule_known_directives");
    (6,  "KnownFragmentNamesRule",           "Validate.Rules.rule_known_fragment_names");
    (7,  "KnownTypeNamesRule",               "Validate.Rules.rule_known_type_names");
    (8,  "LoneAnonymousOperationRule",       "Validate.Rules.rule_lone_anonymous");
    (9,  "NoFragmentCyclesRule",             "Validate.Rules.rule_no_fragment_cycles");
    (10, "NoUndefinedVariablesRule",         "Validate.Rules.rule_no_undefined_variables");
    (11, "NoUnusedFragmentsRule",            "Validate.Rules.rule_no_unused_fragments");
    (12, "NoUnusedVariablesRule",            "Validate.Rules.rule_no_unused_variables");
    (13, "OverlappingFieldsCanBeMergedRule", "Validate.Overlap.run_overlap");
    (14, "PossibleFragmentSpreadsRule",      "Validate.Rules.rule_possible_fragment_spreads");
    (15, "ProvidedNonNullArgumentsRule",     "Validate.Rules.rule_provided_non_null_arguments");
    (16, "ScalarLeafsRule",                  "Validate.Rules.rule_scalar_leafs");
    (17, "UniqueArgumentNamesRule",          "Validate.Rules.rule_unique_argument_names");
    (18, "UniqueFragmentNamesRule",          "Validate.Rules.rule_unique_fragment_names");
    (19, "UniqueInputFieldNamesRule",        "Validate.Rules.rule_unique_input_field_names");
    (20, "UniqueOperationNamesRule",         "Validate.Rules.rule_unique_operation_names");
    (21, "UniqueVariableNamesRule",          "Validate.Rules.rule_unique_variable_names");
    (22, "VariablesAreInputTypesRule",       "Validate.Rules.rule_variables_are_input_types");
    (23, "VariablesInAllowedPositionRule",   "Validate.Rules.rule_variables_in_allowed_position") ].

Definition model_rule_names : list string := map (fun r => snd (fst r)) rule_table.
Definition model_rule_indices : list N := map (fun r => fst (fst r)) rule_table.

(* 0, 1, ..., n-1 *)
Fixpoint upto (n : nat) : list N :=
  match n with O => [] | S k => upto k ++ [N.of_nat k] end.

Fixpoint str_mem (x : string) (l : list string) : bool :=
  match l with [] => false | y :: r => String.eqb x y || str_mem x r end.
Fixpoint str_nodup (l : list string) : bool :=
  match l with [] => true | x :: r => negb (str_mem x r) && str_nodup r end.
