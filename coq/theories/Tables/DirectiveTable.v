(* Reading the generated directive table (Gen/Directives.v: graphql.SpecifiedDirectives by
   reflection) in the vocabulary of the execution model: type references, defaults, lookup.
   Hand-written; no proofs here. *)
From Coq Require Import List NArith ZArith String Bool.
From GQL Require Import Exec.Syntax Gen.Directives.
Import ListNotations.
Open Scope string_scope.

Fixpoint to_tyref (t : gty) : tyref :=
  match t with
  | GNamed n => TNamed n
  | GList t' => TList (to_tyref t')
  | GNonNull t' => TNonNull (to_tyref t')
  end.

(* None: a default the models have no value for *)
Definition to_default (d : option gdefault) : option (option jv) :=
  match d with
  | None => Some None
  | Some (GDStr s) => Some (Some (JStr s))
  | Some (GDBool b) => Some (Some (JBool b))
  | Some (GDInt z) => Some (Some (JInt z))
  | Some (GDOther _) => None
  end.

Definition to_argdef (a : garg) : option argdef :=
  match to_default (ga_default a) with
  | Some d => Some {| a_name := ga_name a; a_type := to_tyref (ga_type a); a_default := d |}
  | None => None
  end.

Fixpoint find_gdirective (n : string) (l : list gdirective) : option gdirective :=
  match l with
  | [] => None
  | d :: r => if String.eqb n (gd_name d) then Some d else find_gdirective n r
  end.

(* what Exec.included / Exec.bool_arg and PlanCollect.plan_directives / bool_arg_static assume of
   @skip and @include: one argument, "if", of type Boolean!, no default; usable on fields,
   fragment spreads and inline fragments *)
Definition cond_arg : garg := {| ga_name := "if"; ga_type := GNonNull (GNamed "Boolean"); ga_default := None |}.
Definition cond_locations : list string := ["FIELD"; "FRAGMENT_SPREAD"; "INLINE_FRAGMENT"].
Definition cond_directive (n : string) : gdirective :=
  {| gd_name := n; gd_locations := cond_locations; gd_args := [cond_arg] |}.

(* the single argument of a generated directive *)
Definition sole_arg (n : string) : option garg :=
  match find_gdirective n specified_directives with
  | Some d => match gd_args d with [a] => Some a | _ => None end
  | None => None
  end.
