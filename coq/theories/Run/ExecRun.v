(* Correspondence runner of the execution family (C01, C04, C05, C13, C18 paths, C20).
   One case = one request run on the implementation: schema, document, operation
   name, raw variables, root value, the outcome every resolver invocation produced
   (the oracle), and what the implementation returned / recorded. *)
From Coq Require Import List ZArith NArith String Bool.
From GQL Require Export Exec.Syntax Exec.Coerce Exec.Exec Exec.Request Exec.PlanCollect.
Import ListNotations.
Open Scope string_scope.
Open Scope list_scope.

Record xcase := {
  x_kind : N;                                  (* which projection is judged, see [check] *)
  x_schema : schema; x_doc : document; x_op : option name;
  x_inputs : list (name * jv); x_root : rv;
  x_oracle : list (path * outcome);
  x_toracle : list (N * option name);          (* runtime type overrides by object id; default = the object's tag *)
  x_rejected : bool;                           (* implementation answered with no data and errors only, no resolver ran *)
  x_data : option resp;
  x_errs : list gerr;
  x_calls : list call;
  x_tcalls : list (path * rv);
  x_varsseen : option (list (name * jv));      (* Info.VariableValues as seen by the resolvers (nil entries dropped) *)
  x_log : list path;
  x_plan : option ptree }.                      (* structure of the prepared plan (PlanQuery entry point, verif hook) *)                          (* resolver starts and thunk forcings, in the order they happened *)

Fixpoint plookup {A} (p : path) (l : list (path * A)) : option A :=
  match l with
  | [] => None
  | (q, v) :: r => if path_eqb p q then Some v else plookup p r
  end.

Definition mk_oracle (l : list (path * outcome)) : oracle := fun p => plookup p l.
Fixpoint nlookup {A} (i : N) (l : list (N * A)) : option A :=
  match l with
  | [] => None
  | (j, v) :: r => if N.eqb i j then Some v else nlookup i r
  end.

Definition mk_toracle (l : list (N * option name)) : toracle :=
  fun v => match v with
           | RObj i t => match nlookup i l with Some o => o | None => Some t end
           | _ => None
           end.

Definition tcall_eqb (a b : path * rv) : bool := path_eqb (fst a) (fst b) && rv_eqb (snd a) (snd b).

Definition vars_seen_ok (c_seen : option (list (name * jv))) (model : option (list (name * jv))) : bool :=
  match c_seen, model with
  | None, _ => true                      (* no resolver ran *)
  | Some a, Some b => jv_eqb (JObj a) (JObj (filter (fun kv => negb (nullish (snd kv))) b))
  | Some _, None => false
  end.


Fixpoint remove_first {A} (eqb : A -> A -> bool) (x : A) (l : list A) : option (list A) :=
  match l with
  | [] => None
  | y :: r => if eqb x y then Some r
              else match remove_first eqb x r with Some r' => Some (y :: r') | None => None end
  end.

Fixpoint multiset_eqb {A} (eqb : A -> A -> bool) (a b : list A) : bool :=
  match a with
  | [] => match b with [] => true | _ => false end
  | x :: a' => match remove_first eqb x b with
               | Some b' => multiset_eqb eqb a' b'
               | None => false
               end
  end.

(* the locations of an error are the starts of the merged occurrences; their order is not constrained *)
Definition gerr_eqb (a b : gerr) : bool := path_eqb (e_path a) (e_path b) && multiset_eqb N.eqb (e_nodes a) (e_nodes b).

Definition call_eqb (a b : call) : bool :=
  path_eqb (c_path a) (c_path b) && String.eqb (c_parent a) (c_parent b) &&
  String.eqb (c_field a) (c_field b) && rv_eqb (c_source a) (c_source b) &&
  jv_eqb (JObj (c_args a)) (JObj (c_args b)) && multiset_eqb N.eqb (c_nodes a) (c_nodes b).

Definition data_eqb (a b : option resp) : bool :=
  match a, b with
  | None, None => true
  | Some x, Some y => resp_eqb x y
  | _, _ => false
  end.

(* ---- C18: every error path addresses a null, at the path or at one of its prefixes ---- *)
Fixpoint resp_at (r : resp) (p : path) : option resp :=
  match p with
  | [] => Some r
  | PKey k :: p' => match r with
                    | PObj l => match alookup k l with Some x => resp_at x p' | None => None end
                    | _ => None
                    end
  | PIdx i :: p' => match r with
                    | PList l => match nth_error l (N.to_nat i) with Some x => resp_at x p' | None => None end
                    | _ => None
                    end
  end.

(* walking down the path from the root, a null must be met at or before the end *)
Fixpoint null_on_path (r : resp) (p : path) : bool :=
  match r with
  | PNull => true
  | _ =>
    match p with
    | [] => false
    | PKey k :: p' => match r with
                      | PObj l => match alookup k l with Some x => null_on_path x p' | None => false end
                      | _ => false
                      end
    | PIdx i :: p' => match r with
                      | PList l => match nth_error l (N.to_nat i) with Some x => null_on_path x p' | None => false end
                      | _ => false
                      end
    end
  end.

Definition paths_ok (data : option resp) (errs : list gerr) : bool :=
  match data with
  | None => true
  | Some d => forallb (fun e => null_on_path d (e_path e)) errs
  end.

(* ---- C13: events of top-level field i all precede events of field j > i ---- *)
Fixpoint index_of (k : name) (l : list name) (i : N) : option N :=
  match l with
  | [] => None
  | x :: r => if String.eqb k x then Some i else index_of k r (i + 1)%N
  end.

Definition top_index (keys : list name) (p : path) : option N :=
  match p with
  | PKey k :: _ => index_of k keys 0%N
  | _ => None
  end.

Fixpoint nondecreasing (l : list (option N)) (cur : N) : bool :=
  match l with
  | [] => true
  | None :: _ => false
  | Some i :: r => (cur <=? i)%N && nondecreasing r i
  end.

Definition serial_ok (keys : list name) (log : list path) : bool :=
  nondecreasing (map (top_index keys) log) 0%N.

Definition is_mutation (D : document) (op : option name) : bool :=
  match get_operation D op with
  | Some o => match o_kind o with OpMutation => true | _ => false end
  | None => false
  end.

Definition FUEL : nat := 60.

(* the prepared plan has the structure the plan-time collection model predicts *)
Definition plan_ok (c : xcase) : bool :=
  match x_plan c with
  | None => true
  | Some t =>
    match get_operation (x_doc c) (x_op c) with
    | Some op =>
      match root_type (x_schema c) op with
      | Some rt =>
        match plan_tree FUEL (x_schema c) (x_doc c) rt [o_sel op] with
        | Some m => ptree_eqb m t
        | None => false
        end
      | None => true
      end
    | None => true
    end
  end.

Local Open Scope N_scope.

(* codes: 0 ok; 1 implementation differs from the model on something the property leaves open;
   2 the implementation's output violates the specification; 12 as 2, and a failure crossed a
   deferred non-null boundary (signature of a recorded finding) *)
Definition check (c : xcase) : N :=
  let or := mk_oracle (x_oracle c) in
  let tor := mk_toracle (x_toracle c) in
  if negb (plan_ok c) then 1 else
  match request FUEL (x_schema c) (x_doc c) (x_op c) (x_inputs c) (x_root c) or tor with
  | RFuel => 1
  | RReject => if x_rejected c then 0 else 2
  | RDone data s =>
    if x_rejected c then 2 else
    let bad := if st_escape s then 12 else 2 in
    let same_data := data_eqb data (x_data c) && multiset_eqb gerr_eqb (st_errs s) (x_errs c) in
    let same_calls := multiset_eqb call_eqb (st_calls s) (x_calls c)
                      && multiset_eqb tcall_eqb (st_tcalls s) (x_tcalls c)
                      && vars_seen_ok (x_varsseen c) (request_vars FUEL (x_schema c) (x_doc c) (x_op c) (x_inputs c))
                      && match st_missing s with [] => true | _ => false end in
    match x_kind c with
    | 1 => if same_data && same_calls then 0 else bad                      (* C01: response, and arguments delivered to resolvers *)
    | 4 => if same_data then 0 else bad                                    (* C04 *)
    | 5 => if same_calls && same_data then 0 else bad                      (* C05: arguments seen by resolvers *)
    | 20 => if same_calls then 0 else bad                                  (* C20 *)
    | 18 => if paths_ok (x_data c) (x_errs c) then (if same_data then 0 else bad) else bad   (* C18 paths *)
    | 13 =>                                                               (* C13 *)
      if is_mutation (x_doc c) (x_op c)
      then (if serial_ok (root_keys FUEL (x_schema c) (x_doc c) (x_op c) (x_inputs c)) (x_log c)
            then (if multiset_eqb path_eqb (map c_path (st_calls s)) (map c_path (x_calls c)) then 0 else bad)
            else 2)
      else 0
    | _ => 1
    end
  end.

Fixpoint bad (cs : list (N * xcase)) : list (N * N) :=
  match cs with
  | [] => []
  | (id, c) :: r => let v := check c in if (v =? 0)%N then bad r else (id, v) :: bad r
  end.
