(* Correspondence runner for C11.  A case carries the configuration and the
   public view of what the implementation returned.
   Codes: 0 ok, 1 implementation differs from the model, 2 the implementation's
   result violates the Spec (an inconsistent schema was returned, or appending
   types did not give the schema that supplying them up front gives). *)
From Coq Require Import List NArith Bool String.
From GQL Require Export Base.Bytes Types.Schema Types.Consistent.
Import ListNotations.
Open Scope N_scope.

Definition h := unhex.

Inductive impl_res := IErr | IOk (v : view).

Inductive c11case :=
| MetaCase (defs : list (N * tdef))
    (* the library's own types as the harness reads them, against Schema.meta_defs *)
| BuildCase (c : config) (r : impl_res)
    (* graphql.NewSchema on the configuration *)
| AppendCase (c : config) (order : list (option N)) (upfront appended : impl_res).
    (* NewSchema with the extra types in SchemaConfig.Types / NewSchema, then AppendType one by one *)

(* ---------- equality of views, up to the order Go maps leave open ---------- *)
Fixpoint list_eqb {A} (eqb : A -> A -> bool) (a b : list A) : bool :=
  match a, b with
  | [], [] => true
  | x :: a', y :: b' => eqb x y && list_eqb eqb a' b'
  | _, _ => false
  end.

Definition arg_eqb (a b : name * tref) : bool := bytes_eqb (fst a) (fst b) && tref_eqb (snd a) (snd b).
Definition vfield_eqb (a b : vfield) : bool :=
  bytes_eqb (vf_name a) (vf_name b) && tref_eqb (vf_type a) (vf_type b) && list_eqb arg_eqb (vf_args a) (vf_args b).
Definition vdef_eqb (a b : vdef) : bool :=
  match a, b with
  | VScalar, VScalar => true
  | VObject i f, VObject j g => list_eqb N.eqb i j && list_eqb vfield_eqb f g
  | VInterface f, VInterface g => list_eqb vfield_eqb f g
  | VUnion m, VUnion n => list_eqb N.eqb m n
  | VEnum v, VEnum w => list_eqb bytes_eqb v w
  | VInput f, VInput g => list_eqb arg_eqb f g
  | VWrapper, VWrapper => true
  | _, _ => false
  end.
Definition vtype_eqb (a b : vtype) : bool :=
  bytes_eqb (vt_name a) (vt_name b) && (vt_id a =? vt_id b) && vdef_eqb (vt_def a) (vt_def b).

Fixpoint insert_by {A} (key : A -> N) (x : A) (l : list A) : list A :=
  match l with
  | [] => [x]
  | y :: r => if key x <=? key y then x :: l else y :: insert_by key x r
  end.
Definition sort_by {A} (key : A -> N) (l : list A) : list A := fold_right (insert_by key) [] l.

Definition canon_rows (rows : list (N * list N)) : list (N * list N) :=
  sort_by fst (map (fun r => (fst r, sort_by (fun x => x) (snd r))) rows).
Definition row_eqb (a b : N * list N) : bool := (fst a =? fst b) && list_eqb N.eqb (snd a) (snd b).
Definition opt_eqb (a b : option N) : bool :=
  match a, b with Some x, Some y => x =? y | None, None => true | _, _ => false end.

Definition view_eqb (a b : view) : bool :=
  list_eqb vtype_eqb (sort_by vt_id (v_types a)) (sort_by vt_id (v_types b))
  && list_eqb row_eqb (canon_rows (v_poss a)) (canon_rows (v_poss b))
  && list_eqb row_eqb (canon_rows (v_isposs a)) (canon_rows (v_isposs b))
  && opt_eqb (v_query a) (v_query b) && opt_eqb (v_mutation a) (v_mutation b)
  && opt_eqb (v_subscription a) (v_subscription b).

Definition meta_view (defs : list (N * tdef)) : list vtype :=
  map (fun e => VT (def_name (snd e)) (fst e) (vdef_of defs (fst e))) defs.

(* implementation result against the model's: 0 same, 1 different *)
Definition corr (r : impl_res) (m : res schema) : N :=
  match r, m with
  | IErr, Err => 0
  | IOk v, OK sch => if view_eqb v (view_of sch) then 0 else 1
  | _, _ => 1
  end.

Definition spec_ok (r : impl_res) : bool :=
  match r with IErr => true | IOk v => consistentb v end.

Definition opt_tref (o : option N) : tref := match o with Some i => TNamed i | None => TNil end.

Definition check (c : c11case) : N :=
  match c with
  | MetaCase defs =>
    if list_eqb vtype_eqb (meta_view defs) (meta_view meta_defs) then 0 else 1
  | BuildCase c r =>
    if negb (spec_ok r) then 2 else corr r (new_schema (with_meta c))
  | AppendCase c order up ap =>
    if negb (spec_ok up && spec_ok ap) then 2 else
    let ts := map opt_tref order in
    let same := match up, ap with
                | IOk v, IOk w => view_eqb v w
                | IErr, IErr => true
                | _, _ => false
                end in
    if negb same then 2 else
    let c' := with_meta c in
    let m_up := new_schema (Cfg (c_defs c') (c_query c') (c_mutation c') (c_subscription c') (c_types c' ++ ts) (c_dirs c')) in
    let m_ap := match new_schema c' with OK sch => append_types sch ts | e => e end in
    N.max (corr up m_up) (corr ap m_ap)
  end.

Fixpoint bad (cs : list (N * c11case)) : list (N * N) :=
  match cs with
  | [] => []
  | (id, c) :: r => let v := check c in if v =? 0 then bad r else (id, v) :: bad r
  end.
