(* Runner for C12.  The response comparison is implementation against
   implementation and happens in the harness (a difference is a `fail`, code
   3).  What crosses to Coq are observed iteration orders of real Go maps of
   the library (type map, field maps, argument lists): the model's premise
   (an oracle only permutes) is checked on them and the modelled site is
   evaluated on both orders.  Codes: 0 ok, 1 premise/model broken. *)
From Coq Require Import List NArith Bool String.
From GQL Require Export Base.Bytes Ext.Determinism Proofs.ExtDetProofs.
Import ListNotations.
Open Scope N_scope.

Inductive c12case :=
| RangeCase (order1 order2 : list string).   (* two iterations over one map: key names in hex *)

Fixpoint bytes_eqb (a b : list N) : bool :=
  match a, b with
  | [], [] => true
  | x :: r, y :: s => (x =? y) && bytes_eqb r s
  | _, _ => false
  end.
Fixpoint names_eqb (a b : list (list N)) : bool :=
  match a, b with
  | [], [] => true
  | x :: r, y :: s => bytes_eqb x y && names_eqb r s
  | _, _ => false
  end.
Definition occurrences (x : list N) (l : list (list N)) : nat := List.length (filter (bytes_eqb x) l).
Definition is_permutation (a b : list (list N)) : bool :=
  Nat.eqb (List.length a) (List.length b) && forallb (fun x => Nat.eqb (occurrences x a) (occurrences x b)) a.

Definition check (c : c12case) : N :=
  match c with
  | RangeCase o1 o2 =>
    let a := map unhex o1 in
    let b := map unhex o2 in
    if negb (is_permutation a b) then 1
    else if names_eqb (isort bytes_leb a) (isort bytes_leb b) then 0 else 1
  end.

Fixpoint bad (cs : list (N * c12case)) : list (N * N) :=
  match cs with
  | [] => []
  | (id, c) :: r => let v := check c in if v =? 0 then bad r else (id, v) :: bad r
  end.
