(* Correspondence runner for C06.

   A history case carries the cache configuration, a pool of request
   descriptors, and the operations with what was observed on the
   implementation after each of them.  The runner
     - judges the observations by the Spec clauses (code 2): never more
       entries than configured; the response served through the cache is the
       response of a from-scratch execution; the literals handed back are the
       request's own; the caller's document is unchanged;
     - replays the history on the model with the code's LRU policy and
       compares hit/miss, entry count and the retained entries in order;
     - when that differs, checks whether the observed trace is a trace of the
       model under *some* eviction policy ([adm_get]): then the difference is
       eviction-order drift (code 4: recorded, no verdict), otherwise the
       implementation does not correspond to the model (code 1).
   Codes: 0 ok, 1 impl <> model, 2 spec violated, 4 eviction-order drift. *)
From Coq Require Import List NArith ZArith Bool String.
From GQL Require Import Base.Bytes Cache.LRU Cache.CacheSpec.
Import ListNotations.
Open Scope N_scope.

Inductive c06cls := KParseErr | KNormErr | KNorm (text : string) | KRaw.

(* schema id, operation name, query, outcome class of parse+normalise, and the
   id of the key the implementation uses for this request (None: not cached) *)
Inductive c06req := Rq (schema : N) (op query : string) (cls : c06cls) (ikey : option N).

Inductive c06op :=
| GetOp (idx : N)                      (* index into the pool *)
        (hit : N)                      (* counters moved: 0 none, 1 hit, 2 miss, 3 anything else *)
        (count : N)                    (* retained entries (max of list length and map size) *)
        (present : list (N * N))       (* retained (key id, schema id), most recently used first *)
        (resp fresh : N)               (* response through the cache / from scratch (interned) *)
        (synth own : N)                (* SynthArgs returned / extracted from this query alone (interned) *)
        (docsame : bool)               (* normalizeDocument left the caller's document unchanged *)
| ResetOp (count : N) (present : list (N * N)).

Inductive c06case :=
| HistCase (nilc : bool) (maxe maxq : Z) (norm : bool) (defmax defq : N)
           (pool : list c06req) (ops : list c06op)
| PrepCase (runs : list (N * N))       (* prepared plan executed / Do, per run *)
| NormCase (docsame : bool) (resp fresh : N).

(* ---- the executable instance of the model ---- *)

Definition run_hash (x : bytes) : bytes := 104 :: x.
Definition m_fresh (c : cfg) (r : req) : N := 0.
Definition m_ok (v : N) : bool := true.
Definition m_synth (r : req) : N := 0.
Definition m_get := get run_hash m_fresh m_ok m_synth 0 (@last_key N).
Definition m_key := key run_hash.

Definition to_req (q : c06req) : req :=
  match q with
  | Rq s o t cl _ =>
    mkReq s (unhex o) (unhex t)
          match cl with
          | KParseErr => RParseErr
          | KNormErr => RNormErr
          | KNorm x => RNorm (unhex x)
          | KRaw => RRaw
          end
  end.

Definition ikey_of (q : c06req) : option N := match q with Rq _ _ _ _ k => k end.

(* ---- implementation keys against model keys over the pool ---- *)

Definition both_eq_bytes (a b : option bytes) : bool :=
  match a, b with Some x, Some y => bytes_eqb x y | _, _ => false end.
Definition both_eq_N (a b : option N) : bool :=
  match a, b with Some x, Some y => x =? y | _, _ => false end.
Definition is_none {T} (a : option T) : bool := match a with None => true | _ => false end.

(* (exact, not coarser): the implementation separates exactly / at least the
   requests that the model separates *)
Fixpoint part_one (a : option bytes * option N) (l : list (option bytes * option N)) : bool * bool :=
  match l with
  | [] => (true, true)
  | b :: t =>
    let '(ex, nc) := part_one a t in
    let me := both_eq_bytes (fst a) (fst b) in
    let ie := both_eq_N (snd a) (snd b) in
    (ex && Bool.eqb me ie, nc && (negb ie || me))
  end.

Fixpoint part_all (l : list (option bytes * option N)) : bool * bool :=
  match l with
  | [] => (true, true)
  | a :: t =>
    let '(ex1, nc1) := part_one a t in
    let '(ex2, nc2) := part_all t in
    let nn := Bool.eqb (is_none (fst a)) (is_none (snd a)) in
    (ex1 && ex2 && nn, nc1 && nc2 && nn)
  end.

Fixpoint kid_of (tbl : list (option bytes * option N)) (k : bytes) : N :=
  match tbl with
  | [] => 4000000000
  | (Some k', Some i) :: t => if bytes_eqb k k' then i else kid_of t k
  | _ :: t => kid_of t k
  end.

(* ---- replay ---- *)

Record acc := mkAcc { a_state : state N; a_prev : list pent; a_lru : bool; a_adm : bool; a_spec : bool }.

Definition hit_code (h : option bool) : N :=
  match h with None => 0 | Some true => 1 | Some false => 2 end.

Definition dummy_req : req := mkReq 0 [] [] RParseErr.

Definition replay_op (c : cfg) (reqs : list req) (iks : list (option N)) (tbl : list (option bytes * option N))
           (a : acc) (o : c06op) : acc :=
  let max := eff_max c in
  match o with
  | GetOp idx hit count present resp fresh synth own docsame =>
    let r := nth (N.to_nat idx) reqs dummy_req in
    let ik := nth (N.to_nat idx) iks None in
    let '(s1, x) := m_get c (a_state a) r in
    let mpresent := map (fun e => (kid_of tbl (e_key e), e_schema e)) (entries s1) in
    let lru := (hit_code (o_hit x) =? hit) && pents_eqb mpresent present && (count =? nlen present) in
    let adm := (count =? nlen present) &&
               match m_key c r, ik with
               | None, None => adm_bypass (a_prev a) hit present
               | Some _, Some k => adm_get max (a_prev a) k (rq_schema r) hit present
               | _, _ => false
               end in
    let spec := spec_bound_ok max count && spec_bound_ok max (nlen present) &&
                (resp =? fresh) && (synth =? own) && docsame in
    mkAcc s1 present (a_lru a && lru) (a_adm a && adm) (a_spec a && spec)
  | ResetOp count present =>
    let s1 := reset (a_state a) in
    let emp := (count =? 0) && pents_eqb present [] in
    mkAcc s1 present (a_lru a && emp) (a_adm a && emp) (a_spec a && spec_bound_ok max count)
  end.

Definition check (cs : c06case) : N :=
  match cs with
  | HistCase nilc maxe maxq norm defmax defq pool ops =>
    let c := mkCfg nilc maxe maxq norm defmax defq in
    let reqs := map to_req pool in
    let iks := map ikey_of pool in
    let tbl := combine (map (m_key c) reqs) iks in
    let '(exact, notcoarser) := part_all tbl in
    let a := fold_left (replay_op c reqs iks tbl) ops (mkAcc init [] true true true) in
    if negb (a_spec a) then 2
    else if a_lru a && exact then 0
    else if a_adm a && notcoarser then 4
    else 1
  | PrepCase runs => if forallb (fun p => fst p =? snd p) runs then 0 else 2
  | NormCase docsame resp fresh => if docsame && (resp =? fresh) then 0 else 2
  end.

Fixpoint bad (cs : list (N * c06case)) : list (N * N) :=
  match cs with
  | [] => []
  | (id, c) :: r => let v := check c in if v =? 0 then bad r else (id, v) :: bad r
  end.
