(* Correspondence runner for C07.  A case is one concurrent trial under the race detector:
   per goroutine the list of summary operations (ids into Locks.lib_ops) that its requests
   perform, whether the race detector reported a race in library code during the trial, and
   whether every response equalled the sequential baseline.
   Codes: 0 ok, 1 the trial uses an operation the summary does not know, 2 the model says
   race-free / sequential results but the implementation raced or answered differently. *)
From Coq Require Import List NArith Bool Arith.
From GQL Require Export Conc.Locks.
Import ListNotations.
Open Scope N_scope.

Inductive c07case :=
| RaceCase (progs : list (list N)) (raced : bool) (same_as_sequential : bool)
| SummaryCase (table : list (N * N)).
    (* the harness' copy of the summary it compared the go/types scan of the source with:
       (location, 0 = no guard: written by construction only | m + 1 = guarded by mutex m) *)

Definition guard_code (l : nat) : N :=
  match lib_guard l with Some m => N.of_nat m + 1 | None => 0 end.

Definition known (k : N) : bool := (N.to_nat k <? length lib_ops)%nat.

Definition check (c : c07case) : N :=
  match c with
  | RaceCase progs raced same =>
    let ids := map (map N.to_nat) progs in
    if negb (forallb (forallb known) progs) then 1
    else if well_guarded lib_guard (map prog_of_ids ids) && well_ordered lib_rank (map prog_of_ids ids)
         then (if raced || negb same then 2 else 0)
         else 1
  | SummaryCase table =>
    if forallb (fun lg => guard_code (N.to_nat (fst lg)) =? snd lg) table then 0 else 1
  end.

Fixpoint bad (cs : list (N * c07case)) : list (N * N) :=
  match cs with
  | [] => []
  | (id, c) :: r => let v := check c in if v =? 0 then bad r else (id, v) :: bad r
  end.
