(* Correspondence runner for C16.  A case is one gated run of Do / Execute / ExecutePlan:
   n resolvers, the capacity of ExecutePlan's result channel read from plan.go, and the trace of
   driver actions and observations in the driver's program order.  In the trace a returned
   response is `RetResp (RespFull outs errs)` when its JSON is byte-equal to the response of the same
   request executed without gates with the resolvers replaying exactly the outcomes outs (errs = the
   indices of the fields named by the paths of the errors the returned result actually carries),
   `RetResp RespVarErr` when it equals the response of the failed coercion, `RetCtx` when it has
   no data and exactly one error equal to ctx.Err(); anything else is reported as OtherCase.
   Codes: 0 ok, 1 trace not accepted by the LTS, 2 the Spec is violated. *)
From Coq Require Import List NArith Bool Arith.
From GQL Require Export Conc.CancelLts.
Import ListNotations.
Open Scope N_scope.

Inductive c16case :=
| CancelCase (n : N) (cap : N) (trace : list obs)
| OtherCase (n : N) (what : N).   (* the call returned something that is neither of the two outcomes:
                                     1 ctx error together with data, 2 ctx error among other errors,
                                     3 a partial / different response *)

(* Spec on the observations alone: a context error only after Done; a full response only when
   every gate was open before the return; the returned outcomes are the opened ones, in order, and
   the response carries exactly one error per failed resolver;
   nothing pending once Done has fired and the driver waited. *)
Record sp := mkSp { sdone : bool; svars : option bool; sopen : list bool; sret : bool }.

Definition spec_obs (n : nat) (s : sp) (o : obs) : option sp :=
  match o with
  | OCall => Some s
  | ODone => Some (mkSp true (svars s) (sopen s) (sret s))
  | OOpenVars ok => Some (mkSp (sdone s) (Some ok) (sopen s) (sret s))
  | OOpen b => Some (mkSp (sdone s) (svars s) (sopen s ++ [b]) (sret s))
  | ORet RetCtx => if sdone s then Some (mkSp true (svars s) (sopen s) true) else None
  | ORet (RetResp RespVarErr) => match svars s with Some false => Some (mkSp (sdone s) (svars s) (sopen s) true) | _ => None end
  | ORet (RetResp (RespFull outs errs)) =>
    match svars s with
    | Some true => if (length (sopen s) =? n)%nat && list_eqb Bool.eqb outs (sopen s) && list_eqb Nat.eqb errs (errors_of outs)
                   then Some (mkSp (sdone s) (svars s) (sopen s) true) else None
    | _ => None
    end
  | OPending => if sdone s then None else Some s   (* after Done the call must return without any gate *)
  | OQuiet => Some s
  end.

Fixpoint spec_run (n : nat) (s : sp) (os : list obs) : bool :=
  match os with
  | [] => true
  | o :: r => match spec_obs n s o with Some s' => spec_run n s' r | None => false end
  end.

Definition check (c : c16case) : N :=
  match c with
  | CancelCase n cap trace =>
    if negb (spec_run (N.to_nat n) (mkSp false None [] false) trace) then 2
    else if negb (1 <=? cap) then 1       (* premise of C16_never_blocks *)
    else if negb (accepts_obs (N.to_nat n) (N.to_nat cap) trace) then 1
    else 0
  | OtherCase _ _ => 2
  end.

Fixpoint bad (cs : list (N * c16case)) : list (N * N) :=
  match cs with
  | [] => []
  | (id, c) :: r => let v := check c in if v =? 0 then bad r else (id, v) :: bad r
  end.
