(* Correspondence runner for C14.  Codes: 0 ok, 1 impl <> model, 2 spec violated. *)
From Coq Require Import List NArith ZArith Bool String.
From GQL Require Export Visitor.VisitorTree Visitor.VisitorLoop Visitor.TypeInfo Visitor.TypeInfoPre.
From GQL Require Import Visitor.VisitorWalk Visitor.VisitorKeysSpec Gen.VisitorKeys.
Import ListNotations.
Open Scope N_scope.

(* short constructors used by the harness *)
Definition G := GNode.
Definition O0 (nm : N) : slot := One nm None.
Definition O1 (nm : N) (c : gnode) : slot := One nm (Some c).
Definition M := Many.

(* keys: 0 nil, 2c+1 field name c, 2i+2 index i; parents: 0 nil, id+1 *)
Definition dkey (n : N) : option pkey :=
  if n =? 0 then None else if N.odd n then Some (KName (n / 2)) else Some (KIdx (n / 2 - 1)).
Definition dpar (n : N) : option N := if n =? 0 then None else Some (n - 1).
Definition EN (fn id kind key parent : N) (path ancs : list N) : event :=
  mkEvent PEnter fn id kind (dkey key) (dpar parent) (flat_map (fun k => optl (dkey k)) path) (map dpar ancs).
(* the path handed to a leave callback is not part of the compared events *)
Definition LV (fn id kind key parent : N) (ancs : list N) : event :=
  mkEvent PLeave fn id kind (dkey key) (dpar parent) [] (map dpar ancs).

Definition blank (e : event) : event :=
  match e_phase e with
  | PLeave => mkEvent PLeave (e_fn e) (e_id e) (e_kind e) (e_key e) (e_parent e) [] (e_ancs e)
  | PEnter => e
  end.

Definition pol_of (l : list (N * N)) (id : N) (ph : phase) : action :=
  match assoc (2 * id + match ph with PEnter => 0 | PLeave => 1 end) l with
  | Some 1 => Skip
  | Some 2 => Break
  | _ => Continue
  end.

Inductive c14case :=
| VisitCase (t : gnode) (o : vopts) (pol : list (N * N)) (evs : list event)
            (result_nil : bool) (ast_same : bool)
    (* visitor.Visit(root, options, nil) with the instrumented visitor: what the callbacks received *)
| ParCase (t : gnode) (subs : list (vopts * list (N * N))) (obs : list (list event))
          (result_nil : bool) (ast_same : bool)
    (* visitor.Visit(root, VisitInParallel(subs...), nil): what each sub-visitor received *)
| KeysCase (keys : list (string * list string)) (shape : list (string * list (string * bool)))
    (* the live QueryDocumentKeys and ast struct shapes *)
| TiCase (t : gnode) (sch : tschema) (attrs : list (N * nattr)) (o : vopts) (pol : list (N * N))
         (obs : list (phase * N * tenv))
    (* visitor.Visit(doc, VisitWithTypeInfo(typeInfo, options), nil): what the TypeInfo reported
       inside every callback of the sub-visitor *)
| StackCase (t : gnode) (sch : tschema) (attrs : list (N * nattr)) (subs : list (vopts * list (N * N)))
            (obs : list (list (phase * N * tenv))).
    (* the validator's composition VisitWithTypeInfo(typeInfo, VisitInParallel(subs...)): what the
       TypeInfo reported inside every callback of every sub-visitor *)

(* observations identify a field definition by name and type, a directive by name, an
   argument by name and type *)
Definition tfield_eqb (a b : tfield) : bool := N.eqb (tf_name a) (tf_name b) && ty_eqb (tf_type a) (tf_type b).
Definition tenv_eqb (a b : tenv) : bool :=
  opt_eqb ty_eqb (te_type a) (te_type b) && opt_eqb N.eqb (te_parent a) (te_parent b)
  && opt_eqb ty_eqb (te_input a) (te_input b) && opt_eqb tfield_eqb (te_fdef a) (te_fdef b)
  && opt_eqb (fun x y => N.eqb (fst x) (fst y)) (te_dir a) (te_dir b)
  && opt_eqb (fun x y => N.eqb (fst x) (fst y) && ty_eqb (snd x) (snd y)) (te_arg a) (te_arg b).
Definition obs_eqb (a b : phase * N * tenv) : bool :=
  phase_eqb (fst (fst a)) (fst (fst b)) && N.eqb (snd (fst a)) (snd (fst b)) && tenv_eqb (snd a) (snd b).

Definition attr_of (attrs : list (N * nattr)) (id : N) : nattr :=
  match assoc id attrs with Some a => a | None => no_attr end.

Definition events_eqb := list_eqb event_eqb.

Definition fuel_for (t : gnode) : nat := loop_fuel keys_of t.

Definition check (c : c14case) : N :=
  match c with
  | VisitCase t o pol evs result_nil ast_same =>
    let sel := get_visit_fn o in
    let p := pol_of pol in
    if negb (events_eqb evs (map blank (walk_events keys_of sel p t))) then 2
    else if negb result_nil || negb ast_same then 2
    else match visit_loop keys_of sel p (fuel_for t) t with
         | Done mevs replaced rebuilt =>
           if events_eqb evs (map blank mevs) && negb replaced && negb rebuilt then 0 else 1
         | OutOfFuel => 1
         end
  | ParCase t subs obs result_nil ast_same =>
    let spec := map (fun s => map blank (walk_events keys_of (get_visit_fn (fst s)) (pol_of (snd s)) t)) subs in
    if negb (list_eqb events_eqb obs spec) then 2
    else if negb result_nil || negb ast_same then 2
    else if negb (tree_ok t) then 1   (* hypothesis of C14_parallel_projection *)
    else match visit_loop keys_of par_sel par_pol (fuel_for t) t with
         | Done mevs replaced rebuilt =>
           let model := map (fun s => map blank (par_observed (get_visit_fn (fst s)) (pol_of (snd s)) mevs)) subs in
           if list_eqb events_eqb obs model && negb replaced && negb rebuilt then 0 else 1
         | OutOfFuel => 1
         end
  | TiCase t sch attrs o pol obs =>
    let sel := get_visit_fn o in
    let p := pol_of pol in
    let attr := attr_of attrs in
    let kind_of := kind_of_tree t in
    (* the traversal the VisitWithTypeInfo wrapper receives *)
    let outer := walk_events keys_of par_sel (twi_pol sel p kind_of) t in
    let spec := flat_map (fun e => match sel (e_kind e) (e_phase e) with
                                   | Some _ => [(e_phase e, e_id e, types_at sch attr (chain_of kind_of e))]
                                   | None => [] end) outer in
    if negb (list_eqb obs_eqb obs spec) then 2
    else if negb (ti_ok false false t && kinds_fun t) then 1   (* hypotheses of C14_typeinfo_checked *)
    else if list_eqb obs_eqb obs (ti_run sch attr sel p ti_init outer) then 0 else 1
  | StackCase t sch attrs subs obs =>
    (* spec: sub-visitor i is called exactly at the events of its own walk and reads types_at
       of the chain there (C14_stacked_typeinfo); model: stack_run over the loop's events *)
    let attr := attr_of attrs in
    let kind_of := kind_of_tree t in
    let spec := map (fun s => map (fun e => (e_phase e, e_id e, types_at sch attr (chain_of kind_of e)))
                                  (walk_events keys_of (get_visit_fn (fst s)) (pol_of (snd s)) t)) subs in
    if negb (list_eqb (list_eqb obs_eqb) obs spec) then 2
    else if negb (tree_ok t && ti_ok false false t && kinds_fun t) then 1
    else match visit_loop keys_of par_sel par_pol (fuel_for t) t with
         | Done mevs _ _ =>
           if list_eqb (list_eqb obs_eqb) obs
                (map (fun s => stack_run sch attr (get_visit_fn (fst s)) (pol_of (snd s)) ti_init None mevs) subs)
           then 0 else 1
         | OutOfFuel => 1
         end
  | KeysCase keys shape =>
    if negb (keys_complete String.eqb exempt_names keys shape) then 2
    else if list_eqb (fun a b => String.eqb (fst a) (fst b) && list_eqb String.eqb (snd a) (snd b)) keys gen_keys_named
            && list_eqb (fun a b => String.eqb (fst a) (fst b)
                                    && list_eqb (fun x y => String.eqb (fst x) (fst y) && Bool.eqb (snd x) (snd y)) (snd a) (snd b))
                        shape gen_shape_named
    then 0 else 1
  end.

Fixpoint bad (cs : list (N * c14case)) : list (N * N) :=
  match cs with
  | [] => []
  | (id, c) :: r => let v := check c in if v =? 0 then bad r else (id, v) :: bad r
  end.
