(* Correspondence runner for C14.  Codes: 0 ok, 1 impl <> model, 2 spec violated. *)
From Coq Require Import List NArith ZArith Bool String.
From GQL Require Export Visitor.VisitorTree Visitor.VisitorLoop.
From GQL Require Import Visitor.VisitorWalk Visitor.VisitorKeysSpec Gen.VisitorKeys.
Import ListNotations.
Open Scope N_scope.

(* short constructors used by the harness *)
Definition G := GNode.
Definition O0 (nm : N) : slot := One nm None.
Definition O1 (nm : N) (c : gnode) : slot := One nm (Some c).
Definition M := Many.

(* keys: 0 nil, 2c+1 field name c, 2i+2 index i; parents: 0 nil, id+1 *)
Definition dkey (n : N) : option pkey :=
  if n =? 0 then None else if N.odd n then Some (KName (n / 2)) else Some (KIdx (n / 2 - 1)).
Definition dpar (n : N) : option N := if n =? 0 then None else Some (n - 1).
Definition EN (fn id kind key parent : N) (path ancs : list N) : event :=
  mkEvent PEnter fn id kind (dkey key) (dpar parent) (flat_map (fun k => optl (dkey k)) path) (map dpar ancs).
(* the path handed to a leave callback is not part of the compared events *)
Definition LV (fn id kind key parent : N) (ancs : list N) : event :=
  mkEvent PLeave fn id kind (dkey key) (dpar parent) [] (map dpar ancs).

Definition blank (e : event) : event :=
  match e_phase e with
  | PLeave => mkEvent PLeave (e_fn e) (e_id e) (e_kind e) (e_key e) (e_parent e) [] (e_ancs e)
  | PEnter => e
  end.

Definition pol_of (l : list (N * N)) (id : N) (ph : phase) : action :=
  match assoc (2 * id + match ph with PEnter => 0 | PLeave => 1 end) l with
  | Some 1 => Skip
  | Some 2 => Break
  | _ => Continue
  end.

Inductive c14case :=
| VisitCase (t : gnode) (o : vopts) (pol : list (N * N)) (evs : list event)
            (result_nil : bool) (ast_same : bool)
    (* visitor.Visit(root, options, nil) with the instrumented visitor: what the callbacks received *)
| ParCase (t : gnode) (subs : list (vopts * list (N * N))) (obs : list (list event))
          (result_nil : bool) (ast_same : bool)
    (* visitor.Visit(root, VisitInParallel(subs...), nil): what each sub-visitor received *)
| KeysCase (keys : list (string * list string)) (shape : list (string * list (string * bool))).
    (* the live QueryDocumentKeys and ast struct shapes *)

Definition events_eqb := list_eqb event_eqb.

Definition fuel_for (t : gnode) : nat := loop_fuel keys_of t.

Definition check (c : c14case) : N :=
  match c with
  | VisitCase t o pol evs result_nil ast_same =>
    let sel := get_visit_fn o in
    let p := pol_of pol in
    if negb (events_eqb evs (map blank (walk_events keys_of sel p t))) then 2
    else if negb result_nil || negb ast_same then 2
    else match visit_loop keys_of sel p (fuel_for t) t with
         | Done mevs replaced rebuilt =>
           if events_eqb evs (map blank mevs) && negb replaced && negb rebuilt then 0 else 1
         | OutOfFuel => 1
         end
  | ParCase t subs obs result_nil ast_same =>
    let spec := map (fun s => map blank (walk_events keys_of (get_visit_fn (fst s)) (pol_of (snd s)) t)) subs in
    if negb (list_eqb events_eqb obs spec) then 2
    else if negb result_nil || negb ast_same then 2
    else match visit_loop keys_of par_sel par_pol (fuel_for t) t with
         | Done mevs replaced rebuilt =>
           let model := map (fun s => map blank (par_observed (get_visit_fn (fst s)) (pol_of (snd s)) mevs)) subs in
           if list_eqb events_eqb obs model && negb replaced && negb rebuilt then 0 else 1
         | OutOfFuel => 1
         end
  | KeysCase keys shape =>
    if negb (keys_complete String.eqb exempt_names keys shape) then 2
    else if list_eqb (fun a b => String.eqb (fst a) (fst b) && list_eqb String.eqb (snd a) (snd b)) keys gen_keys_named
            && list_eqb (fun a b => String.eqb (fst a) (fst b)
                                    && list_eqb (fun x y => String.eqb (fst x) (fst y) && Bool.eqb (snd x) (snd y)) (snd a) (snd b))
                        shape gen_shape_named
    then 0 else 1
  end.

Fixpoint bad (cs : list (N * c14case)) : list (N * N) :=
  match cs with
  | [] => []
  | (id, c) :: r => let v := check c in if v =? 0 then bad r else (id, v) :: bad r
  end.
