(* Correspondence runner for C18.  A case is: body, position, and what the
   implementation returned.  Codes: 0 ok, 1 impl <> model, 2 spec violated. *)
From Coq Require Import List NArith ZArith Bool String.
From GQL Require Import Base.Bytes Lang.Location.
From GQL Require Import Syntax.Lexer SynErr.LexErr SynErr.ParseErr SynErr.Viable.
From GQL Require Export Run.ExecRun.
Import ListNotations.
Open Scope N_scope.

Inductive c18case :=
| LocCase (body : string) (position : N) (line : N) (col : Z)
    (* direct call of GetLocation(body, position) *)
| ErrCase (body : string) (off : N) (line : N) (col : Z)
    (* an error reported by an entry point for the token/node at byte offset off *)
| ExecCase (x : xcase)
| SynCase (body : string) (line : N) (col : Z).
    (* parser.Parse rejected the (ASCII) source body with a syntax error located at (line, col) *)
    (* a generated request: every field error's path addresses a null in data, and
       paths and locations equal those of the execution model (Run/ExecRun.v, kind 18) *)

Definition in_crlf (s : bytes) (position : N) : bool :=
  match position with
  | 0 => false
  | _ => match nth_error s (N.to_nat (position - 1)), nth_error s (N.to_nat position) with
         | Some 13, Some 10 => true
         | _, _ => false
         end
  end.

(* lexicographic order on (line, column) *)
Definition loc_leb (a b : N * Z) : bool :=
  (fst a <? fst b) || ((fst a =? fst b) && (snd a <=? snd b)%Z).

(* A syntax error.  The model (SynErr/ParseErr.v) reports the start of the token the parser
   stopped at, or the lexer's position inside the malformed lexeme.
     0  the implementation reports the model's position;
     1  it reports another position inside the same token / lexeme, or the model accepts the
        source, or a position behind a malformed lexeme (byte-level locality of lexical errors
        is not proved);
     2  it reports a position behind the token the model reports -- no derivable document
        continues the tokens up to and including that token, so the text stopped being the
        beginning of a valid document earlier than the reported location -- or a position in
        front of the token / malformed lexeme -- the tokens in front of it are the beginning of a
        derivable document, so the location is not inside the first offending one
        (C18_syntax_error_first_nonviable, both halves, all inputs). *)
Definition check_syn (s : bytes) (l : N) (col : Z) : N :=
  match parse_report s with
  | None => 1
  | Some r =>
    let m := spec_location s (r_off r) in
    if (l =? fst m) && (col =? snd m)%Z then 0
    else if loc_leb (spec_location s (r_lo r)) (l, col) && loc_leb (l, col) (spec_location s (r_hi r)) then 1
    else if loc_leb (spec_location s (r_hi r)) (l, col) then (if r_lexical r then 1 else 2)
    else 2
  end.

Definition check (c : c18case) : N :=
  match c with
  | LocCase b p l col =>
    let s := unhex b in
    let '(ml, mc) := get_location s p in
    if in_crlf s p then (if (l =? ml) && (col =? mc)%Z then 0 else 1)
    else if negb (loc_ok s p l col) then 2
    else if (l =? ml) && (col =? mc)%Z then 0 else 1
  | ErrCase b off l col =>
    if loc_ok (unhex b) off l col then 0 else 2
  | ExecCase x => ExecRun.check x
  | SynCase b l col => check_syn (unhex b) l col
  end.

Fixpoint bad18 (cs : list (N * c18case)) : list (N * N) :=
  match cs with
  | [] => []
  | (id, c) :: r => let v := check c in if v =? 0 then bad18 r else (id, v) :: bad18 r
  end.
