(* Correspondence runner for C18.  A case is: body, position, and what the
   implementation returned.  Codes: 0 ok, 1 impl <> model, 2 spec violated. *)
From Coq Require Import List NArith ZArith Bool String.
From GQL Require Import Base.Bytes Lang.Location.
From GQL Require Export Run.ExecRun.
Import ListNotations.
Open Scope N_scope.

Inductive c18case :=
| LocCase (body : string) (position : N) (line : N) (col : Z)
    (* direct call of GetLocation(body, position) *)
| ErrCase (body : string) (off : N) (line : N) (col : Z)
    (* an error reported by an entry point for the token/node at byte offset off *)
| ExecCase (x : xcase).
    (* a generated request: every field error's path addresses a null in data, and
       paths and locations equal those of the execution model (Run/ExecRun.v, kind 18) *)

Definition in_crlf (s : bytes) (position : N) : bool :=
  match position with
  | 0 => false
  | _ => match nth_error s (N.to_nat (position - 1)), nth_error s (N.to_nat position) with
         | Some 13, Some 10 => true
         | _, _ => false
         end
  end.

Definition check (c : c18case) : N :=
  match c with
  | LocCase b p l col =>
    let s := unhex b in
    let '(ml, mc) := get_location s p in
    if in_crlf s p then (if (l =? ml) && (col =? mc)%Z then 0 else 1)
    else if negb (loc_ok s p l col) then 2
    else if (l =? ml) && (col =? mc)%Z then 0 else 1
  | ErrCase b off l col =>
    if loc_ok (unhex b) off l col then 0 else 2
  | ExecCase x => ExecRun.check x
  end.

Fixpoint bad18 (cs : list (N * c18case)) : list (N * N) :=
  match cs with
  | [] => []
  | (id, c) :: r => let v := check c in if v =? 0 then bad18 r else (id, v) :: bad18 r
  end.
