(* Correspondence runner for C15.  A case is one gated run of graphql.Subscribe / ExecuteSubscription:
   how the request was made to fail (or not), the capacity of the returned channel on the one-shot
   path, the source events (ids; `Normal i` in the trace means "the delivered result is byte-equal to
   executing the selection with event i as root value", decided on the Go side), and the observed
   trace in the order in which the single driver goroutine performed / saw the visible actions.
   Codes: 0 ok, 1 the trace is not a trace of the LTS, 2 the trace violates the Spec. *)
From Coq Require Import List NArith Bool.
From GQL Require Export Conc.SubscriptionLts.
Import ListNotations.
Open Scope N_scope.

Inductive c15case :=
| SubCase (front : N)     (* 0 parses and validates, 1 fails to parse or validate *)
          (setup : N)     (* 0 stream, 1 failure in the forwarder, 2 non-channel source, 3 no result at all *)
          (cap : N)       (* capacity of the returned channel (one-shot path) *)
          (events : list N)
          (trace : list (obs N)).

(* ---------------- Spec: decided on the observations alone ---------------- *)

Record sp := mkSp { exp : list N; ncancel : bool; nclosed : bool; nemit : N; ngot : N; seen : bool }.

Definition stream_obs (s : sp) (o : obs N) : option sp :=
  match o with
  | OEmit => if nclosed s then None else Some (mkSp (exp s) (ncancel s) false (nemit s + 1) (ngot s) (seen s))
  | OCloseSrc => Some (mkSp (exp s) (ncancel s) true (nemit s) (ngot s) (seen s))
  | OCancel => Some (mkSp (exp s) true (nclosed s) (nemit s) (ngot s) (seen s))
  | OStop => Some s
  | ORecv v =>
    if seen s then None
    else if negb (ngot s <? nemit s) then None
    else match exp s, v with
         | e :: r, Normal x => if x =? e then Some (mkSp r (ncancel s) (nclosed s) (nemit s) (ngot s + 1) false) else None
         | e :: r, CtxErr => if ncancel s then Some (mkSp r true (nclosed s) (nemit s) (ngot s + 1) false) else None
         | _, _ => None
         end
  | OClosed | OQuiet =>
    (* closed / forwarder gone only after cancellation or after the closed source was drained *)
    if ncancel s || (nclosed s && (ngot s =? nemit s))
    then Some (mkSp (exp s) (ncancel s) (nclosed s) (nemit s) (ngot s) (match o with OClosed => true | _ => seen s end))
    else None
  end.

(* one result expected: the error result (want = None) or the execution of a given value *)
Definition single_obs (want : option N) (goroutine : bool) (s : sp) (o : obs N) : option sp :=
  match o with
  | OEmit | OCloseSrc | OStop => Some s
  | OCancel => Some (mkSp (exp s) true (nclosed s) (nemit s) (ngot s) (seen s))
  | ORecv v =>
    if seen s then None
    else if negb (ngot s =? 0) then None
    else let ok := match want, v with
                   | None, ErrRes => true
                   | Some x, Normal y => x =? y
                   | Some _, CtxErr => ncancel s
                   | _, _ => false
                   end in
         if ok then Some (mkSp (exp s) (ncancel s) (nclosed s) (nemit s) 1 false) else None
  | OClosed =>
    if (ngot s =? 1) || (goroutine && ncancel s) then Some (mkSp (exp s) (ncancel s) (nclosed s) (nemit s) (ngot s) true) else None
  | OQuiet =>
    if negb goroutine || (ngot s =? 1) || ncancel s then Some s else None
  end.

Fixpoint spec_run (f : sp -> obs N -> option sp) (s : sp) (os : list (obs N)) : bool :=
  match os with
  | [] => true
  | o :: r => match f s o with Some s' => spec_run f s' r | None => false end
  end.

Definition spec_ok (front setup : N) (events : list N) (trace : list (obs N)) : bool :=
  let s0 := mkSp events false false 0 0 false in
  if front =? 1 then spec_run (single_obs None false) s0 trace
  else match setup with
       | 0 => spec_run stream_obs s0 trace
       | 2 => match events with
              | v :: _ => spec_run (single_obs (Some v) true) s0 trace
              | [] => false
              end
       | _ => spec_run (single_obs None true) s0 trace      (* a failed request owes exactly one error result *)
       end.

(* ---------------- Model: the LTS with every send selecting on ctx.Done ---------------- *)

Definition c15_sel (k : site) : bool := true.

Definition c15_init (front setup : N) (events : list N) : st N N :=
  let f := if front =? 1 then FrontFail else FrontOk in
  match setup with
  | 0 => init N N f SetChan events
  | 2 => match events with
         | v :: rest => init N N f (SetValue v) rest
         | [] => init N N f SetErr []
         end
  | 3 => init N N f SetSilent events
  | _ => init N N f SetErr events
  end.

Definition model_accepts (front setup cap : N) (events : list N) (trace : list (obs N)) : bool :=
  accepts_obs N N (fun e => e) c15_sel (N.to_nat cap) N.eqb N.eqb (c15_init front setup events) trace.

Definition check (c : c15case) : N :=
  match c with
  | SubCase front setup cap events trace =>
    if negb (spec_ok front setup events trace) then 2
    else if negb (model_accepts front setup cap events trace) then 1
    else 0
  end.

Fixpoint bad (cs : list (N * c15case)) : list (N * N) :=
  match cs with
  | [] => []
  | (id, c) :: r => let v := check c in if v =? 0 then bad r else (id, v) :: bad r
  end.
