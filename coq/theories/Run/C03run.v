(* Correspondence runner for C03.  Codes: 0 ok, 1 impl <> model (not yet judged
   by a theorem), 2 the implementation's output violates the Spec. *)
From Coq Require Import List NArith Bool String.
From GQL Require Import Base.Bytes Syntax.Lexer Syntax.Ast Syntax.Parser.
Import ListNotations.
Open Scope N_scope.

(* the implementation's AST as printed by the harness: kind tag, atom (hex), Loc.Start, Loc.End, children *)
Inductive gts := Gs (tag : N) (a : string) (st en : N) (kids : list gts).

Fixpoint conv (g : gts) : gt :=
  match g with
  | Gs t a s e k => G t (unhex a) s e (map conv k)
  end.

Inductive c03case :=
| ParseCase (src : string) (unchanged : bool) (impl : option gts)
    (* parser.Parse(src): None = syntax error, Some ast; unchanged = the source bytes after Parse equal those before *)
| LexCase (src : string) (impl : option (list (N * string)))
    (* all tokens of src (kind code, value) read through lexer.Lex, None = a lexing error *)
| EnumBatch (prefix : list N) (small : bool) (unchanged : bool) (acc : list (N * gts)).
    (* parser.Parse of every token sequence prefix ++ [k] (tokens enum_alphabet[i], written with single
       spaces), k ranging over the alphabet (small: the reduced one); acc lists the k that were
       accepted, with the AST; unchanged = no source was modified *)

(* the alphabet of the exhaustive enumeration (same list as c03Alphabet in harness/c03.go) *)
Definition enum_alphabet : list string :=
  ["!"; "$"; "("; ")"; "..."; ":"; "="; "@"; "["; "]"; "{"; "|"; "}"; "&";
   "query"; "mutation"; "subscription"; "fragment"; "on"; "true"; "false"; "null"; "schema"; "scalar"; "type";
   "interface"; "union"; "enum"; "input"; "extend"; "directive"; "implements";
   "foo"; "1"; "1.5"; """s"""; """""""b"""""""; """on"""; """implements"""]%string.

Fixpoint render_enum (idx : list N) : bytes :=
  match idx with
  | [] => []
  | [i] => of_string (nth (N.to_nat i) enum_alphabet ""%string)
  | i :: r => of_string (nth (N.to_nat i) enum_alphabet ""%string) ++ 32 :: render_enum r
  end.

Definition tkind_code (k : tkind) : N :=
  match k with
  | EOF => 1 | BANG => 2 | DOLLAR => 3 | PAREN_L => 4 | PAREN_R => 5 | SPREAD => 6 | COLON => 7
  | EQUALS => 8 | AT => 9 | BRACKET_L => 10 | BRACKET_R => 11 | BRACE_L => 12 | PIPE => 13
  | BRACE_R => 14 | NAME => 15 | INT => 16 | FLOAT => 17 | STRING => 18 | BLOCK_STRING => 19 | AMP => 20
  end.

Fixpoint lookup_acc (k : N) (acc : list (N * gts)) : option gts :=
  match acc with
  | [] => None
  | (j, g) :: r => if j =? k then Some g else lookup_acc k r
  end.
Definition seq_N (a n : N) : list N := map N.of_nat (seq (N.to_nat a) (N.to_nat n)).
Definition small_alphabet : list N :=
  [0; 1; 2; 3; 4; 5; 6; 7; 8; 9; 10; 11; 12; 13; 14; 17; 18; 19; 21; 22; 24; 26; 29; 31; 32; 33; 35; 37].

Fixpoint toks_eqb (a : list token) (b : list (N * string)) : bool :=
  match a, b with
  | [], [] => true
  | t :: a', (k, v) :: b' => (tkind_code (tk t) =? k) && bytes_eqb (tval t) (unhex v) && toks_eqb a' b'
  | _, _ => false
  end.

(* How a disagreement is judged.  The model is proved sound and complete for the whole grammar
   (C03_parse_sound, C03_parse_complete) and never runs out of fuel (C03_parse_terminates), so it
   decides the grammar:
   - the model parses src to d, the implementation rejects: src is derivable -> 2;
   - the implementation accepts and the model rejects: src is not derivable -> 2;
   - both accept with different documents: the grammar assigns exactly d (C03_unambiguous) -> 2. *)
Definition check_parse (src : bytes) (unchanged : bool) (impl : option gts) : N :=
    if negb unchanged then 2      (* "parsing does not modify the source it is given" *)
    else
      match parse src, impl with
      | OutOfFuel, _ => 1         (* unreachable: C03_parse_terminates *)
      | Err, None => 0
      | Err, Some g => 2
      | Ok _, None => 2
      | Ok (d, mb), Some g =>
        (* locations are compared unless a name token follows a multi-byte character in an
           ignored position (finding C18-mixed-offset-units: such names are reported in characters) *)
        if gt_eqb (negb mb) (g_doc d) (conv g) then 0 else 2
      end.

Definition check (c : c03case) : N :=
  match c with
  | ParseCase src unchanged impl => check_parse (unhex src) unchanged impl
  | EnumBatch prefix small unchanged acc =>
    fold_left N.max
      (map (fun k => check_parse (render_enum (prefix ++ [k])) unchanged (lookup_acc k acc))
           (if small then small_alphabet else seq_N 0 (nlen enum_alphabet)))
      0
  | LexCase src impl =>
    match lex (unhex src), impl with
    | OutOfFuel, _ => 1
    | Err, None => 0
    | Err, Some _ => 2
    | Ok _, None => 2
    | Ok (ts, _), Some l => if toks_eqb ts l then 0 else 2
    end
  end.

Fixpoint bad (cs : list (N * c03case)) : list (N * N) :=
  match cs with
  | [] => []
  | (id, c) :: r => let v := check c in if v =? 0 then bad r else (id, v) :: bad r
  end.
