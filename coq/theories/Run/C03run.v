(* Correspondence runner for C03.  Codes: 0 ok, 1 impl <> model (not yet judged
   by a theorem), 2 the implementation's output violates the Spec. *)
From Coq Require Import List NArith Bool String.
From GQL Require Import Base.Bytes Syntax.Lexer Syntax.Ast Syntax.Parser.
Import ListNotations.
Open Scope N_scope.

(* the implementation's AST as printed by the harness: kind tag, atom (hex), Loc.Start, Loc.End, children *)
Inductive gts := Gs (tag : N) (a : string) (st en : N) (kids : list gts).

Fixpoint conv (g : gts) : gt :=
  match g with
  | Gs t a s e k => G t (unhex a) s e (map conv k)
  end.

Inductive c03case :=
| ParseCase (src : string) (unchanged : bool) (impl : option gts)
    (* parser.Parse(src): None = syntax error, Some ast; unchanged = the source bytes after Parse equal those before *)
| LexCase (src : string) (impl : option (list (N * string)))
    (* all tokens of src (kind code, value) read through lexer.Lex, None = a lexing error *)
| BlockCase (raw : string) (impl : string).
    (* the value of the block string token whose raw content is raw *)

Definition tkind_code (k : tkind) : N :=
  match k with
  | EOF => 1 | BANG => 2 | DOLLAR => 3 | PAREN_L => 4 | PAREN_R => 5 | SPREAD => 6 | COLON => 7
  | EQUALS => 8 | AT => 9 | BRACKET_L => 10 | BRACKET_R => 11 | BRACE_L => 12 | PIPE => 13
  | BRACE_R => 14 | NAME => 15 | INT => 16 | FLOAT => 17 | STRING => 18 | BLOCK_STRING => 19 | AMP => 20
  end.

Fixpoint toks_eqb (a : list token) (b : list (N * string)) : bool :=
  match a, b with
  | [], [] => true
  | t :: a', (k, v) :: b' => (tkind_code (tk t) =? k) && bytes_eqb (tval t) (unhex v) && toks_eqb a' b'
  | _, _ => false
  end.

Definition check (c : c03case) : N :=
  match c with
  | ParseCase src unchanged impl =>
    if negb unchanged then 2      (* "parsing does not modify the source it is given" *)
    else
      match parse (unhex src), impl with
      | OutOfFuel, _ => 1
      | Err, None => 0
      | Err, Some _ => 2          (* accepted a string the grammar does not derive (C03_parse_complete) *)
      | Ok _, None => 2           (* rejected a string the grammar derives (C03_parse_sound) *)
      | Ok (d, mb), Some g =>
        (* locations are compared unless a name token follows a multi-byte character in an
           ignored position (finding C18-mixed-offset-units: such names are reported in characters) *)
        if gt_eqb (negb mb) (g_doc d) (conv g) then 0 else 2
      end
  | LexCase src impl =>
    match lex (unhex src), impl with
    | OutOfFuel, _ => 1
    | Err, None => 0
    | Err, Some _ => 2
    | Ok _, None => 2
    | Ok (ts, _), Some l => if toks_eqb ts l then 0 else 2
    end
  | BlockCase raw impl =>
    if bytes_eqb (block_string_value (unhex raw)) (unhex impl) then 0 else 2
  end.

Fixpoint bad (cs : list (N * c03case)) : list (N * N) :=
  match cs with
  | [] => []
  | (id, c) :: r => let v := check c in if v =? 0 then bad r else (id, v) :: bad r
  end.
