(* Correspondence runner for C02.  A case is a schema, a document and, for every rule run
   alone (0..23, the order of SpecifiedRules) and for all rules together (24), the first
   locations (node ids) of the errors the implementation reported.
   Codes: 0 ok, 1 implementation differs from the model on an observable the Spec does not
   fix (which of several offending nodes is reported), 2 the implementation's verdict
   contradicts the Spec (accepts a violating document / rejects a satisfying one / reports
   an overlap error at a node that is in no conflicting pair). *)
From Coq Require Import List NArith ZArith Bool String.
From GQL Require Export Exec.Syntax Validate.VSyntax.
From GQL Require Import Base.Bytes Validate.Overlap Validate.OverlapWf Validate.Rules Validate.All.
Import ListNotations.
Open Scope N_scope.

Inductive c02case :=
| DocCase (S : schema) (W : wdoc) (impl : list (N * list N)).

(* the fuel of the overlap model and of the oracle: at least 200 and at least the proved bound
   fuel_of (C02_overlap_fuel_sufficient) *)
Definition fuel_for (W : wdoc) : nat := Nat.max 200 (fuel_of (erase W)).

Definition run_rule (r : N) (S : schema) (W : wdoc) : list N := run_rule_f (fuel_for W) r S W.

Fixpoint nin (x : N) (l : list N) : bool :=
  match l with [] => false | y :: r => (x =? y) || nin x r end.
Definition subset (a b : list N) : bool := forallb (fun x => nin x b) a.
Definition same_set (a b : list N) : bool := subset a b && subset b a.
Definition nonempty {A} (l : list A) : bool := match l with [] => false | _ => true end.

(* Spec verdict of a rule: does the document violate it?  For the overlap rule this is the
   brute-force layer L1; for NoFragmentCycles "some fragment reaches itself" (the certified test ranked_b); for the other
   rules the model's verdict (tied to the declarative predicates by the C02_rule_iff theorems). *)
Definition spec_violates (r : N) (S : schema) (W : wdoc) : bool :=
  match r with
  | 13 => match L1o S (erase W) (fuel_for W) with Some true => false | _ => true end
  | 9 => negb (ranked_b (erase W))   (* C02_cycles_oracle *)
  | _ => nonempty (run_rule r S W)
  end.

(* every field of the document has unique argument names (OverlapWf.args_ok).  Only then is the
   overlap rule judged against L1: with duplicate argument names sameArguments is neither
   reflexive nor symmetric, the code compares each unordered pair once and never a field with
   itself, and L1 (all ordered pairs) is not the rule's specification (UniqueArgumentNames
   rejects such documents; C02_same_arguments_symmetric) *)
Definition args_unique_b (D : document) : bool := args_ok D.

(* the decidable hypotheses of C02_overlap_exec_decides / C02_accept_iff, checked on every
   case: distinct non-zero selection ids, no redefinition of __typename / String, and the
   runner's fuel covers fuel_of *)
Definition wf_case (S : schema) (W : wdoc) : bool :=
  if ids_ok (erase W) then meta_ok S else false.

Definition check_rule (S : schema) (W : wdoc) (acyc : bool) (r : N) (impl : list N) : N :=
  let fuel := fuel_for W in
  (* nested ifs, not &&: vm_compute evaluates both arguments of andb *)
  if r =? 13 then
    (* the model must never run out of fuel (OutOfFuel is not a verdict) *)
    if negb (run_complete S (erase W) true fuel) then 1 else
    if negb (wf_case S W) then 1 else
    if acyc then
      (* the proved fuel bound covers the runner's fuel (C02_overlap_fuel_sufficient) *)
      if negb (Nat.leb (fuel_of (erase W)) fuel) then 1 else
      (* the Spec oracle is L1o (C02_L1_oracle_reflects: a verdict of L1o is the truth value of
         L1_accepts); None = out of fuel is a defect of the check, not a verdict *)
      if match L1o S (erase W) fuel with None => true | _ => false end then 1 else
      (* the declarative decomposition L2 is decided by the unmemoised executable
         (C02_overlap_unmemo_decides_L2): it must complete and agree with the oracle L1o
         (C02_overlap_decomposition) and with the memoised model (C02_overlap_memo_transparent) *)
      if negb (run_complete S (erase W) false fuel) then 1 else
      if negb (Bool.eqb (nonempty (run_overlap S (erase W) false fuel)) (spec_violates r S W)) then 1 else
      if negb (Bool.eqb (nonempty (run_rule r S W)) (spec_violates r S W)) then 1 else
      if negb (Bool.eqb (nonempty impl) (spec_violates r S W)) then 2 else
      (* located: every node the implementation reports is an offending node of the Spec -- a
         member of an incompatible pair (oracle offending_o, C02_offending_oracle; the model's
         own reports lie in it, C02_overlap_reports_offending) *)
      match offending_o S (erase W) fuel with
      | None => 1
      | Some ids =>
        if negb (subset impl ids) then 2
        else if negb (subset (run_rule r S W) ids) then 1
        else if same_set impl (run_rule r S W) then 0 else 1
      end
    else
      (* cyclic documents and documents with duplicate argument names are outside the overlap
         rule's specification (NoFragmentCycles / UniqueArgumentNames reject them); the
         memoised model still has to agree with the implementation *)
      (if same_set impl (run_rule r S W) then 0 else 1)
  else if (r =? 11) && negb (closures_stable W) then 1   (* the model's closure fell short: not a verdict *)
  else if (r =? 9) && negb (Bool.eqb (acyclic_b (erase W)) (ranked_b (erase W))) then 1   (* the two acyclicity tests differ *)
  else if negb (Bool.eqb (nonempty impl) (spec_violates r S W)) then 2
  else if same_set impl (run_rule r S W) then 0 else 1.

Fixpoint worst (l : list N) : N :=
  match l with [] => 0 | x :: r => N.max x (worst r) end.

Definition check (c : c02case) : N :=
  match c with
  | DocCase S0 W impl => let S := S0 in
    let acyc := if ranked_b (erase W) then args_unique_b (erase W) else false in
    worst (map (fun p =>
      let r := fst p in
      if r =? 24 then
        (* all rules together: accepted iff no rule is violated *)
        let any := existsb (fun r' => if r' =? 13 then (if acyc then spec_violates r' S W else false) else spec_violates r' S W) all_rules in
        if negb (Bool.eqb (nonempty (snd p)) any) then 2
        else if same_set (snd p) (flat_map (fun r' => run_rule r' S W) all_rules) then 0 else 1
      else check_rule S W acyc r (snd p)) impl)
  end.

Fixpoint bad (cs : list (N * c02case)) : list (N * N) :=
  match cs with
  | [] => []
  | (id, c) :: r => let v := check c in if v =? 0 then bad r else (id, v) :: bad r
  end.

(* diagnosis (replays): per rule set the code, the model's locations and the Spec verdict *)
Definition diag (c : c02case) : list (N * N * list N * bool) :=
  match c with
  | DocCase S0 W impl =>
    let acyc := if ranked_b (erase W) then args_unique_b (erase W) else false in
    flat_map (fun p =>
      let r := fst p in
      if r =? 24 then [] else
      let v := check_rule S0 W acyc r (snd p) in
      if v =? 0 then [] else [(r, v, run_rule r S0 W, spec_violates r S0 W)]) impl
  end.
