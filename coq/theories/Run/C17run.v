(* Correspondence runner for C17.  A case is: the request's outcome class, the
   extensions' behaviours, and what the implementation did (event log recorded
   by the instrumented extensions, len(Result.Errors), keys of
   Result.Extensions).  Codes: 0 ok, 1 impl <> model, 2 spec violated. *)
From Coq Require Import List NArith Bool String.
From GQL Require Export Ext.ExtensionsModel Ext.ExtensionsSpec.
Import ListNotations.
Open Scope N_scope.

Inductive c17case :=
| Case17 (c : cls) (exts : list ext) (log : list event) (nerr : N) (keys : list N).

Definition sres_eqb (a b : sres) : bool :=
  match a, b with SROk, SROk | SRNil, SRNil | SRFail, SRFail => true | _, _ => false end.
Definition hres_eqb (a b : hres) : bool :=
  match a, b with HRTrue, HRTrue | HRFalse, HRFalse | HRFail, HRFail => true | _, _ => false end.
Definition event_eqb (a b : event) : bool :=
  match a, b with
  | EInit e o, EInit e' o' => (e =? e') && Bool.eqb o o'
  | EStart e p r, EStart e' p' r' => (e =? e') && phase_eqb p p' && sres_eqb r r'
  | EFinish e p n o, EFinish e' p' n' o' => (e =? e') && phase_eqb p p' && (n =? n') && Bool.eqb o o'
  | EHas e r, EHas e' r' => (e =? e') && hres_eqb r r'
  | EGet e o, EGet e' o' => (e =? e') && Bool.eqb o o'
  | _, _ => false
  end.
Fixpoint log_eqb (a b : list event) : bool :=
  match a, b with
  | [], [] => true
  | x :: r, y :: s => event_eqb x y && log_eqb r s
  | _, _ => false
  end.
Definition subset (a b : list N) : bool := forallb (fun x => existsb (N.eqb x) b) a.

Definition check (cs : c17case) : N :=
  match cs with
  | Case17 c exts log nerr keys =>
    if negb (spec_ok c log nerr) then 2
    else match do_model c exts with
         | Done mlog mn mkeys =>
           if log_eqb log mlog && (nerr =? mn) && subset keys mkeys && subset mkeys keys then 0 else 1
         | Crash _ => 1
         end
  end.

Fixpoint bad (cs : list (N * c17case)) : list (N * N) :=
  match cs with
  | [] => []
  | (id, c) :: r => let v := check c in if v =? 0 then bad r else (id, v) :: bad r
  end.

(* which clause of the Spec an observed run violates (for replays) *)
Definition verdict (cs : c17case) : list bool :=
  match cs with
  | Case17 c _ log nerr _ =>
    [balancedb log; nestedb log; orderedb log; stopsb log; reportedb log nerr; outcomesb c log]
  end.
