(* Correspondence runner for C09.
   Codes: 0 ok; 1 the implementation's verdict differs from the model's;
   2 the implementation's result violates the specification (result_well_formed). *)
From Coq Require Import List ZArith NArith String Bool.
From GQL Require Export Run.ExecRun Total.Result Total.CollectBound Total.FragCycle Total.PlanWalk.
Import ListNotations.
Open Scope string_scope.
Open Scope list_scope.

Inductive c09case :=
| C9Shape (parse_failed valid_failed has_data : bool) (nerrs : N) (json_ok keys_ok : bool)
    (* the shape of what an entry point returned for an arbitrary input *)
| C9Exec (full : bool) (x : xcase)
    (* a request in the modelled fragment: verdict of the reference executor against the implementation's *)
| C9Cycle (Sc : schema) (D : document) (op : option name) (rejected : bool)
    (* PlanQuery on an unvalidated document with fragment cycles: rejected or planned *)
| C9CycleExec (rejected : bool) (x : xcase).
    (* as C9Cycle, and the accepted document was executed: full comparison with the reference executor *)

Definition opt_is_some {A} (o : option A) : bool := match o with Some _ => true | None => false end.

Definition shape_of_x (x : xcase) : shape :=
  {| sh_parse_failed := false; sh_valid_failed := false;
     sh_has_data := opt_is_some (x_data x);
     sh_nerrs := N.of_nat (List.length (x_errs x));
     sh_json_ok := true; sh_keys_ok := true |}.

Definition check_exec (full : bool) (c : xcase) : N :=
  if negb (result_well_formed (shape_of_x c)) then 2%N else
  let or := mk_oracle (x_oracle c) in
  let tor := mk_toracle (x_toracle c) in
  match request FUEL (x_schema c) (x_doc c) (x_op c) (x_inputs c) (x_root c) or tor with
  | RFuel => 1%N
  | RReject => if x_rejected c then 0%N else 1%N
  | RDone data s =>
    (* a failure that crossed a deferred non-null boundary: the implementation's answer is the
       recorded finding of C04 (known_findings.json); its shape was judged above, the verdict is not compared *)
    if st_escape s then 0%N else
    if x_rejected c then 1%N
    else if negb (Bool.eqb (opt_is_some data) (opt_is_some (x_data c))) then 1%N
    else if full then
      (* which resolvers still run after data itself is lost is left open by the property *)
      (if data_eqb data (x_data c) && multiset_eqb gerr_eqb (st_errs s) (x_errs c)
       then 0%N else 1%N)
    else 0%N
  end.

(* the operation's selection set, for the walk *)
Definition op_sels (D : document) (op : option name) : option (list selection) :=
  match get_operation D op with
  | Some o => Some (o_sel o)
  | None => None
  end.

Definition check_cycle (Sc : schema) (D : document) (op : option name) (rejected : bool) : N :=
  let m := fragment_cycle_through_field D in
  if negb (Bool.eqb m rejected) then 1%N
  else if m then 0%N
  else match op_sels D op with
       | None => 1%N
       | Some sels =>
         (* the accepted document has a bounded recursion (Proofs/TotalWalk.v): evaluate it *)
         match walk (plan_bound D) Sc D [] (s_query Sc) [sels] with
         | Some _ => 0%N
         | None => 1%N
         end
       end.

Definition check (c : c09case) : N :=
  match c with
  | C9Shape pf vf hd ne jk kk =>
    if result_well_formed {| sh_parse_failed := pf; sh_valid_failed := vf; sh_has_data := hd;
                             sh_nerrs := ne; sh_json_ok := jk; sh_keys_ok := kk |}
    then 0%N else 2%N
  | C9Exec full x => check_exec full x
  | C9Cycle Sc D op rejected => check_cycle Sc D op rejected
  | C9CycleExec rejected x =>
    match check_cycle (x_schema x) (x_doc x) (x_op x) rejected with
    | 0%N => check_exec true x
    | v => v
    end
  end.

Fixpoint bad (cs : list (N * c09case)) : list (N * N) :=
  match cs with
  | [] => []
  | (id, c) :: r => let v := check c in if (v =? 0)%N then bad r else (id, v) :: bad r
  end.
