(* Correspondence runner for C08.  The round-trip law is judged directly on what the
   implementation returned: 0 ok, 1 impl <> model, 2 the law is violated. *)
From Coq Require Import List NArith Bool String.
From GQL Require Import Base.Bytes Syntax.Lexer Syntax.Ast Syntax.Parser Syntax.Printer Proofs.SyntaxComplete Proofs.SyntaxRender.
From GQL Require Export Run.C03run.
Import ListNotations.
Open Scope N_scope.

Inductive c08case :=
| RoundTrip (src : string) (orig : gts) (printed : string) (reparsed : option gts) (stable : bool) (unchanged : bool)
    (* src = the source, orig = the parsed AST, printed = printer.Print(orig), reparsed = parser.Parse(printed),
       stable = the print of reparsed equals printed, unchanged = the AST is the same before and after Print *)
| NoEdit (unchanged : bool).

(* every string-valued leaf of the AST (string values and descriptions: tag 9) *)
Fixpoint strings_of (g : gt) : list bytes :=
  match g with
  | G t a _ _ kids => (if t =? 9 then [a] else []) ++ flat_map strings_of kids
  end.

Fixpoint contains (needle hay : bytes) : bool :=
  match hay with
  | [] => is_nil needle
  | _ :: r => starts_with needle hay || contains needle r
  end.

Definition check (c : c08case) : N :=
  match c with
  | NoEdit unchanged => if unchanged then 0 else 2
  | RoundTrip src orig printed reparsed stable unchanged =>
    if negb unchanged then 2
    else
      match reparsed with
      | None => 2
      | Some re =>
        let o := conv orig in
        if negb (gt_eqb false o (conv re)) then 2
        else if negb stable then 2
        else
          (* model cross-checks (correspondence): the parser model reads the printed text to the same AST,
             and every string value appears in the text in the quoted form the printer model gives it
             or (descriptions) as a block string *)
          match parse (unhex printed) with
          | Ok (d, _) =>
            if negb (gt_eqb false (g_doc d) (conv re)) then 1
            else if negb (forallb (fun s => match quote_string s with
                                      | Ok q => contains q (unhex printed) || contains [34; 34; 34] (unhex printed)
                                      | _ => false end) (strings_of o)) then 1
            else
              (* the printer's layout: the printed text is print_doc of the (model's) AST of the source,
                 for executable and type-system documents alike *)
              match parse (unhex src) with
              | Ok (d0, _) =>
                if negb (gt_eqb false (g_doc (norm_doc d0)) o) then 1
                else if negb (bytes_eqb (print_doc d0) (unhex printed)) then 1
                (* the hypothesis of C08_lex_layout holds for this document's layout (proved for every parsed
                   document with valid UTF-8 strings; evaluated here as a cross-check) *)
                else if layout_wfb (lay_doc d0) then 0 else 1
              | _ => 1
              end
          | _ => 1
          end
      end
  end.

Fixpoint bad (cs : list (N * c08case)) : list (N * N) :=
  match cs with
  | [] => []
  | (id, c) :: r => let v := check c in if v =? 0 then bad r else (id, v) :: bad r
  end.
