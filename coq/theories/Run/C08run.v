(* Correspondence runner for C08.  The round-trip law is judged directly on what the
   implementation returned: 0 ok, 1 impl <> model, 2 the law is violated. *)
From Coq Require Import List NArith Bool String.
From GQL Require Import Base.Bytes Syntax.Lexer Syntax.Ast Syntax.Parser Syntax.Printer Syntax.PrintVisit.
From GQL Require Export Run.C03run.
Import ListNotations.
Open Scope N_scope.

Inductive c08case :=
| RoundTrip (src : string) (orig : gts) (printed : string) (reparsed : option gts) (stable : bool) (unchanged : bool)
    (* src = the source, orig = the parsed AST, printed = printer.Print(orig), reparsed = parser.Parse(printed),
       stable = the print of reparsed equals printed, unchanged = the AST is the same before and after Print *)
| NoEdit (unchanged : bool)
| VisitEdit (str_changed : bool) (node_changed : bool).
    (* visitor.Visit on the document { a } with a leave function for Name nodes that returns a string
       (str_changed: the AST differs afterwards) resp. a fresh *ast.Name (node_changed) *)

(* the model of Visit's edit application on the frame Field -> Name (Syntax/PrintVisit.v) *)
Definition ve_heap : heap := [(1, mkHS 10 [(1, HPtr 2)]); (2, mkHS 20 []); (3, mkHS 20 [])].
Definition ve_keys (k : N) : list N := if k =? 10 then [1] else [].
Definition ve_fn (node : bool) (k : N) (v : rval) : option rval :=
  if k =? 20 then Some (if node then RNode 3 else RStr [122; 122]) else None.
Definition hval_eqb (a b : hval) : bool :=
  match a, b with
  | HNil, HNil => true
  | HPtr x, HPtr y => x =? y
  | HSlice x, HSlice y => bytes_eqb x y
  | HAtom x, HAtom y => bytes_eqb x y
  | _, _ => false
  end.
Fixpoint fields_eqb (a b : list (N * hval)) : bool :=
  match a, b with
  | [], [] => true
  | (k, x) :: a', (k', y) :: b' => (k =? k') && hval_eqb x y && fields_eqb a' b'
  | _, _ => false
  end.
Fixpoint heap_eqb (a b : heap) : bool :=
  match a, b with
  | [], [] => true
  | (x, s) :: a', (y, t) :: b' => (x =? y) && (hs_kind s =? hs_kind t) && fields_eqb (hs_fields s) (hs_fields t) && heap_eqb a' b'
  | _, _ => false
  end.
(* does the model's Visit change the heap? *)
Definition ve_changes (node : bool) : bool :=
  match visit ve_keys (ve_fn node) 3 ve_heap 1 with
  | Some (h', _) => negb (heap_eqb h' ve_heap)
  | None => false
  end.


(* every string-valued leaf of the AST (string values and descriptions: tag 9) *)
Fixpoint strings_of (g : gt) : list bytes :=
  match g with
  | G t a _ _ kids => (if t =? 9 then [a] else []) ++ flat_map strings_of kids
  end.

Fixpoint contains (needle hay : bytes) : bool :=
  match hay with
  | [] => is_nil needle
  | _ :: r => starts_with needle hay || contains needle r
  end.

Definition check (c : c08case) : N :=
  match c with
  | NoEdit unchanged => if unchanged then 0 else 2
  | VisitEdit str_changed node_changed =>
    (* C08_no_edit: functions returning strings never modify the AST (a violation of the property's
       no-edit clause when they do); the model's write through updateNodeField for a returned node is
       a correspondence observation *)
    if str_changed || ve_changes false then 2
    else if Bool.eqb node_changed (ve_changes true) then 0 else 1
  | RoundTrip src orig printed reparsed stable unchanged =>
    if negb unchanged then 2
    else
      match reparsed with
      | None => 2
      | Some re =>
        let o := conv orig in
        if negb (gt_eqb false o (conv re)) then 2
        else if negb stable then 2
        else
          (* model cross-checks (correspondence): the parser model reads the printed text to the same AST,
             and every string value appears in the text in the quoted form the printer model gives it
             or (descriptions) as a block string *)
          match parse (unhex printed) with
          | Ok (d, _) =>
            if negb (gt_eqb false (g_doc d) (conv re)) then 1
            else if negb (forallb (fun s => match quote_string s with
                                      | Ok q => contains q (unhex printed) || contains [34; 34; 34] (unhex printed)
                                      | _ => false end) (strings_of o)) then 1
            else
              (* the printer's layout: the printed text is print_doc of the (model's) AST of the source,
                 for executable and type-system documents alike *)
              match parse (unhex src) with
              | Ok (d0, _) =>
                if negb (gt_eqb false (g_doc (norm_doc d0)) o) then 1
                else if negb (bytes_eqb (print_doc d0) (unhex printed)) then 1
                (* (that this layout satisfies the hypothesis of C08_lex_layout is C08_layout_wf) *)
                else 0
              | _ => 1
              end
          | _ => 1
          end
      end
  end.

Fixpoint bad (cs : list (N * c08case)) : list (N * N) :=
  match cs with
  | [] => []
  | (id, c) :: r => let v := check c in if v =? 0 then bad r else (id, v) :: bad r
  end.
