(* Correspondence runner for C19.  Counters (verif build tag) read after running the real
   code on members of scaled document families are compared with the cost models
   (code 1 when they differ) and judged against the proved bounds and a degree-3 growth
   test (code 2). *)
From Coq Require Import List NArith ZArith Bool String.
From GQL Require Export Exec.Syntax Validate.VSyntax.
From GQL Require Import Base.Bytes Validate.Overlap Validate.Rules Validate.Cost.
Import ListNotations.
Open Scope N_scope.

Inductive c19case :=
| OverlapCase (S : schema) (W : wdoc) (ctr : list N)
    (* counters after ValidateDocument with the overlap rule alone *)
| PlanCase (S : schema) (W : wdoc) (ctr : list N)
    (* counters after PlanQuery *)
| DynPlanCase (W : wdoc) (ctr : list N)
    (* counters after PlanQuery + ExecutePlan of a document whose root level carries a
       variable-driven directive (collected and planned when the plan is executed) *)
| CycleCase (W : wdoc) (ctr : list N)
    (* counters after ValidateDocument with NoFragmentCycles alone *)
| GrowthCase (points : list (N * list N))
    (* (n, counters) of one family at successive sizes *)
| RuntimeCase (points : list (N * (N * N)))
| ImplementersCase (points : list (N * (N * N))).
    (* (0, (m implementers, planning work of PlanQuery on one fixed document)) *)
    (* (k runtime types encountered, (m implementers, planning calls during ExecutePlan)) *)

Definition fuel : nat := 400.
Definition ctr_at (i : nat) (c : list N) : N := nth i c 0.

Fixpoint sel_size (s : selection) : N :=
  match s with
  | SField _ _ _ _ _ sub =>
    1 + (fix go (l : list selection) : N := match l with [] => 0 | x :: r => sel_size x + go r end) sub
  | SSpread _ _ _ => 1
  | SInline _ _ _ sub =>
    1 + (fix go (l : list selection) : N := match l with [] => 0 | x :: r => sel_size x + go r end) sub
  end.
Definition sels_size (l : list selection) : N := fold_right (fun s a => sel_size s + a) 0 l.
Definition doc_size (D : document) : N :=
  fold_right (fun o a => 1 + sels_size (o_sel o) + a) 0 (d_ops D) +
  fold_right (fun f a => 1 + sels_size (fr_sel f) + a) 0 (d_frags D).

Definition check (c : c19case) : N :=
  match c with
  | OverlapCase S0 W ctr =>
    let D := erase W in
    let F := N.of_nat (List.length (d_frags D)) in
    let sets := N.of_nat (List.length (all_sets S0 D)) + F in
    let size := doc_size D in
    let ffb := ctr_at 3 ctr in
    let frb := ctr_at 4 ctr in
    (* proved bounds (C19_memo_bound) and a cubic bound on the field comparisons *)
    if F * F <? frb then 2
    else if 2 * sets * (F + 1) <? ffb then 2
    (* C19_find_conflict_bound: calls <= M*M*(visited sets + memo entries) *)
    else if (let m := N.of_nat (max_set_size S0 D) in
             m * m * (N.of_nat (List.length (all_sets S0 D)) + ffb + 2 * frb)) <? ctr_at 2 ctr then 2
    else if negb (frb =? N.of_nat (frfr_bodies S0 D fuel)) then 1
    else if negb (ffb =? N.of_nat (ff_bodies S0 D fuel)) then 1
    else if negb (ctr_at 2 ctr =? N.of_nat (fc_calls S0 D fuel)) then 1
    else 0
  | PlanCase S0 W ctr =>
    let D := erase W in
    let size := doc_size D in
    let calls := ctr_at 1 ctr in
    if 4 * size * size + 4 <? calls then 2
    else if 4 * size * size * size + 100 <? ctr_at 0 ctr then 2
    else if negb (calls =? p_calls (plan_doc S0 D true fuel)) then 1
    else 0
  | DynPlanCase W ctr =>
    (* planning moved to execution time obeys the same bounds: sub-plans stay shared *)
    let D := erase W in
    let size := doc_size D in
    if 4 * size * size + 4 <? ctr_at 1 ctr then 2
    else if 4 * size * size * size + 100 <? ctr_at 0 ctr then 2
    else 0
  | CycleCase W ctr =>
    (* C19_cycle_search_bound: every fragment is descended into at most once *)
    let calls := ctr_at 7 ctr in
    if N.of_nat (List.length (w_frags W)) <? calls then 2
    else if negb (calls =? N.of_nat (cycle_search_calls W)) then 1
    else 0
  | GrowthCase pts =>
    (* doubling n may multiply a count by at most 8 (degree 3), with slack for constants *)
    let fix go (l : list (N * list N)) : N :=
        match l with
        | (n1, c1) :: (((n2, c2) :: _) as r) =>
          if existsb (fun i => 10 * ctr_at i c1 + 64 <? ctr_at i c2) [0; 1; 2; 3; 4; 5; 6; 7]%nat
          then 2 else go r
        | _ => 0
        end in
    go pts
  | RuntimeCase pts =>
    (* the planning done while executing depends on the k types met, not on the m declared *)
    if existsb (fun p => existsb (fun q =>
         (fst p =? fst q) && negb (snd (snd p) =? snd (snd q))) pts) pts then 2
    else if existsb (fun p => 2 * fst p + 2 <? snd (snd p)) pts then 2
    else 0
  | ImplementersCase pts =>
    if existsb (fun p => existsb (fun q => negb (snd (snd p) =? snd (snd q))) pts) pts then 2 else 0
  end.

Fixpoint bad (cs : list (N * c19case)) : list (N * N) :=
  match cs with
  | [] => []
  | (id, c) :: r => let v := check c in if v =? 0 then bad r else (id, v) :: bad r
  end.
