(* Correspondence runner for C10.  A case carries the configuration the schema
   was built from (C11 configuration + types appended afterwards + decorations)
   and the description rebuilt from the implementation's introspection JSON.
   Codes: 0 ok, 1 implementation differs from the model, 2 the reported
   description is not an exact description of the schema (Spec). *)
From Coq Require Import List NArith ZArith Bool String.
From GQL Require Export Base.Bytes Types.Schema Types.Consistent Types.Literal Types.Introspection.
Import ListNotations.
Open Scope N_scope.

Definition h := unhex.

(* { __typename  __type(name:) { fields(includeDeprecated:) {name} enumValues(includeDeprecated:) {name} } } *)
Inductive subq := SubQ (tid : N) (include_deprecated : bool) (fields : option (list name)) (enums : option (list name)) (typename : name).

Inductive c10case :=
| IntroCase (full : bool) (c : config) (appended : list tref) (D : decor) (r : description) (ordered : bool) (subs : list subq).
    (* the full introspection query, and sub-queries on single types; full = false: the library's own
       types (ids below 100) are left out of the reported description and of the decorations;
       ordered: types, the fields of every type and its input fields came in name order (r itself
       carries every list in name order: the property fixes no order, the library does) *)

Definition built (c : config) (appended : list tref) : option view :=
  match new_schema (with_meta c) with
  | OK sch => match append_types sch appended with OK sch' => Some (view_of sch') | _ => None end
  | _ => None
  end.

Definition names_eqb (a b : option (list name)) : bool := opt_match (list_match bytes_eqb) a b.

Definition user_type (V : view) (t : dtype) : bool :=
  negb (existsb (fun vt => bytes_eqb (vt_name vt) (dt_name t) && (vt_id vt <? 100)) (v_types V)).
Definition restrict (full : bool) (V : view) (e : description) : description :=
  if full then e
  else Desc (filter (user_type V) (d_types e)) (d_query e) (d_mutation e) (d_subscription e) (d_directives e).

Definition check_sub (V : view) (D : decor) (q : subq) : bool :=
  match q with
  | SubQ tid incl fields enums typename =>
    match vfind (v_types V) tid with
    | None => false
    | Some vt =>
      let dt := describe_type V D vt in
      let ef := option_map (fun l => map df_name (fields_resolver incl l)) (dt_fields dt) in
      let ee := option_map (fun l => map de_name (enums_resolver incl l)) (dt_enums dt) in
      let qn := match root_name (v_types V) (v_query V) with Some n => n | None => [] end in
      names_eqb ef fields && names_eqb ee enums && bytes_eqb qn typename
    end
  end.

Definition check (c : c10case) : N :=
  match c with
  | IntroCase full c app D r ordered subs =>
    match built c app with
    | None => 1
    | Some V =>
      let e := restrict full V (describe V D) in
      if negb (matches true (v_types V) D e r && forallb (check_sub V D) subs) then 2
      else if matches false (v_types V) D e r && ordered then 0 else 1
    end
  end.

Fixpoint bad (cs : list (N * c10case)) : list (N * N) :=
  match cs with
  | [] => []
  | (id, c) :: r => let v := check c in if v =? 0 then bad r else (id, v) :: bad r
  end.
