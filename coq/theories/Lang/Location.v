(* Model of language/location.GetLocation and its specification.

   Model: as the Go code is written -- all leftmost matches of the regular
   expression "\r\n|[\n\r]" over the body, then a scan over the matches that
   start before the position.

   Spec: a single left-to-right pass that tracks the current line number and
   the byte offset at which the current line starts. *)
From Coq Require Import List NArith ZArith Bool.
From GQL Require Import Base.Bytes.
Import ListNotations.
Open Scope N_scope.

(* regexp.FindAllIndex(body, -1) for "\r\n|[\n\r]": (start, length) *)
Fixpoint matches (s : bytes) (i : N) : list (N * N) :=
  match s with
  | [] => []
  | c :: r =>
    if c =? 13 then
      match r with
      | d :: r' => if d =? 10 then (i, 2) :: matches r' (i + 2)
                   else (i, 1) :: matches r (i + 1)
      | [] => [(i, 1)]
      end
    else if c =? 10 then (i, 1) :: matches r (i + 1)
    else matches r (i + 1)
  end.

Fixpoint scan (ms : list (N * N)) (position line : N) (column : Z) : N * Z :=
  match ms with
  | [] => (line, column)
  | (mi, l) :: r =>
    if mi <? position
    then scan r position (line + 1) (Z.of_N position + 1 - Z.of_N (mi + l))%Z
    else (line, column)
  end.

Definition get_location (s : bytes) (position : N) : N * Z :=
  scan (matches s 0) position 1 (Z.of_N position + 1)%Z.

(* ---- specification ---- *)

Fixpoint spec_go (s : bytes) (i position line lstart : N) : N * Z :=
  match s with
  | [] => (line, (Z.of_N position + 1 - Z.of_N lstart)%Z)
  | c :: r =>
    if position <=? i then (line, (Z.of_N position + 1 - Z.of_N lstart)%Z)
    else if c =? 13 then
      match r with
      | d :: r' => if d =? 10 then spec_go r' (i + 2) position (line + 1) (i + 2)
                   else spec_go r (i + 1) position (line + 1) (i + 1)
      | [] => (line + 1, (Z.of_N position + 1 - Z.of_N (i + 1))%Z)
      end
    else if c =? 10 then spec_go r (i + 1) position (line + 1) (i + 1)
    else spec_go r (i + 1) position line lstart
  end.

Definition spec_location (s : bytes) (position : N) : N * Z :=
  spec_go s 0 position 1 0.

(* The start offset of the line that contains [position] (byte offset). *)
Definition line_start (s : bytes) (position : N) : N :=
  let '(_, col) := spec_location s position in
  Z.to_N (Z.of_N position + 1 - col).

(* Number of UTF-8 code points that start in s[from, to): every byte that is
   not a continuation byte (10xxxxxx) starts one. *)
Fixpoint count_cp (s : bytes) (i from to : N) : N :=
  match s with
  | [] => 0
  | c :: r =>
    (if (from <=? i) && (i <? to) && negb ((128 <=? c) && (c <? 192)) then 1 else 0)
    + count_cp r (i + 1) from to
  end.

(* Column counted in code points instead of bytes. *)
Definition cp_column (s : bytes) (position : N) : Z :=
  (Z.of_N (count_cp s 0 (line_start s position) position) + 1)%Z.

(* A reported (line, column) is acceptable for byte offset [off] when the line
   is the specified one and the column is the specified one in bytes or in
   code points (the property does not fix the unit). *)
Definition loc_ok (s : bytes) (off : N) (line : N) (col : Z) : bool :=
  let '(l, c) := spec_location s off in
  (line =? l) && ((col =? c)%Z || (col =? cp_column s off)%Z).
