(* Specification side of C06.

   Reference semantics: no cache at all -- every Get is answered by planning
   that request from scratch ([spec_outs]).  The cache is allowed to be an
   abstract map from keys to results provided every retained entry is
   *faithful*: it holds what planning from scratch gives for every request
   that maps to its key under its schema ([faithful_entry], [key_faithful]).

   The second half of the file is the executable judgement of what was
   observed on the implementation (used by Run/C06run.v): the Spec clauses
   proper (bound on retained entries, response = response from scratch, own
   literals, caller's document unchanged) and the policy-independent
   transition relation of a cache with *some* eviction policy ([adm_get]).
   No proofs here. *)
From Coq Require Import List NArith ZArith Bool.
From GQL Require Import Base.Bytes Cache.LRU.
Import ListNotations.
Open Scope N_scope.

Section Spec.
  Context {R : Type}.
  Variable hash : bytes -> bytes.
  Variable fresh : cfg -> req -> R.

  (* the uncached reference *)
  Definition spec_outs (c : cfg) (h : list op) : list R := map (fresh c) (gets h).

  Definition key_faithful (c : cfg) : Prop :=
    forall r1 r2 k, key hash c r1 = Some k -> key hash c r2 = Some k ->
                    rq_schema r1 = rq_schema r2 -> fresh c r1 = fresh c r2.

  Definition faithful_entry (c : cfg) (e : entry R) : Prop :=
    exists r0, key hash c r0 = Some (e_key e) /\ rq_schema r0 = e_schema e /\ e_res e = fresh c r0.

  Definition faithful_state (c : cfg) (s : state R) : Prop := Forall (faithful_entry c) (entries s).

  Definition bounded (c : cfg) (s : state R) : Prop := nlen (entries s) <= eff_max c.
End Spec.

(* ---- judgement of observations made on the implementation ---- *)

(* an observed retained entry: (key id, schema id) *)
Definition pent := (N * N)%type.

Definition pent_eqb (a b : pent) : bool := (fst a =? fst b) && (snd a =? snd b).
Definition mem_pent (a : pent) (l : list pent) : bool := existsb (pent_eqb a) l.
Definition has_kid (k : N) (l : list pent) : bool := existsb (fun e => fst e =? k) l.
Definition remove_kid (k : N) (l : list pent) : list pent := filter (fun e => negb (fst e =? k)) l.
Definition subset_pent (l1 l2 : list pent) : bool := forallb (fun a => mem_pent a l2) l1.
Fixpoint nodup_kid (l : list pent) : bool :=
  match l with
  | [] => true
  | a :: t => negb (has_kid (fst a) t) && nodup_kid t
  end.

(* Spec clause: never more entries than configured *)
Definition spec_bound_ok (max count : N) : bool := count <=? max.

(* One Get on the cached path, for a request with key id k and schema s,
   observed as hit (1) or miss (2), taking the retained set from P to P'.
   Admissible for a cache with some eviction policy: a hit needs the entry
   and keeps the set; a miss needs its absence, drops a same-key entry of
   another schema, adds the new entry and evicts just enough entries. *)
Definition adm_get (max : N) (P : list pent) (k s : N) (hit : N) (P' : list pent) : bool :=
  nodup_kid P' &&
  match hit with
  | 1 => mem_pent (k, s) P && subset_pent P' P && subset_pent P P'
  | 2 => negb (mem_pent (k, s) P) &&
         (let Q := (k, s) :: remove_kid k P in
          subset_pent P' Q && (nlen P' =? N.min (nlen Q) max) && ((max <? nlen Q) || subset_pent Q P'))
  | _ => false
  end.

(* a Get that bypasses the cache: nothing counted, nothing retained or dropped *)
Fixpoint pents_eqb (a b : list pent) : bool :=
  match a, b with
  | [], [] => true
  | x :: a', y :: b' => pent_eqb x y && pents_eqb a' b'
  | _, _ => false
  end.

Definition adm_bypass (P : list pent) (hit : N) (P' : list pent) : bool :=
  (hit =? 0) && pents_eqb P P'.
