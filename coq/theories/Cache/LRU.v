(* Model of the plan cache (plan_cache.go): PlanCache.Get / lookup / store /
   shouldCache / Reset / NewPlanCache defaults, the key construction, and the
   hit/miss counters, as a state machine over histories of operations.

   What the code computes from a request that this model does not recompute
   (parsing, normalisation, validation, planning) is abstract:
     - a request descriptor [req] carries the schema pointer (as an id), the
       operation name, the query text and the outcome class of
       parse + normalizeDocument (parse error / normalisation error /
       canonical printed text of the normalised document / not applicable);
     - [fresh c r] is what Get computes for r when nothing is cached
       (planAndValidate, or validate + plan of the normalised document);
     - [synth r] are the literal values normalizeDocument extracted from r;
     - [hash] is SHA-256 + hex;
     - [victim] chooses the entry to evict.  The code evicts the least
       recently used one ([lru_victim]); the property does not depend on that
       choice, so the model is parametric in it.
   No proofs here. *)
From Coq Require Import List NArith ZArith Bool Decimal DecimalN.
From GQL Require Import Base.Bytes.
Import ListNotations.
Open Scope N_scope.

(* ---- strconv.Itoa on a length, and the length-prefixed operation name ---- *)

Fixpoint uint_bytes (u : Decimal.uint) : bytes :=
  match u with
  | Decimal.Nil => []
  | Decimal.D0 r => 48 :: uint_bytes r
  | Decimal.D1 r => 49 :: uint_bytes r
  | Decimal.D2 r => 50 :: uint_bytes r
  | Decimal.D3 r => 51 :: uint_bytes r
  | Decimal.D4 r => 52 :: uint_bytes r
  | Decimal.D5 r => 53 :: uint_bytes r
  | Decimal.D6 r => 54 :: uint_bytes r
  | Decimal.D7 r => 55 :: uint_bytes r
  | Decimal.D8 r => 56 :: uint_bytes r
  | Decimal.D9 r => 57 :: uint_bytes r
  end.

Definition itoa (n : N) : bytes := uint_bytes (N.to_uint n).

Definition colon : byte := 58.

(* strconv.Itoa(len(operationName)) + ":" + operationName + rest *)
Definition lenprefix (op rest : bytes) : bytes := itoa (nlen op) ++ colon :: op ++ rest.

Definition raw_tag : bytes := [114; 97; 119; 58].   (* "raw:" *)

(* ---- requests and configuration ---- *)

Inductive rclass :=
| RParseErr                 (* parser.Parse fails *)
| RNormErr                  (* normalizeDocument returns an error *)
| RNorm (text : bytes)      (* canonical printed text of the normalised document *)
| RRaw.                     (* normalisation not applicable: empty key *)

Record req := mkReq { rq_schema : N; rq_op : bytes; rq_query : bytes; rq_class : rclass }.

Record cfg := mkCfg {
  c_nil : bool;        (* nil *PlanCache *)
  c_max : Z;           (* PlanCacheOptions.MaxEntries as passed *)
  c_maxq : Z;          (* PlanCacheOptions.MaxQueryBytes as passed *)
  c_norm : bool;       (* PlanCacheOptions.Normalize *)
  c_defmax : N;        (* defaultPlanCacheMaxEntries *)
  c_defq : N           (* defaultPlanCacheMaxQueryBytes *)
}.

(* NewPlanCache *)
Definition eff_max (c : cfg) : N := if (c_max c <=? 0)%Z then c_defmax c else Z.to_N (c_max c).
Definition eff_maxq (c : cfg) : N := if (c_maxq c <=? 0)%Z then c_defq c else Z.to_N (c_maxq c).

(* shouldCache *)
Definition should_cache (c : cfg) (qlen : N) : bool := (eff_maxq c =? 0) || (qlen <=? eff_maxq c).

(* what the plan that Get builds on a miss is a function of *)
Inductive ctext :=
| CPlain (q : bytes)        (* the query text itself *)
| CNormd (t : bytes)        (* the printed normalised document *)
| CNormErr (q : bytes).     (* normalisation failed on this query *)

Definition cached_path (c : cfg) (r : req) : bool :=
  negb (c_nil c) && should_cache c (nlen (rq_query r)).

Definition canon (c : cfg) (r : req) : ctext :=
  if cached_path c r && c_norm c then
    match rq_class r with
    | RParseErr => CPlain (rq_query r)
    | RNormErr => CNormErr (rq_query r)
    | RNorm t => CNormd t
    | RRaw => CPlain (rq_query r)
    end
  else CPlain (rq_query r).

Section Cache.
  Context {R A : Type}.
  Variable hash : bytes -> bytes.
  Variable fresh : cfg -> req -> R.
  Variable ok : R -> bool.           (* the result carries a plan (no errors) *)
  Variable synth : req -> A.
  Variable no_synth : A.

  Record entry := mkE { e_key : bytes; e_schema : N; e_res : R }.
  Variable victim : list entry -> bytes.

  Record state := mkS { entries : list entry (* most recently used first *); hits : N; misses : N }.

  Definition init : state := mkS [] 0 0.

  (* the cache key of a request; None: the request is served without the cache *)
  Definition key (c : cfg) (r : req) : option bytes :=
    if negb (cached_path c r) then None
    else if negb (c_norm c) then Some (lenprefix (rq_op r) (rq_query r))
    else match rq_class r with
         | RParseErr => None
         | RNormErr => None
         | RNorm t => Some (lenprefix (rq_op r) (hash (rq_op r ++ 0 :: t)))
         | RRaw => Some (lenprefix (rq_op r) (raw_tag ++ rq_query r))
         end.

  Definition has_key (k : bytes) (e : entry) : bool := bytes_eqb (e_key e) k.
  Definition find_key (k : bytes) (es : list entry) : option entry := find (has_key k) es.
  Definition remove_key (k : bytes) (es : list entry) : list entry := filter (fun e => negb (has_key k e)) es.

  (* PlanCache.lookup *)
  Definition lookup (s : state) (sch : N) (k : bytes) : state * option R :=
    match find_key k (entries s) with
    | None => (mkS (entries s) (hits s) (misses s + 1), None)
    | Some e =>
      if e_schema e =? sch
      then (mkS (e :: remove_key k (entries s)) (hits s + 1) (misses s), Some (e_res e))
      else (mkS (remove_key k (entries s)) (hits s) (misses s + 1), None)
    end.

  (* the eviction loop of PlanCache.store *)
  Fixpoint evict (fuel : nat) (max : N) (es : list entry) : list entry :=
    match fuel with
    | O => es
    | S f => if max <? nlen es then evict f max (remove_key (victim es) es) else es
    end.

  (* PlanCache.store *)
  Definition store (c : cfg) (s : state) (sch : N) (k : bytes) (v : R) : state :=
    match find_key k (entries s) with
    | Some _ => mkS (mkE k sch v :: remove_key k (entries s)) (hits s) (misses s)
    | None => let es := mkE k sch v :: entries s in
              mkS (evict (length es) (eff_max c) es) (hits s) (misses s)
    end.

  Record out := mkOut { o_res : R; o_synth : A; o_hit : option bool }.

  (* the SynthArgs that belong to request r under configuration c *)
  Definition own_synth (c : cfg) (r : req) : A :=
    match key c r with
    | None => no_synth
    | Some _ => if c_norm c then synth r else no_synth
    end.

  (* PlanCache.Get *)
  Definition get (c : cfg) (s : state) (r : req) : state * out :=
    match key c r with
    | None => (s, mkOut (fresh c r) no_synth None)
    | Some k =>
      match lookup s (rq_schema r) k with
      | (s1, Some v) => (s1, mkOut v (own_synth c r) (Some true))
      | (s1, None) =>
        let v := fresh c r in
        (store c s1 (rq_schema r) k v,
         mkOut v (if ok v then own_synth c r else no_synth) (Some false))
      end
    end.

  (* PlanCache.Reset (a nil cache has no state to drop) *)
  Definition reset (s : state) : state := mkS [] (hits s) (misses s).

  Inductive op := OGet (r : req) | OReset.

  Definition step (c : cfg) (s : state) (o : op) : state * list out :=
    match o with
    | OGet r => let '(s1, x) := get c s r in (s1, [x])
    | OReset => (reset s, [])
    end.

  (* a whole history: final state and the outputs of its Gets, in order *)
  Definition run_from (c : cfg) (s : state) (h : list op) : state * list out :=
    fold_left (fun acc o => let '(s1, xs) := step c (fst acc) o in (s1, snd acc ++ xs)) h (s, []).

  Definition run (c : cfg) (h : list op) : state * list out := run_from c init h.

  Fixpoint gets (h : list op) : list req :=
    match h with
    | [] => []
    | OGet r :: t => r :: gets t
    | OReset :: t => gets t
    end.

  (* the code's policy: least recently used *)
  Fixpoint last_key (es : list entry) : bytes :=
    match es with
    | [] => []
    | [e] => e_key e
    | _ :: t => last_key t
    end.
End Cache.

Arguments mkE {R}.
Arguments mkS {R}.
Arguments entry : clear implicits.
Arguments state : clear implicits.
Arguments out : clear implicits.
Arguments init {R}.
