(* Model of literal normalisation (plan_cache_normalize.go: normalizeDocument,
   normalizeSelectionSet, normalizeField, tryExtract, nextName, and the
   fragment-spread guard) on a reduced query syntax, together with the
   denotation against which "executing the normalised document with the
   synthetic variables equals executing the original" is stated.

   Syntax: values are variables, scalar literals, lists and input objects
   (any of which may contain variables); a field has an alias, a name,
   arguments, directives (each with arguments) and a sub-selection; inline
   fragments and fragment spreads carry directives.  Names and types are
   numbers.  The schema is lookup functions.  valueFromAST ([coerce]),
   isValidLiteralValue ([lit_valid]), variable coercion ([var_coerce]) and
   equality of printed values ([value_eqb]) are parameters.

   What an executor can observe of a document under variable values [env] is
   its denotation [denote]: arguments of fields and directives whose type the
   schema gives by their coerced value, everything the walk cannot type
   (unknown field, selections below an abstract type) by its syntax plus the
   values of the variables that occur in it.  No proofs here. *)
From Coq Require Import List NArith Bool.
Import ListNotations.
Open Scope N_scope.

Section Norm.
  Context {L cval : Type}.
  Definition name := N.
  Definition ty := N.        (* input types *)
  Definition otype := N.     (* object types *)

  Inductive value :=
  | VVar (x : name)
  | VScalar (l : L)
  | VList (vs : list value)
  | VObj (fs : list (name * value)).

  Fixpoint value_vars (v : value) : list name :=
    match v with
    | VVar x => [x]
    | VScalar _ => []
    | VList vs => flat_map value_vars vs
    | VObj fs => flat_map (fun f => value_vars (snd f)) fs
    end.

  Definition dir := (name * list (name * value))%type.

  Inductive sel :=
  | Field (alias : option name) (nm : name) (args : list (name * value)) (dirs : list dir) (sub : list sel)
  | Inline (tc : option name) (dirs : list dir) (sub : list sel)
  | Spread (f : name) (dirs : list dir).

  Definition args_vars (args : list (name * value)) : list name := flat_map (fun a => value_vars (snd a)) args.
  Definition dirs_vars (ds : list dir) : list name := flat_map (fun d => args_vars (snd d)) ds.

  Fixpoint sel_vars (s : sel) : list name :=
    match s with
    | Field _ _ args ds sub => args_vars args ++ dirs_vars ds ++ flat_map sel_vars sub
    | Inline _ ds sub => dirs_vars ds ++ flat_map sel_vars sub
    | Spread _ ds => dirs_vars ds
    end.

  Fixpoint spreads (s : sel) : bool :=
    match s with
    | Field _ _ _ _ sub => existsb spreads sub
    | Inline _ _ sub => existsb spreads sub
    | Spread _ _ => true
    end.

  Variable value_eqb : value -> value -> bool.                  (* equal printed text *)
  Variable cval_eqb : cval -> cval -> bool.                     (* reflect.DeepEqual *)
  Variable synth_name : N -> name.                              (* "__pcv%d" *)
  Variable field_def : otype -> name -> option (option otype).  (* getFieldDef; Some (Some o): object-typed *)
  Variable arg_ty : otype -> name -> name -> option ty.
  Variable dir_arg_ty : name -> name -> option ty.              (* directive argument types *)
  Variable tc_obj : name -> option otype.                       (* type condition naming an object type *)
  Variable coerce : ty -> value -> (name -> option cval) -> option cval.   (* valueFromAST; None = nil *)
  Variable lit_valid : ty -> value -> bool.                     (* isValidLiteralValue *)
  Variable var_coerce : ty -> cval -> option cval.              (* isValidInputValue + coerceValue *)

  Definition no_vars : name -> option cval := fun _ => None.

  (* ---- normalisation ---- *)

  Record nst := mkN { n_counter : N; n_shared : list (ty * value * name); n_synth : list (name * (ty * cval)) }.

  Variable taken : list name.     (* variableNames(doc) *)

  Definition mem (x : name) (l : list name) : bool := existsb (N.eqb x) l.

  (* nextName: the loop ends because only finitely many names are taken *)
  Fixpoint next_name (f : nat) (k : N) : option (name * N) :=
    match f with
    | O => None
    | S f' => if mem (synth_name k) taken then next_name f' (k + 1) else Some (synth_name k, k + 1)
    end.

  Definition name_fuel : nat := S (length taken).

  Definition find_shared (t : ty) (v : value) (sh : list (ty * value * name)) : option name :=
    match find (fun e => (fst (fst e) =? t) && value_eqb (snd (fst e)) v) sh with
    | Some e => Some (snd e)
    | None => None
    end.

  (* the part of tryExtract that depends on the value and its position only:
     the value handed to the synthetic variable, if the literal is extracted *)
  Definition extract_value (t : ty) (v : value) : option cval :=
    match value_vars v with
    | _ :: _ => None                                   (* a variable somewhere in the value *)
    | [] =>
      if negb (lit_valid t v) then None
      else match coerce t v no_vars with
           | None => None
           | Some c => match var_coerce t c with
                       | Some c' => if cval_eqb c' c then Some c else None
                       | None => None
                       end
           end
    end.

  (* tryExtract *)
  Definition try_extract (st : nst) (t : ty) (v : value) : nst * value :=
    match extract_value t v with
    | None => (st, v)
    | Some c =>
      match find_shared t v (n_shared st) with
      | Some x => (st, VVar x)
      | None =>
        match next_name name_fuel (n_counter st) with
        | None => (st, v)
        | Some (x, k') => (mkN k' ((t, v, x) :: n_shared st) (n_synth st ++ [(x, (t, c))]), VVar x)
        end
      end
    end.

  Fixpoint norm_args (st : nst) (o : otype) (nm : name) (args : list (name * value)) : nst * list (name * value) :=
    match args with
    | [] => (st, [])
    | (a, v) :: r =>
      let '(st1, v') := match arg_ty o nm a with
                        | Some t => try_extract st t v
                        | None => (st, v)
                        end in
      let '(st2, r') := norm_args st1 o nm r in
      (st2, (a, v') :: r')
    end.

  Definition norm_list (f : nst -> sel -> nst * sel) : nst -> list sel -> nst * list sel :=
    fix go (st : nst) (l : list sel) {struct l} : nst * list sel :=
      match l with
      | [] => (st, [])
      | s :: r => let '(st1, s') := f st s in
                  let '(st2, r') := go st1 r in
                  (st2, s' :: r')
      end.

  Definition cond_type (o : otype) (tc : option name) : otype :=
    match tc with
    | Some n => match tc_obj n with Some x => x | None => o end
    | None => o
    end.

  (* normalizeSelectionSet / normalizeField: directive arguments are never touched *)
  Fixpoint norm_sel (o : otype) (st : nst) (s : sel) {struct s} : nst * sel :=
    match s with
    | Field al nm args ds sub =>
      match field_def o nm with
      | None => (st, s)
      | Some ft =>
        let '(st1, args') := norm_args st o nm args in
        match ft with
        | Some o' => let '(st2, sub') := norm_list (norm_sel o') st1 sub in (st2, Field al nm args' ds sub')
        | None => (st1, Field al nm args' ds sub)
        end
      end
    | Inline tc ds sub =>
      let '(st1, sub') := norm_list (norm_sel (cond_type o tc)) st sub in (st1, Inline tc ds sub')
    | Spread _ _ => (st, s)
    end.

  Definition n_init : nst := mkN 0 [] [].

  (* normalizeDocument on the selected operation: its selection set under the root type *)
  Definition normalize (root : otype) (sels : list sel) : nst * list sel :=
    if existsb spreads sels then (n_init, sels) else norm_list (norm_sel root) n_init sels.

  (* ---- what the rewriting amounts to: a substitution at typed argument positions ---- *)

  Definition sub_value (st : nst) (t : ty) (v : value) : value :=
    match extract_value t v with
    | None => v
    | Some _ => match find_shared t v (n_shared st) with Some x => VVar x | None => v end
    end.

  Definition sub_args (st : nst) (o : otype) (nm : name) (args : list (name * value)) : list (name * value) :=
    map (fun a => (fst a, match arg_ty o nm (fst a) with Some t => sub_value st t (snd a) | None => snd a end)) args.

  Fixpoint sub_sel (st : nst) (o : otype) (s : sel) {struct s} : sel :=
    match s with
    | Field al nm args ds sub =>
      match field_def o nm with
      | None => s
      | Some (Some o') => Field al nm (sub_args st o nm args) ds (map (sub_sel st o') sub)
      | Some None => Field al nm (sub_args st o nm args) ds sub
      end
    | Inline tc ds sub => Inline tc ds (map (sub_sel st (cond_type o tc)) sub)
    | Spread _ _ => s
    end.

  (* ---- denotation ---- *)

  Definition renv := list (name * option cval).
  Definition restrict (env : name -> option cval) (xs : list name) : renv := map (fun x => (x, env x)) xs.

  Inductive darg := DVal (c : option cval) | DArgOpaque (v : value) (r : renv).
  Definition ddir := (name * list (name * darg))%type.

  Inductive dsel :=
  | DField (alias : option name) (nm : name) (args : list (name * darg)) (dirs : list ddir) (sub : list dsel)
  | DInline (tc : option name) (dirs : list ddir) (sub : list dsel)
  | DSpread (f : name) (dirs : list ddir)
  | DOpaque (s : sel) (r : renv).

  Definition denote_arg (env : name -> option cval) (ot : option ty) (v : value) : darg :=
    match ot with
    | Some t => DVal (coerce t v env)
    | None => DArgOpaque v (restrict env (value_vars v))
    end.

  Definition denote_dir (env : name -> option cval) (d : dir) : ddir :=
    (fst d, map (fun a => (fst a, denote_arg env (dir_arg_ty (fst d) (fst a)) (snd a))) (snd d)).

  Definition opaque (env : name -> option cval) (s : sel) : dsel := DOpaque s (restrict env (sel_vars s)).

  Fixpoint denote (env : name -> option cval) (o : otype) (s : sel) {struct s} : dsel :=
    match s with
    | Field al nm args ds sub =>
      match field_def o nm with
      | None => opaque env s
      | Some ft =>
        DField al nm
               (map (fun a => (fst a, denote_arg env (arg_ty o nm (fst a)) (snd a))) args)
               (map (denote_dir env) ds)
               match ft with
               | Some o' => map (denote env o') sub
               | None => map (opaque env) sub
               end
      end
    | Inline tc ds sub => DInline tc (map (denote_dir env) ds) (map (denote env (cond_type o tc)) sub)
    | Spread f ds => DSpread f (map (denote_dir env) ds)
    end.

  (* the variable values the executor computes for the normalised operation:
     the caller's, plus each synthetic definition applied to its SynthArgs value *)
  Definition extend (env : name -> option cval) (synth : list (name * (ty * cval))) : name -> option cval :=
    fun x => match find (fun e => fst e =? x) synth with
             | Some e => var_coerce (fst (snd e)) (snd (snd e))
             | None => env x
             end.
End Norm.
