(* Model of literal normalisation (plan_cache_normalize.go: normalizeDocument,
   normalizeSelectionSet, normalizeField, tryExtract, nextName, and the
   fragment-spread guard) on a reduced query syntax, together with the
   denotation against which "executing the normalised document with the
   synthetic variables equals executing the original" is stated.

   Reduction: a value is a variable, a variable-free literal (opaque, coerced
   by [lit_coerce] = valueFromAST) or a composite containing variables (opaque,
   never extracted); aliases and directives of a selection are one opaque
   decoration; names and types are numbers.  The schema is three lookup
   functions.  What an executor can observe of a document under variable
   values [env] is its denotation [denote]: typed arguments by their coerced
   value, everything else by its syntax plus the values of the variables that
   occur in it.  No proofs here. *)
From Coq Require Import List NArith Bool.
Import ListNotations.
Open Scope N_scope.

Section Norm.
  Context {L cval mixed deco : Type}.
  Definition name := N.
  Definition ty := N.        (* input types *)
  Definition otype := N.     (* object types *)
  Variable L_eqb : L -> L -> bool.
  Variable cval_eqb : cval -> cval -> bool.
  Variable mixed_vars : mixed -> list name.
  Variable deco_vars : deco -> list name.
  Variable synth_name : N -> name.                             (* "__pcv%d" *)
  Variable field_def : otype -> name -> option (option otype). (* getFieldDef; Some (Some o): object-typed *)
  Variable arg_ty : otype -> name -> name -> option ty.
  Variable tc_obj : name -> option otype.                      (* type condition naming an object type *)
  Variable lit_coerce : ty -> L -> option cval.                (* valueFromAST on a literal; None = nil *)
  Variable var_coerce : ty -> cval -> option cval.             (* isValidInputValue + coerceValue *)

  Inductive value := VVar (x : name) | VLit (l : L) | VMixed (m : mixed).

  Inductive sel :=
  | Field (d : deco) (nm : name) (args : list (name * value)) (sub : list sel)
  | Inline (d : deco) (tc : option name) (sub : list sel)
  | Spread (d : deco) (f : name).

  Definition value_vars (v : value) : list name :=
    match v with VVar x => [x] | VLit _ => [] | VMixed m => mixed_vars m end.

  Fixpoint sel_vars (s : sel) : list name :=
    match s with
    | Field d _ args sub => deco_vars d ++ flat_map (fun a => value_vars (snd a)) args ++ flat_map sel_vars sub
    | Inline d _ sub => deco_vars d ++ flat_map sel_vars sub
    | Spread d _ => deco_vars d
    end.

  Fixpoint spreads (s : sel) : bool :=
    match s with
    | Field _ _ _ sub => existsb spreads sub
    | Inline _ _ sub => existsb spreads sub
    | Spread _ _ => true
    end.

  (* ---- normalisation ---- *)

  Record nst := mkN { n_counter : N; n_shared : list (ty * L * name); n_synth : list (name * (ty * cval)) }.

  Variable taken : list name.     (* variableNames(doc) *)
  Variable fuel : nat.            (* bound on the nextName loop *)

  Definition mem (x : name) (l : list name) : bool := existsb (N.eqb x) l.

  Fixpoint next_name (f : nat) (k : N) : option (name * N) :=
    match f with
    | O => None
    | S f' => if mem (synth_name k) taken then next_name f' (k + 1) else Some (synth_name k, k + 1)
    end.

  Definition find_shared (t : ty) (l : L) (sh : list (ty * L * name)) : option name :=
    match find (fun e => (fst (fst e) =? t) && L_eqb (snd (fst e)) l) sh with
    | Some e => Some (snd e)
    | None => None
    end.

  (* tryExtract *)
  Definition try_extract (st : nst) (t : ty) (v : value) : nst * value :=
    match v with
    | VLit l =>
      match lit_coerce t l with
      | None => (st, v)
      | Some c =>
        match var_coerce t c with
        | Some c' =>
          if cval_eqb c' c then
            match find_shared t l (n_shared st) with
            | Some x => (st, VVar x)
            | None =>
              match next_name fuel (n_counter st) with
              | None => (st, v)
              | Some (x, k') => (mkN k' ((t, l, x) :: n_shared st) (n_synth st ++ [(x, (t, c))]), VVar x)
              end
            end
          else (st, v)
        | None => (st, v)
        end
      end
    | _ => (st, v)
    end.

  Fixpoint norm_args (st : nst) (o : otype) (nm : name) (args : list (name * value)) : nst * list (name * value) :=
    match args with
    | [] => (st, [])
    | (a, v) :: r =>
      let '(st1, v') := match arg_ty o nm a with
                        | Some t => try_extract st t v
                        | None => (st, v)
                        end in
      let '(st2, r') := norm_args st1 o nm r in
      (st2, (a, v') :: r')
    end.

  Definition norm_list (f : nst -> sel -> nst * sel) : nst -> list sel -> nst * list sel :=
    fix go (st : nst) (l : list sel) {struct l} : nst * list sel :=
      match l with
      | [] => (st, [])
      | s :: r => let '(st1, s') := f st s in
                  let '(st2, r') := go st1 r in
                  (st2, s' :: r')
      end.

  (* normalizeSelectionSet / normalizeField *)
  Fixpoint norm_sel (o : otype) (st : nst) (s : sel) {struct s} : nst * sel :=
    match s with
    | Field d nm args sub =>
      match field_def o nm with
      | None => (st, s)
      | Some ft =>
        let '(st1, args') := norm_args st o nm args in
        match ft with
        | Some o' => let '(st2, sub') := norm_list (norm_sel o') st1 sub in (st2, Field d nm args' sub')
        | None => (st1, Field d nm args' sub)
        end
      end
    | Inline d tc sub =>
      let o' := match tc with
                | Some n => match tc_obj n with Some x => x | None => o end
                | None => o
                end in
      let '(st1, sub') := norm_list (norm_sel o') st sub in (st1, Inline d tc sub')
    | Spread _ _ => (st, s)
    end.

  Definition n_init : nst := mkN 0 [] [].

  (* normalizeDocument on the selected operation: its selection set under the root type *)
  Definition normalize (root : otype) (sels : list sel) : nst * list sel :=
    if existsb spreads sels then (n_init, sels) else norm_list (norm_sel root) n_init sels.

  (* ---- denotation ---- *)

  Definition renv := list (name * option cval).
  Definition restrict (env : name -> option cval) (xs : list name) : renv := map (fun x => (x, env x)) xs.

  Inductive darg := DVal (c : option cval) | DArgOpaque (v : value) (r : renv).

  Inductive dsel :=
  | DField (d : deco) (dr : renv) (nm : name) (args : list (name * darg)) (sub : list dsel)
  | DInline (d : deco) (dr : renv) (tc : option name) (sub : list dsel)
  | DSpread (d : deco) (dr : renv) (f : name)
  | DOpaque (s : sel) (r : renv).

  Definition denote_arg (env : name -> option cval) (ot : option ty) (v : value) : darg :=
    match ot, v with
    | Some t, VLit l => DVal (lit_coerce t l)
    | Some t, VVar x => DVal (env x)
    | _, _ => DArgOpaque v (restrict env (value_vars v))
    end.

  Definition opaque (env : name -> option cval) (s : sel) : dsel := DOpaque s (restrict env (sel_vars s)).

  Fixpoint denote (env : name -> option cval) (o : otype) (s : sel) {struct s} : dsel :=
    match s with
    | Field d nm args sub =>
      match field_def o nm with
      | None => opaque env s
      | Some ft =>
        DField d (restrict env (deco_vars d)) nm
               (map (fun a => (fst a, denote_arg env (arg_ty o nm (fst a)) (snd a))) args)
               match ft with
               | Some o' => map (denote env o') sub
               | None => map (opaque env) sub
               end
      end
    | Inline d tc sub =>
      let o' := match tc with
                | Some n => match tc_obj n with Some x => x | None => o end
                | None => o
                end in
      DInline d (restrict env (deco_vars d)) tc (map (denote env o') sub)
    | Spread d f => DSpread d (restrict env (deco_vars d)) f
    end.

  (* the variable values the executor computes for the normalised operation:
     the caller's, plus each synthetic definition applied to its SynthArgs value *)
  Definition extend (env : name -> option cval) (synth : list (name * (ty * cval))) : name -> option cval :=
    fun x => match find (fun e => fst e =? x) synth with
             | Some e => var_coerce (fst (snd e)) (snd (snd e))
             | None => env x
             end.
End Norm.
