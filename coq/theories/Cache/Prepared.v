(* Model of prepared-plan reuse (plan.go: PlanQuery once, ExecutePlan many
   times).

   A Plan has a part that PlanQuery builds and nobody writes afterwards
   ([S]: the operation, fragments, root selection plan, static argument maps,
   which the executor copies before handing them to a resolver) and slots that
   executions fill lazily under a mutex: Plan.subPlans[key] and
   fieldPlan.abstractAlternatives[runtime type].  What goes into a slot is a
   function of the immutable part and the slot's key alone ([init_slot] =
   planSelectionSetsLocked / planMergedSelectionsForType) -- "idempotently
   initialised".

   An execution is an arbitrary program over that one effect: it may, any
   number of times and depending on everything it has computed so far
   (variables, root value, resolver results), ask for the content of a slot
   ([Need]); everything else (resolvers, completion, error handling) is pure
   from the plan's point of view and lives in the continuations.  Quantifying
   over all programs quantifies over all resolvers and all data.
   No proofs here. *)
From Coq Require Import List NArith Bool.
Import ListNotations.
Open Scope N_scope.

Section Prepared.
  Context {S SP V Root Res : Type}.
  Definition slot := N.                         (* (field plan, runtime type) or sub-plan key *)
  Variable init_slot : S -> slot -> SP.

  Inductive prog :=
  | Ret (r : Res)
  | Need (sl : slot) (k : SP -> prog).

  (* ExecutePlan's walk for one request *)
  Variable body : S -> V -> Root -> prog.

  Definition memo := list (slot * SP).

  Definition find_slot (sl : slot) (m : memo) : option SP :=
    match find (fun e => fst e =? sl) m with Some e => Some (snd e) | None => None end.

  (* the executor against the plan's slots: read the slot, or fill it *)
  Fixpoint interp (s : S) (m : memo) (p : prog) : Res * memo :=
    match p with
    | Ret r => (r, m)
    | Need sl k =>
      match find_slot sl m with
      | Some sp => interp s m (k sp)
      | None => let sp := init_slot s sl in interp s ((sl, sp) :: m) (k sp)
      end
    end.

  (* reference: no slots at all, every alternative planned on the spot *)
  Fixpoint pure_eval (s : S) (p : prog) : Res :=
    match p with
    | Ret r => r
    | Need sl k => pure_eval s (k (init_slot s sl))
    end.

  Definition exec (s : S) (m : memo) (v : V) (root : Root) : Res * memo := interp s m (body s v root).

  (* one plan, many executions, the slots carried from one to the next *)
  Fixpoint exec_many (s : S) (m : memo) (runs : list (V * Root)) : list Res * memo :=
    match runs with
    | [] => ([], m)
    | (v, root) :: t => let '(r, m1) := exec s m v root in
                        let '(rs, m2) := exec_many s m1 t in
                        (r :: rs, m2)
    end.

  (* a fresh plan for every request: what Do does *)
  Definition fresh_exec (s : S) (v : V) (root : Root) : Res := fst (exec s [] v root).

  Definition consistent (s : S) (m : memo) : Prop := forall sl sp, In (sl, sp) m -> sp = init_slot s sl.
End Prepared.
