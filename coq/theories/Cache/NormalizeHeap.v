(* The same normalisation as Cache/Normalize.v, but as the code performs it:
   on a document whose Argument nodes are mutable heap cells
   (plan_cache_normalize.go: cloneOperation / cloneSelectionSet / cloneField
   make new Field, InlineFragment and Argument nodes -- "ac := *a; args[i] =
   &ac" -- and share fragment spreads, names, directives and values by
   reference; normalizeField then assigns arg.Value on the cloned Argument
   nodes).  Only Argument nodes are ever assigned to, so only they are cells
   here; a selection tree holds the ids of its arguments' cells.
   No proofs here. *)
From Coq Require Import List NArith Bool.
From GQL Require Import Cache.Normalize.
Import ListNotations.
Open Scope N_scope.

Section Heap.
  Context {L cval : Type}.
  Notation value := (@value L).
  Notation dir := (@dir L).
  Notation nst := (@nst L cval).

  Definition aid := N.
  Definition cell := (name * value)%type.          (* ast.Argument: Name, Value *)
  Definition heap := list (aid * cell).

  Inductive psel :=
  | PField (alias : option name) (nm : name) (args : list aid) (dirs : list dir) (sub : list psel)
  | PInline (tc : option name) (dirs : list dir) (sub : list psel)
  | PSpread (f : name) (dirs : list dir).

  Record hst := mkH { h_heap : heap; h_next : aid }.

  Definition dflt : cell := (0, VVar 0).
  Definition hget (h : heap) (i : aid) : cell :=
    match find (fun e => fst e =? i) h with Some e => snd e | None => dflt end.
  Definition hset (hs : hst) (i : aid) (c : cell) : hst := mkH ((i, c) :: h_heap hs) (h_next hs).
  Definition halloc (hs : hst) (c : cell) : hst * aid := (mkH ((h_next hs, c) :: h_heap hs) (h_next hs + 1), h_next hs).

  (* the document a tree of pointers stands for, in a given heap *)
  Fixpoint read_sel (h : heap) (p : psel) : @sel L :=
    match p with
    | PField al nm ids ds sub => Field al nm (map (hget h) ids) ds (map (read_sel h) sub)
    | PInline tc ds sub => Inline tc ds (map (read_sel h) sub)
    | PSpread f ds => Spread f ds
    end.

  Fixpoint pspreads (p : psel) : bool :=
    match p with
    | PField _ _ _ _ sub => existsb pspreads sub
    | PInline _ _ sub => existsb pspreads sub
    | PSpread _ _ => true
    end.

  (* ---- cloneField / cloneSelectionSet ---- *)

  Fixpoint clone_args (hs : hst) (ids : list aid) : hst * list aid :=
    match ids with
    | [] => (hs, [])
    | i :: r => let '(hs1, j) := halloc hs (hget (h_heap hs) i) in
                let '(hs2, r') := clone_args hs1 r in
                (hs2, j :: r')
    end.

  Definition thread_list {X} (f : hst -> psel -> hst * X) : hst -> list psel -> hst * list X :=
    fix go (hs : hst) (l : list psel) {struct l} : hst * list X :=
      match l with
      | [] => (hs, [])
      | p :: r => let '(hs1, x) := f hs p in
                  let '(hs2, r') := go hs1 r in
                  (hs2, x :: r')
      end.

  Fixpoint clone_sel (hs : hst) (p : psel) {struct p} : hst * psel :=
    match p with
    | PField al nm ids ds sub =>
      let '(hs1, ids') := clone_args hs ids in
      let '(hs2, sub') := thread_list clone_sel hs1 sub in
      (hs2, PField al nm ids' ds sub')
    | PInline tc ds sub =>
      let '(hs1, sub') := thread_list clone_sel hs sub in (hs1, PInline tc ds sub')
    | PSpread _ _ => (hs, p)                     (* shared by reference *)
    end.

  (* ---- the walk that assigns arg.Value ---- *)

  Variable value_eqb : value -> value -> bool.
  Variable cval_eqb : cval -> cval -> bool.
  Variable synth_name : N -> name.
  Variable field_def : otype -> name -> option (option otype).
  Variable arg_ty : otype -> name -> name -> option ty.
  Variable tc_obj : name -> option otype.
  Variable coerce : ty -> value -> (name -> option cval) -> option cval.
  Variable lit_valid : ty -> value -> bool.
  Variable var_coerce : ty -> cval -> option cval.
  Variable taken : list name.

  Notation try_extract := (try_extract value_eqb cval_eqb synth_name coerce lit_valid var_coerce taken).

  Fixpoint hnorm_args (st : nst) (hs : hst) (o : otype) (nm : name) (ids : list aid) : nst * hst :=
    match ids with
    | [] => (st, hs)
    | i :: r =>
      let '(a, v) := hget (h_heap hs) i in
      let '(st1, hs1) := match arg_ty o nm a with
                         | Some t => let '(st', v') := try_extract st t v in
                                     match extract_value cval_eqb coerce lit_valid var_coerce t v with
                                     | Some _ => (st', hset hs i (a, v'))      (* arg.Value = newVal *)
                                     | None => (st', hs)
                                     end
                         | None => (st, hs)
                         end in
      hnorm_args st1 hs1 o nm r
    end.

  Definition hwalk_list (f : nst -> hst -> psel -> nst * hst) : nst -> hst -> list psel -> nst * hst :=
    fix go (st : nst) (hs : hst) (l : list psel) {struct l} : nst * hst :=
      match l with
      | [] => (st, hs)
      | p :: r => let '(st1, hs1) := f st hs p in go st1 hs1 r
      end.

  Fixpoint hnorm_sel (o : otype) (st : nst) (hs : hst) (p : psel) {struct p} : nst * hst :=
    match p with
    | PField al nm ids ds sub =>
      match field_def o nm with
      | None => (st, hs)
      | Some ft =>
        let '(st1, hs1) := hnorm_args st hs o nm ids in
        match ft with
        | Some o' => hwalk_list (hnorm_sel o') st1 hs1 sub
        | None => (st1, hs1)
        end
      end
    | PInline tc ds sub => hwalk_list (hnorm_sel (cond_type tc_obj o tc)) st hs sub
    | PSpread _ _ => (st, hs)
    end.

  (* normalizeDocument: clone, then (unless a fragment is spread) rewrite the clone in place *)
  Definition hnormalize (root : otype) (hs : hst) (ps : list psel) : nst * hst * list psel :=
    let '(hs1, ps') := thread_list clone_sel hs ps in
    if existsb pspreads ps' then (n_init, hs1, ps')
    else let '(st, hs2) := hwalk_list (hnorm_sel root) n_init hs1 ps' in (st, hs2, ps').

  (* every Argument cell a tree points to (spreads point to none) *)
  Fixpoint pids (p : psel) : list aid :=
    match p with
    | PField _ _ ids _ sub => ids ++ flat_map pids sub
    | PInline _ _ sub => flat_map pids sub
    | PSpread _ _ => []
    end.
End Heap.
