(* C10 -- GraphQL literals as introspection prints and re-reads them.

   lit is the constant part of language/ast's Value (numbers carry their lexeme, as
   ast.IntValue / ast.FloatValue do).  print_lit is printer.Print on such a value: it goes
   through the printer model of Syntax/Printer.v (lay_value, quote_string).  parse_lit is the
   library's lexer and parseValueLiteral(isConst = true) on a text: it goes through
   Syntax/Lexer.v and Syntax/Parser.v.  Both models are tied to the Go code by the parser /
   printer checks as well; here they are composed.

   Numbers: dec_N / dec_Z are fmt's %v (%d) of a Go int, fmt_g is fmt's %v of a float64
   (strconv 'g' format with the shortest digits) given the float's shortest decimal digits;
   Z_of_dec / float_of_lexeme read such lexemes back (strconv.Atoi / ParseFloat as exact
   decimals).  No proofs here. *)
From Coq Require Import List NArith ZArith Bool.
From Coq Require Decimal.
From GQL Require Import Base.Bytes.
From GQL Require Syntax.Lexer Syntax.Ast Syntax.Parser Syntax.Printer.
Import ListNotations.
Open Scope N_scope.

Inductive lit :=
| LInt (lexeme : bytes)      (* an INT token *)
| LFloat (lexeme : bytes)    (* a FLOAT token *)
| LStr (b : bytes)
| LBool (b : bool)
| LEnum (n : bytes)
| LList (l : list lit)
| LObj (fs : list (bytes * lit)).

(* ---------- decimal digits ---------- *)
Fixpoint bytes_of_uint (u : Decimal.uint) : bytes :=
  match u with
  | Decimal.Nil => []
  | Decimal.D0 r => 48 :: bytes_of_uint r | Decimal.D1 r => 49 :: bytes_of_uint r
  | Decimal.D2 r => 50 :: bytes_of_uint r | Decimal.D3 r => 51 :: bytes_of_uint r
  | Decimal.D4 r => 52 :: bytes_of_uint r | Decimal.D5 r => 53 :: bytes_of_uint r
  | Decimal.D6 r => 54 :: bytes_of_uint r | Decimal.D7 r => 55 :: bytes_of_uint r
  | Decimal.D8 r => 56 :: bytes_of_uint r | Decimal.D9 r => 57 :: bytes_of_uint r
  end.

Fixpoint uint_of_bytes (b : bytes) : Decimal.uint :=
  match b with
  | [] => Decimal.Nil
  | c :: r =>
    let u := uint_of_bytes r in
    match c with
    | 49 => Decimal.D1 u | 50 => Decimal.D2 u | 51 => Decimal.D3 u | 52 => Decimal.D4 u | 53 => Decimal.D5 u
    | 54 => Decimal.D6 u | 55 => Decimal.D7 u | 56 => Decimal.D8 u | 57 => Decimal.D9 u
    | _ => Decimal.D0 u
    end
  end.

(* %d of a non-negative / of any Go int *)
Definition dec_N (n : N) : bytes := bytes_of_uint (N.to_uint n).
Definition dec_Z (z : Z) : bytes :=
  match z with
  | Zneg p => 45 :: dec_N (Npos p)
  | _ => dec_N (Z.to_N z)
  end.

(* reading a run of digits / an optionally signed run of digits *)
Definition N_of_dec (ds : bytes) : N := N.of_uint (uint_of_bytes ds).
Definition Z_of_dec (lx : bytes) : Z :=
  match lx with
  | 45 :: r => (- Z.of_N (N_of_dec r))%Z
  | 43 :: r => Z.of_N (N_of_dec r)
  | _ => Z.of_N (N_of_dec lx)
  end.

(* ---------- floats by their shortest decimal digits: +-0.d1...dn * 10^dp ---------- *)
Definition digit_bytes (ds : list N) : bytes := map (fun d => 48 + d) ds.
Definition digit_vals (bs : bytes) : list N := map (fun c => c - 48) bs.

Fixpoint zeros (n : nat) : bytes := match n with O => [] | S k => 48 :: zeros k end.

Definition sign_bytes (neg : bool) : bytes := if neg then [45] else [].

(* the exponent of %e: sign and at least two digits *)
Definition pad2 (ds : bytes) : bytes := match ds with [_] => 48 :: ds | _ => ds end.
Definition fmt_exp (e : Z) : bytes := (if (e <? 0)%Z then 45 else 43) :: pad2 (dec_N (Z.abs_N e)).

(* strconv %e with the shortest digits: d[.ddd]e+-XX *)
Definition fmt_e_int (ds : list N) : bytes := match ds with [] => [48] | d :: _ => [48 + d] end.
Definition fmt_e_frac (ds : list N) : bytes :=
  match ds with _ :: ((_ :: _) as r) => 46 :: digit_bytes r | _ => [] end.
Definition fmt_e (neg : bool) (ds : list N) (dp : Z) : bytes :=
  sign_bytes neg ++ fmt_e_int ds ++ fmt_e_frac ds ++ 101 :: fmt_exp (dp - 1).

(* strconv %f with the shortest digits: the digits before the decimal point (padded with zeros),
   then, if any digit is left, the point, leading zeros and the remaining digits *)
Definition fmt_f_int (ds : list N) (dp : Z) : bytes :=
  if (0 <? dp)%Z then digit_bytes (firstn (Z.to_nat dp) ds) ++ zeros (Z.to_nat (dp - Z.of_nat (length ds))) else [48].
Definition fmt_f_frac (ds : list N) (dp : Z) : bytes :=
  if (dp <? Z.of_nat (length ds))%Z then 46 :: zeros (Z.to_nat (- dp)) ++ digit_bytes (skipn (Z.to_nat dp) ds) else [].
Definition fmt_f (neg : bool) (ds : list N) (dp : Z) : bytes :=
  sign_bytes neg ++ fmt_f_int ds dp ++ fmt_f_frac ds dp ++ [].

(* fmt's %v of a float64 (strconv 'g', shortest digits): %e when the exponent is below -4 or at least 6,
   %f otherwise *)
Definition fmt_g (neg : bool) (ds : list N) (dp : Z) : bytes :=
  match ds with
  | [] => sign_bytes neg ++ [48]
  | _ => let e := (dp - 1)%Z in
         if ((e <? -4) || (6 <=? e))%Z then fmt_e neg ds dp else fmt_f neg ds dp
  end.

(* a number lexeme that the lexer takes for a FLOAT token: it has a fraction or an exponent *)
Definition floaty (lx : bytes) : bool := existsb (fun c => (c =? 46) || (c =? 101) || (c =? 69)) lx.

(* reading a number lexeme as an exact decimal *)
Fixpoint drop_zeros (ds : list N) : list N :=
  match ds with
  | 0 :: r => drop_zeros r
  | _ => ds
  end.

Definition canon_dec (neg : bool) (ds : list N) (p : Z) : bool * list N * Z :=
  let d1 := drop_zeros ds in
  let k := Z.of_nat (length ds - length d1) in
  match rev (drop_zeros (rev d1)) with
  | [] => (false, [], 0%Z)
  | d2 => (neg, d2, (p - k)%Z)
  end.

Definition float_of_lexeme (lx : bytes) : bool * list N * Z :=
  let '(neg, r) := match lx with 45 :: r => (true, r) | _ => (false, lx) end in
  let '(ip, r1) := Lexer.span Lexer.is_digit r in
  let '(fp, r2) := match r1 with 46 :: r' => Lexer.span Lexer.is_digit r' | _ => ([], r1) end in
  let e := match r2 with _ :: r' => Z_of_dec r' | [] => 0%Z end in
  canon_dec neg (digit_vals (ip ++ fp)) (Z.of_nat (length ip) + e)%Z.

(* a Go int read as a float *)
Definition float_of_Z (z : Z) : bool * list N * Z :=
  let ds := digit_vals (dec_N (Z.abs_N z)) in
  canon_dec (z <? 0)%Z ds (Z.of_nat (length ds)).

(* ---------- literals as AST values, printing and parsing ---------- *)
Definition zl : Ast.loc := Ast.mkloc 0 0.

Fixpoint ast_of_lit (l : lit) : Ast.value :=
  match l with
  | LInt lx => Ast.VInt lx zl
  | LFloat lx => Ast.VFloat lx zl
  | LStr b => Ast.VStr b zl
  | LBool b => Ast.VBool b zl
  | LEnum n => Ast.VEnum n zl
  | LList vs => Ast.VList (map ast_of_lit vs) zl
  | LObj fs => Ast.VObj (map (fun f => Ast.OField (Ast.mkname (fst f) zl) (ast_of_lit (snd f)) zl) fs) zl
  end.

Fixpoint lit_of_ast (v : Ast.value) : lit :=
  match v with
  | Ast.VVar n _ => LEnum (36 :: Ast.nval n)       (* not a constant; never produced by parse_lit *)
  | Ast.VInt s _ => LInt s
  | Ast.VFloat s _ => LFloat s
  | Ast.VStr s _ => LStr s
  | Ast.VBool b _ => LBool b
  | Ast.VEnum s _ => LEnum s
  | Ast.VList vs _ => LList (map lit_of_ast vs)
  | Ast.VObj fs _ => LObj (map (fun f => match f with Ast.OField n v _ => (Ast.nval n, lit_of_ast v) end) fs)
  end.

(* printer.Print(astValue) *)
Definition print_lit (l : lit) : bytes := Printer.print_value (ast_of_lit l).

(* lexer + parseValueLiteral(isConst = true) on the whole text *)
Definition parse_lit (text : bytes) : option lit :=
  match Lexer.lex text with
  | Lexer.Ok (toks, _) =>
    match Parser.parse_value (S (length toks)) true (0, toks) with
    | Lexer.Ok (v, (_, [t])) => match Lexer.tk t with Lexer.EOF => Some (lit_of_ast v) | _ => None end
    | _ => None
    end
  | _ => None
  end.

(* ---------- literals that the printer and the lexer agree on ---------- *)
Definition num_lexeme_ok (lx : bytes) (isf : bool) : bool :=
  match Lexer.read_number lx with
  | Some (l, f, []) => bytes_eqb l lx && Bool.eqb f isf
  | _ => false
  end.

Definition name_lexeme_ok (v : bytes) : bool :=
  match v with c :: r => Lexer.is_name_start c && forallb Lexer.is_name_char r | [] => false end.

(* an enum value is a name other than true, false and null *)
Definition enum_lexeme_ok (v : bytes) : bool :=
  name_lexeme_ok v && negb (bytes_eqb v [116; 114; 117; 101]) && negb (bytes_eqb v [102; 97; 108; 115; 101])
  && negb (bytes_eqb v [110; 117; 108; 108]).

(* valid UTF-8 (what quoteString's range over the runes preserves) *)
Fixpoint utf8_ok (fuel : nat) (s : bytes) : bool :=
  match fuel with
  | O => false
  | S f =>
    match s with
    | [] => true
    | c :: _ =>
      match Lexer.rune_at s with
      | Some (r, n) => ((1 <? n) || (c <? 128)) && utf8_ok f (Lexer.dropN n s)
      | None => true
      end
    end
  end.
Definition string_ok (s : bytes) : bool := utf8_ok (S (length s)) s.

Fixpoint lit_wf (l : lit) : bool :=
  match l with
  | LInt lx => num_lexeme_ok lx false
  | LFloat lx => num_lexeme_ok lx true
  | LStr b => string_ok b
  | LBool _ => true
  | LEnum n => enum_lexeme_ok n
  | LList vs => forallb lit_wf vs
  | LObj fs => forallb (fun f => name_lexeme_ok (fst f) && lit_wf (snd f)) fs
  end.

(* structural equality *)
Fixpoint lit_eqb (a b : lit) {struct a} : bool :=
  match a, b with
  | LInt x, LInt y | LFloat x, LFloat y | LStr x, LStr y | LEnum x, LEnum y => bytes_eqb x y
  | LBool x, LBool y => Bool.eqb x y
  | LList x, LList y =>
    (fix go (x y : list lit) : bool :=
       match x, y with
       | [], [] => true
       | u :: x', w :: y' => lit_eqb u w && go x' y'
       | _, _ => false
       end) x y
  | LObj x, LObj y =>
    (fix go (x y : list (bytes * lit)) : bool :=
       match x, y with
       | [], [] => true
       | (n, u) :: x', (m, w) :: y' => bytes_eqb n m && lit_eqb u w && go x' y'
       | _, _ => false
       end) x y
  | _, _ => false
  end.
